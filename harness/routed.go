package harness

import (
	"context"
	"fmt"

	"cosmossdk.io/core/appmodule"
	sdk "github.com/cosmos/cosmos-sdk/types"
	"github.com/cosmos/cosmos-sdk/types/module"

	allianceapp "github.com/terra-money/alliance/app"
	"github.com/terra-money/alliance/x/alliance/types"
)

// routedMsgServer sends every alliance message through the application's message service router — the path a transaction
// takes after the ante handler: the message must be registered by the module (`RegisterServices`), its `ValidateBasic` (where
// it has one) runs, and the handler the ROUTER holds is the one that executes — instead of calling the keeper's message
// server directly. Events the router collects are re-emitted on the calling context.
type routedMsgServer struct {
	app    *allianceapp.App
	direct types.MsgServer
}

// do: the routed execution runs on a branch; when it succeeds the branch is written and the router's events are re-emitted.
// When it fails the router drops the events of the failed execution — which carry the reward withdrawals the model needs to
// reach the same failure — so the failed message is executed again, directly, on the untouched context, and the two failures
// must be of the same kind.
func (r routedMsgServer) do(ctx context.Context, msg sdk.Msg, direct func(context.Context) error) error {
	h := r.app.MsgServiceRouter().Handler(msg)
	if h == nil {
		return fmt.Errorf("no handler registered for %s", sdk.MsgTypeURL(msg))
	}
	sctx := sdk.UnwrapSDKContext(ctx)
	cctx, write := sctx.CacheContext()
	var res *sdk.Result
	var err error
	var pan interface{}
	func() {
		defer func() { pan = recover() }()
		res, err = h(cctx, msg)
	}()
	if pan != nil {
		// a panic inside the routed execution: repeat it directly, where the events emitted before the panic survive
		return direct(ctx)
	}
	if err == nil {
		write()
		if res != nil {
			sctx.EventManager().EmitEvents(res.GetEvents())
		}
		return nil
	}
	err2 := direct(ctx)
	if err2 == nil || classifyErr(err2) != classifyErr(err) {
		return fmt.Errorf("routed and direct execution disagree: routed %v, direct %v", err, err2)
	}
	return err2
}

func (r routedMsgServer) Delegate(ctx context.Context, m *types.MsgDelegate) (*types.MsgDelegateResponse, error) {
	return &types.MsgDelegateResponse{}, r.do(ctx, m, func(c context.Context) error { _, e := r.direct.Delegate(c, m); return e })
}
func (r routedMsgServer) Redelegate(ctx context.Context, m *types.MsgRedelegate) (*types.MsgRedelegateResponse, error) {
	return &types.MsgRedelegateResponse{}, r.do(ctx, m, func(c context.Context) error { _, e := r.direct.Redelegate(c, m); return e })
}
func (r routedMsgServer) Undelegate(ctx context.Context, m *types.MsgUndelegate) (*types.MsgUndelegateResponse, error) {
	return &types.MsgUndelegateResponse{}, r.do(ctx, m, func(c context.Context) error { _, e := r.direct.Undelegate(c, m); return e })
}
func (r routedMsgServer) ClaimDelegationRewards(ctx context.Context, m *types.MsgClaimDelegationRewards) (*types.MsgClaimDelegationRewardsResponse, error) {
	return &types.MsgClaimDelegationRewardsResponse{}, r.do(ctx, m, func(c context.Context) error { _, e := r.direct.ClaimDelegationRewards(c, m); return e })
}
func (r routedMsgServer) UpdateParams(ctx context.Context, m *types.MsgUpdateParams) (*types.MsgUpdateParamsResponse, error) {
	return &types.MsgUpdateParamsResponse{}, r.do(ctx, m, func(c context.Context) error { _, e := r.direct.UpdateParams(c, m); return e })
}
func (r routedMsgServer) CreateAlliance(ctx context.Context, m *types.MsgCreateAlliance) (*types.MsgCreateAllianceResponse, error) {
	return &types.MsgCreateAllianceResponse{}, r.do(ctx, m, func(c context.Context) error { _, e := r.direct.CreateAlliance(c, m); return e })
}
func (r routedMsgServer) UpdateAlliance(ctx context.Context, m *types.MsgUpdateAlliance) (*types.MsgUpdateAllianceResponse, error) {
	return &types.MsgUpdateAllianceResponse{}, r.do(ctx, m, func(c context.Context) error { _, e := r.direct.UpdateAlliance(c, m); return e })
}
func (r routedMsgServer) DeleteAlliance(ctx context.Context, m *types.MsgDeleteAlliance) (*types.MsgDeleteAllianceResponse, error) {
	return &types.MsgDeleteAllianceResponse{}, r.do(ctx, m, func(c context.Context) error { _, e := r.direct.DeleteAlliance(c, m); return e })
}

// moduleEndBlock runs the alliance module's end blocker as the module manager would: through the AppModule registered in
// app.go under the module's name.
func (e *Env) moduleEndBlock(ctx sdk.Context) error {
	m, ok := e.App.ModuleManager.Modules[types.ModuleName]
	if !ok {
		return fmt.Errorf("the alliance module is not registered with the module manager")
	}
	eb, ok := m.(appmodule.HasEndBlocker)
	if !ok {
		return fmt.Errorf("the registered alliance module has no end blocker")
	}
	return eb.EndBlock(ctx)
}

// moduleGenesis returns the genesis interface of the registered alliance module (JSON export / import as on a chain restart)
func (e *Env) moduleGenesis() (module.HasGenesis, error) {
	m, ok := e.App.ModuleManager.Modules[types.ModuleName]
	if !ok {
		return nil, fmt.Errorf("the alliance module is not registered with the module manager")
	}
	g, ok := m.(module.HasGenesis)
	if !ok {
		return nil, fmt.Errorf("the registered alliance module has no genesis")
	}
	return g, nil
}
