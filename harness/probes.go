package harness

import (
	"regexp"
	"fmt"
	"math/big"
	"os"
	"sort"
	"strings"

	"cosmossdk.io/math"
	sdk "github.com/cosmos/cosmos-sdk/types"

	"github.com/terra-money/alliance/x/alliance/keeper"
	"github.com/terra-money/alliance/x/alliance/types"
)

// Probes: non-destructive experiments on a discarded branch of the state after a step (C05, C12, C13, C20).
// Enabled per property through VERIF_PROBES (comma list or "all").

func probeEnabled(p string) bool {
	v := os.Getenv("VERIF_PROBES")
	if v == "all" {
		return true
	}
	for _, x := range strings.Split(v, ",") {
		if x == p {
			return true
		}
	}
	return false
}

func (st *Step) pfail(prop, class, format string, a ...interface{}) {
	if st.Unhealthy != "" {
		format = "[" + class + "] " + format
		class = "unhealthy_" + st.Unhealthy
	}
	st.Notes = append(st.Notes, fmt.Sprintf("probe %s fail class=%s %s", prop, class, fmt.Sprintf(format, a...)))
}

// onBranch runs a message on a throw-away branch and returns (result class, bank delta of the user per denom).
func (e *Env) onBranch(ctx sdk.Context, u int, f func(ctx sdk.Context) error) (string, map[int]*big.Int, sdk.Context) {
	cctx, _ := ctx.CacheContext()
	cctx = cctx.WithEventManager(sdk.NewEventManager())
	before := map[int]*big.Int{}
	for di, dn := range Denoms {
		before[di] = e.App.BankKeeper.GetBalance(cctx, e.user(u), dn).Amount.BigInt()
	}
	res, _ := protect(func() error { return f(cctx) })
	delta := map[int]*big.Int{}
	for di, dn := range Denoms {
		d := new(big.Int).Sub(e.App.BankKeeper.GetBalance(cctx, e.user(u), dn).Amount.BigInt(), before[di])
		if d.Sign() != 0 {
			delta[di] = d
		}
	}
	return res, delta, cctx
}

func (e *Env) claimOn(ctx sdk.Context, u, v, d int) error {
	_, err := e.Msg.ClaimDelegationRewards(ctx, &types.MsgClaimDelegationRewards{DelegatorAddress: e.user(u).String(), ValidatorAddress: e.Vals[v].String(), Denom: Denoms[d]})
	return err
}

func (e *Env) undelegateOn(ctx sdk.Context, u, v, d int, amt *big.Int) error {
	_, err := e.Msg.Undelegate(ctx, &types.MsgUndelegate{DelegatorAddress: e.user(u).String(), ValidatorAddress: e.Vals[v].String(), Amount: sdk.Coin{Denom: Denoms[d], Amount: math.NewIntFromBigInt(amt)}})
	return err
}

func (e *Env) delegateOn(ctx sdk.Context, u, v, d int, amt *big.Int) error {
	_, err := e.Msg.Delegate(ctx, &types.MsgDelegate{DelegatorAddress: e.user(u).String(), ValidatorAddress: e.Vals[v].String(), Amount: sdk.Coin{Denom: Denoms[d], Amount: math.NewIntFromBigInt(amt)}})
	return err
}

// livenessClass names the known blocking mechanisms (DESIGN §1.1) from the failure and the state.
func (e *Env) livenessClass(s *State, v, d int, res string) string {
	sv := s.SVal(v)
	switch {
	case sv == nil:
		return "validator_removed"
	case strings.Contains(res, "neg_dec_coin"), strings.Contains(res, "neg_coin") && s.Asset(d) != nil && s.Asset(d).S.Sign() < 0:
		return "negative_share_total" // the asset's validator-share total drifted below zero (D13): issuance panics
	case strings.Contains(res, "insufficient_funds"):
		if e.Mon.ValueChanged {
			return "pool_short_after_value_change" // D6: entitlements follow CURRENT token values
		}
		if precisionStressed(s) || e.precisionShortfall(s, lastDetail) || e.roundShortfall(s, lastDetail, map[string]*big.Int{}) {
			return "pool_short_large_stake" // 18-digit share ratios / indices out of resolution
		}
		return "pool_short"
	case strings.Contains(res, "div_zero"):
		return "zero_token_validator"
	case strings.Contains(res, "insufficient_shares"), strings.Contains(res, "insufficient_tokens"), strings.Contains(res, "neg_coin"):
		return "balance_not_withdrawable"
	}
	return "blocked"
}

// Probe runs the enabled probes after a step.
func (e *Env) Probe(st *Step) {
	post := st.PostS
	f := opFields(st)
	kind := f[0]
	ok := st.Res == "R ok"
	ctx := e.Ctx
	if kind == "endblock" && !ok {
		return // the chain has halted: nothing can be probed on the partial state
	}

	if probeEnabled("C13") && ok {
		switch kind {
		case "claim":
			if f[3] != "-1" {
				u, v, d := atoi(f[1]), atoi(f[2]), atoi(f[3])
				res, delta, _ := e.onBranch(ctx, u, func(c sdk.Context) error { return e.claimOn(c, u, v, d) })
				if res == "ok" && len(delta) > 0 {
					st.pfail("C13", "second_claim_pays", "an immediate second claim of (%d,%d,%d) paid %v", u, v, d, delta)
				}
			}
		case "delegate", "redelegate":
			u, v, d := atoi(f[1]), atoi(f[2]), atoi(f[3])
			if kind == "redelegate" {
				v, d = atoi(f[3]), atoi(f[4])
			}
			if st.PreS.Del(u, v, d) == nil && post.Del(u, v, d) != nil {
				res, delta, _ := e.onBranch(ctx, u, func(c sdk.Context) error { return e.claimOn(c, u, v, d) })
				if res == "ok" && len(delta) > 0 {
					cls := "retro_new_position"
					if kind == "redelegate" {
						cls = "retro_redelegate_new_position" // D7
					}
					st.pfail("C13", cls, "a position created by %s immediately claims %v", kind, delta)
				}
			}
		}
	}

	if probeEnabled("C05") && kind != "env" {
		for i := range post.Dels {
			dl := &post.Dels[i]
			if dl.Balance == nil || dl.Balance.Sign() <= 0 {
				continue
			}
			res, _, c2 := e.onBranch(ctx, dl.Del, func(c sdk.Context) error { return e.claimOn(c, dl.Del, dl.Val, dl.Denom) })
			if res != "ok" {
				st.pfail("C05", e.livenessClass(post, dl.Val, dl.Denom, res)+"_claim", "claim of (%d,%d,%d) fails: %s", dl.Del, dl.Val, dl.Denom, res)
				continue
			}
			res, _, _ = e.onBranch(c2, dl.Del, func(c sdk.Context) error { return e.undelegateOn(c, dl.Del, dl.Val, dl.Denom, dl.Balance) })
			if res != "ok" {
				cls := e.livenessClass(post, dl.Val, dl.Denom, res)
				if a := post.Asset(dl.Denom); cls == "balance_not_withdrawable" && a != nil && a.T.Cmp(bigE15) >= 0 {
					cls = "balance_not_withdrawable_large" // D14: one ulp of a share ratio times a large amount
				}
				st.pfail("C05", cls+"_exit", "full exit of (%d,%d,%d) with reported balance %s fails: %s", dl.Del, dl.Val, dl.Denom, dl.Balance, res)
			}
		}
		for _, a := range post.Assets {
			for _, sv := range post.SVals {
				for _, amt := range []*big.Int{big.NewInt(1), new(big.Int).Exp(big.NewInt(10), big.NewInt(12), nil)} {
					u := AccUserBase
					res, _, _ := e.onBranch(ctx, u, func(c sdk.Context) error {
						coins := sdk.NewCoins(sdk.NewCoin(Denoms[a.Denom], math.NewIntFromBigInt(amt)))
						if err := e.App.BankKeeper.MintCoins(c, "mint", coins); err != nil {
							return err
						}
						if err := e.App.BankKeeper.SendCoinsFromModuleToAccount(c, "mint", e.user(u), coins); err != nil {
							return err
						}
						return e.delegateOn(c, u, sv.ID, a.Denom, amt)
					})
					if res != "ok" {
						st.pfail("C05", e.livenessClass(post, sv.ID, a.Denom, res)+"_enter", "delegating %s of asset %d to validator %d fails: %s", amt, a.Denom, sv.ID, res)
					}
				}
			}
		}
	}

	if probeEnabled("C12") && kind != "env" {
		cctx, _ := ctx.CacheContext()
		cctx = cctx.WithEventManager(sdk.NewEventManager())
		order := make([]int, len(post.Dels))
		for i := range order {
			order[i] = i
		}
		// rotate the order by the step's height so that different orders are exercised
		if n := len(order); n > 1 {
			r := int(post.Height) % n
			order = append(order[r:], order[:r]...)
			if post.Height%2 == 1 {
				sort.Sort(sort.Reverse(sort.IntSlice(order)))
			}
		}
		// everything the pool pays out in this claim-all round, per denom (the volume the 18-digit resolution applies to)
		paid := map[string]*big.Int{}
		userBal := func() map[string]*big.Int {
			m := map[string]*big.Int{}
			for ui := range e.Users {
				for _, c := range e.App.BankKeeper.GetAllBalances(cctx, e.user(AccUserBase+ui)) {
					if m[c.Denom] == nil {
						m[c.Denom] = new(big.Int)
					}
					m[c.Denom].Add(m[c.Denom], c.Amount.BigInt())
				}
			}
			return m
		}
		for _, i := range order {
			dl := &post.Dels[i]
			if post.SVal(dl.Val) == nil || post.Asset(dl.Denom) == nil {
				continue
			}
			b0 := userBal()
			res, _ := protect(func() error { return e.claimOn(cctx, dl.Del, dl.Val, dl.Denom) })
			detail := lastDetail
			for dn, x := range userBal() {
				d := new(big.Int).Set(x)
				if b0[dn] != nil {
					d.Sub(d, b0[dn])
				}
				if d.Sign() > 0 {
					if paid[dn] == nil {
						paid[dn] = new(big.Int)
					}
					paid[dn].Add(paid[dn], d)
				}
			}
			if strings.Contains(res, "insufficient_funds") {
				cls := "pool_short"
				if e.Mon.ValueChanged {
					cls = "pool_short_after_value_change" // D6: payout uses current token value
				} else if a := post.Asset(dl.Denom); a != nil && a.T.Cmp(bigE15) >= 0 || precisionStressed(post) || e.precisionShortfall(post, detail) || e.roundShortfall(post, detail, paid) {
					cls = "pool_short_large_stake" // the 18-digit per-token index rounds up; times a large stake
				}
				st.pfail("C12", cls, "claim of (%d,%d,%d) fails when everybody claims: pool holds %s", dl.Del, dl.Val, dl.Denom, e.App.BankKeeper.GetAllBalances(cctx, e.acctAddr[AccPool]))
				break
			}
		}
	}

	if probeEnabled("C20") && kind != "env" {
		e.probeQueries(st)
		st.Queries = e.queryLines(st, true)
	} else if probeEnabled("C11") && kind != "env" {
		st.Queries = e.queryLines(st, false) // the bank supply queries only
	}
}

func sortedEq(a, b []string) bool {
	sort.Strings(a)
	sort.Strings(b)
	return strings.Join(a, ";") == strings.Join(b, ";")
}

func (e *Env) probeQueries(st *Step) {
	post := st.PostS
	qs := keeper.NewQueryServerImpl(e.App.AllianceKeeper)
	cctx, _ := e.Ctx.CacheContext()
	ub := func(u types.UnbondingDelegation) string {
		return fmt.Sprintf("%d %s %d %s", e.valID(mustVal(u.ValidatorAddress)), bigTimeNs(u.CompletionTime), denomID(u.Denom), u.Amount)
	}
	for ui := range e.Users {
		u := AccUserBase + ui
		// by delegator
		var ref []string
		deleted := false
		for _, q := range post.UQ {
			for _, en := range q.Entries {
				if en.Del == u {
					ref = append(ref, fmt.Sprintf("%d %s %d %s", en.Val, q.Time, en.Denom, en.Amt))
					if post.Asset(en.Denom) == nil {
						deleted = true
					}
				}
			}
		}
		r, err := qs.AllianceUnbondingsByDelegator(cctx, &types.QueryAllianceUnbondingsByDelegatorRequest{DelegatorAddr: e.user(u).String()})
		var got []string
		if err == nil {
			for _, x := range r.Unbondings {
				got = append(got, ub(x))
			}
		}
		if err != nil || !sortedEq(got, ref) {
			cls := "unbondings_by_delegator"
			if deleted {
				cls = "unbondings_of_deleted_asset"
			} else if len(got) > len(ref) {
				cls = "unbondings_duplicated" // D11: a bucket emitted once per index key
			}
			st.pfail("C20", cls, "delegator %d: query returns %v, pending entries are %v (err %v)", u, got, ref, err)
		}
		for d := 0; d < 3; d++ {
			ref = nil
			for _, q := range post.UQ {
				for _, en := range q.Entries {
					if en.Del == u && en.Denom == d {
						ref = append(ref, fmt.Sprintf("%d %s %d %s", en.Val, q.Time, en.Denom, en.Amt))
					}
				}
			}
			r2, err := qs.AllianceUnbondingsByDenomAndDelegator(cctx, &types.QueryAllianceUnbondingsByDenomAndDelegatorRequest{Denom: Denoms[d], DelegatorAddr: e.user(u).String()})
			got = nil
			if err == nil {
				for _, x := range r2.Unbondings {
					got = append(got, ub(x))
				}
			}
			if err != nil || !sortedEq(got, ref) {
				cls := "unbondings_by_denom"
				if len(got) > len(ref) {
					cls = "unbondings_foreign_or_duplicated" // D11
				}
				st.pfail("C20", cls, "delegator %d denom %d: query returns %v, pending entries are %v (err %v)", u, d, got, ref, err)
			}
			for v := range e.Vals {
				if post.SVal(v) == nil {
					continue
				}
				ref = nil
				for _, q := range post.UQ {
					for _, en := range q.Entries {
						if en.Del == u && en.Denom == d && en.Val == v {
							ref = append(ref, fmt.Sprintf("%d %s %d %s", en.Val, q.Time, en.Denom, en.Amt))
						}
					}
				}
				r3, err := qs.AllianceUnbondings(cctx, &types.QueryAllianceUnbondingsRequest{Denom: Denoms[d], DelegatorAddr: e.user(u).String(), ValidatorAddr: e.Vals[v].String()})
				got = nil
				if err == nil {
					for _, x := range r3.Unbondings {
						got = append(got, ub(x))
					}
				}
				if err != nil || !sortedEq(got, ref) {
					cls := "unbondings_by_validator"
					if len(got) > len(ref) {
						cls = "unbondings_foreign_or_duplicated" // D11
					}
					st.pfail("C20", cls, "delegator %d denom %d validator %d: query returns %v, pending entries are %v (err %v)", u, d, v, got, ref, err)
				}
			}
			// redelegations
			ref = nil
			for _, rd := range post.Redels {
				if rd.KDel == u && rd.KDenom == d {
					ref = append(ref, fmt.Sprintf("%d %d %s %s", rd.R.Src, rd.R.Dst, rd.KTime, rd.R.Amt))
				}
			}
			r4, err := qs.AllianceRedelegations(cctx, &types.QueryAllianceRedelegationsRequest{Denom: Denoms[d], DelegatorAddr: e.user(u).String()})
			got = nil
			if err == nil {
				for _, x := range r4.Redelegations {
					got = append(got, fmt.Sprintf("%d %d %s %s", e.valID(mustVal(x.SrcValidatorAddress)), e.valID(mustVal(x.DstValidatorAddress)), bigTimeNs(x.CompletionTime), x.Balance.Amount))
				}
			}
			if err != nil || !sortedEq(got, ref) {
				st.pfail("C20", "redelegations", "delegator %d denom %d: query returns %v, records are %v (err %v)", u, d, got, ref, err)
			}
		}
	}
	// delegation balances: the reported balance can be undelegated, one more cannot
	e.probePagination(st, qs, cctx)
	for i := range post.Dels {
		dl := &post.Dels[i]
		if post.SVal(dl.Val) == nil || post.Asset(dl.Denom) == nil {
			continue
		}
		var r *types.QueryAllianceDelegationResponse
		var err error
		if res, detail := protect(func() error {
			r, err = qs.AllianceDelegation(cctx, &types.QueryAllianceDelegationRequest{DelegatorAddr: e.user(dl.Del).String(), ValidatorAddr: e.Vals[dl.Val].String(), Denom: Denoms[dl.Denom]})
			return err
		}); strings.HasPrefix(res, "panic") {
			st.pfail("C20", "delegation_query_panics", "query of (%d,%d,%d) panics: %s", dl.Del, dl.Val, dl.Denom, detail)
			continue
		}
		if err != nil {
			st.pfail("C20", "delegation_query", "query of (%d,%d,%d) fails: %v", dl.Del, dl.Val, dl.Denom, err)
			continue
		}
		if dl.Balance == nil || r.Delegation.Balance.Amount.BigInt().Cmp(dl.Balance) != 0 || r.Delegation.Delegation.Shares.BigInt().Cmp(dl.Shares) != 0 {
			st.pfail("C20", "delegation_query", "query of (%d,%d,%d) reports %s / %s", dl.Del, dl.Val, dl.Denom, r.Delegation.Balance, r.Delegation.Delegation.Shares)
		}
	}
}

// precisionStressed: the 18-digit fixed point is out of resolution for the split of rewards: an asset total of at least
// 1e15 base units, or a validator holding less than 1e-9 of an asset's shares (its token total is then known to ~9 digits
// only, while its delegators' entitlements are computed from integer token values)
func precisionStressed(s *State) bool {
	for i := range s.Assets {
		a := &s.Assets[i]
		if a.T.Cmp(bigE15) >= 0 {
			return true
		}
		for j := range s.Vals {
			vs := dcAmt(s.Vals[j].VS, a.Denom)
			if vs.Sign() > 0 && new(big.Int).Quo(a.S, vs).Cmp(big.NewInt(1_000_000_000)) >= 0 {
				return true
			}
		}
	}
	return false
}

var reShort = regexp.MustCompile(`spendable balance (\d+)\S* is smaller than (\d+)`)

// precisionShortfall: the pool is short by no more than the 18-digit resolution of the validators' share ratios explains:
// a validator holding the fraction r of an asset has its token total computed to a relative 1e-18/r, and the rewards it
// receives are over-entitled by up to that much (quantitative form of precisionStressed, from the bank's error text)
func (e *Env) precisionShortfall(s *State, detail string) bool {
	m := reShort.FindStringSubmatch(detail)
	if m == nil {
		return false
	}
	have, want := bi(m[1]), bi(m[2])
	short := new(big.Rat).SetFrac(new(big.Int).Sub(want, have), want)
	bound := resolutionBound(s)
	// the over-entitlement is baked into the reward index when it is bumped: what counts is the worst resolution the
	// history has been through, not only the present one
	if e.Mon.MaxResolution != nil && e.Mon.MaxResolution.Cmp(bound) > 0 {
		bound = e.Mon.MaxResolution
	}
	return short.Cmp(bound) <= 0
}

// roundShortfall: in a claim-all round the pool ends short by no more than the resolution bound times everything paid
// out in that denom during the round and before it in the history (an over-entitled large claim earlier starves a small
// one later)
func (e *Env) roundShortfall(s *State, detail string, paid map[string]*big.Int) bool {
	m := reShortDenom.FindStringSubmatch(detail)
	if m == nil {
		return false
	}
	have, want, dn := bi(m[1]), bi(m[3]), m[2]
	vol := new(big.Int).Set(want)
	if paid[dn] != nil {
		vol.Add(vol, paid[dn])
	}
	// … and everything the pool paid out in that denom in REAL claims earlier in the history: the over-entitled claim need
	// not be part of this round
	if x := e.Mon.PoolOut[dn]; x != nil {
		vol.Add(vol, x)
	}
	bound := resolutionBound(s)
	if e.Mon.MaxResolution != nil && e.Mon.MaxResolution.Cmp(bound) > 0 {
		bound = e.Mon.MaxResolution
	}
	allow := new(big.Rat).Mul(bound, new(big.Rat).SetInt(vol))
	allow.Add(allow, big.NewRat(int64(len(s.Dels)+1), 1)) // one unit of rounding per claim
	short := new(big.Rat).SetInt(new(big.Int).Sub(want, have))
	return short.Cmp(allow) <= 0
}

var reShortDenom = regexp.MustCompile(`spendable balance (\d+)(\S*) is smaller than (\d+)`)

// resolutionBound: Σ over (validator, asset) holdings of 8e-18 / (validator's fraction of the asset's shares)
func resolutionBound(s *State) *big.Rat {
	bound := new(big.Rat)
	for i := range s.Assets {
		a := &s.Assets[i]
		for j := range s.Vals {
			vs := dcAmt(s.Vals[j].VS, a.Denom)
			if vs.Sign() > 0 && a.S.Sign() > 0 {
				// 8e-18 / (vs/S)
				bound.Add(bound, new(big.Rat).Mul(big.NewRat(8, 1_000_000_000_000_000_000), new(big.Rat).SetFrac(a.S, vs)))
			}
		}
	}
	return bound
}

// poolLarge: some reward balance of the pool is at least 1e15 base units
func poolLarge(s *State) bool {
	for _, r := range s.Bank {
		if r.Acct == AccPool && r.Amt.Cmp(bigE15) >= 0 {
			return true
		}
	}
	return false
}
