package harness

import (
	"bufio"
	"fmt"
	"math/rand"
	"strings"
	"testing"
)

// GenTrace runs one seeded history and returns the scenario lines it executed (a replayable scenario file).
func GenTrace(t *testing.T, seed int64, steps int, prof Profile, w *bufio.Writer) []string {
	r := rand.New(rand.NewSource(seed))
	cfg := Config{NVals: 2 + r.Intn(3), NUsers: 2 + r.Intn(3), NativeSelf: []int64{1_000_000, 1_000_000, 123_456_789, 5}[r.Intn(4)]}
	e := NewEnv(t, cfg)
	g := &Gen{E: e, R: r, P: prof}
	lines := []string{fmt.Sprintf("config %d %d %d", cfg.NVals, cfg.NUsers, cfg.NativeSelf)}
	fmt.Fprintf(w, "# trace seed=%d profile=%s\n", seed, prof.Name)
	halted := false
	run := func(line string) {
		lines = append(lines, line)
		for _, st := range e.Exec(line) {
			WriteStep(w, st)
			if strings.HasPrefix(st.Op, "O endblock") && st.Res != "R ok" {
				halted = true // a failing EndBlocker halts the chain: the history ends here
			}
		}
	}
	for _, l := range g.Setup() {
		run(l)
	}
	for i := 0; i < steps && !halted; i++ {
		run(g.Next())
	}
	if g.Open && !halted {
		run("closeblock")
	}
	fmt.Fprintf(w, "# end seed=%d\n", seed)
	return lines
}
