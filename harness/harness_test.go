package harness

import (
	"bufio"
	"fmt"
	"os"
	"strings"
	"testing"
)

func getenv(k, def string) string {
	if v := os.Getenv(k); v != "" {
		return v
	}
	return def
}

// TestScenario runs the scenario file VERIF_SCENARIO and writes the trace to VERIF_OUT.
func TestScenario(t *testing.T) {
	path := os.Getenv("VERIF_SCENARIO")
	if path == "" {
		t.Skip("no VERIF_SCENARIO")
	}
	data, err := os.ReadFile(path)
	if err != nil {
		t.Fatal(err)
	}
	out, err := os.Create(getenv("VERIF_OUT", "/dev/stdout"))
	if err != nil {
		t.Fatal(err)
	}
	defer out.Close()
	w := bufio.NewWriter(out)
	defer w.Flush()
	RunScenario(t, string(data), w)
}

// RunScenario executes scenario text; the first non-comment line may be `config <nvals> <nusers> <nativeSelf>`.
func RunScenario(t *testing.T, text string, w *bufio.Writer) {
	cfg := Config{NVals: 3, NUsers: 3, NativeSelf: 1_000_000}
	var e *Env
	for _, line := range strings.Split(text, "\n") {
		line = strings.TrimSpace(line)
		if line == "" || strings.HasPrefix(line, "#") {
			continue
		}
		f := strings.Fields(line)
		if f[0] == "config" {
			cfg = Config{NVals: atoi(f[1]), NUsers: atoi(f[2]), NativeSelf: int64(atoi(f[3]))}
			continue
		}
		if e == nil {
			e = NewEnv(t, cfg)
		}
		for _, st := range e.Exec(line) {
			WriteStep(w, st)
		}
	}
}

func WriteStep(w *bufio.Writer, st Step) {
	fmt.Fprintf(w, "# %s\n", st.Src)
	for _, n := range st.Notes {
		fmt.Fprintf(w, "# %s\n", n)
	}
	fmt.Fprintln(w, st.PreS.String())
	fmt.Fprintln(w, st.Op)
	fmt.Fprintln(w, st.Res)
	fmt.Fprintln(w, st.PostS.String())
	for _, q := range st.Queries {
		fmt.Fprintln(w, q)
	}
}

// TestGen generates VERIF_TRACES seeded histories (seeds VERIF_SEED, VERIF_SEED+1, …) of VERIF_STEPS operations each
// with generator profile VERIF_PROFILE, writing traces to stdout/VERIF_OUT and each scenario to VERIF_SCNDIR.
func TestGen(t *testing.T) {
	if os.Getenv("VERIF_GEN") == "" {
		t.Skip("no VERIF_GEN")
	}
	seed := int64(atoi(getenv("VERIF_SEED", "1")))
	n := atoi(getenv("VERIF_TRACES", "1"))
	steps := atoi(getenv("VERIF_STEPS", "60"))
	prof, ok := Profiles[getenv("VERIF_PROFILE", "default")]
	if !ok {
		t.Fatal("unknown profile")
	}
	out, err := os.Create(getenv("VERIF_OUT", "/dev/stdout"))
	if err != nil {
		t.Fatal(err)
	}
	defer out.Close()
	w := bufio.NewWriterSize(out, 1<<20)
	defer w.Flush()
	scndir := os.Getenv("VERIF_SCNDIR")
	for i := 0; i < n; i++ {
		s := seed + int64(i)
		lines := GenTrace(t, s, steps, prof, w)
		if scndir != "" {
			_ = os.WriteFile(fmt.Sprintf("%s/%s-%d.scn", scndir, prof.Name, s), []byte(strings.Join(lines, "\n")+"\n"), 0o644)
		}
	}
}
