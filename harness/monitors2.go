package harness

import (
	"fmt"
	"math/big"

	"cosmossdk.io/math"
)

var zeroTimeNs = bi("-62135596800000000000")

func decFromRaw(x *big.Int) math.LegacyDec { return math.LegacyNewDecFromBigIntWithPrec(x, 18) }

func sharesUnchanged(st *Step, prop, class string) {
	pre, post := st.PreS, st.PostS
	for i := range pre.Dels {
		dl := &pre.Dels[i]
		w := post.Del(dl.Del, dl.Val, dl.Denom)
		if w == nil || w.Shares.Cmp(dl.Shares) != 0 {
			st.fail(prop, class, "position (%d,%d,%d) shares changed", dl.Del, dl.Val, dl.Denom)
		}
	}
	if len(pre.Dels) != len(post.Dels) {
		st.fail(prop, class, "number of positions changed %d -> %d", len(pre.Dels), len(post.Dels))
	}
	for _, vi := range pre.Vals {
		w := post.Val(vi.ID)
		if w == nil || dcS(w.TDS) != dcS(vi.TDS) || dcS(w.VS) != dcS(vi.VS) {
			st.fail(prop, class, "validator %d share totals changed", vi.ID)
		}
	}
	for _, a := range pre.Assets {
		w := post.Asset(a.Denom)
		if w != nil && w.S.Cmp(a.S) != 0 {
			st.fail(prop, class, "asset %d share total changed", a.Denom)
		}
	}
}

// C09: take-rate deduction at an end-of-block that succeeded.
func (e *Env) monitorTakeRate(st *Step) {
	pre, post := st.PreS, st.PostS
	now := post.Time
	last := pre.PLast
	interval := big.NewInt(pre.PIntv)
	trigger := now.Cmp(new(big.Int).Add(last, interval)) > 0
	sharesUnchanged(st, "C09", "shares_touched")
	unchanged := func(why string) {
		for _, a := range pre.Assets {
			if w := post.Asset(a.Denom); w != nil && w.T.Cmp(a.T) != 0 {
				st.fail("C09", "deduct", "asset %d total changed %s -> %s although %s", a.Denom, a.T, w.T, why)
			}
		}
	}
	if !trigger {
		unchanged("the claim interval has not elapsed")
		if post.PLast.Cmp(last) != 0 {
			st.fail("C09", "clock", "clock moved %s -> %s without trigger", last, post.PLast)
		}
		return
	}
	if last.Cmp(zeroTimeNs) == 0 {
		unchanged("the clock was unset")
		if post.PLast.Cmp(now) != 0 {
			st.fail("C09", "clock", "unset clock became %s, block time %s", post.PLast, now)
		}
		return
	}
	if pre.PIntv <= 0 {
		return
	}
	n := new(big.Int).Quo(new(big.Int).Sub(now, last), interval)
	chargeable := 0
	moved := false
	for _, a := range pre.Assets {
		w := post.Asset(a.Denom)
		if w == nil {
			continue
		}
		started := now.Cmp(a.Start) >= 0
		if !(a.T.Sign() > 0 && a.TR.Sign() > 0 && started) {
			if w.T.Cmp(a.T) != 0 {
				st.fail("C09", "gating", "asset %d charged although T=%s rate=%s started=%v", a.Denom, a.T, a.TR, started)
			}
			continue
		}
		chargeable++
		mult := math.LegacyOneDec().Sub(decFromRaw(a.TR)).Power(n.Uint64())
		newAmount := mult.MulInt(math.NewIntFromBigInt(a.T))
		want := new(big.Int).Set(a.T)
		if newAmount.GT(math.LegacyOneDec()) {
			want = newAmount.TruncateInt().BigInt()
		}
		if w.T.Cmp(want) != 0 {
			st.fail("C09", "deduct", "asset %d: T %s -> %s, expected floor(T*(1-r)^%s) = %s", a.Denom, a.T, w.T, n, want)
		}
		if w.T.Sign() <= 0 {
			st.fail("C09", "to_zero", "asset %d total driven to %s", a.Denom, w.T)
		}
		diff := new(big.Int).Sub(a.T, w.T)
		if diff.Sign() != 0 {
			moved = true
			e.Mon.ValueChanged = true
			// retroactivity: stake deposited after the first charged interval had elapsed
			if dep, ok := e.Mon.LastDeposit[a.Denom]; ok && !e.Mon.ClockTouched && n.Cmp(bigOne) > 0 {
				if dep.Cmp(new(big.Int).Add(last, interval)) >= 0 {
					st.fail("C09", "stalled_clock", "asset %d charged %s intervals from clock %s, but stake was deposited at %s", a.Denom, n, last, dep)
				}
			}
		}
		// custody and fee collector move by exactly the difference (alliance denoms are not otherwise moved in EndBlocker
		// except by matured unbondings, which C02 accounts for)
		paid := new(big.Int)
		for _, q := range pre.UQ {
			if q.Time.Cmp(now) < 0 {
				for _, en := range q.Entries {
					if en.Denom == a.Denom {
						paid.Add(paid, en.Amt)
					}
				}
			}
		}
		feeGot := new(big.Int).Sub(post.Bal(AccFee, a.Denom), pre.Bal(AccFee, a.Denom))
		if feeGot.Cmp(diff) != 0 {
			st.fail("C09", "transfer", "asset %d: fee collector got %s, total dropped by %s", a.Denom, feeGot, diff)
		}
		custody := new(big.Int).Sub(pre.Bal(AccModule, a.Denom), post.Bal(AccModule, a.Denom))
		custody.Sub(custody, paid)
		if custody.Cmp(diff) != 0 && e.withdrawnOf(st, a.Denom).Sign() == 0 {
			st.fail("C09", "transfer", "asset %d: custody dropped by %s (net of payouts), total dropped by %s", a.Denom, custody, diff)
		}
	}
	wantClock := new(big.Int).Set(last)
	if chargeable == 0 {
		wantClock = now
	} else if moved {
		wantClock = new(big.Int).Add(last, new(big.Int).Mul(n, interval))
	}
	if post.PLast.Cmp(wantClock) != 0 {
		st.fail("C09", "clock", "clock %s -> %s, expected %s (n=%s)", last, post.PLast, wantClock, n)
	}
	if post.PLast.Cmp(now) > 0 {
		st.fail("C09", "clock", "clock %s is past the block time %s", post.PLast, now)
	}
	if moved {
		e.Mon.ClockTouched = false
	}
}

// C16: governance gate.
func (e *Env) monitorGov(st *Step, f []string) {
	pre, post := st.PreS, st.PostS
	ok := st.Res == "R ok"
	kind := f[0]
	if ok && f[1] != "auth" {
		st.fail("C16", "gate", "%s accepted from signer %s", kind, f[1])
	}
	if !ok {
		return
	}
	switch kind {
	case "create":
		d := atoi(f[2])
		if pre.Asset(d) != nil {
			st.fail("C16", "create_unique", "denom %d whitelisted twice", d)
		}
		if a := post.Asset(d); a == nil || a.T.Sign() != 0 || a.S.Sign() != 0 {
			st.fail("C16", "create_unique", "created asset %d missing or not empty", d)
		}
	case "update":
		d := atoi(f[2])
		a0, a1 := pre.Asset(d), post.Asset(d)
		if a0 == nil || a1 == nil {
			st.fail("C16", "update_frame", "update of asset %d: missing before or after", d)
			return
		}
		if a0.T.Cmp(a1.T) != 0 || a0.S.Cmp(a1.S) != 0 || a0.Start.Cmp(a1.Start) != 0 || a0.Init != a1.Init {
			st.fail("C16", "update_frame", "update of asset %d altered totals or start time", d)
		}
		// an accepted update stores the requested weight, range, take rate and decay schedule (all routes, incl. the legacy proposal)
		eq := func(x *big.Int, tok string) bool { return tok != "nil" && x.String() == tok }
		if !eq(a1.W, f[4]) || !eq(a1.Min, f[5]) || !eq(a1.Max, f[6]) || !eq(a1.Rate, f[8]) || fmt.Sprint(a1.Intv) != f[9] {
			st.fail("C14", "update_not_applied", "update of asset %d asked for weight %s range [%s,%s] change rate %s interval %s, stored %s [%s,%s] %s %d",
				d, f[4], f[5], f[6], f[8], f[9], a1.W, a1.Min, a1.Max, a1.Rate, a1.Intv)
			st.fail("C16", "update_not_applied", "update of asset %d did not store the requested fields", d)
		}
		if !eq(a1.TR, f[7]) {
			st.fail("C09", "update_not_applied", "update of asset %d asked for take rate %s, stored %s", d, f[7], a1.TR)
			st.fail("C16", "update_not_applied", "update of asset %d did not store the requested take rate", d)
		}
		// C14: the decay clock starts when decay is switched on, and is left alone otherwise
		wantLast := a0.Last
		if (a1.Rate.Cmp(a0.Rate) != 0 || a1.Intv != a0.Intv) && (a0.Rate.Cmp(bigP) == 0 || a0.Intv == 0) {
			wantLast = post.Time
		}
		if a1.Last.Cmp(wantLast) != 0 {
			st.fail("C14", "decay_clock_start", "update of asset %d: decay clock %s -> %s, expected %s", d, a0.Last, a1.Last, wantLast)
		}
		for _, a := range pre.Assets {
			if a.Denom == d {
				continue
			}
			if w := post.Asset(a.Denom); w == nil || *w != a && fmt.Sprint(*w) != fmt.Sprint(a) {
				st.fail("C16", "update_frame", "update of asset %d altered asset %d", d, a.Denom)
			}
		}
	case "delete":
		d := atoi(f[2])
		if a0 := pre.Asset(d); a0 == nil || a0.T.Sign() > 0 {
			st.fail("C16", "delete_only_empty", "deleted asset %d that was missing or staked", d)
		}
		if post.Asset(d) != nil {
			st.fail("C16", "delete_only_empty", "asset %d still present after delete", d)
		}
	case "params":
		e.Mon.ClockTouched = true
	}
}

func findRedel(s *State, del, d, dst int, t *big.Int) *RedelS {
	for i := range s.Redels {
		r := &s.Redels[i]
		if r.KDel == del && r.KDenom == d && r.KDst == dst && r.KTime.Cmp(t) == 0 {
			return r
		}
	}
	return nil
}

// C15: redelegation records and their cleanup.
func (e *Env) monitorRedelegation(st *Step, f []string, kind string, ok bool) {
	pre, post := st.PreS, st.PostS
	now := post.Time
	switch {
	case kind == "redelegate" && ok:
		u, src, dst, d, amt := atoi(f[1]), atoi(f[2]), atoi(f[3]), atoi(f[4]), bi(f[5])
		for _, r := range pre.Redels {
			if r.KDel == u && r.KDenom == d && r.KDst == src {
				st.fail("C15", "transitive", "redelegation out of %d accepted while an entry into it is pending (completion %s)", src, r.KTime)
			}
		}
		ct := new(big.Int).Add(pre.Time, big.NewInt(pre.Unbonding))
		old := new(big.Int)
		if r := findRedel(pre, u, d, dst, ct); r != nil {
			old = r.R.Amt
		}
		r := findRedel(post, u, d, dst, ct)
		if r == nil || r.R.Amt.Cmp(new(big.Int).Add(old, amt)) != 0 {
			st.fail("C15", "record", "no pending record (%d,%d,%d,%s) with balance %s+%s", u, d, dst, ct, old, amt)
		}
		hasIdx := false
		for _, k := range post.RI {
			if k.Src == src && k.Time.Cmp(ct) == 0 && k.Denom == d && k.Dst == dst && k.Del == u {
				hasIdx = true
			}
		}
		if !hasIdx {
			st.fail("C15", "record", "no source index (%d,%s,%d,%d,%d)", src, ct, d, dst, u)
		}
		nq := 0
		for _, q := range post.RQ {
			if q.Time.Cmp(ct) == 0 {
				nq = len(q.Entries)
			}
		}
		oq := 0
		for _, q := range pre.RQ {
			if q.Time.Cmp(ct) == 0 {
				oq = len(q.Entries)
			}
		}
		if nq != oq+1 {
			st.fail("C15", "record", "time queue at %s has %d entries, had %d", ct, nq, oq)
		}
		a0, a1 := pre.Asset(d), post.Asset(d)
		if a0 != nil && a1 != nil && a0.T.Cmp(a1.T) != 0 {
			st.fail("C15", "conserve", "redelegation changed the staked total %s -> %s", a0.T, a1.T)
		}
		if e.withdrawnOf(st, d).Sign() == 0 && pre.Bal(AccModule, d).Cmp(post.Bal(AccModule, d)) != 0 {
			st.fail("C15", "conserve", "redelegation changed custody %s -> %s", pre.Bal(AccModule, d), post.Bal(AccModule, d))
		}
	case kind == "redelegate" && st.Res == "R err transitive":
		u, src, d := atoi(f[1]), atoi(f[2]), atoi(f[4])
		found := false
		for _, r := range pre.Redels {
			if r.KDel == u && r.KDenom == d && r.KDst == src {
				found = true
			}
		}
		if !found {
			st.fail("C15", "transitive", "redelegation refused as transitive without a pending entry into %d", src)
		}
	case kind == "endblock" && ok:
		for _, r := range pre.Redels {
			w := findRedel(post, r.KDel, r.KDenom, r.KDst, r.KTime)
			if r.KTime.Cmp(now) < 0 {
				if w != nil {
					st.fail("C15", "cleanup", "matured record (%d,%d,%d,%s) still present", r.KDel, r.KDenom, r.KDst, r.KTime)
				}
			} else if w == nil || w.R != r.R && w.R.Amt.Cmp(r.R.Amt) != 0 {
				st.fail("C15", "cleanup", "pending record (%d,%d,%d,%s) removed or changed early", r.KDel, r.KDenom, r.KDst, r.KTime)
			}
		}
		for _, k := range post.RI {
			if k.Time.Cmp(now) < 0 {
				st.fail("C15", "cleanup", "matured source index (%d,%s,%d,%d,%d) left behind", k.Src, k.Time, k.Denom, k.Dst, k.Del)
			}
		}
		for _, q := range post.RQ {
			if q.Time.Cmp(now) < 0 {
				st.fail("C15", "cleanup", "matured queue entry %s left behind", q.Time)
			}
		}
		if len(pre.RI) > len(post.RI) {
			for _, k := range pre.RI {
				if k.Time.Cmp(now) >= 0 {
					hit := false
					for _, k2 := range post.RI {
						if k2 == k || (k2.Src == k.Src && k2.Time.Cmp(k.Time) == 0 && k2.Denom == k.Denom && k2.Dst == k.Dst && k2.Del == k.Del) {
							hit = true
						}
					}
					if !hit {
						st.fail("C15", "cleanup", "pending source index (%d,%s) removed early", k.Src, k.Time)
					}
				}
			}
		}
	}
}

func (s *State) modTokensQ(v int) *big.Rat {
	sv := s.SVal(v)
	if sv == nil || sv.ModShares == nil || sv.DelShares.Sign() == 0 {
		return new(big.Rat)
	}
	q := new(big.Rat).SetFrac(sv.ModShares, sv.DelShares)
	return q.Mul(q, rat(sv.Tokens))
}

// C10 / C11: voting-power targets after a rebalance and conservation of the net staking-denom supply.
func (e *Env) monitorStaking(st *Step, f []string, kind string, ok bool, src []string) {
	pre, post := st.PreS, st.PostS
	bond := post.BondDenom
	now := post.Time
	if kind == "endblock" && ok {
		if left := post.Bal(AccModule, bond); left.Sign() != 0 {
			// the known mechanism: rewards withdrawn for a validator WITHOUT alliance delegator shares are not forwarded to the
			// pool (AddAssetsToRewardPool returns early). Whatever stays beyond that came from a validator that has delegator
			// shares, i.e. from a withdrawal that was not followed by the forwarding claim.
			explained := new(big.Int)
			for v, amt := range e.withdrawnByVal(st, bond) {
				vi := post.Val(v)
				if vi == nil || len(vi.TDS) == 0 {
					explained.Add(explained, amt)
				}
			}
			if left.Cmp(explained) > 0 {
				st.fail("C11", "module_holds_bond_unforwarded", "module account holds %s of the staking denom after EndBlocker, of which only %s was withdrawn for validators without delegator shares", left, explained)
			} else {
				st.fail("C11", "module_holds_bond", "module account holds %s of the staking denom after EndBlocker", left)
			}
		}
		// per-validator target. Native bonded stake is measured as the rebalancer measures it, at its start:
		// bonded pool minus the truncated sum of the module's truncated token values on bonded validators.
		allianceDec := math.LegacyZeroDec()
		for _, sv := range pre.SVals {
			if sv.Status == 3 && sv.ModShares != nil && sv.DelShares.Sign() > 0 {
				allianceDec = allianceDec.Add(decFromRaw(sv.ModShares).MulInt(math.NewIntFromBigInt(sv.Tokens)).QuoTruncate(decFromRaw(sv.DelShares)))
			}
		}
		native := rat(new(big.Int).Sub(pre.Bal(AccBonded, bond), allianceDec.TruncateInt().BigInt()))
		unbondedVS := map[int]*big.Int{}
		for _, vi := range post.Vals {
			sv := post.SVal(vi.ID)
			if sv == nil || sv.Status != 3 {
				for _, c := range vi.VS {
					if unbondedVS[c.Denom] == nil {
						unbondedVS[c.Denom] = new(big.Int)
					}
					unbondedVS[c.Denom].Add(unbondedVS[c.Denom], c.Amt)
				}
			}
		}
		for _, vi := range post.Vals {
			sv := post.SVal(vi.ID)
			if sv == nil {
				continue
			}
			if sv.Status != 3 {
				p := pre.SVal(vi.ID)
				if p != nil && fmt.Sprint(p.ModShares) != fmt.Sprint(sv.ModShares) {
					st.fail("C10", "unbonded_adjusted", "validator %d is not bonded but its alliance stake changed", vi.ID)
				}
				continue
			}
			if !pre.Flag {
				continue
			}
			target := new(big.Rat)
			ulp := new(big.Rat)
			for _, a := range post.Assets {
				if now.Cmp(a.Start) < 0 {
					continue
				}
				vs := dcAmt(vi.VS, a.Denom)
				bvs := new(big.Int).Sub(a.S, orZero(unbondedVS[a.Denom]))
				if vs.Sign() <= 0 || bvs.Sign() <= 0 {
					continue
				}
				t := new(big.Rat).SetFrac(a.W, bigP)
				t.Mul(t, native)
				// the share fraction vs/bvs is an 18-digit decimal: one ulp of it is worth 1e-18 of weight x native
				ulp.Add(ulp, new(big.Rat).Quo(t, rat(bigP)))
				t.Mul(t, new(big.Rat).SetFrac(vs, bvs))
				target.Add(target, t)
			}
			have := post.modTokensQ(vi.ID)
			diff := new(big.Rat).Sub(have, target)
			diff.Abs(diff)
			tol := new(big.Rat).SetInt64(2)
			rel := new(big.Rat).Mul(target, big.NewRat(1, 1_000_000_000_000))
			tol.Add(tol, rel)
			tol.Add(tol, ulp.Abs(ulp))
			if diff.Cmp(tol) > 0 {
				st.fail("C10", "target", "validator %d carries %s alliance stake, target %s (tolerance %s)", vi.ID, have.FloatString(3), target.FloatString(3), tol.FloatString(3))
			}
		}
	}
	// trigger: a native change of a validator's stake or status must leave a rebalance queued
	if kind == "env" && len(src) > 0 {
		changed := false
		for _, sv := range pre.SVals {
			w := post.SVal(sv.ID)
			// relevant to voting power: bonded-ness, or the stake of a validator that is bonded before or after
			if w == nil {
				changed = changed || sv.Status == 3
			} else if (w.Status == 3) != (sv.Status == 3) || ((w.Status == 3 || sv.Status == 3) && w.Tokens.Cmp(sv.Tokens) != 0) {
				changed = true
			}
		}
		if changed && !post.Flag && len(post.Assets) > 0 {
			cls := "missed_trigger"
			if src[0] == "nundelegate" && len(src) > 3 && src[3] == "all" {
				cls = "missed_trigger_full_undelegation" // D5
			}
			st.fail("C10", cls, "native stake or status changed on '%s' but no rebalance is queued", st.Src)
		}
	}
	// C11: virtual tokens exist only as stake: the bonded pool holds exactly the tokens of the bonded validators
	// (x/staking's own pool invariant; alliance mints+delegates and unbonds+burns against that pool)
	if kind != "env" && ok && post.BondedTokensAll != nil && pre.BondedTokensAll != nil &&
		pre.Bal(AccBonded, bond).Cmp(pre.BondedTokensAll) == 0 && post.Bal(AccBonded, bond).Cmp(post.BondedTokensAll) != 0 {
		st.fail("C11", "bonded_pool_mismatch", "bonded pool holds %s but bonded validators carry %s tokens", post.Bal(AccBonded, bond), post.BondedTokensAll)
	}
	// C11: net staking-denom supply is conserved by alliance operations
	if kind != "env" && kind != "slash" && ok {
		net := func(s *State) *big.Rat {
			n := rat(s.SupplyOf(bond))
			for _, sv := range s.SVals {
				n.Sub(n, s.modTokensQ(sv.ID))
			}
			return n
		}
		d := new(big.Rat).Sub(net(post), net(pre))
		// tolerance: one unit of share rounding per validator touched
		tol := new(big.Rat).SetInt64(int64(len(post.SVals) + 1))
		lost := new(big.Rat).Neg(d)
		// bond-denom rewards stranded in the module account are burned at end of block: real coins, reported separately
		burned := rat(pre.Bal(AccModule, bond))
		if kind == "endblock" && burned.Sign() > 0 && lost.Cmp(tol) > 0 {
			st.fail("C11", "stranded_reward_burn", "EndBlocker burned %s real staking coins held by the module account", pre.Bal(AccModule, bond))
		} else if d.Cmp(tol) > 0 || lost.Cmp(tol) > 0 {
			st.fail("C11", "net_supply", "net staking-denom supply moved by %s on %s", d.FloatString(3), kind)
		}
	}
	if kind != "env" {
		for i := range e.Users {
			u := AccUserBase + i
			got := new(big.Int).Sub(post.Bal(u, bond), pre.Bal(u, bond))
			// (the slash callback settles rewards of redelegation destinations, which may be paid in the staking denom)
			if got.Sign() > 0 && (kind == "endblock" || kind == "create" || kind == "update" || kind == "delete" || kind == "params") {
				st.fail("C11", "user_received", "user %d received %s of the staking denom on %s", u, got, kind)
			}
		}
	}
}

func orZero(x *big.Int) *big.Int {
	if x == nil {
		return new(big.Int)
	}
	return x
}

// C04 / C13 / C15: value frame — an operation moves its amount and nobody else's value.
func (e *Env) monitorValues(st *Step, f []string, kind string, ok bool) {
	if !ok {
		return
	}
	pre, post := st.PreS, st.PostS
	type key [3]int
	expect := map[key]*big.Int{} // expected signed change of the actor's positions
	var d int
	amt := new(big.Int)
	switch kind {
	case "delegate":
		d, amt = atoi(f[3]), bi(f[4])
		expect[key{atoi(f[1]), atoi(f[2]), d}] = amt
		e.Mon.LastDeposit[d] = post.Time
	case "undelegate":
		d, amt = atoi(f[3]), bi(f[4])
		expect[key{atoi(f[1]), atoi(f[2]), d}] = new(big.Int).Neg(amt)
	case "redelegate":
		d, amt = atoi(f[4]), bi(f[5])
		expect[key{atoi(f[1]), atoi(f[2]), d}] = new(big.Int).Neg(amt)
		expect[key{atoi(f[1]), atoi(f[3]), d}] = amt
	case "claim":
		if f[3] == "-1" {
			return
		}
		d = atoi(f[3])
		sharesUnchanged(st, "C13", "claim_not_neutral")
		for _, a := range pre.Assets {
			if w := post.Asset(a.Denom); w == nil || w.T.Cmp(a.T) != 0 {
				st.fail("C13", "claim_not_neutral", "claim changed the staked total of asset %d", a.Denom)
			}
		}
		return
	default:
		return
	}
	a0 := pre.Asset(d)
	if a0 == nil {
		return
	}
	// tolerance: one base unit + relative error of 18-digit arithmetic on the quantities involved
	scale := new(big.Int).Add(a0.T, amt)
	tol := new(big.Rat).SetInt64(1)
	tol.Add(tol, new(big.Rat).SetFrac(scale, new(big.Int).Exp(big.NewInt(10), big.NewInt(9), nil)))
	seen := map[key]bool{}
	// did the actor's whole position vanish although more than the requested amount was there?
	rounderFull := false
	if kind == "undelegate" || kind == "redelegate" {
		u, v := atoi(f[1]), atoi(f[2])
		if p0 := pre.Del(u, v, d); p0 != nil && post.Del(u, v, d) == nil {
			if b := pre.valueQ(p0); b != nil && b.Sign() > 0 && new(big.Rat).Sub(b, rat(amt)).Cmp(tol) > 0 {
				// the known finding is the 0.01-SHARE snap of ValidateDelegatedAmount: the forfeited remainder,
				// measured in delegator shares, is below 0.01 (plus one ulp of slack); anything larger is new
				left := new(big.Rat).Sub(b, rat(amt))
				leftShares := new(big.Rat).Mul(new(big.Rat).SetFrac(p0.Shares, bigP), new(big.Rat).Quo(left, b))
				if leftShares.Cmp(big.NewRat(1001, 100000)) < 0 {
					rounderFull = true
				}
			}
		}
	}
	check := func(k key, before, after *big.Rat) {
		want := new(big.Rat).Set(before)
		if x, isActor := expect[k]; isActor {
			want.Add(want, rat(x))
		}
		diff := new(big.Rat).Sub(after, want)
		diff.Abs(diff)
		if diff.Cmp(tol) > 0 {
			cls := "value_moved"
			if _, isActor := expect[k]; isActor {
				cls = "actor_value"
			}
			// scope of the value theorems: share prices (shares per token, both levels) within [1e-6, 1e6];
			// outside it 18-digit fixed point loses the price (known finding), and with no validator shares at all
			// the staked total is orphaned (every validator "holds" all of it) until the next deposit captures it.
			if rounderFull {
				// |shares - sharesFor(amount)| < 0.01 SHARES withdraws the whole position: the remainder
				// (up to 0.01 share, worth tokens-per-share/100) is forfeited to the other holders
				cls = "full_withdraw_rounder"
			} else {
				for vk := range expect {
					if vi := pre.Val(vk[1]); vi != nil {
						tds := dcAmt(vi.TDS, d)
						vt := pre.valTokensQ(vk[1], d)
						if tds.Cmp(bigP) < 0 && (tds.Sign() > 0 || dcAmt(vi.VS, d).Sign() > 0) {
							// fewer than one whole delegator share (possibly none) on a validator that still has
							// validator shares: issuance is 1:1 and the newcomer absorbs the ownerless value
							cls = "dust_validator"
						} else if tds.Sign() > 0 && vt != nil {
							// delegator shares per validator token
							num := new(big.Int).Mul(tds, vt.Denom())
							den := new(big.Int).Mul(vt.Num(), bigP)
							if !priceInRange(num, den) {
								cls = "unhealthy_price_out_of_range"
							}
						}
					}
				}
			}
			st.fail("C04", cls, "position (%d,%d,%d): value %s -> %s, expected %s (tol %s)", k[0], k[1], k[2], before.FloatString(3), after.FloatString(3), want.FloatString(3), tol.FloatString(3))
		}
	}
	for i := range pre.Dels {
		dl := &pre.Dels[i]
		if dl.Denom != d {
			continue
		}
		k := key{dl.Del, dl.Val, dl.Denom}
		seen[k] = true
		before := pre.valueQ(dl)
		after := new(big.Rat)
		if w := post.Del(dl.Del, dl.Val, dl.Denom); w != nil {
			after = post.valueQ(w)
		}
		if before == nil || after == nil {
			continue
		}
		check(k, before, after)
	}
	for k := range expect {
		if !seen[k] {
			after := new(big.Rat)
			if w := post.Del(k[0], k[1], k[2]); w != nil {
				after = post.valueQ(w)
			}
			check(k, new(big.Rat), after)
		}
	}
}

// priceInRange: 1e-6 <= num/den <= 1e6 (a zero denominator or numerator is out of range)
func priceInRange(num, den *big.Int) bool {
	if num.Sign() <= 0 || den.Sign() <= 0 {
		return false
	}
	m := big.NewInt(1_000_000)
	return new(big.Int).Mul(num, m).Cmp(den) >= 0 && num.Cmp(new(big.Int).Mul(den, m)) <= 0
}

// C14: decay at an end-of-block that succeeded: w' = clamp(w * rate^n), clock += n intervals, only when due.
func (e *Env) monitorDecay(st *Step) {
	pre, post := st.PreS, st.PostS
	now := post.Time
	for _, a := range pre.Assets {
		w := post.Asset(a.Denom)
		if w == nil {
			continue
		}
		due := !(a.Intv == 0 || a.Rate.Cmp(bigP) == 0) && new(big.Int).Add(a.Last, big.NewInt(a.Intv)).Cmp(now) <= 0
		wantW, wantLast := a.W, a.Last
		if due {
			n := new(big.Int).Quo(new(big.Int).Sub(now, a.Last), big.NewInt(a.Intv))
			var nw math.LegacyDec
			func() {
				defer func() { _ = recover() }()
				nw = decFromRaw(a.W).Mul(decFromRaw(a.Rate).Power(n.Uint64()))
			}()
			if nw.IsNil() {
				continue // overflow: EndBlocker cannot have succeeded; C17 reports it
			}
			if nw.BigInt().Cmp(a.Min) < 0 {
				nw = decFromRaw(a.Min)
			}
			if nw.BigInt().Cmp(a.Max) > 0 {
				nw = decFromRaw(a.Max)
			}
			wantW = nw.BigInt()
			wantLast = new(big.Int).Add(a.Last, new(big.Int).Mul(n, big.NewInt(a.Intv)))
		}
		if w.W.Cmp(wantW) != 0 {
			st.fail("C14", "decay_exact", "asset %d weight %s -> %s, expected %s (due=%v)", a.Denom, a.W, w.W, wantW, due)
		}
		if w.Last.Cmp(wantLast) != 0 || w.Last.Cmp(now) > 0 && due {
			st.fail("C14", "decay_clock", "asset %d decay clock %s -> %s, expected %s", a.Denom, a.Last, w.Last, wantLast)
		}
		// warm-up: initialised exactly from the first end-of-block at or after the start time
		if w.Init != (a.Init || now.Cmp(a.Start) >= 0) {
			st.fail("C14", "warmup", "asset %d initialised=%v at %s, start %s", a.Denom, w.Init, now, a.Start)
		}
	}
}

func histEq(a, b []Hist) bool {
	if len(a) != len(b) {
		return false
	}
	for i := range a {
		if a[i].Denom != b[i].Denom || a[i].Alliance != b[i].Alliance || a[i].Index.Cmp(b[i].Index) != 0 {
			return false
		}
	}
	return true
}

// C13: every operation that changes or claims a position settles it first: afterwards the position's reward
// indices are the validator's current indices for that alliance.
func (e *Env) monitorSettled(st *Step, f []string, kind string, ok bool) {
	if !ok {
		return
	}
	post := st.PostS
	var keys [][3]int
	switch kind {
	case "delegate", "undelegate":
		keys = append(keys, [3]int{atoi(f[1]), atoi(f[2]), atoi(f[3])})
	case "claim":
		if f[3] == "-1" {
			return
		}
		keys = append(keys, [3]int{atoi(f[1]), atoi(f[2]), atoi(f[3])})
	case "redelegate":
		keys = append(keys, [3]int{atoi(f[1]), atoi(f[2]), atoi(f[4])}, [3]int{atoi(f[1]), atoi(f[3]), atoi(f[4])})
	case "slash":
		// the destination positions the callback cut (their shares changed) were claimed for first: they must be settled
		// afterwards — a stale copy written back over the claim's record would pay the same index difference twice
		for _, d := range post.Dels {
			if p := st.PreS.Del(d.Del, d.Val, d.Denom); p != nil && p.Shares.Cmp(d.Shares) != 0 {
				keys = append(keys, [3]int{d.Del, d.Val, d.Denom})
			}
		}
	default:
		return
	}
	for _, k := range keys {
		dl := post.Del(k[0], k[1], k[2])
		a := post.Asset(k[2])
		vi := post.Val(k[1])
		if dl == nil || a == nil || vi == nil || post.Time.Cmp(a.Start) < 0 {
			continue
		}
		var want []Hist
		for _, h := range vi.Hist {
			if h.Alliance == k[2] || h.Alliance == -1 {
				want = append(want, h)
			}
		}
		var have []Hist
		for _, h := range dl.Hist {
			if h.Alliance == k[2] || h.Alliance == -1 {
				have = append(have, h)
			}
		}
		if !histEq(have, want) {
			st.fail("C13", "not_settled", "position (%d,%d,%d) was not settled by %s: indices %v, validator has %v", k[0], k[1], k[2], kind, have, want)
			if kind == "slash" {
				// the same mechanism seen from C05: the position can claim the index difference again, the shared pool ends short by
				// that amount and an unrelated delegator's claim (and with it his exit) fails. The liveness probes alone cannot tell
				// this from the known shortfall after a value change (D6): a slash IS a value change
				st.fail("C05", "pool_drained_by_unsettled_position", "position (%d,%d,%d) was cut by the slash callback after a claim but carries indices %v, validator has %v: it can claim the same rewards again from the shared pool", k[0], k[1], k[2], have, want)
				st.fail("C12", "slash_cut_not_settled", "position (%d,%d,%d) was cut by the slash callback after a claim but carries indices %v, validator has %v: the same rewards are payable again", k[0], k[1], k[2], have, want)
			}
		}
	}
}
