package harness

import (
	"fmt"
	"math/big"
	"math/rand"
	"sort"
	"time"

	"cosmossdk.io/math"
	sdk "github.com/cosmos/cosmos-sdk/types"

	"github.com/terra-money/alliance/x/alliance/types"
)

// Profile biases the generator. All randomness derives from one rand.Rand seeded by the trace seed.
type Profile struct {
	Name     string
	MaxMag   int // amounts are log-uniform in [1, 10^MaxMag]
	Weights  map[string]int
	NoSlash  bool
	NoGov    bool
	NoNative bool
	// RealSlash: most slashes go through x/staking's Slash (changing the validator's token/share exchange rate) with
	// everyday fractions, so that rebalances up and down happen at exchange rates != 1
	RealSlash bool
}

var Profiles = map[string]Profile{
	"default": {Name: "default", MaxMag: 12, Weights: map[string]int{
		"delegate": 26, "undelegate": 14, "redelegate": 10, "claim": 8, "allocate": 9, "block": 14,
		"slash": 5, "gov": 6, "native": 5, "donate": 1, "unknown": 2}},
	"genesis": {Name: "genesis", MaxMag: 10, Weights: map[string]int{
		"delegate": 22, "undelegate": 16, "redelegate": 14, "claim": 5, "allocate": 6, "block": 14,
		"slash": 5, "gov": 6, "native": 3, "donate": 1, "unknown": 1, "reimport": 8}},
	"big": {Name: "big", MaxMag: 30, Weights: map[string]int{
		"delegate": 26, "undelegate": 16, "redelegate": 10, "claim": 8, "allocate": 9, "block": 14,
		"slash": 5, "gov": 4, "native": 4, "donate": 1, "unknown": 1}},
	"queues": {Name: "queues", MaxMag: 9, Weights: map[string]int{
		"delegate": 20, "undelegate": 22, "redelegate": 18, "claim": 3, "allocate": 3, "block": 18,
		"slash": 10, "gov": 2, "native": 2, "donate": 1, "unknown": 1}},
	"rewards": {Name: "rewards", MaxMag: 12, Weights: map[string]int{
		"delegate": 20, "undelegate": 8, "redelegate": 8, "claim": 20, "allocate": 22, "block": 12,
		"slash": 2, "gov": 5, "native": 2, "donate": 0, "unknown": 1}},
	"gov": {Name: "gov", MaxMag: 9, Weights: map[string]int{
		"delegate": 15, "undelegate": 6, "redelegate": 4, "claim": 4, "allocate": 6, "block": 20,
		"slash": 3, "gov": 35, "native": 5, "donate": 1, "unknown": 1}},
	"staking": {Name: "staking", MaxMag: 9, RealSlash: true, Weights: map[string]int{
		"delegate": 20, "undelegate": 12, "redelegate": 6, "claim": 3, "allocate": 4, "block": 24,
		"slash": 9, "gov": 5, "native": 16, "donate": 0, "unknown": 1}},
}

type Gen struct {
	E    *Env
	R    *rand.Rand
	P    Profile
	NAll int // number of alliance denoms in play (ids 0..NAll-1)
	// Open: the block time has been advanced (BeginBlock) but the end blocker has not run yet: what follows happens INSIDE the
	// block, as transactions and the slashing of BeginBlock do on a chain, and sees entries that have matured but are unpaid,
	// intervals that have elapsed but are uncharged
	Open bool
}

func (g *Gen) pick(ws map[string]int) string {
	keys := make([]string, 0, len(ws))
	total := 0
	for k, w := range ws {
		keys = append(keys, k)
		total += w
	}
	sort.Strings(keys)
	x := g.R.Intn(total)
	for _, k := range keys {
		x -= ws[k]
		if x < 0 {
			return k
		}
	}
	return keys[0]
}

// logUniform returns an integer in [1, 10^maxMag], log-uniform, as a decimal string.
func (g *Gen) logUniform(maxMag int) *big.Int {
	mag := g.R.Intn(maxMag + 1)
	lo := new(big.Int).Exp(big.NewInt(10), big.NewInt(int64(mag)), nil)
	span := new(big.Int).Mul(lo, big.NewInt(9))
	x := new(big.Int).Rand(g.R, span)
	return x.Add(x, lo)
}

func (g *Gen) user() int { return AccUserBase + g.R.Intn(len(g.E.Users)) }
func (g *Gen) val() int  { return g.R.Intn(len(g.E.Vals)) }
func (g *Gen) adenom() int {
	if g.R.Intn(100) < 3 {
		return g.R.Intn(3)
	}
	return g.R.Intn(g.NAll)
}

var fractions = []string{"0.0001", "0.01", "0.05", "0.5", "1.0", "0.333333333333333333", "0.999999999999999999"}
var rates = []string{"0", "0", "0.000001", "0.01", "0.05", "0.5", "0.999", "0.000000000000000001"}
var weights = []string{"0", "0.000000000000000001", "0.05", "0.5", "1.0", "2.0", "10.0"}

func (g *Gen) choice(xs []string) string { return xs[g.R.Intn(len(xs))] }

type delRec struct{ u, v, d int }

func (g *Gen) delegations() []delRec {
	var out []delRec
	_ = g.E.App.AllianceKeeper.IterateDelegations(g.E.Ctx, func(d types.Delegation) bool {
		out = append(out, delRec{g.E.acctID(sdk.MustAccAddressFromBech32(d.DelegatorAddress)), g.E.valID(mustVal(d.ValidatorAddress)), denomID(d.Denom)})
		return false
	})
	return out
}

func (g *Gen) balance(r delRec) math.Int {
	k := g.E.App.AllianceKeeper
	d, ok := k.GetDelegation(g.E.Ctx, g.E.user(r.u), g.E.Vals[r.v], Denoms[r.d])
	if !ok {
		return math.ZeroInt()
	}
	a, ok := k.GetAssetByDenom(g.E.Ctx, Denoms[r.d])
	if !ok {
		return math.ZeroInt()
	}
	cctx, _ := g.E.Ctx.CacheContext()
	v, err := k.GetAllianceValidator(cctx, g.E.Vals[r.v])
	if err != nil {
		return math.ZeroInt()
	}
	var res math.Int
	func() {
		defer func() {
			if recover() != nil {
				res = math.ZeroInt()
			}
		}()
		res = types.GetDelegationTokens(d, v, a).Amount
	}()
	return res
}

func (g *Gen) amountAround(bal math.Int) string {
	switch g.R.Intn(10) {
	case 0, 1, 2, 3:
		return bal.String()
	case 4:
		return bal.AddRaw(1).String()
	case 5:
		if bal.GT(math.OneInt()) {
			return bal.SubRaw(1).String()
		}
		return "1"
	case 6:
		return "1"
	default:
		if bal.IsPositive() {
			x := new(big.Int).Rand(g.R, bal.BigInt())
			return x.Add(x, big.NewInt(1)).String()
		}
		return g.logUniform(6).String()
	}
}

// pendingBoundary returns a dt that puts the next block time exactly at, just before or just after a pending
// completion time, if there is one.
func (g *Gen) pendingBoundary() (int64, bool) {
	var times []time.Time
	g.E.App.AllianceKeeper.IterateUndelegations(g.E.Ctx, func(_ types.QueuedUndelegation, t time.Time) bool {
		times = append(times, t)
		return false
	})
	g.E.App.AllianceKeeper.IterateRedelegations(g.E.Ctx, func(_ types.Redelegation, t time.Time) bool {
		times = append(times, t)
		return false
	})
	if len(times) == 0 {
		return 0, false
	}
	t := times[g.R.Intn(len(times))]
	dt := t.Sub(g.E.Ctx.BlockTime()).Nanoseconds() + int64(g.R.Intn(3)-1)
	if dt <= 0 {
		return 0, false
	}
	return dt, true
}

func (g *Gen) blockDt() int64 {
	p := g.E.App.AllianceKeeper.GetParams(g.E.Ctx)
	iv := int64(p.TakeRateClaimInterval)
	if iv <= 0 {
		iv = 300e9
	}
	switch g.R.Intn(12) {
	case 0, 1:
		return 1e9 + int64(g.R.Intn(5e9))
	case 2:
		return 1
	case 3, 4:
		return iv + int64(g.R.Intn(3)) - 1
	case 5:
		return iv*int64(2+g.R.Intn(20)) + int64(g.R.Intn(1e9))
	case 6:
		return iv / 3
	case 7, 8:
		if dt, ok := g.pendingBoundary(); ok {
			return dt
		}
		return iv + 1
	case 9:
		ub, _ := g.E.App.StakingKeeper.UnbondingTime(g.E.Ctx)
		return int64(ub) + int64(g.R.Intn(3)) - 1
	case 10:
		return 3600e9*int64(1+g.R.Intn(50)) + int64(g.R.Intn(3)) - 1
	default:
		return 86400e9 * int64(1+g.R.Intn(40))
	}
}

func (g *Gen) fieldsLine(kind, signer string, denom int) string {
	w := g.choice(weights)
	mn, mx := "0", "10.0"
	switch g.R.Intn(8) {
	case 0:
		mn, mx = w, w
	case 1:
		mn, mx = "0.1", "3.0"
	case 2:
		mn, mx = "5.0", "1.0" // inverted
	}
	tr := g.choice(rates)
	cr := []string{"1.0", "1.0", "0.99", "0.5", "1.01", "0.999999", "2.0"}[g.R.Intn(7)]
	ci := []string{"0", "0", "3600000000000", "300000000000", "1", "86400000000000"}[g.R.Intn(6)]
	dv := "1"
	dtok := fmt.Sprint(denom)
	// adversarial field values
	switch g.R.Intn(30) {
	case 0:
		w = "nil"
	case 1:
		w = "-1.0"
	case 2:
		tr = "1.0"
	case 3:
		tr = "-0.1"
	case 4:
		tr = "nil"
	case 5:
		cr = "0"
	case 6:
		cr = "-1.0"
	case 7:
		ci = "-5"
	case 8:
		mn = "nil"
	case 9:
		mx = "nil"
	case 10:
		mn = "-1.0"
	case 11:
		dtok = "-1"
	case 12:
		if kind == "create" {
			dv = "0"
		}
	case 13:
		cr = "nil"
	case 14:
		w = "1000000000000.0"
		mx = "1000000000000.0"
	}
	return fmt.Sprintf("%s %s %s %s %s %s %s %s %s %s", kind, signer, dtok, dv, w, mn, mx, tr, cr, ci)
}

// signerL: as signer, or the legacy x/gov v1beta1 proposal route (create/update/delete only)
func (g *Gen) signerL() string {
	if g.R.Intn(5) == 0 {
		return "legacy"
	}
	return g.signer()
}

func (g *Gen) signer() string {
	switch g.R.Intn(12) {
	case 0:
		return "other"
	case 1:
		return "bad"
	}
	return "auth"
}

// Setup emits the opening lines of a history.
func (g *Gen) Setup() []string {
	var out []string
	delay := []string{"0", "0", "0", "1000000000", "600000000000"}[g.R.Intn(5)]
	interval := []string{"300000000000", "300000000000", "60000000000", "1000000000", "86400000000000"}[g.R.Intn(5)]
	out = append(out, fmt.Sprintf("params auth %s %s keep", delay, interval))
	if g.R.Intn(4) == 0 {
		out = append(out, fmt.Sprintf("setunbonding %d", []int64{1e9, 3600e9, 86400e9, 1814400e9}[g.R.Intn(4)]))
	}
	g.NAll = 1 + g.R.Intn(3)
	for d := 0; d < g.NAll; d++ {
		w := []string{"1.0", "0.5", "2.0", "0.05", "10.0"}[g.R.Intn(5)]
		tr := g.choice(rates)
		cr, ci := "1.0", "0"
		if g.R.Intn(3) == 0 {
			cr = []string{"0.99", "0.5", "1.01", "0.999999"}[g.R.Intn(4)]
			ci = []string{"3600000000000", "300000000000", "86400000000000"}[g.R.Intn(3)]
		}
		out = append(out, fmt.Sprintf("create auth %d 1 %s 0 20.0 %s %s %s", d, w, tr, cr, ci))
	}
	for u := range g.E.Users {
		for d := 0; d < g.NAll; d++ {
			amt := g.logUniform(g.P.MaxMag)
			amt.Mul(amt, big.NewInt(10))
			out = append(out, fmt.Sprintf("fund %d %d %s", AccUserBase+u, d, amt.String()))
		}
	}
	out = append(out, "block 1000000001")
	return out
}

// Next emits the next scenario line, looking at the current real state to keep most operations valid.
func (g *Gen) Next() string {
	kind := g.pick(g.P.Weights)
	if (kind == "slash" && g.P.NoSlash) || (kind == "gov" && g.P.NoGov) || (kind == "native" && g.P.NoNative) {
		kind = "delegate"
	}
	e := g.E
	switch kind {
	case "delegate":
		u, d := g.user(), g.adenom()
		bal := e.App.BankKeeper.GetBalance(e.Ctx, e.user(u), Denoms[d]).Amount
		var amt string
		switch g.R.Intn(12) {
		case 0:
			amt = bal.String()
		case 1:
			amt = bal.AddRaw(1).String()
		case 2:
			amt = "1"
		case 3:
			amt = "0"
		default:
			a := g.logUniform(g.P.MaxMag)
			if bal.IsPositive() && a.Cmp(bal.BigInt()) > 0 && g.R.Intn(10) != 0 {
				a = new(big.Int).Rand(g.R, bal.BigInt())
				a.Add(a, big.NewInt(1))
			}
			amt = a.String()
		}
		return fmt.Sprintf("delegate %d %d %d %s", u, g.val(), d, amt)
	case "undelegate":
		ds := g.delegations()
		if len(ds) == 0 || g.R.Intn(25) == 0 {
			return fmt.Sprintf("undelegate %d %d %d %s", g.user(), g.val(), g.adenom(), g.logUniform(6).String())
		}
		r := ds[g.R.Intn(len(ds))]
		return fmt.Sprintf("undelegate %d %d %d %s", r.u, r.v, r.d, g.amountAround(g.balance(r)))
	case "redelegate":
		ds := g.delegations()
		if len(ds) == 0 || g.R.Intn(25) == 0 {
			return fmt.Sprintf("redelegate %d %d %d %d %s", g.user(), g.val(), g.val(), g.adenom(), g.logUniform(6).String())
		}
		r := ds[g.R.Intn(len(ds))]
		dst := g.val()
		if dst == r.v && g.R.Intn(10) != 0 {
			dst = (dst + 1) % len(e.Vals)
		}
		return fmt.Sprintf("redelegate %d %d %d %d %s", r.u, r.v, dst, r.d, g.amountAround(g.balance(r)))
	case "claim":
		ds := g.delegations()
		if len(ds) == 0 || g.R.Intn(20) == 0 {
			d := fmt.Sprint(g.adenom())
			if g.R.Intn(5) == 0 {
				d = "-1"
			}
			return fmt.Sprintf("claim %d %d %s", g.user(), g.val(), d)
		}
		r := ds[g.R.Intn(len(ds))]
		return fmt.Sprintf("claim %d %d %d", r.u, r.v, r.d)
	case "allocate":
		d := DenomReward
		switch g.R.Intn(10) {
		case 0:
			d = DenomBond
		case 1:
			d = g.R.Intn(g.NAll)
		}
		line := fmt.Sprintf("allocate %d %d %s", g.val(), d, g.logUniform(g.P.MaxMag).String())
		// sometimes several reward denoms arrive in one allocation (fees in several denoms)
		for g.R.Intn(3) == 0 {
			d2 := []int{DenomReward, DenomBond, g.R.Intn(g.NAll)}[g.R.Intn(3)]
			line += fmt.Sprintf(" %d %s", d2, g.logUniform(g.P.MaxMag).String())
		}
		return line
	case "block":
		if g.Open {
			g.Open = false
			return "closeblock"
		}
		if g.R.Intn(2) == 0 {
			g.Open = true
			return fmt.Sprintf("advance %d", g.blockDt())
		}
		return fmt.Sprintf("block %d", g.blockDt())
	case "reimport":
		return "reimport"
	case "slash":
		if g.P.RealSlash && g.R.Intn(5) != 0 {
			return fmt.Sprintf("realslash %d %s", g.val(), []string{"0.01", "0.05", "0.07", "0.333333333333333333", "0.0001", "0.5"}[g.R.Intn(6)])
		}
		if g.R.Intn(3) == 0 {
			return fmt.Sprintf("realslash %d %s", g.val(), g.choice(fractions))
		}
		return fmt.Sprintf("hookslash %d %s", g.val(), g.choice(fractions))
	case "gov":
		switch g.R.Intn(10) {
		case 0:
			return g.fieldsLine("create", g.signerL(), g.R.Intn(3))
		case 1:
			d := fmt.Sprint(g.R.Intn(3))
			if g.R.Intn(8) == 0 {
				d = "-1"
			}
			return fmt.Sprintf("delete %s %s", g.signerL(), d)
		case 2, 3:
			delay := []string{"0", "1000000000", "-1", "604800000000000"}[g.R.Intn(4)]
			interval := []string{"300000000000", "60000000000", "1", "-1", "86400000000000", "300000000000"}[g.R.Intn(6)]
			last := []string{"keep", "keep", "keep", "0", "-600000000000", "600000000000"}[g.R.Intn(6)]
			return fmt.Sprintf("params %s %s %s %s", g.signer(), delay, interval, last)
		default:
			return g.fieldsLine("update", g.signerL(), g.R.Intn(3))
		}
	case "native":
		if g.R.Intn(25) == 0 && len(g.E.Vals) < 6 {
			return "newval"
		}
		switch g.R.Intn(7) {
		case 0, 1:
			return fmt.Sprintf("ndelegate %d %d %s", g.val(), g.val(), g.logUniform(8).String())
		case 2:
			return fmt.Sprintf("nundelegate %d %d all", g.val(), g.val())
		case 3:
			return fmt.Sprintf("nundelegate %d %d %s", g.val(), g.val(), g.logUniform(6).String())
		case 4:
			return fmt.Sprintf("jail %d", g.val())
		case 5:
			return fmt.Sprintf("unjail %d", g.val())
		default:
			return "stakingend"
		}
	case "donate":
		// (never the staking denom: the module burns its whole staking-denom balance every block by design)
		return fmt.Sprintf("donate %d %d %s", []int{AccModule, AccPool, AccFee}[g.R.Intn(3)], g.R.Intn(4), g.logUniform(9).String())
	case "unknown":
		return fmt.Sprintf("delegate %d %d %d %s", g.user(), g.val(), DenomUnknown, "100")
	}
	return "block 1000000000"
}
