// Package harness drives the REAL alliance app (real bank, staking, distribution, hook wiring, msg server)
// through operation sequences and writes one trace step per operation for the Lean model driver.
package harness

import (
	"os"
	"bytes"
	"fmt"
	"math/big"
	"sort"
	"strings"
	"testing"
	"time"

	"cosmossdk.io/math"
	sdk "github.com/cosmos/cosmos-sdk/types"
	authtypes "github.com/cosmos/cosmos-sdk/x/auth/types"
	distrtypes "github.com/cosmos/cosmos-sdk/x/distribution/types"
	govtypes "github.com/cosmos/cosmos-sdk/x/gov/types"
	minttypes "github.com/cosmos/cosmos-sdk/x/mint/types"
	teststaking "github.com/cosmos/cosmos-sdk/x/staking/testutil"
	stakingtypes "github.com/cosmos/cosmos-sdk/x/staking/types"

	allianceapp "github.com/terra-money/alliance/app"
	"github.com/terra-money/alliance/x/alliance/keeper"
	"github.com/terra-money/alliance/x/alliance/types"
)

// Denom universe: equal length, id order = string order (so DecCoins order, store key order and id order agree).
// the three alliance denoms are suffixes of one another and of increasing length ("aden" ⊂ "baden" ⊂ "cbaden"): key
// builders/parsers that drop or misplace a length prefix are only exercised by related denoms of different lengths. Both the
// lexicographic order (asset store, coins) and the length-prefixed order (index keys) coincide with the id order.
var Denoms = []string{"aden", "baden", "cbaden", "rwdxx", "stake", "zzzzz"}

const (
	DenomReward  = 3
	DenomBond    = 4
	DenomUnknown = 5
)

// Reserved account ids; users are 10+i. Must agree with AllianceModel/State.lean.
const (
	AccModule    = 0
	AccPool      = 1
	AccFee       = 2
	AccBonded    = 3
	AccNotBonded = 4
	AccDistr     = 5
	AccUserBase  = 10
)

var StartTime = time.Date(2030, 1, 1, 0, 0, 0, 0, time.UTC)

type Env struct {
	T       *testing.T
	App     *allianceapp.App
	Ctx     sdk.Context
	Vals    []sdk.ValAddress // index = validator id
	Cons    []sdk.ConsAddress
	Users   []sdk.AccAddress // index = user number (account id = 10+i)
	Natives []sdk.AccAddress // native delegators, not tracked in the bank dump
	Other   sdk.AccAddress   // a well-formed non-authority signer
	ModAddr sdk.AccAddress
	Msg     types.MsgServer
	// accounts tracked in the bank dump, id -> address
	acctAddr     map[int]sdk.AccAddress
	acctIDs      []int
	lastDetail   string
	replayNote   string
	reimportNote string
	lastSnap     *State
	Mon          MonState
}

func denomID(d string) int {
	for i, x := range Denoms {
		if x == d {
			return i
		}
	}
	panic("unknown denom " + d)
}

func (e *Env) valID(addr []byte) int {
	for i, v := range e.Vals {
		if bytes.Equal(v, addr) {
			return i
		}
	}
	return 900 + int(addr[len(addr)-1]) // foreign validator (e.g. the genesis validator); never in alliance state
}

func (e *Env) acctID(addr []byte) int {
	for id, a := range e.acctAddr {
		if bytes.Equal(a, addr) {
			return id
		}
	}
	panic(fmt.Sprintf("unknown account %x", addr))
}

func mkAddr(prefix byte, i int) []byte {
	b := make([]byte, 20)
	b[0] = prefix
	b[19] = byte(i)
	return b
}

// mkAddrN: an address of n bytes (the SDK allows 20-byte key-derived and 32-byte module/contract/ICA addresses).
// The LAST validator and the LAST user get 32-byte addresses: every store key of the module is length-prefixed, so a
// longer address sorts after all shorter ones and the id order of the model (= creation order) is still the store's
// iteration order; key parsers that mix up two length fields are only exercised when lengths differ.
func mkAddrN(prefix byte, i int, n int) []byte {
	b := make([]byte, n)
	b[0] = prefix
	b[n-1] = byte(i)
	return b
}

func addrLen(i, count int) int {
	if count > 1 && i == count-1 && os.Getenv("VERIF_EQUAL_ADDRS") == "" {
		return 32
	}
	return 20
}

func (e *Env) mint(addr sdk.AccAddress, coins sdk.Coins) {
	if coins.IsZero() {
		return
	}
	if err := e.App.BankKeeper.MintCoins(e.Ctx, minttypes.ModuleName, coins); err != nil {
		panic(err)
	}
	if err := e.App.BankKeeper.SendCoinsFromModuleToAccount(e.Ctx, minttypes.ModuleName, addr, coins); err != nil {
		panic(err)
	}
}

func (e *Env) mintToModule(module string, coins sdk.Coins) {
	if err := e.App.BankKeeper.MintCoins(e.Ctx, minttypes.ModuleName, coins); err != nil {
		panic(err)
	}
	if err := e.App.BankKeeper.SendCoinsFromModuleToModule(e.Ctx, minttypes.ModuleName, module, coins); err != nil {
		panic(err)
	}
}

type Config struct {
	NVals      int
	NUsers     int
	NativeSelf int64 // native self-delegation per validator
}

// NewEnv builds the real app as the repository's own tests do, with nVals bonded validators that carry native
// stake, nUsers funded delegators, and default module params.
func NewEnv(t *testing.T, cfg Config) *Env {
	app := allianceapp.Setup(t)
	ctx := app.NewContext(true).WithBlockTime(StartTime).WithBlockHeight(10)
	e := &Env{T: t, App: app, Ctx: ctx, acctAddr: map[int]sdk.AccAddress{}}
	e.Mon.LastDeposit = map[int]*big.Int{}
	e.ModAddr = authtypes.NewModuleAddress(types.ModuleName)
	e.Msg = routedMsgServer{app: app, direct: keeper.NewMsgServerImpl(app.AllianceKeeper)}
	e.acctAddr[AccModule] = e.ModAddr
	e.acctAddr[AccPool] = authtypes.NewModuleAddress(types.RewardsPoolName)
	e.acctAddr[AccFee] = authtypes.NewModuleAddress(authtypes.FeeCollectorName)
	e.acctAddr[AccBonded] = authtypes.NewModuleAddress(stakingtypes.BondedPoolName)
	e.acctAddr[AccNotBonded] = authtypes.NewModuleAddress(stakingtypes.NotBondedPoolName)
	e.acctAddr[AccDistr] = authtypes.NewModuleAddress(distrtypes.ModuleName)
	e.Other = sdk.AccAddress(mkAddr(0xEE, 1))

	app.AllianceKeeper.InitGenesis(ctx, &types.GenesisState{Params: types.DefaultParams()})

	pks := allianceapp.CreateTestPubKeys(cfg.NVals)
	for i := 0; i < cfg.NVals; i++ {
		valAddr := sdk.ValAddress(mkAddrN(0xA0, i, addrLen(i, cfg.NVals)))
		v := teststaking.NewValidator(t, valAddr, pks[i])
		v.Commission = stakingtypes.NewCommission(math.LegacyZeroDec(), math.LegacyOneDec(), math.LegacyZeroDec())
		allianceapp.RegisterNewValidator(t, app, ctx, v)
		cons, err := v.GetConsAddr()
		if err != nil {
			panic(err)
		}
		e.Vals = append(e.Vals, valAddr)
		e.Cons = append(e.Cons, cons)
		nd := sdk.AccAddress(mkAddr(0xB0, i))
		e.Natives = append(e.Natives, nd)
		if cfg.NativeSelf > 0 {
			e.mint(nd, sdk.NewCoins(sdk.NewCoin(Denoms[DenomBond], math.NewInt(cfg.NativeSelf).MulRaw(1000))))
			val, _ := app.StakingKeeper.GetValidator(ctx, valAddr)
			if _, err := app.StakingKeeper.Delegate(ctx, nd, math.NewInt(cfg.NativeSelf), stakingtypes.Unbonded, val, true); err != nil {
				panic(err)
			}
		}
	}
	for i := 0; i < cfg.NUsers; i++ {
		u := sdk.AccAddress(mkAddrN(0xD0, i, addrLen(i, cfg.NUsers)))
		e.Users = append(e.Users, u)
		e.acctAddr[AccUserBase+i] = u
	}
	for id := range e.acctAddr {
		e.acctIDs = append(e.acctIDs, id)
	}
	sort.Ints(e.acctIDs)
	if _, err := app.StakingKeeper.EndBlocker(ctx); err != nil {
		panic(err)
	}
	// the staking hooks fired during setup may have queued a rebalance; leave whatever the code did.
	return e
}

// addValidator: a validator created after assets exist. Its operator address sorts after all existing ones (32 bytes, larger
// last byte), so validator ids stay in key order; it self-delegates natively and joins the set at the next staking end blocker.
func (e *Env) addValidator() {
	n := len(e.Vals)
	if n >= 6 {
		return
	}
	pks := allianceapp.CreateTestPubKeys(n + 1)
	valAddr := sdk.ValAddress(mkAddrN(0xA0, n, 32))
	v := teststaking.NewValidator(e.T, valAddr, pks[n])
	v.Commission = stakingtypes.NewCommission(math.LegacyZeroDec(), math.LegacyOneDec(), math.LegacyZeroDec())
	allianceapp.RegisterNewValidator(e.T, e.App, e.Ctx, v)
	cons, err := v.GetConsAddr()
	if err != nil {
		panic(err)
	}
	e.Vals = append(e.Vals, valAddr)
	e.Cons = append(e.Cons, cons)
	nd := sdk.AccAddress(mkAddr(0xB0, n))
	e.Natives = append(e.Natives, nd)
	e.mint(nd, sdk.NewCoins(sdk.NewCoin(Denoms[DenomBond], math.NewInt(1_000_000_000))))
	val, _ := e.App.StakingKeeper.GetValidator(e.Ctx, valAddr)
	if _, err := e.App.StakingKeeper.Delegate(e.Ctx, nd, math.NewInt(1_000_000), stakingtypes.Unbonded, val, true); err != nil {
		panic(err)
	}
}

func (e *Env) Authority() string { return authtypes.NewModuleAddress(govtypes.ModuleName).String() }

func bigTimeNs(t time.Time) *big.Int {
	s := big.NewInt(t.Unix())
	s.Mul(s, big.NewInt(1_000_000_000))
	s.Add(s, big.NewInt(int64(t.Nanosecond())))
	return s
}

func decRaw(d math.LegacyDec) string {
	if d.IsNil() {
		return "nil"
	}
	return d.BigInt().String()
}

func joinTok(parts ...string) string { return strings.Join(parts, " ") }
