package harness

import (
	"fmt"
	"sort"
	"strconv"
	"strings"

	sdk "github.com/cosmos/cosmos-sdk/types"
	stakingtypes "github.com/cosmos/cosmos-sdk/x/staking/types"

	"github.com/terra-money/alliance/x/alliance/types"
)

// keyReader walks a store key made of length-prefixed parts.
type keyReader struct {
	b   []byte
	off int
}

func (k *keyReader) part() []byte {
	n := int(k.b[k.off])
	k.off++
	p := k.b[k.off : k.off+n]
	k.off += n
	return p
}
func (k *keyReader) rest() []byte { return k.b[k.off:] }

func denomFromKeyPart(p []byte) int { return denomID(string(p[:len(p)-1])) } // strip the null terminator

func timeNs(b []byte) string {
	t, err := sdk.ParseTimeBytes(b)
	if err != nil {
		panic(err)
	}
	return bigTimeNs(t).String()
}

func (e *Env) rawIter(prefix []byte, f func(key, val []byte)) {
	store := e.App.AllianceKeeper.StoreService().OpenKVStore(e.Ctx)
	end := make([]byte, len(prefix))
	copy(end, prefix)
	end[len(end)-1]++
	it, err := store.Iterator(prefix, end)
	if err != nil {
		panic(err)
	}
	defer it.Close()
	for ; it.Valid(); it.Next() {
		f(it.Key(), it.Value())
	}
}

func (e *Env) histStr(hs []types.RewardHistory) string {
	var sb strings.Builder
	sb.WriteString("H ")
	sb.WriteString(strconv.Itoa(len(hs)))
	for _, h := range hs {
		al := "-1"
		if h.Alliance != "" {
			al = strconv.Itoa(denomID(h.Alliance))
		}
		fmt.Fprintf(&sb, " %d %s %s", denomID(h.Denom), al, decRaw(h.Index))
	}
	return sb.String()
}

func decCoinsStr(cs []sdk.DecCoin) string {
	var sb strings.Builder
	sb.WriteString(strconv.Itoa(len(cs)))
	for _, c := range cs {
		fmt.Fprintf(&sb, " %d %s", denomID(c.Denom), decRaw(c.Amount))
	}
	return sb.String()
}

func (e *Env) redelStr(r *types.Redelegation) string {
	return fmt.Sprintf("%d %d %d %d %s",
		e.acctID(sdk.MustAccAddressFromBech32(r.DelegatorAddress)),
		e.valID(mustVal(r.SrcValidatorAddress)), e.valID(mustVal(r.DstValidatorAddress)),
		denomID(r.Balance.Denom), r.Balance.Amount.String())
}

func mustVal(s string) []byte {
	a, err := sdk.ValAddressFromBech32(s)
	if err != nil {
		panic(err)
	}
	return a
}

func listStr(items []string) string {
	if len(items) == 0 {
		return "0"
	}
	return strconv.Itoa(len(items)) + " " + strings.Join(items, " ")
}

// Dump renders the full observable state as one `S …` line (see AllianceModel/Trace.lean for the grammar).
func (e *Env) Dump() string {
	k := e.App.AllianceKeeper
	cdc := e.App.AppCodec()
	ctx := e.Ctx
	var sb strings.Builder
	fmt.Fprintf(&sb, "S time %s height %d", bigTimeNs(ctx.BlockTime()).String(), ctx.BlockHeight())
	p := k.GetParams(ctx)
	fmt.Fprintf(&sb, " params %d %d %s", int64(p.RewardDelayTime), int64(p.TakeRateClaimInterval), bigTimeNs(p.LastTakeRateClaimTime).String())
	flag := 0
	e.rawIter(types.AssetRebalanceQueueKey, func(_, _ []byte) { flag = 1 })
	fmt.Fprintf(&sb, " flag %d", flag)

	var items []string
	e.rawIter(types.AssetKey, func(key, val []byte) {
		var a types.AllianceAsset
		cdc.MustUnmarshal(val, &a)
		kr := keyReader{b: key, off: 1}
		kd := string(kr.part())
		if kd != a.Denom {
			panic("asset key/denom mismatch")
		}
		init := 0
		if a.IsInitialized {
			init = 1
		}
		items = append(items, fmt.Sprintf("%d %s %s %s %s %s %s %s %s %d %s %d", denomID(a.Denom), decRaw(a.RewardWeight),
			decRaw(a.RewardWeightRange.Min), decRaw(a.RewardWeightRange.Max), decRaw(a.TakeRate), a.TotalTokens.String(),
			decRaw(a.TotalValidatorShares), bigTimeNs(a.RewardStartTime).String(), decRaw(a.RewardChangeRate),
			int64(a.RewardChangeInterval), bigTimeNs(a.LastRewardChangeTime).String(), init))
	})
	sb.WriteString(" assets " + listStr(items))

	items = nil
	e.rawIter(types.ValidatorInfoKey, func(key, val []byte) {
		var info types.AllianceValidatorInfo
		cdc.MustUnmarshal(val, &info)
		kr := keyReader{b: key, off: 1}
		v := e.valID(kr.part())
		items = append(items, fmt.Sprintf("%d %s D %s V %s", v, e.histStr(info.GlobalRewardHistory),
			decCoinsStr(info.TotalDelegatorShares), decCoinsStr(info.ValidatorShares)))
	})
	sb.WriteString(" vals " + listStr(items))

	items = nil
	e.rawIter(types.DelegationKey, func(key, val []byte) {
		var d types.Delegation
		cdc.MustUnmarshal(val, &d)
		kr := keyReader{b: key, off: 1}
		del := e.acctID(kr.part())
		v := e.valID(kr.part())
		dn := denomFromKeyPart(kr.part())
		items = append(items, fmt.Sprintf("%d %d %d %s %d %s", del, v, dn, decRaw(d.Shares), d.LastRewardClaimHeight, e.histStr(d.RewardHistory)))
	})
	sb.WriteString(" dels " + listStr(items))

	items = nil
	e.rawIter(types.RedelegationKey, func(key, val []byte) {
		var r types.Redelegation
		cdc.MustUnmarshal(val, &r)
		kr := keyReader{b: key, off: 1}
		del := e.acctID(kr.part())
		dn := denomFromKeyPart(kr.part())
		dst := e.valID(kr.part())
		items = append(items, fmt.Sprintf("%d %d %d %s %s", del, dn, dst, timeNs(kr.rest()), e.redelStr(&r)))
	})
	sb.WriteString(" redels " + listStr(items))

	items = nil
	e.rawIter(types.RedelegationQueueKey, func(key, val []byte) {
		var q types.QueuedRedelegation
		cdc.MustUnmarshal(val, &q)
		var es []string
		for _, r := range q.Entries {
			es = append(es, e.redelStr(r))
		}
		items = append(items, timeNs(key[1:])+" "+listStr(es))
	})
	sb.WriteString(" rq " + listStr(items))

	items = nil
	e.rawIter(types.RedelegationByValidatorIndexKey, func(key, _ []byte) {
		kr := keyReader{b: key, off: 1}
		src := e.valID(kr.part())
		tm := timeNs(kr.part())
		dn := denomFromKeyPart(kr.part())
		dst := e.valID(kr.part())
		del := e.acctID(kr.part())
		items = append(items, fmt.Sprintf("%d %s %d %d %d", src, tm, dn, dst, del))
	})
	sb.WriteString(" ri " + listStr(items))

	items = nil
	e.rawIter(types.UndelegationQueueKey, func(key, val []byte) {
		var q types.QueuedUndelegation
		cdc.MustUnmarshal(val, &q)
		kr := keyReader{b: key, off: 1}
		tm := timeNs(kr.part())
		del := e.acctID(kr.part())
		var es []string
		for _, u := range q.Entries {
			es = append(es, fmt.Sprintf("%d %d %d %s", e.acctID(sdk.MustAccAddressFromBech32(u.DelegatorAddress)),
				e.valID(mustVal(u.ValidatorAddress)), denomID(u.Balance.Denom), u.Balance.Amount.String()))
		}
		items = append(items, fmt.Sprintf("%s %d %s", tm, del, listStr(es)))
	})
	sb.WriteString(" uq " + listStr(items))

	items = nil
	e.rawIter(types.UndelegationByValidatorIndexKey, func(key, _ []byte) {
		kr := keyReader{b: key, off: 1}
		v := e.valID(kr.part())
		tm := timeNs(kr.part())
		dn := denomFromKeyPart(kr.part())
		del := e.acctID(kr.part())
		items = append(items, fmt.Sprintf("%d %s %d %d", v, tm, dn, del))
	})
	sb.WriteString(" ui " + listStr(items))

	items = nil
	e.rawIter(types.RewardWeightChangeSnapshotKey, func(key, val []byte) {
		var s types.RewardWeightChangeSnapshot
		cdc.MustUnmarshal(val, &s)
		kr := keyReader{b: key, off: 1}
		dn := denomFromKeyPart(kr.part())
		v := e.valID(kr.part())
		h := sdk.BigEndianToUint64(kr.rest())
		items = append(items, fmt.Sprintf("%d %d %d %s %s", dn, v, h, decRaw(s.PrevRewardWeight), e.histStr(s.RewardHistories)))
	})
	sb.WriteString(" snaps " + listStr(items))

	items = nil
	for _, id := range e.acctIDs {
		for di, dn := range Denoms {
			b := e.App.BankKeeper.GetBalance(ctx, e.acctAddr[id], dn)
			if !b.Amount.IsZero() {
				items = append(items, fmt.Sprintf("%d %d %s", id, di, b.Amount.String()))
			}
		}
	}
	sb.WriteString(" bank " + listStr(items))
	items = nil
	for di, dn := range Denoms {
		s := e.App.BankKeeper.GetSupply(ctx, dn)
		if !s.Amount.IsZero() {
			items = append(items, fmt.Sprintf("%d %s", di, s.Amount.String()))
		}
	}
	sb.WriteString(" supply " + listStr(items))

	sb.WriteString(" " + e.stakingStr())
	return sb.String()
}

func (e *Env) stakingStr() string {
	ctx := e.Ctx
	sk := e.App.StakingKeeper
	bd, err := sk.BondDenom(ctx)
	if err != nil {
		panic(err)
	}
	ub, err := sk.UnbondingTime(ctx)
	if err != nil {
		panic(err)
	}
	var items []string
	for i, va := range e.Vals {
		v, err := sk.GetValidator(ctx, va)
		if err != nil {
			continue
		}
		ms := "-1"
		if d, err := sk.GetDelegation(ctx, e.ModAddr, va); err == nil {
			ms = decRaw(d.Shares)
		}
		j := 0
		if v.Jailed {
			j = 1
		}
		items = append(items, fmt.Sprintf("%d %d %d %s %s %s", i, int32(v.Status), j, v.Tokens.String(), decRaw(v.DelegatorShares), ms))
	}
	return fmt.Sprintf("staking %d %d %s", denomID(bd), int64(ub), listStr(items))
}

var _ = sort.Ints
var _ = stakingtypes.Bonded
