package harness

import (
	"strconv"
	"strings"

	sdk "github.com/cosmos/cosmos-sdk/types"
)

// keyReader walks a store key made of length-prefixed parts.
type keyReader struct {
	b   []byte
	off int
}

func (k *keyReader) part() []byte {
	n := int(k.b[k.off])
	k.off++
	p := k.b[k.off : k.off+n]
	k.off += n
	return p
}
func (k *keyReader) rest() []byte { return k.b[k.off:] }

func denomFromKeyPart(p []byte) int { return denomID(string(p[:len(p)-1])) } // strip the null terminator

func (e *Env) rawIter(prefix []byte, f func(key, val []byte)) {
	store := e.App.AllianceKeeper.StoreService().OpenKVStore(e.Ctx)
	end := make([]byte, len(prefix))
	copy(end, prefix)
	end[len(end)-1]++
	it, err := store.Iterator(prefix, end)
	if err != nil {
		panic(err)
	}
	defer it.Close()
	for ; it.Valid(); it.Next() {
		f(it.Key(), it.Value())
	}
}

func mustVal(s string) []byte {
	a, err := sdk.ValAddressFromBech32(s)
	if err != nil {
		panic(err)
	}
	return a
}

func listStr(items []string) string {
	if len(items) == 0 {
		return "0"
	}
	return strconv.Itoa(len(items)) + " " + strings.Join(items, " ")
}
