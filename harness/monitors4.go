package harness

// Monitors added after the second round of seeded changes:
//   C13 split_not_prorata         — a reward forwarded to a validator's delegators is split between the alliances
//                                   pro rata to rewardWeight × (validator's share of the asset), in exact rationals
//   C14 weight_change_not_settled — after a step that changed an asset's reward weight no validator may still have
//                                   staking rewards pending for the module account (they would be booked at the new weight)

import (
	"math/big"
	"strings"

	sdk "github.com/cosmos/cosmos-sdk/types"
)

type withdrawal struct {
	Val   int
	Coins []DC
}

// withdrawalsOf parses the response tape of the step's O line: `… W n  val m (denom amt)*m …`
func withdrawalsOf(st *Step) []withdrawal {
	var out []withdrawal
	f := strings.Fields(st.Op)
	for i, t := range f {
		if t == "W" {
			n := atoi(f[i+1])
			j := i + 2
			for k := 0; k < n; k++ {
				w := withdrawal{Val: atoi(f[j])}
				j++
				m := atoi(f[j])
				j++
				for c := 0; c < m; c++ {
					w.Coins = append(w.Coins, DC{Denom: atoi(f[j]), Amt: bi(f[j+1])})
					j += 2
				}
				out = append(out, w)
			}
			break
		}
	}
	return out
}

func histIdx(hs []Hist, denom, alliance int) *big.Int {
	for _, h := range hs {
		if h.Denom == denom && h.Alliance == alliance {
			return h.Index
		}
	}
	return new(big.Int)
}

// monitorSplit (C13): on user operations and governance updates the rewards are withdrawn and indexed before the
// operation changes any total, so the split can be recomputed from the pre-state in exact rationals.
func (e *Env) monitorSplit(st *Step, kind string, ok bool) {
	if !ok {
		return
	}
	switch kind {
	case "delegate", "undelegate", "redelegate", "claim":
	default:
		return
	}
	pre, post := st.PreS, st.PostS
	seen := map[int]bool{}
	for _, wd := range withdrawalsOf(st) {
		if seen[wd.Val] {
			continue // a second withdrawal in the same step sees an intermediate state
		}
		seen[wd.Val] = true
		vi, vo := pre.Val(wd.Val), post.Val(wd.Val)
		if vi == nil || vo == nil || len(vi.TDS) == 0 {
			continue
		}
		// srw_a = W_a · vs_a / S_a for started assets with stake on the validator
		type part struct {
			a   *AssetS
			srw *big.Rat
			tt  *big.Rat
		}
		var parts []part
		total := new(big.Rat)
		// the code divides validator shares by the asset's share total in 18-digit fixed point: a share ratio r carries
		// a relative error of up to 1e-18/r, which the split inherits (dust holdings of a validator)
		resolution := new(big.Rat)
		for i := range pre.Assets {
			a := &pre.Assets[i]
			vs := dcAmt(vi.VS, a.Denom)
			if a.T.Sign() == 0 || pre.Time.Cmp(a.Start) < 0 || vs.Sign() <= 0 || a.S.Sign() <= 0 {
				continue
			}
			share := new(big.Rat).SetFrac(vs, a.S)
			tt := new(big.Rat).Mul(share, new(big.Rat).SetInt(a.T))
			if tt.Sign() == 0 {
				continue
			}
			srw := new(big.Rat).Mul(new(big.Rat).SetFrac(a.W, bigP), share)
			if srw.Sign() <= 0 {
				continue // a zero reward weight takes no part in the split
			}
			parts = append(parts, part{a, srw, tt})
			total.Add(total, srw)
			resolution.Add(resolution, new(big.Rat).Quo(big.NewRat(1, 1_000_000_000_000_000_000), share))
			// … and weight × share ratio is itself truncated to 18 digits
			resolution.Add(resolution, new(big.Rat).Quo(big.NewRat(1, 1_000_000_000_000_000_000), srw))
		}
		if total.Sign() <= 0 || len(parts) < 2 {
			continue
		}
		for _, c := range wd.Coins {
			if c.Amt.Sign() <= 0 {
				continue
			}
			for _, p := range parts {
				want := new(big.Rat).Mul(new(big.Rat).SetInt(c.Amt), new(big.Rat).Quo(p.srw, total))
				didx := new(big.Int).Sub(histIdx(vo.Hist, c.Denom, p.a.Denom), histIdx(vi.Hist, c.Denom, p.a.Denom))
				got := new(big.Rat).Mul(new(big.Rat).SetFrac(didx, bigP), p.tt)
				diff := new(big.Rat).Sub(got, want)
				diff.Abs(diff)
				// one base unit, plus a relative 1e-9 for the 18-digit index at small per-token amounts
				rel := new(big.Rat).Add(big.NewRat(1, 1_000_000_000), new(big.Rat).Mul(resolution, big.NewRat(4, 1)))
				tol := new(big.Rat).Add(big.NewRat(1, 1), new(big.Rat).Mul(want, rel))
				// the per-token index itself is rounded to 1e-18: worth tt·1e-18 tokens
				tol.Add(tol, new(big.Rat).Mul(p.tt, big.NewRat(1, 1_000_000_000_000_000_000)))
				if diff.Cmp(tol) > 0 {
					st.fail("C13", "split_not_prorata", "validator %d reward denom %d amount %s: alliance %d indexed %s, pro-rata share is %s",
						wd.Val, c.Denom, c.Amt, p.a.Denom, got.FloatString(3), want.FloatString(3))
				}
			}
		}
	}
}

// monitorWeightSettled (C14): a weight change (governance or decay) must have withdrawn and indexed, at the old weight,
// everything that was pending for the module account on every validator.
func (e *Env) monitorWeightSettled(st *Step, ok bool) {
	if !ok {
		return
	}
	pre, post := st.PreS, st.PostS
	changed := -1
	for _, a := range pre.Assets {
		if b := post.Asset(a.Denom); b != nil && b.W.Cmp(a.W) != 0 {
			changed = a.Denom
		}
	}
	if changed < 0 {
		return
	}
	for v := range e.Vals {
		sv, vi := post.SVal(v), post.Val(v)
		if sv == nil || sv.ModShares == nil || vi == nil || len(vi.TDS) == 0 {
			continue
		}
		var coins sdk.Coins
		cctx, _ := e.Ctx.CacheContext()
		res, _ := protect(func() error {
			var err error
			coins, err = e.App.DistrKeeper.WithdrawDelegationRewards(cctx, e.ModAddr, e.Vals[v])
			return err
		})
		if res != "ok" {
			continue
		}
		for _, c := range coins {
			if c.Amount.IsPositive() {
				st.fail("C14", "weight_change_not_settled", "weight of asset %d changed but validator %d still has %s pending for the module account", changed, v, c)
				break
			}
		}
	}
}

// monitorValidatorSettled (C13): a successful user operation on a position settles the VALIDATOR first — everything
// x/distribution holds for the module account's delegation to it is withdrawn and indexed — whatever the validator's status
// (rewards allocated while it was bonded stay withdrawable after it left the active set). Otherwise stake that arrives now
// shares rewards that accrued before it (not retroactive), and a claim pays less than the accumulated entitlement.
func (e *Env) monitorValidatorSettled(st *Step, f []string, kind string, ok bool) {
	if !ok {
		return
	}
	var vals []int
	denom := -1
	switch kind {
	case "delegate", "undelegate", "claim":
		vals = []int{atoi(f[2])}
		denom = atoi(f[3])
	case "redelegate":
		vals = []int{atoi(f[2]), atoi(f[3])}
		denom = atoi(f[4])
	default:
		return
	}
	post := st.PostS
	// an asset whose rewards have not started takes no part in any split: its positions are not settled (by design)
	if a := post.Asset(denom); a == nil || post.Time.Cmp(a.Start) < 0 {
		return
	}
	for _, v := range vals {
		if v < 0 || v >= len(e.Vals) {
			continue
		}
		sv, vi := post.SVal(v), post.Val(v)
		if sv == nil || sv.ModShares == nil || vi == nil || len(vi.TDS) == 0 {
			continue
		}
		var coins sdk.Coins
		cctx, _ := e.Ctx.CacheContext()
		res, _ := protect(func() error {
			var err error
			coins, err = e.App.DistrKeeper.WithdrawDelegationRewards(cctx, e.ModAddr, e.Vals[v])
			return err
		})
		if res != "ok" {
			continue
		}
		for _, c := range coins {
			if c.Amount.IsPositive() {
				st.fail("C13", "validator_not_settled", "%s succeeded but validator %d still has %s pending for the module account: accrued rewards were not indexed before the position changed", kind, v, c)
				break
			}
		}
	}
}
