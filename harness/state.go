package harness

import (
	"fmt"
	"math/big"
	"sort"
	"strconv"
	"strings"

	sdk "github.com/cosmos/cosmos-sdk/types"

	"github.com/terra-money/alliance/x/alliance/types"
)

// State is the observable state in structured form; String() renders the canonical `S …` line.
type Hist struct {
	Denom, Alliance int // Alliance -1: legacy untagged
	Index           *big.Int
}
type AssetS struct {
	Denom                              int
	W, Min, Max, TR, T, S, Start, Rate *big.Int
	Intv                               int64
	Last                               *big.Int
	Init                               bool
}
type DC struct {
	Denom int
	Amt   *big.Int
}
type ValS struct {
	ID   int
	Hist []Hist
	TDS  []DC
	VS   []DC
}
type DelS struct {
	Del, Val, Denom int
	Shares          *big.Int
	Height          uint64
	Hist            []Hist
	Balance         *big.Int // reported value (GetDelegationTokens); nil when the computation panics or the asset is gone
}
type RedelE struct {
	Del, Src, Dst, Denom int
	Amt                  *big.Int
}
type RedelS struct {
	KDel, KDenom, KDst int
	KTime              *big.Int
	R                  RedelE
}
type RQ struct {
	Time    *big.Int
	Entries []RedelE
}
type RI struct {
	Src             int
	Time            *big.Int
	Denom, Dst, Del int
}
type UndelE struct {
	Del, Val, Denom int
	Amt             *big.Int
}
type UQ struct {
	Time    *big.Int
	Del     int
	Entries []UndelE
}
type UI struct {
	Val        int
	Time       *big.Int
	Denom, Del int
}
type SnapS struct {
	Denom, Val int
	Height     uint64
	PrevW      *big.Int
	Hist       []Hist
}
type BankRow struct {
	Acct, Denom int
	Amt         *big.Int
}
type SValS struct {
	ID, Status int
	Jailed     bool
	Tokens     *big.Int
	DelShares  *big.Int
	ModShares  *big.Int // nil: no delegation
}
type State struct {
	Time          *big.Int
	Height        int64
	PDelay, PIntv int64
	PLast         *big.Int
	Flag          bool
	Assets        []AssetS
	Vals          []ValS
	Dels          []DelS
	Redels        []RedelS
	RQ            []RQ
	RI            []RI
	UQ            []UQ
	UI            []UI
	Snaps         []SnapS
	Bank          []BankRow
	Supply        []DC
	BondDenom     int
	Unbonding     int64
	SVals         []SValS
	// not part of the trace line: tokens of ALL bonded validators of the chain (x/staking's pool invariant)
	BondedTokensAll *big.Int
}

func (s *State) Asset(d int) *AssetS {
	for i := range s.Assets {
		if s.Assets[i].Denom == d {
			return &s.Assets[i]
		}
	}
	return nil
}
func (s *State) Val(v int) *ValS {
	for i := range s.Vals {
		if s.Vals[i].ID == v {
			return &s.Vals[i]
		}
	}
	return nil
}
func (s *State) SVal(v int) *SValS {
	for i := range s.SVals {
		if s.SVals[i].ID == v {
			return &s.SVals[i]
		}
	}
	return nil
}
func (s *State) Del(u, v, d int) *DelS {
	for i := range s.Dels {
		x := &s.Dels[i]
		if x.Del == u && x.Val == v && x.Denom == d {
			return x
		}
	}
	return nil
}
func (s *State) Bal(acct, denom int) *big.Int {
	for _, r := range s.Bank {
		if r.Acct == acct && r.Denom == denom {
			return r.Amt
		}
	}
	return big.NewInt(0)
}
func (s *State) SupplyOf(d int) *big.Int {
	for _, r := range s.Supply {
		if r.Denom == d {
			return r.Amt
		}
	}
	return big.NewInt(0)
}
func dcAmt(cs []DC, d int) *big.Int {
	for _, c := range cs {
		if c.Denom == d {
			return c.Amt
		}
	}
	return big.NewInt(0)
}

func histS(hs []Hist) string {
	var sb strings.Builder
	sb.WriteString("H ")
	sb.WriteString(strconv.Itoa(len(hs)))
	for _, h := range hs {
		fmt.Fprintf(&sb, " %d %d %s", h.Denom, h.Alliance, h.Index)
	}
	return sb.String()
}
func dcS(cs []DC) string {
	var sb strings.Builder
	sb.WriteString(strconv.Itoa(len(cs)))
	for _, c := range cs {
		fmt.Fprintf(&sb, " %d %s", c.Denom, c.Amt)
	}
	return sb.String()
}
func redelES(r RedelE) string {
	return fmt.Sprintf("%d %d %d %d %s", r.Del, r.Src, r.Dst, r.Denom, r.Amt)
}
func b2i(b bool) int {
	if b {
		return 1
	}
	return 0
}

// String renders the `S …` line (grammar: AllianceModel/Trace.lean).
func (s *State) String() string {
	var sb strings.Builder
	fmt.Fprintf(&sb, "S time %s height %d params %d %d %s flag %d", s.Time, s.Height, s.PDelay, s.PIntv, s.PLast, b2i(s.Flag))
	var items []string
	for _, a := range s.Assets {
		items = append(items, fmt.Sprintf("%d %s %s %s %s %s %s %s %s %d %s %d", a.Denom, a.W, a.Min, a.Max, a.TR, a.T, a.S, a.Start, a.Rate, a.Intv, a.Last, b2i(a.Init)))
	}
	sb.WriteString(" assets " + listStr(items))
	items = nil
	for _, v := range s.Vals {
		items = append(items, fmt.Sprintf("%d %s D %s V %s", v.ID, histS(v.Hist), dcS(v.TDS), dcS(v.VS)))
	}
	sb.WriteString(" vals " + listStr(items))
	items = nil
	for _, d := range s.Dels {
		items = append(items, fmt.Sprintf("%d %d %d %s %d %s", d.Del, d.Val, d.Denom, d.Shares, d.Height, histS(d.Hist)))
	}
	sb.WriteString(" dels " + listStr(items))
	items = nil
	for _, r := range s.Redels {
		items = append(items, fmt.Sprintf("%d %d %d %s %s", r.KDel, r.KDenom, r.KDst, r.KTime, redelES(r.R)))
	}
	sb.WriteString(" redels " + listStr(items))
	items = nil
	for _, q := range s.RQ {
		var es []string
		for _, r := range q.Entries {
			es = append(es, redelES(r))
		}
		items = append(items, q.Time.String()+" "+listStr(es))
	}
	sb.WriteString(" rq " + listStr(items))
	items = nil
	for _, k := range s.RI {
		items = append(items, fmt.Sprintf("%d %s %d %d %d", k.Src, k.Time, k.Denom, k.Dst, k.Del))
	}
	sb.WriteString(" ri " + listStr(items))
	items = nil
	for _, q := range s.UQ {
		var es []string
		for _, u := range q.Entries {
			es = append(es, fmt.Sprintf("%d %d %d %s", u.Del, u.Val, u.Denom, u.Amt))
		}
		items = append(items, fmt.Sprintf("%s %d %s", q.Time, q.Del, listStr(es)))
	}
	sb.WriteString(" uq " + listStr(items))
	items = nil
	for _, k := range s.UI {
		items = append(items, fmt.Sprintf("%d %s %d %d", k.Val, k.Time, k.Denom, k.Del))
	}
	sb.WriteString(" ui " + listStr(items))
	items = nil
	for _, sn := range s.Snaps {
		items = append(items, fmt.Sprintf("%d %d %d %s %s", sn.Denom, sn.Val, sn.Height, sn.PrevW, histS(sn.Hist)))
	}
	sb.WriteString(" snaps " + listStr(items))
	items = nil
	for _, r := range s.Bank {
		items = append(items, fmt.Sprintf("%d %d %s", r.Acct, r.Denom, r.Amt))
	}
	sb.WriteString(" bank " + listStr(items))
	items = nil
	for _, r := range s.Supply {
		items = append(items, fmt.Sprintf("%d %s", r.Denom, r.Amt))
	}
	sb.WriteString(" supply " + listStr(items))
	items = nil
	for _, v := range s.SVals {
		ms := "-1"
		if v.ModShares != nil {
			ms = v.ModShares.String()
		}
		items = append(items, fmt.Sprintf("%d %d %d %s %s %s", v.ID, v.Status, b2i(v.Jailed), v.Tokens, v.DelShares, ms))
	}
	fmt.Fprintf(&sb, " staking %d %d %s", s.BondDenom, s.Unbonding, listStr(items))
	return sb.String()
}

func (e *Env) hists(hs []types.RewardHistory) []Hist {
	out := make([]Hist, 0, len(hs))
	for _, h := range hs {
		al := -1
		if h.Alliance != "" {
			al = denomID(h.Alliance)
		}
		out = append(out, Hist{denomID(h.Denom), al, h.Index.BigInt()})
	}
	return out
}
func dcs(cs []sdk.DecCoin) []DC {
	out := make([]DC, 0, len(cs))
	for _, c := range cs {
		out = append(out, DC{denomID(c.Denom), c.Amount.BigInt()})
	}
	return out
}
func (e *Env) redelE(r *types.Redelegation) RedelE {
	return RedelE{e.acctID(sdk.MustAccAddressFromBech32(r.DelegatorAddress)), e.valID(mustVal(r.SrcValidatorAddress)),
		e.valID(mustVal(r.DstValidatorAddress)), denomID(r.Balance.Denom), r.Balance.Amount.BigInt()}
}
func timeBig(b []byte) *big.Int {
	t, err := sdk.ParseTimeBytes(b)
	if err != nil {
		panic(err)
	}
	return bigTimeNs(t)
}

// Snapshot reads the whole observable state from the raw KV store, the bank and the staking keeper.
func (e *Env) Snapshot() *State {
	k := e.App.AllianceKeeper
	cdc := e.App.AppCodec()
	ctx := e.Ctx
	s := &State{Time: bigTimeNs(ctx.BlockTime()), Height: ctx.BlockHeight()}
	p := k.GetParams(ctx)
	s.PDelay, s.PIntv, s.PLast = int64(p.RewardDelayTime), int64(p.TakeRateClaimInterval), bigTimeNs(p.LastTakeRateClaimTime)
	e.rawIter(types.AssetRebalanceQueueKey, func(_, _ []byte) { s.Flag = true })
	e.rawIter(types.AssetKey, func(key, val []byte) {
		var a types.AllianceAsset
		cdc.MustUnmarshal(val, &a)
		s.Assets = append(s.Assets, AssetS{denomID(a.Denom), a.RewardWeight.BigInt(), a.RewardWeightRange.Min.BigInt(), a.RewardWeightRange.Max.BigInt(),
			a.TakeRate.BigInt(), a.TotalTokens.BigInt(), a.TotalValidatorShares.BigInt(), bigTimeNs(a.RewardStartTime), a.RewardChangeRate.BigInt(),
			int64(a.RewardChangeInterval), bigTimeNs(a.LastRewardChangeTime), a.IsInitialized})
	})
	e.rawIter(types.ValidatorInfoKey, func(key, val []byte) {
		var info types.AllianceValidatorInfo
		cdc.MustUnmarshal(val, &info)
		kr := keyReader{b: key, off: 1}
		s.Vals = append(s.Vals, ValS{e.valID(kr.part()), e.hists(info.GlobalRewardHistory), dcs(info.TotalDelegatorShares), dcs(info.ValidatorShares)})
	})
	e.rawIter(types.DelegationKey, func(key, val []byte) {
		var d types.Delegation
		cdc.MustUnmarshal(val, &d)
		kr := keyReader{b: key, off: 1}
		del := e.acctID(kr.part())
		v := e.valID(kr.part())
		dn := denomFromKeyPart(kr.part())
		s.Dels = append(s.Dels, DelS{Del: del, Val: v, Denom: dn, Shares: d.Shares.BigInt(), Height: d.LastRewardClaimHeight, Hist: e.hists(d.RewardHistory)})
	})
	e.rawIter(types.RedelegationKey, func(key, val []byte) {
		var r types.Redelegation
		cdc.MustUnmarshal(val, &r)
		kr := keyReader{b: key, off: 1}
		del := e.acctID(kr.part())
		dn := denomFromKeyPart(kr.part())
		dst := e.valID(kr.part())
		s.Redels = append(s.Redels, RedelS{del, dn, dst, timeBig(kr.rest()), e.redelE(&r)})
	})
	e.rawIter(types.RedelegationQueueKey, func(key, val []byte) {
		var q types.QueuedRedelegation
		cdc.MustUnmarshal(val, &q)
		rq := RQ{Time: timeBig(key[1:])}
		for _, r := range q.Entries {
			rq.Entries = append(rq.Entries, e.redelE(r))
		}
		s.RQ = append(s.RQ, rq)
	})
	e.rawIter(types.RedelegationByValidatorIndexKey, func(key, _ []byte) {
		kr := keyReader{b: key, off: 1}
		src := e.valID(kr.part())
		tm := timeBig(kr.part())
		dn := denomFromKeyPart(kr.part())
		dst := e.valID(kr.part())
		del := e.acctID(kr.part())
		s.RI = append(s.RI, RI{src, tm, dn, dst, del})
	})
	e.rawIter(types.UndelegationQueueKey, func(key, val []byte) {
		var q types.QueuedUndelegation
		cdc.MustUnmarshal(val, &q)
		kr := keyReader{b: key, off: 1}
		uq := UQ{Time: timeBig(kr.part())}
		uq.Del = e.acctID(kr.part())
		for _, u := range q.Entries {
			uq.Entries = append(uq.Entries, UndelE{e.acctID(sdk.MustAccAddressFromBech32(u.DelegatorAddress)), e.valID(mustVal(u.ValidatorAddress)), denomID(u.Balance.Denom), u.Balance.Amount.BigInt()})
		}
		s.UQ = append(s.UQ, uq)
	})
	e.rawIter(types.UndelegationByValidatorIndexKey, func(key, _ []byte) {
		kr := keyReader{b: key, off: 1}
		v := e.valID(kr.part())
		tm := timeBig(kr.part())
		dn := denomFromKeyPart(kr.part())
		del := e.acctID(kr.part())
		s.UI = append(s.UI, UI{v, tm, dn, del})
	})
	e.rawIter(types.RewardWeightChangeSnapshotKey, func(key, val []byte) {
		var sn types.RewardWeightChangeSnapshot
		cdc.MustUnmarshal(val, &sn)
		kr := keyReader{b: key, off: 1}
		dn := denomFromKeyPart(kr.part())
		v := e.valID(kr.part())
		h := sdk.BigEndianToUint64(kr.rest())
		s.Snaps = append(s.Snaps, SnapS{dn, v, h, sn.PrevRewardWeight.BigInt(), e.hists(sn.RewardHistories)})
	})
	for _, id := range e.acctIDs {
		for di, dn := range Denoms {
			b := e.App.BankKeeper.GetBalance(ctx, e.acctAddr[id], dn)
			if !b.Amount.IsZero() {
				s.Bank = append(s.Bank, BankRow{id, di, b.Amount.BigInt()})
			}
		}
	}
	for di, dn := range Denoms {
		sp := e.App.BankKeeper.GetSupply(ctx, dn)
		if !sp.Amount.IsZero() {
			s.Supply = append(s.Supply, DC{di, sp.Amount.BigInt()})
		}
	}
	sk := e.App.StakingKeeper
	bd, err := sk.BondDenom(ctx)
	if err != nil {
		panic(err)
	}
	ub, err := sk.UnbondingTime(ctx)
	if err != nil {
		panic(err)
	}
	s.BondDenom, s.Unbonding = denomID(bd), int64(ub)
	for i, va := range e.Vals {
		v, err := sk.GetValidator(ctx, va)
		if err != nil {
			continue
		}
		sv := SValS{ID: i, Status: int(v.Status), Jailed: v.Jailed, Tokens: v.Tokens.BigInt(), DelShares: v.DelegatorShares.BigInt()}
		if d, err := sk.GetDelegation(ctx, e.ModAddr, va); err == nil {
			sv.ModShares = d.Shares.BigInt()
		}
		s.SVals = append(s.SVals, sv)
	}
	s.BondedTokensAll = new(big.Int)
	if all, err := sk.GetAllValidators(ctx); err == nil {
		for _, v := range all {
			if v.IsBonded() {
				s.BondedTokensAll.Add(s.BondedTokensAll, v.Tokens.BigInt())
			}
		}
	}
	// reported balances, through the same function the queries use
	for i := range s.Dels {
		s.Dels[i].Balance = e.reportedBalance(s.Dels[i].Del, s.Dels[i].Val, s.Dels[i].Denom)
	}
	return s
}

func (e *Env) reportedBalance(u, v, d int) (res *big.Int) {
	defer func() {
		if recover() != nil {
			res = nil
		}
	}()
	k := e.App.AllianceKeeper
	dl, ok := k.GetDelegation(e.Ctx, e.user(u), e.Vals[v], Denoms[d])
	if !ok {
		return nil
	}
	a, ok := k.GetAssetByDenom(e.Ctx, Denoms[d])
	if !ok {
		return nil
	}
	cctx, _ := e.Ctx.CacheContext()
	val, err := k.GetAllianceValidator(cctx, e.Vals[v])
	if err != nil {
		return nil
	}
	return types.GetDelegationTokens(dl, val, a).Amount.BigInt()
}

func (e *Env) Dump() string { return e.Snapshot().String() }

var _ = sort.Ints
