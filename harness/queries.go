package harness

// Query lines of the trace protocol (C20): after a step, every query of the gRPC server that reports unbondings,
// redelegations and delegation balances is asked on a discarded branch of the post-state and its canonicalised answer is
// written as  `Q <kind> <args…> | <rows sorted, joined by ';'>`. The Lean driver answers the same query with the model's
// query functions (AllianceModel/Query.lean) on the observed post-state and compares.

import (
	"encoding/json"
	"fmt"
	"math/big"
	"os"
	"sort"
	"strings"

	"cosmossdk.io/math"
	sdk "github.com/cosmos/cosmos-sdk/types"
	banktypes "github.com/cosmos/cosmos-sdk/x/bank/types"

	"github.com/terra-money/alliance/x/alliance/bindings"
	bindingtypes "github.com/terra-money/alliance/x/alliance/bindings/types"
	"github.com/terra-money/alliance/x/alliance/keeper"
	"github.com/terra-money/alliance/x/alliance/types"
)

func rows(xs []string) string {
	if len(xs) == 0 {
		return "-"
	}
	sort.Strings(xs)
	return strings.Join(xs, ";")
}

func (e *Env) queryLines(st *Step, all bool) []string {
	post := st.PostS
	qs := keeper.NewQueryServerImpl(e.App.AllianceKeeper)
	cctx, _ := e.Ctx.CacheContext()
	var out []string
	ub := func(us []types.UnbondingDelegation) string {
		var xs []string
		for _, u := range us {
			xs = append(xs, fmt.Sprintf("%d %s %d %s", e.valID(mustVal(u.ValidatorAddress)), bigTimeNs(u.CompletionTime), denomID(u.Denom), u.Amount))
		}
		return rows(xs)
	}
	rd := func(rs []types.RedelegationEntry) string {
		var xs []string
		for _, x := range rs {
			xs = append(xs, fmt.Sprintf("%d %d %s %s", e.valID(mustVal(x.SrcValidatorAddress)), e.valID(mustVal(x.DstValidatorAddress)), bigTimeNs(x.CompletionTime), x.Balance.Amount))
		}
		return rows(xs)
	}
	guard := func(q string, f func() (string, error)) {
		var ans string
		var err error
		if res, _ := protect(func() error { ans, err = f(); return err }); strings.HasPrefix(res, "panic") {
			out = append(out, "Q "+q+" | panic")
			return
		}
		if err != nil {
			out = append(out, "Q "+q+" | err")
			return
		}
		out = append(out, "Q "+q+" | "+ans)
	}
	// custom/bank: supply queries net of the alliance-bonded amount
	for d, dn := range Denoms {
		guard(fmt.Sprintf("supplyof %d", d), func() (string, error) {
			r, err := e.App.BankKeeper.SupplyOf(cctx, &banktypes.QuerySupplyOfRequest{Denom: dn})
			if err != nil {
				return "", err
			}
			// C11: the reported staking-denom supply is the bank supply net of the alliance-bonded amount
			// (reference computation from the staking view of the state: Σ over bonded validators of the module's
			// shares × tokens / delegator shares, truncated as GetAllianceBondedAmount truncates)
			want := new(big.Int).Set(post.SupplyOf(d))
			if d == post.BondDenom {
				sum := new(big.Int)
				e36 := new(big.Int).Exp(big.NewInt(10), big.NewInt(36), nil)
				for _, sv := range post.SVals {
					if sv.Status != 3 || sv.ModShares == nil || sv.DelShares.Sign() == 0 {
						continue
					}
					t := new(big.Int).Mul(sv.ModShares, sv.Tokens)
					t.Mul(t, e36)
					t.Quo(t, sv.DelShares)
					t.Quo(t, bigP)
					sum.Add(sum, t)
				}
				want.Sub(want, sum.Quo(sum, bigP))
			}
			if r.Amount.Amount.BigInt().Cmp(want) != 0 {
				st.pfail("C11", "supply_query_not_net", "SupplyOf(%s) reports %s, supply net of the alliance-bonded amount is %s", dn, r.Amount.Amount, want)
			}
			return r.Amount.Amount.String(), nil
		})
	}
	guard("totalsupply", func() (string, error) {
		r, err := e.App.BankKeeper.TotalSupply(cctx, &banktypes.QueryTotalSupplyRequest{})
		if err != nil {
			return "", err
		}
		var xs []string
		for _, c := range r.Supply {
			known := false
			for _, dn := range Denoms {
				known = known || dn == c.Denom
			}
			if known {
				xs = append(xs, fmt.Sprintf("%d %s", denomID(c.Denom), c.Amount))
			}
		}
		return rows(xs), nil
	})
	if !all {
		return out
	}
	// contract bindings
	kp := e.App.AllianceKeeper
	querier := bindings.CustomQuerier(bindings.NewAllianceQueryPlugin(&kp))
	for d := 0; d < 3; d++ {
		a := post.Asset(d)
		if a == nil {
			continue
		}
		var resp bindingtypes.AllianceResponse
		var qerr error
		res, _ := protect(func() error {
			req, _ := json.Marshal(bindingtypes.AllianceQuery{Alliance: &bindingtypes.Alliance{Denom: Denoms[d]}})
			bz, err := querier(cctx, req)
			if err != nil {
				qerr = err
				return err
			}
			return json.Unmarshal(bz, &resp)
		})
		if res != "ok" || qerr != nil {
			st.pfail("C20", "binding_alliance", "binding alliance query of denom %d fails: %s %v", d, res, qerr)
			continue
		}
		raw := func(x string) string { return math.LegacyMustNewDecFromStr(x).BigInt().String() }
		if raw(resp.RewardWeight) != a.W.String() || raw(resp.TakeRate) != a.TR.String() || resp.TotalTokens != a.T.String() ||
			raw(resp.TotalValidatorShares) != a.S.String() || raw(resp.RewardChangeRate) != a.Rate.String() ||
			raw(resp.RewardWeightRange.Min) != a.Min.String() || raw(resp.RewardWeightRange.Max) != a.Max.String() || resp.IsInitialized != a.Init {
			st.pfail("C20", "binding_alliance", "binding alliance query of denom %d reports %+v, record is %+v", d, resp, *a)
		}
		if fmt.Sprint(resp.RewardStartTime) != a.Start.String() || fmt.Sprint(resp.LastRewardChangeTime) != a.Last.String() {
			st.pfail("C20", "binding_time_truncated", "binding alliance query of denom %d reports start %d / last change %d, record has %s / %s",
				d, resp.RewardStartTime, resp.LastRewardChangeTime, a.Start, a.Last)
		}
	}
	if os.Getenv("VERIF_DEBUG_REWARDS") != "" {
		for i := range post.Dels {
			dl := &post.Dels[i]
			if post.SVal(dl.Val) == nil || post.Asset(dl.Denom) == nil {
				continue
			}
			c2, _ := e.Ctx.CacheContext()
			r, err := qs.AllianceDelegationRewards(c2, &types.QueryAllianceDelegationRewardsRequest{DelegatorAddr: e.user(dl.Del).String(), ValidatorAddr: e.Vals[dl.Val].String(), Denom: Denoms[dl.Denom]})
			if err != nil {
				fmt.Fprintf(os.Stderr, "REW %s (%d,%d,%d) err %v\n", st.Src, dl.Del, dl.Val, dl.Denom, err)
			} else {
				fmt.Fprintf(os.Stderr, "REW %s (%d,%d,%d) %s\n", st.Src, dl.Del, dl.Val, dl.Denom, r.Rewards)
			}
		}
		fmt.Fprintf(os.Stderr, "POOL %s\n", e.App.BankKeeper.GetAllBalances(cctx, e.acctAddr[AccPool]))
	}
	dr := func(rs []types.DelegationResponse, withDel bool) string {
		var xs []string
		for _, x := range rs {
			row := fmt.Sprintf("%d %d %s %s", e.valID(mustVal(x.Delegation.ValidatorAddress)), denomID(x.Delegation.Denom), x.Delegation.Shares.BigInt(), x.Balance.Amount)
			if withDel {
				row = fmt.Sprintf("%d %s", e.acctID(sdk.MustAccAddressFromBech32(x.Delegation.DelegatorAddress)), row)
			}
			xs = append(xs, row)
		}
		return rows(xs)
	}
	guard("alldels", func() (string, error) {
		r, err := qs.AllAlliancesDelegations(cctx, &types.QueryAllAlliancesDelegationsRequest{})
		if err != nil {
			return "", err
		}
		return dr(r.Delegations, true), nil
	})
	for ui := range e.Users {
		u := AccUserBase + ui
		addr := e.user(u).String()
		guard(fmt.Sprintf("dels %d", u), func() (string, error) {
			r, err := qs.AlliancesDelegation(cctx, &types.QueryAlliancesDelegationsRequest{DelegatorAddr: addr})
			if err != nil {
				return "", err
			}
			return dr(r.Delegations, false), nil
		})
		for v := range e.Vals {
			guard(fmt.Sprintf("delsv %d %d", u, v), func() (string, error) {
				r, err := qs.AlliancesDelegationByValidator(cctx, &types.QueryAlliancesDelegationByValidatorRequest{DelegatorAddr: addr, ValidatorAddr: e.Vals[v].String()})
				if err != nil {
					return "", err
				}
				return dr(r.Delegations, false), nil
			})
		}
		guard(fmt.Sprintf("unbd %d", u), func() (string, error) {
			r, err := qs.AllianceUnbondingsByDelegator(cctx, &types.QueryAllianceUnbondingsByDelegatorRequest{DelegatorAddr: addr})
			if err != nil {
				return "", err
			}
			return ub(r.Unbondings), nil
		})
		guard(fmt.Sprintf("redd %d", u), func() (string, error) {
			r, err := qs.AllianceRedelegationsByDelegator(cctx, &types.QueryAllianceRedelegationsByDelegatorRequest{DelegatorAddr: addr})
			if err != nil {
				return "", err
			}
			return rd(r.Redelegations), nil
		})
		for d := 0; d < 3; d++ {
			guard(fmt.Sprintf("unbdd %d %d", u, d), func() (string, error) {
				r, err := qs.AllianceUnbondingsByDenomAndDelegator(cctx, &types.QueryAllianceUnbondingsByDenomAndDelegatorRequest{Denom: Denoms[d], DelegatorAddr: addr})
				if err != nil {
					return "", err
				}
				return ub(r.Unbondings), nil
			})
			guard(fmt.Sprintf("red %d %d", u, d), func() (string, error) {
				r, err := qs.AllianceRedelegations(cctx, &types.QueryAllianceRedelegationsRequest{Denom: Denoms[d], DelegatorAddr: addr})
				if err != nil {
					return "", err
				}
				return rd(r.Redelegations), nil
			})
			for v := range e.Vals {
				if post.SVal(v) == nil {
					continue
				}
				guard(fmt.Sprintf("unb %d %d %d", u, d, v), func() (string, error) {
					r, err := qs.AllianceUnbondings(cctx, &types.QueryAllianceUnbondingsRequest{Denom: Denoms[d], DelegatorAddr: addr, ValidatorAddr: e.Vals[v].String()})
					if err != nil {
						return "", err
					}
					return ub(r.Unbondings), nil
				})
				if post.Asset(d) == nil {
					continue
				}
				guard(fmt.Sprintf("del %d %d %d", u, v, d), func() (string, error) {
					r, err := qs.AllianceDelegation(cctx, &types.QueryAllianceDelegationRequest{DelegatorAddr: addr, ValidatorAddr: e.Vals[v].String(), Denom: Denoms[d]})
					if err != nil {
						return "", err
					}
					return fmt.Sprintf("%s %s", r.Delegation.Delegation.Shares.BigInt(), r.Delegation.Balance.Amount), nil
				})
				guard(fmt.Sprintf("bdel %d %d %d", u, v, d), func() (string, error) {
					req, _ := json.Marshal(bindingtypes.AllianceQuery{Delegation: &bindingtypes.Delegation{Denom: Denoms[d], Delegator: addr, Validator: e.Vals[v].String()}})
					bz, err := querier(cctx, req)
					if err != nil {
						return "", err
					}
					var resp bindingtypes.DelegationResponse
					if err := json.Unmarshal(bz, &resp); err != nil {
						return "", err
					}
					return resp.Amount, nil
				})
			}
		}
	}
	return out
}
