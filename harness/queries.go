package harness

// Query lines of the trace protocol (C20): after a step, every query of the gRPC server that reports unbondings,
// redelegations and delegation balances is asked on a discarded branch of the post-state and its canonicalised answer is
// written as  `Q <kind> <args…> | <rows sorted, joined by ';'>`. The Lean driver answers the same query with the model's
// query functions (AllianceModel/Query.lean) on the observed post-state and compares.

import (
	"fmt"
	"sort"
	"strings"

	"github.com/terra-money/alliance/x/alliance/keeper"
	"github.com/terra-money/alliance/x/alliance/types"
)

func rows(xs []string) string {
	if len(xs) == 0 {
		return "-"
	}
	sort.Strings(xs)
	return strings.Join(xs, ";")
}

func (e *Env) queryLines(st *Step) []string {
	post := st.PostS
	qs := keeper.NewQueryServerImpl(e.App.AllianceKeeper)
	cctx, _ := e.Ctx.CacheContext()
	var out []string
	ub := func(us []types.UnbondingDelegation) string {
		var xs []string
		for _, u := range us {
			xs = append(xs, fmt.Sprintf("%d %s %d %s", e.valID(mustVal(u.ValidatorAddress)), bigTimeNs(u.CompletionTime), denomID(u.Denom), u.Amount))
		}
		return rows(xs)
	}
	rd := func(rs []types.RedelegationEntry) string {
		var xs []string
		for _, x := range rs {
			xs = append(xs, fmt.Sprintf("%d %d %s %s", e.valID(mustVal(x.SrcValidatorAddress)), e.valID(mustVal(x.DstValidatorAddress)), bigTimeNs(x.CompletionTime), x.Balance.Amount))
		}
		return rows(xs)
	}
	guard := func(q string, f func() (string, error)) {
		var ans string
		var err error
		if res, _ := protect(func() error { ans, err = f(); return err }); strings.HasPrefix(res, "panic") {
			out = append(out, "Q "+q+" | panic")
			return
		}
		if err != nil {
			out = append(out, "Q "+q+" | err")
			return
		}
		out = append(out, "Q "+q+" | "+ans)
	}
	for ui := range e.Users {
		u := AccUserBase + ui
		addr := e.user(u).String()
		guard(fmt.Sprintf("unbd %d", u), func() (string, error) {
			r, err := qs.AllianceUnbondingsByDelegator(cctx, &types.QueryAllianceUnbondingsByDelegatorRequest{DelegatorAddr: addr})
			if err != nil {
				return "", err
			}
			return ub(r.Unbondings), nil
		})
		guard(fmt.Sprintf("redd %d", u), func() (string, error) {
			r, err := qs.AllianceRedelegationsByDelegator(cctx, &types.QueryAllianceRedelegationsByDelegatorRequest{DelegatorAddr: addr})
			if err != nil {
				return "", err
			}
			return rd(r.Redelegations), nil
		})
		for d := 0; d < 3; d++ {
			guard(fmt.Sprintf("unbdd %d %d", u, d), func() (string, error) {
				r, err := qs.AllianceUnbondingsByDenomAndDelegator(cctx, &types.QueryAllianceUnbondingsByDenomAndDelegatorRequest{Denom: Denoms[d], DelegatorAddr: addr})
				if err != nil {
					return "", err
				}
				return ub(r.Unbondings), nil
			})
			guard(fmt.Sprintf("red %d %d", u, d), func() (string, error) {
				r, err := qs.AllianceRedelegations(cctx, &types.QueryAllianceRedelegationsRequest{Denom: Denoms[d], DelegatorAddr: addr})
				if err != nil {
					return "", err
				}
				return rd(r.Redelegations), nil
			})
			for v := range e.Vals {
				if post.SVal(v) == nil {
					continue
				}
				guard(fmt.Sprintf("unb %d %d %d", u, d, v), func() (string, error) {
					r, err := qs.AllianceUnbondings(cctx, &types.QueryAllianceUnbondingsRequest{Denom: Denoms[d], DelegatorAddr: addr, ValidatorAddr: e.Vals[v].String()})
					if err != nil {
						return "", err
					}
					return ub(r.Unbondings), nil
				})
				if post.Asset(d) == nil {
					continue
				}
				guard(fmt.Sprintf("del %d %d %d", u, v, d), func() (string, error) {
					r, err := qs.AllianceDelegation(cctx, &types.QueryAllianceDelegationRequest{DelegatorAddr: addr, ValidatorAddr: e.Vals[v].String(), Denom: Denoms[d]})
					if err != nil {
						return "", err
					}
					return fmt.Sprintf("%s %s", r.Delegation.Delegation.Shares.BigInt(), r.Delegation.Balance.Amount), nil
				})
			}
		}
	}
	return out
}
