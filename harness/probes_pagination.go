package harness

import (
	"fmt"

	sdk "github.com/cosmos/cosmos-sdk/types"
	"github.com/cosmos/cosmos-sdk/types/query"

	"github.com/terra-money/alliance/x/alliance/types"
)

// probePagination (C20, "paginated or not"): the three paginated delegation queries, read page by page (limit 1, following
// NextKey, and again by offset), return exactly the records of the unpaginated answer, each once, in the same order, and
// the reported total is their number.
func (e *Env) probePagination(st *Step, qs types.QueryServer, cctx sdk.Context) {
	type pageFn func(pr *query.PageRequest) ([]types.DelegationResponse, *query.PageResponse, error)
	render := func(xs []types.DelegationResponse) []string {
		var out []string
		for _, x := range xs {
			out = append(out, fmt.Sprintf("%s %s %s %s %s", x.Delegation.DelegatorAddress, x.Delegation.ValidatorAddress, x.Delegation.Denom, x.Delegation.Shares, x.Balance))
		}
		return out
	}
	same := func(a, b []string) bool {
		if len(a) != len(b) {
			return false
		}
		for i := range a {
			if a[i] != b[i] {
				return false
			}
		}
		return true
	}
	check := func(name string, f pageFn) {
		var full []types.DelegationResponse
		var fullPR *query.PageResponse
		if res, _ := protect(func() error {
			var err error
			full, fullPR, err = f(&query.PageRequest{Limit: 10000, CountTotal: true})
			return err
		}); res != "ok" {
			return // the unpaginated answer itself fails (deleted asset, removed validator): judged by the other probes
		}
		want := render(full)
		if fullPR != nil && fullPR.Total != uint64(len(full)) {
			st.pfail("C20", "pagination", "%s: total %d reported for %d records", name, fullPR.Total, len(full))
		}
		// by key
		var got []types.DelegationResponse
		var key []byte
		for i := 0; i <= len(full)+2; i++ {
			var items []types.DelegationResponse
			var pr *query.PageResponse
			if res, _ := protect(func() error {
				var err error
				items, pr, err = f(&query.PageRequest{Key: key, Limit: 1})
				return err
			}); res != "ok" {
				st.pfail("C20", "pagination", "%s: page %d (by key) fails: %s", name, i, res)
				return
			}
			got = append(got, items...)
			if pr == nil || len(pr.NextKey) == 0 {
				break
			}
			key = pr.NextKey
		}
		if !same(want, render(got)) {
			st.pfail("C20", "pagination", "%s: pages by key give %d records %v, the whole answer has %d %v", name, len(got), render(got), len(full), want)
		}
		// by offset
		got = nil
		for i := 0; i < len(full)+1; i++ {
			var items []types.DelegationResponse
			if res, _ := protect(func() error {
				var err error
				items, _, err = f(&query.PageRequest{Offset: uint64(i), Limit: 1})
				return err
			}); res != "ok" {
				st.pfail("C20", "pagination", "%s: page at offset %d fails: %s", name, i, res)
				return
			}
			got = append(got, items...)
		}
		if !same(want, render(got)) {
			st.pfail("C20", "pagination", "%s: pages by offset give %d records, the whole answer has %d", name, len(got), len(full))
		}
	}
	check("AllAlliancesDelegations", func(pr *query.PageRequest) ([]types.DelegationResponse, *query.PageResponse, error) {
		r, err := qs.AllAlliancesDelegations(cctx, &types.QueryAllAlliancesDelegationsRequest{Pagination: pr})
		if err != nil {
			return nil, nil, err
		}
		return r.Delegations, r.Pagination, nil
	})
	for ui := range e.Users {
		addr := e.user(AccUserBase + ui).String()
		check("AlliancesDelegation", func(pr *query.PageRequest) ([]types.DelegationResponse, *query.PageResponse, error) {
			r, err := qs.AlliancesDelegation(cctx, &types.QueryAlliancesDelegationsRequest{DelegatorAddr: addr, Pagination: pr})
			if err != nil {
				return nil, nil, err
			}
			return r.Delegations, r.Pagination, nil
		})
		for v := range e.Vals {
			val := e.Vals[v].String()
			check("AlliancesDelegationByValidator", func(pr *query.PageRequest) ([]types.DelegationResponse, *query.PageResponse, error) {
				r, err := qs.AlliancesDelegationByValidator(cctx, &types.QueryAlliancesDelegationByValidatorRequest{DelegatorAddr: addr, ValidatorAddr: val, Pagination: pr})
				if err != nil {
					return nil, nil, err
				}
				return r.Delegations, r.Pagination, nil
			})
		}
	}
}
