package harness

import (
	"crypto/sha256"
	"encoding/hex"
	"fmt"
	"os"

	sdk "github.com/cosmos/cosmos-sdk/types"
)

// C19: every non-environment step is first executed VERIF_REPLAYS-1 times on sibling branches of the same state
// (within one process, where Go randomises map iteration per range statement); result class, emitted events and the
// raw bytes of the alliance, bank and staking stores of every branch must be identical to the real execution's.

func replays() int {
	if v := os.Getenv("VERIF_REPLAYS"); v != "" {
		return atoi(v)
	}
	return 1
}

func (e *Env) storeDigest(ctx sdk.Context) string {
	h := sha256.New()
	for _, name := range []string{"alliance", "bank", "staking"} {
		key := e.App.GetKey(name)
		if key == nil {
			continue
		}
		it := ctx.KVStore(key).Iterator(nil, nil)
		for ; it.Valid(); it.Next() {
			h.Write(it.Key())
			h.Write([]byte{0})
			h.Write(it.Value())
			h.Write([]byte{1})
		}
		it.Close()
	}
	return hex.EncodeToString(h.Sum(nil)[:12])
}

func eventsDigest(evs sdk.Events) string {
	h := sha256.New()
	for _, ev := range evs {
		h.Write([]byte(ev.Type))
		for _, a := range ev.Attributes {
			h.Write([]byte(a.Key))
			h.Write([]byte{0})
			h.Write([]byte(a.Value))
			h.Write([]byte{1})
		}
	}
	return hex.EncodeToString(h.Sum(nil)[:8])
}

// branchRun executes f on a discarded branch and returns (result, events digest, store digest).
func (e *Env) branchRun(f func(ctx sdk.Context) error) string {
	em := sdk.NewEventManager()
	cctx, _ := e.Ctx.CacheContext()
	cctx = cctx.WithEventManager(em)
	res, _ := protect(func() error { return f(cctx) })
	return fmt.Sprintf("%s|%s|%s", res, eventsDigest(em.Events()), e.storeDigest(cctx))
}
