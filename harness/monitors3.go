package harness

import (
	"fmt"
	"sort"
	"strings"
)

var sectionNames = []string{"time", "params", "flag", "assets", "vals", "dels", "redels", "rq", "ri", "uq", "ui", "snaps", "bank", "supply", "staking"}

// sections splits the canonical state line into its named components.
func (s *State) sections() map[string]string {
	line := s.String()
	out := map[string]string{}
	pos := make([]int, len(sectionNames))
	for i, n := range sectionNames {
		pos[i] = strings.Index(line, " "+n+" ")
	}
	for i, n := range sectionNames {
		if pos[i] < 0 {
			continue
		}
		end := len(line)
		if i+1 < len(sectionNames) && pos[i+1] > 0 {
			end = pos[i+1]
		}
		out[n] = line[pos[i]+len(n)+2 : end]
	}
	return out
}

// C18: the state after export -> wipe -> import must be the state before, up to harmless duplication of time-queue
// entries (compared as sets). What is lost is classified.
func (e *Env) monitorReimport(st *Step) {
	pre, post := st.PreS, st.PostS
	// (state equality does not depend on the scope of the value theorems)
	saved := st.Unhealthy
	st.Unhealthy = ""
	defer func() { st.Unhealthy = saved }()
	if st.Res != "R ok" {
		st.fail("C18", "reimport_failed", "export/import failed: %s", st.Res)
		return
	}
	a, b := pre.sections(), post.sections()
	for _, n := range []string{"time", "params", "assets", "vals", "dels", "redels", "uq", "ui", "snaps", "bank", "supply", "staking"} {
		if a[n] != b[n] {
			st.fail("C18", "reimport_differs", "component %s differs after export/import: [%.200s] vs [%.200s]", n, a[n], b[n])
			// the records the other properties speak about must survive a chain restart too
			switch n {
			case "redels":
				st.fail("C15", "reimport_changes_redelegations", "pending redelegations differ after export/import: [%.200s] vs [%.200s]", a[n], b[n])
			case "uq", "ui":
				st.fail("C02", "reimport_changes_unbondings", "unbonding %s differs after export/import: [%.200s] vs [%.200s]", n, a[n], b[n])
				st.fail("C07", "reimport_changes_unbondings", "unbonding %s differs after export/import: [%.200s] vs [%.200s]", n, a[n], b[n])
			case "dels", "vals":
				st.fail("C03", "reimport_changes_shares", "%s differ after export/import: [%.200s] vs [%.200s]", n, a[n], b[n])
			}
		}
	}
	// time queue as a set per completion time
	qset := func(s *State) string {
		var items []string
		for _, q := range s.RQ {
			seen := map[string]bool{}
			for _, r := range q.Entries {
				// the amount of a queue entry is never read (cleanup only needs the keys): compare keys
				seen[fmt.Sprint(r.Del, r.Src, r.Dst, r.Denom)] = true
			}
			var es []string
			for k := range seen {
				es = append(es, k)
			}
			sort.Strings(es)
			items = append(items, q.Time.String()+":"+strings.Join(es, ","))
		}
		return strings.Join(items, ";")
	}
	merged := false
	for _, k := range pre.RI {
		if r := findRedel(pre, k.Del, k.Denom, k.Dst, k.Time); r != nil && r.R.Src != k.Src {
			merged = true
		}
	}
	if qset(pre) != qset(post) && merged {
		st.fail("C18", "merged_source_index_lost", "redelegation time queue lost the entries of a merged source: [%.200s] vs [%.200s]", qset(pre), qset(post))
	} else if qset(pre) != qset(post) {
		st.fail("C18", "reimport_differs", "redelegation time queue differs as a set: [%.200s] vs [%.200s]", qset(pre), qset(post))
	}
	// per-source index
	have := map[string]bool{}
	for _, k := range post.RI {
		have[fmt.Sprint(k.Src, k.Time, k.Denom, k.Dst, k.Del)] = true
	}
	for _, k := range pre.RI {
		if have[fmt.Sprint(k.Src, k.Time, k.Denom, k.Dst, k.Del)] {
			continue
		}
		cls := "index_lost"
		if r := findRedel(pre, k.Del, k.Denom, k.Dst, k.Time); r != nil && r.R.Src != k.Src {
			cls = "merged_source_index_lost" // D12: the record keeps one source only
		}
		st.fail("C18", cls, "source index (%d,%s,%d,%d,%d) is gone after export/import", k.Src, k.Time, k.Denom, k.Dst, k.Del)
	}
	if len(post.RI) > len(pre.RI) {
		st.fail("C18", "reimport_differs", "source index grew from %d to %d keys", len(pre.RI), len(post.RI))
	}
	if pre.Flag && !post.Flag {
		st.fail("C18", "flag_not_exported", "a queued rebalance is lost by export/import (the flag is not part of the genesis)")
	}
}
