package harness

import (
	"fmt"
	"os"
	"runtime/debug"
	"strconv"
	"strings"
	"time"

	"cosmossdk.io/log"
	"cosmossdk.io/math"
	sdk "github.com/cosmos/cosmos-sdk/types"
	distrtypes "github.com/cosmos/cosmos-sdk/x/distribution/types"
	stakingtypes "github.com/cosmos/cosmos-sdk/x/staking/types"

	"github.com/terra-money/alliance/x/alliance"
	"github.com/terra-money/alliance/x/alliance/types"
)

// Step is one trace step: observed pre-state, the operation as the model sees it, the observed result, observed post-state.
type Step struct {
	Src       string // the scenario line that produced it
	PreS      *State
	Op        string
	Res       string
	PostS     *State
	Notes     []string // error details and monitor verdicts, '#'-prefixed in the trace
	Evs       sdk.Events
	Unhealthy string
	Queries   []string // `Q …` lines: canonicalised answers of the query server on the post-state
}

// traceSigner: the legacy proposal route signs with the module's authority (keeper/proposal.go)
func traceSigner(s string) string {
	if s == "legacy" {
		return "auth"
	}
	return s
}

func classifyErr(err error) string {
	if err == nil {
		return "ok"
	}
	s := err.Error()
	table := []struct{ sub, code string }{
		{"insufficient funds", "insufficient_funds"},
		{"validator with address", "no_validator"},
		{"validator does not exist", "no_validator"},
		{"does not exist in alliance whitelist", "notfound_asset"},
		{"Asset with denom", "notfound_asset"},
		{"delegator does not contain delegation", "no_delegation"},
		{"insufficient delegation shares", "insufficient_shares"},
		{"insufficient tokens", "insufficient_tokens"},
		{"redelegation to this validator already in progress", "transitive"},
		{"Cannot redelegate to the same validator", "same_validator"},
		{"amount must be more than zero", "invalid_amount"},
		{"alliance asset is not whitelisted", "unknown_asset"},
		{"alliance asset already exists", "already_exists"},
		{"must be between reward_weight_range", "weight_out_of_bound"},
		{"active delegations exists", "active_delegations"},
		{"invalid authority address", "invalid_authority"},
		{"invalid authority; expected", "unauthorized"},
		{"denom must have a value", "empty_denom"},
		{"invalid denom", "invalid_denom"},
		{"rewardWeight min and max must be", "invalid_range"},
		{"rewardWeight min must be less", "range_min_gt_max"},
		{"rewardWeight must be bounded", "weight_out_of_range"},
		{"rewardWeight must be zero or a positive", "invalid_weight"},
		{"takeRate must be", "invalid_take_rate"},
		{"rewardChangeRate must be", "invalid_change_rate"},
		{"rewardChangeInterval must be", "invalid_change_interval"},
		{"duration must be positive", "invalid_duration"},
		{"takeRateClaimInterval must be", "invalid_interval"},
		{"slashed fraction must be", "invalid_fraction"},
		{"invalid (zero) ex-rate", "invalid_ex_rate"},
		{"invalid shares amount", "invalid_shares"},
		{"not enough delegation shares", "not_enough_shares"},
		{"no delegation for (address, validator) tuple", "no_delegation"},
	}
	for _, e := range table {
		if strings.Contains(s, e.sub) {
			return "err " + e.code
		}
	}
	return "err other"
}

func classifyPanic(r interface{}) string {
	s := fmt.Sprint(r)
	switch {
	case strings.Contains(s, "integer divide by zero"):
		return "panic int_div_zero"
	case strings.Contains(s, "division by zero"):
		return "panic div_zero"
	case strings.Contains(s, "negative decimal coin amount"):
		return "panic neg_dec_coin"
	case strings.Contains(s, "negative coin amount"):
		return "panic neg_coin"
	case strings.Contains(s, "Int overflow"):
		return "panic overflow"
	case strings.Contains(s, "Int64() out of bound"):
		return "panic power_overflow" // sdk.TokensToConsensusPower: validator tokens / 10^6 beyond int64
	case strings.Contains(s, "nil pointer") || strings.Contains(s, "invalid memory address"):
		return "panic nil"
	}
	return "panic other"
}

// protect runs f, converting a Go panic into a result class.
// lastDetail: the error text / panic value of the most recent protect() call (read by classifiers that need amounts)
var lastDetail string

func protect(f func() error) (res string, detail string) {
	defer func() { lastDetail = detail }()
	defer func() {
		if r := recover(); r != nil {
			res = classifyPanic(r)
			detail = fmt.Sprint(r)
			if os.Getenv("VERIF_STACK") != "" {
				fmt.Fprintf(os.Stderr, "panic %v\n%s\n", r, debug.Stack())
			}
		}
	}()
	err := f()
	if err != nil {
		detail = err.Error()
	}
	return classifyErr(err), detail
}

// runTx gives a message baseapp's semantics: executed on a cache branch that is written only on success.
func (e *Env) runTx(f func(ctx sdk.Context) error) (string, string, sdk.Events) {
	e.replayCheck(f, true)
	em := sdk.NewEventManager()
	cctx, write := e.Ctx.CacheContext()
	cctx = cctx.WithEventManager(em)
	res, detail := protect(func() error { return f(cctx) })
	e.lastDetail = detail
	if res == "ok" {
		write()
	}
	return res, detail, em.Events()
}

// runDirect runs f on the live context (hooks, end-of-block): partial writes stay.
func (e *Env) runDirect(f func(ctx sdk.Context) error) (string, string, sdk.Events) {
	e.replayCheck(f, false)
	em := sdk.NewEventManager()
	ctx := e.Ctx.WithEventManager(em)
	res, detail := protect(func() error { return f(ctx) })
	e.lastDetail = detail
	return res, detail, em.Events()
}

// replayCheck (C19): run the operation on sibling branches first and compare their outcomes with each other.
func (e *Env) replayCheck(f func(ctx sdk.Context) error, _ bool) {
	e.replayNote = ""
	k := replays()
	if k <= 1 {
		return
	}
	first := e.branchRun(f)
	for i := 2; i < k+1; i++ {
		if other := e.branchRun(f); other != first {
			e.replayNote = fmt.Sprintf("mon C19 fail class=nondeterministic sibling executions of one step disagree: %s vs %s", first, other)
			return
		}
	}
}

// withdrawals extracts, in order, the responses x/distribution gave to reward withdrawals of the module account.
func (e *Env) withdrawals(evs sdk.Events) string {
	var items []string
	mod := e.ModAddr.String()
	for _, ev := range evs {
		if ev.Type != distrtypes.EventTypeWithdrawRewards {
			continue
		}
		var amount, val, del string
		for _, a := range ev.Attributes {
			switch a.Key {
			case sdk.AttributeKeyAmount:
				amount = a.Value
			case distrtypes.AttributeKeyValidator:
				val = a.Value
			case distrtypes.AttributeKeyDelegator:
				del = a.Value
			}
		}
		if del != mod {
			continue
		}
		coins, err := sdk.ParseCoinsNormalized(amount)
		if err != nil {
			panic(err)
		}
		var cs []string
		for _, c := range coins {
			cs = append(cs, fmt.Sprintf("%d %s", denomID(c.Denom), c.Amount.String()))
		}
		items = append(items, fmt.Sprintf("%d %s", e.valID(mustVal(val)), listStr(cs)))
	}
	return "W " + listStr(items)
}

type captureLogger struct {
	log.Logger
	errs *[]string
}

func (c captureLogger) Error(msg string, kv ...any) {
	*c.errs = append(*c.errs, msg+" "+fmt.Sprint(kv...))
}
func (c captureLogger) With(kv ...any) log.Logger { return c }

func parseDec(s string) math.LegacyDec {
	if s == "nil" {
		return math.LegacyDec{}
	}
	return math.LegacyMustNewDecFromStr(s)
}

func atoi(s string) int {
	n, err := strconv.Atoi(s)
	if err != nil {
		panic("bad int " + s)
	}
	return n
}

func parseInt(s string) math.Int {
	i, ok := math.NewIntFromString(s)
	if !ok {
		panic("bad amount " + s)
	}
	return i
}

func (e *Env) user(i int) sdk.AccAddress { return e.Users[i-AccUserBase] }

func (e *Env) signer(s string) string {
	switch s {
	case "auth":
		return e.Authority()
	case "other":
		return e.Other.String()
	case "bad":
		return "not-a-bech32-address"
	}
	panic("bad signer " + s)
}

func denomArg(s string) (string, string) { // returns (denom string, trace token)
	if s == "-1" {
		return "", "-1"
	}
	return Denoms[atoi(s)], s
}

// Exec executes one scenario line against the real app and returns the trace steps it produced.
func (e *Env) Exec(line string) []Step {
	f := strings.Fields(line)
	if len(f) == 0 || strings.HasPrefix(f[0], "#") {
		return nil
	}
	if e.lastSnap == nil {
		e.lastSnap = e.Snapshot()
	}
	st := Step{Src: line, PreS: e.lastSnap}
	k := e.App.AllianceKeeper
	env := func(fn func()) []Step {
		fn()
		st.Op = "O env W 0"
		st.Res = "R ok"
		st.PostS = e.Snapshot()
		e.lastSnap = st.PostS
		e.Monitor(&st)
		e.Probe(&st)
		return []Step{st}
	}
	finish := func(op, res string, evs sdk.Events) []Step {
		if e.replayNote != "" {
			st.Notes = append(st.Notes, e.replayNote)
		}
		if e.reimportNote != "" {
			st.Notes = append(st.Notes, e.reimportNote)
			e.reimportNote = ""
		}
		if res != "ok" && e.lastDetail != "" {
			d := e.lastDetail
			if len(d) > 300 {
				d = d[:300]
			}
			st.Notes = append(st.Notes, "detail: "+strings.ReplaceAll(d, "\n", " "))
		}
		st.Op = "O " + op + " " + e.withdrawals(evs)
		st.Res = "R " + res
		st.Evs = evs
		st.PostS = e.Snapshot()
		e.lastSnap = st.PostS
		e.Monitor(&st)
		e.Probe(&st)
		return []Step{st}
	}
	switch f[0] {
	case "delegate":
		u, v, d, amt := atoi(f[1]), atoi(f[2]), atoi(f[3]), parseInt(f[4])
		res, _, evs := e.runTx(func(ctx sdk.Context) error {
			_, err := e.Msg.Delegate(ctx, &types.MsgDelegate{DelegatorAddress: e.user(u).String(), ValidatorAddress: e.Vals[v].String(), Amount: sdk.Coin{Denom: Denoms[d], Amount: amt}})
			return err
		})
		return finish(fmt.Sprintf("delegate %d %d %d %s", u, v, d, amt), res, evs)
	case "undelegate":
		u, v, d, amt := atoi(f[1]), atoi(f[2]), atoi(f[3]), parseInt(f[4])
		res, _, evs := e.runTx(func(ctx sdk.Context) error {
			_, err := e.Msg.Undelegate(ctx, &types.MsgUndelegate{DelegatorAddress: e.user(u).String(), ValidatorAddress: e.Vals[v].String(), Amount: sdk.Coin{Denom: Denoms[d], Amount: amt}})
			return err
		})
		return finish(fmt.Sprintf("undelegate %d %d %d %s", u, v, d, amt), res, evs)
	case "redelegate":
		u, s, t, d, amt := atoi(f[1]), atoi(f[2]), atoi(f[3]), atoi(f[4]), parseInt(f[5])
		res, _, evs := e.runTx(func(ctx sdk.Context) error {
			_, err := e.Msg.Redelegate(ctx, &types.MsgRedelegate{DelegatorAddress: e.user(u).String(), ValidatorSrcAddress: e.Vals[s].String(), ValidatorDstAddress: e.Vals[t].String(), Amount: sdk.Coin{Denom: Denoms[d], Amount: amt}})
			return err
		})
		return finish(fmt.Sprintf("redelegate %d %d %d %d %s", u, s, t, d, amt), res, evs)
	case "claim":
		u, v := atoi(f[1]), atoi(f[2])
		dn, tok := denomArg(f[3])
		res, _, evs := e.runTx(func(ctx sdk.Context) error {
			_, err := e.Msg.ClaimDelegationRewards(ctx, &types.MsgClaimDelegationRewards{DelegatorAddress: e.user(u).String(), ValidatorAddress: e.Vals[v].String(), Denom: dn})
			return err
		})
		return finish(fmt.Sprintf("claim %d %d %s", u, v, tok), res, evs)
	case "create", "update":
		// <signer> <denom|-1> <denomValid> <w> <min> <max> <tr> <cr> <ci>
		dn, dtok := denomArg(f[2])
		if f[3] == "0" {
			dn = "bad denom!"
		}
		w, mn, mx, tr, cr := parseDec(f[4]), parseDec(f[5]), parseDec(f[6]), parseDec(f[7]), parseDec(f[8])
		ci := time.Duration(int64(atoi(f[9])))
		rng := types.RewardWeightRange{Min: mn, Max: mx}
		res, _, evs := e.runTx(func(ctx sdk.Context) error {
			var err error
			if f[1] == "legacy" {
				// the legacy governance route: x/gov v1beta1 content → proposal handler → keeper wrappers (keeper/proposal.go)
				h := alliance.NewAllianceProposalHandler(e.App.AllianceKeeper)
				if f[0] == "create" {
					return h(ctx, &types.MsgCreateAllianceProposal{Title: "t", Description: "d", Denom: dn, RewardWeight: w, TakeRate: tr, RewardChangeRate: cr, RewardChangeInterval: ci, RewardWeightRange: rng})
				}
				return h(ctx, &types.MsgUpdateAllianceProposal{Title: "t", Description: "d", Denom: dn, RewardWeight: w, TakeRate: tr, RewardChangeRate: cr, RewardChangeInterval: ci, RewardWeightRange: rng})
			}
			if f[0] == "create" {
				_, err = e.Msg.CreateAlliance(ctx, &types.MsgCreateAlliance{Authority: e.signer(f[1]), Denom: dn, RewardWeight: w, TakeRate: tr, RewardChangeRate: cr, RewardChangeInterval: ci, RewardWeightRange: rng})
			} else {
				_, err = e.Msg.UpdateAlliance(ctx, &types.MsgUpdateAlliance{Authority: e.signer(f[1]), Denom: dn, RewardWeight: w, TakeRate: tr, RewardChangeRate: cr, RewardChangeInterval: ci, RewardWeightRange: rng})
			}
			return err
		})
		return finish(fmt.Sprintf("%s %s %s %s %s %s %s %s %s %d", f[0], traceSigner(f[1]), dtok, f[3], decRaw(w), decRaw(mn), decRaw(mx), decRaw(tr), decRaw(cr), int64(ci)), res, evs)
	case "delete":
		dn, dtok := denomArg(f[2])
		res, _, evs := e.runTx(func(ctx sdk.Context) error {
			if f[1] == "legacy" {
				return alliance.NewAllianceProposalHandler(e.App.AllianceKeeper)(ctx, &types.MsgDeleteAllianceProposal{Title: "t", Description: "d", Denom: dn})
			}
			_, err := e.Msg.DeleteAlliance(ctx, &types.MsgDeleteAlliance{Authority: e.signer(f[1]), Denom: dn})
			return err
		})
		return finish(fmt.Sprintf("delete %s %s", traceSigner(f[1]), dtok), res, evs)
	case "params":
		// <signer> <delay ns> <interval ns> <last: keep | ns-offset-from-now>
		p := k.GetParams(e.Ctx)
		np := types.Params{RewardDelayTime: time.Duration(int64(atoi(f[2]))), TakeRateClaimInterval: time.Duration(int64(atoi(f[3]))), LastTakeRateClaimTime: p.LastTakeRateClaimTime}
		if f[4] != "keep" {
			np.LastTakeRateClaimTime = e.Ctx.BlockTime().Add(time.Duration(int64(atoi(f[4]))))
		}
		res, _, evs := e.runTx(func(ctx sdk.Context) error {
			_, err := e.Msg.UpdateParams(ctx, &types.MsgUpdateParams{Authority: e.signer(f[1]), Params: np})
			return err
		})
		return finish(fmt.Sprintf("params %s %d %d %s", f[1], int64(np.RewardDelayTime), int64(np.TakeRateClaimInterval), bigTimeNs(np.LastTakeRateClaimTime).String()), res, evs)
	case "hookslash":
		v := atoi(f[1])
		fr := parseDec(f[2])
		res, _, evs := e.runDirect(func(ctx sdk.Context) error {
			return e.App.StakingKeeper.Hooks().BeforeValidatorSlashed(ctx, e.Vals[v], fr)
		})
		return finish(fmt.Sprintf("slash %d %s", v, decRaw(fr)), res, evs)
	case "realslash":
		// through x/staking Slash at the current height; the hook's error is only logged, so capture the log
		v := atoi(f[1])
		factor := parseDec(f[2])
		val, err := e.App.StakingKeeper.GetValidator(e.Ctx, e.Vals[v])
		if err != nil || !val.Tokens.IsPositive() || val.IsUnbonded() {
			return env(func() {})
		}
		pr := e.App.StakingKeeper.PowerReduction(e.Ctx)
		power := val.Tokens.Quo(pr).Int64()
		if !val.Tokens.Mod(pr).IsZero() {
			power++
		}
		amount := e.App.StakingKeeper.TokensFromConsensusPower(e.Ctx, power)
		slashAmount := math.LegacyNewDecFromInt(amount).Mul(factor).TruncateInt()
		burn := math.MinInt(slashAmount, val.Tokens)
		if !burn.IsPositive() {
			return env(func() {})
		}
		eff := math.LegacyNewDecFromInt(burn).QuoRoundUp(math.LegacyNewDecFromInt(val.Tokens))
		if eff.GT(math.LegacyOneDec()) {
			eff = math.LegacyOneDec()
		}
		var logged []string
		res, _, evs := e.runDirect(func(ctx sdk.Context) error {
			ctx = ctx.WithLogger(captureLogger{Logger: log.NewNopLogger(), errs: &logged})
			_, err := e.App.StakingKeeper.Slash(ctx, e.Cons[v], ctx.BlockHeight(), power, factor)
			return err
		})
		if res == "ok" {
			for _, l := range logged {
				if strings.Contains(l, "before validator slashed hook") {
					res = classifyErr(fmt.Errorf("%s", l))
				}
			}
		}
		return finish(fmt.Sprintf("slash %d %s", v, decRaw(eff)), res, evs)
	case "endblock":
		res, _, evs := e.runDirect(func(ctx sdk.Context) error { return e.moduleEndBlock(ctx) })
		return finish("endblock", res, evs)
	case "reimport":
		// C18: export the module state, wipe the module store, import the exported genesis
		res, _, evs := e.runDirect(func(ctx sdk.Context) error {
			// through the registered module: JSON export, JSON import (module.go, the genesis types' codec)
			mg, err := e.moduleGenesis()
			if err != nil {
				return err
			}
			cdc := e.App.AppCodec()
			raw := mg.ExportGenesis(ctx, cdc)
			if string(raw) != string(mg.ExportGenesis(ctx, cdc)) {
				return fmt.Errorf("two exports of one state differ")
			}
			store := k.StoreService().OpenKVStore(ctx)
			it, err := store.Iterator(nil, nil)
			if err != nil {
				return err
			}
			var keys [][]byte
			for ; it.Valid(); it.Next() {
				keys = append(keys, append([]byte{}, it.Key()...))
			}
			it.Close()
			for _, key := range keys {
				if err := store.Delete(key); err != nil {
					return err
				}
			}
			mg.InitGenesis(ctx, cdc, raw)
			second := mg.ExportGenesis(ctx, cdc)
			if string(raw) != string(second) {
				e.reimportNote = "mon C18 fail class=second_export_differs export after import differs from the first export"
			}
			return nil
		})
		return finish("reimport", res, evs)
	case "advance":
		return env(func() {
			e.Ctx = e.Ctx.WithBlockTime(e.Ctx.BlockTime().Add(time.Duration(int64(atoi(f[1]))))).WithBlockHeight(e.Ctx.BlockHeight() + 1)
		})
	case "stakingend":
		return env(func() {
			if _, err := e.App.StakingKeeper.EndBlocker(e.Ctx); err != nil {
				panic(err)
			}
		})
	case "closeblock":
		// the end of a block whose time was advanced earlier (`advance`): x/staking's end blocker, then the module's
		var out []Step
		out = append(out, e.Exec("stakingend")...)
		out = append(out, e.Exec("endblock")...)
		return out
	case "block":
		var out []Step
		out = append(out, e.Exec("advance "+f[1])...)
		out = append(out, e.Exec("stakingend")...)
		out = append(out, e.Exec("endblock")...)
		return out
	case "allocate":
		// allocate <val> (<denom> <amt>)+
		v := atoi(f[1])
		return env(func() {
			coins := sdk.NewCoins()
			for i := 2; i+1 < len(f); i += 2 {
				coins = coins.Add(sdk.NewCoin(Denoms[atoi(f[i])], parseInt(f[i+1])))
			}
			e.mintToModule(distrtypes.ModuleName, coins)
			val, err := e.App.StakingKeeper.GetValidator(e.Ctx, e.Vals[v])
			if err != nil {
				return
			}
			if err := e.App.DistrKeeper.AllocateTokensToValidator(e.Ctx, val, sdk.NewDecCoinsFromCoins(coins...)); err != nil {
				panic(err)
			}
		})
	case "donate":
		a, d, amt := atoi(f[1]), atoi(f[2]), parseInt(f[3])
		return env(func() {
			name := map[int]string{AccModule: types.ModuleName, AccPool: types.RewardsPoolName, AccFee: "fee_collector"}[a]
			e.mintToModule(name, sdk.NewCoins(sdk.NewCoin(Denoms[d], amt)))
		})
	case "fund":
		u, d, amt := atoi(f[1]), atoi(f[2]), parseInt(f[3])
		return env(func() { e.mint(e.user(u), sdk.NewCoins(sdk.NewCoin(Denoms[d], amt))) })
	case "ndelegate":
		n, v, amt := atoi(f[1]), atoi(f[2]), parseInt(f[3])
		return env(func() {
			val, err := e.App.StakingKeeper.GetValidator(e.Ctx, e.Vals[v])
			if err != nil {
				return
			}
			e.mint(e.Natives[n], sdk.NewCoins(sdk.NewCoin(Denoms[DenomBond], amt)))
			_, _ = protect(func() error {
				cctx, write := e.Ctx.CacheContext()
				_, err := e.App.StakingKeeper.Delegate(cctx, e.Natives[n], amt, stakingtypes.Unbonded, val, true)
				if err == nil {
					write()
				}
				return err
			})
		})
	case "nundelegate":
		n, v := atoi(f[1]), atoi(f[2])
		return env(func() {
			d, err := e.App.StakingKeeper.GetDelegation(e.Ctx, e.Natives[n], e.Vals[v])
			if err != nil {
				return
			}
			shares := d.Shares
			if f[3] != "all" {
				val, _ := e.App.StakingKeeper.GetValidator(e.Ctx, e.Vals[v])
				s, err := val.SharesFromTokens(parseInt(f[3]))
				if err != nil || s.GT(d.Shares) {
					return
				}
				shares = s
			}
			_, _ = protect(func() error {
				cctx, write := e.Ctx.CacheContext()
				_, _, err := e.App.StakingKeeper.Undelegate(cctx, e.Natives[n], e.Vals[v], shares)
				if err == nil {
					write()
				}
				return err
			})
		})
	case "newval":
		// a validator created after assets exist: its operator address sorts after all existing ones (ids stay in key order);
		// it self-delegates natively and joins the set at the next staking end blocker
		return env(func() { e.addValidator() })
	case "jail":
		v := atoi(f[1])
		return env(func() {
			val, err := e.App.StakingKeeper.GetValidator(e.Ctx, e.Vals[v])
			if err != nil || val.Jailed {
				return
			}
			_, _ = protect(func() error { return e.App.SlashingKeeper.Jail(e.Ctx, e.Cons[v]) })
		})
	case "unjail":
		v := atoi(f[1])
		return env(func() {
			val, err := e.App.StakingKeeper.GetValidator(e.Ctx, e.Vals[v])
			if err != nil || !val.Jailed {
				return
			}
			_, _ = protect(func() error { return e.App.StakingKeeper.Unjail(e.Ctx, e.Cons[v]) })
		})
	case "setunbonding":
		return env(func() {
			p, _ := e.App.StakingKeeper.GetParams(e.Ctx)
			p.UnbondingTime = time.Duration(int64(atoi(f[1])))
			if err := e.App.StakingKeeper.SetParams(e.Ctx, p); err != nil {
				panic(err)
			}
		})
	}
	panic("unknown scenario op: " + line)
}
