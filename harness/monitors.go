package harness

import (
	"fmt"
	"math/big"
	"strings"
)

// Property monitors: decidable predicates evaluated on every OBSERVED transition of the real app.
// They mirror the predicates the Lean theorems are stated with (AllianceModel/Monitors.lean evaluates the same
// predicates on the same observed states; the driver compares the two verdict streams).
// A verdict line is `mon <property> fail class=<class> <detail>`.

type MonState struct {
	// C09: time of the last successful deposit per denom, and whether governance rewrote the take-rate clock
	// or interval since the last deduction (that scopes the retroactivity monitor)
	LastDeposit  map[int]*big.Int
	ClockTouched bool
	// C12: a slash or a take-rate deduction happened (entitlements are computed from CURRENT token values)
	ValueChanged bool
	MaxResolution *big.Rat // worst 18-digit resolution of a validator's share ratio seen in this history (probes.go)
	// everything the rewards pool has paid out so far in this history, per denom name: an over-entitlement baked into a reward
	// index is paid to whoever claims first, in a real claim as well as in a probe round, and starves a later claim
	PoolOut map[string]*big.Int
	// sticky: the first reason the history left the scope of the value theorems (see unhealthyReason)
	Unhealthy string
}

var (
	bigP   = new(big.Int).Exp(big.NewInt(10), big.NewInt(18), nil)
	bigOne = big.NewInt(1)
	bigE15 = new(big.Int).Exp(big.NewInt(10), big.NewInt(15), nil)
)

func rat(i *big.Int) *big.Rat { return new(big.Rat).SetInt(i) }

// valTokens: exact rational value of a validator's stake in an asset (Go conventions for empty share totals).
func (s *State) valTokensQ(v, d int) *big.Rat {
	a := s.Asset(d)
	vi := s.Val(v)
	if a == nil || vi == nil {
		return nil
	}
	if a.S.Sign() == 0 {
		return rat(a.T)
	}
	q := new(big.Rat).SetFrac(dcAmt(vi.VS, d), a.S)
	return q.Mul(q, rat(a.T))
}

// valueQ: exact rational token value of a position.
func (s *State) valueQ(dl *DelS) *big.Rat {
	vt := s.valTokensQ(dl.Val, dl.Denom)
	if vt == nil {
		return nil
	}
	tds := dcAmt(s.Val(dl.Val).TDS, dl.Denom)
	if tds.Sign() == 0 {
		return vt
	}
	q := new(big.Rat).SetFrac(dl.Shares, tds)
	return q.Mul(q, vt)
}

func (st *Step) fail(prop, class, format string, a ...interface{}) {
	if st.Unhealthy != "" {
		// the history left the range the theorems are stated for (see unhealthyReason); everything that fails
		// afterwards is attributed to that, under one class per cause
		format = "[" + class + "] " + format
		class = "unhealthy_" + st.Unhealthy
	}
	st.Notes = append(st.Notes, fmt.Sprintf("mon %s fail class=%s %s", prop, class, fmt.Sprintf(format, a...)))
}

// unhealthyReason: the scope predicate of the value theorems, on a state. A history is in scope while every
// asset's share price (validator shares per token) lies in [1e-6,1e6], no staked or share total is negative,
// no asset is left with tokens but no validator shares, and no validator that still has shares has zero tokens.
// Near-total slashes (f = 1 or within 1e-18 of it) are what takes a history out of scope.
func unhealthyReason(s *State) string {
	for _, a := range s.Assets {
		switch {
		case a.T.Sign() < 0 || a.S.Sign() < 0:
			return "negative_total"
		case a.T.Sign() > 0 && a.S.Sign() == 0:
			return "orphaned_total"
		case a.T.Sign() > 0 && !priceInRange(a.S, new(big.Int).Mul(a.T, bigP)):
			return "price_out_of_range"
		}
	}
	for _, sv := range s.SVals {
		if sv.Tokens.Sign() == 0 && sv.DelShares.Sign() > 0 {
			return "zero_token_validator"
		}
	}
	for _, vi := range s.Vals {
		for _, c := range vi.TDS {
			if c.Amt.Sign() > 0 && dcAmt(vi.VS, c.Denom).Sign() == 0 {
				if a := s.Asset(c.Denom); a != nil && a.T.Sign() > 0 {
					return "zero_token_validator" // alliance side: delegator shares on a validator without validator shares
				}
			}
		}
	}
	return ""
}

func opFields(st *Step) []string { return strings.Fields(st.Op)[1:] }

func undelSum(s *State, d int) *big.Int {
	sum := new(big.Int)
	for _, q := range s.UQ {
		for _, e := range q.Entries {
			if e.Denom == d {
				sum.Add(sum, e.Amt)
			}
		}
	}
	return sum
}

func (s *State) gap(d int) *big.Int {
	g := new(big.Int).Set(s.Bal(AccModule, d))
	if a := s.Asset(d); a != nil {
		g.Sub(g, a.T)
	}
	return g.Sub(g, undelSum(s, d))
}

func bi(s string) *big.Int {
	x, ok := new(big.Int).SetString(s, 10)
	if !ok {
		panic("bad int " + s)
	}
	return x
}

func (e *Env) withdrawnOf(st *Step, d int) *big.Int {
	// total withdrawn from x/distribution to the module account in this step, in denom d
	sum := new(big.Int)
	f := strings.Fields(st.Op)
	for i, t := range f {
		if t == "W" {
			n := atoi(f[i+1])
			j := i + 2
			for k := 0; k < n; k++ {
				j++ // val
				m := atoi(f[j])
				j++
				for c := 0; c < m; c++ {
					if atoi(f[j]) == d {
						sum.Add(sum, bi(f[j+1]))
					}
					j += 2
				}
			}
			break
		}
	}
	return sum
}

// withdrawnByVal: per validator, what x/distribution paid the module account in this step, in denom d
func (e *Env) withdrawnByVal(st *Step, d int) map[int]*big.Int {
	out := map[int]*big.Int{}
	f := strings.Fields(st.Op)
	for i, t := range f {
		if t == "W" {
			n := atoi(f[i+1])
			j := i + 2
			for k := 0; k < n; k++ {
				v := atoi(f[j])
				j++
				m := atoi(f[j])
				j++
				for c := 0; c < m; c++ {
					if atoi(f[j]) == d {
						if out[v] == nil {
							out[v] = new(big.Int)
						}
						out[v].Add(out[v], bi(f[j+1]))
					}
					j += 2
				}
			}
			break
		}
	}
	return out
}

func sameUndelE(a, b UndelE) bool {
	return a.Del == b.Del && a.Val == b.Val && a.Denom == b.Denom && a.Amt.Cmp(b.Amt) == 0
}

func findUQ(s *State, t *big.Int, del int) *UQ {
	for i := range s.UQ {
		if s.UQ[i].Time.Cmp(t) == 0 && s.UQ[i].Del == del {
			return &s.UQ[i]
		}
	}
	return nil
}

func hasUI(s *State, v int, t *big.Int, d, del int) bool {
	for _, k := range s.UI {
		if k.Val == v && k.Denom == d && k.Del == del && k.Time.Cmp(t) == 0 {
			return true
		}
	}
	return false
}

func floorMulDec(fr *big.Int, amt *big.Int) *big.Int {
	x := new(big.Int).Mul(fr, amt)
	return x.Quo(x, bigP)
}

// Monitor evaluates every property monitor on one observed step and appends verdict notes.
func (e *Env) Monitor(st *Step) {
	pre, post := st.PreS, st.PostS
	f := opFields(st)
	kind := f[0]
	ok := st.Res == "R ok"
	now := post.Time
	src := strings.Fields(st.Src)
	if e.Mon.Unhealthy == "" {
		e.Mon.Unhealthy = unhealthyReason(pre)
	}
	st.Unhealthy = e.Mon.Unhealthy
	for _, x := range []*State{pre, post} {
		if b := resolutionBound(x); e.Mon.MaxResolution == nil || b.Cmp(e.Mon.MaxResolution) > 0 {
			e.Mon.MaxResolution = b
		}
	}
	if e.Mon.PoolOut == nil {
		e.Mon.PoolOut = map[string]*big.Int{}
	}
	// gross outflow of the pool: in a user operation or a slash callback every coin a user account GAINS comes from the pool
	// (a net view of the pool's balance would miss a step that first fills the pool and then pays most of it out)
	if kind == "claim" || kind == "delegate" || kind == "undelegate" || kind == "redelegate" || kind == "slash" {
		for _, q := range post.Bank {
			if q.Acct < AccUserBase || q.Denom < 0 || q.Denom >= len(Denoms) {
				continue
			}
			if d := new(big.Int).Sub(q.Amt, pre.Bal(q.Acct, q.Denom)); d.Sign() > 0 {
				dn := Denoms[q.Denom]
				if e.Mon.PoolOut[dn] == nil {
					e.Mon.PoolOut[dn] = new(big.Int)
				}
				e.Mon.PoolOut[dn].Add(e.Mon.PoolOut[dn], d)
			}
		}
	}

	// ---- C17 end-of-block totality ----------------------------------------------------------------------------
	// a failed end-of-block halts the chain: the partial state it leaves is judged by C17 only
	if kind == "endblock" && !ok {
		cls := "endblock_failed"
		switch {
		case strings.Contains(st.Res, "int_div_zero"):
			cls = "zero_claim_interval" // D9
		case strings.Contains(st.Res, "div_zero"):
			cls = "zero_staked_weight" // D10
		case strings.Contains(st.Res, "power_overflow"):
			cls = "power_overflow" // minted stake pushes a validator's consensus power beyond int64
		case strings.Contains(st.Res, "overflow"):
			cls = "weight_overflow"
		case strings.Contains(st.Res, "invalid_ex_rate"):
			cls = "zero_token_validator"
		case strings.Contains(st.Res, "invalid_shares"):
			// D24: the rebalancer measures the module's stake on a validator with `Quo` (rounds half-even at 18 digits); where the exact
			// value lies within half a unit of the 18th digit BELOW an integer it is rounded UP to that integer, the amount to unbond
			// is then one 10^-18 more than the delegation is worth and x/staking's ValidateUnbondAmount refuses it
			cls = "rebalance_unbond_rounds_past_delegation"
		}
		st.fail("C17", cls, "EndBlocker returned %s", st.Res)
		return
	}

	if kind == "reimport" {
		e.monitorReimport(st)
	}

	// ---- C01 custody -------------------------------------------------------------------------------
	for d := 0; d < 3; d++ {
		if d == post.BondDenom {
			continue
		}
		g0, g1 := pre.gap(d), post.gap(d)
		if g1.Sign() < 0 {
			st.fail("C01", "custody_short", "denom=%d gap=%s (custody %s)", d, g1, post.Bal(AccModule, d))
			continue
		}
		delta := new(big.Int).Sub(g1, g0)
		if kind == "env" {
			if delta.Sign() < 0 {
				st.fail("C01", "custody_drift", "denom=%d gap %s -> %s on an environment step", d, g0, g1)
			}
			continue
		}
		if delta.Sign() < 0 || delta.Cmp(e.withdrawnOf(st, d)) > 0 {
			st.fail("C01", "custody_drift", "denom=%d gap %s -> %s (withdrawn %s)", d, g0, g1, e.withdrawnOf(st, d))
		}
	}

	// ---- C02 unbonding queue ------------------------------------------------------------------------
	switch {
	case kind == "undelegate" && ok:
		u, v, d, amt := atoi(f[1]), atoi(f[2]), atoi(f[3]), bi(f[4])
		ct := new(big.Int).Add(pre.Time, big.NewInt(pre.Unbonding))
		nb := findUQ(post, ct, u)
		ob := findUQ(pre, ct, u)
		nOld := 0
		if ob != nil {
			nOld = len(ob.Entries)
		}
		if nb == nil || len(nb.Entries) != nOld+1 || !sameUndelE(nb.Entries[nOld], UndelE{u, v, d, amt}) || !hasUI(post, v, ct, d, u) {
			st.fail("C02", "undelegate_entry", "no single new entry (%d,%d,%d,%s) at %s", u, v, d, amt, ct)
		}
		if len(post.UQ) != len(pre.UQ)+b2i(ob == nil) {
			st.fail("C02", "undelegate_entry", "bucket count %d -> %d", len(pre.UQ), len(post.UQ))
		}
	case kind == "endblock" && ok:
		paid := map[[2]int]*big.Int{}
		for _, q := range pre.UQ {
			matured := q.Time.Cmp(now) < 0
			nb := findUQ(post, q.Time, q.Del)
			if matured {
				if nb != nil {
					st.fail("C02", "payout", "matured bucket (%s,%d) still present", q.Time, q.Del)
				}
				for _, en := range q.Entries {
					k := [2]int{en.Del, en.Denom}
					if paid[k] == nil {
						paid[k] = new(big.Int)
					}
					paid[k].Add(paid[k], en.Amt)
					if hasUI(post, en.Val, q.Time, en.Denom, en.Del) {
						st.fail("C02", "payout", "index of paid entry left behind (%d,%s,%d,%d)", en.Val, q.Time, en.Denom, en.Del)
					}
				}
			} else {
				if nb == nil || len(nb.Entries) != len(q.Entries) {
					st.fail("C02", "payout", "pending bucket (%s,%d) changed or paid early", q.Time, q.Del)
					continue
				}
				for i := range q.Entries {
					if !sameUndelE(q.Entries[i], nb.Entries[i]) {
						st.fail("C02", "payout", "pending entry changed in (%s,%d)", q.Time, q.Del)
					}
				}
			}
		}
		for i := range e.Users {
			u := AccUserBase + i
			for d := 0; d < len(Denoms); d++ {
				want := paid[[2]int{u, d}]
				if want == nil {
					want = new(big.Int)
				}
				got := new(big.Int).Sub(post.Bal(u, d), pre.Bal(u, d))
				if got.Cmp(want) != 0 {
					st.fail("C02", "payout", "user %d denom %d received %s, matured entries total %s", u, d, got, want)
				}
			}
		}
	case kind != "slash" && kind != "env" && kind != "endblock":
		// nothing else may touch existing entries
		for _, q := range pre.UQ {
			nb := findUQ(post, q.Time, q.Del)
			if nb == nil || len(nb.Entries) < len(q.Entries) {
				st.fail("C02", "queue_touched", "bucket (%s,%d) shrank on %s", q.Time, q.Del, kind)
				continue
			}
			for i := range q.Entries {
				if !sameUndelE(q.Entries[i], nb.Entries[i]) {
					st.fail("C02", "queue_touched", "entry changed in (%s,%d) on %s", q.Time, q.Del, kind)
				}
			}
		}
	}
	// structural: index <-> entries
	for _, k := range post.UI {
		b := findUQ(post, k.Time, k.Del)
		found := false
		if b != nil {
			for _, en := range b.Entries {
				if en.Val == k.Val && en.Denom == k.Denom {
					found = true
				}
			}
		}
		if !found {
			st.fail("C02", "index_mismatch", "index key (%d,%s,%d,%d) without entry", k.Val, k.Time, k.Denom, k.Del)
		}
	}
	for _, q := range post.UQ {
		for _, en := range q.Entries {
			if !hasUI(post, en.Val, q.Time, en.Denom, en.Del) {
				st.fail("C02", "index_mismatch", "entry (%d,%s,%d,%d) without index key", en.Val, q.Time, en.Denom, en.Del)
			}
			if en.Del != q.Del {
				st.fail("C02", "index_mismatch", "entry of delegator %d in bucket of %d", en.Del, q.Del)
			}
		}
	}

	// ---- C07 slash of pending unbondings ---------------------------------------------------------------
	if kind == "slash" {
		v, fr := atoi(f[1]), bi(f[2])
		feeDelta := map[int]*big.Int{}
		bad := ""
		badShared := false
		for _, q := range pre.UQ {
			nb := findUQ(post, q.Time, q.Del)
			if nb == nil || len(nb.Entries) != len(q.Entries) {
				bad = fmt.Sprintf("bucket (%s,%d) restructured", q.Time, q.Del)
				continue
			}
			pending := q.Time.Cmp(now) >= 0
			mixed := false
			for _, en := range q.Entries {
				if en.Val != q.Entries[0].Val || en.Denom != q.Entries[0].Denom {
					mixed = true
				}
			}
			for i, en := range q.Entries {
				want := new(big.Int).Set(en.Amt)
				if pending && en.Val == v && fr.Sign() > 0 && fr.Cmp(bigP) <= 0 {
					cut := floorMulDec(fr, en.Amt)
					want.Sub(want, cut)
					if feeDelta[en.Denom] == nil {
						feeDelta[en.Denom] = new(big.Int)
					}
					feeDelta[en.Denom].Add(feeDelta[en.Denom], cut)
				}
				if nb.Entries[i].Amt.Cmp(want) != 0 {
					bad = fmt.Sprintf("entry (%d,%d,%d) in bucket (%s,%d): %s -> %s, expected %s", en.Del, en.Val, en.Denom, q.Time, q.Del, en.Amt, nb.Entries[i].Amt, want)
					if mixed || len(q.Entries) > 1 {
						badShared = true
					}
				}
			}
		}
		if bad != "" && st.Res == "R ok" {
			cls := "unbonding_slash"
			if badShared {
				cls = "shared_bucket"
			}
			st.fail("C07", cls, "%s", bad)
			st.fail("C02", cls, "%s", bad)
		}
		if bad == "" && st.Res == "R ok" {
			for d := 0; d < 3; d++ {
				want := feeDelta[d]
				if want == nil {
					want = new(big.Int)
				}
				// the fee collector may also receive nothing else during the hook
				got := new(big.Int).Sub(post.Bal(AccFee, d), pre.Bal(AccFee, d))
				if got.Cmp(want) != 0 {
					st.fail("C07", "fee_forward", "fee collector denom %d got %s, slashed %s", d, got, want)
				}
			}
		}
	}

	// ---- C03 share ledger (state invariant: report only what this step introduced) ------------------------------
	{
		before := ledgerFailures(pre, pre, kind, ok)
		for k, msg := range ledgerFailures(post, pre, kind, ok) {
			if _, old := before[k]; !old {
				parts := strings.SplitN(k, "|", 2)
				st.fail("C03", parts[0], "%s", msg)
			}
		}
	}

	// ---- C06 bonded slash --------------------------------------------------------------------------------
	if kind == "slash" {
		e.Mon.ValueChanged = true
	}
	if kind == "slash" && ok {
		v, fr := atoi(f[1]), bi(f[2])
		pv, qv := pre.Val(v), post.Val(v)
		if pv != nil && qv != nil {
			for _, c := range pv.VS {
				a0, a1 := pre.Asset(c.Denom), post.Asset(c.Denom)
				if a0 == nil || a1 == nil {
					continue
				}
				m := new(big.Int).Sub(c.Amt, dcAmt(qv.VS, c.Denom))
				mS := new(big.Int).Sub(a0.S, a1.S)
				if m.Cmp(mS) != 0 {
					st.fail("C06", "slash_bonded", "denom %d: validator lost %s shares, asset total lost %s", c.Denom, m, mS)
				}
				exact := new(big.Int).Mul(c.Amt, fr)
				lo := new(big.Int).Quo(exact, bigP)
				hi := new(big.Int).Add(lo, bigOne)
				if m.Cmp(lo) < 0 || m.Cmp(hi) > 0 {
					st.fail("C06", "slash_bonded", "denom %d: removed %s shares, f*shares = %s/1e18", c.Denom, m, exact)
				}
				if a0.T.Cmp(a1.T) != 0 {
					st.fail("C06", "slash_bonded", "denom %d: staked total changed %s -> %s", c.Denom, a0.T, a1.T)
				}
			}
		}
		for _, vi := range pre.Vals {
			if vi.ID == v {
				continue
			}
			w := post.Val(vi.ID)
			if w == nil || dcS(w.VS) != dcS(vi.VS) {
				st.fail("C06", "slash_bonded", "validator %d shares changed by a slash of %d", vi.ID, v)
			}
		}
		// delegation shares are untouched except destinations of pending redelegations out of v
		dest := map[[3]int]bool{}
		for _, k := range pre.RI {
			if k.Src == v && k.Time.Cmp(now) >= 0 {
				dest[[3]int{k.Del, k.Dst, k.Denom}] = true
			}
		}
		for i := range pre.Dels {
			dl := &pre.Dels[i]
			w := post.Del(dl.Del, dl.Val, dl.Denom)
			if dest[[3]int{dl.Del, dl.Val, dl.Denom}] {
				continue
			}
			if w == nil || w.Shares.Cmp(dl.Shares) != 0 {
				st.fail("C06", "slash_collateral", "position (%d,%d,%d) shares changed by a slash of %d", dl.Del, dl.Val, dl.Denom, v)
			}
		}
	}

	// ---- C08 slash callback totality ------------------------------------------------------------------------
	if kind == "slash" {
		fr := bi(f[2])
		if fr.Sign() > 0 && fr.Cmp(bigP) <= 0 && pre.SVal(atoi(f[1])) != nil {
			if !ok {
				cls := "hook_error"
				if strings.Contains(st.Res, "no_delegation") || strings.Contains(st.Res, "insufficient_shares") {
					cls = "redelegation_destination_shrunk" // D3
				} else if strings.Contains(st.Res, "insufficient_funds") {
					cls = "pool_short" // D6 inside the hook
				} else if strings.Contains(st.Res, "div_zero") {
					cls = "zero_token_destination" // D8: a pending redelegation points at a validator slashed to zero tokens
				} else if strings.Contains(st.Res, "neg_dec_coin") || strings.Contains(st.Res, "neg_coin") {
					// D13 inside the hook: the asset's validator-share total, already below the validators' sum by drift, goes
					// NEGATIVE when a near-total slash takes the validator's own shares off it; the conversions that follow
					// (redelegation destinations) build a negative coin and panic. Bounded by its mechanism: the partial state
					// the callback leaves shows an asset with a negative share total.
					for _, a := range post.Assets {
						if a.S.Sign() < 0 {
							cls = "negative_share_total"
						}
					}
				} else if strings.Contains(st.Res, "no_validator") {
					// the slashed validator exists: a pending redelegation out of it points at a validator x/staking has removed
					for _, ri := range pre.RI {
						if ri.Src == atoi(f[1]) && pre.SVal(ri.Dst) == nil {
							cls = "destination_validator_removed"
						}
					}
				}
				st.fail("C08", cls, "slash callback returned %s", st.Res)
			} else if !post.Flag {
				st.fail("C08", "no_rebalance", "slash callback did not queue a rebalance")
			}
		}
	}

	// ---- C05: a user operation that panics with the fixed-point overflow (LegacyDec beyond 315 bits, Int beyond 256) ----------
	// the model's integers are unbounded, so the trace driver does not judge such a step (`skip-overflow`); it is judged here:
	// in scope it is a liveness violation, out of scope (share price beyond 1e±6, the only road to such magnitudes found so
	// far) it is attributed to the scope class like every other failure
	if strings.Contains(st.Res, "panic overflow") && (kind == "delegate" || kind == "undelegate" || kind == "redelegate" || kind == "claim") {
		st.fail("C05", "overflow_panic", "%s panics with Int overflow", st.Src)
	}

	// ---- C09 take rate ----------------------------------------------------------------------------------------
	if kind == "endblock" && ok {
		e.monitorTakeRate(st)
		e.monitorDecay(st)
	}
	e.monitorSettled(st, f, kind, ok)
	e.monitorValidatorSettled(st, f, kind, ok)
	e.monitorSplit(st, kind, ok)
	e.monitorWeightSettled(st, ok)

	// ---- C14 / C16 asset validity -----------------------------------------------------------------------------
	for _, a := range post.Assets {
		if a.W.Cmp(a.Min) < 0 || a.W.Cmp(a.Max) > 0 {
			st.fail("C14", "weight_range", "asset %d weight %s outside [%s,%s]", a.Denom, a.W, a.Min, a.Max)
			st.fail("C16", "asset_invalid", "asset %d weight %s outside [%s,%s]", a.Denom, a.W, a.Min, a.Max)
		}
		if a.TR.Sign() < 0 || a.TR.Cmp(bigP) >= 0 || a.Rate.Sign() <= 0 || a.Intv < 0 {
			st.fail("C16", "asset_invalid", "asset %d takeRate %s changeRate %s interval %d", a.Denom, a.TR, a.Rate, a.Intv)
		}
	}
	if kind == "create" || kind == "update" || kind == "delete" || kind == "params" {
		e.monitorGov(st, f)
	}
	if !ok && (kind == "delegate" || kind == "undelegate" || kind == "redelegate" || kind == "claim" || kind == "create" || kind == "update" || kind == "delete" || kind == "params") {
		if pre.String() != post.String() {
			st.fail("C16", "rejected_not_noop", "a rejected %s changed state", kind)
		}
	}

	// ---- C15 redelegation -------------------------------------------------------------------------------------
	e.monitorRedelegation(st, f, kind, ok)

	// ---- C10 / C11 staking side ----------------------------------------------------------------------------------
	e.monitorStaking(st, f, kind, ok, src)

	// ---- C04 / C13 value frame -----------------------------------------------------------------------------------
	e.monitorValues(st, f, kind, ok)
}

// ledgerFailures evaluates the share-ledger invariant on a state; keys are "class|item".
func ledgerFailures(post, pre *State, kind string, ok bool) map[string]string {
	out := map[string]string{}
	fail := func(class, item, format string, a ...interface{}) { out[class+"|"+item] = fmt.Sprintf(format, a...) }
	sum := map[[2]int]*big.Int{}
	for i := range post.Dels {
		dl := &post.Dels[i]
		k := [2]int{dl.Val, dl.Denom}
		if sum[k] == nil {
			sum[k] = new(big.Int)
		}
		sum[k].Add(sum[k], dl.Shares)
		if dl.Shares.Sign() < 0 {
			fail("negative", fmt.Sprint("del", dl.Del, dl.Val, dl.Denom), "delegation (%d,%d,%d) shares %s", dl.Del, dl.Val, dl.Denom, dl.Shares)
		}
	}
	vsum := map[int]*big.Int{}
	for _, vi := range post.Vals {
		for _, c := range vi.TDS {
			w := sum[[2]int{vi.ID, c.Denom}]
			if w == nil {
				w = new(big.Int)
			}
			if w.Cmp(c.Amt) != 0 {
				fail("delshares_sum", fmt.Sprint(vi.ID, c.Denom), "validator %d denom %d total %s, sum of delegations %s", vi.ID, c.Denom, c.Amt, w)
			}
			if c.Amt.Sign() < 0 {
				fail("negative", fmt.Sprint("tds", vi.ID, c.Denom), "validator %d total delegator shares %s", vi.ID, c.Amt)
			}
			delete(sum, [2]int{vi.ID, c.Denom})
		}
		for _, c := range vi.VS {
			if vsum[c.Denom] == nil {
				vsum[c.Denom] = new(big.Int)
			}
			vsum[c.Denom].Add(vsum[c.Denom], c.Amt)
			if c.Amt.Sign() < 0 {
				fail("negative", fmt.Sprint("vs", vi.ID, c.Denom), "validator %d shares %s", vi.ID, c.Amt)
			}
		}
	}
	for k, w := range sum {
		if w.Sign() != 0 {
			cls := "delshares_sum"
			if post.Val(k[0]) == nil {
				cls = "validator_info_removed" // staking removed the validator while alliance positions remain
			}
			fail(cls, fmt.Sprint(k[0], k[1]), "validator %d denom %d has delegations (%s) but no total", k[0], k[1], w)
		}
	}
	infoRemoved := false
	for k := range out {
		if strings.HasPrefix(k, "validator_info_removed|") {
			infoRemoved = true
		}
	}
	for _, a := range post.Assets {
		w := vsum[a.Denom]
		if w == nil {
			w = new(big.Int)
		}
		if w.Cmp(a.S) != 0 {
			diff := new(big.Int).Sub(a.S, w)
			diff.Abs(diff)
			// only the drift this step ADDS is judged: a difference carried over from the pre-state was classified
			// there, and a shrinking total must not turn old dust into a new failure
			if pa := pre.Asset(a.Denom); pa != nil {
				pw := new(big.Int)
				for _, vi := range pre.Vals {
					pw.Add(pw, dcAmt(vi.VS, a.Denom))
				}
				pd := new(big.Int).Sub(pa.S, pw)
				pd.Abs(pd)
				if diff.Cmp(pd) > 0 {
					diff = new(big.Int).Sub(diff, pd)
				} else {
					diff = new(big.Int)
				}
			}
			cls := "valshares_sum"
			n := big.NewInt(int64(4 * (len(post.Dels) + len(pre.Dels) + 4)))
			// sub-share drift per clamped subtraction / dust clearing (D13); at large magnitudes one ulp of a
			// share ratio is worth many shares, so the dust bound is also relative (1e-12 of the total per event)
			rel := new(big.Int).Quo(new(big.Int).Mul(new(big.Int).Abs(a.S), n), big.NewInt(1_000_000_000_000))
			if diff.Cmp(new(big.Int).Mul(bigP, n)) < 0 || diff.Cmp(rel) < 0 {
				cls = "valshares_dust"
			} else if pa := pre.Asset(a.Denom); (pa != nil && pa.T.Cmp(bigE15) >= 0) || a.T.Cmp(bigE15) >= 0 || a.S.Cmp(new(big.Int).Mul(bigE15, bigP)) >= 0 || w.Cmp(new(big.Int).Mul(bigE15, bigP)) >= 0 {
				cls = "valshares_dust_large" // D14: one ulp of a share ratio times 1e15+ tokens is many shares
			} else if infoRemoved {
				cls = "validator_info_removed"
			} else if r := removedResidual(pre, post, a.Denom); r.Sign() > 0 && diff.Cmp(new(big.Int).Add(r, new(big.Int).Mul(bigP, n))) <= 0 {
				// D21: x/staking removed a validator whose alliance record still held validator shares of this asset although
				// no delegation was left on it (the residue of exits at a share price != 1): the record is deleted, the
				// asset's share total keeps the shares. The drift this step added is that residue (up to dust).
				cls = "validator_removed_residual_shares"
			}
			fail(cls, fmt.Sprint(a.Denom), "asset %d total validator shares %s, sum over validators %s", a.Denom, a.S, w)
		}
		if a.S.Sign() < 0 {
			fail("negative_dust", fmt.Sprint("S", a.Denom), "asset %d share total S=%s", a.Denom, a.S)
		}
		if a.T.Sign() < 0 {
			cls := "negative"
			// D23: the asset's share total had drifted BELOW the validators' sum (D13), so the validators' token values add up
			// to more than the staked total and the last delegator out withdraws the excess: bounded by the token value of
			// that drift in the pre-state (plus the rounding of the reported balance)
			if pa := pre.Asset(a.Denom); pa != nil && pa.S.Sign() > 0 && pa.T.Sign() > 0 {
				pw := new(big.Int)
				for _, vi := range pre.Vals {
					pw.Add(pw, dcAmt(vi.VS, a.Denom))
				}
				if drift := new(big.Int).Sub(pw, pa.S); drift.Sign() > 0 {
					bound := new(big.Int).Quo(new(big.Int).Mul(drift, pa.T), pa.S)
					bound.Add(bound, big.NewInt(2))
					if new(big.Int).Neg(a.T).Cmp(bound) <= 0 {
						cls = "negative_total_from_share_drift"
					}
				}
			}
			fail(cls, fmt.Sprint("T", a.Denom), "asset %d staked total T=%s", a.Denom, a.T)
		}
		if a.T.Sign() == 0 && (a.S.Sign() != 0 || w.Sign() != 0) {
			fail("reset_on_empty", fmt.Sprint(a.Denom), "asset %d drained but shares remain S=%s sum=%s", a.Denom, a.S, w)
		}
	}
	return out
}

// removedResidual: validator shares of `denom` held in the pre-state by alliance validator records that no longer exist in
// the post-state and that no delegation of that denom pointed at.
func removedResidual(pre, post *State, denom int) *big.Int {
	r := new(big.Int)
	for _, vi := range pre.Vals {
		if post.Val(vi.ID) != nil {
			continue
		}
		held := false
		for _, d := range pre.Dels {
			if d.Val == vi.ID && d.Denom == denom {
				held = true
			}
		}
		if !held {
			r.Add(r, dcAmt(vi.VS, denom))
		}
	}
	return r
}
