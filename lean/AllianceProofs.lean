import AllianceProofs.Basic
