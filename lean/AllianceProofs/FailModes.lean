/-
  FailModes.lean — `Errs S m`: whenever the computation m fails, its error is one of the list S. Composes along `bind`;
  a computation's failure modes are the union of those of its parts. Used to state, for the slashing callback and the end
  blocker, the complete list of ways in which they can fail — everything else is excluded for every state.
-/
import AllianceProofs.MonadLemmas
import AllianceModel.EndBlock
set_option linter.unusedVariables false
namespace Alliance
open Dec

structure Errs {α} (S : List Err) (m : M α) : Prop where
  run : ∀ w e, (m w).1 = .error e → e ∈ S

namespace Errs
variable {α β : Type} {S S' : List Err}

theorem mono {m : M α} (h : Errs S m) (hs : ∀ e ∈ S, e ∈ S') : Errs S' m := ⟨fun w e he => hs e (h.run w e he)⟩
theorem pure (a : α) : Errs S (Pure.pure a : M α) := ⟨fun _ _ h => by cases h⟩
theorem getW : Errs S Alliance.getW := ⟨fun _ _ h => by cases h⟩
theorem modifyW (f : World → World) : Errs S (Alliance.modifyW f) := ⟨fun _ _ h => by cases h⟩
theorem throwE (c : String) (h : Err.err c ∈ S) : Errs S (Alliance.throwE c : M α) :=
  ⟨fun _ e he => by simp only [throwE_apply] at he; injection he with he; rw [← he]; exact h⟩
theorem panicE (c : String) (h : Err.panic c ∈ S) : Errs S (Alliance.panicE c : M α) :=
  ⟨fun _ e he => by simp only [panicE_apply] at he; injection he with he; rw [← he]; exact h⟩
theorem guardE (c : Prop) [Decidable c] (code : String) (h : Err.err code ∈ S) : Errs S (Alliance.guardE c code) := by
  unfold Alliance.guardE; split
  · exact throwE code h
  · exact pure ()
theorem guardP (c : Prop) [Decidable c] (code : String) (h : Err.panic code ∈ S) : Errs S (Alliance.guardP c code) := by
  unfold Alliance.guardP; split
  · exact panicE code h
  · exact pure ()
theorem liftE (x : Except Err α) (h : ∀ e, x = .error e → e ∈ S) : Errs S (Alliance.liftE x) := by
  cases x with
  | ok a => exact ⟨fun _ _ he => by simp [liftE_ok] at he⟩
  | error e0 => exact ⟨fun _ e he => by simp only [liftE_error] at he; injection he with he; rw [← he]; exact h e0 rfl⟩
theorem bind {m : M α} {f : α → M β} (hm : Errs S m) (hf : ∀ a, Errs S (f a)) : Errs S (m >>= f) := by
  constructor
  intro w e h
  simp only [bind_apply] at h
  have h1 := hm.run w
  rcases hmw : m w with ⟨r, w'⟩
  rw [hmw] at h h1
  cases r with
  | ok a => exact (hf a).run w' e h
  | error e0 => simp only at h; exact h1 e (by simpa using h)
theorem getW_bind {f : World → M β} (h : ∀ w0, Errs S (f w0)) : Errs S (Alliance.getW >>= f) := bind getW h
theorem ite {c : Prop} [Decidable c] {m1 m2 : M α} (h1 : Errs S m1) (h2 : Errs S m2) : Errs S (if c then m1 else m2) := by
  split
  · exact h1
  · exact h2
theorem forEachM {γ : Type} (f : γ → M Unit) (xs : List γ) (h : ∀ x, Errs S (f x)) : Errs S (Alliance.forEachM f xs) := by
  induction xs with
  | nil => exact pure ()
  | cons x t ih => unfold Alliance.forEachM; exact bind (h x) (fun _ => ih)
theorem foldlM {γ σ : Type} (f : σ → γ → M σ) (xs : List γ) (init : σ) (h : ∀ s x, Errs S (f s x)) :
    Errs S (xs.foldlM f init) := by
  induction xs generalizing init with
  | nil => exact pure init
  | cons x t ih => rw [List.foldlM_cons]; exact bind (h init x) (fun s => ih s)
end Errs

/-- the same for the pure `Except` functions of the keeper -/
def ErrsE {α} (S : List Err) (x : Except Err α) : Prop := ∀ e, x = .error e → e ∈ S

namespace ErrsE
variable {α β : Type} {S : List Err}
theorem ok (a : α) : ErrsE S (.ok a : Except Err α) := fun e h => by cases h
theorem pure (a : α) : ErrsE S (Pure.pure a : Except Err α) := fun e h => by cases h
theorem error (e0 : Err) (h : e0 ∈ S) : ErrsE S (.error e0 : Except Err α) := fun e he => by injection he with he; rw [← he]; exact h
theorem throw (e0 : Err) (h : e0 ∈ S) : ErrsE S (throw e0 : Except Err α) := error e0 h
theorem bind {x : Except Err α} {f : α → Except Err β} (hx : ErrsE S x) (hf : ∀ a, ErrsE S (f a)) : ErrsE S (x >>= f) := by
  cases x with
  | ok a => exact hf a
  | error e0 =>
    intro e he
    have : (Except.error e0 >>= f) = Except.error e0 := rfl
    rw [this] at he
    injection he with he
    exact hx e (by rw [he])  -- `Except.error e0 >>= f` reduces to `Except.error e0`
theorem ite {c : Prop} [Decidable c] {x y : Except Err α} (h1 : ErrsE S x) (h2 : ErrsE S y) : ErrsE S (if c then x else y) := by
  split
  · exact h1
  · exact h2
theorem foldlM {γ σ : Type} (f : σ → γ → Except Err σ) (xs : List γ) (init : σ) (h : ∀ s x, ErrsE S (f s x)) :
    ErrsE S (xs.foldlM f init) := by
  induction xs generalizing init with
  | nil => exact pure init
  | cons x t ih => rw [List.foldlM_cons]; exact bind (h init x) (fun s => ih s)
end ErrsE

macro "errse_walk" : tactic => `(tactic| repeat' (first
  | apply ErrsE.ok | apply ErrsE.pure | (apply ErrsE.error; decide) | (apply ErrsE.throw; decide)
  | assumption
  | apply ErrsE.foldlM
  | apply ErrsE.bind
  | intro _
  | split
  | (dsimp only [])))

section pureFns
variable {S : List Err}

theorem convertNewTokenToShares_errs (hz : Err.panic "div_zero" ∈ S) (tt ts : Dec) (n : Int) :
    ErrsE S (convertNewTokenToShares tt ts n) := by
  unfold convertNewTokenToShares
  split
  · exact ErrsE.ok _
  · split
    · exact ErrsE.error _ hz
    · exact ErrsE.ok _

theorem newCoinAmt_errs (hn : Err.panic "neg_coin" ∈ S) (x : Int) : ErrsE S (newCoinAmt x) := by
  unfold newCoinAmt; split
  · exact ErrsE.error _ hn
  · exact ErrsE.ok _

theorem delegationTokensWithShares_errs (hn : Err.panic "neg_coin" ∈ S) (s : Dec) (info : ValInfo) (a : Asset) :
    ErrsE S (delegationTokensWithShares s info a) := by
  unfold delegationTokensWithShares; exact newCoinAmt_errs hn _

theorem delegationSharesFromTokens_errs (hz : Err.panic "div_zero" ∈ S) (info : ValInfo) (a : Asset) (n : Int) :
    ErrsE S (delegationSharesFromTokens info a n) := by
  unfold delegationSharesFromTokens
  dsimp only []
  split
  · exact ErrsE.ok _
  · exact convertNewTokenToShares_errs hz _ _ _

theorem validatorShares_errs (hz : Err.panic "div_zero" ∈ S) (a : Asset) (n : Int) : ErrsE S (validatorShares a n) := by
  unfold validatorShares; exact convertNewTokenToShares_errs hz _ _ _

theorem mkDecCoins_errs (hn : Err.panic "neg_dec_coin" ∈ S) (d : Denom) (x : Dec) : ErrsE S (mkDecCoins d x) := by
  unfold mkDecCoins; split
  · exact ErrsE.error _ hn
  · exact ErrsE.ok _

theorem decCoinsSub_errs (hn : Err.panic "neg_coin" ∈ S) (a b : DecCoins) : ErrsE S (decCoinsSub a b) := by
  unfold decCoinsSub
  dsimp only []
  split
  · exact ErrsE.error _ hn
  · exact ErrsE.ok _

theorem validateDelegatedAmount_errs (hz : Err.panic "div_zero" ∈ S) (hi : Err.err "insufficient_shares" ∈ S)
    (sh : Dec) (amt : Int) (info : ValInfo) (a : Asset) : ErrsE S (validateDelegatedAmount sh amt info a) := by
  unfold validateDelegatedAmount
  apply ErrsE.bind (delegationSharesFromTokens_errs hz info a amt)
  intro s
  split
  · exact ErrsE.pure _
  · split
    · exact ErrsE.throw _ hi
    · split <;> exact ErrsE.pure _

/-- the cap removes `insufficient_shares` from the failure modes -/
theorem cappedShares_errs (hz : Err.panic "div_zero" ∈ S) (sh : Dec) (tokens : Int) (info : ValInfo) (a : Asset) :
    ErrsE S (cappedShares sh tokens info a) := by
  unfold cappedShares
  have h := validateDelegatedAmount_errs (S := [Err.panic "div_zero", Err.err "insufficient_shares"]) (by decide) (by decide) sh tokens info a
  intro e he
  split at he
  · cases he
  · cases he
  · next e0 hne hv =>
    injection he with he
    subst he
    have := h e0 hv
    simp only [List.mem_cons, List.not_mem_nil, or_false] at this
    rcases this with r | r
    · rw [r]; exact hz
    · exact absurd r (by intro r; exact hne (by rw [r]))

theorem accumulateRewards_errs (hn : Err.panic "neg_coin" ∈ S) (latest hist : List RewardHistory) (a : Asset) (wt sh : Dec) (info : ValInfo) :
    ErrsE S (accumulateRewards latest hist a wt sh info) := by
  unfold accumulateRewards
  apply ErrsE.bind (delegationTokensWithShares_errs hn _ _ _)
  intro t
  apply ErrsE.foldlM
  intro acc h
  dsimp only []
  apply ErrsE.ite
  · exact ErrsE.pure _
  · apply ErrsE.bind (newCoinAmt_errs hn _)
    intro _
    exact ErrsE.pure _

theorem calculateDelegationRewards_errs (hn : Err.panic "neg_coin" ∈ S) (w : World) (dl : Delegation) (info : ValInfo) (a : Asset) :
    ErrsE S (calculateDelegationRewards w dl info a) := by
  unfold calculateDelegationRewards
  apply ErrsE.bind
  · apply ErrsE.foldlM
    intro acc s
    apply ErrsE.bind (accumulateRewards_errs hn _ _ _ _ _ _)
    intro _
    exact ErrsE.pure _
  · intro _
    apply ErrsE.bind (accumulateRewards_errs hn _ _ _ _ _ _)
    intro _
    exact ErrsE.pure _

end pureFns

/-! ### the slashing callback -/

/-- the failure modes of the keeper functions the callback is built from -/
def coreModes : List Err :=
  [.err "no_validator", .err "unknown_asset", .err "no_delegation",
   .err "insufficient_funds", .err "oracle_exhausted", .err "oracle_mismatch",
   .panic "neg_dec_coin", .panic "neg_coin", .panic "div_zero"]

/-- every way in which `BeforeValidatorSlashed` can fail, in any state -/
def hookModes : List Err := .err "invalid_fraction" :: .err "other" :: coreModes

theorem core_sub_hook : ∀ e ∈ coreModes, e ∈ hookModes := fun e h => List.mem_cons_of_mem _ (List.mem_cons_of_mem _ h)

macro "errs_walk" : tactic => `(tactic| repeat' (first
  | apply Errs.pure | apply Errs.getW | apply Errs.modifyW
  | (apply Errs.throwE; decide) | (apply Errs.panicE; decide) | (apply Errs.guardE; decide) | (apply Errs.guardP; decide)
  | assumption
  | apply Errs.forEachM
  | apply Errs.foldlM
  | apply Errs.bind
  | intro _
  | split
  | (dsimp only [])))

section hook
local notation "H" => hookModes
local notation "C" => coreModes

theorem setBalance_errs {S : List Err} (a : Acct) (d : Denom) (x : Int) : Errs S (setBalance a d x) := by
  unfold setBalance; exact Errs.modifyW _

theorem sendCoins_errs {S : List Err} (hf : Err.err "insufficient_funds" ∈ S) (s t : Acct) (cs : Coins) : Errs S (sendCoins s t cs) := by
  unfold sendCoins
  apply Errs.bind
  · apply Errs.forEachM; intro c
    apply Errs.getW_bind; intro w
    dsimp only []
    exact Errs.bind (Errs.guardE _ _ hf) (fun _ => setBalance_errs _ _ _)
  · intro _
    apply Errs.forEachM; intro c
    apply Errs.getW_bind; intro w
    exact setBalance_errs _ _ _

theorem getAllianceValidator_errs (v : ValId) : Errs C (getAllianceValidator v) := by
  unfold getAllianceValidator setValInfo; errs_walk

theorem withdrawRewards_errs (v : ValId) : Errs C (withdrawRewards v) := by
  have h1 := fun s t cs => sendCoins_errs (S := C) (by decide) s t cs
  unfold withdrawRewards
  apply Errs.getW_bind; intro w
  split
  · exact Errs.throwE _ (by decide)
  · apply Errs.bind (Errs.guardE _ _ (by decide)); intro _
    apply Errs.bind (Errs.modifyW _); intro _
    apply Errs.bind (h1 _ _ _); intro _
    exact Errs.pure _

theorem addAssetsToRewardPool_errs (val : AVal) (coins : Coins) : Errs C (addAssetsToRewardPool val coins) := by
  unfold addAssetsToRewardPool
  apply Errs.ite (Errs.pure _)
  apply Errs.getW_bind; intro w
  dsimp only []
  apply Errs.bind
  · apply Errs.liftE
    apply ErrsE.foldlM
    intro h a
    apply ErrsE.ite
    · exact ErrsE.bind (ErrsE.throw _ (by decide)) (fun _ => ErrsE.pure _)
    · exact ErrsE.pure _
  · intro hist
    apply Errs.bind
    · unfold setValidator setValInfo; exact Errs.modifyW _
    · intro _
      apply Errs.bind (sendCoins_errs (by decide) _ _ _); intro _
      exact Errs.pure _

theorem claimValidatorRewards_errs (val : AVal) : Errs C (claimValidatorRewards val) := by
  unfold claimValidatorRewards
  apply Errs.getW_bind; intro w
  dsimp only []
  apply Errs.ite (Errs.pure _)
  apply Errs.bind (withdrawRewards_errs _); intro cs
  exact Errs.ite (Errs.pure _) (addAssetsToRewardPool_errs val cs)

theorem claimDelegationRewards_errs (del : Acct) (val : AVal) (d : Denom) : Errs C (claimDelegationRewards del val d) := by
  unfold claimDelegationRewards
  apply Errs.getW_bind; intro w
  rcases getAsset w d with _ | a
  · exact Errs.throwE _ (by decide)
  · dsimp only []
    apply Errs.ite (Errs.pure _)
    rcases getDelegation w del val.id d with _ | dl
    · exact Errs.throwE _ (by decide)
    · dsimp only []
      apply Errs.bind (claimValidatorRewards_errs val); intro val1
      apply Errs.getW_bind; intro w1
      apply Errs.bind (Errs.liftE _ (calculateDelegationRewards_errs (by decide) _ _ _ _)); intro r
      apply Errs.bind
      · unfold setDelegation; exact Errs.modifyW _
      · intro _
        apply Errs.bind (sendCoins_errs (by decide) _ _ _); intro _
        exact Errs.pure _

theorem slashRedelegations_errs (v : ValId) (f : Dec) : Errs H (slashRedelegations v f) := by
  unfold slashRedelegations
  apply Errs.getW_bind; intro w0
  dsimp only []
  apply Errs.forEachM
  intro k
  apply Errs.getW_bind; intro w
  obtain ⟨ks, kt, kd, kdst, kdel⟩ := k
  dsimp only []
  apply Errs.ite (Errs.pure _)
  rcases AL.get w.redels (kdel, kd, kdst, kt) with _ | r
  · exact Errs.throwE _ (by decide)
  · dsimp only []
    apply Errs.bind ((getAllianceValidator_errs _).mono core_sub_hook); intro dstVal
    apply Errs.ite (Errs.pure _)
    apply Errs.bind ((claimDelegationRewards_errs _ _ _).mono core_sub_hook); intro res
    apply Errs.getW_bind; intro w1
    rcases getDelegation w1 r.del r.dst r.denom with _ | dl
    · exact Errs.pure _
    · dsimp only []
      rcases getAsset w1 r.denom with _ | a
      · exact Errs.pure _
      · dsimp only []
        apply Errs.bind (Errs.liftE _ (cappedShares_errs (by decide) _ _ _ _)); intro sts
        apply Errs.bind (Errs.liftE _ (mkDecCoins_errs (by decide) _ _)); intro sc
        apply Errs.bind (Errs.liftE _ (decCoinsSub_errs (by decide) _ _)); intro tds
        apply Errs.bind
        · unfold setValidator setValInfo; exact Errs.modifyW _
        · intro _; unfold setDelegation; exact Errs.modifyW _

theorem slashUndelegations_errs (v : ValId) (f : Dec) : Errs C (slashUndelegations v f) := by
  unfold slashUndelegations
  apply Errs.getW_bind; intro w0
  dsimp only []
  apply Errs.forEachM
  intro k
  apply Errs.getW_bind; intro w
  obtain ⟨kv, kt, kd, kdel⟩ := k
  dsimp only []
  apply Errs.ite (Errs.pure _)
  apply Errs.bind
  · apply Errs.forEachM; intro e
    exact Errs.ite (sendCoins_errs (by decide) _ _ _) (Errs.pure _)
  · intro _; exact Errs.modifyW _

/-- C08: the complete list of ways in which the slashing callback can fail, for every state and every argument -/
theorem beforeValidatorSlashed_errs (v : ValId) (f : Dec) : Errs H (beforeValidatorSlashed v f) := by
  unfold beforeValidatorSlashed slashValidator
  apply Errs.bind
  · apply Errs.bind (Errs.guardE _ _ (by decide)); intro _
    apply Errs.bind ((getAllianceValidator_errs v).mono core_sub_hook); intro val
    apply Errs.bind
    · apply Errs.foldlM
      intro acc share
      dsimp only []
      apply Errs.bind (Errs.liftE _ (mkDecCoins_errs (by decide) _ _)); intro after
      apply Errs.getW_bind; intro w
      rcases getAsset w share.1 with _ | a
      · exact Errs.throwE _ (by decide)
      · dsimp only []
        apply Errs.bind
        · unfold setAsset; exact Errs.modifyW _
        · intro _; exact Errs.pure _
    · intro slashed
      apply Errs.bind
      · unfold setValidator setValInfo; exact Errs.modifyW _
      · intro _
        apply Errs.bind (slashRedelegations_errs v f); intro _
        exact (slashUndelegations_errs v f).mono core_sub_hook
  · intro _; unfold queueRebalance; exact Errs.modifyW _

end hook

end Alliance
