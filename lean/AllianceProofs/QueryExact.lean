/-
  QueryExact.lean — C20 as a list equality: in a state where index and queue agree (INV-I), `GetUnbondings(denom,
  delegator, validator)` returns exactly the matching entries of the delegator's buckets — each once, in completion
  order, in bucket order within a bucket — i.e. what a direct scan of the queue by the filter would return.
-/
import AllianceProofs.UndelRoundTrip
import AllianceModel.Query
set_option linter.unusedVariables false
namespace Alliance
open Dec

/-- the specification: scan the queue, keep the delegator's buckets, keep the entries of that validator and denom -/
def specUnbondings (w : World) (d : Denom) (del : Acct) (v : ValId) : List UnbondingRow :=
  (w.undelQueue.filter fun p => p.1.2 == del).flatMap fun p =>
    (p.2.filter fun e => e.val == v && e.denom == d).map fun e => (e.val, p.1.1, e.denom, e.amount)

/-- rows of the bucket completing at `t` -/
def rowsAt (w : World) (d : Denom) (del : Acct) (v : ValId) (t : Time) : List UnbondingRow :=
  ((bucketAt w t del).filter fun e => e.val == v && e.denom == d).map fun e => (e.val, t, e.denom, e.amount)

theorem flatMap_filter_nonempty {α β : Type} (f : α → List β) (l : List α) :
    l.flatMap f = (l.filter fun a => !(f a).isEmpty).flatMap f := by
  induction l with
  | nil => rfl
  | cons a t ih =>
    simp only [List.flatMap_cons, List.filter_cons]
    cases h : (f a).isEmpty
    · simp only [Bool.not_false, if_true, List.flatMap_cons, ih]
    · simp only [Bool.not_true, Bool.false_eq_true, if_false]
      rw [List.isEmpty_iff.mp h, List.nil_append, ih]

theorem flatMap_congr' {α β : Type} (l : List α) (f g : α → List β) (h : ∀ a ∈ l, f a = g a) : l.flatMap f = l.flatMap g := by
  induction l with
  | nil => rfl
  | cons a t ih =>
    simp only [List.flatMap_cons]
    rw [h a (List.mem_cons_self ..), ih (fun b hb => h b (List.mem_cons_of_mem _ hb))]

theorem qUnbondings_as_times (w : World) (d : Denom) (del : Acct) (v : ValId) :
    qUnbondings w d del v =
      ((w.undelIndex.filter fun k => k.1 == v && k.2.2.1 == d && k.2.2.2 == del).map (·.2.1)).flatMap (rowsAt w d del v) := by
  unfold qUnbondings
  rw [List.flatMap_map]
  apply flatMap_congr'
  intro k hk
  simp only [List.mem_filter, Bool.and_eq_true, beq_iff_eq] at hk
  unfold rowsOfIndexKey rowsAt
  rw [hk.2.1.1]

theorem specUnbondings_as_times (w : World) (hs : AL.SortedBy undelKeyOrder w.undelQueue) (d : Denom) (del : Acct) (v : ValId) :
    specUnbondings w d del v =
      ((w.undelQueue.filter fun p => p.1.2 == del).map (·.1.1)).flatMap (rowsAt w d del v) := by
  unfold specUnbondings
  rw [List.flatMap_map]
  apply flatMap_congr'
  intro p hp
  simp only [List.mem_filter, beq_iff_eq] at hp
  unfold rowsAt bucketAt
  have hg := AL.mem_get undelKeyOrder _ p hs hp.1
  have hk : p.1 = (p.1.1, del) := by rw [← hp.2]
  rw [hk] at hg
  rw [hg]
  rfl

/-- a bucket contributes rows iff it holds an entry of that validator and denom -/
theorem rowsAt_nonempty_iff (w : World) (d : Denom) (del : Acct) (v : ValId) (t : Time) :
    (rowsAt w d del v t).isEmpty = false ↔ ∃ e ∈ bucketAt w t del, e.val = v ∧ e.denom = d := by
  unfold rowsAt
  rw [Bool.eq_false_iff, ne_eq, List.isEmpty_iff, List.map_eq_nil_iff, List.filter_eq_nil_iff]
  simp only [Bool.and_eq_true, beq_iff_eq]
  constructor
  · intro h
    apply Classical.byContradiction
    intro hn
    apply h
    intro a ha hm
    exact hn ⟨a, ha, hm⟩
  · rintro ⟨e, he, hm⟩ h
    exact h e he hm

/-- the completion times reached through the index = the completion times of the delegator's buckets that hold a match -/
theorem index_times_eq (w : World) (hix : IX w) (d : Denom) (del : Acct) (v : ValId) :
    (w.undelIndex.filter fun k => k.1 == v && k.2.2.1 == d && k.2.2.2 == del).map (·.2.1) =
      ((w.undelQueue.filter fun p => p.1.2 == del).map (·.1.1)).filter fun t => !(rowsAt w d del v t).isEmpty := by
  apply sortedK_ext intKeyOrder
  · -- index keys with the same validator, denom, delegator are ordered by completion time
    unfold SortedK
    rw [List.pairwise_map]
    have hp : (w.undelIndex.filter fun k => k.1 == v && k.2.2.1 == d && k.2.2.2 == del).Pairwise undelIdxOrder.lt :=
      hix.isorted.filter _
    refine hp.imp_of_mem ?_
    intro a b ha hb hlt
    simp only [List.mem_filter, Bool.and_eq_true, beq_iff_eq] at ha hb
    obtain ⟨a1, a2, a3, a4⟩ := a
    obtain ⟨b1, b2, b3, b4⟩ := b
    simp only at ha hb
    obtain ⟨_, ⟨ha1, ha3⟩, ha4⟩ := ha
    obtain ⟨_, ⟨hb1, hb3⟩, hb4⟩ := hb
    show a2 < b2
    have h : a1 < b1 ∨ (a1 = b1 ∧ (a2 < b2 ∨ (a2 = b2 ∧ (a3 < b3 ∨ (a3 = b3 ∧ a4 < b4))))) := hlt
    have e1 : a1 = b1 := ha1.trans hb1.symm
    have e3 : a3 = b3 := ha3.trans hb3.symm
    have e4 : a4 = b4 := ha4.trans hb4.symm
    rcases h with h | ⟨_, h | ⟨_, h | ⟨_, h⟩⟩⟩
    · exact absurd h (by rw [e1]; exact Nat.lt_irrefl _)
    · exact h
    · exact absurd h (by rw [e3]; exact Nat.lt_irrefl _)
    · exact absurd h (by rw [e4]; exact Nat.lt_irrefl _)
  · -- the delegator's buckets are ordered by completion time
    unfold SortedK
    apply List.Pairwise.filter
    rw [List.pairwise_map]
    have hp : (w.undelQueue.filter fun p => p.1.2 == del).Pairwise (fun a b => undelKeyOrder.lt a.1 b.1) :=
      hix.qsorted.filter _
    refine hp.imp_of_mem ?_
    intro a b ha hb hlt
    simp only [List.mem_filter, beq_iff_eq] at ha hb
    have h : a.1.1 < b.1.1 ∨ (a.1.1 = b.1.1 ∧ a.1.2 < b.1.2) := hlt
    show a.1.1 < b.1.1
    rcases h with h | ⟨_, h⟩
    · exact h
    · rw [ha.2, hb.2] at h; exact absurd h (Nat.lt_irrefl _)
  · intro t
    simp only [List.mem_map, List.mem_filter, Bool.and_eq_true, beq_iff_eq, Bool.not_eq_eq_eq_not, Bool.not_true]
    constructor
    · rintro ⟨k, ⟨hk, ⟨hk1, hk3⟩, hk4⟩, rfl⟩
      obtain ⟨es, hes, e, he, h1, h2⟩ := hix.witness k hk
      rw [hk4] at hes
      refine ⟨⟨((k.2.1, del), es), ⟨AL.get_some_mem _ _ _ hes, rfl⟩, rfl⟩, ?_⟩
      rw [rowsAt_nonempty_iff]
      refine ⟨e, ?_, by rw [h1, hk1], by rw [h2, hk3]⟩
      unfold bucketAt; rw [hes]; exact he
    · rintro ⟨⟨p, ⟨hp, hpd⟩, rfl⟩, hne⟩
      rw [rowsAt_nonempty_iff] at hne
      obtain ⟨e, he, h1, h2⟩ := hne
      have hg := AL.mem_get undelKeyOrder _ p hix.qsorted hp
      have hk : p.1 = (p.1.1, del) := by rw [← hpd]
      rw [hk] at hg
      unfold bucketAt at he
      rw [hg] at he
      have hc := hix.covered p hp e he
      rw [h1, h2, hpd] at hc
      exact ⟨(v, p.1.1, d, del), ⟨hc, ⟨rfl, rfl⟩, rfl⟩, rfl⟩

/-- C20, exactness as a list equality -/
theorem qUnbondings_exact (w : World) (hix : IX w) (d : Denom) (del : Acct) (v : ValId) :
    qUnbondings w d del v = specUnbondings w d del v := by
  rw [qUnbondings_as_times, specUnbondings_as_times w hix.qsorted, index_times_eq w hix,
    ← flatMap_filter_nonempty]

end Alliance
