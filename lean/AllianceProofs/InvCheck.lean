/-
  InvCheck.lean — the invariants INV-I (unbonding index/queue) and INV-R (redelegation record/queue/index) are decidable:
  the trace driver evaluates the very predicates the theorems speak about on every observed state of the real module, and
  the conclusions of `step_ix` / `step_rx` on every observed successful step.
-/
import AllianceProofs.ScopeCheck
import AllianceProofs.IndexHistory
import AllianceProofs.RedelHistory
import AllianceProofs.UndelRoundTrip
import AllianceProofs.PayoutLive
namespace Alliance

instance decExistsSome {α : Type} (o : Option α) (P : α → Prop) [∀ a, Decidable (P a)] : Decidable (∃ a, o = some a ∧ P a) :=
  match o with
  | none => isFalse (by rintro ⟨a, h, _⟩; cases h)
  | some a => if h : P a then isTrue ⟨a, rfl, h⟩ else isFalse (by rintro ⟨b, hb, hp⟩; cases hb; exact h hp)

instance : DecidableRel intKeyOrder.lt := fun a b => inferInstanceAs (Decidable (a < b))

instance prodDec {α β : Type} [DecidableEq α] [Ord α] [DecidableEq β] [Ord β] (o1 : KeyOrder α) (o2 : KeyOrder β)
    (heq : ∀ a b : α, compare a b = .eq ↔ a = b) [DecidableRel o1.lt] [DecidableRel o2.lt] :
    DecidableRel (prodKeyOrder o1 o2 heq).lt := fun p q =>
  inferInstanceAs (Decidable (o1.lt p.1 q.1 ∨ (p.1 = q.1 ∧ o2.lt p.2 q.2)))

instance {κ α : Type} [DecidableEq κ] [Ord κ] (o : KeyOrder κ) [DecidableRel o.lt] (l : List (κ × α)) : Decidable (AL.SortedBy o l) := by
  unfold AL.SortedBy; exact inferInstance
instance {κ : Type} [DecidableEq κ] [Ord κ] (o : KeyOrder κ) [DecidableRel o.lt] (l : List κ) : Decidable (SortedK o l) := by
  unfold SortedK; exact inferInstance

instance : DecidableRel undelIdxOrder.lt := by unfold undelIdxOrder; exact inferInstance
instance : DecidableRel redelKeyOrder.lt := by unfold redelKeyOrder; exact inferInstance
instance : DecidableRel redelIdxOrder.lt := by unfold redelIdxOrder; exact inferInstance

instance (q : List (UndelKey × List Undel)) (ix : List UndelIdxKey) : Decidable (IdxOK q ix) :=
  decidable_of_iff
    (AL.SortedBy undelKeyOrder q ∧ SortedK undelIdxOrder ix ∧ (∀ p ∈ q, ∀ e ∈ p.2, e.del = p.1.2) ∧
      (∀ p ∈ q, ∀ e ∈ p.2, (e.val, p.1.1, e.denom, p.1.2) ∈ ix) ∧
      (∀ k ∈ ix, ∃ es, AL.get q (k.2.1, k.2.2.2) = some es ∧ ∃ e ∈ es, e.val = k.1 ∧ e.denom = k.2.2.1))
    ⟨fun ⟨a, b, c, d, e⟩ => ⟨a, b, c, d, e⟩, fun h => ⟨h.qsorted, h.isorted, h.owner, h.covered, h.witness⟩⟩

instance (w : World) : Decidable (IX w) := by unfold IX; exact inferInstance

set_option synthInstance.maxSize 2048 in
set_option synthInstance.maxHeartbeats 400000 in
instance (rs : List (RedelKey × Redel)) (q : List (Time × List Redel)) (ix : List RedelIdxKey) : Decidable (RdOK rs q ix) :=
  decidable_of_iff
    (AL.SortedBy redelKeyOrder rs ∧ AL.SortedBy intKeyOrder q ∧ SortedK redelIdxOrder ix ∧
      (∀ p ∈ q, ∀ r ∈ p.2, (∃ x, AL.get rs (redelKeyOf p.1 r) = some x ∧ True) ∧ redelIdxOf p.1 r ∈ ix) ∧
      (∀ p ∈ rs, ∃ es, AL.get q p.1.2.2.2 = some es ∧ ∃ r ∈ es, redelKeyOf p.1.2.2.2 r = p.1) ∧
      (∀ k ∈ ix, ∃ es, AL.get q k.2.1 = some es ∧ ∃ r ∈ es, redelIdxOf k.2.1 r = k))
    ⟨fun ⟨a, b, c, d, e, f⟩ => ⟨a, b, c, fun p hp r hr => ⟨(d p hp r hr).1.imp fun x hx => hx.1, (d p hp r hr).2⟩, e, f⟩,
     fun h => ⟨h.rsorted, h.qsorted, h.isorted,
       fun p hp r hr => ⟨(h.q_rec p hp r hr).1.imp fun x hx => ⟨hx, trivial⟩, (h.q_rec p hp r hr).2⟩, h.rec_q, h.idx_q⟩⟩

instance (w : World) : Decidable (RX w) := by unfold RX; exact inferInstance

instance (w : World) : Decidable (NonnegQ w) := by unfold NonnegQ; exact inferInstance
instance (w : World) : Decidable (NE w) := by unfold NE NEQ; exact inferInstance

/-- predictions of `step_ix` and `step_rx` for an observed successful step `pre → post`: each invariant that holds on the
    observed pre-state holds on the observed post-state. A pre-state on which an invariant fails is reported too: every
    state of the real module is reachable from the empty stores, where both hold (`reach_ix`, `reach_rx`). -/
def theoremCheckInv (pre post : World) : List (String × String) :=
  (if decide (IX pre) then (if decide (IX post) then [] else [("theorem.INV-I", "step_ix: index/queue agreement lost on the post-state")])
   else [("theorem.INV-I", "reach_ix: index/queue agreement fails on the observed pre-state")]) ++
  (if decide (RX pre) then (if decide (RX post) then [] else [("theorem.INV-R", "step_rx: redelegation stores' agreement lost on the post-state")])
   else [("theorem.INV-R", "reach_rx: redelegation stores' agreement fails on the observed pre-state")]) ++
  (if decide (NonnegQ pre) then (if decide (NonnegQ post) then [] else [("theorem.INV-I", "step_nq: a pending unbonding balance is negative on the post-state")])
   else [("theorem.INV-I", "reach_nq: a pending unbonding balance is negative on the observed pre-state")]) ++
  (if decide (NE pre) then (if decide (NE post) then [] else [("theorem.INV-I", "step_ixn: an empty unbonding bucket on the post-state")])
   else [("theorem.INV-I", "reach_ixn: an empty unbonding bucket on the observed pre-state")])

end Alliance
