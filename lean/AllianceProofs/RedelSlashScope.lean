/-
  RedelSlashScope.lean — C07, redelegation half, scope: `slashRedelegations(v, f)` changes the shares of no position other
  than the destinations of the still-pending redelegations out of `v`: positions reached from other sources, matured
  entries' destinations and every unrelated position keep their shares exactly.
-/
import AllianceProofs.StakeNeutral
import AllianceProofs.FrameRedel
set_option linter.unusedVariables false
namespace Alliance
open Dec

/-- the positions a slash of `v` may touch: destinations of the unmatured redelegations out of `v` -/
def redelTargets (w0 : World) (v : ValId) : List DelKey :=
  (w0.redelIndex.filter fun k => k.1 == v && !decide (k.2.1 < w0.time)).filterMap fun k =>
    (AL.get w0.redels (k.2.2.2.2, k.2.2.1, k.2.2.2.1, k.2.1)).map fun r => (r.del, r.dst, r.denom)

/-- loop invariant: keyed records; shares outside the targets as at the start; records store and clock as at the start -/
def RSJ (w0 : World) (T : List DelKey) (w : World) : Prop :=
  KD w ∧ (∀ k, k ∉ T → delShares w k = delShares w0 k) ∧ w.redels = w0.redels ∧ w.time = w0.time

theorem RSJ.frame {α} {w0 : World} {T : List DelKey} {m : M α} (h1 : FrameDels.Fr m) (h2 : FrameRedel.Fr m) (h3 : FrameStaking.Fr m) :
    Hoare (RSJ w0 T) m (fun _ w => RSJ w0 T w) := by
  constructor
  intro w w' a hm hw
  have f1 := h1.frame w; have f2 := h2.frame w; have f3 := h3.frame w
  rw [hm] at f1 f2 f3
  have f1' : w'.dels = w.dels := f1
  simp only [FrameRedel.π, FrameStaking.π, Prod.mk.injEq] at f2 f3
  unfold RSJ KD delShares at *
  rw [f1', f2.1, f3.2.1]; exact hw

macro "rs_frame" : tactic => `(tactic| (apply RSJ.frame <;> first
  | exact FrameDels.liftE _ | exact FrameRedel.liftE _ | exact FrameStaking.liftE _
  | exact FrameDels.pure _ | exact FrameRedel.pure _ | exact FrameStaking.pure _
  | (simp only [dframe]; done) | (simp only [rframe]; done) | (simp only [sframe]; done)))

theorem slashRedelegations_scoped (v : ValId) (f : Dec) (w0 w' : World) (hk : KD w0)
    (h : slashRedelegations v f w0 = (.ok (), w')) :
    ∀ k, k ∉ redelTargets w0 v → delShares w' k = delShares w0 k := by
  have key : Hoare (fun w => w = w0) (slashRedelegations v f) (fun _ w => RSJ w0 (redelTargets w0 v) w) := by
    unfold slashRedelegations
    apply Hoare.getW_bind; intro w1 hP1
    subst hP1
    dsimp only []
    refine Hoare.conseq (P' := RSJ w1 (redelTargets w1 v)) (Q' := fun _ w => RSJ w1 (redelTargets w1 v) w) ?_
      (fun w e => by subst e; exact ⟨hk, fun _ _ => rfl, rfl, rfl⟩) (fun _ _ q => q)
    apply Hoare.forEachM
    intro k hkm
    obtain ⟨hk0, hsrc⟩ := List.mem_filter.mp hkm
    apply Hoare.getW_bind; intro w hJ
    obtain ⟨ks, kt, kd, kdst, kdel⟩ := k
    dsimp only []
    apply Hoare.ite
    · intro _; exact Hoare.pure _ (fun x e => by subst e; exact hJ)
    · intro hnm
      rcases hrec : AL.get w.redels (kdel, kd, kdst, kt) with _ | r
      · exact Hoare.throwE _
      · dsimp only []
        -- the destination of this record is a target
        have hT : (r.del, r.dst, r.denom) ∈ redelTargets w1 v := by
          unfold redelTargets
          rw [List.mem_filterMap]
          refine ⟨(ks, kt, kd, kdst, kdel), ?_, ?_⟩
          · rw [List.mem_filter]
            refine ⟨hk0, ?_⟩
            have : ¬ kt < w1.time := by rw [← hJ.2.2.2]; exact hnm
            simp only [Bool.and_eq_true, Bool.not_eq_eq_eq_not, Bool.not_true, decide_eq_false_iff_not]
            exact ⟨by simpa using hsrc, this⟩
          · simp only
            rw [← hJ.2.2.1, hrec]; rfl
        refine Hoare.at_state (P := RSJ w1 (redelTargets w1 v)) hJ ?_
        apply Hoare.bind (R := fun dv x => RSJ w1 (redelTargets w1 v) x ∧ VS dv x)
        · constructor
          intro x x' dv hm hx
          have a1 := (RSJ.frame (w0 := w1) (T := redelTargets w1 v) (by simp only [dframe]) (by simp only [rframe]) (by simp only [sframe])).run x x' dv hm hx
          exact ⟨a1, ((getAllianceValidator_sv x r.dst).run x x' dv hm (SV.refl x)).2⟩
        · intro dstVal
          apply Hoare.ite
          · intro _; exact Hoare.pure _ (fun x h => h.1)
          · intro _
            apply Hoare.bind (R := fun res x => RSJ w1 (redelTargets w1 v) x ∧ VS res.2 x)
            · constructor
              intro x x' res hm hx
              obtain ⟨hj, hvs⟩ := hx
              obtain ⟨⟨hsv, hvs'⟩, hkd'⟩ := (claimDelegationRewards_sv x r.del dstVal r.denom).run x x' res hm ⟨⟨SV.refl x, hvs⟩, hj.1⟩
              have f2 := (by simp only [rframe] : FrameRedel.Fr (claimDelegationRewards r.del dstVal r.denom)).frame x
              have f3 := (by simp only [sframe] : FrameStaking.Fr (claimDelegationRewards r.del dstVal r.denom)).frame x
              rw [hm] at f2 f3
              simp only [FrameRedel.π, FrameStaking.π, Prod.mk.injEq] at f2 f3
              exact ⟨⟨hkd', fun k hkn => (hsv.1 k).trans (hj.2.1 k hkn), f2.1.trans hj.2.2.1, f3.2.1.trans hj.2.2.2⟩, hvs'⟩
            · intro res
              apply Hoare.getW_bind; intro w2 hP2
              rcases hdl : getDelegation w2 r.del r.dst r.denom with _ | dl
              · exact Hoare.pure _ (fun x e => by subst e; exact hP2.1)
              · dsimp only []
                rcases hga : getAsset w2 r.denom with _ | a
                · exact Hoare.pure _ (fun x e => by subst e; exact hP2.1)
                · dsimp only []
                  have hkey : (dl.del, dl.val, dl.denom) = (r.del, r.dst, r.denom) := hP2.1.1 _ _ hdl
                  apply Hoare.liftE_bind; intro sts _
                  apply Hoare.liftE_bind; intro sc _
                  apply Hoare.liftE_bind; intro tds _
                  refine Hoare.at_state (P := RSJ w1 (redelTargets w1 v)) hP2.1 ?_
                  apply Hoare.bind (R := fun _ x => RSJ w1 (redelTargets w1 v) x)
                  · apply RSJ.frame
                    · unfold setValidator setValInfo; apply FrameDels.modifyW; intro x; rfl
                    · unfold setValidator setValInfo; apply FrameRedel.modifyW; intro x; rfl
                    · unfold setValidator setValInfo; apply FrameStaking.modifyW; intro x; rfl
                  · intro _
                    unfold setDelegation
                    refine Hoare.modifyW _ (fun x hx => ?_)
                    obtain ⟨j1, j2, j3, j4⟩ := hx
                    refine ⟨?_, ?_, j3, j4⟩
                    · intro k' dl' hg
                      simp only at hg
                      by_cases e : k' = (dl.del, dl.val, dl.denom)
                      · subst e
                        rw [AL.get_set_eq] at hg
                        injection hg with hg; subst hg; rfl
                      · rw [AL.get_set_ne _ _ _ _ e] at hg
                        exact j1 k' dl' hg
                    · intro k' hkn
                      have hne : k' ≠ (dl.del, dl.val, dl.denom) := by
                        intro e; rw [e, hkey] at hkn; exact hkn hT
                      unfold delShares
                      simp only
                      rw [AL.get_set_ne _ _ _ _ hne]
                      exact j2 k' hkn
  exact (key.run w0 w' () h rfl).2.1

/-- C07, scope of the whole callback on positions: `BeforeValidatorSlashed(v, f)` changes the SHARES of no position other
    than the destinations of the still-pending redelegations out of `v` (bonded stake is slashed through the validator's
    share of the asset, not through the positions' shares; unbondings are not positions) -/
theorem beforeValidatorSlashed_scoped (v : ValId) (f : Dec) (w0 w' : World) (hk : KD w0)
    (h : beforeValidatorSlashed v f w0 = (.ok (), w')) :
    ∀ k, k ∉ redelTargets w0 v → delShares w' k = delShares w0 k := by
  -- everything before and after `slashRedelegations` leaves delegations, redelegation stores and the clock alone
  let P : World → Prop := fun x => x.dels = w0.dels ∧ x.redels = w0.redels ∧ x.redelIndex = w0.redelIndex ∧ x.time = w0.time
  have fr : ∀ {α} {m : M α}, FrameDels.Fr m → FrameRedel.Fr m → FrameStaking.Fr m → Hoare P m (fun _ x => P x) := by
    intro α m h1 h2 h3
    constructor
    intro x x' a hm hx
    have f1 := h1.frame x; have f2 := h2.frame x; have f3 := h3.frame x
    rw [hm] at f1 f2 f3
    have f1' : x'.dels = x.dels := f1
    simp only [FrameRedel.π, FrameStaking.π, Prod.mk.injEq] at f2 f3
    exact ⟨f1'.trans hx.1, f2.1.trans hx.2.1, f2.2.2.trans hx.2.2.1, f3.2.1.trans hx.2.2.2⟩
  let Q : World → Prop := fun x => ∀ k, k ∉ redelTargets w0 v → delShares x k = delShares w0 k
  have frQ : ∀ {α} {m : M α}, FrameDels.Fr m → Hoare Q m (fun _ x => Q x) := by
    intro α m h1
    constructor
    intro x x' a hm hx
    have f1 := h1.frame x
    rw [hm] at f1
    have f1' : x'.dels = x.dels := f1
    intro k hkn
    unfold delShares; rw [f1']; exact hx k hkn
  have key : Hoare P (beforeValidatorSlashed v f) (fun _ x => Q x) := by
    unfold beforeValidatorSlashed slashValidator
    apply Hoare.bind (R := fun _ x => Q x)
    · apply Hoare.bind (fr (FrameDels.guardE _ _) (FrameRedel.guardE _ _) (FrameStaking.guardE _ _)); intro _
      apply Hoare.bind (fr (by simp only [dframe]) (by simp only [rframe]) (by simp only [sframe])); intro val
      apply Hoare.bind (R := fun _ x => P x)
      · apply fr
        · apply FrameDels.foldlM
          intro acc share
          apply FrameDels.bind (FrameDels.liftE _); intro _
          apply FrameDels.bind FrameDels.getW; intro w1
          split
          · exact FrameDels.throwE _
          · exact FrameDels.bind (by simp only [dframe]) (fun _ => FrameDels.pure _)
        · apply FrameRedel.foldlM
          intro acc share
          apply FrameRedel.bind (FrameRedel.liftE _); intro _
          apply FrameRedel.bind FrameRedel.getW; intro w1
          split
          · exact FrameRedel.throwE _
          · exact FrameRedel.bind (by simp only [rframe]) (fun _ => FrameRedel.pure _)
        · apply FrameStaking.foldlM
          intro acc share
          apply FrameStaking.bind (FrameStaking.liftE _); intro _
          apply FrameStaking.bind FrameStaking.getW; intro w1
          split
          · exact FrameStaking.throwE _
          · exact FrameStaking.bind (by simp only [sframe]) (fun _ => FrameStaking.pure _)
      · intro slashed
        apply Hoare.bind (fr (by simp only [dframe]) (by simp only [rframe]) (by simp only [sframe])); intro _
        apply Hoare.bind (R := fun _ x => Q x)
        · constructor
          intro x x' a hm hx
          have hkx : KD x := by unfold KD; rw [hx.1]; exact hk
          have hsc := slashRedelegations_scoped v f x x' hkx hm
          have hT : redelTargets x v = redelTargets w0 v := by unfold redelTargets; rw [hx.2.1, hx.2.2.1, hx.2.2.2]
          intro k hkn
          rw [hsc k (by rw [hT]; exact hkn)]
          unfold delShares; rw [hx.1]
        · intro _; exact frQ (by simp only [dframe])
    · intro _; exact frQ (by simp only [dframe])
  exact key.run w0 w' () h ⟨rfl, rfl, rfl, rfl⟩

end Alliance
