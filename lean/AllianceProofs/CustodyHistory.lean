/-
  CustodyHistory.lean — C01 assembled: every operation of the state machine, when it succeeds from a state in the
  custody scope, leaves the custody gap of every alliance denom at least where it was; failed transactions change
  nothing the gap reads; hence along every history the module account holds at least the staked total plus the pending
  unbondings.
-/
import AllianceProofs.TakeRateGap
set_option linter.unusedVariables false
namespace Alliance
open Dec

namespace GapT
variable {α β : Type} {d : Denom} {t t' δ : Int}
/-- a guard: the continuation only runs when the guard passes -/
theorem guardE_bind {c : Prop} [Decidable c] {code : String} {f : Unit → M β} (h : ¬ c → GapT d t t' δ (f ())) :
    GapT d t t' δ (Alliance.guardE c code >>= f) := by
  constructor
  intro w w' b hm hg hs
  simp only [bind_apply, guardE_apply] at hm
  by_cases hc : c
  · simp [hc] at hm
  · simp only [hc, if_false] at hm
    exact (h hc).run w w' b hm hg hs

theorem requireSome_bind {x : Option α} {code : String} {f : α → M β} (h : ∀ a, x = some a → GapT d t t' δ (f a)) :
    GapT d t t' δ (Alliance.requireSome x code >>= f) := by
  cases x with
  | none => exact ⟨fun w w' b hm => by simp [requireSome, bind_apply] at hm⟩
  | some a =>
    constructor
    intro w w' b hm hg hs
    simp only [requireSome, bind_apply, pure_apply] at hm
    exact (h a rfl).run w w' b hm hg hs
end GapT

/-! ## message handlers -/

theorem msgDelegate_gapM (del : Acct) (v : ValId) (d' : Denom) (amt : Int) (d : Denom) (hdel : del ≠ accModule) :
    GapM d (msgDelegate del v d' amt) := by
  apply GapH.ofT
  intro t
  refine ⟨(if d' = d then t + amt else t), ?_⟩
  unfold msgDelegate
  apply GapT.bind0 (by gt_frame); intro _
  apply GapT.bind0 (by gt_frame); intro val
  exact delegate_gapT del val d' amt d t hdel

theorem msgUndelegate_gapM (del : Acct) (v : ValId) (d' : Denom) (amt : Int) (d : Denom) (hdel : del ≠ accModule) :
    GapM d (msgUndelegate del v d' amt) := by
  apply GapH.ofT
  intro t
  refine ⟨(if d' = d then t - amt else t), ?_⟩
  unfold msgUndelegate
  apply GapT.bind0 (by gt_frame); intro _
  apply GapT.bind0 (by gt_frame); intro val
  exact undelegate_gapT del val d' amt d t hdel

theorem msgRedelegate_gapM (del : Acct) (s t' : ValId) (d' : Denom) (amt : Int) (d : Denom) :
    GapM d (msgRedelegate del s t' d' amt) := by
  apply GapH.ofT0
  intro t
  unfold msgRedelegate
  apply GapT.bind0 (by gt_frame); intro _
  apply GapT.bind0 (by gt_frame); intro sv
  apply GapT.bind0 (by gt_frame); intro dv
  exact redelegate_gapT del sv dv d' amt d t

theorem msgClaim_gapM (del : Acct) (v : ValId) (d' : Option Denom) (d : Denom) : GapM d (msgClaim del v d') := by
  apply GapH.ofT0
  intro t
  unfold msgClaim
  cases d' with
  | none => exact GapT.throwE _
  | some dd =>
    dsimp only []
    apply GapT.bind0 (by gt_frame); intro val
    apply GapT.bind0 (claimDelegationRewards_gapT del val dd d t); intro _
    exact GapT.pure ()

theorem msgUpdateParams_gapM (s : Signer) (p : Params) (d : Denom) : GapM d (msgUpdateParams s p) :=
  GapH.ofT0 (fun t => GapT.ofFrame (FrameG.msgUpdateParams s p))

theorem msgCreateAlliance_gapM (s : Signer) (f : AllianceFields) (d : Denom) : GapM d (msgCreateAlliance s f) := by
  apply GapH.ofT0
  intro t
  unfold msgCreateAlliance
  apply GapT.bind0 (by gt_frame); intro _
  apply GapT.bind0 (GapT.ofFrame (FrameG.requireSome _ _)); intro denom
  apply GapT.bind0 (by gt_frame); intro _
  apply GapT.bind0 (GapT.ofFrame (FrameG.requireSome _ _)); intro weight
  apply GapT.bind0 (by gt_frame); intro _
  apply GapT.bind0 (GapT.ofFrame (FrameG.requireSome _ _)); intro wmin
  apply GapT.bind0 (GapT.ofFrame (FrameG.requireSome _ _)); intro wmax
  apply GapT.bind0 (by gt_frame); intro _
  apply GapT.bind0 (by gt_frame); intro _
  apply GapT.bind0 (by gt_frame); intro _
  apply GapT.bind0 (GapT.ofFrame (FrameG.requireSome _ _)); intro takeRate
  apply GapT.bind0 (by gt_frame); intro _
  apply GapT.bind0 (GapT.ofFrame (FrameG.requireSomeP _)); intro changeRate
  apply GapT.bind0 (by gt_frame); intro _
  apply GapT.bind0 (by gt_frame); intro _
  apply GapT.bind0 (by gt_frame); intro _
  apply GapT.getW_bind; intro w0 hg0 hs0
  apply GapT.guardE_bind; intro hnone
  dsimp only []
  refine (setAsset_gapT _ d t).cast ?_ ?_
  · dsimp only []
    split
    · next e =>
      subst e
      unfold staked at hs0
      cases hga : getAsset w0 denom with
      | none => rw [hga] at hs0; exact hs0
      | some a => rw [hga] at hnone; simp at hnone
    · rfl
  · dsimp only []
    split
    · next e =>
      subst e
      unfold staked at hs0
      cases hga : getAsset w0 denom with
      | none => rw [hga] at hs0; simp only at hs0; omega
      | some a => rw [hga] at hnone; simp at hnone
    · omega

theorem msgUpdateAlliance_gapM (s : Signer) (f : AllianceFields) (d : Denom) : GapM d (msgUpdateAlliance s f) := by
  apply GapH.ofT0
  intro t
  unfold msgUpdateAlliance
  apply GapT.bind0 (by gt_frame); intro _
  apply GapT.bind0 (GapT.ofFrame (FrameG.requireSome _ _)); intro denom
  apply GapT.bind0 (GapT.ofFrame (FrameG.requireSome _ _)); intro weight
  apply GapT.bind0 (by gt_frame); intro _
  apply GapT.bind0 (GapT.ofFrame (FrameG.requireSome _ _)); intro takeRate
  apply GapT.bind0 (by gt_frame); intro _
  apply GapT.bind0 (GapT.ofFrame (FrameG.requireSomeP _)); intro changeRate
  apply GapT.bind0 (by gt_frame); intro _
  apply GapT.bind0 (by gt_frame); intro _
  apply GapT.bind0 (by gt_frame); intro _
  apply GapT.getW_bind; intro w0 hg0 hs0
  apply GapT.bind0 (GapT.ofFrame (FrameG.requireSome _ _)); intro asset
  apply GapT.bind0 (GapT.ofFrame (FrameG.requireSomeP _)); intro wmin
  apply GapT.bind0 (by gt_frame); intro _
  apply GapT.bind0 (GapT.ofFrame (FrameG.requireSomeP _)); intro wmax
  apply GapT.bind0 (by gt_frame); intro _
  exact updateAllianceAsset_gapT _ d t

/-- removing an asset record: the staked total of that denom becomes zero -/
theorem eraseAsset_run (denom : Denom) (d : Denom) (w : World) (hg : Good d w) :
    let w' := { w with assets := AL.erase w.assets denom }
    gap w' d = gap w d + (if denom = d then staked w d else 0) ∧ Good d w' := by
  intro w'
  have hst : staked w' d = if denom = d then 0 else staked w d := by
    show (match AL.get (AL.erase w.assets denom) d with | some a => a.totalTokens | none => 0) = _
    by_cases h : denom = d
    · subst h
      rw [if_pos rfl]
      rw [AL.get_erase_self natKeyOrder _ _ hg.asorted]
    · rw [if_neg h, AL.get_erase_ne _ _ _ (fun e => h e.symm)]; rfl
  constructor
  · show custody w d - staked w' d - pending w d = _
    rw [hst]; unfold gap; split <;> omega
  · exact ⟨hg.sorted, hg.oracle, hg.users, hg.notBond,
      fun p hp => hg.keyed p (AL.mem_erase _ _ _ hp), AL.erase_sorted natKeyOrder _ _ hg.asorted⟩

/-- `DeleteAlliance` refuses an asset with a positive staked total; with a non-negative one it therefore only
    removes empty assets, and the gap is unchanged -/
theorem msgDeleteAlliance_gapH (s : Signer) (dd : Option Denom) (d : Denom) :
    GapH d (fun w => 0 ≤ staked w d) (msgDeleteAlliance s dd) (fun _ _ => True) := by
  constructor
  intro w w' u h hg hpre
  unfold msgDeleteAlliance at h
  simp only [bind_apply, guardE_apply, getW_apply] at h
  by_cases h1 : s = .malformed
  · simp [h1] at h
  · simp only [h1, if_false] at h
    cases dd with
    | none => simp [requireSome] at h
    | some denom =>
      simp only [requireSome, pure_apply] at h
      by_cases h2 : s ≠ .authority
      · simp [h2] at h
      · simp only [h2, if_false] at h
        cases hga : getAsset w denom with
        | none => rw [hga] at h; simp at h
        | some a =>
          rw [hga] at h
          simp only [pure_apply] at h
          by_cases h3 : a.totalTokens > 0
          · simp [h3] at h
          · simp only [h3, if_false, modifyW_apply] at h
            injection h with _ h4
            subst h4
            obtain ⟨g1, g2⟩ := eraseAsset_run denom d w hg
            refine ⟨?_, g2, trivial⟩
            rw [g1]
            split
            · omega
            · omega

theorem deductAssetsHook_gapH (assets : List Asset) (d : Denom) :
    GapH d (InSync assets) (deductAssetsHook assets) (fun _ _ => True) := by
  unfold deductAssetsHook
  apply GapH.getW_bind; intro w0 _ _
  apply GapH.ite
  · intro _; exact deductAssetsWithTakeRate_gapH _ assets d
  · intro _; exact GapH.ofM (GapH.pureM assets)

/-- C01, end of block: completing redelegations and unbondings, initialising assets, the take-rate deduction, weight
    decay and rebalancing together never lower the custody gap -/
theorem endBlocker_gapM (d : Denom) : GapM d endBlocker := by
  unfold endBlocker
  apply GapH.bind (GapH.ofT0 (fun t => GapT.ofFrame FrameG.completeRedelegations)); intro _
  apply GapH.bind (GapH.ofT0 (fun t => completeUnbondings_gapT d t)); intro _
  constructor
  intro w w' u h hg _
  simp only [bind_apply, getW_apply] at h
  have hs := inSync_all d w hg
  exact (GapH.bind (initializeAllianceAssets_gapH (allAssets w) d) (fun as1 =>
    GapH.bind (deductAssetsHook_gapH as1 d) (fun as2 =>
      GapH.bind (GapH.ofM (GapH.ofT0 (fun t => rewardWeightChangeHook_gapT as2 d t))) (fun as3 =>
        GapH.ofM (GapH.ofT0 (fun t => rebalanceHook_gapT as3 d t)))))).run w w' u h hg hs

/-! ## one step, and histories -/

/-- what an operation must satisfy for the custody theorem: delegators are not the module account itself, and an
    asset is only deleted while its recorded staked total is not negative -/
def OpScope (d : Denom) (op : Op) (w : World) : Prop :=
  match op with
  | .delegate del _ _ _ => del ≠ accModule
  | .undelegate del _ _ _ => del ≠ accModule
  | .deleteAlliance _ _ => 0 ≤ staked w d
  | _ => True

/-- C01, one step: an operation that succeeds from a state in scope never lowers the custody gap, and stays in scope -/
theorem step_gap (d : Denom) (op : Op) (w w' : World) (h : step op w = (.ok (), w')) (hg : Good d w)
    (hop : OpScope d op w) : gap w d ≤ gap w' d ∧ Good d w' := by
  cases op with
  | delegate del v dd amt =>
    obtain ⟨g1, g2, _⟩ := (GapH.asTx (msgDelegate_gapM del v dd amt d hop)).run w w' () h hg trivial; exact ⟨g1, g2⟩
  | undelegate del v dd amt =>
    obtain ⟨g1, g2, _⟩ := (GapH.asTx (msgUndelegate_gapM del v dd amt d hop)).run w w' () h hg trivial; exact ⟨g1, g2⟩
  | redelegate del s t dd amt =>
    obtain ⟨g1, g2, _⟩ := (GapH.asTx (msgRedelegate_gapM del s t dd amt d)).run w w' () h hg trivial; exact ⟨g1, g2⟩
  | claim del v dd =>
    obtain ⟨g1, g2, _⟩ := (GapH.asTx (msgClaim_gapM del v dd d)).run w w' () h hg trivial; exact ⟨g1, g2⟩
  | createAlliance s f =>
    obtain ⟨g1, g2, _⟩ := (GapH.asTx (msgCreateAlliance_gapM s f d)).run w w' () h hg trivial; exact ⟨g1, g2⟩
  | updateAlliance s f =>
    obtain ⟨g1, g2, _⟩ := (GapH.asTx (msgUpdateAlliance_gapM s f d)).run w w' () h hg trivial; exact ⟨g1, g2⟩
  | deleteAlliance s dd =>
    obtain ⟨g1, g2, _⟩ := (GapH.asTx (msgDeleteAlliance_gapH s dd d)).run w w' () h hg hop; exact ⟨g1, g2⟩
  | updateParams s p =>
    obtain ⟨g1, g2, _⟩ := (GapH.asTx (msgUpdateParams_gapM s p d)).run w w' () h hg trivial; exact ⟨g1, g2⟩
  | slash v f =>
    obtain ⟨g1, g2, _⟩ := (GapH.ofT0 (fun t => beforeValidatorSlashed_gapT v f d t)).run w w' () h hg trivial; exact ⟨g1, g2⟩
  | endBlock =>
    obtain ⟨g1, g2, _⟩ := (endBlocker_gapM d).run w w' () h hg trivial; exact ⟨g1, g2⟩
  | hookDelegationModified =>
    obtain ⟨g1, g2, _⟩ := (GapH.ofT0 (fun t => GapT.ofFrame FrameG.queueRebalance)).run w w' () h hg trivial; exact ⟨g1, g2⟩
  | hookValidatorBonded =>
    obtain ⟨g1, g2, _⟩ := (GapH.ofT0 (fun t => GapT.ofFrame FrameG.queueRebalance)).run w w' () h hg trivial; exact ⟨g1, g2⟩
  | hookValidatorBeginUnbonding =>
    obtain ⟨g1, g2, _⟩ := (GapH.ofT0 (fun t => GapT.ofFrame FrameG.queueRebalance)).run w w' () h hg trivial; exact ⟨g1, g2⟩
  | hookDelegationRemoved =>
    obtain ⟨g1, g2, _⟩ := (GapH.ofT0 (fun t => GapT.ofFrame FrameG.queueRebalance)).run w w' () h hg trivial; exact ⟨g1, g2⟩
  | hookValidatorRemoved v =>
    obtain ⟨g1, g2, _⟩ := (GapH.ofT0 (fun t => GapT.ofFrame (FrameG.afterValidatorRemoved v))).run w w' () h hg trivial; exact ⟨g1, g2⟩
  | env =>
    obtain ⟨g1, g2, _⟩ := (GapH.pureM (d := d) ()).run w w' () h hg trivial; exact ⟨g1, g2⟩

/-- the part of the scope that does not mention the response tape -/
structure Core (d : Denom) (w : World) : Prop where
  sorted : QSorted w
  users : UsersOnly w
  notBond : d ≠ w.staking.bondDenom
  keyed : ∀ p ∈ w.assets, p.2.denom = p.1
  asorted : AL.SortedBy natKeyOrder w.assets

theorem Good.core {d : Denom} {w : World} (g : Good d w) : Core d w := ⟨g.sorted, g.users, g.notBond, g.keyed, g.asorted⟩

theorem Core.withTape {d : Denom} {w : World} (c : Core d w) (tape : List (ValId × Coins))
    (hn : ∀ p ∈ tape, Coins.Nonneg p.2) : Good d { w with oracle := tape } :=
  ⟨c.sorted, hn, c.users, c.notBond, c.keyed, c.asorted⟩

/-- a transaction is rolled back when it fails -/
def Op.isTx : Op → Bool
  | .delegate .. | .undelegate .. | .redelegate .. | .claim .. | .createAlliance .. | .updateAlliance ..
  | .deleteAlliance .. | .updateParams .. => true
  | _ => false

/-- a failed transaction leaves everything but the tape position as it was -/
theorem step_tx_fail (op : Op) (w : World) (e : Err) (htx : op.isTx = true) (h : (step op w).1 = .error e) :
    (step op w).2 = { w with oracle := (step op w).2.oracle } := by
  cases op <;> simp only [Op.isTx] at htx <;> try cases htx
  all_goals (unfold step at h ⊢; exact asTx_error_noop _ w e h)

/-- what the environment may do between operations: anything, as long as it leaves the asset records, the unbonding
    queue and the bond denom alone and does not take coins of `d` out of the custody account (block time, other
    modules' state, reward allocation, unsolicited transfers INTO the account are all allowed) -/
structure EnvStep (d : Denom) (w w' : World) : Prop where
  assets : w'.assets = w.assets
  queue : w'.undelQueue = w.undelQueue
  bond : w'.staking.bondDenom = w.staking.bondDenom
  custody : custody w d ≤ custody w' d

/-- histories: operations of the state machine, each run against its own tape of distribution responses,
    interleaved with environment steps. A failing hook or end-of-block ends the history (the chain halts). -/
inductive Reach (d : Denom) : World → World → Prop
  | refl (w : World) : Reach d w w
  | env {w w1 w2 : World} : Reach d w w1 → EnvStep d w1 w2 → Reach d w w2
  | ok {w w1 w2 : World} (op : Op) (tape : List (ValId × Coins)) : Reach d w w1 →
      (∀ p ∈ tape, Coins.Nonneg p.2) → OpScope d op { w1 with oracle := tape } →
      step op { w1 with oracle := tape } = (.ok (), w2) → Reach d w w2
  | failTx {w w1 : World} (op : Op) (tape : List (ValId × Coins)) (e : Err) : Reach d w w1 → op.isTx = true →
      (step op { w1 with oracle := tape }).1 = .error e → Reach d w (step op { w1 with oracle := tape }).2

theorem gap_tape (w : World) (tape : List (ValId × Coins)) (d : Denom) : gap { w with oracle := tape } d = gap w d := rfl

/-- C01 over all histories: from any state in scope, along every history the custody gap never falls and the
    scope is kept -/
theorem reach_gap (d : Denom) (w w' : World) (hc : Core d w) (hr : Reach d w w') : gap w d ≤ gap w' d ∧ Core d w' := by
  induction hr with
  | refl => exact ⟨Int.le_refl _, hc⟩
  | env hr he ih =>
    obtain ⟨g, c⟩ := ih
    refine ⟨?_, ?_⟩
    · have h1 := staked_of_assets_eq he.assets d
      have h2 := pending_of_queue_eq he.queue d
      have h3 := he.custody
      unfold gap at g ⊢
      omega
    · refine ⟨?_, ?_, ?_, ?_, ?_⟩
      · unfold QSorted; rw [he.queue]; exact c.sorted
      · unfold UsersOnly; rw [he.queue]; exact c.users
      · rw [he.bond]; exact c.notBond
      · rw [he.assets]; exact c.keyed
      · rw [he.assets]; exact c.asorted
  | ok op tape hr hn hop hs ih =>
    obtain ⟨g, c⟩ := ih
    obtain ⟨g1, g2⟩ := step_gap d op _ _ hs (c.withTape tape hn) hop
    rw [gap_tape] at g1
    exact ⟨by omega, g2.core⟩
  | failTx op tape e hr htx hf ih =>
    obtain ⟨g, c⟩ := ih
    rw [step_tx_fail op _ e htx hf]
    exact ⟨g, ⟨c.sorted, c.users, c.notBond, c.keyed, c.asorted⟩⟩

/-- C01 as stated: if custody covers the staked total plus the pending unbondings at the start, it does so in every
    reachable state -/
theorem custody_covers (d : Denom) (w w' : World) (hc : Core d w) (h0 : 0 ≤ gap w d) (hr : Reach d w w') :
    staked w' d + pending w' d ≤ custody w' d := by
  obtain ⟨g, _⟩ := reach_gap d w w' hc hr
  unfold gap at g h0
  omega

end Alliance
