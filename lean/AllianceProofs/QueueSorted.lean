/-
  INV-Q — the unbonding queue is strictly sorted by (completion time, delegator) — hence has unique keys — in every
  state of every history. (The real store is a map, so this holds there by construction; in the model it is a theorem.)
-/
import AllianceProofs.Sorted
import AllianceProofs.FrameUQ
import AllianceProofs.AssetsValid
namespace Alliance

def QSorted (w : World) : Prop := AL.SortedBy undelKeyOrder w.undelQueue

theorem qsorted_frame {α} {m : M α} (h : FrameUQ.Fr m) : PresR QSorted m Any :=
  FrameUQ.toPresR h (AL.SortedBy undelKeyOrder)

macro "qs_leaf" : tactic => `(tactic| first
  | apply PresR.pure_any | apply PresR.throwE | apply PresR.panicE | apply PresR.liftE_any
  | apply PresR.guardE_any | apply PresR.guardP_any | apply PresR.requireSome_any | apply PresR.requireSomeP_any
  | apply PresR.getW_any
  | (apply qsorted_frame; simp only [qframe]; done))

macro "qs_walk" : tactic => `(tactic| repeat (first
  | qs_leaf
  | (apply PresR.bind (R := Any) (by qs_leaf); intro _ _)
  | (dsimp only [])))

theorem queueUndelegation_qs (del : Acct) (v : ValId) (d : Denom) (amt : Int) :
    PresR QSorted (queueUndelegation del v d amt) Any := by
  unfold queueUndelegation
  apply PresR.bind PresR.getW; intro w0 _
  dsimp only []
  apply PresR.bind (R := Any)
  · apply PresR.modifyW
    intro w hw
    exact AL.set_sorted undelKeyOrder _ _ _ hw
  · intro _ _; qs_leaf

theorem payBucket_qs (b : UndelKey × List Undel) : PresR QSorted (payBucket b) Any := by
  unfold payBucket
  apply PresR.bind (R := Any)
  · apply PresR.forEachM'
    intro e
    exact qsorted_frame (FrameUQ.payEntry _ e)
  · intro _ _
    apply PresR.modifyW
    intro w hw
    exact AL.erase_sorted undelKeyOrder _ _ hw

theorem completeUnbondings_qs : PresR QSorted completeUnbondings Any := by
  unfold completeUnbondings
  apply PresR.bind (R := Any) (by qs_leaf); intro w0 _
  apply PresR.bind (R := Any)
  · apply PresR.forEachM'
    intro b; exact payBucket_qs b
  · intro _ _
    qs_walk
    split <;> qs_leaf

theorem slashUndelegations_qs (v : ValId) (f : Dec) : PresR QSorted (slashUndelegations v f) Any := by
  unfold slashUndelegations
  apply PresR.bind (R := Any) (by qs_leaf); intro w0 _
  dsimp only []
  apply PresR.forEachM'
  intro k
  apply PresR.bind (R := Any) (by qs_leaf); intro w1 _
  obtain ⟨kv, kt, kd, kdel⟩ := k
  dsimp only []
  split
  · qs_leaf
  · apply PresR.bind (R := Any)
    · apply PresR.forEachM'
      intro e
      split
      · qs_leaf
      · qs_leaf
    · intro _ _
      apply PresR.modifyW
      intro w hw
      exact AL.set_sorted undelKeyOrder _ _ _ hw

theorem slashValidator_qs (v : ValId) (f : Dec) : PresR QSorted (slashValidator v f) Any := by
  unfold slashValidator
  apply PresR.bind (R := Any) (by qs_leaf); intro _ _
  apply PresR.bind (R := Any) (by qs_leaf); intro val _
  apply PresR.bind (R := Any)
  · apply PresR.foldlM (R := Any) _ _ _ trivial
    intro acc _ share _
    dsimp only []
    apply PresR.bind (R := Any) (by qs_leaf); intro _ _
    apply PresR.bind (R := Any) (by qs_leaf); intro w0 _
    split
    · qs_leaf
    · apply PresR.bind (R := Any) (by qs_leaf); intro _ _
      qs_leaf
  · intro _ _
    apply PresR.bind (R := Any) (by qs_leaf); intro _ _
    apply PresR.bind (R := Any) (by qs_leaf); intro _ _
    exact slashUndelegations_qs v f

theorem undelegate_qs (del : Acct) (val : AVal) (d : Denom) (amt : Int) : PresR QSorted (undelegate del val d amt) Any := by
  unfold undelegate
  apply PresR.bind (R := Any) (by qs_leaf); intro w0 _
  split
  · qs_leaf
  · qs_walk
    apply PresR.bind (R := Any) (queueUndelegation_qs _ _ _ _); intro _ _
    qs_leaf

theorem endBlocker_qs : PresR QSorted endBlocker Any := by
  unfold endBlocker
  apply PresR.bind (R := Any) (by qs_leaf); intro _ _
  apply PresR.bind (R := Any) completeUnbondings_qs; intro _ _
  qs_walk

theorem qsorted_oracle (w : World) (o : List (ValId × Coins)) (h : QSorted w) : QSorted { w with oracle := o } := h

theorem step_qs (op : Op) : PresR QSorted (step op) Any := by
  cases op <;> unfold step <;> dsimp only []
  · exact PresR.asTx (qsorted_frame (FrameUQ.msgDelegate _ _ _ _)) qsorted_oracle
  · refine PresR.asTx ?_ qsorted_oracle
    unfold msgUndelegate
    apply PresR.bind (R := Any) (by qs_leaf); intro _ _
    apply PresR.bind (R := Any) (by qs_leaf); intro _ _
    exact undelegate_qs _ _ _ _
  · exact PresR.asTx (qsorted_frame (FrameUQ.msgRedelegate _ _ _ _ _)) qsorted_oracle
  · exact PresR.asTx (qsorted_frame (FrameUQ.msgClaim _ _ _)) qsorted_oracle
  · exact PresR.asTx (qsorted_frame (FrameUQ.msgCreateAlliance _ _)) qsorted_oracle
  · exact PresR.asTx (qsorted_frame (FrameUQ.msgUpdateAlliance _ _)) qsorted_oracle
  · exact PresR.asTx (qsorted_frame (FrameUQ.msgDeleteAlliance _ _)) qsorted_oracle
  · exact PresR.asTx (qsorted_frame (FrameUQ.msgUpdateParams _ _)) qsorted_oracle
  · unfold beforeValidatorSlashed
    apply PresR.bind (R := Any) (slashValidator_qs _ _); intro _ _
    qs_leaf
  · exact endBlocker_qs
  · qs_leaf
  · qs_leaf
  · qs_leaf
  · qs_leaf
  · qs_leaf
  · qs_leaf

/-- INV-Q over every history -/
theorem run_qsorted (ops : List Op) (w : World) (h : QSorted w) : QSorted (run w ops) := by
  unfold run
  induction ops generalizing w with
  | nil => exact h
  | cons op t ih =>
    rw [List.foldl_cons]
    exact ih _ ((step_qs op).run w h).1

end Alliance
