/-
  StoresUse.lean — the scope condition `KD` ("delegation records are keyed by their own fields") of the stake-neutrality and
  slash-scope theorems is a consequence of `Stores`, which every keeper function keeps (KeepStores.lean): so those theorems
  hold in every state of every history from the empty module store, restarts included, with no hypothesis on the state.
-/
import AllianceProofs.RestartAll
import AllianceProofs.StakeNeutral
import AllianceProofs.RedelSlashScope
set_option linter.unusedVariables false
namespace Alliance

theorem kd_of_stores {w : World} (h : Stores w) : KD w := by
  intro k dl hg
  have := h.dkeyed (k, dl) (AL.get_some_mem _ _ _ hg)
  exact this.symm

theorem kd_in_every_history (w0 w : World) (hr : ReachG (clearModuleStore w0) w) : KD w :=
  kd_of_stores (reach_restart_ok _ _ (restart_ok_empty w0) hr).stores

/-- C13 / C04: claiming never changes a staked value — in every state of every history -/
theorem claim_is_stake_neutral_in_every_history (w0 w w' : World) (hr : ReachG (clearModuleStore w0) w)
    (del : Acct) (v : ValId) (d : Option Denom) (h : step (.claim del v d) w = (.ok (), w')) : SV w w' :=
  claim_is_stake_neutral del v d w w' (kd_in_every_history w0 w hr) h

theorem claim_changes_no_reported_balance_in_every_history (w0 w w' : World) (hr : ReachG (clearModuleStore w0) w)
    (del : Acct) (v : ValId) (d : Option Denom) (h : step (.claim del v d) w = (.ok (), w'))
    (del' : Acct) (v' : ValId) (d' : Denom) : qDelegation w' del' v' d' = qDelegation w del' v' d' :=
  claim_changes_no_reported_balance del v d w w' (kd_in_every_history w0 w hr) h del' v' d'

/-- C07: the slash callback changes the shares of no position other than the destinations of the still-pending redelegations
    out of the slashed validator — in every state of every history -/
theorem slash_scope_in_every_history (w0 w w' : World) (hr : ReachG (clearModuleStore w0) w) (v : ValId) (f : Dec)
    (h : step (.slash v f) w = (.ok (), w')) : ∀ k, k ∉ redelTargets w v → delShares w' k = delShares w k :=
  beforeValidatorSlashed_scoped v f w w' (kd_in_every_history w0 w hr) h

end Alliance
