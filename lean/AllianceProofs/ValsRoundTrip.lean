/-
  ValsRoundTrip.lean — C18: the validator-info store and the reward-weight snapshot store survive
  export → wipe → import exactly, in every state in which they are strictly sorted by key (they are association lists
  written only through `AL.set` / `AL.erase`, which keep that order).
-/
import AllianceProofs.RedelReimport
set_option linter.unusedVariables false
namespace Alliance

/-- `m` leaves the projection `f` of the state alone, whether it succeeds or fails -/
def Keeps {α β} (f : World → β) (m : M α) : Prop := ∀ w, f (m w).2 = f w

theorem Keeps.bind {α β γ} {f : World → γ} {m : M α} {k : α → M β} (hm : Keeps f m) (hk : ∀ a, Keeps f (k a)) :
    Keeps f (m >>= k) := by
  intro w
  simp only [bind_apply]
  have h1 := hm w
  rcases hmw : m w with ⟨r, w1⟩
  rw [hmw] at h1
  cases r with
  | error e => exact h1
  | ok a => exact (hk a w1).trans h1

theorem Keeps.modifyW {β} {f : World → β} (g : World → World) (h : ∀ w, f (g w) = f w) : Keeps f (modifyW g) := by
  intro w; simp only [modifyW_apply]; exact h w

theorem Keeps.pure {α β} {f : World → β} (a : α) : Keeps f (Pure.pure a : M α) := fun _ => rfl

theorem Keeps.forEachM {β γ} {f : World → β} (k : γ → M Unit) (xs : List γ) (h : ∀ x, Keeps f (k x)) :
    Keeps f (forEachM k xs) := by
  induction xs with
  | nil => unfold Alliance.forEachM; exact Keeps.pure _
  | cons x t ih => unfold Alliance.forEachM; exact Keeps.bind (h x) (fun _ => ih)

theorem Keeps.of_state {α β} {f : World → β} {m : M α} (g : World → World) (a : α) (hm : ∀ w, m w = (.ok a, g w))
    (h : ∀ w, f (g w) = f w) : Keeps f m := by
  intro w; rw [hm]; exact h w

theorem Keeps.run {α β} {f : World → β} {m : M α} (h : Keeps f m) (w w' : World) (r : Except Err α) (hm : m w = (r, w')) :
    f w' = f w := by have := h w; rw [hm] at this; exact this

/-- the redelegation part of the import leaves alone any projection that ignores the three redelegation stores -/
theorem importRedels_keeps {β} (f : World → β) (g : Genesis)
    (hf : ∀ w rs rq ri, f { w with redels := rs, redelQueue := rq, redelIndex := ri } = f w) :
    Keeps f (forEachM (fun (p : Time × Redel) => do
        addRedelegation p.2.del p.2.src p.2.dst p.2.denom p.2.amount p.1
        queueRedelegation { del := p.2.del, src := p.2.src, dst := p.2.dst, denom := p.2.denom, amount := p.2.amount } p.1) g.redelegations) := by
  apply Keeps.forEachM; intro p
  apply Keeps.bind
  · exact Keeps.of_state _ () (addRedelegation_state _ _ _ _ _ _) (fun w => hf w _ _ _)
  · intro _
    exact Keeps.of_state _ () (queueRedelegation_state _ _) (fun w => hf w _ _ _)

/-- the unbonding part of the import leaves alone any projection that ignores the two unbonding stores -/
theorem importUndels_keeps {β} (f : World → β) (g : Genesis)
    (hf : ∀ w uq ui, f { w with undelQueue := uq, undelIndex := ui } = f w) :
    Keeps f (forEachM (fun (p : Time × List Undel) =>
        match p.2 with
        | [] => Pure.pure ()
        | e0 :: _ => do
          Alliance.modifyW fun w => { w with undelQueue := AL.set w.undelQueue (p.1, e0.del) p.2 }
          forEachM (fun (e : Undel) =>
            Alliance.modifyW fun w => { w with undelIndex := setInsert w.undelIndex (e.val, p.1, e.denom, e0.del) }) p.2) g.undelegations) := by
  apply Keeps.forEachM; intro p
  rcases p with ⟨t, _ | ⟨e0, es⟩⟩
  · exact Keeps.pure _
  · show Keeps f (_ >>= _)
    refine Keeps.bind ?_ ?_
    · apply Keeps.modifyW; intro w; exact hf w _ _
    · intro _
      apply Keeps.forEachM; intro e
      apply Keeps.modifyW; intro w; exact hf w _ _

theorem forEachM_setValInfo (xs : List (ValId × ValInfo)) (w : World) :
    forEachM (fun (p : ValId × ValInfo) => setValInfo p.1 p.2) xs w =
      (.ok (), { w with vals := xs.foldl (fun acc p => AL.set acc p.1 p.2) w.vals }) := by
  induction xs generalizing w with
  | nil => rfl
  | cons a t ih =>
    unfold forEachM
    have h1 : setValInfo a.1 a.2 w = (.ok (), { w with vals := AL.set w.vals a.1 a.2 }) := rfl
    simp only [bind_apply, h1]
    rw [ih]
    rfl

theorem forEachM_setSnap (xs : List (SnapKey × Snapshot)) (w : World) :
    forEachM (fun (p : SnapKey × Snapshot) => Alliance.modifyW fun w => { w with snaps := AL.set w.snaps p.1 p.2 }) xs w =
      (.ok (), { w with snaps := xs.foldl (fun acc p => AL.set acc p.1 p.2) w.snaps }) := by
  induction xs generalizing w with
  | nil => rfl
  | cons a t ih =>
    unfold forEachM
    simp only [bind_apply, modifyW_apply]
    rw [ih]
    rfl

theorem Keeps.guardE {β} {f : World → β} (c : Prop) [Decidable c] (code : String) : Keeps f (guardE c code) := by
  intro w; unfold Alliance.guardE; split <;> rfl

theorem initParams_keeps {β} (f : World → β) (g : Genesis) (hf : ∀ w p, f { w with params := p } = f w) :
    Keeps f (initParams g) := by
  have hs : Keeps f (setParams g.params) := by
    unfold setParams
    apply Keeps.bind (Keeps.guardE _ _); intro _
    apply Keeps.bind (Keeps.guardE _ _); intro _
    apply Keeps.modifyW; intro w; exact hf w _
  intro w
  unfold initParams
  have := hs w
  rcases hp : setParams g.params w with ⟨r, w1⟩
  rw [hp] at this
  cases r <;> exact this

/-- the validator-info store after an import -/
theorem initGenesis_vals (g : Genesis) (w w' : World) (h : initGenesis g w = (.ok (), w')) :
    w'.vals = g.valInfos.foldl (fun acc p => AL.set acc p.1 p.2) w.vals := by
  rw [initGenesis_eq] at h
  simp only [bind_apply] at h
  have k1 := initParams_keeps (fun w => w.vals) g (fun _ _ => rfl) w
  rcases hp : initParams g w with ⟨r1, w1⟩
  rw [hp] at h k1
  cases r1 with
  | error e => simp at h
  | ok u1 =>
    simp only [forEachM_setAsset, forEachM_setValInfo, forEachM_setDelegation] at h
    have k2 : Keeps (fun w => w.vals) (initAfterDelegations g) := by
      unfold initAfterDelegations
      apply Keeps.bind (importRedels_keeps _ g (fun _ _ _ _ => rfl)); intro _
      apply Keeps.bind (importUndels_keeps _ g (fun _ _ _ => rfl)); intro _
      apply Keeps.forEachM; intro p
      apply Keeps.modifyW; intro w; rfl
    have := k2.run _ _ _ h
    simp only at this k1
    rw [this, k1]

/-- C18: the validator-info store survives export → wipe → import exactly, when it is strictly sorted by validator -/
theorem reimport_restores_validators (w w' : World) (h : reimport w = (.ok (), w'))
    (hs : AL.SortedBy natKeyOrder w.vals) : w'.vals = w.vals := by
  unfold reimport at h
  simp only [bind_apply, getW_apply, setW_apply] at h
  have := initGenesis_vals _ _ _ h
  rw [this]
  show w.vals.foldl _ [] = _
  rw [AL.rebuild_sorted natKeyOrder w.vals hs [] (fun p hp => by cases hp)]
  rfl

/-- the snapshot store after an import -/
theorem initGenesis_snaps (g : Genesis) (w w' : World) (h : initGenesis g w = (.ok (), w')) :
    w'.snaps = g.snapshots.foldl (fun acc p => AL.set acc p.1 p.2) w.snaps := by
  rw [initGenesis_eq] at h
  simp only [bind_apply] at h
  have k1 := initParams_keeps (fun w => w.snaps) g (fun _ _ => rfl) w
  rcases hp : initParams g w with ⟨r1, w1⟩
  rw [hp] at h k1
  cases r1 with
  | error e => simp at h
  | ok u1 =>
    simp only [forEachM_setAsset, forEachM_setValInfo, forEachM_setDelegation] at h
    unfold initAfterDelegations at h
    simp only [bind_apply] at h
    have ka := importRedels_keeps (fun w => w.snaps) g (fun _ _ _ _ => rfl)
    have kb := importUndels_keeps (fun w => w.snaps) g (fun _ _ _ => rfl)
    revert h
    rcases ha : forEachM (fun (p : Time × Redel) => do
        addRedelegation p.2.del p.2.src p.2.dst p.2.denom p.2.amount p.1
        queueRedelegation { del := p.2.del, src := p.2.src, dst := p.2.dst, denom := p.2.denom, amount := p.2.amount } p.1) g.redelegations
        _ with ⟨r2, w2⟩
    intro h
    have e2 := ka.run _ _ _ ha
    cases r2 with
    | error e => simp at h
    | ok u2 =>
      simp only at h
      revert h
      rcases hb : forEachM (fun (p : Time × List Undel) =>
        match p.2 with
        | [] => Pure.pure ()
        | e0 :: _ => do
          Alliance.modifyW fun w => { w with undelQueue := AL.set w.undelQueue (p.1, e0.del) p.2 }
          forEachM (fun (e : Undel) =>
            Alliance.modifyW fun w => { w with undelIndex := setInsert w.undelIndex (e.val, p.1, e.denom, e0.del) }) p.2) g.undelegations
        w2 with ⟨r3, w3⟩
      intro h
      have e3 := kb.run _ _ _ hb
      cases r3 with
      | error e => simp at h
      | ok u3 =>
        simp only [forEachM_setSnap] at h
        injection h with _ h2
        subst h2
        simp only at e2 e3 k1 ⊢
        rw [e3, e2, k1]

/-- C18: the reward-weight snapshot store survives export → wipe → import exactly, when it is strictly sorted by key -/
theorem reimport_restores_snapshots (w w' : World) (h : reimport w = (.ok (), w'))
    (hs : AL.SortedBy delKeyOrder w.snaps) : w'.snaps = w.snaps := by
  unfold reimport at h
  simp only [bind_apply, getW_apply, setW_apply] at h
  have := initGenesis_snaps _ _ _ h
  rw [this]
  show w.snaps.foldl _ [] = _
  rw [AL.rebuild_sorted delKeyOrder w.snaps hs [] (fun p hp => by cases hp)]
  rfl

/-- the part of the import after the params leaves alone any projection that ignores the module's record stores -/
theorem initRecords_keeps {β} (f : World → β) (g : Genesis)
    (hf : ∀ w a v d rs rq ri uq ui sn, f { w with assets := a, vals := v, dels := d, redels := rs, redelQueue := rq, redelIndex := ri, undelQueue := uq, undelIndex := ui, snaps := sn } = f w) :
    Keeps f (forEachM setAsset g.assets >>= fun _ =>
      forEachM (fun (p : ValId × ValInfo) => setValInfo p.1 p.2) g.valInfos >>= fun _ =>
      forEachM setDelegation g.delegations >>= fun _ => initAfterDelegations g) := by
  apply Keeps.bind (Keeps.of_state _ () (forEachM_setAsset _) (fun w => hf w _ _ _ _ _ _ _ _ _)); intro _
  apply Keeps.bind (Keeps.of_state _ () (forEachM_setValInfo _) (fun w => hf w _ _ _ _ _ _ _ _ _)); intro _
  apply Keeps.bind (Keeps.of_state _ () (forEachM_setDelegation _) (fun w => hf w _ _ _ _ _ _ _ _ _)); intro _
  unfold initAfterDelegations
  apply Keeps.bind (importRedels_keeps _ g (fun w _ _ _ => hf w _ _ _ _ _ _ _ _ _)); intro _
  apply Keeps.bind (importUndels_keeps _ g (fun w _ _ => hf w _ _ _ _ _ _ _ _ _)); intro _
  apply Keeps.forEachM; intro p
  apply Keeps.modifyW; intro w; exact hf w _ _ _ _ _ _ _ _ _

/-- C18: what lies outside the module's genesis (bank, supply, native staking, clock, the distribution responses) is not
    touched by export → wipe → import, and the parameters come back as exported -/
theorem reimport_outside_and_params (w w' : World) (h : reimport w = (.ok (), w')) :
    w'.bank = w.bank ∧ w'.supply = w.supply ∧ w'.staking = w.staking ∧ w'.time = w.time ∧ w'.height = w.height ∧
    w'.oracle = w.oracle ∧ w'.params = w.params ∧ w'.flag = false := by
  unfold reimport at h
  simp only [bind_apply, getW_apply, setW_apply] at h
  rw [initGenesis_eq] at h
  simp only [bind_apply] at h
  revert h
  rcases hp : initParams (exportGenesis w) (clearModuleStore w) with ⟨r1, w1⟩
  intro h
  cases r1 with
  | error e => simp at h
  | ok u1 =>
    simp only at h
    have kp := (initParams_keeps (fun w => (w.bank, w.supply, w.staking, w.time, w.height, w.oracle, w.flag)) (exportGenesis w)
      (fun _ _ => rfl)).run _ _ _ hp
    have hpar : w1.params = w.params := by
      unfold initParams setParams guardE at hp
      simp only [bind_apply] at hp
      by_cases c1 : (exportGenesis w).params.rewardDelay < 0
      · simp [c1, throwE] at hp
      · by_cases c2 : (exportGenesis w).params.takeRateInterval < 0
        · simp [c1, c2, throwE, pure_apply] at hp
        · simp only [c1, c2, if_false, pure_apply, modifyW_apply] at hp
          injection hp with _ h2
          rw [← h2]; rfl
    have kr := (initRecords_keeps (fun w => (w.bank, w.supply, w.staking, w.time, w.height, w.oracle, w.flag, w.params)) (exportGenesis w)
      (fun _ _ _ _ _ _ _ _ _ _ => rfl)).run _ _ _ h
    simp only [Prod.mk.injEq] at kp kr
    obtain ⟨a1, a2, a3, a4, a5, a6, a7⟩ := kp
    obtain ⟨b1, b2, b3, b4, b5, b6, b7, b8⟩ := kr
    refine ⟨b1.trans a1, b2.trans a2, b3.trans a3, b4.trans a4, b5.trans a5, b6.trans a6, b8.trans hpar, b7.trans a7⟩

end Alliance
