/-
  MoneyCheck.lean — the money-side theorems instantiated on observed steps of the real code: for every observed
  successful step the trace driver evaluates the hypotheses and the conclusion of
    * `endBlocker_conserves_claim` (C02): balance + owed-by-the-queue of every user account and denom is kept by an
      end-of-block, and the queue afterwards is the queue before without the matured buckets;
    * `endBlocker_never_debits_pool` (C12): the rewards pool's balance of every denom does not fall in an end-of-block;
    * `other_users_untouched` (C04): a user operation leaves every other user's balances where they were;
    * `hop_blocked` (C15): no successful redelegation out of a validator while an entry into it is queued,
  with the theorems' own definitions (`owedAll`, `IsUser`, `bankBalance`), on the observed pre- and post-state.
-/
import AllianceProofs.ScopeCheck
import AllianceProofs.Conserve
import AllianceProofs.PoolUp
import AllianceProofs.OtherUsers
import AllianceProofs.InvCheck
import AllianceProofs.Settles
import AllianceProofs.RestartAll
namespace Alliance

instance (u : Acct) : Decidable (IsUser u) := by unfold IsUser; exact inferInstance

/-- the (account, denom) pairs a state mentions: bank rows and pending unbonding entries -/
def moneyKeys (w : World) : List (Acct × Denom) :=
  w.bank.map (·.1) ++ w.undelQueue.flatMap (fun b => b.2.map (fun e => (e.del, e.denom)))

def actorOf : Op → Option Acct
  | .delegate a .. | .undelegate a .. | .redelegate a .. | .claim a .. => some a
  | _ => none

def theoremCheckMoney (op : Op) (oracleNonneg : Bool) (pre post : World) : List (String × String) :=
  let keys := (moneyKeys pre ++ moneyKeys post).eraseDups
  match op with
  | .endBlock =>
    (if decide (QSorted pre) then
      (keys.filter (fun k => decide (IsUser k.1))).flatMap (fun k =>
        if bankBalance post k.1 k.2 + owedAll k.1 k.2 post = bankBalance pre k.1 k.2 + owedAll k.1 k.2 pre then []
        else [("theorem.C02", s!"endBlocker_conserves_claim: balance+owed of {k.1}/{k.2} changed " ++
              s!"{bankBalance pre k.1 k.2 + owedAll k.1 k.2 pre} -> {bankBalance post k.1 k.2 + owedAll k.1 k.2 post}")]) ++
      (if post.undelQueue = pre.undelQueue.filter (fun b => !decide (b.1.1 < pre.time)) then []
       else [("theorem.C02", "endBlocker_conserves_claim: the queue after the block is not the queue before without the matured buckets")])
     else []) ++
    (if oracleNonneg && pre.undelQueue.all (fun p => p.2.all (fun e => e.del != accPool)) then
      (keys.map (·.2)).eraseDups.flatMap (fun d =>
        if bankBalance pre accPool d ≤ bankBalance post accPool d then []
        else [("theorem.C12", s!"endBlocker_never_debits_pool: pool balance of {d} fell " ++
              s!"{bankBalance pre accPool d} -> {bankBalance post accPool d}")])
     else [])
  | _ =>
    (match actorOf op with
    | some a =>
      (keys.filter (fun k => decide (IsUser k.1) && k.1 != a)).flatMap (fun k =>
        if bankBalance post k.1 k.2 = bankBalance pre k.1 k.2 then []
        else [("theorem.C04", s!"other_users_untouched: balance of {k.1}/{k.2} changed by an operation of {a}")])
    | none => []) ++
    -- `hop_blocked` (C15): an observed successful redelegation out of `src` had no queued entry of that delegator and denom into `src`
    (match op with
     | .redelegate del src _ d _ =>
       if decide (RX pre) && pre.redelQueue.any (fun b => b.2.any (fun r => r.del == del && r.dst == src && r.denom == d)) then
         [("theorem.C15", s!"hop_blocked: redelegation of {d} out of {src} by {del} succeeded while an entry into {src} is queued")]
       else []
     | _ => [])

instance (w : World) (v : ValId) : Decidable (ModDelegates w v) := by unfold ModDelegates; exact inferInstance

/-- `Settles.lean` (C13) instantiated on an observed successful user operation: for a started asset, the distribution
    responses the real module consumed in this step are exactly those of the validators involved that the module account
    delegates to, in order (claim / delegate / undelegate: the validator; redelegate: source, then destination) -/
def theoremCheckSettles (op : Op) (wd : List (ValId × Coins)) (pre : World) : List (String × String) :=
  let started (d : Denom) : Bool := match getAsset pre d with
    | some a => rewardsStarted a pre.time
    | none => false
  let expect (vs : List ValId) : List ValId := vs.filter (fun v => decide (ModDelegates pre v))
  let check (d : Denom) (vs : List ValId) (all : Bool) : List (String × String) :=
    if started d && (all || vs.all (fun v => decide (ModDelegates pre v))) then
      if wd.map (·.1) = expect vs then []
      else [("theorem.C13", s!"settles: the step consumed the responses of validators {wd.map (·.1)}, the theorem says {expect vs}")]
    else []
  match op with
  | .claim _ v (some d) => check d [v] false
  | .delegate _ v d _ => check d [v] false
  | .undelegate _ v d _ => check d [v] false
  | .redelegate _ s t d _ => check d [s, t] false
  | _ => []

instance (w : World) : Decidable (Stores w) :=
  decidable_of_iff
    (AL.SortedBy natKeyOrder w.assets ∧ (∀ p ∈ w.assets, p.2.denom = p.1) ∧ AL.SortedBy natKeyOrder w.vals ∧
      AL.SortedBy delKeyOrder w.dels ∧ (∀ p ∈ w.dels, p.1 = (p.2.del, p.2.val, p.2.denom)) ∧ AL.SortedBy delKeyOrder w.snaps)
    ⟨fun ⟨a, b, c, d, e, f⟩ => ⟨a, b, c, d, e, f⟩,
     fun h => ⟨h.asorted, h.akeyed, h.vsorted, h.dsorted, h.dkeyed, h.ssorted⟩⟩

instance (w : World) : Decidable (RK w) := by unfold RK; exact inferInstance

/-- `KeepStores.step` / `KeepRK.step` on an observed step (whatever its outcome): the record stores of the real module are
    sorted and keyed before and after -/
def theoremCheckStores (pre post : World) : List (String × String) :=
  (if decide (Stores pre) then (if decide (Stores post) then [] else [("theorem.STORES", "KeepStores.step: a record store is unsorted or a record sits under a foreign key on the post-state")])
   else [("theorem.STORES", "reach_restart_ok: a record store is unsorted or a record sits under a foreign key on the observed pre-state")]) ++
  (if decide (RK pre) then (if decide (RK post) then [] else [("theorem.STORES", "KeepRK.step: a redelegation record sits under a foreign key on the post-state")])
   else [("theorem.STORES", "reach_restart_ok: a redelegation record sits under a foreign key on the observed pre-state")])

end Alliance
