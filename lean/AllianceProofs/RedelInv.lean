/-
  RedelInv.lean — INV-R: the three redelegation stores agree. Every queued redelegation entry has its record (keyed by
  delegator, denom, destination, completion — what `HasRedelegation` scans) and its per-source index key; every record and
  every index key has a queued entry that will erase it when it matures. List-level invariant and its two writers.
-/
import AllianceProofs.IndexInv
import AllianceProofs.SetLemmas
set_option linter.unusedVariables false
namespace Alliance
open Dec

/-- record keys (delegator, denom, destination, completion) -/
def redelKeyOrder : KeyOrder (Nat × Nat × Nat × Int) :=
  prodKeyOrder natKeyOrder (prodKeyOrder natKeyOrder (prodKeyOrder natKeyOrder intKeyOrder compare_nat_eq) compare_nat_eq) compare_nat_eq

/-- index keys (source, completion, denom, destination, delegator) -/
def redelIdxOrder : KeyOrder (Nat × Int × Nat × Nat × Nat) :=
  prodKeyOrder natKeyOrder (prodKeyOrder intKeyOrder (prodKeyOrder natKeyOrder (prodKeyOrder natKeyOrder natKeyOrder compare_nat_eq)
    compare_nat_eq) compare_int_eq) compare_nat_eq

def redelKeyOf (t : Time) (r : Redel) : RedelKey := (r.del, r.denom, r.dst, t)
def redelIdxOf (t : Time) (r : Redel) : RedelIdxKey := (r.src, t, r.denom, r.dst, r.del)

structure RdOK (rs : List (RedelKey × Redel)) (q : List (Time × List Redel)) (ix : List RedelIdxKey) : Prop where
  rsorted : AL.SortedBy redelKeyOrder rs
  qsorted : AL.SortedBy intKeyOrder q
  isorted : SortedK redelIdxOrder ix
  q_rec : ∀ p ∈ q, ∀ r ∈ p.2, (∃ x, AL.get rs (redelKeyOf p.1 r) = some x) ∧ redelIdxOf p.1 r ∈ ix
  rec_q : ∀ p ∈ rs, ∃ es, AL.get q p.1.2.2.2 = some es ∧ ∃ r ∈ es, redelKeyOf p.1.2.2.2 r = p.1
  idx_q : ∀ k ∈ ix, ∃ es, AL.get q k.2.1 = some es ∧ ∃ r ∈ es, redelIdxOf k.2.1 r = k

/-- the bucket write of `queueRedelegation`: whatever a bucket held, it still holds -/
theorem bucket_append_keeps (q : List (Time × List Redel)) (t : Time) (r0 : Redel) (t' : Time) (es : List Redel)
    (h : AL.get q t' = some es) :
    ∃ es', AL.get (AL.set q t ((AL.get q t).getD [] ++ [r0])) t' = some es' ∧ ∀ r ∈ es, r ∈ es' := by
  by_cases ht : t' = t
  · subst ht
    rw [AL.get_set_eq, h]
    exact ⟨_, rfl, fun r hr => List.mem_append_left _ hr⟩
  · rw [AL.get_set_ne _ _ _ _ ht]
    exact ⟨es, h, fun r hr => hr⟩

theorem get_set_exists {κ α : Type} [DecidableEq κ] [Ord κ] (l : List (κ × α)) (k : κ) (v : α) (k' : κ)
    (h : ∃ x, AL.get l k' = some x) : ∃ x, AL.get (AL.set l k v) k' = some x := by
  by_cases hk : k' = k
  · subst hk; exact ⟨v, AL.get_set_eq _ _ _⟩
  · rw [AL.get_set_ne _ _ _ _ hk]; exact h

/-- `addRedelegation` + `queueRedelegation` -/
theorem RdOK.add {rs q ix} (h : RdOK rs q ix) (del : Acct) (src dst : ValId) (d : Denom) (amt : Int) (t : Time) (rec' : Redel) :
    RdOK (AL.set rs (del, d, dst, t) rec')
      (AL.set q t ((AL.get q t).getD [] ++ [{ del := del, src := src, dst := dst, denom := d, amount := amt }]))
      (setInsert ix (src, t, d, dst, del)) := by
  refine ⟨AL.set_sorted _ _ _ _ h.rsorted, AL.set_sorted _ _ _ _ h.qsorted, setInsert_sorted _ _ _ h.isorted, ?_, ?_, ?_⟩
  · intro p hp r hr
    have old : ∀ (t' : Time) (r : Redel), (∃ es, AL.get q t' = some es ∧ r ∈ es) →
        (∃ x, AL.get (AL.set rs (del, d, dst, t) rec') (redelKeyOf t' r) = some x) ∧
        redelIdxOf t' r ∈ setInsert ix (src, t, d, dst, del) := by
      intro t' r ⟨es, hes, hr⟩
      obtain ⟨a, b⟩ := h.q_rec (t', es) (AL.get_some_mem _ _ _ hes) r hr
      exact ⟨get_set_exists _ _ _ _ a, mem_setInsert_of_mem _ _ _ b⟩
    rcases AL.mem_set _ _ _ _ hp with hnew | hold
    · rw [hnew] at hr ⊢
      simp only at hr ⊢
      rcases List.mem_append.mp hr with hr | hr
      · cases hg : AL.get q t with
        | none => rw [hg] at hr; simp [Option.getD] at hr
        | some es => rw [hg] at hr; exact old t r ⟨es, hg, hr⟩
      · have := List.mem_singleton.mp hr
        subst this
        exact ⟨⟨rec', AL.get_set_eq _ _ _⟩, mem_setInsert_self _ _⟩
    · exact old p.1 r ⟨p.2, AL.mem_get intKeyOrder q p h.qsorted hold, hr⟩
  · intro p hp
    rcases AL.mem_set _ _ _ _ hp with hnew | hold
    · rw [hnew]
      exact ⟨_, AL.get_set_eq _ _ _, _, List.mem_append_right _ (List.mem_singleton.mpr rfl), rfl⟩
    · obtain ⟨es, hes, r, hr, hk⟩ := h.rec_q p hold
      obtain ⟨es', hes', hsub⟩ := bucket_append_keeps q t { del := del, src := src, dst := dst, denom := d, amount := amt } _ es hes
      exact ⟨es', hes', r, hsub r hr, hk⟩
  · intro k hk
    rcases mem_of_mem_setInsert _ _ _ hk with hnew | hold
    · rw [hnew]
      exact ⟨_, AL.get_set_eq _ _ _, _, List.mem_append_right _ (List.mem_singleton.mpr rfl), rfl⟩
    · obtain ⟨es, hes, r, hr, hk'⟩ := h.idx_q k hold
      obtain ⟨es', hes', hsub⟩ := bucket_append_keeps q t { del := del, src := src, dst := dst, denom := d, amount := amt } _ es hes
      exact ⟨es', hes', r, hsub r hr, hk'⟩

/-! ### erasing a list of keys from a sorted association list -/

theorem AL.mem_erase_of_ne' {κ α : Type} [DecidableEq κ] [Ord κ] (l : List (κ × α)) (k : κ) (p : κ × α) (hp : p ∈ l) (hne : p.1 ≠ k) :
    p ∈ AL.erase l k := by
  induction l with
  | nil => cases hp
  | cons hd t ih =>
    obtain ⟨k', v'⟩ := hd
    show p ∈ (if k = k' then t else (k', v') :: AL.erase t k)
    by_cases h : k = k'
    · simp only [h, if_true]
      rcases List.mem_cons.mp hp with e | e
      · exfalso; rw [e] at hne; exact hne h.symm
      · exact e
    · simp only [h, if_false]
      rcases List.mem_cons.mp hp with e | e
      · rw [e]; exact List.mem_cons_self ..
      · exact List.mem_cons_of_mem _ (ih e)

theorem AL.foldl_erase_sorted {κ α : Type} [DecidableEq κ] [Ord κ] (o : KeyOrder κ) (ks : List κ) (l : List (κ × α))
    (hs : AL.SortedBy o l) : AL.SortedBy o (ks.foldl AL.erase l) := by
  induction ks generalizing l with
  | nil => exact hs
  | cons k t ih => exact ih _ (AL.erase_sorted o l k hs)

theorem AL.mem_of_mem_foldl_erase {κ α : Type} [DecidableEq κ] [Ord κ] (ks : List κ) (l : List (κ × α)) (p : κ × α)
    (hp : p ∈ ks.foldl AL.erase l) : p ∈ l := by
  induction ks generalizing l with
  | nil => exact hp
  | cons k t ih => exact AL.mem_erase _ _ _ (ih _ hp)

theorem AL.key_not_mem_of_mem_foldl_erase {κ α : Type} [DecidableEq κ] [Ord κ] (o : KeyOrder κ) (ks : List κ) (l : List (κ × α))
    (hs : AL.SortedBy o l) (p : κ × α) (hp : p ∈ ks.foldl AL.erase l) : p.1 ∉ ks := by
  induction ks generalizing l with
  | nil => exact List.not_mem_nil
  | cons k t ih =>
    intro hm
    rcases List.mem_cons.mp hm with e | e
    · have := AL.mem_of_mem_foldl_erase t _ p hp
      exact AL.mem_erase_key_ne o l k p hs this e
    · exact ih _ (AL.erase_sorted o l k hs) hp e

theorem AL.mem_foldl_erase_of {κ α : Type} [DecidableEq κ] [Ord κ] (ks : List κ) (l : List (κ × α)) (p : κ × α)
    (hp : p ∈ l) (hn : p.1 ∉ ks) : p ∈ ks.foldl AL.erase l := by
  induction ks generalizing l with
  | nil => exact hp
  | cons k t ih =>
    have hne : p.1 ≠ k := fun e => hn (by rw [e]; exact List.mem_cons_self ..)
    exact ih _ (AL.mem_erase_of_ne' l k p hp hne) (fun h => hn (List.mem_cons_of_mem _ h))

theorem foldl_erase_sortedK {κ : Type} [DecidableEq κ] [Ord κ] [BEq κ] [LawfulBEq κ] (o : KeyOrder κ) (ks ix : List κ)
    (hs : SortedK o ix) : SortedK o (ks.foldl List.erase ix) := by
  induction ks generalizing ix with
  | nil => exact hs
  | cons k t ih => exact ih _ (erase_sortedK o ix k hs)

/-- the record keys and index keys that the matured buckets erase -/
def maturedR (now : Time) (q : List (Time × List Redel)) : List (Time × List Redel) := q.filter fun p => decide (p.1 < now)
def keysR (ms : List (Time × List Redel)) : List RedelKey := ms.flatMap fun p => p.2.map (redelKeyOf p.1)
def keysI (ms : List (Time × List Redel)) : List RedelIdxKey := ms.flatMap fun p => p.2.map (redelIdxOf p.1)

theorem keysR_time (now : Time) (q : List (Time × List Redel)) (k : RedelKey) (hk : k ∈ keysR (maturedR now q)) :
    k.2.2.2 < now ∧ ∃ p ∈ q, ∃ r ∈ p.2, p.1 < now ∧ redelKeyOf p.1 r = k := by
  unfold keysR maturedR at hk
  simp only [List.mem_flatMap, List.mem_filter, List.mem_map, decide_eq_true_eq] at hk
  obtain ⟨p, ⟨hp, hlt⟩, r, hr, e⟩ := hk
  refine ⟨by rw [← e]; exact hlt, p, hp, r, hr, hlt, e⟩

theorem keysI_time (now : Time) (q : List (Time × List Redel)) (k : RedelIdxKey) (hk : k ∈ keysI (maturedR now q)) :
    k.2.1 < now := by
  unfold keysI maturedR at hk
  simp only [List.mem_flatMap, List.mem_filter, List.mem_map, decide_eq_true_eq] at hk
  obtain ⟨p, ⟨hp, hlt⟩, r, hr, e⟩ := hk
  rw [← e]; exact hlt

/-- `CompleteRedelegations` at block time `now`: the matured buckets leave the queue and take their records and index
    keys with them — the agreement is kept, and nothing that matured is left in any of the three stores -/
theorem RdOK.complete {rs q ix} (h : RdOK rs q ix) (now : Time) :
    RdOK ((keysR (maturedR now q)).foldl AL.erase rs) (q.filter fun p => !decide (p.1 < now))
      ((keysI (maturedR now q)).foldl List.erase ix) ∧
    (∀ p ∈ (keysR (maturedR now q)).foldl AL.erase rs, ¬ p.1.2.2.2 < now) ∧
    (∀ k ∈ (keysI (maturedR now q)).foldl List.erase ix, ¬ k.2.1 < now) := by
  have hq' : AL.SortedBy intKeyOrder (q.filter fun p => !decide (p.1 < now)) := by
    unfold AL.SortedBy at *; exact h.qsorted.filter _
  have hrs' := AL.foldl_erase_sorted redelKeyOrder (keysR (maturedR now q)) rs h.rsorted
  -- a record that survives has not matured
  have rec_time : ∀ p ∈ (keysR (maturedR now q)).foldl AL.erase rs, ¬ p.1.2.2.2 < now := by
    intro p hp hlt
    have hin := AL.mem_of_mem_foldl_erase _ _ p hp
    have hnk := AL.key_not_mem_of_mem_foldl_erase redelKeyOrder _ rs h.rsorted p hp
    obtain ⟨es, hes, r, hr, hk⟩ := h.rec_q p hin
    apply hnk
    unfold keysR maturedR
    simp only [List.mem_flatMap, List.mem_filter, List.mem_map, decide_eq_true_eq]
    exact ⟨(p.1.2.2.2, es), ⟨AL.get_some_mem _ _ _ hes, hlt⟩, r, hr, hk⟩
  have idx_time : ∀ k ∈ (keysI (maturedR now q)).foldl List.erase ix, ¬ k.2.1 < now := by
    intro k hk hlt
    have hin := (foldl_erase_sublist _ ix).subset hk
    obtain ⟨es, hes, r, hr, hk'⟩ := h.idx_q k hin
    have : k ∈ keysI (maturedR now q) := by
      unfold keysI maturedR
      simp only [List.mem_flatMap, List.mem_filter, List.mem_map, decide_eq_true_eq]
      exact ⟨(k.2.1, es), ⟨AL.get_some_mem _ _ _ hes, hlt⟩, r, hr, hk'⟩
    exact not_mem_foldl_erase redelIdxOrder _ ix h.isorted k this hk
  -- an unmatured bucket is still there, whole
  have keep : ∀ t es, AL.get q t = some es → ¬ t < now → AL.get (q.filter fun p => !decide (p.1 < now)) t = some es := by
    intro t es hes hnl
    have hm : (t, es) ∈ q.filter fun p => !decide (p.1 < now) := by
      simp only [List.mem_filter, Bool.not_eq_eq_eq_not, Bool.not_true, decide_eq_false_iff_not]
      exact ⟨AL.get_some_mem _ _ _ hes, hnl⟩
    exact AL.mem_get intKeyOrder _ (t, es) hq' hm
  refine ⟨⟨hrs', hq', foldl_erase_sortedK _ _ _ h.isorted, ?_, ?_, ?_⟩, rec_time, idx_time⟩
  · intro p hp r hr
    simp only [List.mem_filter, Bool.not_eq_eq_eq_not, Bool.not_true, decide_eq_false_iff_not] at hp
    obtain ⟨⟨x, hx⟩, hi⟩ := h.q_rec p hp.1 r hr
    constructor
    · refine ⟨x, AL.mem_get redelKeyOrder _ (redelKeyOf p.1 r, x) hrs' ?_⟩
      apply AL.mem_foldl_erase_of _ _ _ (AL.get_some_mem _ _ _ hx)
      intro hk
      exact hp.2 (keysR_time now q _ hk).1
    · apply mem_foldl_erase _ _ _ hi
      intro hk
      exact hp.2 (keysI_time now q _ hk)
  · intro p hp
    obtain ⟨es, hes, r, hr, hk⟩ := h.rec_q p (AL.mem_of_mem_foldl_erase _ _ p hp)
    exact ⟨es, keep _ es hes (rec_time p hp), r, hr, hk⟩
  · intro k hk
    obtain ⟨es, hes, r, hr, hk'⟩ := h.idx_q k ((foldl_erase_sublist _ ix).subset hk)
    exact ⟨es, keep _ es hes (idx_time k hk), r, hr, hk'⟩

end Alliance
