/-
  RebalanceFrame.lean — C10: "unbonded or jailed validators are neither counted nor adjusted". `RebalanceBondTokenWeights`
  reads every validator once (the snapshot), and afterwards delegates to / unbonds from only the validators whose snapshot
  says bonded: the x/staking record of any other validator is the same before and after.
-/
import AllianceProofs.ShareLedger
import AllianceProofs.FrameStaking
import AllianceProofs.RedelHistory
import AllianceModel.EndBlock
set_option linter.unusedVariables false
namespace Alliance
open Dec

/-- the x/staking record of validator `u` is `x` -/
def SAt (u : ValId) (x : Option SVal) (w : World) : Prop := getSVal w u = x

theorem SAt.frame {α} {u : ValId} {x : Option SVal} {m : M α} (h : FrameStaking.Fr m) :
    Hoare (SAt u x) m (fun _ w => SAt u x w) := by
  constructor
  intro w w' a hm hw
  have hf : FrameStaking.π w' = FrameStaking.π w := by have := h.frame w; rw [hm] at this; exact this
  simp only [FrameStaking.π, Prod.mk.injEq] at hf
  unfold SAt getSVal at *; rw [hf.1]; exact hw

macro "s_frame" : tactic => `(tactic| (apply SAt.frame; first | exact FrameStaking.liftE _ | exact FrameStaking.pure _ | exact FrameStaking.guardE _ _ | exact FrameStaking.guardP _ _ | (simp only [sframe]; done)))

theorem setSVal_sat (u v : ValId) (x : Option SVal) (sv : SVal) (hne : v ≠ u) :
    Hoare (SAt u x) (setSVal v sv) (fun _ w => SAt u x w) := by
  unfold setSVal
  refine Hoare.modifyW _ (fun w hw => ?_)
  unfold SAt getSVal at *
  simp only
  rw [AL.get_set_ne _ _ _ _ (fun e => hne e.symm)]
  exact hw

theorem stakingDelegate_sat (u v : ValId) (x : Option SVal) (snap : SVal) (amt : Int) (hne : v ≠ u) :
    Hoare (SAt u x) (stakingDelegate v snap amt) (fun _ w => SAt u x w) := by
  unfold stakingDelegate
  apply Hoare.bind (by s_frame); intro _
  apply Hoare.getW_bind; intro w0 hP
  apply Hoare.at_state hP
  try dsimp only []
  apply Hoare.bind (Q := fun _ w => SAt u x w)
  · split
    · s_frame
    · s_frame
  · intro _
    apply Hoare.bind (by s_frame); intro _
    apply Hoare.getW_bind; intro w1 hP1
    apply Hoare.at_state hP1
    try dsimp only []
    apply Hoare.ite
    · intro _
      apply Hoare.bind (setSVal_sat u v x _ hne); intro _
      exact Hoare.panicE _
    · intro _
      apply Hoare.bind (setSVal_sat u v x _ hne); intro _
      s_frame

theorem stakingUnbond_sat (u v : ValId) (x : Option SVal) (shares : Dec) (hne : v ≠ u) :
    Hoare (SAt u x) (stakingUnbond v shares) (fun _ w => SAt u x w) := by
  unfold stakingUnbond
  apply Hoare.getW_bind; intro w0 hP
  apply Hoare.at_state hP
  rcases h1 : getSVal w0 v with _ | sv
  · exact Hoare.throwE _
  · dsimp only []
    rcases h2 : sv.modShares with _ | ds
    · exact Hoare.throwE _
    · dsimp only []
      apply Hoare.bind (by s_frame); intro _
      apply Hoare.bind (by s_frame); intro _
      try dsimp only []
      apply Hoare.bind (by s_frame); intro _
      apply Hoare.bind (by s_frame); intro _
      apply Hoare.bind (setSVal_sat u v x _ hne); intro _
      exact Hoare.pure _ (fun w h => h)

theorem getAllianceValidator_sval (S : Staking) (v : ValId) :
    Hoare (fun w => w.staking = S) (getAllianceValidator v)
      (fun r w => w.staking = S ∧ r.id = v ∧ AL.get S.vals v = some r.sval) := by
  unfold getAllianceValidator
  apply Hoare.getW_bind; intro w0 hP
  rcases h1 : AL.get w0.staking.vals v with _ | sv
  · exact Hoare.throwE _
  · dsimp only []
    have hS : AL.get S.vals v = some sv := by rw [← hP]; exact h1
    rcases h2 : AL.get w0.vals v with _ | info
    · dsimp only []
      apply Hoare.bind (R := fun _ w => w.staking = S)
      · unfold setValInfo
        exact Hoare.modifyW _ (fun w e => by subst e; exact hP)
      · intro _
        exact Hoare.pure _ (fun w h => ⟨h, rfl, hS⟩)
    · exact Hoare.pure _ (fun w e => by subst e; exact ⟨hP, rfl, hS⟩)

/-- C10: a validator that x/staking does not report as bonded when the rebalancing starts keeps its x/staking record
    (tokens, shares, the module's delegation) through the whole rebalancing, whatever the assets, weights and stakes -/
theorem rebalance_leaves_unbonded_alone (assets : List Asset) (u : ValId) (w0 w' : World)
    (hu : ∀ sv, getSVal w0 u = some sv → sv.isBonded = false)
    (h : rebalanceBondTokenWeights assets w0 = (.ok (), w')) : getSVal w' u = getSVal w0 u := by
  have key : Hoare (fun w => w = w0) (rebalanceBondTokenWeights assets) (fun _ w => SAt u (getSVal w0 u) w) := by
    unfold rebalanceBondTokenWeights
    apply Hoare.getW_bind; intro w1 hP1
    subst hP1
    try dsimp only []
    apply Hoare.bind (R := fun (snaps : List AVal) w => SAt u (getSVal w1 u) w ∧ ∀ val ∈ snaps, getSVal w1 val.id = some val.sval)
    · refine Hoare.conseq (P' := fun w => w.staking = w1.staking ∧ ∀ val ∈ ([] : List AVal), getSVal w1 val.id = some val.sval)
        (Q' := fun (snaps : List AVal) w => w.staking = w1.staking ∧ ∀ val ∈ snaps, getSVal w1 val.id = some val.sval) ?_
        (fun w e => by subst e; exact ⟨rfl, fun val hv => absurd hv List.not_mem_nil⟩)
        (fun snaps w q => ⟨by unfold SAt getSVal; rw [q.1], q.2⟩)
      apply Hoare.foldlM (R := fun (s : List AVal) w => w.staking = w1.staking ∧ ∀ val ∈ s, getSVal w1 val.id = some val.sval)
      intro acc v _
      apply Hoare.bind (R := fun (r : AVal) w => (w.staking = w1.staking ∧ r.id = v ∧ AL.get w1.staking.vals v = some r.sval) ∧
          ∀ val ∈ acc, getSVal w1 val.id = some val.sval)
      · constructor
        intro w w2 r hm hw
        exact ⟨(getAllianceValidator_sval w1.staking v).run w w2 r hm hw.1, hw.2⟩
      · intro val
        refine Hoare.pure _ (fun w hq => ⟨hq.1.1, ?_⟩)
        intro x hx
        rcases List.mem_append.mp hx with hx | hx
        · exact hq.2 x hx
        · have := List.mem_singleton.mp hx
          subst this
          unfold getSVal; rw [hq.1.2.1]; exact hq.1.2.2
    · intro snaps
      -- every validator the loop touches is bonded in its snapshot, hence is not `u`
      by_cases hall : ∀ val ∈ snaps, getSVal w1 val.id = some val.sval
      · refine Hoare.conseq (P' := fun w => SAt u (getSVal w1 u) w) (Q' := fun _ w => SAt u (getSVal w1 u) w) ?_
          (fun w q => q.1) (fun _ _ q => q)
        apply Hoare.forEachM
        intro validator hv
        have hv' := List.mem_filter.mp hv
        have hne : validator.id ≠ u := by
          intro e
          have := hall validator hv'.1
          rw [e] at this
          have := hu _ this
          rw [this] at hv'
          exact absurd hv'.2 (by simp)
        apply Hoare.getW_bind; intro w2 hP2
        apply Hoare.at_state hP2
        try dsimp only []
        apply Hoare.bind (R := fun _ w => SAt u (getSVal w1 u) w)
        · apply Hoare.foldlM (R := fun _ w => SAt u (getSVal w1 u) w)
          intro acc a _
          apply Hoare.ite
          · intro _
            apply Hoare.bind (by s_frame); intro _
            exact Hoare.pure _ (fun w h => h)
          · intro _
            try dsimp only []
            apply Hoare.ite <;> (intro _; exact Hoare.pure _ (fun w h => h))
        · intro expected
          apply Hoare.ite
          · intro _
            try dsimp only []
            apply Hoare.ite
            · intro _; exact Hoare.pure _ (fun w h => h)
            · intro _
              apply Hoare.bind (by s_frame); intro _
              apply Hoare.bind (R := fun (r : AVal) w => SAt u (getSVal w1 u) w ∧ r.id = validator.id)
              · exact (Hoare.and (SAt.frame (by simp only [sframe])) (claimValidatorRewards_id validator)).conseq
                  (fun w h => ⟨h, trivial⟩) (fun _ _ q => q)
              · intro val2
                by_cases hid : val2.id = validator.id
                · refine (stakingDelegate_sat u val2.id _ val2.sval _ (by rw [hid]; exact hne)).conseq (fun w h => h.1) (fun _ _ q => q)
                · exact ⟨fun w w' b hm hw => absurd hw.2 hid⟩
          · intro _
            apply Hoare.ite
            · intro _
              try dsimp only []
              apply Hoare.ite
              · intro _; exact Hoare.pure _ (fun w h => h)
              · intro _
                apply Hoare.bind (by s_frame); intro _
                apply Hoare.bind (by s_frame); intro _
                apply Hoare.bind (stakingUnbond_sat u validator.id _ _ hne); intro tok
                s_frame
            · intro _; exact Hoare.pure _ (fun w h => h)
      · exact ⟨fun w w' b hm hw => absurd hw.2 hall⟩
  exact key.run w0 w' () h rfl

end Alliance
