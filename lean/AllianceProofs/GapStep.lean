/-
  GapStep.lean — the custody accounting judgment for the staking-facing code (rebalancing, mint/burn of the bond denom),
  the governance handlers and the hooks; `GapH`, the Hoare form used to thread the end-of-block asset list.
-/
import AllianceProofs.GapOps
import AllianceModel.Msg
set_option linter.unusedVariables false
namespace Alliance
open Dec

/-- a balance write in another denom does not touch the custody of `d` -/
theorem setBalance_other_gapT (a : Acct) (db : Denom) (x : Int) (d : Denom) (t : Int) (hd : d ≠ db) :
    GapT d t t 0 (setBalance a db x) := by
  constructor
  intro w w' u hm hg hs
  have hO := (FrameGood.setBalance a db x).frame w
  rw [hm] at hO
  have hO' := hO
  simp only [FrameGood.π, Prod.mk.injEq] at hO'
  obtain ⟨ha, hq, _, _⟩ := hO'
  have hc : custody w' d = custody w d := by
    have : w' = (setBalance a db x w).2 := by rw [hm]
    unfold custody
    rw [this, bal_setBalance]
    have : (accModule, d) ≠ (a, db) := by intro he; injection he with _ h3; exact hd h3
    simp [this]
  refine ⟨?_, Good.of_proj hO hg, by rw [staked_of_assets_eq ha d]; exact hs⟩
  unfold gap
  rw [hc, staked_of_assets_eq ha d, pending_of_queue_eq hq d]
  omega

theorem mintCoin_gapT (a : Acct) (db : Denom) (x : Int) (d : Denom) (t : Int) (hd : d ≠ db) :
    GapT d t t 0 (mintCoin a db x) := by
  unfold mintCoin
  apply GapT.getW_bind; intro w0 _ _
  apply GapT.bind0 (setBalance_other_gapT _ _ _ d t hd); intro _
  apply GapT.ofFrame; apply FrameG.modifyW; intro w; rfl

theorem burnCoin_gapT (a : Acct) (db : Denom) (x : Int) (d : Denom) (t : Int) (hd : d ≠ db) :
    GapT d t t 0 (burnCoin a db x) := by
  unfold burnCoin
  apply GapT.getW_bind; intro w0 _ _
  try dsimp only []
  apply GapT.bind0 (by gt_frame); intro _
  apply GapT.bind0 (setBalance_other_gapT _ _ _ d t hd); intro _
  apply GapT.ofFrame; apply FrameG.modifyW; intro w; rfl

/-- the distribution hook pays the module's pending staking rewards into custody -/
theorem distrHookWithdraw_gapT (v : ValId) (d : Denom) (t : Int) : GapT d t t 0 (distrHookWithdraw v) := by
  unfold distrHookWithdraw
  apply GapT.bindP (t1 := t) (P := Coins.Nonneg) (δ1 := fun cs => Coins.sumOf cs d)
  · intro w w' cs h hg hs
    obtain ⟨a1, a2, a3, a4⟩ := withdrawRewards_spec v d w w' cs h hg
    exact ⟨a1, a2, by omega, a4⟩
  · intro cs hnn
    have h0 := Coins.sumOf_nonneg cs hnn d
    exact (GapT.pure ()).cast rfl (by omega)

theorem sendCoins_other_gapT (src dst : Acct) (db : Denom) (x : Int) (d : Denom) (t : Int) (hd : d ≠ db) :
    GapT d t t 0 (sendCoins src dst (Coins.single db x)) := by
  refine (sendCoins_gapT src dst (Coins.single db x) d t).cast rfl ?_
  rw [Coins.sumOf_single]
  have : ¬ db = d := fun e => hd e.symm
  simp only [this, if_false]
  split <;> split <;> omega

theorem stakingDelegate_gapT (v : ValId) (snap : SVal) (amt : Int) (d : Denom) (t : Int) :
    GapT d t t 0 (stakingDelegate v snap amt) := by
  unfold stakingDelegate
  apply GapT.bind0 (by gt_frame); intro _
  apply GapT.getW_bind; intro w0 hg0 _
  try dsimp only []
  apply GapT.bind0
  · split
    · exact distrHookWithdraw_gapT v d t
    · exact GapT.pure ()
  · intro _
    apply GapT.bind0 (sendCoins_other_gapT _ _ _ _ d t hg0.notBond); intro _
    apply GapT.getW_bind; intro w1 _ _
    try dsimp only []
    apply GapT.ite
    · intro _
      apply GapT.bind0 (by gt_frame); intro _
      exact GapT.panicE _
    · intro _
      apply GapT.bind0 (by gt_frame); intro _
      gt_frame

theorem stakingUnbond_gapT (v : ValId) (shares : Dec) (d : Denom) (t : Int) :
    GapT d t t 0 (stakingUnbond v shares) := by
  unfold stakingUnbond
  apply GapT.getW_bind; intro w0 hg0 _
  split
  · exact GapT.throwE _
  · split
    · exact GapT.throwE _
    · apply GapT.bind0 (distrHookWithdraw_gapT v d t); intro _
      apply GapT.bind0 (by gt_frame); intro _
      try dsimp only []
      apply GapT.bind0 (by gt_frame); intro _
      apply GapT.bind0 (GapT.ofFrame (FrameG.guardP _ _)); intro _
      apply GapT.bind0 (by gt_frame); intro _
      exact GapT.pure _

theorem rebalanceBondTokenWeights_gapT (assets : List Asset) (d : Denom) (t : Int) :
    GapT d t t 0 (rebalanceBondTokenWeights assets) := by
  unfold rebalanceBondTokenWeights
  apply GapT.getW_bind; intro w0 hg0 _
  try dsimp only []
  apply GapT.bind0
  · apply GapT.foldlM
    intro acc v _
    apply GapT.bind0 (by gt_frame); intro _
    exact GapT.pure _
  · intro snaps
    apply GapT.forEachM
    intro validator _
    apply GapT.getW_bind; intro w1 hg1 _
    try dsimp only []
    apply GapT.bind0
    · apply GapT.foldlM
      intro acc a _
      apply GapT.ite
      · intro _
        apply GapT.bind0 (by gt_frame); intro _
        exact GapT.pure _
      · intro _
        try dsimp only []
        apply GapT.ite <;> (intro _; exact GapT.pure _)
    · intro expected
      apply GapT.ite
      · intro _
        try dsimp only []
        apply GapT.ite
        · intro _; exact GapT.pure ()
        · intro _
          apply GapT.bind0 (mintCoin_gapT _ _ _ d t hg0.notBond); intro _
          apply GapT.bind0 (claimValidatorRewards_gapT _ d t); intro _
          exact stakingDelegate_gapT _ _ _ d t
      · intro _
        apply GapT.ite
        · intro _
          try dsimp only []
          apply GapT.ite
          · intro _; exact GapT.pure ()
          · intro _
            apply GapT.bind0 (by gt_frame); intro _
            apply GapT.bind0 (claimValidatorRewards_gapT _ d t); intro _
            apply GapT.bind0 (stakingUnbond_gapT _ _ d t); intro _
            exact burnCoin_gapT _ _ _ d t hg0.notBond
        · intro _; exact GapT.pure ()

theorem rebalanceHook_gapT (assets : List Asset) (d : Denom) (t : Int) : GapT d t t 0 (rebalanceHook assets) := by
  unfold rebalanceHook
  apply GapT.getW_bind; intro w0 _ _
  apply GapT.ite
  · intro _
    apply GapT.bind0
    · apply GapT.ofFrame; apply FrameG.modifyW; intro w; rfl
    · intro _; exact rebalanceBondTokenWeights_gapT assets d t
  · intro _; exact GapT.pure ()

theorem settleAllValidators_gapT (asset : Asset) (c : Bool) (vals : List (ValId × ValInfo)) (d : Denom) (t : Int) :
    GapT d t t 0 (settleAllValidators asset c vals) := by
  unfold settleAllValidators
  split
  · apply GapT.bind0
    · apply GapT.forEachM
      intro kv _
      apply GapT.bind0 (by gt_frame); intro v1
      apply GapT.bind0 (claimValidatorRewards_gapT _ d t); intro v2
      gt_frame
    · intro _; gt_frame
  · exact GapT.pure ()

theorem updateAllianceAsset_gapT (newAsset : Asset) (d : Denom) (t : Int) :
    GapT d t t 0 (updateAllianceAsset newAsset) := by
  unfold updateAllianceAsset
  apply GapT.getW_bind; intro w0 hg0 hs0
  rcases ha : getAsset w0 newAsset.denom with _ | a
  · exact GapT.throwE _
  · dsimp only []
    obtain ⟨hden, hat⟩ := asset_of_get hg0 hs0 ha
    apply GapT.bind0 (by gt_frame); intro _
    apply GapT.bind0 (settleAllValidators_gapT _ _ _ d t); intro _
    apply GapT.getW_bind; intro w1 _ _
    exact setAsset_sameT a _ d t rfl rfl (by intro e; exact hat (hden ▸ e))

theorem rewardWeightChangeHook_go_gapT (d : Denom) (t : Int) (rest acc : List Asset) :
    GapT d t t 0 (rewardWeightChangeHook.go rest acc) := by
  induction rest generalizing acc with
  | nil => unfold rewardWeightChangeHook.go; exact GapT.pure _
  | cons a r ih =>
    unfold rewardWeightChangeHook.go
    apply GapT.getW_bind; intro w0 _ _
    apply GapT.ite
    · intro _; exact ih _
    · intro _
      try dsimp only []
      split
      · apply GapT.bind0 (by gt_frame); intro _
        apply GapT.bind0 (updateAllianceAsset_gapT _ d t); intro _
        exact ih _
      · exact GapT.panicE _

theorem rewardWeightChangeHook_gapT (assets : List Asset) (d : Denom) (t : Int) :
    GapT d t t 0 (rewardWeightChangeHook assets) := by
  unfold rewardWeightChangeHook
  exact rewardWeightChangeHook_go_gapT d t assets []

end Alliance
