/-
  SplitBound.lean — C13 / C12: how exact the pro-rata split of `AddAssetsToRewardPool` is.
  A reward of `c` base units received for a validator is split among the started assets in proportion to their staked
  reward weight: asset a gets the normalised weight nw_a = Quo(srw_a, Σ srw) and its index moves by
  Quo(Mul(c, nw_a), tt_a) where tt_a is the asset's token value on the validator.  Each Quo rounds half-even, so
    * every nw_a is within (½ + 10⁻¹⁸) units of the last digit of srw_a / Σ srw          (`quo_bounds`)
    * the normalised weights sum to at most 1 + n·½·10⁻¹⁸ and at least 1 − n·(½·10⁻¹⁸ + 10⁻³⁶) (`split_weights_sum`)
    * what the index move promises to the asset's holders, bump·tt_a, is within ½·10⁻¹⁸·tt_a + ½·10⁻¹⁸ of c·nw_a
                                                                                          (`bump_promise_bound`)
  all stated without division on the raw 10¹⁸-scaled integers.
-/
import AllianceProofs.ValueError
set_option linter.unusedVariables false
namespace Alliance
open Dec

/-- one `Quo` of non-negative `a` by positive `b`: q·b is within (H+1)·b/P of a·P -/
theorem quo_bounds (a b : Dec) (ha : 0 ≤ a) (hb : 0 < b) :
    quo a b * P * b ≤ a * P2 + H * b ∧ a * P2 ≤ quo a b * P * b + (H + 1) * b := by
  let n : Int := (a * P2) / b
  have hn0 : 0 ≤ a * P2 := Int.mul_nonneg ha (by decide)
  have hq : quo a b = chopRound n := by
    unfold quo; rw [Int.tdiv_eq_ediv_of_nonneg hn0]
  have h1a : n * b ≤ a * P2 := Int.ediv_mul_le _ (by unfold Dec at *; omega)
  have h1b : a * P2 < n * b + b := by
    have := Int.lt_ediv_add_one_mul_self (a * P2) hb
    have e : ((a * P2) / b + 1) * b = n * b + b := by rw [Int.add_mul, Int.one_mul]
    rw [e] at this; exact this
  have h2 := chopRound_bounds n
  rw [hq]
  generalize chopRound n = q at h2
  have hb0 : (0 : Int) ≤ b := by unfold Dec at *; omega
  have u : q * P * b ≤ (n + H) * b := Int.mul_le_mul_of_nonneg_right h2.2 hb0
  have l : (n - H) * b ≤ q * P * b := Int.mul_le_mul_of_nonneg_right h2.1 hb0
  rw [Int.add_mul] at u
  rw [Int.sub_mul] at l
  have e : (H + 1) * b = H * b + b := by rw [Int.add_mul, Int.one_mul]
  unfold Dec at *
  constructor <;> omega

theorem quo_nonneg (a b : Dec) (ha : 0 ≤ a) (hb : 0 < b) : 0 ≤ quo a b := by
  have hn0 : 0 ≤ a * P2 := Int.mul_nonneg ha (by decide)
  unfold quo; rw [Int.tdiv_eq_ediv_of_nonneg hn0]
  exact chopRound_nonneg _ (Int.ediv_nonneg hn0 (by unfold Dec at *; omega))

/-- the normalised weights of a list of non-negative staked reward weights, against any positive divisor -/
theorem normalised_sum_bounds (l : List Dec) (total : Dec) (hl : ∀ x ∈ l, 0 ≤ x) (ht : 0 < total) :
    (l.map (fun x => quo x total)).sum * P * total ≤ l.sum * P2 + (l.length : Int) * (H * total) ∧
    l.sum * P2 ≤ (l.map (fun x => quo x total)).sum * P * total + (l.length : Int) * ((H + 1) * total) := by
  induction l with
  | nil => simp
  | cons x t ih =>
    obtain ⟨i1, i2⟩ := ih (fun y hy => hl y (List.mem_cons_of_mem _ hy))
    obtain ⟨b1, b2⟩ := quo_bounds x total (hl x (List.mem_cons_self ..)) ht
    simp only [List.map_cons, List.sum_cons, List.length_cons]
    have e1 : (quo x total + (t.map (fun x => quo x total)).sum) * P * total =
        quo x total * P * total + (t.map (fun x => quo x total)).sum * P * total := by
      rw [Int.add_mul, Int.add_mul]
    have e2 : (x + t.sum) * P2 = x * P2 + t.sum * P2 := Int.add_mul _ _ _
    have e3 : ((t.length + 1 : Nat) : Int) * (H * total) = (t.length : Int) * (H * total) + H * total := by
      rw [Int.natCast_add, Int.add_mul]; simp
    have e4 : ((t.length + 1 : Nat) : Int) * ((H + 1) * total) = (t.length : Int) * ((H + 1) * total) + (H + 1) * total := by
      rw [Int.natCast_add, Int.add_mul]; simp
    rw [e1, e2, e3, e4]
    unfold Dec at *
    constructor <;> omega

theorem foldl_add_sum {α : Type} (f : α → Int) (l : List α) (init : Int) :
    l.foldl (fun acc a => acc + f a) init = init + (l.map f).sum := by
  induction l generalizing init with
  | nil => simp
  | cons a t ih => simp only [List.foldl_cons, List.map_cons, List.sum_cons]; rw [ih]; omega

/-- C13, pro-rata: the normalised weights `Quo(srw_a, Σ srw)` of the assets a reward is split among sum to 1 to within
    n/2 units of the 18th digit: (Σ nw)·10¹⁸ ∈ [10³⁶ − n·(H+1), 10³⁶ + n·H] -/
theorem split_weights_sum (l : List Dec) (hl : ∀ x ∈ l, 0 ≤ x) (ht : 0 < l.sum) :
    (l.map (fun x => quo x l.sum)).sum * P ≤ P2 + (l.length : Int) * H ∧
    P2 ≤ (l.map (fun x => quo x l.sum)).sum * P + (l.length : Int) * (H + 1) := by
  obtain ⟨b1, b2⟩ := normalised_sum_bounds l l.sum hl ht
  generalize (l.map (fun x => quo x l.sum)).sum = S at b1 b2
  generalize l.sum = T at *
  have hT : (0 : Int) < T := ht
  constructor
  · have : S * P * T ≤ (P2 + (l.length : Int) * H) * T := by
      have e : (P2 + (l.length : Int) * H) * T = T * P2 + (l.length : Int) * (H * T) := by
        rw [Int.add_mul, Int.mul_comm P2 T, Int.mul_assoc]
      rw [e]; exact b1
    exact Int.le_of_mul_le_mul_right this hT
  · have : P2 * T ≤ (S * P + (l.length : Int) * (H + 1)) * T := by
      have e : (S * P + (l.length : Int) * (H + 1)) * T = S * P * T + (l.length : Int) * ((H + 1) * T) := by
        rw [Int.add_mul, Int.mul_assoc (l.length : Int)]
      rw [e, Int.mul_comm P2 T]; exact b2
    exact Int.le_of_mul_le_mul_right this hT

/-- C12 / C13: what one index move promises to an asset's holders.  With m = Mul(c·10¹⁸, nw) the asset's part of the
    reward and bump = Quo(m, tt) the index move for token value tt on the validator:
    bump·tt is within H·tt/P + … of m — cross-multiplied: |bump·P·tt − m·P2| ≤ (H+1)·tt -/
theorem bump_promise_bound (c : Int) (nw tt : Dec) (hc : 0 ≤ c) (hnw : 0 ≤ nw) (htt : 0 < tt) :
    let m := mul (ofInt c) nw
    let bump := quo m tt
    bump * P * tt ≤ m * P2 + H * tt ∧ m * P2 ≤ bump * P * tt + (H + 1) * tt ∧
    ofInt c * nw - H ≤ m * P ∧ m * P ≤ ofInt c * nw + H := by
  intro m bump
  have hm : 0 ≤ m := mul_nonneg _ _ (by unfold ofInt; exact Int.mul_nonneg hc (by decide)) hnw
  obtain ⟨b1, b2⟩ := quo_bounds m tt hm htt
  obtain ⟨m1, m2⟩ := mul_bounds (ofInt c) nw
  exact ⟨b1, b2, m1, m2⟩

/-- non-vacuity: three assets with staked reward weights 1, 1, 1 — each normalised weight is 0.333…, the sum is 1 − 10⁻¹⁸ -/
example : ([one, one, one].map (fun x => quo x (3 * one))).sum = P - 1 := by decide

end Alliance
