/-
  FailModesEBP.lean — C17 under valid parameters: with `TakeRateClaimInterval > 0 ∧ RewardDelayTime ≥ 0` (INV-P: every
  reachable state, every parameter set the governance handler accepts) the end blocker cannot fail with the integer
  division by zero of the take-rate step nor with a parameter validation error.
-/
import AllianceProofs.FailModesRX
import AllianceProofs.FailModesEB
import AllianceProofs.ParamsOK
import AllianceProofs.NoPanic
set_option linter.unusedVariables false
namespace Alliance
open Dec

theorem Hoare.ofPresR {α} {I : World → Prop} {m : M α} {R : α → Prop} (h : PresR I m R) : Hoare I m (fun _ w => I w) :=
  ⟨fun w w' a hm hw => by have := (h.run w hw).1; rw [hm] at this; exact this⟩

theorem setParams_errsP (p : Params) (hp : ParamsOKp p) : ErrsP ParamsOK endModesOK (setParams p) (fun _ w => ParamsOK w) := by
  constructor
  · intro w e _ he
    unfold setParams at he
    have h1 : ¬ p.rewardDelay < 0 := by have := hp.2; unfold Dur at *; omega
    have h2 : ¬ p.takeRateInterval < 0 := by have := hp.1; unfold Dur at *; omega
    simp [bind_apply, guardE_apply, h1, h2] at he
  · intro w a w' hw hm
    exact (Hoare.ofPresR (setParams_ok p hp)).run w w' a hm hw

theorem setLastRewardClaimTime_errsP (t : Time) : ErrsP ParamsOK endModesOK (setLastRewardClaimTime t) (fun _ w => ParamsOK w) := by
  unfold setLastRewardClaimTime
  apply ErrsP.getW_bind; intro w0 hp
  exact ErrsP.conseq (P := fun w => w = w0) (P' := ParamsOK) (setParams_errsP _ hp) (fun w e => by subst e; exact hp) (fun _ _ q => q)

theorem lfP {α} {m : M α} (h1 : Errs endModesOK m) (h2 : FrameParams.Fr m) : ErrsP ParamsOK endModesOK m (fun _ w => ParamsOK w) :=
  ErrsP.of h1 (Hoare.ofPresR (paramsOK_frame h2))

theorem deductAssetsHook_errsP (as : List Asset) : ErrsP ParamsOK endModesOK (deductAssetsHook as) (fun _ w => ParamsOK w) := by
  unfold deductAssetsHook
  apply ErrsP.getW_bind; intro w0 hp0
  refine ErrsP.conseq (P' := ParamsOK) (Q' := fun _ w => ParamsOK w) ?_ (fun w e => by subst e; exact hp0) (fun _ _ q => q)
  dsimp only []
  split
  · unfold deductAssetsWithTakeRate
    apply ErrsP.getW_bind; intro w1 hp1
    refine ErrsP.conseq (P' := ParamsOK) (Q' := fun _ w => ParamsOK w) ?_ (fun w e => by subst e; exact hp1) (fun _ _ q => q)
    split
    · exact ErrsP.bind (setLastRewardClaimTime_errsP _) (fun _ => ErrsP.of (Errs.pure _) (Hoare.pure _ (fun _ h => h)))
    · dsimp only []
      have hne : ¬ w1.params.takeRateInterval = 0 := by have := hp1.1; unfold Dur at *; omega
      rw [guardP_false _ _ hne]
      apply ErrsP.bind (R := fun _ w => ParamsOK w) (ErrsP.of (Errs.pure _) (Hoare.pure _ (fun _ h => h))); intro _
      apply ErrsP.bind (R := fun _ w => ParamsOK w)
      · apply lfP
        · apply Errs.forEachM; intro a
          apply Errs.ite
          · unfold setAsset; exact Errs.modifyW _
          · exact Errs.pure _
        · apply FrameParams.forEachM; intro a
          split
          · simp only [pframe]
          · exact FrameParams.pure _
      · intro _
        split
        · exact ErrsP.bind (setLastRewardClaimTime_errsP _) (fun _ => ErrsP.of (Errs.pure _) (Hoare.pure _ (fun _ h => h)))
        · split
          · apply ErrsP.bind (lfP (sendCoins_errs (by decide) _ _ _) (by simp only [pframe])); intro _
            exact ErrsP.bind (setLastRewardClaimTime_errsP _) (fun _ => ErrsP.of (Errs.pure _) (Hoare.pure _ (fun _ h => h)))
          · exact ErrsP.of (Errs.pure _) (Hoare.pure _ (fun _ h => h))
  · exact ErrsP.of (Errs.pure _) (Hoare.pure _ (fun _ h => h))

/-- C17 under INV-P: the failure modes that remain -/
theorem endBlocker_errsP : ErrsP ParamsOK endModesOK endBlocker (fun _ _ => True) := by
  unfold endBlocker
  apply ErrsP.bind (R := fun _ w => ParamsOK w)
  · apply lfP
    · unfold completeRedelegations; exact Errs.modifyW _
    · simp only [pframe]
  · intro _
    apply ErrsP.bind (lfP (completeUnbondings_errs (fun e h => h)) (by simp only [pframe])); intro _
    apply ErrsP.getW_bind; intro w0 hp0
    refine ErrsP.conseq (P' := ParamsOK) (Q' := fun _ _ => True) ?_ (fun w e => by subst e; exact hp0) (fun _ _ q => q)
    dsimp only []
    apply ErrsP.bind (lfP (initializeAllianceAssets_errs (fun e h => h) _) (by simp only [pframe])); intro as1
    apply ErrsP.bind (deductAssetsHook_errsP as1); intro as2
    apply ErrsP.of (P := ParamsOK) _ Hoare.triv
    apply Errs.bind
    · unfold rewardWeightChangeHook; exact rewardWeightChangeHook_go_errs (fun e h => h) _ _
    · intro as3
      unfold rebalanceHook
      apply Errs.getW_bind; intro w1
      apply Errs.ite _ (Errs.pure _)
      apply Errs.bind (Errs.modifyW _); intro _
      exact rebalanceBondTokenWeights_errs (fun e h => h) _

theorem end_block_failure_modes_with_valid_params (w : World) (hp : ParamsOK w) (e : Err)
    (h : (step .endBlock w).1 = .error e) : e ∈ endModesOK := endBlocker_errsP.err w e hp h

end Alliance
