/-
  ValueSum.lean — the converse of D23.  Where an asset's share total has NOT drifted below the validators' sum
  (Σ vs ≤ TotalValidatorShares), the validators' token values add up to at most the staked total plus the rounding of the
  conversions: Σ_v TotalTokensWithAsset(v) ≤ T + n·((½ + 10⁻¹⁸)·10⁻¹⁸·T + ½·10⁻¹⁸) — so no delegator can be shown a balance
  that exceeds the total by more than that, and the staked total cannot be driven below −(that) by honest withdrawals.
  Cross-multiplied by 10³⁶·TVS.
-/
import AllianceProofs.ValueError
set_option linter.unusedVariables false
namespace Alliance
open Dec

theorem validator_values_sum (a : Asset) (hT : 0 ≤ a.totalTokens) (hTVS : 0 < a.totalValShares) (infos : List ValInfo)
    (hvs : ∀ i ∈ infos, 0 ≤ valSharesWithDenom i a.denom) :
    (infos.map (fun i => totalTokensWithAsset i a)).sum * (P * P * a.totalValShares) ≤
      (infos.map (fun i => valSharesWithDenom i a.denom)).sum * ofInt a.totalTokens * (P * P) +
      (infos.length : Int) * ((H + 1) * a.totalValShares * ofInt a.totalTokens + H * P * a.totalValShares) := by
  induction infos with
  | nil => simp
  | cons i t ih =>
    have h1 := (validator_value_error i a hT hTVS (hvs i (List.mem_cons_self ..))).1
    have h2 := ih (fun j hj => hvs j (List.mem_cons_of_mem _ hj))
    simp only [List.map_cons, List.sum_cons, List.length_cons]
    have e1 : (totalTokensWithAsset i a + (t.map (fun i => totalTokensWithAsset i a)).sum) * (P * P * a.totalValShares) =
        totalTokensWithAsset i a * (P * P * a.totalValShares) + (t.map (fun i => totalTokensWithAsset i a)).sum * (P * P * a.totalValShares) :=
      Int.add_mul _ _ _
    have e2 : (valSharesWithDenom i a.denom + (t.map (fun i => valSharesWithDenom i a.denom)).sum) * ofInt a.totalTokens * (P * P) =
        valSharesWithDenom i a.denom * ofInt a.totalTokens * (P * P) + (t.map (fun i => valSharesWithDenom i a.denom)).sum * ofInt a.totalTokens * (P * P) := by
      rw [Int.add_mul, Int.add_mul]
    have e3 : ((t.length + 1 : Nat) : Int) * ((H + 1) * a.totalValShares * ofInt a.totalTokens + H * P * a.totalValShares) =
        (t.length : Int) * ((H + 1) * a.totalValShares * ofInt a.totalTokens + H * P * a.totalValShares) +
        ((H + 1) * a.totalValShares * ofInt a.totalTokens + H * P * a.totalValShares) := by
      rw [Int.natCast_add, Int.add_mul]; simp
    rw [e1, e2, e3]
    unfold Dec at *
    omega

/-- … with no downward drift (Σ vs ≤ TVS): the values add up to at most the staked total plus n roundings -/
theorem validator_values_sum_le_total (a : Asset) (hT : 0 ≤ a.totalTokens) (hTVS : 0 < a.totalValShares) (infos : List ValInfo)
    (hvs : ∀ i ∈ infos, 0 ≤ valSharesWithDenom i a.denom)
    (hsum : (infos.map (fun i => valSharesWithDenom i a.denom)).sum ≤ a.totalValShares) :
    (infos.map (fun i => totalTokensWithAsset i a)).sum * (P * P * a.totalValShares) ≤
      a.totalValShares * ofInt a.totalTokens * (P * P) +
      (infos.length : Int) * ((H + 1) * a.totalValShares * ofInt a.totalTokens + H * P * a.totalValShares) := by
  have h := validator_values_sum a hT hTVS infos hvs
  have hnn : (0 : Int) ≤ ofInt a.totalTokens * (P * P) :=
    Int.mul_nonneg (by unfold ofInt; exact Int.mul_nonneg hT (by decide)) (by decide)
  have h2 : (infos.map (fun i => valSharesWithDenom i a.denom)).sum * (ofInt a.totalTokens * (P * P)) ≤
      a.totalValShares * (ofInt a.totalTokens * (P * P)) := Int.mul_le_mul_of_nonneg_right hsum hnn
  have a1 : (infos.map (fun i => valSharesWithDenom i a.denom)).sum * ofInt a.totalTokens * (P * P) =
      (infos.map (fun i => valSharesWithDenom i a.denom)).sum * (ofInt a.totalTokens * (P * P)) := Int.mul_assoc _ _ _
  have a2 : a.totalValShares * ofInt a.totalTokens * (P * P) = a.totalValShares * (ofInt a.totalTokens * (P * P)) :=
    Int.mul_assoc _ _ _
  rw [a1] at h
  rw [a2]
  unfold Dec at *
  omega

/-- positions on one validator: the pre-rounding values Mul(Quo(s_i, tds), V) of positions whose shares add up to the
    validator's delegator-share total (the ledger, INV-S) add up to at most V plus n roundings -/
theorem position_values_sum (tds V : Dec) (hV : 0 ≤ V) (htds : 0 < tds) (shares : List Dec) (hs : ∀ x ∈ shares, 0 ≤ x) :
    (shares.map (fun x => convertNewShareToDecToken V tds x)).sum * (P * P * tds) ≤
      shares.sum * V * (P * P) + (shares.length : Int) * ((H + 1) * tds * V + H * P * tds) := by
  induction shares with
  | nil => simp
  | cons x t ih =>
    have h1 := (position_value_error x tds V hV htds (hs x (List.mem_cons_self ..))).1
    have h2 := ih (fun y hy => hs y (List.mem_cons_of_mem _ hy))
    simp only [List.map_cons, List.sum_cons, List.length_cons]
    have e1 : (convertNewShareToDecToken V tds x + (t.map (fun x => convertNewShareToDecToken V tds x)).sum) * (P * P * tds) =
        convertNewShareToDecToken V tds x * (P * P * tds) + (t.map (fun x => convertNewShareToDecToken V tds x)).sum * (P * P * tds) :=
      Int.add_mul _ _ _
    have e2 : (x + t.sum) * V * (P * P) = x * V * (P * P) + t.sum * V * (P * P) := by rw [Int.add_mul, Int.add_mul]
    have e3 : ((t.length + 1 : Nat) : Int) * ((H + 1) * tds * V + H * P * tds) =
        (t.length : Int) * ((H + 1) * tds * V + H * P * tds) + ((H + 1) * tds * V + H * P * tds) := by
      rw [Int.natCast_add, Int.add_mul]; simp
    rw [e1, e2, e3]
    unfold Dec at *
    omega

end Alliance
