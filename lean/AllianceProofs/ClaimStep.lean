/-
  ClaimStep.lean — how the amount the unbonding queue owes an account moves under the user operations: a successful
  undelegation adds exactly the requested amount to what the queue owes the delegator in that denom, and nothing to anybody
  else; delegation, redelegation, claims and governance leave every account's pending amount alone.
-/
import AllianceProofs.Conserve
import AllianceModel.Msg
set_option linter.unusedVariables false
namespace Alliance
open Dec

def QS (w : World) : Prop := AL.SortedBy undelKeyOrder w.undelQueue

abbrev OwedT {α} (u : Acct) (d : Denom) (δ : Int) (m : M α) : Prop := Obs QS (owedAll u d) δ m

theorem owedT_frame {α} {u : Acct} {d : Denom} {m : M α} (h : FrameUQ.Fr m) : OwedT u d 0 m := by
  constructor
  intro w w' a hm hi
  have hf : FrameUQ.π w' = FrameUQ.π w := by have := h.frame w; rw [hm] at this; exact this
  have hq : w'.undelQueue = w.undelQueue := hf
  refine ⟨?_, by unfold QS; rw [hq]; exact hi⟩
  unfold owedAll; rw [hq]; omega

macro "q_frame" : tactic => `(tactic| (apply owedT_frame; first | exact FrameUQ.liftE _ | exact FrameUQ.pure _ | exact FrameUQ.guardE _ _ | exact FrameUQ.guardP _ _ | (simp only [qframe]; done)))

theorem queueUndelegation_owedT (del : Acct) (v : ValId) (dn : Denom) (amt : Int) (u : Acct) (d : Denom) :
    OwedT u d (if del = u ∧ dn = d then amt else 0) (queueUndelegation del v dn amt) := by
  constructor
  intro w w' a hm hi
  have hst := queueUndelegation_state del v dn amt w
  rw [hm] at hst
  simp only at hst
  subst hst
  refine ⟨?_, AL.set_sorted undelKeyOrder _ _ _ hi⟩
  unfold owedAll
  simp only
  rw [AL.sum_set undelKeyOrder _ _ _ _ hi]
  unfold AL.at?
  cases hg : AL.get w.undelQueue (w.time + w.staking.unbondingTime, del) with
  | none =>
    simp only [Option.getD_none, List.nil_append, List.map_cons, List.map_nil, List.sum_cons, List.sum_nil, owedE]
    omega
  | some es =>
    simp only [Option.getD_some, List.map_append, List.sum_append, List.map_cons, List.map_nil, List.sum_cons, List.sum_nil, owedE]
    omega

theorem undelegate_owedT (del : Acct) (val : AVal) (dn : Denom) (amt : Int) (u : Acct) (d : Denom) :
    OwedT u d (if del = u ∧ dn = d then amt else 0) (undelegate del val dn amt) := by
  unfold undelegate
  apply Obs.getW_bind; intro w0 _
  rcases ha : getAsset w0 dn with _ | a
  · exact Obs.throwE _
  · dsimp only []
    apply Obs.bind0 (by q_frame); intro _
    apply Obs.bind0 (by q_frame); intro r
    apply Obs.getW_bind; intro w1 _
    try dsimp only []
    apply Obs.bind0 (by q_frame); intro _
    apply Obs.bind0 (by q_frame); intro _
    apply Obs.bind0 (by q_frame); intro _
    apply Obs.bind0 (by q_frame); intro _
    apply Obs.bind0 (by q_frame); intro _
    apply Obs.bind0 (by q_frame); intro _
    apply Obs.bind0 (by q_frame); intro _
    apply Obs.bind0 (by q_frame); intro _
    apply Obs.bind0 (by q_frame); intro val2
    apply Obs.bind0 (by q_frame); intro _
    refine (Obs.bind (queueUndelegation_owedT del val2.id dn amt u d) (fun _ => ?_)).cast (Int.add_zero _)
    q_frame

theorem msgUndelegate_owedT (del : Acct) (v : ValId) (dn : Denom) (amt : Int) (u : Acct) (d : Denom) :
    OwedT u d (if del = u ∧ dn = d then amt else 0) (msgUndelegate del v dn amt) := by
  unfold msgUndelegate
  apply Obs.bind0 (by q_frame); intro _
  apply Obs.bind0 (by q_frame); intro val
  exact undelegate_owedT del val dn amt u d

/-- C02, creation side: a successful `MsgUndelegate` of `amt` adds exactly `amt` to what the queue owes the delegator in
    that denom and nothing to any other (account, denom) -/
theorem undelegate_adds_claim (del : Acct) (v : ValId) (dn : Denom) (amt : Int) (u : Acct) (d : Denom) (w w' : World)
    (hs : QS w) (h : step (.undelegate del v dn amt) w = (.ok (), w')) :
    owedAll u d w' = owedAll u d w + (if del = u ∧ dn = d then amt else 0) :=
  ((Obs.asTx (msgUndelegate_owedT del v dn amt u d)).run w w' () h hs).1

/-- the other user operations and governance leave every pending amount alone -/
theorem other_ops_keep_claim (op : Op) (u : Acct) (d : Denom) (w w' : World) (hs : QS w)
    (hop : match op with | .delegate .. | .redelegate .. | .claim .. | .createAlliance .. | .updateAlliance .. |
                          .deleteAlliance .. | .updateParams .. => True | _ => False)
    (h : step op w = (.ok (), w')) : owedAll u d w' = owedAll u d w := by
  have tx : ∀ (m : M Unit), FrameUQ.Fr m → asTx m w = (.ok (), w') → owedAll u d w' = owedAll u d w := by
    intro m hm hr
    have := ((Obs.asTx (owedT_frame (u := u) (d := d) hm)).run w w' () hr hs).1
    omega
  cases op with
  | delegate del v dn amt => exact tx _ (FrameUQ.msgDelegate del v dn amt) h
  | redelegate del s t dn amt => exact tx _ (FrameUQ.msgRedelegate del s t dn amt) h
  | claim del v dn => exact tx _ (FrameUQ.msgClaim del v dn) h
  | createAlliance s f => exact tx _ (FrameUQ.msgCreateAlliance s f) h
  | updateAlliance s f => exact tx _ (FrameUQ.msgUpdateAlliance s f) h
  | deleteAlliance s dn => exact tx _ (FrameUQ.msgDeleteAlliance s dn) h
  | updateParams s p => exact tx _ (FrameUQ.msgUpdateParams s p) h
  | _ => exact absurd hop (by simp)

end Alliance
