/-
  INV-P — the module parameters always satisfy TakeRateClaimInterval > 0 and RewardDelayTime ≥ 0, in every state
  reachable from a valid genesis (ValidateGenesis requires interval > 0; MsgUpdateParams rejects anything else since
  the `fix:` for D9). Consequence (C17): the interval division in DeductAssetsWithTakeRate never panics.
-/
import AllianceProofs.FrameParams
import AllianceProofs.AssetsValid
namespace Alliance
open Dec

def ParamsOKp (p : Params) : Prop := 0 < p.takeRateInterval ∧ 0 ≤ p.rewardDelay
def ParamsOK (w : World) : Prop := ParamsOKp w.params

theorem paramsOK_frame {α} {m : M α} (h : FrameParams.Fr m) : PresR ParamsOK m Any :=
  FrameParams.toPresR h ParamsOKp

macro "pok_leaf" : tactic => `(tactic| first
  | apply PresR.pure_any | apply PresR.throwE | apply PresR.panicE | apply PresR.liftE_any
  | apply PresR.guardE_any | apply PresR.guardP_any | apply PresR.requireSome_any | apply PresR.requireSomeP_any
  | apply PresR.getW_any
  | (apply paramsOK_frame; simp only [pframe]; done))

theorem setParams_ok (p : Params) (hp : ParamsOKp p) : PresR ParamsOK (setParams p) Any := by
  unfold setParams
  apply PresR.bind (R := Any) (by pok_leaf); intro _ _
  apply PresR.bind (R := Any) (by pok_leaf); intro _ _
  apply PresR.modifyW
  intro w _
  exact hp

theorem setLastRewardClaimTime_ok (t : Time) : PresR ParamsOK (setLastRewardClaimTime t) Any := by
  unfold setLastRewardClaimTime
  apply PresR.bind PresR.getW; intro w0 hw0
  exact setParams_ok _ hw0

theorem deductAssetsWithTakeRate_ok (last : Time) (as : List Asset) : PresR ParamsOK (deductAssetsWithTakeRate last as) Any := by
  unfold deductAssetsWithTakeRate
  apply PresR.bind PresR.getW; intro w0 _
  split
  · apply PresR.bind (R := Any) (setLastRewardClaimTime_ok _); intro _ _
    pok_leaf
  · dsimp only []
    apply PresR.bind (R := Any) (by pok_leaf); intro _ _
    apply PresR.bind (R := Any)
    · apply PresR.forEachM'
      intro a
      split
      · pok_leaf
      · pok_leaf
    · intro _ _
      split
      · apply PresR.bind (R := Any) (setLastRewardClaimTime_ok _); intro _ _
        pok_leaf
      · split
        · apply PresR.bind (R := Any) (by pok_leaf); intro _ _
          apply PresR.bind (R := Any) (setLastRewardClaimTime_ok _); intro _ _
          pok_leaf
        · pok_leaf

theorem deductAssetsHook_ok (as : List Asset) : PresR ParamsOK (deductAssetsHook as) Any := by
  unfold deductAssetsHook
  apply PresR.bind PresR.getW; intro w0 _
  dsimp only []
  split
  · exact deductAssetsWithTakeRate_ok _ _
  · pok_leaf

theorem endBlocker_ok : PresR ParamsOK endBlocker Any := by
  unfold endBlocker
  apply PresR.bind (R := Any) (by pok_leaf); intro _ _
  apply PresR.bind (R := Any) (by pok_leaf); intro _ _
  apply PresR.bind (R := Any) (by pok_leaf); intro _ _
  dsimp only []
  apply PresR.bind (R := Any) (by pok_leaf); intro _ _
  apply PresR.bind (R := Any) (deductAssetsHook_ok _); intro _ _
  apply PresR.bind (R := Any) (by pok_leaf); intro _ _
  pok_leaf

theorem msgUpdateParams_ok (s : Signer) (p : Params) : PresR ParamsOK (msgUpdateParams s p) Any := by
  unfold msgUpdateParams
  apply PresR.bind (PresR.guardE _ _); intro _ _
  apply PresR.bind (PresR.guardE _ _); intro _ h1
  apply PresR.bind (PresR.guardE _ _); intro _ h2
  apply PresR.bind (PresR.guardE _ _); intro _ _
  apply setParams_ok
  unfold ParamsOKp
  unfold Dur at *
  constructor <;> omega

theorem paramsOK_oracle (w : World) (o : List (ValId × Coins)) (h : ParamsOK w) : ParamsOK { w with oracle := o } := h

theorem step_paramsOK (op : Op) : PresR ParamsOK (step op) Any := by
  cases op <;> unfold step <;> dsimp only []
  · exact PresR.asTx (paramsOK_frame (FrameParams.msgDelegate _ _ _ _)) paramsOK_oracle
  · exact PresR.asTx (paramsOK_frame (FrameParams.msgUndelegate _ _ _ _)) paramsOK_oracle
  · exact PresR.asTx (paramsOK_frame (FrameParams.msgRedelegate _ _ _ _ _)) paramsOK_oracle
  · exact PresR.asTx (paramsOK_frame (FrameParams.msgClaim _ _ _)) paramsOK_oracle
  · exact PresR.asTx (paramsOK_frame (FrameParams.msgCreateAlliance _ _)) paramsOK_oracle
  · exact PresR.asTx (paramsOK_frame (FrameParams.msgUpdateAlliance _ _)) paramsOK_oracle
  · exact PresR.asTx (paramsOK_frame (FrameParams.msgDeleteAlliance _ _)) paramsOK_oracle
  · exact PresR.asTx (msgUpdateParams_ok _ _) paramsOK_oracle
  · exact paramsOK_frame (FrameParams.beforeValidatorSlashed _ _)
  · exact endBlocker_ok
  · pok_leaf
  · pok_leaf
  · pok_leaf
  · pok_leaf
  · pok_leaf
  · pok_leaf

/-- INV-P over every history -/
theorem run_paramsOK (ops : List Op) (w : World) (h : ParamsOK w) : ParamsOK (run w ops) := by
  unfold run
  induction ops generalizing w with
  | nil => exact h
  | cons op t ih =>
    rw [List.foldl_cons]
    exact ih _ ((step_paramsOK op).run w h).1

end Alliance
