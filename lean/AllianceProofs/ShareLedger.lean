/-
  ShareLedger.lean — C03, delegator side: the user operations keep  Σ delegations(v,d) = validator v's delegator-share
  total of d  for every (v, d). A success-only Hoare judgment over the two stores; the in-memory `AllianceValidator`
  values the keeper passes around are tracked against the store (`Sync`), because every validator write stores the
  in-memory copy (the Go aliasing).
-/
import AllianceProofs.Ledger
import AllianceProofs.FrameDV
import AllianceProofs.Bank
import AllianceProofs.AssetsValid
import AllianceModel.Msg
set_option linter.unusedVariables false
namespace Alliance
open Dec

structure Hoare {α} (P : World → Prop) (m : M α) (Q : α → World → Prop) : Prop where
  run : ∀ w w' a, m w = (.ok a, w') → P w → Q a w'

namespace Hoare
variable {α β : Type} {P P' : World → Prop} {Q Q' : α → World → Prop}

theorem conseq {m : M α} (h : Hoare P' m Q') (hp : ∀ w, P w → P' w) (hq : ∀ a w, Q' a w → Q a w) : Hoare P m Q :=
  ⟨fun w w' a hm hw => hq a w' (h.run w w' a hm (hp w hw))⟩

theorem bind {m : M α} {f : α → M β} {R : α → World → Prop} {Q : β → World → Prop}
    (hm : Hoare P m R) (hf : ∀ a, Hoare (R a) (f a) Q) : Hoare P (m >>= f) Q := by
  constructor
  intro w w' b h hw
  simp only [bind_apply] at h
  rcases hmw : m w with ⟨r, w1⟩
  rw [hmw] at h
  cases r with
  | error e => simp at h
  | ok a => exact (hf a).run w1 w' b h (hm.run w w1 a hmw hw)

/-- reading the state: the continuation starts from exactly the state read -/
theorem getW_bind {f : World → M β} {Q : β → World → Prop}
    (h : ∀ w0, P w0 → Hoare (fun w => w = w0) (f w0) Q) : Hoare P (Alliance.getW >>= f) Q := by
  constructor
  intro w w' b hm hw
  simp only [bind_apply, getW_apply] at hm
  exact (h w hw).run w w' b hm rfl

theorem pure (a : α) (h : ∀ w, P w → Q a w) : Hoare P (Pure.pure a : M α) Q := by
  constructor
  intro w w' a' hm hw
  simp only [pure_apply] at hm
  injection hm with h1 h2
  injection h1 with h1
  subst h1 h2
  exact h w hw

theorem throwE (c : String) : Hoare P (Alliance.throwE c : M α) Q := ⟨fun w w' a h => by simp at h⟩
theorem panicE (c : String) : Hoare P (Alliance.panicE c : M α) Q := ⟨fun w w' a h => by simp at h⟩

theorem ite {c : Prop} [Decidable c] {m1 m2 : M α} (h1 : c → Hoare P m1 Q) (h2 : ¬c → Hoare P m2 Q) :
    Hoare P (if c then m1 else m2) Q := by
  split
  · next h => exact h1 h
  · next h => exact h2 h

theorem liftE_bind {x : Except Err α} {f : α → M β} {Q : β → World → Prop}
    (h : ∀ a, x = .ok a → Hoare P (f a) Q) : Hoare P (Alliance.liftE x >>= f) Q := by
  cases x with
  | error e => exact ⟨fun w w' r h => by simp [bind_apply, liftE_error] at h⟩
  | ok a =>
    constructor
    intro w w' b hm hw
    simp only [bind_apply, liftE_ok] at hm
    exact (h a rfl).run w w' b hm hw

theorem guardE_bind {c : Prop} [Decidable c] {code : String} {f : Unit → M β} {Q : β → World → Prop}
    (h : ¬ c → Hoare P (f ()) Q) : Hoare P (Alliance.guardE c code >>= f) Q := by
  constructor
  intro w w' b hm hw
  simp only [bind_apply, guardE_apply] at hm
  by_cases hc : c
  · simp [hc] at hm
  · simp only [hc, if_false] at hm
    exact (h hc).run w w' b hm hw

/-- anything that leaves both stores alone carries any predicate of them -/
theorem ofFrame {m : M α} (h : FrameDV.Fr m) (J : List (DelKey × Delegation) × List (ValId × ValInfo) → Prop) :
    Hoare (fun w => J (w.dels, w.vals)) m (fun _ w => J (w.dels, w.vals)) := by
  constructor
  intro w w' a hm hw
  have hf : FrameDV.π w' = FrameDV.π w := by have := h.frame w; rw [hm] at this; exact this
  simp only [FrameDV.π] at hf
  rw [hf]; exact hw

/-- a framed step in front of a continuation -/
theorem frame_bind {m : M α} {f : α → M β} {Q : β → World → Prop}
    (J : List (DelKey × Delegation) × List (ValId × ValInfo) → Prop) (h : FrameDV.Fr m)
    (hf : ∀ a, Hoare (fun w => J (w.dels, w.vals)) (f a) Q) : Hoare (fun w => J (w.dels, w.vals)) (m >>= f) Q :=
  bind (ofFrame h J) hf

theorem at_state {m : M α} {w0 : World} (hP : P w0) (h : Hoare P m Q) : Hoare (fun w => w = w0) m Q :=
  h.conseq (fun w e => e ▸ hP) (fun _ _ q => q)

theorem modifyW (f : World → World) {Q : Unit → World → Prop} (h : ∀ w, P w → Q () (f w)) :
    Hoare P (Alliance.modifyW f) Q := by
  constructor
  intro w w' a hm hw
  simp only [modifyW_apply] at hm
  injection hm with _ h2
  subst h2
  exact h w hw

theorem asTx {m : M α} (h : Hoare P m Q) : Hoare P (Alliance.asTx m) Q := by
  constructor
  intro w w' a hm hw
  rw [asTx_apply] at hm
  rcases hmw : m w with ⟨r, w1⟩
  rw [hmw] at hm
  cases r with
  | error e => simp at hm
  | ok a' =>
    injection hm with h1 h2
    injection h1 with h1
    subst h1 h2
    exact h.run w w1 a' hmw hw

end Hoare

/-- the ledger of a state, with offset -/
def L (off : ValId → Denom → Int) (w : World) : Prop := LedgerO off w.dels w.vals
/-- the in-memory validator carries the delegator-share total the store holds (other fields may lag: the keeper
    overwrites them from the in-memory copy) -/
def SyncL (val : AVal) (vals : List (ValId × ValInfo)) : Prop :=
  ∃ info, AL.get vals val.id = some info ∧ info.totalDelShares = val.info.totalDelShares
def Sync (val : AVal) (w : World) : Prop := SyncL val w.vals

theorem tdsL_of_sync {val : AVal} {w : World} (h : Sync val w) (d : Denom) :
    tdsL w.vals val.id d = DecCoins.sumOf val.info.totalDelShares d := by
  obtain ⟨info, hg, ht⟩ := h
  unfold tdsL; rw [hg]; simp only []; rw [ht]

theorem sorted_of_sync {off : ValId → Denom → Int} {val : AVal} {w : World} (hl : LedgerO off w.dels w.vals) (h : Sync val w) :
    DecCoins.Sorted val.info.totalDelShares := by
  obtain ⟨info, hg, ht⟩ := h
  rw [← ht]; exact hl.vsorted _ _ hg

theorem sync_set (val : AVal) (vals : List (ValId × ValInfo)) (info : ValInfo) (val' : AVal) (hid : val'.id = val.id)
    (ht : info.totalDelShares = val'.info.totalDelShares) : SyncL val' (AL.set vals val.id info) :=
  ⟨info, by rw [hid, AL.get_set_eq], ht⟩

/-- storing an in-memory validator whose delegator-share total is the stored one plus `x` of denom `dx` -/
theorem L_setValidator {off : ValId → Denom → Int} {w : World} {val : AVal} (info' : ValInfo) (dx : Denom) (x : Int)
    (hl : L off w) (hs : Sync val w) (hsorted : DecCoins.Sorted info'.totalDelShares)
    (hsum : ∀ d, DecCoins.sumOf info'.totalDelShares d = DecCoins.sumOf val.info.totalDelShares d + (if dx = d then x else 0)) :
    L (fun v d => off v d - (if v = val.id ∧ dx = d then x else 0)) { w with vals := AL.set w.vals val.id info' } := by
  unfold L at *
  refine (hl.setVal val.id info' hsorted).conv ?_
  intro v d
  by_cases hv : v = val.id
  · subst hv
    simp only [if_true, true_and]
    rw [hsum d, tdsL_of_sync hs d]
    split <;> omega
  · simp only [hv, if_false, false_and]

/-- ledger with offset, an in-memory validator in step with the store, and any fact about the delegation store -/
def Inv (off : ValId → Denom → Int) (val : AVal) (X : List (DelKey × Delegation) × List (ValId × ValInfo) → Prop) (w : World) : Prop :=
  L off w ∧ Sync val w ∧ X (w.dels, w.vals)

/-- a side fact that survives any write to validator `vid`'s record that keeps the delegator-share total `tds` -/
def StableV (vid : ValId) (tds : DecCoins) (X : List (DelKey × Delegation) × List (ValId × ValInfo) → Prop) : Prop :=
  ∀ p info, X p → info.totalDelShares = tds → X (p.1, AL.set p.2 vid info)

theorem Inv.frame {off val X} {α} {m : M α} (h : FrameDV.Fr m) : Hoare (Inv off val X) m (fun _ w => Inv off val X w) :=
  Hoare.ofFrame h (fun p => LedgerO off p.1 p.2 ∧ SyncL val p.2 ∧ X p)

macro "dv_frame" : tactic => `(tactic| (first | exact FrameDV.liftE _ | exact FrameDV.pure _ | exact FrameDV.guardE _ _ | (simp only [dvframe]; done)))

/-- storing the in-memory validator with only its reward history changed -/
theorem Inv.setValidator_hist {off val X} (hXv : StableV val.id val.info.totalDelShares X) (w : World) (hist : List RewardHistory) (h : Inv off val X w) :
    Inv off { val with info := { val.info with hist := hist } } X
      { w with vals := AL.set w.vals val.id { val.info with hist := hist } } := by
  obtain ⟨hl, hs, hx⟩ := h
  refine ⟨?_, ?_, hXv _ _ hx rfl⟩
  · have hsorted : DecCoins.Sorted ({ val.info with hist := hist } : ValInfo).totalDelShares := sorted_of_sync hl hs
    have := L_setValidator (off := off) (val := val) { val.info with hist := hist } 0 0 hl hs hsorted
      (fun d => by simp)
    refine this.conv ?_
    intro v d; simp
  · exact sync_set val w.vals _ _ rfl rfl

theorem addAssetsToRewardPool_inv (off : ValId → Denom → Int) (val : AVal) (X : List (DelKey × Delegation) × List (ValId × ValInfo) → Prop)
    (hXv : StableV val.id val.info.totalDelShares X) (coins : Coins) :
    Hoare (Inv off val X) (addAssetsToRewardPool val coins)
      (fun val' w => Inv off val' X w ∧ val'.id = val.id ∧ val'.info.totalDelShares = val.info.totalDelShares) := by
  unfold addAssetsToRewardPool
  apply Hoare.ite
  · intro _; exact Hoare.pure _ (fun w h => ⟨h, rfl, rfl⟩)
  · intro _
    apply Hoare.getW_bind; intro w0 hP
    apply Hoare.at_state hP
    dsimp only []
    apply Hoare.liftE_bind; intro hist _
    apply Hoare.bind (R := fun _ w => Inv off { val with info := { val.info with hist := hist } } X w)
    · unfold setValidator setValInfo
      exact Hoare.modifyW _ (fun w h => Inv.setValidator_hist hXv w hist h)
    · intro _
      apply Hoare.bind (Inv.frame (by dv_frame)); intro _
      exact Hoare.pure _ (fun w h => ⟨h, rfl, rfl⟩)

theorem claimValidatorRewards_inv (off : ValId → Denom → Int) (val : AVal) (X : List (DelKey × Delegation) × List (ValId × ValInfo) → Prop)
    (hXv : StableV val.id val.info.totalDelShares X) :
    Hoare (Inv off val X) (claimValidatorRewards val)
      (fun val' w => Inv off val' X w ∧ val'.id = val.id ∧ val'.info.totalDelShares = val.info.totalDelShares) := by
  unfold claimValidatorRewards
  apply Hoare.getW_bind; intro w0 hP
  apply Hoare.at_state hP
  dsimp only []
  apply Hoare.ite
  · intro _; exact Hoare.pure _ (fun w h => ⟨h, rfl, rfl⟩)
  · intro _
    apply Hoare.bind (Inv.frame (by dv_frame)); intro coins
    apply Hoare.ite
    · intro _; exact Hoare.pure _ (fun w h => ⟨h, rfl, rfl⟩)
    · intro _; exact addAssetsToRewardPool_inv off val X hXv coins

/-- a record read under a key carries that key, in a ledger state -/
theorem L.key_of_get {off : ValId → Denom → Int} {w : World} (hl : L off w) {k : DelKey} {dl : Delegation}
    (h : AL.get w.dels k = some dl) : k = (dl.del, dl.val, dl.denom) :=
  hl.keyed (k, dl) (AL.get_some_mem _ _ _ h)

/-- rewriting a delegation record without touching its key fields or shares keeps the ledger as it is -/
theorem L_setDelegation_same {off : ValId → Denom → Int} {w : World} (dl dl' : Delegation) (hl : L off w)
    (hg : AL.get w.dels (dl.del, dl.val, dl.denom) = some dl)
    (h1 : dl'.del = dl.del) (h2 : dl'.val = dl.val) (h3 : dl'.denom = dl.denom) (h4 : dl'.shares = dl.shares) :
    L off { w with dels := AL.set w.dels (dl'.del, dl'.val, dl'.denom) dl' } := by
  unfold L at *
  have hn : 0 ≤ dl'.shares := by rw [h4]; exact hl.nonneg _ (AL.get_some_mem _ _ _ hg)
  refine (hl.setDel dl' hn).conv ?_
  intro v d
  unfold oldShare
  rw [h1, h2, h3, hg]
  unfold shareOf
  rw [h2, h3, h4]
  simp only []
  split <;> omega

/-- a side fact that survives a rewrite of the record stored under `key` which keeps its key fields and shares -/
def StableD (key : DelKey) (X : List (DelKey × Delegation) × List (ValId × ValInfo) → Prop) : Prop :=
  ∀ p (dl dl2 : Delegation), X p → AL.get p.1 key = some dl → (dl2.del, dl2.val, dl2.denom) = key → dl2.shares = dl.shares →
    X (AL.set p.1 key dl2, p.2)

theorem claimDelegationRewards_inv (off : ValId → Denom → Int) (del : Acct) (val : AVal) (d' : Denom)
    (X : List (DelKey × Delegation) × List (ValId × ValInfo) → Prop) (hXv : StableV val.id val.info.totalDelShares X) (hXd : StableD (del, val.id, d') X) :
    Hoare (Inv off val X) (claimDelegationRewards del val d')
      (fun r w => Inv off r.2 X w ∧ r.2.id = val.id ∧ r.2.info.totalDelShares = val.info.totalDelShares) := by
  unfold claimDelegationRewards
  apply Hoare.getW_bind; intro w0 hP
  split
  · exact Hoare.throwE _
  · apply Hoare.ite
    · intro _; exact Hoare.pure _ (fun w e => by subst e; exact ⟨hP, rfl, rfl⟩)
    · intro _
      split
      · exact Hoare.throwE _
      · next dl hdl =>
        have hkey := L.key_of_get hP.1 hdl
        -- the record stays where it is while the validator's rewards are claimed
        refine Hoare.conseq (P' := Inv off val (fun p => X p ∧ AL.get p.1 (del, val.id, d') = some dl))
          (Q' := fun r w => Inv off r.2 X w ∧ r.2.id = val.id ∧ r.2.info.totalDelShares = val.info.totalDelShares) ?_
          (fun w e => by subst e; exact ⟨hP.1, hP.2.1, hP.2.2, hdl⟩) (fun _ _ q => q)
        apply Hoare.bind (claimValidatorRewards_inv off val (fun p => X p ∧ AL.get p.1 (del, val.id, d') = some dl)
          (fun p info h ht => ⟨hXv p info h.1 ht, h.2⟩))
        intro val1
        apply Hoare.getW_bind; intro w1 hP1
        obtain ⟨⟨hl1, hs1, hx1, hg1⟩, hid, htds⟩ := hP1
        apply Hoare.liftE_bind; intro r _
        have hg1' : AL.get w1.dels (dl.del, dl.val, dl.denom) = some dl := by rw [← hkey]; exact hg1
        apply Hoare.bind (R := fun _ w => Inv off val1 X w)
        · unfold setDelegation
          refine Hoare.modifyW _ (fun w e => ?_)
          subst e
          refine ⟨?_, hs1, ?_⟩
          · exact L_setDelegation_same dl { dl with hist := r.2, lastClaimHeight := w.height } hl1 hg1' rfl rfl rfl rfl
          · have := hXd (w.dels, w.vals) dl { dl with hist := r.2, lastClaimHeight := w.height } hx1 hg1 hkey.symm rfl
            show X (AL.set w.dels (dl.del, dl.val, dl.denom) _, w.vals)
            rw [← hkey]; exact this
        · intro _
          apply Hoare.bind (Inv.frame (by dv_frame)); intro _
          exact Hoare.pure _ (fun w h => ⟨h, hid, htds⟩)

theorem settleBeforeDeposit_inv (off : ValId → Denom → Int) (del : Acct) (val : AVal) (d' : Denom)
    (X : List (DelKey × Delegation) × List (ValId × ValInfo) → Prop) (hXv : StableV val.id val.info.totalDelShares X) (hXd : StableD (del, val.id, d') X) :
    Hoare (Inv off val X) (settleBeforeDeposit del val d')
      (fun val' w => Inv off val' X w ∧ val'.id = val.id ∧ val'.info.totalDelShares = val.info.totalDelShares) := by
  unfold settleBeforeDeposit
  apply Hoare.getW_bind; intro w0 hP
  apply Hoare.at_state hP
  split
  · apply Hoare.bind (claimDelegationRewards_inv off del val d' X hXv hXd); intro r
    exact Hoare.pure _ (fun w h => h)
  · exact claimValidatorRewards_inv off val X hXv

/-- the offset a deposit of `s` shares into (v0, d0) leaves on the delegation side -/
def offAt (v0 : ValId) (d0 : Denom) (s : Int) : ValId → Denom → Int := fun v d => if v = v0 ∧ d = d0 then s else 0

/-- `upsertDelegationWithNewTokens`: the position grows by the returned share amount; the ledger holds again as soon as
    that amount is known to be non-negative (the `DecCoin` constructor checks it a few steps later) -/
theorem upsert_inv (del : Acct) (val : AVal) (d' : Denom) (amt : Int) (a : Asset) :
    Hoare (Inv (fun _ _ => 0) val (fun _ => True)) (upsertDelegationWithNewTokens del val d' amt a)
      (fun s w => (0 ≤ s → L (offAt val.id d' s) w) ∧ Sync val w) := by
  unfold upsertDelegationWithNewTokens
  apply Hoare.liftE_bind; intro s _
  apply Hoare.getW_bind; intro w0 hP
  obtain ⟨hl, hs, _⟩ := hP
  dsimp only []
  split
  · next hnone =>
    apply Hoare.bind (R := fun _ w => (0 ≤ s → L (offAt val.id d' s) w) ∧ Sync val w)
    · unfold setDelegation
      refine Hoare.modifyW _ (fun w e => ?_)
      subst e
      refine ⟨fun hs0 => ?_, hs⟩
      unfold L at *
      refine (hl.setDel { del := del, val := val.id, denom := d', shares := s, hist := val.info.hist, lastClaimHeight := w.height } hs0).conv ?_
      intro v d
      unfold oldShare offAt shareOf
      have : AL.get w.dels (del, val.id, d') = none := hnone
      simp only [this]
      have e : (val.id = v ∧ d' = d) ↔ (v = val.id ∧ d = d') := ⟨fun ⟨a, b⟩ => ⟨a.symm, b.symm⟩, fun ⟨a, b⟩ => ⟨a.symm, b.symm⟩⟩
      simp only [e]
      split <;> omega
    · intro _; exact Hoare.pure _ (fun w h => h)
  · next dl hdl =>
    have hkey := L.key_of_get hl hdl
    apply Hoare.bind (R := fun _ w => (0 ≤ s → L (offAt val.id d' s) w) ∧ Sync val w)
    · unfold setDelegation
      refine Hoare.modifyW _ (fun w e => ?_)
      subst e
      refine ⟨fun hs0 => ?_, hs⟩
      unfold L at *
      have hnn : 0 ≤ dl.shares := hl.nonneg _ (AL.get_some_mem _ _ _ hdl)
      have hn2 : 0 ≤ ({ dl with shares := dl.shares + s } : Delegation).shares := by
        show 0 ≤ dl.shares + s
        unfold Dec at *; omega
      refine (hl.setDel { dl with shares := dl.shares + s } hn2).conv ?_
      intro v d
      have hk2 : (dl.del, dl.val, dl.denom) = (del, val.id, d') := hkey.symm
      have hg : AL.get w.dels (dl.del, dl.val, dl.denom) = some dl := by rw [hk2]; exact hdl
      unfold oldShare offAt shareOf
      simp only [hg]
      injection hk2 with _ h2
      injection h2 with h2 h3
      rw [h2, h3]
      have e : (val.id = v ∧ d' = d) ↔ (v = val.id ∧ d = d') := ⟨fun ⟨a, b⟩ => ⟨a.symm, b.symm⟩, fun ⟨a, b⟩ => ⟨a.symm, b.symm⟩⟩
      simp only [e]
      split <;> (unfold Dec at *; omega)
    · intro _; exact Hoare.pure _ (fun w h => h)

theorem updateValidatorShares_add_eq (val : AVal) (ds vs : DecCoins) (w : World) :
    updateValidatorShares val ds vs true w =
      (.ok { val with info := { val.info with totalDelShares := DecCoins.add val.info.totalDelShares ds,
                                              valShares := DecCoins.add val.info.valShares vs } },
       { w with vals := AL.set w.vals val.id { val.info with totalDelShares := DecCoins.add val.info.totalDelShares ds,
                                                             valShares := DecCoins.add val.info.valShares vs } }) := by
  unfold updateValidatorShares
  simp only [if_true, bind_apply, Pure.pure, Except.pure, liftE_ok, setValidator, setValInfo, modifyW_apply, pure_apply]
  rfl

/-- adding `s` delegator shares of `d'` to the in-memory validator and storing it -/
theorem updateValidatorShares_add_inv (off : ValId → Denom → Int) (val : AVal) (d' : Denom) (s : Dec) (vs : DecCoins) :
    Hoare (fun w => L off w ∧ Sync val w) (updateValidatorShares val (DecCoins.single d' s) vs true)
      (fun val' w => L (fun v d => off v d - offAt val.id d' s v d) w ∧ Sync val' w ∧ val'.id = val.id) := by
  constructor
  intro w w' val' hm hP
  obtain ⟨hl, hs⟩ := hP
  rw [updateValidatorShares_add_eq] at hm
  injection hm with h1 h2
  injection h1 with h1
  subst h1 h2
  refine ⟨?_, ?_, rfl⟩
  · have hsorted : DecCoins.Sorted (DecCoins.add val.info.totalDelShares (DecCoins.single d' s)) :=
      DecCoins.add_sorted _ _ (sorted_of_sync hl hs) (DecCoins.sorted_single d' s)
    have := L_setValidator (off := off) (val := val)
      { val.info with totalDelShares := DecCoins.add val.info.totalDelShares (DecCoins.single d' s),
                      valShares := DecCoins.add val.info.valShares vs } d' s hl hs hsorted
      (fun d => by show DecCoins.sumOf (DecCoins.add _ _) d = _; rw [DecCoins.sumOf_add, DecCoins.sumOf_single])
    refine this.conv ?_
    intro v d
    unfold offAt
    have e : (v = val.id ∧ d' = d) ↔ (v = val.id ∧ d = d') := ⟨fun ⟨a, b⟩ => ⟨a, b.symm⟩, fun ⟨a, b⟩ => ⟨a, b.symm⟩⟩
    simp only [e]
  · exact sync_set val w.vals _ _ rfl rfl

abbrev L0 : World → Prop := L (fun _ _ => 0)
abbrev Inv0 (val : AVal) : World → Prop := Inv (fun _ _ => 0) val (fun _ => True)

theorem mkDecCoins_ok (d : Denom) (x : Dec) (c : DecCoins) (h : mkDecCoins d x = .ok c) : 0 ≤ x ∧ c = DecCoins.single d x := by
  unfold mkDecCoins at h
  split at h
  · cases h
  · injection h with h; exact ⟨by unfold Dec at *; omega, h.symm⟩

/-- the part of the state the ledger reads, after a deposit of `s` shares has reached the position but not yet the validator -/
def Mid (val : AVal) (d' : Denom) (s : Dec) (w : World) : Prop := (0 ≤ s → L (offAt val.id d' s) w) ∧ Sync val w

theorem Mid.frame {val d' s} {α} {m : M α} (h : FrameDV.Fr m) : Hoare (Mid val d' s) m (fun _ w => Mid val d' s w) :=
  Hoare.ofFrame h (fun p => (0 ≤ s → LedgerO (offAt val.id d' s) p.1 p.2) ∧ SyncL val p.2)

/-- C03: `Delegate` keeps the delegator-share ledger -/
theorem delegate_ledger (del : Acct) (val : AVal) (d' : Denom) (amt : Int) :
    Hoare (Inv0 val) (delegate del val d' amt) (fun _ w => L0 w) := by
  unfold delegate
  apply Hoare.getW_bind; intro w0 hP
  apply Hoare.at_state hP
  split
  · exact Hoare.throwE _
  · next a _ =>
    apply Hoare.bind (Inv.frame (by dv_frame)); intro _
    apply Hoare.bind (settleBeforeDeposit_inv _ del val d' (fun _ => True) (fun _ _ _ _ => trivial) (fun _ _ _ _ _ _ _ => trivial)); intro val1
    apply Hoare.bind (R := fun s w => Mid val1 d' s w)
    · exact (upsert_inv del val1 d' amt a).conseq (fun w h => h.1) (fun _ _ q => q)
    · intro s
      apply Hoare.bind (Mid.frame (by dv_frame)); intro nvs
      apply Hoare.bind (Mid.frame (by dv_frame)); intro _
      apply Hoare.liftE_bind; intro dsc hdsc
      obtain ⟨hs0, rfl⟩ := mkDecCoins_ok d' s dsc hdsc
      apply Hoare.bind (Mid.frame (by dv_frame)); intro vsc
      apply Hoare.bind (R := fun _ w => L0 w)
      · refine (updateValidatorShares_add_inv (offAt val1.id d' s) val1 d' s vsc).conseq
          (fun w h => ⟨h.1 hs0, h.2⟩) (fun _ w q => ?_)
        exact q.1.conv (fun v d => by omega)
      · intro _
        exact Hoare.ofFrame (by dv_frame) (fun p => LedgerO (fun _ _ => 0) p.1 p.2)

/-- what `ValidateDelegatedAmount` returns is at most the position's shares -/
theorem validated_le (dlShares : Dec) (amt : Int) (info : ValInfo) (a : Asset) (s : Dec)
    (h : validateDelegatedAmount dlShares amt info a = .ok s) : s ≤ dlShares := by
  unfold validateDelegatedAmount at h
  cases hd : delegationSharesFromTokens info a amt with
  | error e => rw [hd] at h; simp only [bind, Except.bind] at h; cases h
  | ok s0 =>
    rw [hd] at h
    simp only [bind, Except.bind] at h
    split at h
    · injection h with h; subst h; exact Int.le_refl _
    · split at h
      · cases h
      · split at h
        · injection h with h; subst h; exact Int.le_refl _
        · next hgt =>
          simp only [Pure.pure, Except.pure] at h
          injection h with h; subst h
          unfold Dec at *; omega

/-- taking `x` shares off the position stored under (del, v, d') -/
theorem reduceDelegationShares_inv (del : Acct) (v : ValId) (d' : Denom) (x : Dec) (dl : Delegation) (val : AVal) :
    Hoare (fun w => L0 w ∧ Sync val w ∧ AL.get w.dels (del, v, d') = some dl ∧ x ≤ dl.shares)
      (reduceDelegationShares del v d' x dl)
      (fun _ w => L (fun v2 d => - offAt v d' x v2 d) w ∧ Sync val w) := by
  constructor
  intro w w' u hm hP
  obtain ⟨hl, hs, hg, hxle⟩ := hP
  have hkey := L.key_of_get hl hg
  injection hkey with k1 k23
  injection k23 with k2 k3
  unfold reduceDelegationShares at hm
  try dsimp only [] at hm
  have hold : ∀ v2 d, oldShare w.dels (del, v, d') v2 d = offAt v d' dl.shares v2 d := by
    intro v2 d
    unfold oldShare offAt shareOf
    rw [hg]
    simp only []
    rw [← k2, ← k3]
    have e : (v = v2 ∧ d' = d) ↔ (v2 = v ∧ d = d') := ⟨fun ⟨a, b⟩ => ⟨a.symm, b.symm⟩, fun ⟨a, b⟩ => ⟨a.symm, b.symm⟩⟩
    simp only [e]
  by_cases h0 : dl.shares - x = 0
  · simp only [h0, if_true, deleteDelegation, modifyW_apply] at hm
    injection hm with _ h2
    subst h2
    refine ⟨?_, hs⟩
    unfold L at *
    refine (hl.eraseDel (del, v, d')).conv ?_
    intro v2 d
    rw [hold]
    unfold offAt
    split <;> (unfold Dec at *; omega)
  · simp only [h0, if_false, setDelegation, modifyW_apply] at hm
    injection hm with _ h2
    subst h2
    refine ⟨?_, hs⟩
    unfold L at *
    have hn : 0 ≤ ({ dl with del := del, val := v, denom := d', shares := dl.shares - x } : Delegation).shares := by
      show 0 ≤ dl.shares - x
      unfold Dec at *; omega
    refine (hl.setDel { dl with del := del, val := v, denom := d', shares := dl.shares - x } hn).conv ?_
    intro v2 d
    show 0 + shareOf v2 d _ - oldShare w.dels (del, v, d') v2 d = _
    rw [hold]
    unfold offAt shareOf
    simp only []
    have e : (v = v2 ∧ d' = d) ↔ (v2 = v ∧ d = d') := ⟨fun ⟨a, b⟩ => ⟨a.symm, b.symm⟩, fun ⟨a, b⟩ => ⟨a.symm, b.symm⟩⟩
    simp only [e]
    split <;> (unfold Dec at *; omega)

/-- taking `x` delegator shares of `d'` off the in-memory validator (no overdraft) and storing it -/
theorem updateValidatorShares_sub_inv (off : ValId → Denom → Int) (val : AVal) (d' : Denom) (x : Dec) (vs : DecCoins)
    (hx : x ≠ 0 → x ≤ DecCoins.amountOf val.info.totalDelShares d') :
    Hoare (fun w => L off w ∧ Sync val w) (updateValidatorShares val (DecCoins.single d' x) vs false)
      (fun val' w => L (fun v d => off v d + offAt val.id d' x v d) w ∧ Sync val' w ∧ val'.id = val.id) := by
  constructor
  intro w w' val' hm hP
  obtain ⟨hl, hs⟩ := hP
  unfold updateValidatorShares at hm
  simp only [Bool.false_eq_true, if_false, bind_apply] at hm
  cases h1 : subtractDecCoinsWithRounding val.info.totalDelShares (DecCoins.single d' x) with
  | error e => rw [h1] at hm; simp [bind, Except.bind, liftE_error] at hm
  | ok t1 =>
    cases h2 : subtractDecCoinsWithRounding val.info.valShares vs with
    | error e => rw [h1, h2] at hm; simp [bind, Except.bind, liftE_error] at hm
    | ok t2 =>
      rw [h1, h2] at hm
      simp only [bind, Except.bind, Pure.pure, Except.pure, liftE_ok, setValidator, setValInfo, modifyW_apply, pure_apply] at hm
      injection hm with h3 h4
      injection h3 with h3
      subst h3 h4
      obtain ⟨hsum, hsort⟩ := subtract_single_exact _ d' x t1 h1 hx
      refine ⟨?_, ?_, rfl⟩
      · have := L_setValidator (off := off) (val := val)
          { val.info with totalDelShares := t1, valShares := t2 } d' (-x) hl hs (hsort (sorted_of_sync hl hs))
          (fun d => by show DecCoins.sumOf t1 d = _; rw [hsum d]; split <;> omega)
        refine this.conv ?_
        intro v d
        unfold offAt
        have e : (v = val.id ∧ d' = d) ↔ (v = val.id ∧ d = d') := ⟨fun ⟨a, b⟩ => ⟨a, b.symm⟩, fun ⟨a, b⟩ => ⟨a, b.symm⟩⟩
        simp only [e]
        split <;> omega
      · exact sync_set val w.vals _ _ rfl rfl

theorem AL_get_mapVal {κ α β : Type} [DecidableEq κ] (l : List (κ × α)) (f : α → β) (k : κ) :
    AL.get (l.map fun p => (p.1, f p.2)) k = (AL.get l k).map f := by
  induction l with
  | nil => rfl
  | cons hd t ih =>
    obtain ⟨k', v'⟩ := hd
    simp only [List.map_cons, AL.get_cons]
    by_cases h : k = k'
    · simp only [h, if_true, Option.map_some]
    · simp only [h, if_false]; exact ih

/-- rewriting every validator record without touching its delegator-share total keeps the ledger -/
theorem L_mapVals {off : ValId → Denom → Int} {w : World} (f : ValInfo → ValInfo)
    (hf : ∀ i, (f i).totalDelShares = i.totalDelShares) (hl : L off w) :
    L off { w with vals := w.vals.map fun p => (p.1, f p.2) } := by
  unfold L at *
  refine ⟨hl.dsorted, hl.keyed, hl.nonneg, ?_, ?_⟩
  · intro v info hv
    rw [AL_get_mapVal] at hv
    cases hg : AL.get w.vals v with
    | none => rw [hg] at hv; cases hv
    | some i =>
      rw [hg] at hv
      simp only [Option.map_some] at hv
      injection hv with hv
      rw [← hv, hf]; exact hl.vsorted v i hg
  · intro v d
    rw [hl.sums v d]
    unfold tdsL
    rw [AL_get_mapVal]
    cases AL.get w.vals v with
    | none => rfl
    | some i => simp only [Option.map_some, hf]

theorem resetAssetAndValidators_inv (off : ValId → Denom → Int) (a : Asset) :
    Hoare (fun w => L off w) (resetAssetAndValidators a) (fun _ w => L off w) := by
  unfold resetAssetAndValidators
  apply Hoare.ite
  · intro _; exact Hoare.pure _ (fun w h => h)
  · intro _
    apply Hoare.bind (R := fun _ w => L off w)
    · refine Hoare.modifyW _ (fun w h => ?_)
      exact L_mapVals (fun info => { info with valShares := info.valShares.filter fun c => c.1 ≠ a.denom }) (fun _ => rfl) h
    · intro _
      exact Hoare.ofFrame (by dv_frame) (fun p => LedgerO off p.1 p.2)

theorem clearDustShares_inv (del : Acct) (val : AVal) (a : Asset) :
    Hoare (fun w => L0 w ∧ Sync val w) (clearDustShares del val a)
      (fun x w => L (fun v d => - offAt val.id a.denom x v d) w ∧ Sync val w ∧ 0 ≤ x ∧
        (x ≠ 0 → x ≤ DecCoins.amountOf val.info.totalDelShares a.denom)) := by
  unfold clearDustShares
  apply Hoare.getW_bind; intro w0 hP
  obtain ⟨hl, hs⟩ := hP
  have hzero : ∀ w, w = w0 → L (fun v d => - offAt val.id a.denom 0 v d) w ∧ Sync val w ∧ (0:Dec) ≤ 0 ∧
      ((0:Dec) ≠ 0 → (0:Dec) ≤ DecCoins.amountOf val.info.totalDelShares a.denom) := by
    intro w e; subst e
    refine ⟨hl.conv (fun v d => by unfold offAt; split <;> rfl), hs, Int.le_refl 0, fun h => absurd rfl h⟩
  split
  · exact Hoare.pure _ hzero
  · next dl2 hdl =>
    have hkey := L.key_of_get hl hdl
    injection hkey with k1 k23
    injection k23 with k2 k3
    apply Hoare.liftE_bind; intro left _
    apply Hoare.ite
    · intro _
      have hnn : 0 ≤ dl2.shares := hl.nonneg _ (AL.get_some_mem _ _ _ hdl)
      have hle : dl2.shares ≠ 0 → dl2.shares ≤ DecCoins.amountOf val.info.totalDelShares a.denom := by
        intro _
        have h1 := LedgerO.share_le_total hl _ dl2 hdl
        rw [← k2, ← k3, tdsL_of_sync hs] at h1
        rw [DecCoins.amountOf_eq_sumOf _ (sorted_of_sync hl hs)]
        exact h1
      apply Hoare.bind (R := fun _ w => L (fun v d => - offAt val.id a.denom dl2.shares v d) w ∧ Sync val w)
      · unfold deleteDelegation
        refine Hoare.modifyW _ (fun w e => ?_)
        subst e
        refine ⟨?_, hs⟩
        unfold L at *
        rw [← k1]
        refine (hl.eraseDel (del, val.id, a.denom)).conv ?_
        intro v d
        unfold oldShare
        have hg : AL.get w.dels (del, val.id, a.denom) = some dl2 := hdl
        rw [hg]
        unfold offAt shareOf
        simp only []
        rw [← k2, ← k3]
        have e : (val.id = v ∧ a.denom = d) ↔ (v = val.id ∧ d = a.denom) := ⟨fun ⟨x, y⟩ => ⟨x.symm, y.symm⟩, fun ⟨x, y⟩ => ⟨x.symm, y.symm⟩⟩
        simp only [e]
        split <;> omega
      · intro _
        apply Hoare.bind (Hoare.ofFrame (by dv_frame) (fun p => LedgerO (fun v d => - offAt val.id a.denom dl2.shares v d) p.1 p.2 ∧ SyncL val p.2)); intro _
        exact Hoare.pure _ (fun w h => ⟨h.1, h.2, hnn, hle⟩)
    · intro _; exact Hoare.pure _ hzero

/-- `ClearDustDelegation` keeps the ledger: what it deletes from the delegations it takes off the validator's total -/
theorem clearDustDelegation_inv (del : Acct) (val : AVal) (a : Asset) :
    Hoare (fun w => L0 w ∧ Sync val w) (clearDustDelegation del val a) (fun _ w => L0 w) := by
  unfold clearDustDelegation
  apply Hoare.bind (clearDustShares_inv del val a); intro x
  dsimp only []
  apply Hoare.liftE_bind; intro dsc hdsc
  -- the facts about x travel as part of the precondition
  refine Hoare.conseq (P' := fun w => (L (fun v d => - offAt val.id a.denom x v d) w ∧ Sync val w) ∧ 0 ≤ x ∧
      (x ≠ 0 → x ≤ DecCoins.amountOf val.info.totalDelShares a.denom)) (Q' := fun _ w => L0 w) ?_
    (fun w h => ⟨⟨h.1, h.2.1⟩, h.2.2.1, h.2.2.2⟩) (fun _ _ q => q)
  obtain ⟨_, rfl⟩ := mkDecCoins_ok a.denom x dsc hdsc
  apply Hoare.liftE_bind; intro vsc _
  apply Hoare.liftE_bind; intro tds htds
  apply Hoare.liftE_bind; intro vs _
  apply Hoare.bind (R := fun _ w => L0 w)
  · unfold setValidator setValInfo
    refine Hoare.modifyW _ (fun w h => ?_)
    obtain ⟨⟨hl, hs⟩, hx0, hxle⟩ := h
    obtain ⟨hsum, hsort⟩ := subtract_single_exact _ a.denom x tds htds hxle
    have := L_setValidator (off := fun v d => - offAt val.id a.denom x v d) (val := val)
      { val.info with totalDelShares := tds, valShares := vs } a.denom (-x) hl hs (hsort (sorted_of_sync hl hs))
      (fun d => by show DecCoins.sumOf tds d = _; rw [hsum d]; split <;> omega)
    refine this.conv ?_
    intro v d
    unfold offAt
    have e : (v = val.id ∧ a.denom = d) ↔ (v = val.id ∧ d = a.denom) := ⟨fun ⟨p, q⟩ => ⟨p, q.symm⟩, fun ⟨p, q⟩ => ⟨p, q.symm⟩⟩
    simp only [e]
    split <;> omega
  · intro _; exact resetAssetAndValidators_inv _ a

/-- the facts `Undelegate`/`Redelegate` need about the source position, as a predicate of the two stores -/
def SrcInv (val : AVal) (key : DelKey) (dl : Delegation) (p : List (DelKey × Delegation) × List (ValId × ValInfo)) : Prop :=
  LedgerO (fun _ _ => 0) p.1 p.2 ∧ SyncL val p.2 ∧ AL.get p.1 key = some dl

theorem isSome_set_keep (dels : List (DelKey × Delegation)) (key : DelKey) (dl dl2 : Delegation)
    (h : (AL.get dels key).isSome = true) : (AL.get (AL.set dels (dl2.del, dl2.val, dl2.denom) dl2) key).isSome = true := by
  by_cases e : key = (dl2.del, dl2.val, dl2.denom)
  · rw [e, AL.get_set_eq]; rfl
  · rw [AL.get_set_ne _ _ _ _ e]; exact h

/-- how much of a stored position may be taken off its validator's total without overdraft -/
theorem take_le_total {w : World} {val : AVal} {del : Acct} {d' : Denom} {dl : Delegation} {x : Dec}
    (hl : L0 w) (hs : Sync val w) (hg : AL.get w.dels (del, val.id, d') = some dl) (hx : x ≤ dl.shares) :
    x ≤ DecCoins.amountOf val.info.totalDelShares d' := by
  have hkey := L.key_of_get hl hg
  injection hkey with k1 k23
  injection k23 with k2 k3
  have h1 := LedgerO.share_le_total hl _ dl hg
  rw [← k2, ← k3, tdsL_of_sync hs] at h1
  rw [DecCoins.amountOf_eq_sumOf _ (sorted_of_sync hl hs)]
  unfold Dec at *; omega

/-- C03: `Undelegate` keeps the delegator-share ledger -/
theorem undelegate_ledger (del : Acct) (val : AVal) (d' : Denom) (amt : Int) :
    Hoare (Inv0 val) (undelegate del val d' amt) (fun _ w => L0 w) := by
  unfold undelegate
  apply Hoare.getW_bind; intro w0 hP
  split
  · exact Hoare.throwE _
  · next a _ =>
    apply Hoare.guardE_bind; intro hsome
    have hsome' : (AL.get w0.dels (del, val.id, d')).isSome = true := by
      unfold getDelegation at hsome
      cases h : AL.get w0.dels (del, val.id, d') with
      | none => rw [h] at hsome; simp at hsome
      | some _ => rfl
    refine Hoare.conseq (P' := Inv (fun _ _ => 0) val (fun p => (AL.get p.1 (del, val.id, d')).isSome = true))
      (Q' := fun _ w => L0 w) ?_ (fun w e => by subst e; exact ⟨hP.1, hP.2.1, hsome'⟩) (fun _ _ q => q)
    apply Hoare.bind (claimDelegationRewards_inv _ del val d' _ (fun p info h _ => h)
      (fun p dl dl2 hx _ hk _ => by show (AL.get (AL.set p.1 _ dl2) _).isSome = true; rw [AL.get_set_eq]; rfl)); intro r
    apply Hoare.getW_bind; intro w1 hP1
    obtain ⟨⟨hl1, hs1, hx1⟩, hid, _⟩ := hP1
    dsimp only []
    rw [← hid] at hx1
    cases hdl : AL.get w1.dels (del, r.2.id, d') with
    | none => rw [hdl] at hx1; cases hx1
    | some dl =>
      have hgd : getDelegation w1 del r.2.id d' = some dl := hdl
      rw [hgd]
      simp only [Option.getD_some]
      apply Hoare.liftE_bind; intro stu hstu
      have hle := validated_le _ _ _ _ _ hstu
      have htake : stu ≠ 0 → stu ≤ DecCoins.amountOf r.2.info.totalDelShares d' := fun _ => take_le_total hl1 hs1 hdl hle
      apply Hoare.liftE_bind; intro ctu _
      apply Hoare.guardE_bind; intro _
      apply Hoare.liftE_bind; intro vstr _
      refine Hoare.conseq (P' := fun w => SrcInv r.2 (del, r.2.id, d') dl (w.dels, w.vals)) (Q' := fun _ w => L0 w) ?_
        (fun w e => by subst e; exact ⟨hl1, hs1, hdl⟩) (fun _ _ q => q)
      apply Hoare.bind (Hoare.ofFrame (by dv_frame) (SrcInv r.2 (del, r.2.id, d') dl)); intro _
      apply Hoare.bind (R := fun _ w => L (fun v2 d => - offAt r.2.id d' stu v2 d) w ∧ Sync r.2 w)
      · exact (reduceDelegationShares_inv del r.2.id d' stu dl r.2).conseq (fun w h => ⟨h.1, h.2.1, h.2.2, hle⟩) (fun _ _ q => q)
      · intro _
        apply Hoare.liftE_bind; intro dsc hdsc
        obtain ⟨_, rfl⟩ := mkDecCoins_ok d' stu dsc hdsc
        apply Hoare.liftE_bind; intro vsc _
        apply Hoare.bind (R := fun val2 w => L0 w ∧ Sync val2 w)
        · refine (updateValidatorShares_sub_inv _ r.2 d' stu vsc htake).conseq (fun w h => h) (fun _ w q => ⟨?_, q.2.1⟩)
          exact q.1.conv (fun v d => by omega)
        · intro val2
          apply Hoare.bind (clearDustDelegation_inv del val2 _); intro _
          apply Hoare.bind (Hoare.ofFrame (by dv_frame) (fun p => LedgerO (fun _ _ => 0) p.1 p.2)); intro _
          exact Hoare.ofFrame (by dv_frame) (fun p => LedgerO (fun _ _ => 0) p.1 p.2)

/-! ### a second in-memory validator stays in step while the first one is written -/

theorem Hoare.and {α} {P1 P2 : World → Prop} {m : M α} {Q1 Q2 : α → World → Prop}
    (h1 : Hoare P1 m Q1) (h2 : Hoare P2 m Q2) : Hoare (fun w => P1 w ∧ P2 w) m (fun a w => Q1 a w ∧ Q2 a w) :=
  ⟨fun w w' a hm hw => ⟨h1.run w w' a hm hw.1, h2.run w w' a hm hw.2⟩⟩

theorem syncL_set_other {dst : AVal} {vals : List (ValId × ValInfo)} (vid : ValId) (info : ValInfo) (hne : dst.id ≠ vid)
    (h : SyncL dst vals) : SyncL dst (AL.set vals vid info) := by
  obtain ⟨i, hg, ht⟩ := h
  exact ⟨i, by rw [AL.get_set_ne _ _ _ _ hne]; exact hg, ht⟩

theorem syncL_map {dst : AVal} {vals : List (ValId × ValInfo)} (f : ValInfo → ValInfo)
    (hf : ∀ i, (f i).totalDelShares = i.totalDelShares) (h : SyncL dst vals) :
    SyncL dst (vals.map fun p => (p.1, f p.2)) := by
  obtain ⟨i, hg, ht⟩ := h
  exact ⟨f i, by rw [AL_get_mapVal, hg]; rfl, by rw [hf]; exact ht⟩

/-- `Sync dst` as a predicate of the stores, for the frame rule -/
theorem Sync.frame {dst : AVal} {α} {m : M α} (h : FrameDV.Fr m) : Hoare (Sync dst) m (fun _ w => Sync dst w) :=
  Hoare.ofFrame h (fun p => SyncL dst p.2)

theorem setValidator_sync (dst val : AVal) (hne : dst.id ≠ val.id) : Hoare (Sync dst) (setValidator val) (fun _ w => Sync dst w) := by
  unfold setValidator setValInfo
  exact Hoare.modifyW _ (fun w h => syncL_set_other val.id val.info hne h)

theorem setDelegation_sync (dst : AVal) (dl : Delegation) : Hoare (Sync dst) (setDelegation dl) (fun _ w => Sync dst w) := by
  unfold setDelegation; exact Hoare.modifyW _ (fun w h => h)
theorem deleteDelegation_sync (dst : AVal) (del : Acct) (v : ValId) (d : Denom) :
    Hoare (Sync dst) (deleteDelegation del v d) (fun _ w => Sync dst w) := by
  unfold deleteDelegation; exact Hoare.modifyW _ (fun w h => h)

theorem reduceDelegationShares_sync (dst : AVal) (del : Acct) (v : ValId) (d : Denom) (x : Dec) (dl : Delegation) :
    Hoare (Sync dst) (reduceDelegationShares del v d x dl) (fun _ w => Sync dst w) := by
  unfold reduceDelegationShares
  dsimp only []
  split
  · exact deleteDelegation_sync dst del v d
  · exact setDelegation_sync dst _

theorem updateValidatorShares_sync (dst val : AVal) (ds vs : DecCoins) (isAdd : Bool) (hne : dst.id ≠ val.id) :
    Hoare (Sync dst) (updateValidatorShares val ds vs isAdd) (fun _ w => Sync dst w) := by
  unfold updateValidatorShares
  apply Hoare.liftE_bind; intro info' _
  dsimp only []
  apply Hoare.bind (setValidator_sync dst { val with info := info' } hne); intro _
  exact Hoare.pure _ (fun w h => h)

theorem resetAssetAndValidators_sync (dst : AVal) (a : Asset) :
    Hoare (Sync dst) (resetAssetAndValidators a) (fun _ w => Sync dst w) := by
  unfold resetAssetAndValidators
  apply Hoare.ite
  · intro _; exact Hoare.pure _ (fun w h => h)
  · intro _
    apply Hoare.bind (R := fun _ w => Sync dst w)
    · refine Hoare.modifyW _ (fun w h => ?_)
      exact syncL_map (fun info => { info with valShares := info.valShares.filter fun c => c.1 ≠ a.denom }) (fun _ => rfl) h
    · intro _; exact Sync.frame (by dv_frame)

theorem clearDustDelegation_sync (dst : AVal) (del : Acct) (val : AVal) (a : Asset) (hne : dst.id ≠ val.id) :
    Hoare (Sync dst) (clearDustDelegation del val a) (fun _ w => Sync dst w) := by
  unfold clearDustDelegation
  apply Hoare.bind (R := fun _ w => Sync dst w)
  · unfold clearDustShares
    apply Hoare.getW_bind; intro w0 hP
    apply Hoare.at_state hP
    split
    · exact Hoare.pure _ (fun w h => h)
    · apply Hoare.liftE_bind; intro _ _
      apply Hoare.ite
      · intro _
        apply Hoare.bind (deleteDelegation_sync dst _ _ _); intro _
        apply Hoare.bind (Sync.frame (by dv_frame)); intro _
        exact Hoare.pure _ (fun w h => h)
      · intro _; exact Hoare.pure _ (fun w h => h)
  · intro x
    dsimp only []
    apply Hoare.bind (Sync.frame (by dv_frame)); intro _
    apply Hoare.bind (Sync.frame (by dv_frame)); intro _
    apply Hoare.bind (Sync.frame (by dv_frame)); intro tds
    apply Hoare.bind (Sync.frame (by dv_frame)); intro vs
    apply Hoare.bind (setValidator_sync dst { val with info := { val.info with totalDelShares := tds, valShares := vs } } hne); intro _
    exact resetAssetAndValidators_sync dst a

/-- C03: `Redelegate` keeps the delegator-share ledger -/
theorem redelegate_ledger (del : Acct) (src dst : AVal) (d' : Denom) (amt : Int) :
    Hoare (fun w => L0 w ∧ Sync src w ∧ Sync dst w) (redelegate del src dst d' amt) (fun _ w => L0 w) := by
  unfold redelegate
  apply Hoare.guardE_bind; intro hne
  have hne1 : dst.id ≠ src.id := fun e => hne e.symm
  apply Hoare.getW_bind; intro w0 hP
  obtain ⟨hl0, hs0, hd0⟩ := hP
  split
  · exact Hoare.throwE _
  · next a _ =>
    apply Hoare.guardE_bind; intro hsome
    have hsome' : (AL.get w0.dels (del, src.id, d')).isSome = true := by
      unfold getDelegation at hsome
      cases h : AL.get w0.dels (del, src.id, d') with
      | none => rw [h] at hsome; simp at hsome
      | some _ => rfl
    refine Hoare.conseq (P' := Inv (fun _ _ => 0) src (fun p => (AL.get p.1 (del, src.id, d')).isSome = true ∧ SyncL dst p.2))
      (Q' := fun _ w => L0 w) ?_ (fun w e => by subst e; exact ⟨hl0, hs0, hsome', hd0⟩) (fun _ _ q => q)
    apply Hoare.bind (claimDelegationRewards_inv _ del src d' _
      (fun p info h _ => ⟨h.1, syncL_set_other src.id info hne1 h.2⟩)
      (fun p dl dl2 hx _ hk _ => ⟨by show (AL.get (AL.set p.1 _ dl2) _).isSome = true; rw [AL.get_set_eq]; rfl, hx.2⟩)); intro r
    apply Hoare.getW_bind; intro w1 hP1
    obtain ⟨⟨hl1, hs1, hx1, hd1⟩, hid, _⟩ := hP1
    dsimp only []
    rw [← hid] at hx1
    have hne2 : r.2.id ≠ dst.id := by rw [hid]; exact hne
    cases hdl : AL.get w1.dels (del, r.2.id, d') with
    | none => rw [hdl] at hx1; cases hx1
    | some srcDl =>
      have hgd : getDelegation w1 del r.2.id d' = some srcDl := hdl
      rw [hgd]
      simp only [Option.getD_some]
      -- settle the destination; the source position and the source validator stay as they are
      refine Hoare.conseq (P' := Inv (fun _ _ => 0) dst (fun p => AL.get p.1 (del, r.2.id, d') = some srcDl ∧ SyncL r.2 p.2))
        (Q' := fun _ w => L0 w) ?_ (fun w e => by subst e; exact ⟨hl1, hd1, hdl, hs1⟩) (fun _ _ q => q)
      apply Hoare.bind (settleBeforeDeposit_inv _ del dst d' _
        (fun p info h _ => ⟨h.1, syncL_set_other dst.id info hne2 h.2⟩)
        (fun p dl dl2 hx _ hk _ => ⟨by
          show AL.get (AL.set p.1 _ dl2) _ = _
          rw [AL.get_set_ne _ _ _ _ (fun e => hne2 (by injection e with _ e2; injection e2))]; exact hx.1, hx.2⟩)); intro dst1
      apply Hoare.liftE_bind; intro str hstr
      have hle := validated_le _ _ _ _ _ hstr
      apply Hoare.liftE_bind; intro ctr _
      apply Hoare.guardE_bind; intro _
      apply Hoare.getW_bind; intro w2 hP2
      obtain ⟨⟨hl2, hsd2, hg2, hss2⟩, hid2, _⟩ := hP2
      have hne3 : dst1.id ≠ r.2.id := by rw [hid2]; exact fun e => hne2 e.symm
      have htake : str ≠ 0 → str ≤ DecCoins.amountOf r.2.info.totalDelShares d' := fun _ => take_le_total hl2 hss2 hg2 hle
      apply Hoare.guardE_bind; intro _
      try dsimp only []
      apply Hoare.liftE_bind; intro cvs _
      refine Hoare.conseq (P' := fun w => SrcInv r.2 (del, r.2.id, d') srcDl (w.dels, w.vals) ∧ Sync dst1 w)
        (Q' := fun _ w => L0 w) ?_ (fun w e => by subst e; exact ⟨⟨hl2, hss2, hg2⟩, hsd2⟩) (fun _ _ q => q)
      apply Hoare.bind (R := fun _ w => (L (fun v2 d => - offAt r.2.id d' str v2 d) w ∧ Sync r.2 w) ∧ Sync dst1 w)
      · exact Hoare.and
          ((reduceDelegationShares_inv del r.2.id d' str srcDl r.2).conseq (fun w h => ⟨h.1, h.2.1, h.2.2, hle⟩) (fun _ _ q => q))
          (reduceDelegationShares_sync dst1 del r.2.id d' str srcDl)
      · intro _
        apply Hoare.liftE_bind; intro dsc hdsc
        obtain ⟨_, rfl⟩ := mkDecCoins_ok d' str dsc hdsc
        apply Hoare.liftE_bind; intro vsc _
        apply Hoare.bind (R := fun src2 w => (L0 w ∧ Sync src2 w ∧ src2.id = r.2.id) ∧ Sync dst1 w)
        · refine Hoare.and ?_ (updateValidatorShares_sync dst1 r.2 _ vsc false hne3)
          refine (updateValidatorShares_sub_inv _ r.2 d' str vsc htake).conseq (fun w h => h) (fun _ w q => ⟨?_, q.2.1, q.2.2⟩)
          exact q.1.conv (fun v d => by omega)
        · intro src2
          -- the id of the stored source validator is needed to keep the destination apart
          refine Hoare.conseq (P' := fun w => (L0 w ∧ Sync src2 w) ∧ Sync dst1 w ∧ src2.id = r.2.id) (Q' := fun _ w => L0 w) ?_
            (fun w h => ⟨⟨h.1.1, h.1.2.1⟩, h.2, h.1.2.2⟩) (fun _ _ q => q)
          constructor
          intro w w' u hm hpre
          obtain ⟨hA, hB, hidS⟩ := hpre
          have hne4 : dst1.id ≠ src2.id := by rw [hidS]; exact hne3
          revert hm
          generalize hgen : (clearDustDelegation del src2 a >>= fun _ => _) = prog
          intro hm
          have hH : Hoare (fun w => (L0 w ∧ Sync src2 w) ∧ Sync dst1 w) prog (fun _ w => L0 w) := by
            rw [← hgen]
            apply Hoare.bind (Hoare.and (clearDustDelegation_inv del src2 a) (clearDustDelegation_sync dst1 del src2 a hne4)); intro _
            apply Hoare.bind (R := fun nds w => Mid dst1 d' nds w)
            · exact (upsert_inv del dst1 d' amt a).conseq (fun w h => ⟨h.1, h.2, trivial⟩) (fun _ _ q => q)
            · intro nds
              apply Hoare.liftE_bind; intro dsc2 hdsc2
              obtain ⟨hn0, rfl⟩ := mkDecCoins_ok d' nds dsc2 hdsc2
              apply Hoare.bind (R := fun _ w => L0 w)
              · refine (updateValidatorShares_add_inv (offAt dst1.id d' nds) dst1 d' nds vsc).conseq
                  (fun w h => ⟨h.1 hn0, h.2⟩) (fun _ w q => ?_)
                exact q.1.conv (fun v d => by omega)
              · intro _
                apply Hoare.bind (Hoare.ofFrame (by dv_frame) (fun p => LedgerO (fun _ _ => 0) p.1 p.2)); intro _
                exact Hoare.ofFrame (by dv_frame) (fun p => LedgerO (fun _ _ => 0) p.1 p.2)
          exact hH.run w w' u hm ⟨hA, hB⟩

/-- `GetAllianceValidator`: the returned in-memory validator is in step with the store (an empty record is created
    for a validator seen for the first time); other in-memory validators stay in step -/
theorem getAllianceValidator_inv (v : ValId) (X : List (DelKey × Delegation) × List (ValId × ValInfo) → Prop)
    (hXv : ∀ p info, X p → AL.get p.2 v = none → X (p.1, AL.set p.2 v info)) :
    Hoare (fun w => L0 w ∧ X (w.dels, w.vals)) (getAllianceValidator v)
      (fun val w => L0 w ∧ Sync val w ∧ val.id = v ∧ X (w.dels, w.vals)) := by
  unfold getAllianceValidator
  apply Hoare.getW_bind; intro w0 hP
  obtain ⟨hl, hx⟩ := hP
  split
  · exact Hoare.throwE _
  · next sv _ =>
    split
    · next info hinfo =>
      exact Hoare.pure _ (fun w e => by subst e; exact ⟨hl, ⟨info, hinfo, rfl⟩, rfl, hx⟩)
    · next hnone =>
      apply Hoare.bind (R := fun _ w => L0 w ∧ SyncL { id := v, sval := sv, info := ValInfo.empty } w.vals ∧ X (w.dels, w.vals))
      · unfold setValInfo
        refine Hoare.modifyW _ (fun w e => ?_)
        subst e
        refine ⟨?_, ⟨ValInfo.empty, by simp only [AL.get_set_eq], rfl⟩, hXv _ _ hx hnone⟩
        unfold L0 L at *
        refine (hl.setVal v ValInfo.empty DecCoins.sorted_nil).conv ?_
        intro v2 d
        by_cases e : v2 = v
        · subst e
          have : tdsL w.vals v2 d = 0 := by unfold tdsL; rw [hnone]
          simp only [if_true, this]; rfl
        · simp only [e, if_false]; omega
      · intro _
        exact Hoare.pure _ (fun w h => ⟨h.1, h.2.1, rfl, h.2.2⟩)

/-- C03, user operations: a successful `MsgDelegate` keeps the delegator-share ledger -/
theorem msgDelegate_ledger (del : Acct) (v : ValId) (d' : Denom) (amt : Int) :
    Hoare L0 (msgDelegate del v d' amt) (fun _ w => L0 w) := by
  unfold msgDelegate
  apply Hoare.guardE_bind; intro _
  apply Hoare.bind ((getAllianceValidator_inv v (fun _ => True) (fun _ _ _ _ => trivial)).conseq (fun w h => ⟨h, trivial⟩) (fun _ _ q => q)); intro val
  exact (delegate_ledger del val d' amt).conseq (fun w h => ⟨h.1, h.2.1, trivial⟩) (fun _ _ q => q)

theorem msgUndelegate_ledger (del : Acct) (v : ValId) (d' : Denom) (amt : Int) :
    Hoare L0 (msgUndelegate del v d' amt) (fun _ w => L0 w) := by
  unfold msgUndelegate
  apply Hoare.guardE_bind; intro _
  apply Hoare.bind ((getAllianceValidator_inv v (fun _ => True) (fun _ _ _ _ => trivial)).conseq (fun w h => ⟨h, trivial⟩) (fun _ _ q => q)); intro val
  exact (undelegate_ledger del val d' amt).conseq (fun w h => ⟨h.1, h.2.1, trivial⟩) (fun _ _ q => q)

theorem msgClaim_ledger (del : Acct) (v : ValId) (d' : Option Denom) :
    Hoare L0 (msgClaim del v d') (fun _ w => L0 w) := by
  unfold msgClaim
  cases d' with
  | none => exact Hoare.throwE _
  | some dd =>
    dsimp only []
    apply Hoare.bind ((getAllianceValidator_inv v (fun _ => True) (fun _ _ _ _ => trivial)).conseq (fun w h => ⟨h, trivial⟩) (fun _ _ q => q)); intro val
    apply Hoare.bind ((claimDelegationRewards_inv (fun _ _ => 0) del val dd (fun _ => True) (fun _ _ _ _ => trivial) (fun _ _ _ _ _ _ _ => trivial)).conseq
      (fun w h => ⟨h.1, h.2.1, trivial⟩) (fun _ _ q => q)); intro r
    exact Hoare.pure _ (fun w h => h.1.1)

theorem msgRedelegate_ledger (del : Acct) (s t : ValId) (d' : Denom) (amt : Int) :
    Hoare L0 (msgRedelegate del s t d' amt) (fun _ w => L0 w) := by
  unfold msgRedelegate
  apply Hoare.guardE_bind; intro _
  apply Hoare.bind ((getAllianceValidator_inv s (fun _ => True) (fun _ _ _ _ => trivial)).conseq (fun w h => ⟨h, trivial⟩) (fun _ _ q => q)); intro sv
  -- loading the destination keeps the source in step: a record is only created where none was
  refine Hoare.conseq (P' := fun w => L0 w ∧ SyncL sv w.vals) (Q' := fun _ w => L0 w) ?_ (fun w h => ⟨h.1, h.2.1⟩) (fun _ _ q => q)
  apply Hoare.bind (getAllianceValidator_inv t (fun p => SyncL sv p.2) (fun p info hx hnone => by
    obtain ⟨i, hg, ht⟩ := hx
    by_cases e : sv.id = t
    · rw [e] at hg; rw [hg] at hnone; cases hnone
    · exact ⟨i, by show AL.get (AL.set p.2 t info) sv.id = _; rw [AL.get_set_ne _ _ _ _ e]; exact hg, ht⟩)); intro tv
  exact (redelegate_ledger del sv tv d' amt).conseq (fun w h => ⟨h.1, h.2.2.2, h.2.1⟩) (fun _ _ q => q)

/-- C03: every user operation — delegate, undelegate, redelegate, claim — keeps, whether it succeeds or fails, the
    delegator-share ledger: for every validator and denom the delegations' shares sum to the validator's recorded total
    (with the records sorted, keyed, non-negative, and every validator's share coins strictly sorted) -/
theorem user_step_keeps_ledger (op : Op) (w : World) (hl : L0 w)
    (hop : match op with | .delegate .. | .undelegate .. | .redelegate .. | .claim .. => True | _ => False) :
    L0 (step op w).2 := by
  have key : ∀ (m : M Unit), Hoare L0 m (fun _ w => L0 w) → L0 (asTx m w).2 := by
    intro m hm
    rw [asTx_apply]
    rcases hmw : m w with ⟨r, w1⟩
    cases r with
    | ok u => exact hm.run w w1 u hmw hl
    | error e => exact hl
  cases op with
  | delegate del v d amt => exact key _ (msgDelegate_ledger del v d amt)
  | undelegate del v d amt => exact key _ (msgUndelegate_ledger del v d amt)
  | redelegate del s t d amt => exact key _ (msgRedelegate_ledger del s t d amt)
  | claim del v d => exact key _ (msgClaim_ledger del v d)
  | _ => exact absurd hop (by simp)

/-! ## governance, end-of-block -/

theorem Hoare.forEachM {γ : Type} {I : World → Prop} (f : γ → M Unit) (xs : List γ)
    (h : ∀ x ∈ xs, Hoare I (f x) (fun _ w => I w)) : Hoare I (Alliance.forEachM f xs) (fun _ w => I w) := by
  induction xs with
  | nil => unfold Alliance.forEachM; exact Hoare.pure _ (fun w hw => hw)
  | cons x t ih =>
    unfold Alliance.forEachM
    exact Hoare.bind (h x (List.mem_cons_self ..)) (fun _ => ih (fun y hy => h y (List.mem_cons_of_mem _ hy)))

theorem Hoare.foldlM {γ σ : Type} {R : σ → World → Prop} (f : σ → γ → M σ) (xs : List γ) (init : σ)
    (h : ∀ s, ∀ x ∈ xs, Hoare (R s) (f s x) (fun s' w => R s' w)) : Hoare (R init) (xs.foldlM f init) (fun s' w => R s' w) := by
  induction xs generalizing init with
  | nil => exact Hoare.pure _ (fun w hw => hw)
  | cons x t ih =>
    rw [List.foldlM_cons]
    exact Hoare.bind (h init x (List.mem_cons_self ..)) (fun s => ih s (fun s' y hy => h s' y (List.mem_cons_of_mem _ hy)))

theorem L0.frame {α} {m : M α} (h : FrameDV.Fr m) : Hoare L0 m (fun _ w => L0 w) :=
  Hoare.ofFrame h (fun p => LedgerO (fun _ _ => 0) p.1 p.2)

/-- all in-memory validators of a list are in step with the store -/
def SyncAll (vs : List AVal) (p : List (DelKey × Delegation) × List (ValId × ValInfo)) : Prop := ∀ v ∈ vs, SyncL v p.2

theorem syncAll_stable (vs : List AVal) (val : AVal) (hin : val ∈ vs) :
    StableV val.id val.info.totalDelShares (SyncAll vs) := by
  intro p info hx ht v hv
  by_cases e : v.id = val.id
  · obtain ⟨i2, hg2, ht2⟩ := hx val hin
    obtain ⟨i, hg, htv⟩ := hx v hv
    rw [e, hg2] at hg
    injection hg with hg
    refine ⟨info, by show AL.get (AL.set p.2 val.id info) v.id = _; rw [e, AL.get_set_eq], ?_⟩
    rw [ht, ← ht2, hg, htv]
  · exact syncL_set_other val.id info e (hx v hv)

/-- one validator's pending rewards are indexed (history only): the ledger and every tracked in-memory validator stay -/
theorem claimValidatorRewards_all (vs : List AVal) (val : AVal) (hin : val ∈ vs) :
    Hoare (fun w => L0 w ∧ SyncAll vs (w.dels, w.vals)) (claimValidatorRewards val)
      (fun _ w => L0 w ∧ SyncAll vs (w.dels, w.vals)) :=
  (claimValidatorRewards_inv (fun _ _ => 0) val (SyncAll vs) (syncAll_stable vs val hin)).conseq
    (fun w h => ⟨h.1, h.2 val hin, h.2⟩) (fun _ w q => ⟨q.1.1, q.1.2.2⟩)

theorem settleAllValidators_ledger (asset : Asset) (c : Bool) (vals : List (ValId × ValInfo)) :
    Hoare L0 (settleAllValidators asset c vals) (fun _ w => L0 w) := by
  unfold settleAllValidators
  split
  · apply Hoare.bind
    · apply Hoare.forEachM
      intro kv _
      apply Hoare.bind ((getAllianceValidator_inv kv.1 (fun _ => True) (fun _ _ _ _ => trivial)).conseq (fun w h => ⟨h, trivial⟩) (fun _ _ q => q)); intro validator
      apply Hoare.bind ((claimValidatorRewards_inv (fun _ _ => 0) validator (fun _ => True) (fun _ _ _ _ => trivial)).conseq
        (fun w h => ⟨h.1, h.2.1, trivial⟩) (fun _ w q => q.1.1)); intro v2
      exact L0.frame (by dv_frame)
    · intro _; exact L0.frame (by dv_frame)
  · exact Hoare.pure _ (fun w h => h)

theorem updateAllianceAsset_ledger (newAsset : Asset) : Hoare L0 (updateAllianceAsset newAsset) (fun _ w => L0 w) := by
  unfold updateAllianceAsset
  apply Hoare.getW_bind; intro w0 hP
  apply Hoare.at_state hP
  split
  · exact Hoare.throwE _
  · apply Hoare.bind (L0.frame (by dv_frame)); intro _
    apply Hoare.bind (settleAllValidators_ledger _ _ _); intro _
    apply Hoare.getW_bind; intro w1 hP1
    apply Hoare.at_state hP1
    exact L0.frame (by dv_frame)

theorem rewardWeightChangeHook_go_ledger (rest acc : List Asset) :
    Hoare L0 (rewardWeightChangeHook.go rest acc) (fun _ w => L0 w) := by
  induction rest generalizing acc with
  | nil => unfold rewardWeightChangeHook.go; exact Hoare.pure _ (fun w h => h)
  | cons a r ih =>
    unfold rewardWeightChangeHook.go
    apply Hoare.getW_bind; intro w0 hP
    apply Hoare.at_state hP
    apply Hoare.ite
    · intro _; exact ih _
    · intro _
      dsimp only []
      split
      · apply Hoare.bind (L0.frame (by dv_frame)); intro _
        apply Hoare.bind (updateAllianceAsset_ledger _); intro _
        exact ih _
      · exact Hoare.panicE _

theorem rewardWeightChangeHook_ledger (assets : List Asset) : Hoare L0 (rewardWeightChangeHook assets) (fun _ w => L0 w) := by
  unfold rewardWeightChangeHook
  exact rewardWeightChangeHook_go_ledger assets []

abbrev LAll (vs : List AVal) : World → Prop := fun w => L0 w ∧ SyncAll vs (w.dels, w.vals)

theorem LAll.frame {vs} {α} {m : M α} (h : FrameDV.Fr m) : Hoare (LAll vs) m (fun _ w => LAll vs w) :=
  Hoare.ofFrame h (fun p => LedgerO (fun _ _ => 0) p.1 p.2 ∧ SyncAll vs p)

/-- the rebalancer works on snapshots of all validators taken at its start; each is written back with only its reward
    history changed, so the ledger holds throughout -/
theorem rebalanceBondTokenWeights_ledger (assets : List Asset) :
    Hoare L0 (rebalanceBondTokenWeights assets) (fun _ w => L0 w) := by
  unfold rebalanceBondTokenWeights
  apply Hoare.getW_bind; intro w0 hP
  try dsimp only []
  refine Hoare.conseq (P' := LAll []) (Q' := fun _ w => L0 w) ?_
    (fun w e => by subst e; exact ⟨hP, fun v hv => by cases hv⟩) (fun _ _ q => q)
  apply Hoare.bind (R := fun snaps w => LAll snaps w)
  · apply Hoare.foldlM (R := fun acc w => LAll acc w)
    intro acc v _
    apply Hoare.bind (R := fun val w => LAll acc w ∧ Sync val w)
    · refine (getAllianceValidator_inv v (SyncAll acc) ?_).conseq (fun w h => h) (fun val w q => ⟨⟨q.1, q.2.2.2⟩, q.2.1⟩)
      intro p info hx hnone v' hv'
      obtain ⟨i, hg, ht⟩ := hx v' hv'
      by_cases e : v'.id = v
      · rw [e] at hg; rw [hg] at hnone; cases hnone
      · exact ⟨i, by show AL.get (AL.set p.2 v info) v'.id = _; rw [AL.get_set_ne _ _ _ _ e]; exact hg, ht⟩
    · intro val
      refine Hoare.pure _ (fun w h => ⟨h.1.1, ?_⟩)
      intro v' hv'
      rcases List.mem_append.mp hv' with h1 | h1
      · exact h.1.2 v' h1
      · rw [List.mem_singleton.mp h1]; exact h.2
  · intro snaps
    refine Hoare.conseq (P' := LAll snaps) (Q' := fun _ w => LAll snaps w) ?_ (fun w h => h) (fun _ w q => q.1)
    apply Hoare.forEachM
    intro validator hval
    have hin : validator ∈ snaps := (List.mem_filter.mp hval).1
    apply Hoare.getW_bind; intro w1 hP1
    apply Hoare.at_state hP1
    try dsimp only []
    apply Hoare.bind (R := fun _ w => LAll snaps w)
    · apply LAll.frame
      apply FrameDV.foldlM
      intro acc a
      split
      · exact FrameDV.bind (by dv_frame) (fun _ => FrameDV.pure _)
      · try dsimp only []
        split <;> exact FrameDV.pure _
    · intro expected
      apply Hoare.ite
      · intro _
        try dsimp only []
        apply Hoare.ite
        · intro _; exact Hoare.pure _ (fun w h => h)
        · intro _
          apply Hoare.bind (LAll.frame (by dv_frame)); intro _
          apply Hoare.bind (claimValidatorRewards_all snaps validator hin); intro _
          exact LAll.frame (by dv_frame)
      · intro _
        apply Hoare.ite
        · intro _
          try dsimp only []
          apply Hoare.ite
          · intro _; exact Hoare.pure _ (fun w h => h)
          · intro _
            apply Hoare.bind (LAll.frame (by dv_frame)); intro _
            apply Hoare.bind (claimValidatorRewards_all snaps validator hin); intro _
            apply Hoare.bind (LAll.frame (by dv_frame)); intro _
            exact LAll.frame (by dv_frame)
        · intro _; exact Hoare.pure _ (fun w h => h)

theorem rebalanceHook_ledger (assets : List Asset) : Hoare L0 (rebalanceHook assets) (fun _ w => L0 w) := by
  unfold rebalanceHook
  apply Hoare.getW_bind; intro w0 hP
  apply Hoare.at_state hP
  apply Hoare.ite
  · intro _
    apply Hoare.bind (L0.frame (by apply FrameDV.modifyW; intro w; rfl)); intro _
    exact rebalanceBondTokenWeights_ledger assets
  · intro _; exact Hoare.pure _ (fun w h => h)

/-- C03: a successful end-of-block keeps the delegator-share ledger -/
theorem endBlocker_ledger : Hoare L0 endBlocker (fun _ w => L0 w) := by
  unfold endBlocker
  apply Hoare.bind (L0.frame (by dv_frame)); intro _
  apply Hoare.bind (L0.frame (by dv_frame)); intro _
  apply Hoare.getW_bind; intro w0 hP
  apply Hoare.at_state hP
  try dsimp only []
  apply Hoare.bind (L0.frame (by dv_frame)); intro as1
  apply Hoare.bind (L0.frame (by dv_frame)); intro as2
  apply Hoare.bind (rewardWeightChangeHook_ledger as2); intro as3
  exact rebalanceHook_ledger as3

theorem msgUpdateAlliance_ledger (s : Signer) (f : AllianceFields) : Hoare L0 (msgUpdateAlliance s f) (fun _ w => L0 w) := by
  unfold msgUpdateAlliance
  apply Hoare.bind (L0.frame (by dv_frame)); intro _
  apply Hoare.bind (L0.frame (FrameDV.requireSome _ _)); intro denom
  apply Hoare.bind (L0.frame (FrameDV.requireSome _ _)); intro weight
  apply Hoare.bind (L0.frame (by dv_frame)); intro _
  apply Hoare.bind (L0.frame (FrameDV.requireSome _ _)); intro takeRate
  apply Hoare.bind (L0.frame (by dv_frame)); intro _
  apply Hoare.bind (L0.frame (FrameDV.requireSomeP _)); intro changeRate
  apply Hoare.bind (L0.frame (by dv_frame)); intro _
  apply Hoare.bind (L0.frame (by dv_frame)); intro _
  apply Hoare.bind (L0.frame (by dv_frame)); intro _
  apply Hoare.getW_bind; intro w0 hP
  apply Hoare.at_state hP
  apply Hoare.bind (L0.frame (FrameDV.requireSome _ _)); intro asset
  apply Hoare.bind (L0.frame (FrameDV.requireSomeP _)); intro wmin
  apply Hoare.bind (L0.frame (by dv_frame)); intro _
  apply Hoare.bind (L0.frame (FrameDV.requireSomeP _)); intro wmax
  apply Hoare.bind (L0.frame (by dv_frame)); intro _
  exact updateAllianceAsset_ledger _

/-! ## the slash callback -/

/-- asset records are stored under their own denom -/
def AssetsKeyed (w : World) : Prop := ∀ p ∈ w.assets, p.2.denom = p.1

theorem Hoare.ofAFrame {α} {m : M α} (h : AFrame m) (K : List (Denom × Asset) → Prop) :
    Hoare (fun w => K w.assets) m (fun _ w => K w.assets) := by
  constructor
  intro w w' a hm hw
  have := h.frame w
  rw [hm] at this
  show K w'.assets
  rw [this]; exact hw

theorem cappedShares_le (dlShares : Dec) (tokens : Int) (info : ValInfo) (a : Asset) (s : Dec)
    (h : cappedShares dlShares tokens info a = .ok s) : s ≤ dlShares := by
  unfold cappedShares at h
  cases hv : validateDelegatedAmount dlShares tokens info a with
  | ok s0 =>
    rw [hv] at h
    injection h with h; subst h
    exact validated_le _ _ _ _ _ hv
  | error e =>
    rw [hv] at h
    split at h
    · next heq => cases heq
    · injection h with h; subst h; exact Int.le_refl _
    · cases h

theorem decCoinsSub_single_spec (tds : DecCoins) (d' : Denom) (x : Dec) (r : DecCoins)
    (h : decCoinsSub tds (DecCoins.single d' x) = .ok r) :
    (∀ d, DecCoins.sumOf r d = DecCoins.sumOf tds d - (if d' = d then x else 0)) ∧ (DecCoins.Sorted tds → DecCoins.Sorted r) :=
  ⟨fun d => by rw [decCoinsSub_sum _ _ _ h, DecCoins.sumOf_single], fun hs => decCoinsSub_sorted _ _ _ h hs (DecCoins.sorted_single d' x)⟩

/-- ledger, a tracked validator, and keyed assets: the assertion carried through one iteration of `slashRedelegations` -/
def SlashInv (val : AVal) (w : World) : Prop := (L0 w ∧ Sync val w) ∧ AssetsKeyed w

theorem slashRedelegations_ledger (v : ValId) (f : Dec) :
    Hoare (fun w => L0 w ∧ AssetsKeyed w) (slashRedelegations v f) (fun _ w => L0 w ∧ AssetsKeyed w) := by
  unfold slashRedelegations
  apply Hoare.getW_bind; intro w0 hP
  apply Hoare.at_state (P := fun w => L0 w ∧ AssetsKeyed w) hP
  dsimp only []
  apply Hoare.forEachM
  intro k _
  apply Hoare.getW_bind; intro w1 hP1
  apply Hoare.at_state (P := fun w => L0 w ∧ AssetsKeyed w) hP1
  obtain ⟨kv, kt, kd, kdst, kdel⟩ := k
  dsimp only []
  apply Hoare.ite
  · intro _; exact Hoare.pure _ (fun w h => h)
  · intro _
    split
    · exact Hoare.throwE _
    · next r _ =>
      apply Hoare.bind (R := fun dstVal w => SlashInv dstVal w ∧ dstVal.id = r.dst)
      · refine (Hoare.and ((getAllianceValidator_inv r.dst (fun _ => True) (fun _ _ _ _ => trivial))) (Hoare.ofAFrame (by aframe) (fun as => ∀ p ∈ as, p.2.denom = p.1))).conseq
          (fun w h => ⟨⟨h.1, trivial⟩, h.2⟩) (fun _ w q => ⟨⟨⟨q.1.1, q.1.2.1⟩, q.2⟩, q.1.2.2.1⟩)
      · intro dstVal
        apply Hoare.ite
        · intro _; exact Hoare.pure _ (fun w h => ⟨h.1.1.1, h.1.2⟩)
        · intro _
          apply Hoare.bind (R := fun res w => SlashInv res.2 w ∧ res.2.id = r.dst)
          · refine (Hoare.and (claimDelegationRewards_inv (fun _ _ => 0) r.del dstVal r.denom (fun _ => True) (fun _ _ _ _ => trivial)
                (fun _ _ _ _ _ _ _ => trivial)) (Hoare.ofAFrame (by aframe) (fun as => (∀ p ∈ as, p.2.denom = p.1) ∧ dstVal.id = r.dst))).conseq
              (fun w h => ⟨⟨h.1.1.1, h.1.1.2, trivial⟩, h.1.2, h.2⟩)
              (fun _ w q => ⟨⟨⟨q.1.1.1, q.1.1.2.1⟩, q.2.1⟩, q.1.2.1.trans q.2.2⟩)
          · intro res
            apply Hoare.getW_bind; intro w2 hP2
            obtain ⟨⟨⟨hl2, hs2⟩, hak2⟩, hid2⟩ := hP2
            split
            · exact Hoare.pure _ (fun w e => by subst e; exact ⟨hl2, hak2⟩)
            · next dl hdl =>
              split
              · exact Hoare.pure _ (fun w e => by subst e; exact ⟨hl2, hak2⟩)
              · next a ha =>
                have haden : a.denom = r.denom := hak2 (r.denom, a) (AL.get_some_mem _ _ _ ha)
                have hkey := L.key_of_get hl2 hdl
                injection hkey with k1 k23
                injection k23 with k2 k3
                apply Hoare.liftE_bind; intro sts hsts
                have hle := cappedShares_le _ _ _ _ _ hsts
                apply Hoare.liftE_bind; intro sc hsc
                obtain ⟨hs0, rfl⟩ := mkDecCoins_ok a.denom sts sc hsc
                apply Hoare.liftE_bind; intro tds' htds
                obtain ⟨hsum, hsort⟩ := decCoinsSub_single_spec _ _ _ _ htds
                apply Hoare.bind (R := fun _ w => (L (fun v2 d => offAt res.2.id a.denom sts v2 d) w ∧ AL.get w.dels (r.del, r.dst, r.denom) = some dl) ∧ AssetsKeyed w)
                · unfold setValidator setValInfo
                  refine Hoare.modifyW _ (fun w e => ?_)
                  subst e
                  refine ⟨⟨?_, hdl⟩, hak2⟩
                  have := L_setValidator (off := fun _ _ => 0) (val := res.2)
                    { res.2.info with totalDelShares := tds' } a.denom (-sts) hl2 hs2 (hsort (sorted_of_sync hl2 hs2))
                    (fun d => by show DecCoins.sumOf tds' d = _; rw [hsum d]; split <;> omega)
                  refine this.conv ?_
                  intro v2 d
                  unfold offAt
                  have e : (v2 = res.2.id ∧ a.denom = d) ↔ (v2 = res.2.id ∧ d = a.denom) := ⟨fun ⟨p, q⟩ => ⟨p, q.symm⟩, fun ⟨p, q⟩ => ⟨p, q.symm⟩⟩
                  simp only [e]
                  split <;> omega
                · intro _
                  unfold setDelegation
                  refine Hoare.modifyW _ (fun w h => ?_)
                  obtain ⟨⟨hl3, hg3⟩, hak3⟩ := h
                  refine ⟨?_, hak3⟩
                  unfold L0 L at *
                  have hn : 0 ≤ ({ dl with shares := dl.shares - sts } : Delegation).shares := by
                    show 0 ≤ dl.shares - sts
                    unfold Dec at *; omega
                  refine (hl3.setDel { dl with shares := dl.shares - sts } hn).conv ?_
                  intro v2 d
                  have hg4 : AL.get w.dels (dl.del, dl.val, dl.denom) = some dl := by rw [← k1, ← k2, ← k3]; exact hg3
                  show offAt res.2.id a.denom sts v2 d + shareOf v2 d _ - oldShare w.dels (dl.del, dl.val, dl.denom) v2 d = 0
                  unfold oldShare
                  rw [hg4]
                  unfold offAt shareOf
                  simp only []
                  rw [hid2, haden, ← k2, ← k3]
                  have e : (r.dst = v2 ∧ r.denom = d) ↔ (v2 = r.dst ∧ d = r.denom) := ⟨fun ⟨p, q⟩ => ⟨p.symm, q.symm⟩, fun ⟨p, q⟩ => ⟨p.symm, q.symm⟩⟩
                  simp only [e]
                  split <;> (unfold Dec at *; omega)

abbrev LK : World → Prop := fun w => L0 w ∧ AssetsKeyed w

theorem setAsset_keyed (a : Asset) : Hoare AssetsKeyed (setAsset a) (fun _ w => AssetsKeyed w) := by
  unfold setAsset
  refine Hoare.modifyW _ (fun w h => ?_)
  intro p hp
  rcases AL.mem_set _ _ _ _ hp with e | e
  · rw [e]
  · exact h p e

/-- C03: the slash callback, when it succeeds, keeps the delegator-share ledger (asset records keyed by their denom) -/
theorem slashValidator_ledger (v : ValId) (f : Dec) : Hoare LK (slashValidator v f) (fun _ w => LK w) := by
  unfold slashValidator
  apply Hoare.bind (Hoare.and (L0.frame (by dv_frame)) (Hoare.ofAFrame (by aframe) (fun as => ∀ p ∈ as, p.2.denom = p.1))); intro _
  apply Hoare.bind (R := fun val w => SlashInv val w)
  · exact (Hoare.and (getAllianceValidator_inv v (fun _ => True) (fun _ _ _ _ => trivial)) (Hoare.ofAFrame (by aframe) (fun as => ∀ p ∈ as, p.2.denom = p.1))).conseq
      (fun w h => ⟨⟨h.1, trivial⟩, h.2⟩) (fun _ w q => ⟨⟨q.1.1, q.1.2.1⟩, q.2⟩)
  · intro val
    apply Hoare.bind (R := fun _ w => SlashInv val w)
    · apply Hoare.foldlM (R := fun _ w => SlashInv val w)
      intro acc share _
      dsimp only []
      apply Hoare.liftE_bind; intro after _
      apply Hoare.getW_bind; intro w1 hP1
      apply Hoare.at_state (P := SlashInv val) hP1
      split
      · exact Hoare.throwE _
      · apply Hoare.bind (R := fun _ w => SlashInv val w)
        · exact (Hoare.and (Hoare.ofFrame (by dv_frame) (fun p => LedgerO (fun _ _ => 0) p.1 p.2 ∧ SyncL val p.2)) (setAsset_keyed _)).conseq
            (fun w h => h) (fun _ _ q => q)
        · intro _; exact Hoare.pure _ (fun w h => h)
    · intro slashed
      apply Hoare.bind (R := fun _ w => LK w)
      · unfold setValidator setValInfo
        refine Hoare.modifyW _ (fun w h => ?_)
        obtain ⟨⟨hl, hs⟩, hak⟩ := h
        refine ⟨?_, hak⟩
        have := L_setValidator (off := fun _ _ => 0) (val := val) { val.info with valShares := slashed } 0 0 hl hs
          (sorted_of_sync hl hs) (fun d => by simp)
        exact this.conv (fun v2 d => by simp)
      · intro _
        apply Hoare.bind (slashRedelegations_ledger v f); intro _
        exact Hoare.and (L0.frame (by dv_frame)) (Hoare.ofAFrame (by aframe) (fun as => ∀ p ∈ as, p.2.denom = p.1))

theorem beforeValidatorSlashed_ledger (v : ValId) (f : Dec) : Hoare LK (beforeValidatorSlashed v f) (fun _ w => LK w) := by
  unfold beforeValidatorSlashed
  apply Hoare.bind (slashValidator_ledger v f); intro _
  exact Hoare.and (L0.frame (by dv_frame)) (Hoare.ofAFrame (by aframe) (fun as => ∀ p ∈ as, p.2.denom = p.1))

end Alliance
