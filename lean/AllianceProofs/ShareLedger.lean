/-
  ShareLedger.lean — C03, delegator side: the user operations keep  Σ delegations(v,d) = validator v's delegator-share
  total of d  for every (v, d). A success-only Hoare judgment over the two stores; the in-memory `AllianceValidator`
  values the keeper passes around are tracked against the store (`Sync`), because every validator write stores the
  in-memory copy (the Go aliasing).
-/
import AllianceProofs.Ledger
import AllianceProofs.FrameDV
import AllianceProofs.Bank
import AllianceModel.Msg
set_option linter.unusedVariables false
namespace Alliance
open Dec

structure Hoare {α} (P : World → Prop) (m : M α) (Q : α → World → Prop) : Prop where
  run : ∀ w w' a, m w = (.ok a, w') → P w → Q a w'

namespace Hoare
variable {α β : Type} {P P' : World → Prop} {Q Q' : α → World → Prop}

theorem conseq {m : M α} (h : Hoare P' m Q') (hp : ∀ w, P w → P' w) (hq : ∀ a w, Q' a w → Q a w) : Hoare P m Q :=
  ⟨fun w w' a hm hw => hq a w' (h.run w w' a hm (hp w hw))⟩

theorem bind {m : M α} {f : α → M β} {R : α → World → Prop} {Q : β → World → Prop}
    (hm : Hoare P m R) (hf : ∀ a, Hoare (R a) (f a) Q) : Hoare P (m >>= f) Q := by
  constructor
  intro w w' b h hw
  simp only [bind_apply] at h
  rcases hmw : m w with ⟨r, w1⟩
  rw [hmw] at h
  cases r with
  | error e => simp at h
  | ok a => exact (hf a).run w1 w' b h (hm.run w w1 a hmw hw)

/-- reading the state: the continuation starts from exactly the state read -/
theorem getW_bind {f : World → M β} {Q : β → World → Prop}
    (h : ∀ w0, P w0 → Hoare (fun w => w = w0) (f w0) Q) : Hoare P (Alliance.getW >>= f) Q := by
  constructor
  intro w w' b hm hw
  simp only [bind_apply, getW_apply] at hm
  exact (h w hw).run w w' b hm rfl

theorem pure (a : α) (h : ∀ w, P w → Q a w) : Hoare P (Pure.pure a : M α) Q := by
  constructor
  intro w w' a' hm hw
  simp only [pure_apply] at hm
  injection hm with h1 h2
  injection h1 with h1
  subst h1 h2
  exact h w hw

theorem throwE (c : String) : Hoare P (Alliance.throwE c : M α) Q := ⟨fun w w' a h => by simp at h⟩
theorem panicE (c : String) : Hoare P (Alliance.panicE c : M α) Q := ⟨fun w w' a h => by simp at h⟩

theorem ite {c : Prop} [Decidable c] {m1 m2 : M α} (h1 : c → Hoare P m1 Q) (h2 : ¬c → Hoare P m2 Q) :
    Hoare P (if c then m1 else m2) Q := by
  split
  · next h => exact h1 h
  · next h => exact h2 h

theorem liftE_bind {x : Except Err α} {f : α → M β} {Q : β → World → Prop}
    (h : ∀ a, x = .ok a → Hoare P (f a) Q) : Hoare P (Alliance.liftE x >>= f) Q := by
  cases x with
  | error e => exact ⟨fun w w' r h => by simp [bind_apply, liftE_error] at h⟩
  | ok a =>
    constructor
    intro w w' b hm hw
    simp only [bind_apply, liftE_ok] at hm
    exact (h a rfl).run w w' b hm hw

theorem guardE_bind {c : Prop} [Decidable c] {code : String} {f : Unit → M β} {Q : β → World → Prop}
    (h : ¬ c → Hoare P (f ()) Q) : Hoare P (Alliance.guardE c code >>= f) Q := by
  constructor
  intro w w' b hm hw
  simp only [bind_apply, guardE_apply] at hm
  by_cases hc : c
  · simp [hc] at hm
  · simp only [hc, if_false] at hm
    exact (h hc).run w w' b hm hw

/-- anything that leaves both stores alone carries any predicate of them -/
theorem ofFrame {m : M α} (h : FrameDV.Fr m) (J : List (DelKey × Delegation) × List (ValId × ValInfo) → Prop) :
    Hoare (fun w => J (w.dels, w.vals)) m (fun _ w => J (w.dels, w.vals)) := by
  constructor
  intro w w' a hm hw
  have hf : FrameDV.π w' = FrameDV.π w := by have := h.frame w; rw [hm] at this; exact this
  simp only [FrameDV.π] at hf
  rw [hf]; exact hw

/-- a framed step in front of a continuation -/
theorem frame_bind {m : M α} {f : α → M β} {Q : β → World → Prop}
    (J : List (DelKey × Delegation) × List (ValId × ValInfo) → Prop) (h : FrameDV.Fr m)
    (hf : ∀ a, Hoare (fun w => J (w.dels, w.vals)) (f a) Q) : Hoare (fun w => J (w.dels, w.vals)) (m >>= f) Q :=
  bind (ofFrame h J) hf

theorem at_state {m : M α} {w0 : World} (hP : P w0) (h : Hoare P m Q) : Hoare (fun w => w = w0) m Q :=
  h.conseq (fun w e => e ▸ hP) (fun _ _ q => q)

theorem modifyW (f : World → World) {Q : Unit → World → Prop} (h : ∀ w, P w → Q () (f w)) :
    Hoare P (Alliance.modifyW f) Q := by
  constructor
  intro w w' a hm hw
  simp only [modifyW_apply] at hm
  injection hm with _ h2
  subst h2
  exact h w hw

theorem asTx {m : M α} (h : Hoare P m Q) : Hoare P (Alliance.asTx m) Q := by
  constructor
  intro w w' a hm hw
  rw [asTx_apply] at hm
  rcases hmw : m w with ⟨r, w1⟩
  rw [hmw] at hm
  cases r with
  | error e => simp at hm
  | ok a' =>
    injection hm with h1 h2
    injection h1 with h1
    subst h1 h2
    exact h.run w w1 a' hmw hw

end Hoare

/-- the ledger of a state, with offset -/
def L (off : ValId → Denom → Int) (w : World) : Prop := LedgerO off w.dels w.vals
/-- the in-memory validator is what the store holds -/
def Sync (val : AVal) (w : World) : Prop := AL.get w.vals val.id = some val.info

theorem tdsL_of_sync {val : AVal} {w : World} (h : Sync val w) (d : Denom) :
    tdsL w.vals val.id d = DecCoins.sumOf val.info.totalDelShares d := by
  unfold tdsL; rw [h]

/-- storing an in-memory validator whose delegator-share total is the stored one plus `x` of denom `dx` -/
theorem L_setValidator {off : ValId → Denom → Int} {w : World} {val : AVal} (info' : ValInfo) (dx : Denom) (x : Int)
    (hl : L off w) (hs : Sync val w) (hsorted : DecCoins.Sorted info'.totalDelShares)
    (hsum : ∀ d, DecCoins.sumOf info'.totalDelShares d = DecCoins.sumOf val.info.totalDelShares d + (if dx = d then x else 0)) :
    L (fun v d => off v d - (if v = val.id ∧ dx = d then x else 0)) { w with vals := AL.set w.vals val.id info' } := by
  unfold L at *
  refine (hl.setVal val.id info' hsorted).conv ?_
  intro v d
  by_cases hv : v = val.id
  · subst hv
    simp only [if_true, true_and]
    rw [hsum d, tdsL_of_sync hs d]
    split <;> omega
  · simp only [hv, if_false, false_and]

/-- ledger with offset, an in-memory validator in step with the store, and any fact about the delegation store -/
def Inv (off : ValId → Denom → Int) (val : AVal) (X : List (DelKey × Delegation) → Prop) (w : World) : Prop :=
  L off w ∧ Sync val w ∧ X w.dels

theorem Inv.frame {off val X} {α} {m : M α} (h : FrameDV.Fr m) : Hoare (Inv off val X) m (fun _ w => Inv off val X w) :=
  Hoare.ofFrame h (fun p => LedgerO off p.1 p.2 ∧ AL.get p.2 val.id = some val.info ∧ X p.1)

macro "dv_frame" : tactic => `(tactic| (first | exact FrameDV.liftE _ | exact FrameDV.pure _ | exact FrameDV.guardE _ _ | (simp only [dvframe]; done)))

/-- storing the in-memory validator with only its reward history changed -/
theorem Inv.setValidator_hist {off val X} (w : World) (hist : List RewardHistory) (h : Inv off val X w) :
    Inv off { val with info := { val.info with hist := hist } } X
      { w with vals := AL.set w.vals val.id { val.info with hist := hist } } := by
  obtain ⟨hl, hs, hx⟩ := h
  refine ⟨?_, ?_, hx⟩
  · have hsorted : DecCoins.Sorted ({ val.info with hist := hist } : ValInfo).totalDelShares := hl.vsorted val.id val.info hs
    have := L_setValidator (off := off) (val := val) { val.info with hist := hist } 0 0 hl hs hsorted
      (fun d => by simp)
    refine this.conv ?_
    intro v d; simp
  · show AL.get (AL.set w.vals val.id _) val.id = _
    rw [AL.get_set_eq]

theorem addAssetsToRewardPool_inv (off : ValId → Denom → Int) (val : AVal) (X : List (DelKey × Delegation) → Prop) (coins : Coins) :
    Hoare (Inv off val X) (addAssetsToRewardPool val coins)
      (fun val' w => Inv off val' X w ∧ val'.id = val.id ∧ val'.info.totalDelShares = val.info.totalDelShares) := by
  unfold addAssetsToRewardPool
  apply Hoare.ite
  · intro _; exact Hoare.pure _ (fun w h => ⟨h, rfl, rfl⟩)
  · intro _
    apply Hoare.getW_bind; intro w0 hP
    apply Hoare.at_state hP
    dsimp only []
    apply Hoare.liftE_bind; intro hist _
    apply Hoare.bind (R := fun _ w => Inv off { val with info := { val.info with hist := hist } } X w)
    · unfold setValidator setValInfo
      exact Hoare.modifyW _ (fun w h => Inv.setValidator_hist w hist h)
    · intro _
      apply Hoare.bind (Inv.frame (by dv_frame)); intro _
      exact Hoare.pure _ (fun w h => ⟨h, rfl, rfl⟩)

theorem claimValidatorRewards_inv (off : ValId → Denom → Int) (val : AVal) (X : List (DelKey × Delegation) → Prop) :
    Hoare (Inv off val X) (claimValidatorRewards val)
      (fun val' w => Inv off val' X w ∧ val'.id = val.id ∧ val'.info.totalDelShares = val.info.totalDelShares) := by
  unfold claimValidatorRewards
  apply Hoare.getW_bind; intro w0 hP
  apply Hoare.at_state hP
  dsimp only []
  apply Hoare.ite
  · intro _; exact Hoare.pure _ (fun w h => ⟨h, rfl, rfl⟩)
  · intro _
    apply Hoare.bind (Inv.frame (by dv_frame)); intro coins
    apply Hoare.ite
    · intro _; exact Hoare.pure _ (fun w h => ⟨h, rfl, rfl⟩)
    · intro _; exact addAssetsToRewardPool_inv off val X coins

/-- a record read under a key carries that key, in a ledger state -/
theorem L.key_of_get {off : ValId → Denom → Int} {w : World} (hl : L off w) {k : DelKey} {dl : Delegation}
    (h : AL.get w.dels k = some dl) : k = (dl.del, dl.val, dl.denom) :=
  hl.keyed (k, dl) (AL.get_some_mem _ _ _ h)

/-- rewriting a delegation record without touching its key fields or shares keeps the ledger as it is -/
theorem L_setDelegation_same {off : ValId → Denom → Int} {w : World} (dl dl' : Delegation) (hl : L off w)
    (hg : AL.get w.dels (dl.del, dl.val, dl.denom) = some dl)
    (h1 : dl'.del = dl.del) (h2 : dl'.val = dl.val) (h3 : dl'.denom = dl.denom) (h4 : dl'.shares = dl.shares) :
    L off { w with dels := AL.set w.dels (dl'.del, dl'.val, dl'.denom) dl' } := by
  unfold L at *
  have hn : 0 ≤ dl'.shares := by rw [h4]; exact hl.nonneg _ (AL.get_some_mem _ _ _ hg)
  refine (hl.setDel dl' hn).conv ?_
  intro v d
  unfold oldShare
  rw [h1, h2, h3, hg]
  unfold shareOf
  rw [h2, h3, h4]
  simp only []
  split <;> omega

theorem claimDelegationRewards_inv (off : ValId → Denom → Int) (del : Acct) (val : AVal) (d' : Denom)
    (X : List (DelKey × Delegation) → Prop)
    (hX : ∀ (dels : List (DelKey × Delegation)) (dl dl2 : Delegation), X dels → AL.get dels (dl.del, dl.val, dl.denom) = some dl →
      dl2.del = dl.del → dl2.val = dl.val → dl2.denom = dl.denom → dl2.shares = dl.shares →
      X (AL.set dels (dl2.del, dl2.val, dl2.denom) dl2)) :
    Hoare (Inv off val X) (claimDelegationRewards del val d')
      (fun r w => Inv off r.2 X w ∧ r.2.id = val.id ∧ r.2.info.totalDelShares = val.info.totalDelShares) := by
  unfold claimDelegationRewards
  apply Hoare.getW_bind; intro w0 hP
  split
  · exact Hoare.throwE _
  · apply Hoare.ite
    · intro _; exact Hoare.pure _ (fun w e => by subst e; exact ⟨hP, rfl, rfl⟩)
    · intro _
      split
      · exact Hoare.throwE _
      · next dl hdl =>
        have hkey := L.key_of_get hP.1 hdl
        -- the record stays where it is while the validator's rewards are claimed
        refine Hoare.conseq (P' := Inv off val (fun ds => X ds ∧ AL.get ds (del, val.id, d') = some dl))
          (Q' := fun r w => Inv off r.2 X w ∧ r.2.id = val.id ∧ r.2.info.totalDelShares = val.info.totalDelShares) ?_
          (fun w e => by subst e; exact ⟨hP.1, hP.2.1, hP.2.2, hdl⟩) (fun _ _ q => q)
        apply Hoare.bind (claimValidatorRewards_inv off val (fun ds => X ds ∧ AL.get ds (del, val.id, d') = some dl))
        intro val1
        apply Hoare.getW_bind; intro w1 hP1
        obtain ⟨⟨hl1, hs1, hx1, hg1⟩, hid, htds⟩ := hP1
        apply Hoare.liftE_bind; intro r _
        rw [hkey] at hg1
        apply Hoare.bind (R := fun _ w => Inv off val1 X w)
        · unfold setDelegation
          refine Hoare.modifyW _ (fun w e => ?_)
          subst e
          refine ⟨?_, hs1, ?_⟩
          · exact L_setDelegation_same dl { dl with hist := r.2, lastClaimHeight := w.height } hl1 hg1 rfl rfl rfl rfl
          · exact hX _ dl { dl with hist := r.2, lastClaimHeight := w.height } hx1 hg1 rfl rfl rfl rfl
        · intro _
          apply Hoare.bind (Inv.frame (by dv_frame)); intro _
          exact Hoare.pure _ (fun w h => ⟨h, hid, htds⟩)

end Alliance
