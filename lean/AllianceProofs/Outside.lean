/-
  Outside.lean — C11: the staking-denom coins that are NOT in the two staking pools ("supply net of stake") are left
  exactly where they were by rebalancing: what is minted is delegated (lands in a staking pool), what is unbonded is
  burned from the bonded pool. Stated for a fixed denom `b` with the side condition that `b` is the bond denom.
-/
import AllianceProofs.Obs
import AllianceProofs.FrameBS
import AllianceProofs.FrameSS
import AllianceModel.EndBlock
set_option linter.unusedVariables false
namespace Alliance
open Dec

/-- coins of denom `b` outside the bonded and not-bonded pools -/
def outsideB (b : Denom) (w : World) : Int :=
  supplyOf w b - bankBalance w accBonded b - bankBalance w accNotBonded b

def BondIs (b : Denom) (w : World) : Prop := w.staking.bondDenom = b

/-- 1 for the two staking pool accounts -/
def pool (a : Acct) : Int := if a = accBonded ∨ a = accNotBonded then 1 else 0

abbrev OutT {α} (b : Denom) (δ : Int) (m : M α) : Prop := Obs (BondIs b) (outsideB b) δ m

theorem outT_frame {α} {b : Denom} {m : M α} (h : FrameBS.Fr m) : OutT b 0 m := by
  constructor
  intro w w' a hm hi
  have hf : FrameBS.π w' = FrameBS.π w := by have := h.frame w; rw [hm] at this; exact this
  simp only [FrameBS.π, Prod.mk.injEq] at hf
  obtain ⟨h1, h2, h3⟩ := hf
  refine ⟨?_, by unfold BondIs; rw [h3]; exact hi⟩
  unfold outsideB supplyOf bankBalance
  rw [h1, h2]; omega

theorem sendCoins_outT (src dst : Acct) (cs : Coins) (b : Denom) :
    OutT b ((pool src - pool dst) * Coins.sumOf cs b) (sendCoins src dst cs) := by
  constructor
  intro w w' a hm hi
  have hs := sendCoins_spec src dst cs w w' hm
  have hss : FrameSS.π w' = FrameSS.π w := by have := (FrameSS.sendCoins src dst cs).frame w; rw [hm] at this; exact this
  simp only [FrameSS.π, Prod.mk.injEq] at hss
  refine ⟨?_, by unfold BondIs; rw [hss.2]; exact hi⟩
  unfold outsideB supplyOf
  rw [hs accBonded b, hs accNotBonded b, hss.1]
  unfold pool
  have n1 : accBonded ≠ accNotBonded := by decide
  by_cases s1 : src = accBonded <;> by_cases s2 : src = accNotBonded <;>
  by_cases d1 : dst = accBonded <;> by_cases d2 : dst = accNotBonded <;>
    simp [s1, s2, d1, d2, n1, n1.symm, eq_comm] <;> (try omega)

theorem setBalance_outT (a : Acct) (d : Denom) (x : Int) (b : Denom) (w : World) :
    outsideB b (setBalance a d x w).2 = outsideB b w
      - (if d = b then pool a * (x - bankBalance w a d) else 0) := by
  unfold outsideB
  rw [bal_setBalance, bal_setBalance]
  have hs : supplyOf (setBalance a d x w).2 b = supplyOf w b := rfl
  rw [hs]
  unfold pool
  have n1 : accBonded ≠ accNotBonded := by decide
  by_cases hd : d = b
  · subst hd
    by_cases s1 : a = accBonded
    · subst s1
      simp [n1, n1.symm]; omega
    · by_cases s2 : a = accNotBonded
      · subst s2
        simp [n1, n1.symm]; omega
      · have s1' : ¬ accBonded = a := fun e => s1 e.symm
        have s2' : ¬ accNotBonded = a := fun e => s2 e.symm
        simp [s1, s2, s1', s2']
  · have e1 : (accBonded, b) ≠ (a, d) := by intro e; injection e with _ e2; exact hd e2.symm
    have e2 : (accNotBonded, b) ≠ (a, d) := by intro e; injection e with _ e2; exact hd e2.symm
    simp [e1, e2, hd]

/-- minting to an account that is not a staking pool puts the coins outside -/
theorem mintCoin_outT (a : Acct) (d : Denom) (x : Int) (b : Denom) :
    OutT b (if d = b then (1 - pool a) * x else 0) (mintCoin a d x) := by
  constructor
  intro w w' u hm hi
  unfold mintCoin at hm
  simp only [bind_apply, getW_apply] at hm
  rcases hsb : setBalance a d (bankBalance w a d + x) w with ⟨r, w1⟩
  have hr : r = .ok () := by unfold setBalance at hsb; simp only [modifyW_apply] at hsb; injection hsb with h1 _; exact h1.symm
  subst hr
  rw [hsb] at hm
  simp only [modifyW_apply] at hm
  injection hm with _ h2
  have hw1 : w1 = (setBalance a d (bankBalance w a d + x) w).2 := by rw [hsb]
  have h1 := setBalance_outT a d (bankBalance w a d + x) b w
  rw [← hw1] at h1
  have hsup1 : supplyOf w1 d = supplyOf w d := by rw [hw1]; rfl
  have hbd1 : w1.staking.bondDenom = w.staking.bondDenom := by rw [hw1]; rfl
  refine ⟨?_, by unfold BondIs; rw [← h2]; exact hbd1.trans hi⟩
  rw [← h2]
  have hb : ∀ acct, bankBalance { w1 with supply := AL.set w1.supply d (supplyOf w1 d + x) } acct b = bankBalance w1 acct b := fun _ => rfl
  unfold outsideB at h1 ⊢
  rw [hb, hb]
  have hsp : supplyOf { w1 with supply := AL.set w1.supply d (supplyOf w1 d + x) } b = supplyOf w1 b + (if d = b then x else 0) := by
    unfold supplyOf
    simp only
    by_cases hd : d = b
    · subst hd; simp [AL.get_set_eq]
    · rw [AL.get_set_ne _ _ _ _ (fun e => hd e.symm)]; simp [hd]
  rw [hsp]
  by_cases hd : d = b
  · subst hd
    simp only [if_true] at h1 ⊢
    have e1 : pool a * (bankBalance w a d + x - bankBalance w a d) = pool a * x := by congr 1; omega
    rw [e1] at h1
    have e2 : (1 - pool a) * x = x - pool a * x := by rw [Int.sub_mul]; omega
    rw [e2]; omega
  · simp only [hd, if_false] at h1 ⊢; omega

/-- burning from an account that is not a staking pool takes the coins from outside; burning from a pool does not -/
theorem burnCoin_outT (a : Acct) (d : Denom) (x : Int) (b : Denom) :
    OutT b (if d = b then - ((1 - pool a) * x) else 0) (burnCoin a d x) := by
  constructor
  intro w w' u hm hi
  unfold burnCoin at hm
  simp only [bind_apply, getW_apply, guardE_apply] at hm
  by_cases hlt : bankBalance w a d < x
  · simp [hlt] at hm
  · simp only [hlt, if_false] at hm
    rcases hsb : setBalance a d (bankBalance w a d - x) w with ⟨r, w1⟩
    have hr : r = .ok () := by unfold setBalance at hsb; simp only [modifyW_apply] at hsb; injection hsb with h1 _; exact h1.symm
    subst hr
    rw [hsb] at hm
    simp only [modifyW_apply] at hm
    injection hm with _ h2
    have hw1 : w1 = (setBalance a d (bankBalance w a d - x) w).2 := by rw [hsb]
    have h1 := setBalance_outT a d (bankBalance w a d - x) b w
    rw [← hw1] at h1
    have hbd1 : w1.staking.bondDenom = w.staking.bondDenom := by rw [hw1]; rfl
    refine ⟨?_, by unfold BondIs; rw [← h2]; exact hbd1.trans hi⟩
    rw [← h2]
    have hb : ∀ acct, bankBalance { w1 with supply := AL.set w1.supply d (supplyOf w1 d - x) } acct b = bankBalance w1 acct b := fun _ => rfl
    unfold outsideB at h1 ⊢
    rw [hb, hb]
    have hsp : supplyOf { w1 with supply := AL.set w1.supply d (supplyOf w1 d - x) } b = supplyOf w1 b - (if d = b then x else 0) := by
      unfold supplyOf
      simp only
      by_cases hd : d = b
      · subst hd; simp [AL.get_set_eq]
      · rw [AL.get_set_ne _ _ _ _ (fun e => hd e.symm)]; simp [hd]
    rw [hsp]
    by_cases hd : d = b
    · subst hd
      simp only [if_true] at h1 ⊢
      have e1 : pool a * (bankBalance w a d - x - bankBalance w a d) = - (pool a * x) := by
        have : bankBalance w a d - x - bankBalance w a d = -x := by omega
        rw [this, Int.mul_neg]
      rw [e1] at h1
      have e2 : (1 - pool a) * x = x - pool a * x := by rw [Int.sub_mul]; omega
      rw [e2]; omega
    · simp only [hd, if_false] at h1 ⊢; omega

macro "ot_frame" : tactic => `(tactic| (apply outT_frame; first | exact FrameBS.liftE _ | exact FrameBS.pure _ | exact FrameBS.guardE _ _ | exact FrameBS.guardP _ _ | (simp only [bsframe]; done)))

theorem pool_module : pool accModule = 0 := by decide
theorem pool_distr : pool accDistr = 0 := by decide
theorem pool_rewards : pool accPool = 0 := by decide

theorem withdrawRewards_outT (v : ValId) (b : Denom) : OutT b 0 (withdrawRewards v) := by
  unfold withdrawRewards
  apply Obs.getW_bind; intro w0 _
  split
  · exact Obs.throwE _
  · apply Obs.bind0 (by ot_frame); intro _
    apply Obs.bind0
    · apply outT_frame; apply FrameBS.modifyW; intro w; rfl
    · intro _
      refine (Obs.bind (sendCoins_outT accDistr accModule _ b) (fun _ => Obs.pure _)).cast ?_
      rw [pool_module, pool_distr]; omega

theorem addAssetsToRewardPool_outT (val : AVal) (coins : Coins) (b : Denom) : OutT b 0 (addAssetsToRewardPool val coins) := by
  unfold addAssetsToRewardPool
  apply Obs.ite
  · intro _; exact Obs.pure _
  · intro _
    apply Obs.getW_bind; intro w0 _
    try dsimp only []
    apply Obs.bind0 (by ot_frame); intro _
    apply Obs.bind0 (by ot_frame); intro _
    refine (Obs.bind (sendCoins_outT accModule accPool coins b) (fun _ => Obs.pure _)).cast ?_
    rw [pool_module, pool_rewards]; omega

theorem claimValidatorRewards_outT (val : AVal) (b : Denom) : OutT b 0 (claimValidatorRewards val) := by
  unfold claimValidatorRewards
  apply Obs.getW_bind; intro w0 _
  try dsimp only []
  apply Obs.ite
  · intro _; exact Obs.pure _
  · intro _
    apply Obs.bind0 (withdrawRewards_outT _ b); intro cs
    apply Obs.ite
    · intro _; exact Obs.pure _
    · intro _; exact addAssetsToRewardPool_outT val cs b

theorem distrHookWithdraw_outT (v : ValId) (b : Denom) : OutT b 0 (distrHookWithdraw v) := by
  unfold distrHookWithdraw
  exact Obs.bind0 (withdrawRewards_outT v b) (fun _ => Obs.pure _)

/-- `stakingKeeper.Delegate` for the module account: the amount moves from the module account into a staking pool -/
theorem stakingDelegate_outT (v : ValId) (snap : SVal) (amt : Int) (b : Denom) :
    OutT b (-amt) (stakingDelegate v snap amt) := by
  unfold stakingDelegate
  apply Obs.bind0 (by ot_frame); intro _
  apply Obs.getW_bind; intro w0 hb0
  try dsimp only []
  apply Obs.bind0
  · split
    · exact distrHookWithdraw_outT v b
    · exact Obs.pure ()
  · intro _
    refine (Obs.bind (δ2 := 0) (sendCoins_outT accModule _ _ b) (fun _ => ?_)).cast ?_
    · apply Obs.getW_bind; intro w1 _
      try dsimp only []
      apply Obs.ite
      · intro _
        apply Obs.bind0 (by ot_frame); intro _
        exact Obs.panicE _
      · intro _
        apply Obs.bind0 (by ot_frame); intro _
        ot_frame
    · rw [Coins.sumOf_single, pool_module]
      have : w0.staking.bondDenom = b := hb0
      simp only [this, if_true]
      have hp : pool (if snap.isBonded = true then accBonded else accNotBonded) = 1 := by
        split <;> decide
      rw [hp]; omega

theorem stakingUnbond_outT (v : ValId) (shares : Dec) (b : Denom) : OutT b 0 (stakingUnbond v shares) := by
  unfold stakingUnbond
  apply Obs.getW_bind; intro w0 _
  split
  · exact Obs.throwE _
  · split
    · exact Obs.throwE _
    · apply Obs.bind0 (distrHookWithdraw_outT v b); intro _
      apply Obs.bind0 (by ot_frame); intro _
      try dsimp only []
      apply Obs.bind0 (by ot_frame); intro _
      apply Obs.bind0 (by ot_frame); intro _
      apply Obs.bind0 (by ot_frame); intro _
      exact Obs.pure _

/-- C11: rebalancing leaves the staking-denom coins outside the staking pools exactly where they were: every minted
    coin is delegated, every unbonded coin is burned from the bonded pool -/
theorem rebalanceBondTokenWeights_outT (assets : List Asset) (b : Denom) : OutT b 0 (rebalanceBondTokenWeights assets) := by
  unfold rebalanceBondTokenWeights
  apply Obs.getW_bind; intro w0 hb0
  try dsimp only []
  apply Obs.bind0
  · apply Obs.foldlM
    intro acc v _
    apply Obs.bind0 (by ot_frame); intro _
    exact Obs.pure _
  · intro snaps
    apply Obs.forEachM
    intro validator _
    apply Obs.getW_bind; intro w1 _
    try dsimp only []
    apply Obs.bind0
    · apply Obs.foldlM
      intro acc a _
      apply Obs.ite
      · intro _
        apply Obs.bind0 (by ot_frame); intro _
        exact Obs.pure _
      · intro _
        try dsimp only []
        apply Obs.ite <;> (intro _; exact Obs.pure _)
    · intro expected
      apply Obs.ite
      · intro _
        try dsimp only []
        apply Obs.ite
        · intro _; exact Obs.pure ()
        · intro _
          refine (Obs.bind (mintCoin_outT accModule _ _ b) (fun _ =>
            Obs.bind0 (claimValidatorRewards_outT _ b) (fun _ => stakingDelegate_outT _ _ _ b))).cast ?_
          have : w0.staking.bondDenom = b := hb0
          simp only [this, if_true, pool_module]; omega
      · intro _
        apply Obs.ite
        · intro _
          try dsimp only []
          apply Obs.ite
          · intro _; exact Obs.pure ()
          · intro _
            apply Obs.bind0 (by ot_frame); intro _
            apply Obs.bind0 (claimValidatorRewards_outT _ b); intro _
            apply Obs.bind0 (stakingUnbond_outT _ _ b); intro tok
            refine (burnCoin_outT accBonded _ tok b).cast ?_
            have hp : pool accBonded = 1 := by decide
            rw [hp]; split <;> omega
        · intro _; exact Obs.pure ()

theorem rebalanceHook_outT (assets : List Asset) (b : Denom) : OutT b 0 (rebalanceHook assets) := by
  unfold rebalanceHook
  apply Obs.getW_bind; intro w0 _
  apply Obs.ite
  · intro _
    apply Obs.bind0
    · apply outT_frame; apply FrameBS.modifyW; intro w; rfl
    · intro _; exact rebalanceBondTokenWeights_outT assets b
  · intro _; exact Obs.pure ()

end Alliance
