/-
  `NP m`: the computation m never panics (it may return ordinary errors). Used for C17: with a positive claim
  interval the take-rate step of EndBlocker cannot hit the integer division by zero.
-/
import AllianceProofs.ParamsOK
namespace Alliance

structure NP {α} (m : M α) : Prop where
  np : ∀ w c, (m w).1 ≠ .error (.panic c)

namespace NP
variable {α β : Type}
theorem pure (a : α) : NP (Pure.pure a : M α) := ⟨fun _ _ h => by cases h⟩
theorem getW : NP Alliance.getW := ⟨fun _ _ h => by cases h⟩
theorem throwE (c : String) : NP (Alliance.throwE c : M α) := ⟨fun _ _ h => by cases h⟩
theorem modifyW (f : World → World) : NP (Alliance.modifyW f) := ⟨fun _ _ h => by cases h⟩
theorem guardE (c : Prop) [Decidable c] (code : String) : NP (Alliance.guardE c code) := by
  constructor; intro w c' h; unfold Alliance.guardE at h; split at h <;> cases h
theorem requireSome (x : Option α) (code : String) : NP (Alliance.requireSome x code) := by
  constructor; intro w c' h; unfold Alliance.requireSome at h; cases x <;> cases h
theorem bind {m : M α} {f : α → M β} (hm : NP m) (hf : ∀ a, NP (f a)) : NP (m >>= f) := by
  constructor
  intro w c h
  simp only [bind_apply] at h
  have h1 := hm.np w c
  rcases hmw : m w with ⟨r, w'⟩
  rw [hmw] at h h1
  cases r with
  | ok a => exact (hf a).np w' c h
  | error e => exact h1 (by simpa using h)
theorem forEachM {γ : Type} (f : γ → M Unit) (xs : List γ) (h : ∀ x, NP (f x)) : NP (Alliance.forEachM f xs) := by
  induction xs with
  | nil => exact pure ()
  | cons x t ih => unfold Alliance.forEachM; exact bind (h x) (fun _ => ih)

macro "np_walk" : tactic => `(tactic| repeat' (first
  | apply pure | apply getW | apply throwE | apply modifyW | apply guardE | apply requireSome
  | assumption
  | apply forEachM
  | apply bind
  | intro _
  | split
  | (dsimp only [])))

theorem setBalance (a : Acct) (d : Denom) (x : Int) : NP (Alliance.setBalance a d x) := by
  unfold Alliance.setBalance; np_walk
theorem sendCoins (s t : Acct) (cs : Coins) : NP (Alliance.sendCoins s t cs) := by
  have := setBalance
  unfold Alliance.sendCoins; np_walk
theorem setParams (p : Params) : NP (Alliance.setParams p) := by
  unfold Alliance.setParams; np_walk
theorem setLastRewardClaimTime (t : Time) : NP (Alliance.setLastRewardClaimTime t) := by
  have := setParams
  unfold Alliance.setLastRewardClaimTime; np_walk
theorem setAsset (a : Asset) : NP (Alliance.setAsset a) := by
  unfold Alliance.setAsset; np_walk
end NP

theorem guardP_false (c : Prop) [Decidable c] (code : String) (h : ¬ c) : guardP c code = pure () := by
  unfold guardP; rw [if_neg h]

/-- C17: with a non-zero claim interval the take-rate step cannot panic at all (in particular not with the integer
    division by zero of D9); it can only fail with an ordinary error of the bank -/
theorem deductAssetsWithTakeRate_never_panics (last : Time) (as : List Asset) (w : World)
    (hi : w.params.takeRateInterval ≠ 0) (c : String) :
    (deductAssetsWithTakeRate last as w).1 ≠ .error (.panic c) := by
  have h1 := NP.setLastRewardClaimTime
  have h2 := NP.setAsset
  have h3 := NP.sendCoins
  have key : NP (do
      let interval := w.params.takeRateInterval
      let n : Int := intervalsSince w.time last interval
      let coins : Coins := takeRateCoins w.time n.toNat as
      forEachM (fun (a : Asset) =>
        if takeRateChargeable w.time a ∧ (takeRateNewTotal a n.toNat).isSome then Alliance.setAsset (takeRateStep w.time n.toNat a)
        else pure ()) as
      let assets' := as.map (takeRateStep w.time n.toNat)
      if (as.filter (takeRateChargeable w.time)).length = 0 then do
        Alliance.setLastRewardClaimTime w.time
        pure assets'
      else if coins.length ≠ 0 ∧ !Coins.isZero coins then do
        Alliance.sendCoins accModule accFee coins
        Alliance.setLastRewardClaimTime (last + interval * n)
        pure assets'
      else pure assets' : M (List Asset)) := by
    np_walk
  unfold deductAssetsWithTakeRate
  simp only [bind_apply, getW_apply]
  split
  · have : NP (do Alliance.setLastRewardClaimTime w.time; pure as : M (List Asset)) := by np_walk
    exact this.np w c
  · rw [guardP_false _ _ hi]
    exact key.np w c

end Alliance
