/-
  Evaluation lemmas for the effect monad `M` and a small Hoare logic with a failure postcondition
  (a function that fails half-way keeps the writes it already made, so the failure state matters).
-/
import AllianceModel
namespace Alliance

@[simp] theorem pure_apply {α} (a : α) (w : World) : (pure a : M α) w = (.ok a, w) := rfl
@[simp] theorem bind_apply {α β} (m : M α) (f : α → M β) (w : World) :
    (m >>= f) w = match m w with
      | (.ok a, w') => f a w'
      | (.error e, w') => (.error e, w') := rfl
@[simp] theorem getW_apply (w : World) : getW w = (.ok w, w) := rfl
@[simp] theorem setW_apply (w' w : World) : setW w' w = (.ok (), w') := rfl
@[simp] theorem modifyW_apply (f : World → World) (w : World) : modifyW f w = (.ok (), f w) := rfl
@[simp] theorem throwE_apply {α} (c : String) (w : World) : (throwE c : M α) w = (.error (.err c), w) := rfl
@[simp] theorem panicE_apply {α} (c : String) (w : World) : (panicE c : M α) w = (.error (.panic c), w) := rfl
@[simp] theorem liftE_ok {α} (a : α) (w : World) : liftE (.ok a) w = (.ok a, w) := rfl
@[simp] theorem liftE_error {α} (e : Err) (w : World) : (liftE (.error e) : M α) w = (.error e, w) := rfl

theorem asTx_apply {α} (m : M α) (w : World) :
    asTx m w = match m w with
      | (.ok a, w') => (.ok a, w')
      | (.error e, w') => (.error e, { w with oracle := w'.oracle }) := rfl

/-- a failed transaction changes nothing but the position on the response tape -/
theorem asTx_error_noop {α} (m : M α) (w : World) (e : Err) (h : (asTx m w).1 = .error e) :
    (asTx m w).2 = { w with oracle := (asTx m w).2.oracle } := by
  rw [asTx_apply] at *
  split at h
  · cases h
  · rfl

/-! ### Hoare triples -/

/-- `{P} m {Q | E}`: from a state satisfying `P`, a successful run returns `a` in a state satisfying `Q a`,
    a failing run leaves a state satisfying `E` -/
def Triple {α} (P : World → Prop) (m : M α) (Q : α → World → Prop) (E : World → Prop) : Prop :=
  ∀ w, P w → match m w with
    | (.ok a, w') => Q a w'
    | (.error _, w') => E w'

namespace Triple
variable {α β : Type} {P P' : World → Prop} {Q Q' : α → World → Prop} {E E' : World → Prop}

theorem pure (a : α) (h : ∀ w, P w → Q a w) : Triple P (Pure.pure a : M α) Q E := fun w hw => h w hw

theorem bind {m : M α} {f : α → M β} {R : α → World → Prop} {Q : β → World → Prop}
    (hm : Triple P m R E) (hf : ∀ a, Triple (R a) (f a) Q E) : Triple P (m >>= f) Q E := by
  intro w hw
  have h1 := hm w hw
  simp only [bind_apply]
  rcases hmw : m w with ⟨r, w'⟩
  rw [hmw] at h1
  cases r with
  | ok a => exact hf a w' h1
  | error e => exact h1

theorem conseq {m : M α} (h : Triple P' m Q' E') (hp : ∀ w, P w → P' w) (hq : ∀ a w, Q' a w → Q a w)
    (he : ∀ w, E' w → E w) : Triple P m Q E := by
  intro w hw
  have h1 := h w (hp w hw)
  rcases hmw : m w with ⟨r, w'⟩
  rw [hmw] at h1
  cases r with
  | ok a => exact hq _ _ h1
  | error e => exact he _ h1

theorem getW : Triple P getW (fun a w => a = w ∧ P w) E := fun w hw => ⟨rfl, hw⟩

theorem modifyW (f : World → World) {Q : Unit → World → Prop} (h : ∀ w, P w → Q () (f w)) :
    Triple P (modifyW f) Q E := fun w hw => h w hw

theorem throwE (c : String) (h : ∀ w, P w → E w) : Triple P (throwE c : M α) Q E := fun w hw => h w hw
theorem panicE (c : String) (h : ∀ w, P w → E w) : Triple P (panicE c : M α) Q E := fun w hw => h w hw

theorem liftE (x : Except Err α) (hok : ∀ a w, x = .ok a → P w → Q a w) (herr : ∀ w, P w → E w) :
    Triple P (liftE x) Q E := by
  intro w hw
  cases x with
  | ok a => exact hok a w rfl hw
  | error e => exact herr w hw

theorem ite {c : Prop} [Decidable c] {m1 m2 : M α} (h1 : c → Triple P m1 Q E) (h2 : ¬ c → Triple P m2 Q E) :
    Triple P (if c then m1 else m2) Q E := by
  split
  · exact h1 ‹_›
  · exact h2 ‹_›

/-- a loop with an invariant that also holds on failure -/
theorem forEachM {γ : Type} (I : World → Prop) (f : γ → M Unit) (xs : List γ)
    (h : ∀ x ∈ xs, Triple I (f x) (fun _ w => I w) E) : Triple I (forEachM f xs) (fun _ w => I w) E := by
  induction xs with
  | nil => exact fun w hw => hw
  | cons x t ih =>
    unfold Alliance.forEachM
    apply bind (h x (List.mem_cons_self))
    intro _
    exact ih (fun y hy => h y (List.mem_cons_of_mem _ hy))

/-- `asTx`: on failure the pre-state is restored (up to the response tape) -/
theorem asTx {m : M α} (h : Triple P m Q (fun _ => True)) (hE : ∀ w o, P w → E { w with oracle := o }) :
    Triple P (asTx m) Q E := by
  intro w hw
  have h1 := h w hw
  rw [asTx_apply]
  rcases hmw : m w with ⟨r, w'⟩
  rw [hmw] at h1
  cases r with
  | ok a => exact h1
  | error e => exact hE w _ hw

end Triple

/-- `Pres I m`: `m` keeps `I`, whether it succeeds or fails -/
def Pres {α} (I : World → Prop) (m : M α) : Prop := Triple I m (fun _ w => I w) I

end Alliance
