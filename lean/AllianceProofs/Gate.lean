/-
  Walking a handler that is a chain of guards: every guard either fires (an error) or is passed.
-/
import AllianceProofs.MonadLemmas
namespace Alliance

def IsError {α} (r : Except Err α × World) : Prop := ∃ e, r.1 = .error e

theorem isError_guard {β} (c : Prop) [Decidable c] (code : String) (f : Unit → M β) (w : World)
    (h : ¬ c → IsError (f () w)) : IsError ((guardE c code >>= f) w) := by
  unfold guardE
  by_cases hc : c
  · simp [hc, IsError]
  · simpa [hc] using h hc

theorem isError_guard_true {β} (c : Prop) [Decidable c] (code : String) (f : Unit → M β) (w : World)
    (h : c) : IsError ((guardE c code >>= f) w) := by
  unfold guardE; simp [h, IsError]

theorem isError_requireSome {α β} (x : Option α) (code : String) (f : α → M β) (w : World)
    (h : ∀ a, x = some a → IsError (f a w)) : IsError ((requireSome x code >>= f) w) := by
  unfold requireSome
  cases x with
  | none => simp [IsError]
  | some a => simpa using h a rfl

theorem isError_requireSomeP {α β} (x : Option α) (f : α → M β) (w : World)
    (h : ∀ a, x = some a → IsError (f a w)) : IsError ((requireSomeP x >>= f) w) := by
  unfold requireSomeP
  cases x with
  | none => simp [IsError]
  | some a => simpa using h a rfl

/-- walk down a handler: every guard either fires (error) or is passed; the authority guard fires -/
macro "gate_walk" hs:ident : tactic => `(tactic| repeat (first
  | (apply isError_guard_true; exact $hs)
  | (apply isError_guard; intro _)
  | (apply isError_requireSome; intro _ _)
  | (apply isError_requireSomeP; intro _ _)))


end Alliance
