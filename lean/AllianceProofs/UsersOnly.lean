/-
  UsersOnly.lean — no pending unbonding entry pays to the module account: preserved by the queue rewriters
  (`slashUndelegations` keeps each entry's delegator; `completeUnbondings` only removes buckets).
-/
import AllianceProofs.Custody
import AllianceProofs.FrameOB
set_option linter.unusedVariables false
namespace Alliance
open Dec

def UsersOnlyQ (q : List (UndelKey × List Undel)) : Prop := ∀ p ∈ q, ∀ e ∈ p.2, e.del ≠ accModule

theorem usersOnly_iff (w : World) : UsersOnly w ↔ UsersOnlyQ w.undelQueue := Iff.rfl

theorem usersOnlyQ_set (q : List (UndelKey × List Undel)) (k : UndelKey) (es : List Undel)
    (hq : UsersOnlyQ q) (he : ∀ e ∈ es, e.del ≠ accModule) : UsersOnlyQ (AL.set q k es) := by
  intro p hp e hem
  rcases AL.mem_set _ _ _ _ hp with h | h
  · rw [h] at hem; exact he e hem
  · exact hq p h e hem

theorem usersOnlyQ_erase (q : List (UndelKey × List Undel)) (k : UndelKey) (hq : UsersOnlyQ q) :
    UsersOnlyQ (AL.erase q k) := by
  intro p hp e hem
  exact hq p (AL.mem_erase _ _ _ hp) e hem

theorem usersOnlyQ_get (q : List (UndelKey × List Undel)) (k : UndelKey) (hq : UsersOnlyQ q) :
    ∀ e ∈ (AL.get q k).getD [], e.del ≠ accModule := by
  intro e he
  cases hg : AL.get q k with
  | none => rw [hg] at he; simp [Option.getD] at he
  | some es => rw [hg] at he; exact hq _ (AL.get_some_mem _ _ _ hg) e he

theorem users_frame {α} {m : M α} (h : FrameUQ.Fr m) : PresR UsersOnly m Any :=
  FrameUQ.toPresR h UsersOnlyQ

theorem slashUndelegations_users (v : ValId) (f : Dec) : PresR UsersOnly (slashUndelegations v f) Any := by
  unfold slashUndelegations
  apply PresR.bind (R := Any) PresR.getW_any; intro w0 _
  dsimp only []
  apply PresR.forEachM'
  intro k
  apply PresR.bind PresR.getW; intro w1 hw1
  obtain ⟨kv, kt, kd, kdel⟩ := k
  dsimp only []
  split
  · exact PresR.pure_any _
  · apply PresR.bind (R := Any)
    · apply PresR.forEachM'
      intro e
      split
      · exact users_frame (FrameUQ.sendCoins _ _ _)
      · exact PresR.pure_any _
    · intro _ _
      apply PresR.modifyW
      intro w hw
      apply usersOnlyQ_set _ _ _ hw
      intro e he
      unfold slashBucket at he
      obtain ⟨e0, he0, rfl⟩ := List.mem_map.mp he
      exact usersOnlyQ_get _ _ hw1 e0 he0

theorem completeUnbondings_users : PresR UsersOnly completeUnbondings Any := by
  unfold completeUnbondings
  apply PresR.bind (R := Any) PresR.getW_any; intro w0 _
  apply PresR.bind (R := Any)
  · apply PresR.forEachM'
    intro b
    unfold payBucket
    apply PresR.bind (R := Any)
    · apply PresR.forEachM'
      intro e
      exact users_frame (FrameUQ.payEntry _ e)
    · intro _ _
      apply PresR.modifyW
      intro w hw
      exact usersOnlyQ_erase _ _ hw
  · intro _ _
    apply PresR.bind (R := Any) PresR.getW_any; intro w1 _
    dsimp only []
    split
    · exact users_frame (FrameUQ.burnCoin _ _ _)
    · exact PresR.pure_any _

end Alliance
