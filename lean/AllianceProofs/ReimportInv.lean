import AllianceProofs.UndelRoundTrip
set_option linter.unusedVariables false
namespace Alliance

/-- a restart keeps "index and queue agree, no bucket empty": the two stores come back exactly -/
theorem reimport_keeps_ixn (w w' : World) (hi : IXN w) (h : reimport w = (.ok (), w')) : IXN w' := by
  obtain ⟨hq, hx⟩ := reimport_restores_unbondings w w' h hi.1 hi.2
  unfold IXN IX NE at *
  rw [hq, hx]; exact hi

/-- histories with restarts: operations, failed transactions, environment steps, and export → wipe → import -/
inductive ReachUG : World → World → Prop
  | refl (w : World) : ReachUG w w
  | env {w w1 w2 : World} : ReachUG w w1 → w2.undelQueue = w1.undelQueue → w2.undelIndex = w1.undelIndex → ReachUG w w2
  | ok {w w1 w2 : World} (op : Op) (tape : List (ValId × Coins)) : ReachUG w w1 →
      step op { w1 with oracle := tape } = (.ok (), w2) → ReachUG w w2
  | failTx {w w1 : World} (op : Op) (tape : List (ValId × Coins)) (e : Err) : ReachUG w w1 → op.isTx = true →
      (step op { w1 with oracle := tape }).1 = .error e → ReachUG w (step op { w1 with oracle := tape }).2
  | restart {w w1 w2 : World} : ReachUG w w1 → reimport w1 = (.ok (), w2) → ReachUG w w2

/-- INV-I (with non-empty buckets) along every history, restarts included -/
theorem reach_ixn_with_restarts (w w' : World) (hi : IXN w) (hr : ReachUG w w') : IXN w' := by
  induction hr with
  | refl => exact hi
  | env _ hq hx ih => unfold IXN IX NE; rw [hq, hx]; exact ih
  | ok op tape _ hs ih => exact step_ixn op _ _ hs ih
  | failTx op tape e _ htx hf ih =>
    rw [step_tx_fail op _ e htx hf]
    exact ih
  | restart _ hre ih => exact reimport_keeps_ixn _ _ ih hre

end Alliance
