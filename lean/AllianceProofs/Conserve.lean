/-
  Conserve.lean — a user's claim on the module: balance plus what the unbonding queue still owes the account is conserved
  by the end-of-block processing — what is paid leaves the queue, what stays in the queue is not paid.
-/
import AllianceProofs.UserBal
import AllianceProofs.FrameUQ
set_option linter.unusedVariables false
namespace Alliance
open Dec

/-- erase all given keys -/
def eraseAll (q : List (UndelKey × List Undel)) (ks : List (UndelKey × List Undel)) : List (UndelKey × List Undel) :=
  ks.foldl (fun q b => AL.erase q b.1) q

theorem payBuckets_queue (ms : List (UndelKey × List Undel)) (w0 w1 : World)
    (h : forEachM payBucket ms w0 = (.ok (), w1)) : w1.undelQueue = eraseAll w0.undelQueue ms := by
  induction ms generalizing w0 with
  | nil =>
    unfold forEachM at h
    simp only [pure_apply] at h
    injection h with _ h2
    rw [← h2]; rfl
  | cons b t ih =>
    unfold forEachM at h
    simp only [bind_apply] at h
    rcases hb : payBucket b w0 with ⟨r, wb⟩
    rw [hb] at h
    cases r with
    | error e => simp at h
    | ok u =>
      simp only at h
      have hq : wb.undelQueue = AL.erase w0.undelQueue b.1 := by
        unfold payBucket at hb
        simp only [bind_apply] at hb
        have hf := (FrameUQ.forEachM (payEntry b.1.1) b.2 (fun e => FrameUQ.payEntry _ e)).frame w0
        rcases hi : forEachM (payEntry b.1.1) b.2 w0 with ⟨ri, wi⟩
        rw [hi] at hb hf
        cases ri with
        | error e => simp at hb
        | ok ui =>
          simp only [modifyW_apply] at hb
          injection hb with _ h2
          rw [← h2]
          show AL.erase wi.undelQueue b.1 = _
          have : wi.undelQueue = w0.undelQueue := hf
          rw [this]
      rw [ih wb h, hq]
      rfl

/-- when `CompleteUnbondings` succeeds, the queue afterwards is the queue before with exactly the matured buckets
    (completion strictly before the block time) erased: nothing that completes at or after the block time is paid or
    removed, and no matured bucket is left behind -/
theorem completeUnbondings_queue (w : World) (hok : (completeUnbondings w).1 = .ok ()) :
    (completeUnbondings w).2.undelQueue = eraseAll w.undelQueue (maturedBuckets w) := by
  unfold completeUnbondings at *
  simp only [bind_apply, getW_apply] at *
  rcases hl : forEachM payBucket (maturedBuckets w) w with ⟨r, w1⟩
  try rw [hl] at hok
  cases r with
  | error e => simp at hok
  | ok u =>
    simp only at hok ⊢
    have hq := payBuckets_queue _ w w1 hl
    split
    · have := (FrameUQ.burnCoin accModule w1.staking.bondDenom (bankBalance w1 accModule w1.staking.bondDenom)).frame w1
      show FrameUQ.π _ = _
      rw [this]
      exact hq
    · exact hq


theorem AL.erase_cons' {κ α : Type} [DecidableEq κ] (k k' : κ) (v : α) (t : List (κ × α)) :
    AL.erase ((k', v) :: t) k = if k = k' then t else (k', v) :: AL.erase t k := rfl

/-- erasing the keys of entries that all differ from the head's key leaves the head in place -/
theorem foldl_erase_cons {α : Type} (hd : UndelKey × α) (ks : List (UndelKey × α)) (hne : ∀ b ∈ ks, b.1 ≠ hd.1) :
    ∀ t : List (UndelKey × α), ks.foldl (fun q b => AL.erase q b.1) (hd :: t) = hd :: ks.foldl (fun q b => AL.erase q b.1) t := by
  induction ks with
  | nil => intro t; rfl
  | cons b r ih =>
    intro t
    simp only [List.foldl_cons]
    have h1 : b.1 ≠ hd.1 := hne b (List.mem_cons_self ..)
    have : AL.erase (hd :: t) b.1 = hd :: AL.erase t b.1 := by
      obtain ⟨k', v'⟩ := hd
      rw [AL.erase_cons']
      simp only [h1, if_false]
    rw [this]
    exact ih (fun b' hb' => hne b' (List.mem_cons_of_mem _ hb')) _

/-- on a uniquely keyed queue, erasing the buckets selected by `P` is filtering them out -/
theorem eraseAll_filter (P : UndelKey × List Undel → Bool) (q : List (UndelKey × List Undel))
    (hs : AL.SortedBy undelKeyOrder q) : eraseAll q (q.filter P) = q.filter (fun b => !P b) := by
  unfold eraseAll
  induction q with
  | nil => rfl
  | cons hd t ih =>
    have hst := AL.sorted_tail undelKeyOrder hs
    have hne : ∀ b ∈ t.filter P, b.1 ≠ hd.1 := by
      intro b hb heq
      have hlt := AL.sorted_head_lt undelKeyOrder hs b (List.mem_filter.mp hb).1
      rw [heq] at hlt
      exact undelKeyOrder.irrefl _ hlt
    by_cases hp : P hd = true
    · simp only [List.filter_cons, hp, if_true, List.foldl_cons, Bool.not_true, Bool.false_eq_true, if_false]
      have : AL.erase (hd :: t) hd.1 = t := by
        obtain ⟨k', v'⟩ := hd
        rw [AL.erase_cons']; simp only [if_true]
      rw [this]
      exact ih hst
    · have hp' : P hd = false := by cases h : P hd <;> simp_all
      simp only [List.filter_cons, hp', Bool.false_eq_true, if_false, Bool.not_false, if_true]
      rw [foldl_erase_cons hd _ hne t, ih hst]

theorem sumBy_filter_split {κ α : Type} [DecidableEq κ] [Ord κ] (f : α → Int) (P : κ × α → Bool) (l : List (κ × α)) :
    AL.sumBy f l = AL.sumBy f (l.filter P) + AL.sumBy f (l.filter (fun b => !P b)) := by
  induction l with
  | nil => rfl
  | cons hd t ih =>
    by_cases hp : P hd = true
    · simp only [List.filter_cons, hp, if_true, Bool.not_true, Bool.false_eq_true, if_false]; rw [AL.sumBy_cons, AL.sumBy_cons]; omega
    · have hp' : P hd = false := by cases h : P hd <;> simp_all
      simp only [List.filter_cons, hp', Bool.false_eq_true, if_false, Bool.not_false, if_true]; rw [AL.sumBy_cons, AL.sumBy_cons]; omega

/-- everything the queue still owes account `u` in denom `d` -/
def owedAll (u : Acct) (d : Denom) (w : World) : Int := AL.sumBy (fun es => (es.map (owedE u d)).sum) w.undelQueue

theorem owedNow_eq (u : Acct) (d : Denom) (w : World) :
    owedNow u d w = AL.sumBy (fun es => (es.map (owedE u d)).sum) (maturedBuckets w) := by
  unfold owedNow AL.sumBy owedB; rfl

/-- C02, conservation at the block boundary: for a user account, balance + amount still owed by the unbonding queue
    is the same before and after a successful end-of-block — every matured entry is paid and removed together, and
    nothing else is paid or removed; needs only the queue's unique keying (INV-Q / INV-I) -/
theorem endBlocker_conserves_claim {u : Acct} {d : Denom} (hu : IsUser u) (w w' : World)
    (hs : AL.SortedBy undelKeyOrder w.undelQueue) (h : endBlocker w = (.ok (), w')) :
    bankBalance w' u d + owedAll u d w' = bankBalance w u d + owedAll u d w ∧
    w'.undelQueue = w.undelQueue.filter (fun b => !decide (b.1.1 < w.time)) := by
  have hpay := endBlocker_pays_user' (d := d) hu w w' h
  -- the queue after the block
  have hq : w'.undelQueue = eraseAll w.undelQueue (maturedBuckets w) := by
    unfold endBlocker at h
    simp only [bind_apply] at h
    rcases h1 : completeRedelegations w with ⟨r1, w1⟩
    rw [h1] at h
    have a1 := (FrameUQ.completeRedelegations).frame w
    have b1 := (FrameStaking.completeRedelegations).frame w
    rw [h1] at a1 b1
    simp only [FrameUQ.π, FrameStaking.π, Prod.mk.injEq] at a1 b1
    cases r1 with
    | error e => simp at h
    | ok x =>
      simp only at h
      rcases h2 : completeUnbondings w1 with ⟨r2, w2⟩
      rw [h2] at h
      cases r2 with
      | error e => simp at h
      | ok y =>
        simp only [getW_apply] at h
        have hc := completeUnbondings_queue w1 (by rw [h2])
        rw [h2] at hc
        have hrest : FrameUQ.Fr (do
            let assets ← initializeAllianceAssets (allAssets w2)
            let assets ← deductAssetsHook assets
            let assets ← rewardWeightChangeHook assets
            rebalanceHook assets) := by
          apply FrameUQ.bind (by simp only [qframe]); intro as1
          apply FrameUQ.bind (by simp only [qframe]); intro as2
          apply FrameUQ.bind (by simp only [qframe]); intro as3
          simp only [qframe]
        have hf := hrest.frame w2
        simp only [bind_apply] at hf
        rw [h] at hf
        have hm : maturedBuckets w1 = maturedBuckets w := by unfold maturedBuckets; rw [a1, b1.2.1]
        show w'.undelQueue = _
        have : w'.undelQueue = w2.undelQueue := hf
        rw [this]
        show w2.undelQueue = _
        rw [hc, hm, a1]
  have hfil : w'.undelQueue = w.undelQueue.filter (fun b => !decide (b.1.1 < w.time)) := by
    rw [hq]
    have := eraseAll_filter (fun b => decide (b.1.1 < w.time)) w.undelQueue hs
    unfold maturedBuckets
    exact this
  refine ⟨?_, hfil⟩
  have hsplit := sumBy_filter_split (fun es => (es.map (owedE u d)).sum) (fun (b : UndelKey × List Undel) => decide (b.1.1 < w.time)) w.undelQueue
  have hn := owedNow_eq u d w
  have hmb : maturedBuckets w = w.undelQueue.filter (fun (b : UndelKey × List Undel) => decide (b.1.1 < w.time)) := by
    unfold maturedBuckets; congr 1
  rw [hmb] at hn
  unfold owedAll
  rw [hfil]
  omega

end Alliance
