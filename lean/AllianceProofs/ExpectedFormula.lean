/-
  ExpectedFormula.lean — C10: the target the rebalancing steers each bonded validator to is, literally, the sum over the
  started assets of  Mul(Quo(validator's shares of the asset, the asset's BONDED share total), weight × native bonded stake).
-/
import AllianceProofs.RedelHistory
import AllianceModel.EndBlock
set_option linter.unusedVariables false
namespace Alliance
open Dec

/-- one asset's contribution to a validator's target -/
def targetTerm (now : Time) (native : Int) (unbonded : DecCoins) (info : ValInfo) (a : Asset) : Dec :=
  if !rewardsStarted a now then 0
  else
    let vs := valSharesWithDenom info a.denom
    let bondedVS := a.totalValShares - DecCoins.amountOf unbonded a.denom
    if vs > 0 ∧ bondedVS > 0 then mul (quo vs bondedVS) (mulInt a.weight native) else 0

/-- the target: the sum of the contributions -/
def targetOf (now : Time) (native : Int) (unbonded : DecCoins) (info : ValInfo) (assets : List Asset) : Dec :=
  (assets.map (targetTerm now native unbonded info)).sum

/-- the loop of `RebalanceBondTokenWeights` that computes `expectedBondAmount` returns exactly `acc + targetOf …` -/
theorem expected_loop (now : Time) (native : Int) (unbonded : DecCoins) (info : ValInfo) (assets : List Asset) :
    ∀ (acc : Dec),
    Hoare (fun _ => True)
      (assets.foldlM (fun (acc : Dec) (a : Asset) => do
        if !rewardsStarted a now then
          queueRebalance
          pure acc
        else
          let vs := valSharesWithDenom info a.denom
          let expForAsset := mulInt a.weight native
          let bondedVS := a.totalValShares - DecCoins.amountOf unbonded a.denom
          if vs > 0 ∧ bondedVS > 0 then pure (acc + mul (quo vs bondedVS) expForAsset) else pure acc) acc)
      (fun r _ => r = acc + targetOf now native unbonded info assets) := by
  induction assets with
  | nil =>
    intro acc
    exact Hoare.pure _ (fun _ _ => by unfold targetOf; simp)
  | cons a t ih =>
    intro acc
    rw [List.foldlM_cons]
    have tsum : targetOf now native unbonded info (a :: t) =
        targetTerm now native unbonded info a + targetOf now native unbonded info t := by
      unfold targetOf; simp only [List.map_cons, List.sum_cons]
    by_cases hst : (!rewardsStarted a now) = true
    · have hterm : targetTerm now native unbonded info a = 0 := by unfold targetTerm; simp only [hst, if_true]
      simp only [hst, if_true]
      apply Hoare.bind (R := fun r _ => r = acc)
      · apply Hoare.bind (R := fun _ _ => True) Hoare.triv; intro _
        exact Hoare.pure _ (fun _ _ => rfl)
      · intro r
        constructor
        intro w w' r' hm hw
        subst hw
        have := (ih r).run w w' r' hm trivial
        rw [this, tsum, hterm]
        unfold Dec at *; omega
    · simp only [hst, if_false]
      by_cases hc : valSharesWithDenom info a.denom > 0 ∧ a.totalValShares - DecCoins.amountOf unbonded a.denom > 0
      · have hterm : targetTerm now native unbonded info a =
            mul (quo (valSharesWithDenom info a.denom) (a.totalValShares - DecCoins.amountOf unbonded a.denom)) (mulInt a.weight native) := by
          unfold targetTerm; simp only [hst, Bool.false_eq_true, if_false, hc, and_self, if_true]
        simp only [hc, and_self, if_true]
        apply Hoare.bind (R := fun r _ => r = acc + targetTerm now native unbonded info a)
        · exact Hoare.pure _ (fun _ _ => by rw [hterm])
        · intro r
          constructor
          intro w w' r' hm hw
          subst hw
          have := (ih _).run w w' r' hm trivial
          rw [this, tsum]
          unfold Dec at *; omega
      · have hterm : targetTerm now native unbonded info a = 0 := by
          unfold targetTerm; simp only [hst, Bool.false_eq_true, if_false, hc]
        simp only [hc, if_false]
        apply Hoare.bind (R := fun r _ => r = acc)
        · exact Hoare.pure _ (fun _ _ => rfl)
        · intro r
          constructor
          intro w w' r' hm hw
          subst hw
          have := (ih r).run w w' r' hm trivial
          rw [this, tsum, hterm]
          unfold Dec at *; omega

end Alliance
