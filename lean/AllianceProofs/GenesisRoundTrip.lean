/-
  GenesisRoundTrip.lean — C18: export → wipe → import rebuilds the asset store and the delegation store exactly, for
  every state in which they are sorted and keyed by their own fields (invariants of every history: `Core`, `L0`).
-/
import AllianceProofs.Rebuild
import AllianceProofs.AssetsValid
import AllianceProofs.FrameDels
import AllianceModel.Genesis
set_option linter.unusedVariables false
namespace Alliance
open Dec

theorem forEachM_setAsset (xs : List Asset) (w : World) :
    forEachM setAsset xs w = (.ok (), { w with assets := xs.foldl (fun acc a => AL.set acc a.denom a) w.assets }) := by
  induction xs generalizing w with
  | nil => rfl
  | cons a t ih =>
    unfold forEachM
    have h1 : setAsset a w = (.ok (), { w with assets := AL.set w.assets a.denom a }) := rfl
    simp only [bind_apply, h1]
    rw [ih]
    rfl

theorem forEachM_setDelegation (xs : List Delegation) (w : World) :
    forEachM setDelegation xs w =
      (.ok (), { w with dels := xs.foldl (fun acc dl => AL.set acc (dl.del, dl.val, dl.denom) dl) w.dels }) := by
  induction xs generalizing w with
  | nil => rfl
  | cons a t ih =>
    unfold forEachM
    have h1 : setDelegation a w = (.ok (), { w with dels := AL.set w.dels (a.del, a.val, a.denom) a }) := rfl
    simp only [bind_apply, h1]
    rw [ih]
    rfl

theorem foldl_map_keyed {κ α : Type} [DecidableEq κ] [Ord κ] (key : α → κ) (l : List (κ × α)) (hk : ∀ p ∈ l, key p.2 = p.1)
    (pre : List (κ × α)) :
    (l.map (·.2)).foldl (fun acc a => AL.set acc (key a) a) pre = l.foldl (fun acc p => AL.set acc p.1 p.2) pre := by
  induction l generalizing pre with
  | nil => rfl
  | cons p t ih =>
    simp only [List.map_cons, List.foldl_cons]
    rw [hk p (List.mem_cons_self ..)]
    exact ih (fun q hq => hk q (List.mem_cons_of_mem _ hq)) _

/-- `InitGenesis` in two named parts (definitional) -/
def initParams (g : Genesis) : M Unit := fun w =>
  match setParams g.params w with
  | (.ok u, w') => (.ok u, w')
  | (.error _, w') => (.error (.panic "init_genesis"), w')

def initAfterDelegations (g : Genesis) : M Unit := do
  forEachM (fun (p : Time × Redel) => do
    addRedelegation p.2.del p.2.src p.2.dst p.2.denom p.2.amount p.1
    queueRedelegation { del := p.2.del, src := p.2.src, dst := p.2.dst, denom := p.2.denom, amount := p.2.amount } p.1) g.redelegations
  forEachM (fun (p : Time × List Undel) =>
    match p.2 with
    | [] => pure ()
    | e0 :: _ => do
      modifyW fun w => { w with undelQueue := AL.set w.undelQueue (p.1, e0.del) p.2 }
      forEachM (fun (e : Undel) =>
        modifyW fun w => { w with undelIndex := setInsert w.undelIndex (e.val, p.1, e.denom, e0.del) }) p.2) g.undelegations
  forEachM (fun (p : SnapKey × Snapshot) => modifyW fun w => { w with snaps := AL.set w.snaps p.1 p.2 }) g.snapshots

theorem initGenesis_eq (g : Genesis) :
    initGenesis g = (initParams g >>= fun _ => forEachM setAsset g.assets >>= fun _ =>
      forEachM (fun (p : ValId × ValInfo) => setValInfo p.1 p.2) g.valInfos >>= fun _ =>
      forEachM setDelegation g.delegations >>= fun _ => initAfterDelegations g) := rfl

theorem initParams_frame (g : Genesis) : AFrame (initParams g) := by
  constructor
  intro w
  unfold initParams
  have := (setParams_frame g.params).frame w
  rcases hp : setParams g.params w with ⟨r, w1⟩
  rw [hp] at this
  cases r <;> exact this

theorem initAfterDelegations_aframe (g : Genesis) : AFrame (initAfterDelegations g) := by
  unfold initAfterDelegations; aframe

theorem initAfterDelegations_dframe (g : Genesis) : FrameDels.Fr (initAfterDelegations g) := by
  unfold initAfterDelegations
  apply FrameDels.bind
  · apply FrameDels.forEachM; intro p
    exact FrameDels.bind (by simp only [dframe]) (fun _ => by simp only [dframe])
  · intro _
    apply FrameDels.bind
    · apply FrameDels.forEachM; intro p
      split
      · exact FrameDels.pure _
      · apply FrameDels.bind
        · apply FrameDels.modifyW; intro w; rfl
        · intro _; apply FrameDels.forEachM; intro e; apply FrameDels.modifyW; intro w; rfl
    · intro _
      apply FrameDels.forEachM; intro p; apply FrameDels.modifyW; intro w; rfl

/-- the asset store after an import: the assets written one by one, nothing else -/
theorem initGenesis_assets (g : Genesis) (w w' : World) (h : initGenesis g w = (.ok (), w')) :
    w'.assets = g.assets.foldl (fun acc a => AL.set acc a.denom a) w.assets := by
  rw [initGenesis_eq] at h
  generalize hrest : (forEachM (fun (p : ValId × ValInfo) => setValInfo p.1 p.2) g.valInfos >>= fun _ =>
      forEachM setDelegation g.delegations >>= fun _ => initAfterDelegations g) = rest at h
  have hfr : AFrame rest := by
    rw [← hrest]
    apply AFrame.bind
    · aframe
    · intro _
      apply AFrame.bind
      · aframe
      · intro _; exact initAfterDelegations_aframe g
  simp only [bind_apply] at h
  rcases hp : initParams g w with ⟨r1, w1⟩
  have hA1 : w1.assets = w.assets := by
    have := (initParams_frame g).frame w
    rw [hp] at this; exact this
  rw [hp] at h
  cases r1 with
  | error e => simp at h
  | ok u1 =>
    simp only [forEachM_setAsset] at h
    have := hfr.frame { w1 with assets := g.assets.foldl (fun acc a => AL.set acc a.denom a) w1.assets }
    rw [h] at this
    rw [this, hA1]

/-- C18: the asset store survives export → wipe → import exactly, when it is sorted and keyed by denom -/
theorem reimport_restores_assets (w w' : World) (h : reimport w = (.ok (), w'))
    (hs : AL.SortedBy natKeyOrder w.assets) (hk : ∀ p ∈ w.assets, p.2.denom = p.1) : w'.assets = w.assets := by
  unfold reimport at h
  simp only [bind_apply, getW_apply, setW_apply] at h
  have := initGenesis_assets _ _ _ h
  rw [this]
  show (allAssets w).foldl _ [] = _
  unfold allAssets
  rw [foldl_map_keyed (fun a => a.denom) w.assets hk, AL.rebuild_sorted natKeyOrder w.assets hs [] (fun p hp => by cases hp)]
  rfl

theorem initParams_dframe (g : Genesis) : FrameDels.Fr (initParams g) := by
  constructor
  intro w
  unfold initParams
  have := (FrameDels.setParams g.params).frame w
  rcases hp : setParams g.params w with ⟨r, w1⟩
  rw [hp] at this
  cases r <;> exact this

theorem initGenesis_dels (g : Genesis) (w w' : World) (h : initGenesis g w = (.ok (), w')) :
    w'.dels = g.delegations.foldl (fun acc dl => AL.set acc (dl.del, dl.val, dl.denom) dl) w.dels := by
  rw [initGenesis_eq] at h
  simp only [bind_apply] at h
  rcases hp : initParams g w with ⟨r1, w1⟩
  have hD1 : w1.dels = w.dels := by
    have := (initParams_dframe g).frame w
    rw [hp] at this; exact this
  rw [hp] at h
  cases r1 with
  | error e => simp at h
  | ok u1 =>
    simp only [forEachM_setAsset] at h
    rcases hv : forEachM (fun (p : ValId × ValInfo) => setValInfo p.1 p.2) g.valInfos
        { w1 with assets := g.assets.foldl (fun acc a => AL.set acc a.denom a) w1.assets } with ⟨r2, w2⟩
    have hD2 : w2.dels = w1.dels := by
      have := (FrameDels.forEachM (fun (p : ValId × ValInfo) => setValInfo p.1 p.2) g.valInfos (fun p => FrameDels.setValInfo p.1 p.2)).frame
        { w1 with assets := g.assets.foldl (fun acc a => AL.set acc a.denom a) w1.assets }
      rw [hv] at this; exact this
    rw [hv] at h
    cases r2 with
    | error e => simp at h
    | ok u2 =>
      simp only [forEachM_setDelegation] at h
      have := (initAfterDelegations_dframe g).frame
        { w2 with dels := g.delegations.foldl (fun acc dl => AL.set acc (dl.del, dl.val, dl.denom) dl) w2.dels }
      rw [h] at this
      have this' : w'.dels = _ := this
      rw [this', hD2, hD1]

/-- C18: the delegation store survives export → wipe → import exactly, when it is sorted and keyed by its own fields -/
theorem reimport_restores_delegations (w w' : World) (h : reimport w = (.ok (), w'))
    (hs : AL.SortedBy delKeyOrder w.dels) (hk : ∀ p ∈ w.dels, p.1 = (p.2.del, p.2.val, p.2.denom)) : w'.dels = w.dels := by
  unfold reimport at h
  simp only [bind_apply, getW_apply, setW_apply] at h
  have := initGenesis_dels _ _ _ h
  rw [this]
  show (w.dels.map (·.2)).foldl _ [] = _
  rw [foldl_map_keyed (fun (dl : Delegation) => (dl.del, dl.val, dl.denom)) w.dels (fun p hp => (hk p hp).symm),
    AL.rebuild_sorted delKeyOrder w.dels hs [] (fun p hp => by cases hp)]
  rfl

end Alliance
