/-
  RewardNonneg.lean — what `CalculateDelegationRewards` pays is never negative in any denom (every coin passes
  `sdk.NewCoin`, which panics on a negative amount).
-/
import AllianceProofs.CoinsSum
import AllianceModel.Keeper
namespace Alliance
open Dec

theorem foldlM_except_inv {σ γ ε : Type} (f : σ → γ → Except ε σ) (I : σ → Prop)
    (hf : ∀ s x s', I s → f s x = .ok s' → I s') :
    ∀ (xs : List γ) (s s' : σ), I s → xs.foldlM f s = .ok s' → I s' := by
  intro xs
  induction xs with
  | nil => intro s s' hi h; simp only [List.foldlM_nil, pure, Except.pure] at h; injection h with h; subst h; exact hi
  | cons x t ih =>
    intro s s' hi h
    rw [List.foldlM_cons] at h
    cases hfx : f s x with
    | error e => rw [hfx] at h; simp only [bind, Except.bind] at h; cases h
    | ok s1 =>
      rw [hfx] at h
      simp only [bind, Except.bind] at h
      exact ih s1 s' (hf s x s1 hi hfx) h

theorem newCoinAmt_ok (x v : Int) (h : newCoinAmt x = .ok v) : 0 ≤ v := by
  unfold newCoinAmt at h
  split at h
  · cases h
  · injection h with h; omega

theorem accumulateRewards_nonneg (latest hist : List RewardHistory) (a : Asset) (weight shares : Dec) (info : ValInfo)
    (r : Coins) (h' : List RewardHistory) (h : accumulateRewards latest hist a weight shares info = .ok (r, h'))
    (d : Denom) : 0 ≤ Coins.sumOf r d := by
  unfold accumulateRewards at h
  cases hdt : delegationTokensWithShares shares info a with
  | error e => rw [hdt] at h; simp only [bind, Except.bind] at h; cases h
  | ok dt =>
    rw [hdt] at h
    simp only [bind, Except.bind] at h
    refine foldlM_except_inv _ (fun (s : Coins × List RewardHistory) => 0 ≤ Coins.sumOf s.1 d) ?_ latest _ (r, h') ?_ h
    · intro s x s' hi hs
      obtain ⟨rw0, hist0⟩ := s
      simp only at hs hi
      cases hfind : histFind hist0 x.denom x.alliance <;> simp only [hfind] at hs <;>
      ( split at hs
        · simp only [pure, Except.pure] at hs; injection hs with hs; subst hs; exact hi
        · split at hs
          · cases hs
          · next v hv =>
            have hv0 := newCoinAmt_ok _ _ hv
            simp only [pure, Except.pure] at hs
            injection hs with hs; subst hs
            simp only
            rw [Coins.sumOf_add, Coins.sumOf_single]
            split <;> omega )
    · exact Int.le_refl 0

theorem calculateDelegationRewards_nonneg (w : World) (dl : Delegation) (info : ValInfo) (a : Asset)
    (r : Coins) (h' : List RewardHistory) (h : calculateDelegationRewards w dl info a = .ok (r, h')) (d : Denom) :
    0 ≤ Coins.sumOf r d := by
  unfold calculateDelegationRewards at h
  simp only [bind, Except.bind] at h
  split at h
  · cases h
  · next x tot heq =>
    obtain ⟨total, dh⟩ := tot
    simp only at h
    split at h
    · cases h
    · next x2 r2 heq2 =>
      obtain ⟨rr, hh⟩ := r2
      simp only [pure, Except.pure] at h
      injection h with h
      injection h with h1 h2
      subst h1
      rw [Coins.sumOf_add]
      have n2 := accumulateRewards_nonneg _ _ _ _ _ _ rr hh heq2 d
      have n1 : 0 ≤ Coins.sumOf total d := by
        refine foldlM_except_inv _ (fun (s : Coins × List RewardHistory) => 0 ≤ Coins.sumOf s.1 d) ?_ _ _ (total, dh) ?_ heq
        · intro s sn s' hi hs
          split at hs
          · cases hs
          · next x3 r3 heq3 =>
            obtain ⟨r3a, r3b⟩ := r3
            simp only [pure, Except.pure] at hs
            injection hs with hs; subst hs
            simp only
            rw [Coins.sumOf_add]
            have := accumulateRewards_nonneg _ _ _ _ _ _ r3a r3b heq3 d
            omega
        · exact Int.le_refl 0
      omega

end Alliance
