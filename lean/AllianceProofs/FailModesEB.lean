/-
  FailModesEB.lean — C17: the complete list of ways in which the end blocker can fail, for every state.
-/
import AllianceProofs.FailModes
set_option linter.unusedVariables false
namespace Alliance
open Dec

/-- the failure modes of the end blocker that remain in a state with valid module parameters -/
def endModesOK : List Err :=
  coreModes ++ [.panic "overflow", .err "weight_out_of_bound",
    .err "invalid_ex_rate", .panic "power_overflow", .err "insufficient_shares", .err "invalid_shares",
    .err "not_enough_shares", .panic "staking_negative_tokens"]

/-- every way in which `EndBlocker` can fail, in any state -/
def endModes : List Err := .err "invalid_duration" :: .panic "int_div_zero" :: endModesOK

theorem core_sub_endOK : ∀ e ∈ coreModes, e ∈ endModesOK := fun e h => List.mem_append_left _ h
theorem endOK_sub_end : ∀ e ∈ endModesOK, e ∈ endModes := fun e h => List.mem_cons_of_mem _ (List.mem_cons_of_mem _ h)

section eb
variable {S : List Err}

theorem mintCoin_errs (a : Acct) (d : Denom) (x : Int) : Errs S (mintCoin a d x) := by
  unfold mintCoin setBalance; errs_walk

theorem burnCoin_errs (hf : Err.err "insufficient_funds" ∈ S) (a : Acct) (d : Denom) (x : Int) : Errs S (burnCoin a d x) := by
  unfold burnCoin setBalance
  apply Errs.getW_bind; intro w
  try dsimp only []
  apply Errs.bind (Errs.guardE _ _ hf); intro _
  apply Errs.bind (Errs.modifyW _); intro _
  exact Errs.modifyW _

theorem setParams_errs (hd : Err.err "invalid_duration" ∈ S) (p : Params) : Errs S (setParams p) := by
  unfold setParams
  apply Errs.bind (Errs.guardE _ _ hd); intro _
  apply Errs.bind (Errs.guardE _ _ hd); intro _
  exact Errs.modifyW _

theorem setLastRewardClaimTime_errs (hd : Err.err "invalid_duration" ∈ S) (t : Time) : Errs S (setLastRewardClaimTime t) := by
  unfold setLastRewardClaimTime
  apply Errs.getW_bind; intro w
  exact setParams_errs hd _

theorem completeUnbondings_errs (hS : ∀ e ∈ endModesOK, e ∈ S) : Errs S completeUnbondings := by
  unfold completeUnbondings
  apply Errs.getW_bind; intro w
  apply Errs.bind
  · apply Errs.forEachM; intro b
    unfold payBucket
    apply Errs.bind
    · apply Errs.forEachM; intro e
      unfold payEntry
      apply Errs.bind (sendCoins_errs (hS _ (by decide)) _ _ _); intro _
      exact Errs.modifyW _
    · intro _; exact Errs.modifyW _
  · intro _
    apply Errs.getW_bind; intro w1
    try dsimp only []
    exact Errs.ite (burnCoin_errs (hS _ (by decide)) _ _ _) (Errs.pure _)

theorem initializeAllianceAssets_errs (hS : ∀ e ∈ endModesOK, e ∈ S) (as : List Asset) : Errs S (initializeAllianceAssets as) := by
  unfold initializeAllianceAssets setAsset
  apply Errs.getW_bind; intro w
  apply Errs.bind
  · apply Errs.forEachM; intro a
    exact Errs.ite (Errs.pure _) (Errs.modifyW _)
  · intro _; exact Errs.pure _

theorem deductAssetsHook_errs (hS : ∀ e ∈ endModesOK, e ∈ S) (hd : Err.err "invalid_duration" ∈ S) (hz : Err.panic "int_div_zero" ∈ S) (as : List Asset) : Errs S (deductAssetsHook as) := by
  unfold deductAssetsHook
  apply Errs.getW_bind; intro w
  try dsimp only []
  apply Errs.ite _ (Errs.pure _)
  unfold deductAssetsWithTakeRate
  apply Errs.getW_bind; intro w1
  apply Errs.ite
  · exact Errs.bind (setLastRewardClaimTime_errs hd _) (fun _ => Errs.pure _)
  · try dsimp only []
    apply Errs.bind (Errs.guardP _ _ hz); intro _
    apply Errs.bind
    · apply Errs.forEachM; intro a
      apply Errs.ite
      · unfold setAsset; exact Errs.modifyW _
      · exact Errs.pure _
    · intro _
      apply Errs.ite
      · exact Errs.bind (setLastRewardClaimTime_errs hd _) (fun _ => Errs.pure _)
      · apply Errs.ite
        · apply Errs.bind (sendCoins_errs (hS _ (by decide)) _ _ _); intro _
          exact Errs.bind (setLastRewardClaimTime_errs hd _) (fun _ => Errs.pure _)
        · exact Errs.pure _

theorem settleAllValidators_errs (hS : ∀ e ∈ endModesOK, e ∈ S) (a : Asset) (c : Bool) (vals : List (ValId × ValInfo)) : Errs S (settleAllValidators a c vals) := by
  unfold settleAllValidators
  split
  · apply Errs.bind
    · apply Errs.forEachM; intro kv
      apply Errs.bind ((getAllianceValidator_errs _).mono (fun e h => hS e (core_sub_endOK e h))); intro v1
      apply Errs.bind ((claimValidatorRewards_errs _).mono (fun e h => hS e (core_sub_endOK e h))); intro v2
      unfold setSnapshot; exact Errs.modifyW _
    · intro _; unfold queueRebalance; exact Errs.modifyW _
  · exact Errs.pure _

theorem updateAllianceAsset_errs (hS : ∀ e ∈ endModesOK, e ∈ S) (na : Asset) : Errs S (updateAllianceAsset na) := by
  unfold updateAllianceAsset
  apply Errs.getW_bind; intro w
  rcases getAsset w na.denom with _ | a
  · exact Errs.throwE _ (hS _ (by decide))
  · try dsimp only []
    apply Errs.bind (Errs.guardE _ _ (hS _ (by decide))); intro _
    apply Errs.bind (settleAllValidators_errs hS _ _ _); intro _
    apply Errs.getW_bind; intro w1
    unfold setAsset; exact Errs.modifyW _

theorem rewardWeightChangeHook_go_errs (hS : ∀ e ∈ endModesOK, e ∈ S) (rest acc : List Asset) : Errs S (rewardWeightChangeHook.go rest acc) := by
  induction rest generalizing acc with
  | nil => unfold rewardWeightChangeHook.go; exact Errs.pure _
  | cons a r ih =>
    unfold rewardWeightChangeHook.go
    apply Errs.getW_bind; intro w
    apply Errs.ite (ih _)
    try dsimp only []
    split
    · apply Errs.bind
      · unfold queueRebalance; exact Errs.modifyW _
      · intro _
        apply Errs.bind (updateAllianceAsset_errs hS _); intro _
        exact ih _
    · exact Errs.panicE _ (hS _ (by decide))

theorem distrHookWithdraw_errs (hS : ∀ e ∈ endModesOK, e ∈ S) (v : ValId) : Errs S (distrHookWithdraw v) := by
  unfold distrHookWithdraw
  exact Errs.bind ((withdrawRewards_errs v).mono (fun e h => hS e (core_sub_endOK e h))) (fun _ => Errs.pure _)

theorem stakingDelegate_errs (hS : ∀ e ∈ endModesOK, e ∈ S) (v : ValId) (snap : SVal) (amt : Int) : Errs S (stakingDelegate v snap amt) := by
  unfold stakingDelegate
  apply Errs.bind (Errs.guardE _ _ (hS _ (by decide))); intro _
  apply Errs.getW_bind; intro w
  try dsimp only []
  apply Errs.bind
  · split
    · exact distrHookWithdraw_errs hS v
    · exact Errs.pure _
  · intro _
    apply Errs.bind (sendCoins_errs (hS _ (by decide)) _ _ _); intro _
    apply Errs.getW_bind; intro w1
    try dsimp only []
    apply Errs.ite
    · apply Errs.bind
      · unfold setSVal; exact Errs.modifyW _
      · intro _; exact Errs.panicE _ (hS _ (by decide))
    · apply Errs.bind
      · unfold setSVal; exact Errs.modifyW _
      · intro _; unfold queueRebalance; exact Errs.modifyW _

theorem stakingValidateUnbondAmount_errs (hS : ∀ e ∈ endModesOK, e ∈ S) (v : ValId) (amt : Int) : Errs S (stakingValidateUnbondAmount v amt) := by
  unfold stakingValidateUnbondAmount
  apply Errs.getW_bind; intro w
  rcases getSVal w v with _ | sv
  · exact Errs.throwE _ (hS _ (by decide))
  · try dsimp only []
    rcases sv.modShares with _ | ds
    · exact Errs.throwE _ (hS _ (by decide))
    · try dsimp only []
      apply Errs.bind (Errs.guardE _ _ (hS _ (by decide))); intro _
      apply Errs.bind (Errs.guardE _ _ (hS _ (by decide))); intro _
      exact Errs.pure _

theorem stakingUnbond_errs (hS : ∀ e ∈ endModesOK, e ∈ S) (v : ValId) (shares : Dec) : Errs S (stakingUnbond v shares) := by
  unfold stakingUnbond
  apply Errs.getW_bind; intro w
  rcases getSVal w v with _ | sv
  · exact Errs.throwE _ (hS _ (by decide))
  · try dsimp only []
    rcases sv.modShares with _ | ds
    · exact Errs.throwE _ (hS _ (by decide))
    · try dsimp only []
      apply Errs.bind (distrHookWithdraw_errs hS v); intro _
      apply Errs.bind (Errs.guardE _ _ (hS _ (by decide))); intro _
      apply Errs.bind
      · unfold queueRebalance; exact Errs.modifyW _
      · intro _
        apply Errs.bind (Errs.guardP _ _ (hS _ (by decide))); intro _
        apply Errs.bind
        · unfold setSVal; exact Errs.modifyW _
        · intro _; exact Errs.pure _

theorem rebalanceBondTokenWeights_errs (hS : ∀ e ∈ endModesOK, e ∈ S) (assets : List Asset) : Errs S (rebalanceBondTokenWeights assets) := by
  unfold rebalanceBondTokenWeights
  apply Errs.getW_bind; intro w
  try dsimp only []
  apply Errs.bind
  · apply Errs.foldlM; intro acc v
    apply Errs.bind ((getAllianceValidator_errs _).mono (fun e h => hS e (core_sub_endOK e h))); intro _
    exact Errs.pure _
  · intro snaps
    apply Errs.forEachM; intro validator
    apply Errs.getW_bind; intro w1
    try dsimp only []
    apply Errs.bind
    · apply Errs.foldlM; intro acc a
      apply Errs.ite
      · apply Errs.bind
        · unfold queueRebalance; exact Errs.modifyW _
        · intro _; exact Errs.pure _
      · try dsimp only []
        exact Errs.ite (Errs.pure _) (Errs.pure _)
    · intro expected
      apply Errs.ite
      · try dsimp only []
        apply Errs.ite (Errs.pure _)
        apply Errs.bind (mintCoin_errs _ _ _); intro _
        apply Errs.bind ((claimValidatorRewards_errs _).mono (fun e h => hS e (core_sub_endOK e h))); intro _
        exact stakingDelegate_errs hS _ _ _
      · apply Errs.ite
        · try dsimp only []
          apply Errs.ite (Errs.pure _)
          apply Errs.bind (stakingValidateUnbondAmount_errs hS _ _); intro _
          apply Errs.bind ((claimValidatorRewards_errs _).mono (fun e h => hS e (core_sub_endOK e h))); intro _
          apply Errs.bind (stakingUnbond_errs hS _ _); intro _
          exact burnCoin_errs (hS _ (by decide)) _ _ _
        · exact Errs.pure _

/-- C17: the complete list of ways in which the end blocker can fail, for every state -/
theorem endBlocker_errs_gen (hS : ∀ e ∈ endModesOK, e ∈ S) (hd : Err.err "invalid_duration" ∈ S) (hz : Err.panic "int_div_zero" ∈ S) : Errs S endBlocker := by
  unfold endBlocker
  apply Errs.bind
  · unfold completeRedelegations; exact Errs.modifyW _
  · intro _
    apply Errs.bind (completeUnbondings_errs hS); intro _
    apply Errs.getW_bind; intro w
    try dsimp only []
    apply Errs.bind (initializeAllianceAssets_errs hS _); intro as1
    apply Errs.bind (deductAssetsHook_errs hS hd hz _); intro as2
    apply Errs.bind
    · unfold rewardWeightChangeHook; exact rewardWeightChangeHook_go_errs hS _ _
    · intro as3
      unfold rebalanceHook
      apply Errs.getW_bind; intro w1
      apply Errs.ite _ (Errs.pure _)
      apply Errs.bind (Errs.modifyW _); intro _
      exact rebalanceBondTokenWeights_errs hS _

/-- C17: the complete list of ways in which the end blocker can fail, for every state -/
theorem endBlocker_errs : Errs endModes endBlocker :=
  endBlocker_errs_gen endOK_sub_end (by decide) (by decide)

end eb
end Alliance
