/-
  IndexInv.lean — the per-validator unbonding index and the unbonding queue describe the same pending entries:
  every entry has its index key, every index key has an entry in the bucket it points at, entries sit in their own
  delegator's bucket, and both stores are strictly sorted (duplicate-free). List-level effects of the three writers.
-/
import AllianceProofs.SetLemmas
import AllianceProofs.AListLemmas
import AllianceModel.Keeper
set_option linter.unusedVariables false
namespace Alliance
open Dec

structure IdxOK (q : List (UndelKey × List Undel)) (ix : List UndelIdxKey) : Prop where
  qsorted : AL.SortedBy undelKeyOrder q
  isorted : SortedK undelIdxOrder ix
  owner : ∀ p ∈ q, ∀ e ∈ p.2, e.del = p.1.2
  covered : ∀ p ∈ q, ∀ e ∈ p.2, (e.val, p.1.1, e.denom, p.1.2) ∈ ix
  witness : ∀ k ∈ ix, ∃ es, AL.get q (k.2.1, k.2.2.2) = some es ∧ ∃ e ∈ es, e.val = k.1 ∧ e.denom = k.2.2.1

/-- queueing an entry: it joins its delegator's bucket and its key joins the index -/
theorem IdxOK.queue {q ix} (h : IdxOK q ix) (t : Time) (del : Acct) (v : ValId) (d : Denom) (amt : Int) :
    IdxOK (AL.set q (t, del) ((AL.get q (t, del)).getD [] ++ [{ del := del, val := v, denom := d, amount := amt }]))
      (setInsert ix (v, t, d, del)) := by
  have hold : ∀ e ∈ (AL.get q (t, del)).getD [], e.del = del ∧ (e.val, t, e.denom, del) ∈ ix := by
    intro e he
    cases hg : AL.get q (t, del) with
    | none => rw [hg] at he; simp [Option.getD] at he
    | some es =>
      rw [hg] at he
      have hm := AL.get_some_mem _ _ _ hg
      exact ⟨h.owner _ hm e he, h.covered _ hm e he⟩
  refine ⟨AL.set_sorted undelKeyOrder _ _ _ h.qsorted, setInsert_sorted undelIdxOrder _ _ h.isorted, ?_, ?_, ?_⟩
  · intro p hp e he
    rcases AL.mem_set _ _ _ _ hp with hp' | hp'
    · rw [hp'] at he ⊢
      rcases List.mem_append.mp he with h1 | h1
      · exact (hold e h1).1
      · rw [List.mem_singleton.mp h1]
    · exact h.owner p hp' e he
  · intro p hp e he
    rcases AL.mem_set _ _ _ _ hp with hp' | hp'
    · rw [hp'] at he ⊢
      rcases List.mem_append.mp he with h1 | h1
      · exact mem_setInsert_of_mem _ _ _ (hold e h1).2
      · rw [List.mem_singleton.mp h1]; exact mem_setInsert_self _ _
    · exact mem_setInsert_of_mem _ _ _ (h.covered p hp' e he)
  · intro k hk
    rcases mem_of_mem_setInsert _ _ _ hk with e | e
    · rw [e]
      exact ⟨_, AL.get_set_eq _ _ _, _, List.mem_append_right _ (List.mem_singleton.mpr rfl), rfl, rfl⟩
    · obtain ⟨es, hg, e0, he0, h1, h2⟩ := h.witness k e
      by_cases hkey : (k.2.1, k.2.2.2) = (t, del)
      · rw [hkey] at hg ⊢
        refine ⟨_, AL.get_set_eq _ _ _, e0, ?_, h1, h2⟩
        rw [hg]; exact List.mem_append_left _ he0
      · exact ⟨es, by rw [AL.get_set_ne _ _ _ _ hkey]; exact hg, e0, he0, h1, h2⟩

theorem foldl_erase_sublist {κ : Type} [BEq κ] [LawfulBEq κ] (ks ix : List κ) : (ks.foldl List.erase ix).Sublist ix := by
  induction ks generalizing ix with
  | nil => exact List.Sublist.refl _
  | cons k t ih => exact (ih (ix.erase k)).trans (List.erase_sublist ..)

theorem mem_foldl_erase {κ : Type} [BEq κ] [LawfulBEq κ] (ks ix : List κ) (x : κ) (hx : x ∈ ix) (hn : x ∉ ks) :
    x ∈ ks.foldl List.erase ix := by
  induction ks generalizing ix with
  | nil => exact hx
  | cons k t ih =>
    have hne : x ≠ k := fun e => hn (by rw [e]; exact List.mem_cons_self ..)
    exact ih (ix.erase k) ((List.mem_erase_of_ne hne).mpr hx) (fun h => hn (List.mem_cons_of_mem _ h))

theorem not_mem_foldl_erase {κ : Type} [DecidableEq κ] [Ord κ] [BEq κ] [LawfulBEq κ] (o : KeyOrder κ) (ks ix : List κ) (hs : SortedK o ix) (x : κ)
    (hx : x ∈ ks) : x ∉ ks.foldl List.erase ix := by
  induction ks generalizing ix with
  | nil => cases hx
  | cons k t ih =>
    rcases List.mem_cons.mp hx with e | e
    · intro hm
      have := (foldl_erase_sublist t (ix.erase k)).subset hm
      rw [← e] at this
      exact not_mem_erase_self o ix x hs this
    · exact ih (ix.erase k) (erase_sortedK o ix k hs) e

theorem AL.mem_erase_key_ne {κ α : Type} [DecidableEq κ] [Ord κ] (o : KeyOrder κ) (l : List (κ × α)) (k : κ) (p : κ × α)
    (hs : AL.SortedBy o l) (hp : p ∈ AL.erase l k) : p.1 ≠ k := by
  intro e
  have h1 := AL.mem_get o _ p (AL.erase_sorted o l k hs) hp
  rw [e, AL.get_erase_self o l k hs] at h1
  cases h1

/-- paying out a whole bucket: the bucket leaves the queue, the keys of its entries leave the index -/
theorem IdxOK.pay {q ix} (h : IdxOK q ix) (t : Time) (del : Acct) (es : List Undel) (hg : AL.get q (t, del) = some es) :
    IdxOK (AL.erase q (t, del)) ((es.map fun e => (e.val, t, e.denom, e.del)).foldl List.erase ix) := by
  have hm := AL.get_some_mem _ _ _ hg
  have hown : ∀ e ∈ es, e.del = del := h.owner _ hm
  refine ⟨AL.erase_sorted undelKeyOrder _ _ h.qsorted, List.Pairwise.sublist (foldl_erase_sublist _ _) h.isorted, ?_, ?_, ?_⟩
  · intro p hp e he
    exact h.owner p (AL.mem_erase _ _ _ hp) e he
  · intro p hp e he
    have hne := AL.mem_erase_key_ne undelKeyOrder q (t, del) p h.qsorted hp
    apply mem_foldl_erase _ _ _ (h.covered p (AL.mem_erase _ _ _ hp) e he)
    intro hmem
    obtain ⟨e', he', heq⟩ := List.mem_map.mp hmem
    apply hne
    injection heq with _ h2
    injection h2 with h2 h3
    injection h3 with _ h4
    rw [hown e' he'] at h4
    exact Prod.ext h2.symm h4.symm
  · intro k hk
    have hk0 : k ∈ ix := (foldl_erase_sublist _ _).subset hk
    obtain ⟨es0, hg0, e0, he0, h1, h2⟩ := h.witness k hk0
    by_cases hkey : (k.2.1, k.2.2.2) = (t, del)
    · exfalso
      rw [hkey, hg] at hg0
      injection hg0 with hg0
      subst hg0
      have hke : k = (e0.val, t, e0.denom, e0.del) := by
        injection hkey with a b
        rw [hown e0 he0]
        exact Prod.ext h1.symm (Prod.ext a (Prod.ext h2.symm b))
      have : k ∈ es.map fun e => (e.val, t, e.denom, e.del) := by rw [hke]; exact List.mem_map.mpr ⟨e0, he0, rfl⟩
      exact not_mem_foldl_erase undelIdxOrder _ ix h.isorted k this hk
    · exact ⟨es0, by rw [AL.get_erase_ne _ _ _ hkey]; exact hg0, e0, he0, h1, h2⟩

/-- rewriting a bucket entry-wise without touching validator, denom or delegator (what the slash does) -/
theorem IdxOK.mapBucket {q ix} (h : IdxOK q ix) (key : UndelKey) (f : Undel → Undel)
    (hf : ∀ e, (f e).val = e.val ∧ (f e).denom = e.denom ∧ (f e).del = e.del) :
    IdxOK (AL.set q key (((AL.get q key).getD []).map f)) ix := by
  have hold : ∀ e ∈ (AL.get q key).getD [], e.del = key.2 ∧ (e.val, key.1, e.denom, key.2) ∈ ix := by
    intro e he
    cases hg : AL.get q key with
    | none => rw [hg] at he; simp [Option.getD] at he
    | some es =>
      rw [hg] at he
      have hm := AL.get_some_mem _ _ _ hg
      exact ⟨h.owner _ hm e he, h.covered _ hm e he⟩
  refine ⟨AL.set_sorted undelKeyOrder _ _ _ h.qsorted, h.isorted, ?_, ?_, ?_⟩
  · intro p hp e he
    rcases AL.mem_set _ _ _ _ hp with hp' | hp'
    · rw [hp'] at he ⊢
      obtain ⟨e0, he0, rfl⟩ := List.mem_map.mp he
      rw [(hf e0).2.2]; exact (hold e0 he0).1
    · exact h.owner p hp' e he
  · intro p hp e he
    rcases AL.mem_set _ _ _ _ hp with hp' | hp'
    · rw [hp'] at he ⊢
      obtain ⟨e0, he0, rfl⟩ := List.mem_map.mp he
      rw [(hf e0).1, (hf e0).2.1]; exact (hold e0 he0).2
    · exact h.covered p hp' e he
  · intro k hk
    obtain ⟨es, hg, e0, he0, h1, h2⟩ := h.witness k hk
    by_cases hkey : (k.2.1, k.2.2.2) = key
    · rw [hkey] at hg ⊢
      refine ⟨_, AL.get_set_eq _ _ _, f e0, ?_, by rw [(hf e0).1]; exact h1, by rw [(hf e0).2.1]; exact h2⟩
      rw [hg]; exact List.mem_map.mpr ⟨e0, he0, rfl⟩
    · exact ⟨es, by rw [AL.get_set_ne _ _ _ _ hkey]; exact hg, e0, he0, h1, h2⟩

end Alliance
