/-
  UndelRoundTrip.lean — C18: export → wipe → import rebuilds the unbonding queue AND its per-validator index exactly, in
  every state where the two agree (INV-I) and no bucket is empty (an invariant of every history as well: buckets are
  created by an append and removed whole).
-/
import AllianceProofs.GenesisRoundTrip
import AllianceProofs.IndexHistory
import AllianceProofs.SlashAll
set_option linter.unusedVariables false
namespace Alliance
open Dec

/-- two strictly sorted key lists with the same members are the same list -/
theorem sortedK_ext {κ : Type} [DecidableEq κ] [Ord κ] (o : KeyOrder κ) :
    ∀ (a b : List κ), SortedK o a → SortedK o b → (∀ x, x ∈ a ↔ x ∈ b) → a = b := by
  intro a
  induction a with
  | nil =>
    intro b _ _ h
    cases b with
    | nil => rfl
    | cons y t => exact absurd ((h y).mpr (List.mem_cons_self ..)) List.not_mem_nil
  | cons x s ih =>
    intro b ha hb h
    cases b with
    | nil => exact absurd ((h x).mp (List.mem_cons_self ..)) List.not_mem_nil
    | cons y t =>
      have ha' := List.pairwise_cons.mp ha
      have hb' := List.pairwise_cons.mp hb
      have hxy : x = y := by
        rcases List.mem_cons.mp ((h x).mp (List.mem_cons_self ..)) with e | e
        · exact e
        · rcases List.mem_cons.mp ((h y).mpr (List.mem_cons_self ..)) with e2 | e2
          · exact e2.symm
          · exact absurd (o.trans _ _ _ (ha'.1 y e2) (hb'.1 x e)) (o.irrefl _)
      subst hxy
      congr 1
      apply ih t ha'.2 hb'.2
      intro z
      constructor
      · intro hz
        rcases List.mem_cons.mp ((h z).mp (List.mem_cons_of_mem _ hz)) with e | e
        · subst e; exact absurd (ha'.1 z hz) (o.irrefl _)
        · exact e
      · intro hz
        rcases List.mem_cons.mp ((h z).mpr (List.mem_cons_of_mem _ hz)) with e | e
        · subst e; exact absurd (hb'.1 z hz) (o.irrefl _)
        · exact e

/-- what `InitGenesis` does with one exported bucket -/
def importBucket (st : List (UndelKey × List Undel) × List UndelIdxKey) (p : Time × List Undel) :
    List (UndelKey × List Undel) × List UndelIdxKey :=
  match p.2 with
  | [] => st
  | e0 :: _ => (AL.set st.1 (p.1, e0.del) p.2, p.2.foldl (fun ix e => setInsert ix (e.val, p.1, e.denom, e0.del)) st.2)

theorem importIndexLoop (t : Time) (del : Acct) (es : List Undel) (w : World) :
    forEachM (fun (e : Undel) => modifyW fun w => { w with undelIndex := setInsert w.undelIndex (e.val, t, e.denom, del) }) es w =
      (.ok (), { w with undelIndex := es.foldl (fun ix e => setInsert ix (e.val, t, e.denom, del)) w.undelIndex }) := by
  induction es generalizing w with
  | nil => rfl
  | cons e r ih =>
    unfold forEachM
    simp only [bind_apply, modifyW_apply]
    rw [ih]
    rfl

theorem importBuckets_run (l : List (Time × List Undel)) (w : World) :
    forEachM (fun (p : Time × List Undel) =>
      match p.2 with
      | [] => pure ()
      | e0 :: _ => do
        modifyW fun w => { w with undelQueue := AL.set w.undelQueue (p.1, e0.del) p.2 }
        forEachM (fun (e : Undel) =>
          modifyW fun w => { w with undelIndex := setInsert w.undelIndex (e.val, p.1, e.denom, e0.del) }) p.2) l w =
      (.ok (), { w with undelQueue := (l.foldl importBucket (w.undelQueue, w.undelIndex)).1,
                        undelIndex := (l.foldl importBucket (w.undelQueue, w.undelIndex)).2 }) := by
  induction l generalizing w with
  | nil => rfl
  | cons p r ih =>
    unfold forEachM
    simp only [bind_apply, List.foldl_cons]
    obtain ⟨t, es⟩ := p
    cases es with
    | nil =>
      simp only [pure_apply]
      rw [ih]
      rfl
    | cons e0 rest =>
      simp only [bind_apply, modifyW_apply, importIndexLoop]
      rw [ih]
      rfl

def keysOf (l : List (UndelKey × List Undel)) : List UndelIdxKey :=
  l.flatMap fun p => p.2.map fun e => (e.val, p.1.1, e.denom, p.1.2)

def NEQ (q : List (UndelKey × List Undel)) : Prop := ∀ p ∈ q, p.2 ≠ []

theorem import_fold (suf : List (UndelKey × List Undel)) (hown : ∀ p ∈ suf, ∀ e ∈ p.2, e.del = p.1.2) (hne : NEQ suf) :
    ∀ st : List (UndelKey × List Undel) × List UndelIdxKey,
      (suf.map fun (p : UndelKey × List Undel) => (p.1.1, p.2)).foldl importBucket st =
        (suf.foldl (fun acc p => AL.set acc p.1 p.2) st.1, (keysOf suf).foldl setInsert st.2) := by
  induction suf with
  | nil => intro st; rfl
  | cons p r ih =>
    intro st
    obtain ⟨k, es⟩ := p
    cases es with
    | nil => exact absurd rfl (hne _ (List.mem_cons_self ..))
    | cons e0 rest =>
      have h0 : e0.del = k.2 := hown _ (List.mem_cons_self ..) e0 (List.mem_cons_self ..)
      simp only [List.map_cons, List.foldl_cons]
      rw [ih (fun q hq => hown q (List.mem_cons_of_mem _ hq)) (fun q hq => hne q (List.mem_cons_of_mem _ hq))]
      unfold importBucket
      simp only
      have hk : (k.1, e0.del) = k := by rw [h0]
      rw [hk, h0]
      unfold keysOf
      simp only [List.flatMap_cons, List.foldl_append, List.foldl_map]

theorem foldl_setInsert_sorted {κ : Type} [DecidableEq κ] [Ord κ] (o : KeyOrder κ) (ks ix : List κ) (hs : SortedK o ix) :
    SortedK o (ks.foldl setInsert ix) := by
  induction ks generalizing ix with
  | nil => exact hs
  | cons k t ih => exact ih _ (setInsert_sorted o ix k hs)

theorem mem_foldl_setInsert {κ : Type} [DecidableEq κ] [Ord κ] (ks ix : List κ) (x : κ) :
    x ∈ ks.foldl setInsert ix ↔ x ∈ ix ∨ x ∈ ks := by
  induction ks generalizing ix with
  | nil => simp
  | cons k t ih =>
    simp only [List.foldl_cons]
    rw [ih]
    constructor
    · rintro (h | h)
      · rcases mem_of_mem_setInsert _ _ _ h with e | e
        · exact Or.inr (by rw [e]; exact List.mem_cons_self ..)
        · exact Or.inl e
      · exact Or.inr (List.mem_cons_of_mem _ h)
    · rintro (h | h)
      · exact Or.inl (mem_setInsert_of_mem _ _ _ h)
      · rcases List.mem_cons.mp h with e | e
        · exact Or.inl (by rw [e]; exact mem_setInsert_self _ _)
        · exact Or.inr e

/-- the list-level round trip -/
theorem import_rebuilds {q ix} (h : IdxOK q ix) (hne : NEQ q) :
    (q.map fun (p : UndelKey × List Undel) => (p.1.1, p.2)).foldl importBucket ([], []) = (q, ix) := by
  rw [import_fold q h.owner hne]
  simp only
  congr 1
  · exact AL.rebuild_sorted undelKeyOrder q h.qsorted [] (fun p hp => by cases hp)
  · apply sortedK_ext undelIdxOrder _ _ (foldl_setInsert_sorted undelIdxOrder _ _ List.Pairwise.nil) h.isorted
    intro x
    rw [mem_foldl_setInsert]
    unfold keysOf
    simp only [List.not_mem_nil, false_or, List.mem_flatMap, List.mem_map]
    constructor
    · rintro ⟨p, hp, e, he, rfl⟩
      exact h.covered p hp e he
    · intro hx
      obtain ⟨es, hes, e, he, h1, h2⟩ := h.witness x hx
      refine ⟨((x.2.1, x.2.2.2), es), AL.get_some_mem _ _ _ hes, e, he, ?_⟩
      simp only [h1, h2]

theorem M.bind_assoc {α β γ : Type} (m : M α) (f : α → M β) (g : β → M γ) :
    (m >>= f) >>= g = m >>= fun a => f a >>= g := by
  funext w
  simp only [bind_apply]
  rcases m w with ⟨r, w1⟩
  cases r <;> rfl

theorem initParams_uframe (g : Genesis) : FrameUndel.Fr (initParams g) := by
  constructor
  intro w
  unfold initParams
  have := (by simp only [uframe] : FrameUndel.Fr (setParams g.params)).frame w
  rcases hp : setParams g.params w with ⟨r, w1⟩
  rw [hp] at this
  cases r <;> exact this

/-- the two unbonding stores after an import: the exported buckets imported one by one, nothing else -/
theorem initGenesis_undel (g : Genesis) (w w' : World) (h : initGenesis g w = (.ok (), w')) :
    (w'.undelQueue, w'.undelIndex) = g.undelegations.foldl importBucket (w.undelQueue, w.undelIndex) := by
  rw [initGenesis_eq] at h
  have hpre : FrameUndel.Fr (initParams g >>= fun _ => forEachM setAsset g.assets >>= fun _ =>
      forEachM (fun (p : ValId × ValInfo) => setValInfo p.1 p.2) g.valInfos >>= fun _ =>
      forEachM setDelegation g.delegations >>= fun _ =>
      forEachM (fun (p : Time × Redel) => do
        addRedelegation p.2.del p.2.src p.2.dst p.2.denom p.2.amount p.1
        queueRedelegation { del := p.2.del, src := p.2.src, dst := p.2.dst, denom := p.2.denom, amount := p.2.amount } p.1) g.redelegations) := by
    apply FrameUndel.bind (initParams_uframe g); intro _
    apply FrameUndel.bind (FrameUndel.forEachM _ _ (fun a => by simp only [uframe])); intro _
    apply FrameUndel.bind (FrameUndel.forEachM _ _ (fun a => by simp only [uframe])); intro _
    apply FrameUndel.bind (FrameUndel.forEachM _ _ (fun a => by simp only [uframe])); intro _
    apply FrameUndel.forEachM; intro p
    exact FrameUndel.bind (by simp only [uframe]) (fun _ => by simp only [uframe])
  have hre : (initParams g >>= fun _ => forEachM setAsset g.assets >>= fun _ =>
      forEachM (fun (p : ValId × ValInfo) => setValInfo p.1 p.2) g.valInfos >>= fun _ =>
      forEachM setDelegation g.delegations >>= fun _ => initAfterDelegations g) =
     ((initParams g >>= fun _ => forEachM setAsset g.assets >>= fun _ =>
      forEachM (fun (p : ValId × ValInfo) => setValInfo p.1 p.2) g.valInfos >>= fun _ =>
      forEachM setDelegation g.delegations >>= fun _ =>
      forEachM (fun (p : Time × Redel) => do
        addRedelegation p.2.del p.2.src p.2.dst p.2.denom p.2.amount p.1
        queueRedelegation { del := p.2.del, src := p.2.src, dst := p.2.dst, denom := p.2.denom, amount := p.2.amount } p.1) g.redelegations) >>= fun _ =>
      (forEachM (fun (p : Time × List Undel) =>
        match p.2 with
        | [] => pure ()
        | e0 :: _ => do
          modifyW fun w => { w with undelQueue := AL.set w.undelQueue (p.1, e0.del) p.2 }
          forEachM (fun (e : Undel) =>
            modifyW fun w => { w with undelIndex := setInsert w.undelIndex (e.val, p.1, e.denom, e0.del) }) p.2) g.undelegations >>= fun _ =>
       forEachM (fun (p : SnapKey × Snapshot) => modifyW fun w => { w with snaps := AL.set w.snaps p.1 p.2 }) g.snapshots)) := by
    unfold initAfterDelegations
    simp only [M.bind_assoc]
    rfl
  rw [hre] at h
  generalize hP : (initParams g >>= fun _ => forEachM setAsset g.assets >>= fun _ =>
      forEachM (fun (p : ValId × ValInfo) => setValInfo p.1 p.2) g.valInfos >>= fun _ =>
      forEachM setDelegation g.delegations >>= fun _ =>
      forEachM (fun (p : Time × Redel) => do
        addRedelegation p.2.del p.2.src p.2.dst p.2.denom p.2.amount p.1
        queueRedelegation { del := p.2.del, src := p.2.src, dst := p.2.dst, denom := p.2.denom, amount := p.2.amount } p.1) g.redelegations) = pre at h hpre
  simp only [bind_apply] at h
  rcases hp : pre w with ⟨r1, w1⟩
  have hf1 := hpre.frame w
  rw [hp] at hf1 h
  cases r1 with
  | error e => simp at h
  | ok u1 =>
    simp only [importBuckets_run] at h
    have hsn : FrameUndel.Fr (forEachM (fun (p : SnapKey × Snapshot) => modifyW fun w => { w with snaps := AL.set w.snaps p.1 p.2 }) g.snapshots) := by
      apply FrameUndel.forEachM; intro p; apply FrameUndel.modifyW; intro w; rfl
    have hf2 := hsn.frame { w1 with undelQueue := (g.undelegations.foldl importBucket (w1.undelQueue, w1.undelIndex)).1,
                                    undelIndex := (g.undelegations.foldl importBucket (w1.undelQueue, w1.undelIndex)).2 }
    rw [h] at hf2
    simp only [FrameUndel.π, Prod.mk.injEq] at hf1 hf2
    rw [hf2.1, hf2.2, hf1.1, hf1.2]

/-- C18: the unbonding queue and its index survive export → wipe → import exactly, in every state where they agree
    (INV-I) and no bucket is empty -/
theorem reimport_restores_unbondings (w w' : World) (h : reimport w = (.ok (), w')) (hix : IX w) (hne : NEQ w.undelQueue) :
    w'.undelQueue = w.undelQueue ∧ w'.undelIndex = w.undelIndex := by
  unfold reimport at h
  simp only [bind_apply, getW_apply, setW_apply] at h
  have := initGenesis_undel _ _ _ h
  have hexp : (exportGenesis w).undelegations = w.undelQueue.map fun (p : UndelKey × List Undel) => (p.1.1, p.2) := by
    unfold exportGenesis; simp only
  rw [hexp] at this
  have h2 := import_rebuilds hix hne
  have h3 : (clearModuleStore w).undelQueue = [] ∧ (clearModuleStore w).undelIndex = [] := ⟨rfl, rfl⟩
  rw [h3.1, h3.2, h2] at this
  simp only [Prod.mk.injEq] at this
  exact this

/-! ### no bucket is ever empty -/

def NE (w : World) : Prop := NEQ w.undelQueue

theorem NE.frame {α} {m : M α} (h : FrameUQ.Fr m) : Hoare NE m (fun _ w => NE w) := by
  constructor
  intro w w' a hm hw
  have hf : FrameUQ.π w' = FrameUQ.π w := by have := h.frame w; rw [hm] at this; exact this
  have hq : w'.undelQueue = w.undelQueue := hf
  unfold NE; rw [hq]; exact hw

macro "n_frame" : tactic => `(tactic| (first | exact FrameUQ.liftE _ | exact FrameUQ.pure _ | exact FrameUQ.guardE _ _ | exact FrameUQ.guardP _ _ | (simp only [qframe]; done)))

theorem neq_set (q : List (UndelKey × List Undel)) (k : UndelKey) (es : List Undel) (hq : NEQ q) (he : es ≠ []) :
    NEQ (AL.set q k es) := by
  intro p hp
  rcases AL.mem_set _ _ _ _ hp with h | h
  · rw [h]; exact he
  · exact hq p h

theorem queueUndelegation_ne (del : Acct) (v : ValId) (d : Denom) (amt : Int) :
    Hoare NE (queueUndelegation del v d amt) (fun _ w => NE w) := by
  constructor
  intro w w' a hm hw
  have hst := queueUndelegation_state del v d amt w
  rw [hm] at hst
  simp only at hst
  subst hst
  exact neq_set _ _ _ hw (by simp)

theorem payBucket_ne (b : UndelKey × List Undel) : Hoare NE (payBucket b) (fun _ w => NE w) := by
  unfold payBucket
  apply Hoare.bind (NE.frame (FrameUQ.forEachM _ _ (fun e => FrameUQ.payEntry _ e))); intro _
  exact Hoare.modifyW _ (fun w hw p hp => hw p (AL.mem_erase _ _ _ hp))

theorem completeUnbondings_ne : Hoare NE completeUnbondings (fun _ w => NE w) := by
  unfold completeUnbondings
  apply Hoare.getW_bind; intro w0 hP
  apply Hoare.at_state hP
  apply Hoare.bind (Hoare.forEachM _ _ (fun b _ => payBucket_ne b)); intro _
  apply Hoare.getW_bind; intro w1 hP1
  apply Hoare.at_state hP1
  exact NE.frame (by dsimp only []; split <;> n_frame)

/-- index and queue agree, and no bucket is empty -/
def IXN (w : World) : Prop := IX w ∧ NE w

theorem slashUndelegations_ixn (v : ValId) (f : Dec) : Hoare IXN (slashUndelegations v f) (fun _ w => IXN w) := by
  unfold slashUndelegations
  apply Hoare.getW_bind; intro w0 hP
  dsimp only []
  refine Hoare.conseq (P' := fun w => IXN w ∧ w.undelIndex = w0.undelIndex) (Q' := fun _ w => IXN w ∧ w.undelIndex = w0.undelIndex) ?_
    (fun w e => by subst e; exact ⟨hP, rfl⟩) (fun _ _ q => q.1)
  apply Hoare.forEachM
  intro k hk
  have hk0 : k ∈ w0.undelIndex := (List.mem_filter.mp hk).1
  apply Hoare.getW_bind; intro w1 hP1
  obtain ⟨kv, kt, kd, kdel⟩ := k
  dsimp only []
  apply Hoare.ite
  · intro _; exact Hoare.pure _ (fun w e => by subst e; exact hP1)
  · intro _
    obtain ⟨⟨hix1, hne1⟩, hidx1⟩ := hP1
    obtain ⟨es, hes, e0, he0, _, _⟩ := hix1.witness (kv, kt, kd, kdel) (by rw [hidx1]; exact hk0)
    simp only at hes
    constructor
    intro w w' a hm hw
    subst hw
    simp only [bind_apply] at hm
    rcases hsend : forEachM (fun (e : Undel) =>
        if e.val == v && e.denom == kd then sendCoins accModule accFee (Coins.single e.denom (slashEntryCut v kd f e))
        else pure ()) ((AL.get w.undelQueue (kt, kdel)).getD []) w with ⟨r, w2⟩
    rw [hsend] at hm
    obtain ⟨f1, f2, _⟩ := sends_frame v kd f _ w w2 r hsend
    cases r with
    | error e => simp at hm
    | ok u =>
      simp only [modifyW_apply] at hm
      injection hm with _ h2
      subst h2
      refine ⟨⟨?_, ?_⟩, by show w2.undelIndex = _; rw [f2]; exact hidx1⟩
      · unfold IX
        show IdxOK (AL.set w2.undelQueue (kt, kdel) (slashBucket v kd f ((AL.get w.undelQueue (kt, kdel)).getD []))) w2.undelIndex
        rw [f1, f2, slashBucket_eq_map]
        exact IdxOK.mapBucket hix1 (kt, kdel) _ (fun e => ⟨rfl, rfl, rfl⟩)
      · show NEQ (AL.set w2.undelQueue (kt, kdel) (slashBucket v kd f ((AL.get w.undelQueue (kt, kdel)).getD [])))
        rw [f1]
        apply neq_set _ _ _ hne1
        rw [hes]
        unfold slashBucket
        intro hnil
        have := List.map_eq_nil_iff.mp hnil
        simp only [Option.getD_some] at this
        rw [this] at he0
        exact absurd he0 List.not_mem_nil

theorem ixn_of {α} {m : M α} (h1 : Hoare IX m (fun _ w => IX w)) (h2 : Hoare NE m (fun _ w => NE w)) :
    Hoare IXN m (fun _ w => IXN w) := Hoare.and h1 h2

theorem undelegate_ne (del : Acct) (val : AVal) (d : Denom) (amt : Int) : Hoare NE (undelegate del val d amt) (fun _ w => NE w) := by
  unfold undelegate
  apply Hoare.getW_bind; intro w0 hP
  apply Hoare.at_state hP
  rcases ha : getAsset w0 d with _ | a
  · exact Hoare.throwE _
  · dsimp only []
    apply Hoare.bind (NE.frame (by n_frame)); intro _
    apply Hoare.bind (NE.frame (by n_frame)); intro r
    apply Hoare.getW_bind; intro w1 hP1
    apply Hoare.at_state hP1
    try dsimp only []
    apply Hoare.bind (NE.frame (by n_frame)); intro _
    apply Hoare.bind (NE.frame (by n_frame)); intro _
    apply Hoare.bind (NE.frame (by n_frame)); intro _
    apply Hoare.bind (NE.frame (by n_frame)); intro _
    apply Hoare.bind (NE.frame (by n_frame)); intro _
    apply Hoare.bind (NE.frame (by n_frame)); intro _
    apply Hoare.bind (NE.frame (by n_frame)); intro _
    apply Hoare.bind (NE.frame (by n_frame)); intro _
    apply Hoare.bind (NE.frame (by n_frame)); intro val2
    apply Hoare.bind (NE.frame (by n_frame)); intro _
    apply Hoare.bind (queueUndelegation_ne del val2.id d amt); intro _
    exact NE.frame (by n_frame)

theorem msgUndelegate_ne (del : Acct) (v : ValId) (d : Denom) (amt : Int) : Hoare NE (msgUndelegate del v d amt) (fun _ w => NE w) := by
  unfold msgUndelegate
  apply Hoare.bind (NE.frame (by n_frame)); intro _
  apply Hoare.bind (NE.frame (by n_frame)); intro val
  exact undelegate_ne del val d amt

theorem beforeValidatorSlashed_ixn (v : ValId) (f : Dec) : Hoare IXN (beforeValidatorSlashed v f) (fun _ w => IXN w) := by
  have fr : ∀ {α} {m : M α}, FrameUndel.Fr m → Hoare IXN m (fun _ w => IXN w) := by
    intro α m h
    constructor
    intro w w' a hm hw
    have hf : FrameUndel.π w' = FrameUndel.π w := by have := h.frame w; rw [hm] at this; exact this
    simp only [FrameUndel.π, Prod.mk.injEq] at hf
    unfold IXN IX NE; rw [hf.1, hf.2]; exact hw
  unfold beforeValidatorSlashed slashValidator
  apply Hoare.bind
  · apply Hoare.bind (fr (by u_frame)); intro _
    apply Hoare.bind (fr (by u_frame)); intro val
    apply Hoare.bind
    · apply fr
      apply FrameUndel.foldlM
      intro acc share
      apply FrameUndel.bind (by u_frame); intro _
      apply FrameUndel.bind FrameUndel.getW; intro w1
      split
      · exact FrameUndel.throwE _
      · exact FrameUndel.bind (by u_frame) (fun _ => FrameUndel.pure _)
    · intro slashed
      apply Hoare.bind (fr (by u_frame)); intro _
      apply Hoare.bind (fr (by u_frame)); intro _
      exact slashUndelegations_ixn v f
  · intro _; exact fr (by u_frame)

theorem endBlocker_ne : Hoare NE endBlocker (fun _ w => NE w) := by
  unfold endBlocker
  apply Hoare.bind (NE.frame (by n_frame)); intro _
  apply Hoare.bind completeUnbondings_ne; intro _
  apply Hoare.getW_bind; intro w0 hP
  apply Hoare.at_state hP
  dsimp only []
  apply Hoare.bind (NE.frame (by n_frame)); intro as1
  apply Hoare.bind (NE.frame (by n_frame)); intro as2
  apply Hoare.bind (NE.frame (by n_frame)); intro as3
  exact NE.frame (by n_frame)

/-- every operation, when it succeeds, keeps "index and queue agree, no bucket empty" -/
theorem step_ixn (op : Op) (w w' : World) (h : step op w = (.ok (), w')) (hi : IXN w) : IXN w' := by
  refine ⟨?_, ?_⟩
  · cases op with
    | slash v f => exact ((beforeValidatorSlashed_ixn v f).run w w' () h hi).1
    | _ => exact step_ix _ w w' h hi.1
  · have tx : ∀ (m : M Unit), Hoare NE m (fun _ w => NE w) → asTx m w = (.ok (), w') → NE w' :=
      fun m hm hr => (Hoare.asTx hm).run w w' () hr hi.2
    cases op with
    | delegate del v d amt => exact tx _ (NE.frame (FrameUQ.msgDelegate del v d amt)) h
    | undelegate del v d amt => exact tx _ (msgUndelegate_ne del v d amt) h
    | redelegate del s t d amt => exact tx _ (NE.frame (FrameUQ.msgRedelegate del s t d amt)) h
    | claim del v d => exact tx _ (NE.frame (FrameUQ.msgClaim del v d)) h
    | createAlliance s f => exact tx _ (NE.frame (FrameUQ.msgCreateAlliance s f)) h
    | updateAlliance s f => exact tx _ (NE.frame (FrameUQ.msgUpdateAlliance s f)) h
    | deleteAlliance s d => exact tx _ (NE.frame (FrameUQ.msgDeleteAlliance s d)) h
    | updateParams s p => exact tx _ (NE.frame (FrameUQ.msgUpdateParams s p)) h
    | slash v f => exact ((beforeValidatorSlashed_ixn v f).run w w' () h hi).2
    | endBlock => exact endBlocker_ne.run w w' () h hi.2
    | hookDelegationModified => exact (NE.frame FrameUQ.queueRebalance).run w w' () h hi.2
    | hookValidatorBonded => exact (NE.frame FrameUQ.queueRebalance).run w w' () h hi.2
    | hookValidatorBeginUnbonding => exact (NE.frame FrameUQ.queueRebalance).run w w' () h hi.2
    | hookDelegationRemoved => exact (NE.frame FrameUQ.queueRebalance).run w w' () h hi.2
    | hookValidatorRemoved v => exact (NE.frame (FrameUQ.afterValidatorRemoved v)).run w w' () h hi.2
    | env => exact (NE.frame (FrameUQ.pure ())).run w w' () h hi.2

theorem reach_ixn (w w' : World) (hi : IXN w) (hr : ReachU w w') : IXN w' := by
  induction hr with
  | refl => exact hi
  | env _ hq hx ih => unfold IXN IX NE; rw [hq, hx]; exact ih
  | ok op tape _ hs ih => exact step_ixn op _ _ hs ih
  | failTx op tape e _ htx hf ih =>
    rw [step_tx_fail op _ e htx hf]
    exact ih

/-- C18 over histories: in every state reachable from one where index and queue agree and no bucket is empty (the empty
    stores), export → wipe → import restores the unbonding queue and its index exactly -/
theorem reimport_restores_unbondings_reachable (w0 w w' : World) (h0 : IXN w0) (hr : ReachU w0 w)
    (h : reimport w = (.ok (), w')) : w'.undelQueue = w.undelQueue ∧ w'.undelIndex = w.undelIndex :=
  let hi := reach_ixn w0 w h0 hr
  reimport_restores_unbondings w w' h hi.1 hi.2

end Alliance
