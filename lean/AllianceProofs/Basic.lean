import AllianceModel
namespace Alliance
end Alliance
