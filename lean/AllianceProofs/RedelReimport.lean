/-
  RedelReimport.lean — INV-R across a restart.  `InitGenesis` rebuilds the three redelegation stores from the exported
  records: every record is written, indexed under its (single) source and queued — twice, as the code does.  Whatever
  the state exported from, the three stores AGREE after the import (every queued entry has its record and index key,
  every record and index key has a queued entry): `reimport_gives_rx`.  So INV-R holds along histories with restarts.
  (The stores need not be the ones exported from: merged-source index keys are lost and entries are doubled — D12.)
-/
import AllianceProofs.RedelHistory
import AllianceProofs.GenesisRoundTrip
set_option linter.unusedVariables false
namespace Alliance

/-- queueing an entry again whose record and index key are already there -/
theorem RdOK.requeue {rs q ix} (h : RdOK rs q ix) (t : Time) (r : Redel)
    (hrec : ∃ x, AL.get rs (redelKeyOf t r) = some x) (hidx : redelIdxOf t r ∈ ix) :
    RdOK rs (AL.set q t ((AL.get q t).getD [] ++ [r])) ix := by
  refine ⟨h.rsorted, AL.set_sorted _ _ _ _ h.qsorted, h.isorted, ?_, ?_, ?_⟩
  · intro p hp r' hr'
    rcases AL.mem_set _ _ _ _ hp with hnew | hold
    · rw [hnew] at hr' ⊢
      simp only at hr' ⊢
      rcases List.mem_append.mp hr' with hr' | hr'
      · cases hg : AL.get q t with
        | none => rw [hg] at hr'; simp [Option.getD] at hr'
        | some es =>
          rw [hg] at hr'
          exact h.q_rec (t, es) (AL.get_some_mem _ _ _ hg) r' hr'
      · have := List.mem_singleton.mp hr'
        subst this
        exact ⟨hrec, hidx⟩
    · exact h.q_rec p hold r' hr'
  · intro p hp
    obtain ⟨es, hes, r', hr', hk⟩ := h.rec_q p hp
    obtain ⟨es', hes', hsub⟩ := bucket_append_keeps q t r _ es hes
    exact ⟨es', hes', r', hsub r' hr', hk⟩
  · intro k hk
    obtain ⟨es, hes, r', hr', hk'⟩ := h.idx_q k hk
    obtain ⟨es', hes', hsub⟩ := bucket_append_keeps q t r _ es hes
    exact ⟨es', hes', r', hsub r' hr', hk'⟩

theorem queueRedelegation_state (r : Redel) (t : Time) (w : World) :
    queueRedelegation r t w = (.ok (), { w with redelQueue := AL.set w.redelQueue t ((AL.get w.redelQueue t).getD [] ++ [r]) }) := by
  unfold queueRedelegation
  simp only [modifyW_apply]
  cases h : AL.get w.redelQueue t <;> simp [Option.getD]

/-- one record of the import loop -/
theorem importRedel_rx (p : Time × Redel) :
    Hoare RX (do
      addRedelegation p.2.del p.2.src p.2.dst p.2.denom p.2.amount p.1
      queueRedelegation { del := p.2.del, src := p.2.src, dst := p.2.dst, denom := p.2.denom, amount := p.2.amount } p.1)
      (fun _ w => RX w) := by
  constructor
  intro w w' a hm hw
  simp only [bind_apply] at hm
  rw [addRedelegation_state] at hm
  simp only at hm
  rw [queueRedelegation_state] at hm
  injection hm with _ h2
  subst h2
  have h1 := RdOK.add hw p.2.del p.2.src p.2.dst p.2.denom p.2.amount p.1
    (match AL.get w.redels (p.2.del, p.2.denom, p.2.dst, p.1) with
      | none => { del := p.2.del, src := p.2.src, dst := p.2.dst, denom := p.2.denom, amount := p.2.amount }
      | some r => { r with amount := r.amount + p.2.amount })
  exact RdOK.requeue h1 p.1 { del := p.2.del, src := p.2.src, dst := p.2.dst, denom := p.2.denom, amount := p.2.amount }
    ⟨_, AL.get_set_eq _ _ _⟩ (mem_setInsert_self _ _)

theorem initParams_rframe (g : Genesis) : FrameRedel.Fr (initParams g) := by
  constructor
  intro w
  unfold initParams
  have := (by simp only [rframe] : FrameRedel.Fr (setParams g.params)).frame w
  rcases hp : setParams g.params w with ⟨r, w1⟩
  rw [hp] at this
  cases r <;> exact this

theorem initGenesis_rx (g : Genesis) : Hoare RX (initGenesis g) (fun _ w => RX w) := by
  rw [initGenesis_eq]
  apply Hoare.bind (RX.frame (initParams_rframe g)); intro _
  apply Hoare.bind (RX.frame (FrameRedel.forEachM _ _ (fun a => by simp only [rframe]))); intro _
  apply Hoare.bind (RX.frame (FrameRedel.forEachM _ _ (fun a => by simp only [rframe]))); intro _
  apply Hoare.bind (RX.frame (FrameRedel.forEachM _ _ (fun a => by simp only [rframe]))); intro _
  unfold initAfterDelegations
  apply Hoare.bind (Hoare.forEachM _ _ (fun p _ => importRedel_rx p)); intro _
  apply Hoare.bind (R := fun _ w => RX w)
  · apply RX.frame
    apply FrameRedel.forEachM; intro p
    rcases p with ⟨t, _ | ⟨e0, es⟩⟩
    · exact FrameRedel.pure _
    · show FrameRedel.Fr (_ >>= _)
      refine FrameRedel.bind ?_ ?_
      · apply FrameRedel.modifyW; intro w; rfl
      · intro _
        apply FrameRedel.forEachM; intro e
        apply FrameRedel.modifyW; intro w; rfl
  · intro _
    apply RX.frame
    apply FrameRedel.forEachM; intro p
    apply FrameRedel.modifyW; intro w; rfl

theorem rx_empty (w : World) : RX (clearModuleStore w) := by
  unfold RX clearModuleStore
  refine ⟨?_, ?_, ?_, ?_, ?_, ?_⟩ <;> simp [AL.SortedBy, SortedK]

/-- C18 / INV-R: after export → wipe → import the three redelegation stores agree, whatever state was exported -/
theorem reimport_gives_rx (w w' : World) (h : reimport w = (.ok (), w')) : RX w' := by
  unfold reimport at h
  simp only [bind_apply, getW_apply, setW_apply] at h
  exact (initGenesis_rx _).run _ _ _ h (rx_empty w)

/-- histories with restarts -/
inductive ReachRG : World → World → Prop
  | refl (w : World) : ReachRG w w
  | env {w w1 w2 : World} : ReachRG w w1 → w2.redels = w1.redels → w2.redelQueue = w1.redelQueue →
      w2.redelIndex = w1.redelIndex → ReachRG w w2
  | ok {w w1 w2 : World} (op : Op) (tape : List (ValId × Coins)) : ReachRG w w1 →
      step op { w1 with oracle := tape } = (.ok (), w2) → ReachRG w w2
  | failTx {w w1 : World} (op : Op) (tape : List (ValId × Coins)) (e : Err) : ReachRG w w1 → op.isTx = true →
      (step op { w1 with oracle := tape }).1 = .error e → ReachRG w (step op { w1 with oracle := tape }).2
  | restart {w w1 w2 : World} : ReachRG w w1 → reimport w1 = (.ok (), w2) → ReachRG w w2

/-- INV-R along every history, restarts included -/
theorem reach_rx_with_restarts (w w' : World) (hrx : RX w) (hr : ReachRG w w') : RX w' := by
  induction hr with
  | refl => exact hrx
  | env _ h1 h2 h3 ih => unfold RX; rw [h1, h2, h3]; exact ih
  | ok op tape _ hs ih => exact step_rx op _ _ hs ih
  | failTx op tape e _ htx hf ih =>
    rw [step_tx_fail op _ e htx hf]
    exact ih
  | restart _ hre _ => exact reimport_gives_rx _ _ hre

end Alliance
