import Lean
/-- invariant lemmas `KeepStores.Kp (f args)`: the four record stores stay sorted and keyed -/
register_simp_attr kst
/-- invariant lemmas `KeepRK.Kp (f args)`: redelegation records stay keyed by their own fields -/
register_simp_attr krk
