/-
  ClaimPays.lean — C13/C12: what a claim moves. `ClaimDelegationRewards` pays the claimant, in every denom, exactly the
  coins `CalculateDelegationRewards` computed (the value it returns), out of the rewards pool and nowhere else.
-/
import AllianceProofs.OtherUsers
set_option linter.unusedVariables false
namespace Alliance
open Dec

/-- the claimant's balance grows by exactly the returned coins -/
theorem claimDelegationRewards_pays (del : Acct) (hu : IsUser del) (val : AVal) (dn : Denom) (d : Denom)
    (w w' : World) (r : Coins × AVal) (h : claimDelegationRewards del val dn w = (.ok r, w')) :
    bankBalance w' del d = bankBalance w del d + Coins.sumOf r.1 d := by
  unfold claimDelegationRewards at h
  simp only [bind_apply, getW_apply] at h
  rcases hga : getAsset w dn with _ | a
  · rw [hga] at h; simp at h
  · rw [hga] at h
    simp only at h
    by_cases hst : (!rewardsStarted a w.time) = true
    · simp only [hst, if_true, pure_apply] at h
      injection h with h1 h2; injection h1 with h1; subst h1 h2
      simp
    · simp only [hst, if_false] at h
      rcases hgd : getDelegation w del val.id dn with _ | dl
      · rw [hgd] at h; simp at h
      · rw [hgd] at h
        simp only [Bool.false_eq_true, if_false, bind_apply] at h
        rcases h1 : claimValidatorRewards val w with ⟨r1, w1⟩
        rw [h1] at h
        cases r1 with
        | error e => simp at h
        | ok val1 =>
          simp only [getW_apply] at h
          have b1 := ((claimValidatorRewards_user (u := del) (d := d) hu val).run w w1 val1 h1 trivial).1
          cases hc : calculateDelegationRewards w1 dl val1.info a with
          | error e => rw [hc] at h; simp [liftE_error] at h
          | ok cr =>
            rw [hc] at h
            simp only [liftE_ok, setDelegation, modifyW_apply] at h
            rcases hs : sendCoins accPool del cr.1 { w1 with dels := AL.set w1.dels (dl.del, dl.val, dl.denom) { dl with hist := cr.2, lastClaimHeight := w1.height } } with ⟨r2, w2⟩
            rw [hs] at h
            cases r2 with
            | error e => simp at h
            | ok u =>
              simp only [pure_apply] at h
              injection h with h3 h4; injection h3 with h3; subst h3 h4
              have b2 := sendCoins_spec accPool del cr.1 _ w2 hs del d
              rw [b2]
              have hne : ¬ del = accPool := hu.2.2.1
              simp only [hne, if_false, if_true]
              show bankBalance w1 del d - 0 + Coins.sumOf cr.1 d = _
              omega

/-- … at the level of the message: a successful `MsgClaimDelegationRewards` by a user changes that user's balance by what
    the claim computed and no other user's balance at all (`other_users_untouched`) -/
theorem claim_pays_the_claimant_exactly (del : Acct) (hu : IsUser del) (v : ValId) (dn : Denom) (d : Denom) (w w' : World)
    (h : step (.claim del v (some dn)) w = (.ok (), w')) :
    ∃ coins, bankBalance w' del d = bankBalance w del d + Coins.sumOf coins d := by
  have h' : asTx (msgClaim del v (some dn)) w = (.ok (), w') := h
  rw [asTx_apply] at h'
  rcases hm : msgClaim del v (some dn) w with ⟨r, w1⟩
  rw [hm] at h'
  cases r with
  | error e => simp at h'
  | ok u =>
    injection h' with _ h2; subst h2
    unfold msgClaim at hm
    simp only [bind_apply] at hm
    rcases hg : getAllianceValidator v w with ⟨rv, wv⟩
    rw [hg] at hm
    cases rv with
    | error e => simp at hm
    | ok val =>
      simp only at hm
      have bv := ((balT_frame (acct := del) (d := d) (by simp only [bsframe] : FrameBS.Fr (getAllianceValidator v))).run w wv val hg trivial).1
      rcases hc : claimDelegationRewards del val dn wv with ⟨rc, wc⟩
      rw [hc] at hm
      cases rc with
      | error e => simp at hm
      | ok res =>
        simp only [pure_apply] at hm
        injection hm with _ h2; subst h2
        exact ⟨res.1, by rw [claimDelegationRewards_pays del hu val dn d wv wc res hc]; omega⟩

end Alliance
