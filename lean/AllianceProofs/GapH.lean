/-
  GapH.lean — Hoare form of the custody judgment, used where an in-memory asset list has to stay in step with the
  store (end-of-block: initialise → take rate), and for whole operations:
      GapH d Pre m Post :  m succeeds from a Good state satisfying Pre  ⟹  the gap did not fall, the state is Good, Post holds.
-/
import AllianceProofs.GapStep
set_option linter.unusedVariables false
namespace Alliance
open Dec

structure GapH {α} (d : Denom) (Pre : World → Prop) (m : M α) (Post : α → World → Prop) : Prop where
  run : ∀ w w' a, m w = (.ok a, w') → Good d w → Pre w → gap w d ≤ gap w' d ∧ Good d w' ∧ Post a w'

/-- the custody gap never falls -/
abbrev GapM {α} (d : Denom) (m : M α) : Prop := GapH d (fun _ => True) m (fun _ _ => True)

namespace GapH
variable {α β : Type} {d : Denom} {Pre : World → Prop} {Post : α → World → Prop}

theorem ofT {m : M α} (h : ∀ t, ∃ t', GapT d t t' 0 m) : GapM d m := by
  constructor
  intro w w' a hm hg _
  obtain ⟨t', ht⟩ := h (staked w d)
  obtain ⟨g1, g2, _⟩ := ht.run w w' a hm hg rfl
  exact ⟨by omega, g2, trivial⟩

theorem ofT0 {m : M α} (h : ∀ t, GapT d t t 0 m) : GapM d m := ofT (fun t => ⟨t, h t⟩)

theorem conseq {m : M α} {Pre' : World → Prop} {Post' : α → World → Prop} (h : GapH d Pre m Post)
    (hp : ∀ w, Good d w → Pre' w → Pre w) (hq : ∀ a w, Good d w → Post a w → Post' a w) : GapH d Pre' m Post' := by
  constructor
  intro w w' a hm hg hpre
  obtain ⟨g1, g2, g3⟩ := h.run w w' a hm hg (hp w hg hpre)
  exact ⟨g1, g2, hq a w' g2 g3⟩

theorem weakenM {m : M α} (h : GapH d Pre m Post) : GapH d Pre m (fun _ _ => True) :=
  h.conseq (fun _ _ h => h) (fun _ _ _ _ => trivial)

theorem bind {m : M α} {f : α → M β} {Mid : α → World → Prop} {Post : β → World → Prop}
    (hm : GapH d Pre m Mid) (hf : ∀ a, GapH d (Mid a) (f a) Post) : GapH d Pre (m >>= f) Post := by
  constructor
  intro w w' b h hg hpre
  simp only [bind_apply] at h
  rcases hmw : m w with ⟨r, w1⟩
  rw [hmw] at h
  cases r with
  | error e => simp at h
  | ok a =>
    simp only at h
    obtain ⟨g1, g2, g3⟩ := hm.run w w1 a hmw hg hpre
    obtain ⟨k1, k2, k3⟩ := (hf a).run w1 w' b h g2 g3
    exact ⟨by omega, k2, k3⟩

theorem getW_bind {f : World → M β} {Post : β → World → Prop}
    (h : ∀ w0, Good d w0 → Pre w0 → GapH d Pre (f w0) Post) : GapH d Pre (Alliance.getW >>= f) Post := by
  constructor
  intro w w' b hm hg hpre
  simp only [bind_apply, getW_apply] at hm
  exact (h w hg hpre).run w w' b hm hg hpre

theorem pureM (a : α) : GapM d (Pure.pure a : M α) := ofT0 (fun t => GapT.pure a)

theorem pure_post (a : α) (h : ∀ w, Good d w → Pre w → Post a w) : GapH d Pre (Pure.pure a : M α) Post := by
  constructor
  intro w w' a' hm hg hpre
  simp only [pure_apply] at hm
  injection hm with h1 h2
  injection h1 with h1
  subst h1 h2
  exact ⟨Int.le_refl _, hg, h w hg hpre⟩

theorem throwE (c : String) : GapH d Pre (Alliance.throwE c : M α) Post := ⟨fun w w' a h => by simp at h⟩
theorem panicE (c : String) : GapH d Pre (Alliance.panicE c : M α) Post := ⟨fun w w' a h => by simp at h⟩

theorem ite {c : Prop} [Decidable c] {m1 m2 : M α} (h1 : c → GapH d Pre m1 Post) (h2 : ¬c → GapH d Pre m2 Post) :
    GapH d Pre (if c then m1 else m2) Post := by
  split
  · next h => exact h1 h
  · next h => exact h2 h

theorem asTx {m : M α} (h : GapH d Pre m Post) : GapH d Pre (Alliance.asTx m) Post := by
  constructor
  intro w w' a hm hg hpre
  rw [asTx_apply] at hm
  rcases hmw : m w with ⟨r, w1⟩
  rw [hmw] at hm
  cases r with
  | error e => simp at hm
  | ok a' =>
    injection hm with h1 h2
    injection h1 with h1
    subst h1 h2
    exact h.run w w1 a' hmw hg hpre

/-- strengthen the precondition of a `GapM` with any fact (it is simply ignored) -/
theorem ofM {m : M α} (h : GapM d m) : GapH d Pre m (fun _ _ => True) :=
  h.conseq (fun _ _ _ => trivial) (fun _ _ _ h => h)

end GapH
end Alliance
