/-
  SetLemmas.lean — `setInsert` (insertion into a sorted list used as a set) and `List.erase` on strictly sorted key lists;
  the order of the per-validator unbonding index keys.
-/
import AllianceProofs.Sorted
namespace Alliance
variable {κ : Type} [DecidableEq κ] [Ord κ]

/-- strictly increasing keys -/
def SortedK (o : KeyOrder κ) (l : List κ) : Prop := l.Pairwise o.lt

theorem mem_setInsert_self (l : List κ) (k : κ) : k ∈ setInsert l k := by
  induction l with
  | nil => simp [setInsert]
  | cons k' t ih =>
    unfold setInsert
    split
    · next h => rw [h]; exact List.mem_cons_self ..
    · split
      · exact List.mem_cons_self ..
      · exact List.mem_cons_of_mem _ ih

theorem mem_setInsert_of_mem (l : List κ) (k x : κ) (h : x ∈ l) : x ∈ setInsert l k := by
  induction l with
  | nil => cases h
  | cons k' t ih =>
    unfold setInsert
    split
    · exact h
    · split
      · exact List.mem_cons_of_mem _ h
      · rcases List.mem_cons.mp h with e | e
        · rw [e]; exact List.mem_cons_self ..
        · exact List.mem_cons_of_mem _ (ih e)

theorem mem_of_mem_setInsert (l : List κ) (k x : κ) (h : x ∈ setInsert l k) : x = k ∨ x ∈ l := by
  induction l with
  | nil => simp [setInsert] at h; exact Or.inl h
  | cons k' t ih =>
    unfold setInsert at h
    split at h
    · exact Or.inr h
    · split at h
      · rcases List.mem_cons.mp h with e | e
        · exact Or.inl e
        · exact Or.inr e
      · rcases List.mem_cons.mp h with e | e
        · exact Or.inr (by rw [e]; exact List.mem_cons_self ..)
        · rcases ih e with r | r
          · exact Or.inl r
          · exact Or.inr (List.mem_cons_of_mem _ r)

theorem setInsert_sorted (o : KeyOrder κ) (l : List κ) (k : κ) (hs : SortedK o l) : SortedK o (setInsert l k) := by
  induction l with
  | nil => exact List.pairwise_singleton _ _
  | cons k' t ih =>
    have ht := List.pairwise_cons.mp hs
    unfold setInsert
    split
    · exact hs
    · next hne =>
      split
      · next hlt =>
        have hlt' := (o.cmp_lt k k').mp hlt
        refine List.pairwise_cons.mpr ⟨?_, hs⟩
        intro q hq
        rcases List.mem_cons.mp hq with e | e
        · rw [e]; exact hlt'
        · exact o.trans _ _ _ hlt' (ht.1 q e)
      · next hnlt =>
        have hgt : o.lt k' k := o.total k k' hne (fun h => hnlt ((o.cmp_lt k k').mpr h))
        refine List.pairwise_cons.mpr ⟨?_, ih ht.2⟩
        intro q hq
        rcases mem_of_mem_setInsert t k q hq with e | e
        · rw [e]; exact hgt
        · exact ht.1 q e

section Erase
variable [BEq κ] [LawfulBEq κ]

theorem erase_sortedK (o : KeyOrder κ) (l : List κ) (k : κ) (hs : SortedK o l) : SortedK o (l.erase k) :=
  List.Pairwise.sublist (List.erase_sublist ..) hs

theorem sortedK_nodup (o : KeyOrder κ) (l : List κ) (hs : SortedK o l) : l.Nodup := by
  unfold SortedK at hs
  refine hs.imp ?_
  intro a b hlt e
  rw [e] at hlt
  exact o.irrefl _ hlt

/-- in a strictly sorted list erasing removes the key altogether -/
theorem not_mem_erase_self (o : KeyOrder κ) (l : List κ) (k : κ) (hs : SortedK o l) : k ∉ l.erase k :=
  fun h => (List.Nodup.mem_erase_iff (sortedK_nodup o l hs)).mp h |>.1 rfl

theorem mem_erase_of_ne' (l : List κ) (k x : κ) (hne : x ≠ k) (h : x ∈ l) : x ∈ l.erase k :=
  (List.mem_erase_of_ne hne).mpr h

end Erase

end Alliance

namespace Alliance

/-- lexicographic product of two key orders (the `Ord` instance on pairs is the lexicographic one) -/
def prodKeyOrder {α β : Type} [DecidableEq α] [Ord α] [DecidableEq β] [Ord β] (o1 : KeyOrder α) (o2 : KeyOrder β)
    (heq : ∀ a b : α, compare a b = .eq ↔ a = b) : KeyOrder (α × β) where
  lt p q := o1.lt p.1 q.1 ∨ (p.1 = q.1 ∧ o2.lt p.2 q.2)
  irrefl p h := by
    rcases h with h | ⟨_, h⟩
    · exact o1.irrefl _ h
    · exact o2.irrefl _ h
  trans p q r h1 h2 := by
    rcases h1 with h1 | ⟨e1, h1⟩ <;> rcases h2 with h2 | ⟨e2, h2⟩
    · exact Or.inl (o1.trans _ _ _ h1 h2)
    · exact Or.inl (e2 ▸ h1)
    · exact Or.inl (e1 ▸ h2)
    · exact Or.inr ⟨e1.trans e2, o2.trans _ _ _ h1 h2⟩
  cmp_lt p q := by
    show (compare p.1 q.1).then (compare p.2 q.2) = .lt ↔ _
    constructor
    · intro h
      cases hc : compare p.1 q.1 with
      | lt => exact Or.inl ((o1.cmp_lt _ _).mp hc)
      | eq => rw [hc] at h; exact Or.inr ⟨(heq _ _).mp hc, (o2.cmp_lt _ _).mp h⟩
      | gt => rw [hc] at h; cases h
    · intro h
      rcases h with h | ⟨e, h⟩
      · rw [(o1.cmp_lt _ _).mpr h]; rfl
      · rw [(heq _ _).mpr e]; exact (o2.cmp_lt _ _).mpr h
  total p q hne hn := by
    by_cases he : p.1 = q.1
    · have h2 : p.2 ≠ q.2 := fun h => hne (Prod.ext he h)
      have : ¬ o2.lt p.2 q.2 := fun h => hn (Or.inr ⟨he, h⟩)
      exact Or.inr ⟨he.symm, o2.total _ _ h2 this⟩
    · have : ¬ o1.lt p.1 q.1 := fun h => hn (Or.inl h)
      exact Or.inl (o1.total _ _ he this)

def intKeyOrder : KeyOrder Int where
  lt a b := a < b
  irrefl a h := by omega
  trans a b c h1 h2 := by omega
  cmp_lt a b := compare_int_lt a b
  total a b hne hn := by omega

/-- per-validator unbonding index keys (validator, completion, denom, delegator), as the store orders them -/
def undelIdxOrder : KeyOrder (Nat × Int × Nat × Nat) :=
  prodKeyOrder natKeyOrder (prodKeyOrder intKeyOrder (prodKeyOrder natKeyOrder natKeyOrder compare_nat_eq) compare_int_eq) compare_nat_eq

end Alliance
