/-
  GapMono.lean — the custody accounting judgment.

  For a custody denom `d` (an alliance asset denom, never the staking bond denom):
      gap w d = custody w d − staked w d − pending w d
  `GapT d t t' δ m`: if `m` succeeds from a state in the custody scope (`Good d`) whose staked total of `d` is `t`,
  then the gap moved by at least `δ`, the state is still in scope, and the staked total is `t'`.
  Leaves carry exact deltas (+amount in, −amount out, t − t' on an asset write); composite functions add them up.
-/
import AllianceProofs.Custody
import AllianceProofs.CoinsSum
import AllianceProofs.FrameG
import AllianceProofs.FrameGood
set_option linter.unusedVariables false
namespace Alliance
open Dec

/-- recorded distribution responses never carry negative coins -/
def OracleNonneg (w : World) : Prop := ∀ p ∈ w.oracle, Coins.Nonneg p.2

/-- the scope of the custody theorems for denom `d` -/
structure Good (d : Denom) (w : World) : Prop where
  sorted : QSorted w
  oracle : OracleNonneg w
  users : UsersOnly w
  notBond : d ≠ w.staking.bondDenom
  keyed : ∀ p ∈ w.assets, p.2.denom = p.1
  asorted : AL.SortedBy natKeyOrder w.assets

theorem Good.of_proj {d : Denom} {w w' : World} (h : FrameGood.π w' = FrameGood.π w) (g : Good d w) : Good d w' := by
  simp only [FrameGood.π, Prod.mk.injEq] at h
  obtain ⟨ha, hq, ho, hb⟩ := h
  refine ⟨?_, ?_, ?_, ?_, ?_, ?_⟩
  · unfold QSorted; rw [hq]; exact g.sorted
  · unfold OracleNonneg; rw [ho]; exact g.oracle
  · unfold UsersOnly; rw [hq]; exact g.users
  · rw [hb]; exact g.notBond
  · rw [ha]; exact g.keyed
  · rw [ha]; exact g.asorted

theorem gap_of_proj {w w' : World} (h : FrameG.π w' = FrameG.π w) (d : Denom) :
    gap w' d = gap w d ∧ staked w' d = staked w d := by
  simp only [FrameG.π, Prod.mk.injEq] at h
  obtain ⟨hb, ha, hq, ho, hbd⟩ := h
  have h1 : custody w' d = custody w d := by unfold custody bankBalance; rw [hb]
  unfold gap
  rw [h1, staked_of_assets_eq ha d, pending_of_queue_eq hq d]
  exact ⟨rfl, rfl⟩

theorem good_of_projG {d : Denom} {w w' : World} (h : FrameG.π w' = FrameG.π w) (g : Good d w) : Good d w' := by
  apply Good.of_proj _ g
  simp only [FrameG.π, Prod.mk.injEq] at h
  obtain ⟨hb, ha, hq, ho, hbd⟩ := h
  simp only [FrameGood.π, ha, hq, ho, hbd]

structure GapT {α} (d : Denom) (t t' δ : Int) (m : M α) : Prop where
  run : ∀ w w' a, m w = (.ok a, w') → Good d w → staked w d = t →
      gap w d + δ ≤ gap w' d ∧ Good d w' ∧ staked w' d = t'

namespace GapT
variable {α β : Type} {d : Denom} {t t' t'' δ δ' : Int}

/-- anything that leaves (bank, assets, unbonding queue, oracle) alone -/
theorem ofFrame {m : M α} (h : FrameG.Fr m) : GapT d t t 0 m := by
  constructor
  intro w w' a hm hg hs
  have hf : FrameG.π w' = FrameG.π w := by have := h.frame w; rw [hm] at this; exact this
  obtain ⟨g1, s1⟩ := gap_of_proj hf d
  exact ⟨by omega, good_of_projG hf hg, by omega⟩

theorem throwE (c : String) : GapT d t t' δ (Alliance.throwE c : M α) := ⟨fun w w' a h => by simp at h⟩
theorem panicE (c : String) : GapT d t t' δ (Alliance.panicE c : M α) := ⟨fun w w' a h => by simp at h⟩

theorem cast {m : M α} (h : GapT d t t' δ m) (ht : t' = t'') (hδ : δ' ≤ δ) : GapT d t t'' δ' m := by
  constructor
  intro w w' a hm hg hs
  obtain ⟨g1, g2, g3⟩ := h.run w w' a hm hg hs
  exact ⟨by omega, g2, by omega⟩

theorem bind {m : M α} {f : α → M β} {t1 δ1 δ2 : Int} (hm : GapT d t t1 δ1 m) (hf : ∀ a, GapT d t1 t' δ2 (f a)) :
    GapT d t t' (δ1 + δ2) (m >>= f) := by
  constructor
  intro w w' b h hg hs
  simp only [bind_apply] at h
  rcases hmw : m w with ⟨r, w1⟩
  rw [hmw] at h
  cases r with
  | error e => simp at h
  | ok a =>
    simp only at h
    obtain ⟨g1, g2, g3⟩ := hm.run w w1 a hmw hg hs
    obtain ⟨k1, k2, k3⟩ := (hf a).run w1 w' b h g2 g3
    exact ⟨by omega, k2, k3⟩

/-- reading the state: the continuation may use that the state read is in scope and has the tracked total -/
theorem getW_bind {f : World → M β} (h : ∀ w0, Good d w0 → staked w0 d = t → GapT d t t' δ (f w0)) :
    GapT d t t' δ (Alliance.getW >>= f) := by
  constructor
  intro w w' b hm hg hs
  simp only [bind_apply, getW_apply] at hm
  exact (h w hg hs).run w w' b hm hg hs

/-- a neutral step followed by a continuation -/
theorem bind0 {m : M α} {f : α → M β} (hm : GapT d t t 0 m) (hf : ∀ a, GapT d t t' δ (f a)) :
    GapT d t t' δ (m >>= f) := (bind hm hf).cast rfl (by omega)

theorem ite {c : Prop} [Decidable c] {m1 m2 : M α} (h1 : c → GapT d t t' δ m1) (h2 : ¬c → GapT d t t' δ m2) :
    GapT d t t' δ (if c then m1 else m2) := by
  split
  · next h => exact h1 h
  · next h => exact h2 h

theorem pure (a : α) : GapT d t t 0 (Pure.pure a : M α) := ofFrame (FrameG.pure a)

theorem forEachM {γ : Type} (f : γ → M Unit) (xs : List γ) (h : ∀ x ∈ xs, GapT d t t 0 (f x)) :
    GapT d t t 0 (Alliance.forEachM f xs) := by
  induction xs with
  | nil => exact pure ()
  | cons x r ih =>
    unfold Alliance.forEachM
    exact bind0 (h x (List.mem_cons_self ..)) (fun _ => ih (fun y hy => h y (List.mem_cons_of_mem _ hy)))

theorem foldlM {γ σ : Type} (f : σ → γ → M σ) (xs : List γ) (init : σ) (h : ∀ s, ∀ x ∈ xs, GapT d t t 0 (f s x)) :
    GapT d t t 0 (xs.foldlM f init) := by
  induction xs generalizing init with
  | nil => exact pure init
  | cons x r ih =>
    rw [List.foldlM_cons]
    exact bind0 (h init x (List.mem_cons_self ..)) (fun s => ih s (fun s' y hy => h s' y (List.mem_cons_of_mem _ hy)))

theorem asTx {m : M α} (h : GapT d t t' δ m) : GapT d t t' δ (Alliance.asTx m) := by
  constructor
  intro w w' a hm hg hs
  rw [asTx_apply] at hm
  rcases hmw : m w with ⟨r, w1⟩
  rw [hmw] at hm
  cases r with
  | error e => simp at hm
  | ok a' =>
    injection hm with h1 h2
    injection h1 with h1
    subst h1 h2
    exact h.run w w1 a' hmw hg hs

end GapT

/-! ## leaves -/

/-- a bank transfer seen from the custody account -/
theorem sendCoins_gapT (src dst : Acct) (cs : Coins) (d : Denom) (t : Int) :
    GapT d t t ((if dst = accModule then Coins.sumOf cs d else 0) - (if src = accModule then Coins.sumOf cs d else 0))
      (sendCoins src dst cs) := by
  constructor
  intro w w' a hm hg hs
  have hspec := sendCoins_spec src dst cs w w' hm accModule d
  have hA := (sendCoins_frame src dst cs).frame w
  have hO := (FrameGood.sendCoins src dst cs).frame w
  rw [hm] at hA hO
  have hq : w'.undelQueue = w.undelQueue := by
    simp only [FrameGood.π, Prod.mk.injEq] at hO; exact hO.2.1
  refine ⟨?_, Good.of_proj hO hg, by rw [staked_of_assets_eq hA d]; exact hs⟩
  unfold gap custody
  rw [hspec, staked_of_assets_eq hA d, pending_of_queue_eq hq d]
  have e1 : ∀ (x : Acct) (X : Int), (if accModule = x then X else 0) = (if x = accModule then X else 0) := by
    intro x X
    by_cases h : x = accModule
    · rw [if_pos h, if_pos h.symm]
    · rw [if_neg h, if_neg (fun e => h e.symm)]
  rw [e1, e1]
  omega

/-- writing an asset record -/
theorem setAsset_gapT (a : Asset) (d : Denom) (t : Int) :
    GapT d t (if a.denom = d then a.totalTokens else t) (if a.denom = d then t - a.totalTokens else 0) (setAsset a) := by
  constructor
  intro w w' u hm hg hs
  unfold setAsset at hm
  simp only [modifyW_apply] at hm
  injection hm with _ hw
  have hst : staked w' d = if a.denom = d then a.totalTokens else staked w d := by
    rw [← hw]
    unfold staked getAsset
    simp only
    by_cases h : a.denom = d
    · subst h; simp only [AL.get_set_eq, if_true]
    · rw [AL.get_set_ne _ _ _ _ (fun e => h e.symm)]; simp only [h, if_false]
  have hg' : Good d w' := by
    rw [← hw]
    refine ⟨hg.sorted, hg.oracle, hg.users, hg.notBond, ?_, AL.set_sorted natKeyOrder _ _ _ hg.asorted⟩
    intro p hp
    rcases AL.mem_set _ _ _ _ hp with h | h
    · rw [h]
    · exact hg.keyed p h
  refine ⟨?_, hg', by rw [hst, hs]⟩
  have hc : custody w' d = custody w d := by rw [← hw]; rfl
  have hp : pending w' d = pending w d := by rw [← hw]; rfl
  unfold gap
  rw [hc, hp, hst]
  split <;> omega

end Alliance
