/-
  LedgerHistory.lean — C03 assembled: every operation of the state machine except the removal of a validator record by
  x/staking (`AfterValidatorRemoved`, known finding D16) keeps the delegator-share ledger — for every validator and
  denom the delegations' shares sum to the validator's recorded delegator-share total — hence so does every history.
-/
import AllianceProofs.ShareLedger
import AllianceProofs.CustodyHistory
set_option linter.unusedVariables false
namespace Alliance
open Dec

/-- the one operation outside the ledger theorem -/
def LedgerScope (op : Op) : Prop :=
  match op with
  | .hookValidatorRemoved _ => False
  | _ => True

/-- C03, one step: an operation that succeeds from a state whose ledger holds (asset records keyed by denom) keeps it -/
theorem step_ledger (op : Op) (w w' : World) (h : step op w = (.ok (), w')) (hl : L0 w) (hak : AssetsKeyed w)
    (hop : LedgerScope op) : L0 w' := by
  have tx : ∀ (m : M Unit), Hoare L0 m (fun _ w => L0 w) → asTx m w = (.ok (), w') → L0 w' :=
    fun m hm hr => (Hoare.asTx hm).run w w' () hr hl
  cases op with
  | delegate del v d amt => exact tx _ (msgDelegate_ledger del v d amt) h
  | undelegate del v d amt => exact tx _ (msgUndelegate_ledger del v d amt) h
  | redelegate del s t d amt => exact tx _ (msgRedelegate_ledger del s t d amt) h
  | claim del v d => exact tx _ (msgClaim_ledger del v d) h
  | createAlliance s f => exact tx _ (L0.frame (FrameDV.msgCreateAlliance s f)) h
  | updateAlliance s f => exact tx _ (msgUpdateAlliance_ledger s f) h
  | deleteAlliance s d => exact tx _ (L0.frame (FrameDV.msgDeleteAlliance s d)) h
  | updateParams s p => exact tx _ (L0.frame (FrameDV.msgUpdateParams s p)) h
  | slash v f => exact ((beforeValidatorSlashed_ledger v f).run w w' () h ⟨hl, hak⟩).1
  | endBlock => exact endBlocker_ledger.run w w' () h hl
  | hookDelegationModified => exact (L0.frame FrameDV.queueRebalance).run w w' () h hl
  | hookValidatorBonded => exact (L0.frame FrameDV.queueRebalance).run w w' () h hl
  | hookValidatorBeginUnbonding => exact (L0.frame FrameDV.queueRebalance).run w w' () h hl
  | hookDelegationRemoved => exact (L0.frame FrameDV.queueRebalance).run w w' () h hl
  | hookValidatorRemoved v => exact absurd hop (by simp [LedgerScope])
  | env => exact (L0.frame (FrameDV.pure ())).run w w' () h hl

/-- environment steps as in the custody theorem, which in addition leave the alliance delegation and validator records alone -/
structure EnvStepL (d : Denom) (w w' : World) : Prop where
  env : EnvStep d w w'
  dels : w'.dels = w.dels
  vals : w'.vals = w.vals

/-- histories for the ledger theorem: as `Reach`, with the ledger's scope on operations and environment steps -/
inductive ReachL (d : Denom) : World → World → Prop
  | refl (w : World) : ReachL d w w
  | env {w w1 w2 : World} : ReachL d w w1 → EnvStepL d w1 w2 → ReachL d w w2
  | ok {w w1 w2 : World} (op : Op) (tape : List (ValId × Coins)) : ReachL d w w1 →
      (∀ p ∈ tape, Coins.Nonneg p.2) → OpScope d op { w1 with oracle := tape } → LedgerScope op →
      step op { w1 with oracle := tape } = (.ok (), w2) → ReachL d w w2
  | failTx {w w1 : World} (op : Op) (tape : List (ValId × Coins)) (e : Err) : ReachL d w w1 → op.isTx = true →
      (step op { w1 with oracle := tape }).1 = .error e → ReachL d w (step op { w1 with oracle := tape }).2

theorem ReachL.toReach {d : Denom} {w w' : World} (h : ReachL d w w') : Reach d w w' := by
  induction h with
  | refl => exact Reach.refl _
  | env _ he ih => exact Reach.env ih he.env
  | ok op tape _ hn hs _ hr ih => exact Reach.ok op tape ih hn hs hr
  | failTx op tape e _ htx hf ih => exact Reach.failTx op tape e ih htx hf

/-- C03 over all histories: the delegator-share ledger is an invariant -/
theorem reach_ledger (d : Denom) (w w' : World) (hc : Core d w) (hl : L0 w) (hr : ReachL d w w') : L0 w' := by
  induction hr with
  | refl => exact hl
  | env hr he ih =>
    have := ih
    unfold L0 L at *
    rw [he.dels, he.vals]; exact this
  | ok op tape hr hn hs hls hstep ih =>
    have hcore := (reach_gap d _ _ hc hr.toReach).2
    exact step_ledger op _ _ hstep ih hcore.keyed hls
  | failTx op tape e hr htx hf ih =>
    rw [step_tx_fail op _ e htx hf]
    exact ih

end Alliance
