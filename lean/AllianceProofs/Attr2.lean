import AllianceProofs.Attr
/-- frame lemmas for (delegation records, validator records) -/
register_simp_attr dvframe
