/-
  Read-after-write lemmas for the association lists of the model. None of them needs a sortedness hypothesis:
  `get` returns the first match and `set` replaces the first match or inserts before it.
-/
import AllianceModel
namespace Alliance
namespace AL

variable {κ α : Type} [DecidableEq κ]

@[simp] theorem get_nil (k : κ) : get ([] : List (κ × α)) k = none := rfl

theorem get_cons (k k' : κ) (v : α) (t : List (κ × α)) :
    get ((k', v) :: t) k = if k = k' then some v else get t k := rfl

@[simp] theorem get_set_eq [Ord κ] (l : List (κ × α)) (k : κ) (v : α) : get (set l k v) k = some v := by
  induction l with
  | nil => simp [set, get]
  | cons hd t ih =>
    obtain ⟨k', v'⟩ := hd
    unfold set
    by_cases h : k = k'
    · simp [h, get]
    · simp only [h, if_false]
      by_cases h2 : compare k k' = .lt
      · simp [h2, get]
      · simp [h2, get, h, ih]

theorem get_set_ne [Ord κ] (l : List (κ × α)) (k k2 : κ) (v : α) (hne : k2 ≠ k) :
    get (set l k v) k2 = get l k2 := by
  induction l with
  | nil => simp [set, get, hne]
  | cons hd t ih =>
    obtain ⟨k', v'⟩ := hd
    unfold set
    by_cases h : k = k'
    · subst h; simp [get, hne]
    · simp only [h, if_false]
      by_cases h2 : compare k k' = .lt
      · simp [h2, get, hne]
      · simp [h2, get, ih]

/-- every value stored in `set l k v` is `v` or was stored in `l` -/
theorem mem_set [Ord κ] (l : List (κ × α)) (k : κ) (v : α) (p : κ × α) :
    p ∈ set l k v → p = (k, v) ∨ p ∈ l := by
  induction l with
  | nil => simp [set]
  | cons hd t ih =>
    obtain ⟨k', v'⟩ := hd
    unfold set
    by_cases h : k = k'
    · simp only [h, if_true, List.mem_cons]
      rintro (h1 | h1)
      · left; simpa [h] using h1
      · right; right; exact h1
    · simp only [h, if_false]
      by_cases h2 : compare k k' = .lt
      · simp only [h2, if_true, List.mem_cons]
        rintro (h1 | h1 | h1)
        · left; exact h1
        · right; left; exact h1
        · right; right; exact h1
      · simp only [h2, if_false, List.mem_cons]
        rintro (h1 | h1)
        · right; left; exact h1
        · rcases ih h1 with h3 | h3
          · left; exact h3
          · right; right; exact h3

theorem mem_erase (l : List (κ × α)) (k : κ) (p : κ × α) : p ∈ erase l k → p ∈ l := by
  induction l with
  | nil => simp [erase]
  | cons hd t ih =>
    obtain ⟨k', v'⟩ := hd
    unfold erase
    by_cases h : k = k'
    · simp only [h, if_true, List.mem_cons]; intro h1; right; exact h1
    · simp only [h, if_false, List.mem_cons]
      rintro (h1 | h1)
      · left; exact h1
      · right; exact ih h1

theorem get_erase_ne (l : List (κ × α)) (k k2 : κ) (hne : k2 ≠ k) : get (erase l k) k2 = get l k2 := by
  induction l with
  | nil => rfl
  | cons hd t ih =>
    obtain ⟨k', v'⟩ := hd
    unfold erase
    by_cases h1 : k = k'
    · simp only [h1, if_true]
      rw [get_cons]
      have : k2 ≠ k' := by rw [← h1]; exact hne
      simp [this]
    · simp only [h1, if_false]
      rw [get_cons, get_cons]
      split
      · rfl
      · exact ih

/-- a successful lookup returns a stored pair -/
theorem get_some_mem (l : List (κ × α)) (k : κ) (v : α) : get l k = some v → (k, v) ∈ l := by
  induction l with
  | nil => simp [get]
  | cons hd t ih =>
    obtain ⟨k', v'⟩ := hd
    unfold get
    by_cases h : k = k'
    · simp only [h, if_true, Option.some.injEq, List.mem_cons]; intro h1; left; simp [h1]
    · simp only [h, if_false, List.mem_cons]; intro h1; right; exact ih h1

end AL
end Alliance
