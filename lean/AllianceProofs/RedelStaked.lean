/-
  RedelStaked.lean — C15: a redelegation leaves every asset's staked total where it was and never lowers the custody gap;
  C02/C01-style exact totals for the other two user operations come out of the same judgment.
-/
import AllianceProofs.CustodyHistory
set_option linter.unusedVariables false
namespace Alliance
open Dec

theorem msgRedelegate_gapT (del : Acct) (s t' : ValId) (d' : Denom) (amt : Int) (d : Denom) (t : Int) :
    GapT d t t 0 (msgRedelegate del s t' d' amt) := by
  unfold msgRedelegate
  apply GapT.bind0 (by gt_frame); intro _
  apply GapT.bind0 (by gt_frame); intro sv
  apply GapT.bind0 (by gt_frame); intro dv
  exact redelegate_gapT del sv dv d' amt d t

/-- a successful `MsgRedelegate` keeps the staked total of every alliance denom (the moved asset's included) and does not
    lower the custody gap of any: nothing is paid out of custody -/
theorem redelegate_keeps_staked_total (del : Acct) (s t' : ValId) (d' : Denom) (amt : Int) (d : Denom) (w w' : World)
    (hg : Good d w) (h : step (.redelegate del s t' d' amt) w = (.ok (), w')) :
    staked w' d = staked w d ∧ gap w d ≤ gap w' d ∧ Good d w' := by
  obtain ⟨g1, g2, g3⟩ := (GapT.asTx (msgRedelegate_gapT del s t' d' amt d (staked w d))).run w w' () h hg rfl
  exact ⟨g3, by omega, g2⟩

end Alliance
