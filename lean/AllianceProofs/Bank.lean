/-
  Exact effect of the bank primitives on balances: `sendCoins src dst cs`, when it succeeds, lowers every balance of
  `src` by the coins' amount of that denom and raises `dst`'s by the same; it touches no other balance.
-/
import AllianceProofs.QueueSorted
namespace Alliance

/-- total amount of denom d in a coin list -/
def Coins.sumOf (cs : Coins) (d : Denom) : Int := (cs.map fun c => if c.1 = d then c.2 else 0).sum

@[simp] theorem Coins.sumOf_nil (d : Denom) : Coins.sumOf [] d = 0 := rfl
@[simp] theorem Coins.sumOf_cons (c : Denom × Int) (t : Coins) (d : Denom) :
    Coins.sumOf (c :: t) d = (if c.1 = d then c.2 else 0) + Coins.sumOf t d := by
  unfold Coins.sumOf; simp

theorem Coins.sumOf_single (d' : Denom) (x : Int) (d : Denom) :
    Coins.sumOf (Coins.single d' x) d = if d' = d then x else 0 := by
  unfold Coins.single
  split
  · rename_i h; subst h; simp
  · simp

theorem bal_setBalance (a : Acct) (d : Denom) (x : Int) (w : World) (a' : Acct) (d' : Denom) :
    bankBalance (setBalance a d x w).2 a' d' = if (a', d') = (a, d) then x else bankBalance w a' d' := by
  unfold setBalance bankBalance
  simp only [modifyW_apply]
  by_cases h : (a', d') = (a, d)
  · rw [h]; simp [AL.get_set_eq]
  · simp only [h, if_false]
    rw [AL.get_set_ne _ _ _ _ h]

/-- the debit loop of `sendCoins` -/
def debitLoop (src : Acct) (cs : Coins) : M Unit :=
  forEachM (fun (c : Denom × Int) => do
      let w ← getW
      let b := bankBalance w src c.1
      guardE (b < c.2) "insufficient_funds"
      setBalance src c.1 (b - c.2)) cs

/-- the credit loop of `sendCoins` -/
def creditLoop (dst : Acct) (cs : Coins) : M Unit :=
  forEachM (fun (c : Denom × Int) => do
      let w ← getW
      setBalance dst c.1 (bankBalance w dst c.1 + c.2)) cs

theorem sendCoins_eq (src dst : Acct) (cs : Coins) : sendCoins src dst cs = (do debitLoop src cs; creditLoop dst cs) := rfl

theorem guardE_apply (c : Prop) [Decidable c] (code : String) (w : World) :
    guardE c code w = if c then (.error (.err code), w) else (.ok (), w) := by
  unfold guardE; split <;> rfl

theorem debitLoop_spec (src : Acct) (cs : Coins) (w w' : World) (h : debitLoop src cs w = (.ok (), w')) :
    ∀ x d, bankBalance w' x d = bankBalance w x d - (if x = src then Coins.sumOf cs d else 0) := by
  induction cs generalizing w with
  | nil =>
    unfold debitLoop forEachM at h
    simp only [pure_apply] at h
    injection h with _ h2; subst h2
    intro x d; simp
  | cons c t ih =>
    unfold debitLoop forEachM at h
    simp only [bind_apply, getW_apply, guardE_apply] at h
    by_cases hlt : bankBalance w src c.1 < c.2
    · simp [hlt] at h
    · simp only [hlt, if_false] at h
      rcases hs : setBalance src c.1 (bankBalance w src c.1 - c.2) w with ⟨r, w1⟩
      have hr : r = .ok () := by unfold setBalance at hs; simp only [modifyW_apply] at hs; injection hs with h1 _; exact h1.symm
      subst hr
      rw [hs] at h
      simp only at h
      have hw1 : w1 = (setBalance src c.1 (bankBalance w src c.1 - c.2) w).2 := by rw [hs]
      have := ih w1 h
      intro x d
      rw [this x d, hw1, bal_setBalance]
      simp only [Coins.sumOf_cons]
      by_cases hx : x = src
      · subst hx
        by_cases hd : c.1 = d
        · subst hd; simp; omega
        · have : (x, d) ≠ (x, c.1) := by intro he; injection he with _ h2; exact hd h2.symm
          simp [this, hd]
      · have : (x, d) ≠ (src, c.1) := by intro he; injection he with h1 _; exact hx h1
        simp [this, hx]

theorem creditLoop_spec (dst : Acct) (cs : Coins) (w : World) :
    (creditLoop dst cs w).1 = .ok () ∧
    ∀ x d, bankBalance (creditLoop dst cs w).2 x d = bankBalance w x d + (if x = dst then Coins.sumOf cs d else 0) := by
  induction cs generalizing w with
  | nil =>
    unfold creditLoop forEachM
    simp
  | cons c t ih =>
    unfold creditLoop forEachM
    simp only [bind_apply, getW_apply]
    rcases hs : setBalance dst c.1 (bankBalance w dst c.1 + c.2) w with ⟨r, w1⟩
    have hr : r = .ok () := by unfold setBalance at hs; simp only [modifyW_apply] at hs; injection hs with h1 _; exact h1.symm
    subst hr
    simp only
    have hw1 : w1 = (setBalance dst c.1 (bankBalance w dst c.1 + c.2) w).2 := by rw [hs]
    have := ih w1
    unfold creditLoop at this
    refine ⟨this.1, ?_⟩
    intro x d
    rw [this.2 x d, hw1, bal_setBalance]
    simp only [Coins.sumOf_cons]
    by_cases hx : x = dst
    · subst hx
      by_cases hd : c.1 = d
      · subst hd; simp; omega
      · have : (x, d) ≠ (x, c.1) := by intro he; injection he with _ h2; exact hd h2.symm
        simp [this, hd]
    · have : (x, d) ≠ (dst, c.1) := by intro he; injection he with h1 _; exact hx h1
      simp [this, hx]

/-- `SendCoins`, when it succeeds: the sender loses and the recipient gains exactly the coins; nobody else moves -/
theorem sendCoins_spec (src dst : Acct) (cs : Coins) (w w' : World) (h : sendCoins src dst cs w = (.ok (), w')) :
    ∀ x d, bankBalance w' x d = bankBalance w x d - (if x = src then Coins.sumOf cs d else 0)
                                                  + (if x = dst then Coins.sumOf cs d else 0) := by
  rw [sendCoins_eq] at h
  simp only [bind_apply] at h
  rcases hd : debitLoop src cs w with ⟨r, w1⟩
  rw [hd] at h
  cases r with
  | error e => simp at h
  | ok u =>
    simp only at h
    have h1 := debitLoop_spec src cs w w1 hd
    have h2 := creditLoop_spec dst cs w1
    rw [h] at h2
    intro x d
    rw [h2.2 x d, h1 x d]

end Alliance
