/-
  LedgerAll.lean — C03, delegator side, with no custody scope: the all-history ledger theorem `reach_ledger` carried the scope of
  the custody theorem (users only in the queue, non-negative distribution responses, the bond denom apart) only to know that
  asset records are keyed by their denom.  That is part of `Stores`, which every keeper function keeps, so the ledger holds
  along every history of operations on ANY response tape, failed transactions and environment steps — outside D16 only.
-/
import AllianceProofs.LedgerHistory
import AllianceProofs.KeepStores
set_option linter.unusedVariables false
namespace Alliance

/-- histories for the ledger: any operation in `LedgerScope` (everything but x/staking's removal of a validator record) on any
    response tape, failed transactions, environment steps that leave the three record stores alone -/
inductive ReachLS : World → World → Prop
  | refl (w : World) : ReachLS w w
  | env {w w1 w2 : World} : ReachLS w w1 → w2.assets = w1.assets → w2.vals = w1.vals → w2.dels = w1.dels →
      w2.snaps = w1.snaps → ReachLS w w2
  | ok {w w1 w2 : World} (op : Op) (tape : List (ValId × Coins)) : ReachLS w w1 → LedgerScope op →
      step op { w1 with oracle := tape } = (.ok (), w2) → ReachLS w w2
  | failTx {w w1 : World} (op : Op) (tape : List (ValId × Coins)) (e : Err) : ReachLS w w1 → op.isTx = true →
      (step op { w1 with oracle := tape }).1 = .error e → ReachLS w (step op { w1 with oracle := tape }).2

theorem reach_ledger_unscoped (w w' : World) (hs : Stores w) (hl : L0 w) (hr : ReachLS w w') : L0 w' ∧ Stores w' := by
  induction hr with
  | refl => exact ⟨hl, hs⟩
  | env _ e1 e2 e3 e4 ih =>
    refine ⟨?_, ih.2.other _ e1 e2 e3 e4⟩
    have := ih.1
    unfold L0 L at *
    rw [e3, e2]; exact this
  | @ok w1 w2 op tape _ hls hstep ih =>
    have hpre : Stores { w1 with oracle := tape } := ih.2.other _ rfl rfl rfl rfl
    have hpost := (KeepStores.step op).keep _ hpre
    rw [hstep] at hpost
    exact ⟨step_ledger op _ _ hstep ih.1 hpre.akeyed hls, hpost⟩
  | failTx op tape e _ htx hf ih =>
    rw [step_tx_fail op _ e htx hf]
    exact ⟨ih.1, ih.2.other _ rfl rfl rfl rfl⟩

end Alliance
