/-
  Ledger.lean — the delegator-share ledger (C03): for every validator v and denom d
      Σ { dl.shares | dl a delegation to v in d }  =  per-denom total of v's TotalDelegatorShares,
  as a predicate of the two stores, with an explicit offset so that it can be followed through the middle of an
  operation (where one side has been written and the other not yet). List-level effects of the three store writes.
-/
import AllianceProofs.Sorted
import AllianceProofs.DecCoinsLemmas
import AllianceProofs.AListLemmas
set_option linter.unusedVariables false
namespace Alliance
open Dec

/-- what a delegation record contributes to the (v, d) sum -/
def shareOf (v : ValId) (d : Denom) (dl : Delegation) : Int := if dl.val = v ∧ dl.denom = d then dl.shares else 0

/-- the validator's recorded delegator-share total for a denom (0 without a record) -/
def tdsL (vals : List (ValId × ValInfo)) (v : ValId) (d : Denom) : Int :=
  match AL.get vals v with
  | some info => DecCoins.sumOf info.totalDelShares d
  | none => 0

def oldShare (dels : List (DelKey × Delegation)) (k : DelKey) (v : ValId) (d : Denom) : Int :=
  match AL.get dels k with
  | some o => shareOf v d o
  | none => 0

structure LedgerO (off : ValId → Denom → Int) (dels : List (DelKey × Delegation)) (vals : List (ValId × ValInfo)) : Prop where
  dsorted : AL.SortedBy delKeyOrder dels
  keyed : ∀ p ∈ dels, p.1 = (p.2.del, p.2.val, p.2.denom)
  nonneg : ∀ p ∈ dels, 0 ≤ p.2.shares
  vsorted : ∀ v info, AL.get vals v = some info → DecCoins.Sorted info.totalDelShares
  sums : ∀ v d, AL.sumBy (shareOf v d) dels = tdsL vals v d + off v d

abbrev LedgerL := LedgerO (fun _ _ => 0)

theorem LedgerO.conv {off off' : ValId → Denom → Int} {dels vals} (h : LedgerO off dels vals)
    (e : ∀ v d, off v d = off' v d) : LedgerO off' dels vals :=
  ⟨h.dsorted, h.keyed, h.nonneg, h.vsorted, fun v d => by rw [h.sums v d, e v d]⟩

theorem at_eq_oldShare (dels : List (DelKey × Delegation)) (k : DelKey) (v : ValId) (d : Denom) :
    AL.at? (shareOf v d) dels k = oldShare dels k v d := by unfold AL.at? oldShare; cases AL.get dels k <;> rfl

/-- writing a delegation record under its own key -/
theorem LedgerO.setDel {off dels vals} (h : LedgerO off dels vals) (dl : Delegation) (hn : 0 ≤ dl.shares) :
    LedgerO (fun v d => off v d + shareOf v d dl - oldShare dels (dl.del, dl.val, dl.denom) v d)
      (AL.set dels (dl.del, dl.val, dl.denom) dl) vals := by
  refine ⟨AL.set_sorted delKeyOrder _ _ _ h.dsorted, ?_, ?_, h.vsorted, ?_⟩
  · intro p hp
    rcases AL.mem_set _ _ _ _ hp with e | e
    · rw [e]
    · exact h.keyed p e
  · intro p hp
    rcases AL.mem_set _ _ _ _ hp with e | e
    · rw [e]; exact hn
    · exact h.nonneg p e
  · intro v d
    rw [AL.sum_set delKeyOrder _ _ _ _ h.dsorted, h.sums v d, at_eq_oldShare]
    omega

/-- deleting a delegation record -/
theorem LedgerO.eraseDel {off dels vals} (h : LedgerO off dels vals) (k : DelKey) :
    LedgerO (fun v d => off v d - oldShare dels k v d) (AL.erase dels k) vals := by
  refine ⟨AL.erase_sorted delKeyOrder _ _ h.dsorted, fun p hp => h.keyed p (AL.mem_erase _ _ _ hp),
    fun p hp => h.nonneg p (AL.mem_erase _ _ _ hp), h.vsorted, ?_⟩
  intro v d
  rw [AL.sum_erase delKeyOrder _ _ _ h.dsorted, h.sums v d, at_eq_oldShare]
  omega

theorem tdsL_set (vals : List (ValId × ValInfo)) (vid : ValId) (info : ValInfo) (v : ValId) (d : Denom) :
    tdsL (AL.set vals vid info) v d = if v = vid then DecCoins.sumOf info.totalDelShares d else tdsL vals v d := by
  unfold tdsL
  by_cases e : v = vid
  · subst e; simp only [AL.get_set_eq, if_true]
  · rw [AL.get_set_ne _ _ _ _ e]; simp only [e, if_false]

/-- writing a validator record -/
theorem LedgerO.setVal {off dels vals} (h : LedgerO off dels vals) (vid : ValId) (info : ValInfo)
    (hs : DecCoins.Sorted info.totalDelShares) :
    LedgerO (fun v d => off v d - (if v = vid then DecCoins.sumOf info.totalDelShares d - tdsL vals vid d else 0))
      dels (AL.set vals vid info) := by
  refine ⟨h.dsorted, h.keyed, h.nonneg, ?_, ?_⟩
  · intro v i hv
    by_cases e : v = vid
    · subst e; rw [AL.get_set_eq] at hv; injection hv with hv; rw [← hv]; exact hs
    · rw [AL.get_set_ne _ _ _ _ e] at hv; exact h.vsorted v i hv
  · intro v d
    rw [h.sums v d, tdsL_set]
    by_cases e : v = vid
    · subst e; simp only [if_true]; omega
    · simp only [e, if_false]; omega

/-- a record is at most the total it belongs to -/
theorem LedgerO.share_le_total {dels vals} (h : LedgerL dels vals) (k : DelKey) (dl : Delegation)
    (hg : AL.get dels k = some dl) : dl.shares ≤ tdsL vals dl.val dl.denom := by
  have hs := h.sums dl.val dl.denom
  simp only [Int.add_zero] at hs
  rw [← hs]
  have hm := AL.get_some_mem _ _ _ hg
  -- the sum of non-negative contributions is at least one of them
  have key : ∀ (l : List (DelKey × Delegation)), (∀ p ∈ l, 0 ≤ p.2.shares) → (k, dl) ∈ l →
      dl.shares ≤ AL.sumBy (shareOf dl.val dl.denom) l := by
    intro l
    induction l with
    | nil => intro _ hm; cases hm
    | cons p t ih =>
      intro hnn hm
      rw [AL.sumBy_cons]
      have hp0 : 0 ≤ shareOf dl.val dl.denom p.2 := by
        unfold shareOf; split
        · exact hnn p (List.mem_cons_self ..)
        · exact Int.le_refl 0
      have htail : 0 ≤ AL.sumBy (shareOf dl.val dl.denom) t := by
        clear ih hm
        induction t with
        | nil => exact Int.le_refl 0
        | cons q r ihr =>
          rw [AL.sumBy_cons]
          have : 0 ≤ shareOf dl.val dl.denom q.2 := by
            unfold shareOf; split
            · exact hnn q (List.mem_cons_of_mem _ (List.mem_cons_self ..))
            · exact Int.le_refl 0
          have := ihr (fun y hy => hnn y (by
            rcases List.mem_cons.mp hy with e | e
            · rw [e]; exact List.mem_cons_self ..
            · exact List.mem_cons_of_mem _ (List.mem_cons_of_mem _ e)))
          omega
      rcases List.mem_cons.mp hm with e | e
      · have hp : p.2 = dl := by rw [← e]
        have : shareOf dl.val dl.denom p.2 = dl.shares := by rw [hp]; unfold shareOf; simp
        unfold Dec at *
        omega
      · have := ih (fun y hy => hnn y (List.mem_cons_of_mem _ hy)) e
        unfold Dec at *
        omega
  exact key dels h.nonneg hm

end Alliance
