/-
  StakeNeutral.lean — C13 "stake-neutral" / C04 for claims: a reward claim changes no share quantity anywhere — no
  position's shares, no validator's delegator-share or asset-share totals, no asset record — hence no delegator's
  redeemable token value, the claimant's included.
-/
import AllianceProofs.ShareLedger
import AllianceProofs.AssetsValid
import AllianceProofs.FrameDels
import AllianceProofs.FrameStaking
import AllianceModel.Query
set_option linter.unusedVariables false
namespace Alliance
open Dec

/-- the share quantities the token value of a position is computed from -/
def delShares (w : World) (k : DelKey) : Option Dec := (AL.get w.dels k).map (·.shares)
def valView (w : World) (v : ValId) : DecCoins × DecCoins :=
  (((AL.get w.vals v).getD ValInfo.empty).totalDelShares, ((AL.get w.vals v).getD ValInfo.empty).valShares)

/-- same share quantities as in `w0` -/
def SV (w0 w : World) : Prop := (∀ k, delShares w k = delShares w0 k) ∧ (∀ v, valView w v = valView w0 v) ∧ w.assets = w0.assets

theorem SV.refl (w : World) : SV w w := ⟨fun _ => rfl, fun _ => rfl, rfl⟩

theorem SV.frame {α} {w0 : World} {m : M α} (h1 : FrameDV.Fr m) (h2 : AFrame m) : Hoare (SV w0) m (fun _ w => SV w0 w) := by
  constructor
  intro w w' a hm hw
  have f1 : FrameDV.π w' = FrameDV.π w := by have := h1.frame w; rw [hm] at this; exact this
  have f2 : w'.assets = w.assets := by have := h2.frame w; rw [hm] at this; exact this
  simp only [FrameDV.π, Prod.mk.injEq] at f1
  unfold SV delShares valView at *
  rw [f1.1, f1.2, f2]; exact hw

/-- writing a validator record with the same two share totals -/
theorem SV.setValInfo {w0 : World} (v : ValId) (info : ValInfo) :
    Hoare (fun w => SV w0 w ∧ valView w v = (info.totalDelShares, info.valShares)) (setValInfo v info) (fun _ w => SV w0 w) := by
  unfold Alliance.setValInfo
  refine Hoare.modifyW _ (fun w hw => ?_)
  obtain ⟨⟨h1, h2, h3⟩, hv⟩ := hw
  refine ⟨h1, ?_, h3⟩
  intro v'
  unfold valView at *
  simp only
  by_cases e : v' = v
  · subst e; rw [AL.get_set_eq]; simp only [Option.getD_some]; rw [← h2 v']; exact hv.symm
  · rw [AL.get_set_ne _ _ _ _ e]; exact h2 v'

/-- writing a delegation record with the same shares under its own key -/
theorem SV.setDelegation {w0 : World} (dl : Delegation) :
    Hoare (fun w => SV w0 w ∧ delShares w (dl.del, dl.val, dl.denom) = some dl.shares) (setDelegation dl) (fun _ w => SV w0 w) := by
  unfold Alliance.setDelegation
  refine Hoare.modifyW _ (fun w hw => ?_)
  obtain ⟨⟨h1, h2, h3⟩, hd⟩ := hw
  refine ⟨?_, h2, h3⟩
  intro k
  unfold delShares at *
  simp only
  by_cases e : k = (dl.del, dl.val, dl.denom)
  · subst e; rw [AL.get_set_eq]; simp only [Option.map_some]; rw [← h1]; exact hd.symm
  · rw [AL.get_set_ne _ _ _ _ e]; exact h1 k

/-- the in-memory validator carries the stored share totals -/
def VS (val : AVal) (w : World) : Prop := valView w val.id = (val.info.totalDelShares, val.info.valShares)

theorem getAllianceValidator_sv (w0 : World) (v : ValId) :
    Hoare (SV w0) (getAllianceValidator v) (fun r w => SV w0 w ∧ VS r w) := by
  unfold getAllianceValidator
  apply Hoare.getW_bind; intro w1 hP
  rcases h1 : AL.get w1.staking.vals v with _ | sv
  · exact Hoare.throwE _
  · dsimp only []
    rcases h2 : AL.get w1.vals v with _ | info
    · dsimp only []
      have hv : valView w1 v = (ValInfo.empty.totalDelShares, ValInfo.empty.valShares) := by
        unfold valView; rw [h2]; rfl
      apply Hoare.bind (R := fun _ w => SV w0 w ∧ valView w v = (ValInfo.empty.totalDelShares, ValInfo.empty.valShares))
      · constructor
        intro w w' a hm hw
        subst hw
        have hsv := (SV.setValInfo (w0 := w0) v ValInfo.empty).run w w' a hm ⟨hP, hv⟩
        refine ⟨hsv, ?_⟩
        unfold Alliance.setValInfo at hm
        simp only [modifyW_apply] at hm
        injection hm with _ hm; subst hm
        unfold valView; simp only [AL.get_set_eq, Option.getD_some]
      · intro _
        exact Hoare.pure _ (fun w h => ⟨h.1, h.2⟩)
    · refine Hoare.pure _ (fun w e => ?_)
      subst e
      exact ⟨hP, by unfold VS valView; simp only [h2, Option.getD_some]⟩

theorem addAssetsToRewardPool_sv (w0 : World) (val : AVal) (coins : Coins) :
    Hoare (fun w => SV w0 w ∧ VS val w) (addAssetsToRewardPool val coins) (fun r w => SV w0 w ∧ VS r w ∧ r.id = val.id) := by
  unfold addAssetsToRewardPool
  apply Hoare.ite
  · intro _; exact Hoare.pure _ (fun w h => ⟨h.1, h.2, rfl⟩)
  · intro _
    apply Hoare.getW_bind; intro w1 hP
    refine Hoare.at_state (P := fun w => SV w0 w ∧ VS val w) hP ?_
    try dsimp only []
    apply Hoare.liftE_bind; intro hist _
    apply Hoare.bind (R := fun _ w => SV w0 w ∧ VS { val with info := { val.info with hist := hist } } w)
    · unfold setValidator
      constructor
      intro w w' a hm hw
      have hsv := (SV.setValInfo (w0 := w0) val.id { val.info with hist := hist }).run w w' a hm ⟨hw.1, hw.2⟩
      refine ⟨hsv, ?_⟩
      unfold Alliance.setValInfo at hm
      simp only [modifyW_apply] at hm
      injection hm with _ hm; subst hm
      unfold VS valView; simp only [AL.get_set_eq, Option.getD_some]
    · intro _
      apply Hoare.bind (R := fun _ w => SV w0 w ∧ VS { val with info := { val.info with hist := hist } } w)
      · constructor
        intro w w' a hm hw
        have f1 := (by simp only [dvframe] : FrameDV.Fr (sendCoins accModule accPool coins)).frame w
        rw [hm] at f1
        simp only [FrameDV.π, Prod.mk.injEq] at f1
        refine ⟨(SV.frame (by simp only [dvframe]) (by aframe)).run w w' a hm hw.1, ?_⟩
        unfold VS valView at *; rw [f1.2]; exact hw.2
      · intro _
        exact Hoare.pure _ (fun w h => ⟨h.1, h.2, rfl⟩)

theorem svvs_frame {α} {w0 : World} {val : AVal} {m : M α} (h1 : FrameDV.Fr m) (h2 : AFrame m) :
    Hoare (fun w => SV w0 w ∧ VS val w) m (fun _ w => SV w0 w ∧ VS val w) := by
  constructor
  intro w w' a hm hw
  have f1 := h1.frame w
  rw [hm] at f1
  simp only [FrameDV.π, Prod.mk.injEq] at f1
  exact ⟨(SV.frame h1 h2).run w w' a hm hw.1, by unfold VS valView at *; rw [f1.2]; exact hw.2⟩

theorem claimValidatorRewards_sv (w0 : World) (val : AVal) :
    Hoare (fun w => SV w0 w ∧ VS val w) (claimValidatorRewards val) (fun r w => SV w0 w ∧ VS r w ∧ r.id = val.id) := by
  unfold claimValidatorRewards
  apply Hoare.getW_bind; intro w1 hP
  refine Hoare.at_state (P := fun w => SV w0 w ∧ VS val w) hP ?_
  try dsimp only []
  apply Hoare.ite
  · intro _; exact Hoare.pure _ (fun w h => ⟨h.1, h.2, rfl⟩)
  · intro _
    apply Hoare.bind (svvs_frame (by simp only [dvframe]) (by aframe)); intro cs
    apply Hoare.ite
    · intro _; exact Hoare.pure _ (fun w h => ⟨h.1, h.2, rfl⟩)
    · intro _; exact addAssetsToRewardPool_sv w0 val cs

/-- every delegation record is stored under its own key (an invariant of every history: `L0.keyed`) -/
def KD (w : World) : Prop := ∀ k dl, AL.get w.dels k = some dl → (dl.del, dl.val, dl.denom) = k

theorem KD.frame {α} {m : M α} (h : FrameDels.Fr m) : Hoare KD m (fun _ w => KD w) := by
  constructor
  intro w w' a hm hw
  have f1 := h.frame w
  rw [hm] at f1
  have f1' : w'.dels = w.dels := f1
  unfold KD; rw [f1']; exact hw

/-- C13 "stake-neutral": `ClaimDelegationRewards` changes no share quantity -/
theorem claimDelegationRewards_sv (w0 : World) (del : Acct) (val : AVal) (d : Denom) :
    Hoare (fun w => (SV w0 w ∧ VS val w) ∧ KD w) (claimDelegationRewards del val d) (fun r w => (SV w0 w ∧ VS r.2 w) ∧ KD w) := by
  unfold claimDelegationRewards
  apply Hoare.getW_bind; intro w1 hP
  rcases ha : getAsset w1 d with _ | a
  · exact Hoare.throwE _
  · dsimp only []
    apply Hoare.ite
    · intro _; exact Hoare.pure _ (fun w e => by subst e; exact hP)
    · intro _
      rcases hd : getDelegation w1 del val.id d with _ | dl
      · exact Hoare.throwE _
      · dsimp only []
        have hk : AL.get w1.dels (del, val.id, d) = some dl := hd
        have hkey : (dl.del, dl.val, dl.denom) = (del, val.id, d) := hP.2 _ _ hk
        -- the record stays while the validator's rewards are claimed
        refine Hoare.conseq (P' := fun w => ((SV w0 w ∧ VS val w) ∧ AL.get w.dels (del, val.id, d) = some dl) ∧ KD w)
          (Q' := fun r w => (SV w0 w ∧ VS r.2 w) ∧ KD w) ?_ (fun w e => by subst e; exact ⟨⟨hP.1, hk⟩, hP.2⟩) (fun _ _ q => q)
        apply Hoare.bind (R := fun r w => ((SV w0 w ∧ VS r w) ∧ AL.get w.dels (del, val.id, d) = some dl) ∧ KD w)
        · constructor
          intro w w' r hm hw
          have f1 := (by simp only [dframe] : FrameDels.Fr (claimValidatorRewards val)).frame w
          rw [hm] at f1
          have f1' : w'.dels = w.dels := f1
          obtain ⟨q1, q2, _⟩ := (claimValidatorRewards_sv w0 val).run w w' r hm hw.1.1
          exact ⟨⟨⟨q1, q2⟩, by rw [f1']; exact hw.1.2⟩, by unfold KD; rw [f1']; exact hw.2⟩
        · intro val1
          apply Hoare.getW_bind; intro w2 hP2
          apply Hoare.liftE_bind; intro r _
          refine Hoare.at_state (P := fun w => ((SV w0 w ∧ VS val1 w) ∧ AL.get w.dels (del, val.id, d) = some dl) ∧ KD w) hP2 ?_
          apply Hoare.bind (R := fun _ w => (SV w0 w ∧ VS val1 w) ∧ KD w)
          · constructor
            intro w w' u hm hw
            have hsh : delShares w (dl.del, dl.val, dl.denom) = some dl.shares := by
              rw [hkey]; unfold delShares; rw [hw.1.2]; rfl
            have hsv := (SV.setDelegation (w0 := w0) { dl with hist := r.2, lastClaimHeight := w2.height }).run w w' u hm ⟨hw.1.1.1, hsh⟩
            unfold Alliance.setDelegation at hm
            simp only [modifyW_apply] at hm
            injection hm with _ hm; subst hm
            refine ⟨⟨hsv, hw.1.1.2⟩, ?_⟩
            intro k' dl' hg
            simp only at hg
            by_cases e : k' = (dl.del, dl.val, dl.denom)
            · subst e
              rw [AL.get_set_eq] at hg
              injection hg with hg; subst hg; rfl
            · rw [AL.get_set_ne _ _ _ _ e] at hg
              exact hw.2 k' dl' hg
          · intro _
            apply Hoare.bind (R := fun _ w => (SV w0 w ∧ VS val1 w) ∧ KD w)
            · exact Hoare.and (svvs_frame (by simp only [dvframe]) (by aframe)) (KD.frame (by simp only [dframe]))
            · intro _; exact Hoare.pure _ (fun w h => h)

theorem msgClaim_sv (w0 : World) (del : Acct) (v : ValId) (d : Option Denom) :
    Hoare (fun w => w = w0 ∧ KD w0) (msgClaim del v d) (fun _ w => SV w0 w) := by
  unfold msgClaim
  cases d with
  | none => exact Hoare.throwE _
  | some dd =>
    dsimp only []
    apply Hoare.bind (R := fun r w => (SV w0 w ∧ VS r w) ∧ KD w)
    · constructor
      intro w w' r hm hw
      obtain ⟨e, hk⟩ := hw
      subst e
      exact ⟨(getAllianceValidator_sv w v).run w w' r hm (SV.refl w),
        (KD.frame (by simp only [dframe])).run w w' r hm hk⟩
    · intro val
      apply Hoare.bind (R := fun _ w => SV w0 w)
      · exact (claimDelegationRewards_sv w0 del val dd).conseq (fun w h => h) (fun _ _ q => q.1.1)
      · intro _; exact Hoare.pure _ (fun w h => h)

/-- C13 / C04: a successful reward claim changes no share quantity: every position's shares, every validator's
    delegator-share and asset-share totals and every asset record are what they were -/
theorem claim_is_stake_neutral (del : Acct) (v : ValId) (d : Option Denom) (w w' : World) (hk : KD w)
    (h : step (.claim del v d) w = (.ok (), w')) : SV w w' :=
  (Hoare.asTx (msgClaim_sv w del v d)).run w w' () h ⟨rfl, hk⟩

/-- the token value of a position depends on the validator record only through the two share totals -/
theorem delegationTokens_of_view (s : Dec) (i1 i2 : ValInfo) (a : Asset) (h1 : i1.totalDelShares = i2.totalDelShares)
    (h2 : i1.valShares = i2.valShares) : delegationTokensWithShares s i1 a = delegationTokensWithShares s i2 a := by
  unfold delegationTokensWithShares totalTokensWithAsset totalDelSharesWithDenom valSharesWithDenom
  rw [h1, h2]

/-- … hence what the delegation query reports for ANY delegator, validator and denom is the same before and after a claim -/
theorem claim_changes_no_reported_balance (del : Acct) (v : ValId) (d : Option Denom) (w w' : World) (hk : KD w)
    (h : step (.claim del v d) w = (.ok (), w')) (del' : Acct) (v' : ValId) (d' : Denom) :
    qDelegation w' del' v' d' = qDelegation w del' v' d' := by
  obtain ⟨h1, h2, h3⟩ := claim_is_stake_neutral del v d w w' hk h
  have hst : w'.staking = w.staking := by
    have := (FrameStaking.asTx (FrameStaking.msgClaim del v d)).frame w
    have h' : asTx (msgClaim del v d) w = (.ok (), w') := h
    rw [h'] at this
    simp only [FrameStaking.π, Prod.mk.injEq] at this
    exact this.1
  unfold qDelegation
  rw [hst]
  cases AL.get w.staking.vals v' with
  | none => rfl
  | some sv =>
    simp only
    unfold getAsset
    rw [h3]
    cases hga : AL.get w.assets d' with
    | none => rfl
    | some a =>
      simp only
      have hd := h1 (del', v', d')
      unfold delShares at hd
      unfold getDelegation
      have hv := h2 v'
      unfold valView at hv
      simp only [Prod.mk.injEq] at hv
      cases hg' : AL.get w'.dels (del', v', d') with
      | none =>
        rw [hg'] at hd
        cases hg : AL.get w.dels (del', v', d') with
        | none => rfl
        | some dl => rw [hg] at hd; cases hd
      | some dl' =>
        rw [hg'] at hd
        cases hg : AL.get w.dels (del', v', d') with
        | none => rw [hg] at hd; cases hd
        | some dl =>
          rw [hg] at hd
          simp only [Option.map_some, Option.some.injEq] at hd
          simp only
          rw [hd, delegationTokens_of_view dl.shares _ _ a hv.1 hv.2]

end Alliance
