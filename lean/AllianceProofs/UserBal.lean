/-
  UserBal.lean — the end-of-block processing moves a USER account's balance only through the unbonding payouts:
  take-rate deduction, reward indexing, weight decay and rebalancing move coins between system accounts only
  (module, fee collector, rewards pool, distribution, the two staking pools).
-/
import AllianceProofs.Payout
import AllianceModel.EndBlock
set_option linter.unusedVariables false
namespace Alliance
open Dec

/-- not one of the six system accounts of the model -/
def IsUser (u : Acct) : Prop :=
  u ≠ accModule ∧ u ≠ accFee ∧ u ≠ accPool ∧ u ≠ accDistr ∧ u ≠ accBonded ∧ u ≠ accNotBonded

theorem sendCoins_user (src dst : Acct) (cs : Coins) (u : Acct) (d : Denom) (h1 : u ≠ src) (h2 : u ≠ dst) :
    BalT u d 0 (sendCoins src dst cs) := (sendCoins_balT src dst cs u d).cast (by simp [h1, h2])

theorem mintCoin_user (acct : Acct) (dn : Denom) (x : Int) (u : Acct) (d : Denom) (hu : u ≠ acct) :
    BalT u d 0 (mintCoin acct dn x) := by
  constructor
  intro w w' a hm _
  refine ⟨?_, trivial⟩
  unfold mintCoin at hm
  simp only [bind_apply, getW_apply, setBalance, modifyW_apply] at hm
  injection hm with _ h2; subst h2
  have hne : ¬ (u, d) = (acct, dn) := fun h => hu (by injection h)
  show bankBalance _ u d = bankBalance w u d + 0
  unfold bankBalance
  simp only
  rw [AL.get_set_ne _ _ _ _ hne]; omega

macro "ub_frame" : tactic => `(tactic| (apply balT_frame; first | exact FrameBS.liftE _ | exact FrameBS.pure _ | exact FrameBS.guardE _ _ | exact FrameBS.guardP _ _ | (simp only [bsframe]; done)))

variable {u : Acct} {d : Denom}

theorem withdrawRewards_user (hu : IsUser u) (v : ValId) : BalT u d 0 (withdrawRewards v) := by
  unfold withdrawRewards
  apply Obs.getW_bind; intro w0 _
  split
  · exact Obs.throwE _
  · apply Obs.bind0 (by ub_frame); intro _
    apply Obs.bind0
    · apply balT_frame; apply FrameBS.modifyW; intro w; rfl
    · intro _
      exact Obs.bind0 (sendCoins_user accDistr accModule _ u d hu.2.2.2.1 hu.1) (fun _ => Obs.pure _)

theorem addAssetsToRewardPool_user (hu : IsUser u) (val : AVal) (coins : Coins) : BalT u d 0 (addAssetsToRewardPool val coins) := by
  unfold addAssetsToRewardPool
  apply Obs.ite
  · intro _; exact Obs.pure _
  · intro _
    apply Obs.getW_bind; intro w0 _
    try dsimp only []
    apply Obs.bind0 (by ub_frame); intro _
    apply Obs.bind0 (by ub_frame); intro _
    exact Obs.bind0 (sendCoins_user accModule accPool coins u d hu.1 hu.2.2.1) (fun _ => Obs.pure _)

theorem claimValidatorRewards_user (hu : IsUser u) (val : AVal) : BalT u d 0 (claimValidatorRewards val) := by
  unfold claimValidatorRewards
  apply Obs.getW_bind; intro w0 _
  try dsimp only []
  apply Obs.ite
  · intro _; exact Obs.pure _
  · intro _
    apply Obs.bind0 (withdrawRewards_user hu _); intro cs
    apply Obs.ite
    · intro _; exact Obs.pure _
    · intro _; exact addAssetsToRewardPool_user hu val cs

theorem distrHookWithdraw_user (hu : IsUser u) (v : ValId) : BalT u d 0 (distrHookWithdraw v) := by
  unfold distrHookWithdraw
  exact Obs.bind0 (withdrawRewards_user hu v) (fun _ => Obs.pure _)

theorem stakingDelegate_user (hu : IsUser u) (v : ValId) (snap : SVal) (amt : Int) :
    BalT u d 0 (stakingDelegate v snap amt) := by
  unfold stakingDelegate
  apply Obs.bind0 (by ub_frame); intro _
  apply Obs.getW_bind; intro w0 _
  try dsimp only []
  apply Obs.bind0
  · split
    · exact distrHookWithdraw_user hu v
    · exact Obs.pure ()
  · intro _
    apply Obs.bind0
    · apply sendCoins_user _ _ _ u d hu.1
      split
      · exact hu.2.2.2.2.1
      · exact hu.2.2.2.2.2
    · intro _
      apply Obs.getW_bind; intro w1 _
      try dsimp only []
      apply Obs.ite
      · intro _
        apply Obs.bind0 (by ub_frame); intro _
        exact Obs.panicE _
      · intro _
        apply Obs.bind0 (by ub_frame); intro _
        ub_frame

theorem stakingUnbond_user (hu : IsUser u) (v : ValId) (shares : Dec) : BalT u d 0 (stakingUnbond v shares) := by
  unfold stakingUnbond
  apply Obs.getW_bind; intro w0 _
  split
  · exact Obs.throwE _
  · split
    · exact Obs.throwE _
    · apply Obs.bind0 (distrHookWithdraw_user hu v); intro _
      apply Obs.bind0 (by ub_frame); intro _
      try dsimp only []
      apply Obs.bind0 (by ub_frame); intro _
      apply Obs.bind0 (by ub_frame); intro _
      apply Obs.bind0 (by ub_frame); intro _
      exact Obs.pure _

theorem rebalanceBondTokenWeights_user (hu : IsUser u) (assets : List Asset) :
    BalT u d 0 (rebalanceBondTokenWeights assets) := by
  unfold rebalanceBondTokenWeights
  apply Obs.getW_bind; intro w0 _
  try dsimp only []
  apply Obs.bind0
  · apply Obs.foldlM
    intro acc v _
    apply Obs.bind0 (by ub_frame); intro _
    exact Obs.pure _
  · intro snaps
    apply Obs.forEachM
    intro validator _
    apply Obs.getW_bind; intro w1 _
    try dsimp only []
    apply Obs.bind0
    · apply Obs.foldlM
      intro acc a _
      apply Obs.ite
      · intro _
        apply Obs.bind0 (by ub_frame); intro _
        exact Obs.pure _
      · intro _
        try dsimp only []
        apply Obs.ite <;> (intro _; exact Obs.pure _)
    · intro expected
      apply Obs.ite
      · intro _
        try dsimp only []
        apply Obs.ite
        · intro _; exact Obs.pure ()
        · intro _
          apply Obs.bind0 (mintCoin_user accModule _ _ u d hu.1); intro _
          apply Obs.bind0 (claimValidatorRewards_user hu _); intro _
          exact stakingDelegate_user hu _ _ _
      · intro _
        apply Obs.ite
        · intro _
          try dsimp only []
          apply Obs.ite
          · intro _; exact Obs.pure ()
          · intro _
            apply Obs.bind0 (by ub_frame); intro _
            apply Obs.bind0 (claimValidatorRewards_user hu _); intro _
            apply Obs.bind0 (stakingUnbond_user hu _ _); intro tok
            exact burnCoin_balT accBonded _ tok u d hu.2.2.2.2.1
        · intro _; exact Obs.pure ()

theorem rebalanceHook_user (hu : IsUser u) (assets : List Asset) : BalT u d 0 (rebalanceHook assets) := by
  unfold rebalanceHook
  apply Obs.getW_bind; intro w0 _
  apply Obs.ite
  · intro _
    apply Obs.bind0
    · apply balT_frame; apply FrameBS.modifyW; intro w; rfl
    · intro _; exact rebalanceBondTokenWeights_user hu assets
  · intro _; exact Obs.pure ()

theorem settleAllValidators_user (hu : IsUser u) (asset : Asset) (c : Bool) (vals : List (ValId × ValInfo)) :
    BalT u d 0 (settleAllValidators asset c vals) := by
  unfold settleAllValidators
  split
  · apply Obs.bind0
    · apply Obs.forEachM
      intro kv _
      apply Obs.bind0 (by ub_frame); intro v1
      apply Obs.bind0 (claimValidatorRewards_user hu _); intro v2
      ub_frame
    · intro _; ub_frame
  · exact Obs.pure ()

theorem updateAllianceAsset_user (hu : IsUser u) (newAsset : Asset) : BalT u d 0 (updateAllianceAsset newAsset) := by
  unfold updateAllianceAsset
  apply Obs.getW_bind; intro w0 _
  split
  · exact Obs.throwE _
  · apply Obs.bind0 (by ub_frame); intro _
    apply Obs.bind0 (settleAllValidators_user hu _ _ _); intro _
    apply Obs.getW_bind; intro w1 _
    ub_frame

theorem rewardWeightChangeHook_go_user (hu : IsUser u) (rest acc : List Asset) :
    BalT u d 0 (rewardWeightChangeHook.go rest acc) := by
  induction rest generalizing acc with
  | nil => unfold rewardWeightChangeHook.go; exact Obs.pure _
  | cons a r ih =>
    unfold rewardWeightChangeHook.go
    apply Obs.getW_bind; intro w0 _
    apply Obs.ite
    · intro _; exact ih _
    · intro _
      try dsimp only []
      split
      · apply Obs.bind0 (by ub_frame); intro _
        apply Obs.bind0 (updateAllianceAsset_user hu _); intro _
        exact ih _
      · exact Obs.panicE _

theorem rewardWeightChangeHook_user (hu : IsUser u) (assets : List Asset) : BalT u d 0 (rewardWeightChangeHook assets) := by
  unfold rewardWeightChangeHook
  exact rewardWeightChangeHook_go_user hu assets []

theorem deductAssetsWithTakeRate_user (hu : IsUser u) (last : Time) (assets : List Asset) :
    BalT u d 0 (deductAssetsWithTakeRate last assets) := by
  unfold deductAssetsWithTakeRate
  apply Obs.getW_bind; intro w0 _
  apply Obs.ite
  · intro _
    apply Obs.bind0 (by ub_frame); intro _
    exact Obs.pure _
  · intro _
    try dsimp only []
    apply Obs.bind0 (by ub_frame); intro _
    apply Obs.bind0
    · apply Obs.forEachM
      intro a _
      apply Obs.ite
      · intro _; ub_frame
      · intro _; exact Obs.pure ()
    · intro _
      apply Obs.ite
      · intro _
        apply Obs.bind0 (by ub_frame); intro _
        exact Obs.pure _
      · intro _
        apply Obs.ite
        · intro _
          apply Obs.bind0 (sendCoins_user accModule accFee _ u d hu.1 hu.2.1); intro _
          apply Obs.bind0 (by ub_frame); intro _
          exact Obs.pure _
        · intro _; exact Obs.pure _

theorem deductAssetsHook_user (hu : IsUser u) (assets : List Asset) : BalT u d 0 (deductAssetsHook assets) := by
  unfold deductAssetsHook
  apply Obs.getW_bind; intro w0 _
  try dsimp only []
  apply Obs.ite
  · intro _; exact deductAssetsWithTakeRate_user hu _ _
  · intro _; exact Obs.pure _

/-- C02, the money side of end-of-block: a user account's balance of any denom moves by exactly the matured unbonding
    entries that name it — the rest of the end blocker moves coins between system accounts only -/
theorem endBlocker_pays_user (hu : IsUser u) (w w' : World) (h : endBlocker w = (.ok (), w')) :
    bankBalance w' u d = bankBalance w u d + owedNow u d (completeRedelegations w).2 := by
  unfold endBlocker at h
  simp only [bind_apply] at h
  rcases h1 : completeRedelegations w with ⟨r1, w1⟩
  rw [h1] at h
  have hb1 : bankBalance w1 u d = bankBalance w u d + 0 := by
    cases r1 with
    | error e => simp at h
    | ok x => exact ((balT_frame (acct := u) (d := d) (by simp only [bsframe] : FrameBS.Fr completeRedelegations)).run w w1 x h1 trivial).1
  cases r1 with
  | error e => simp at h
  | ok x =>
    simp only at h
    rcases h2 : completeUnbondings w1 with ⟨r2, w2⟩
    rw [h2] at h
    cases r2 with
    | error e => simp at h
    | ok y =>
      simp only [getW_apply] at h
      have hp := completeUnbondings_pays u d hu.1 w1 w2 h2
      have hrest : BalT u d 0 (do
          let assets ← initializeAllianceAssets (allAssets w2)
          let assets ← deductAssetsHook assets
          let assets ← rewardWeightChangeHook assets
          rebalanceHook assets) := by
        apply Obs.bind0 (by ub_frame); intro as1
        apply Obs.bind0 (deductAssetsHook_user hu as1); intro as2
        apply Obs.bind0 (rewardWeightChangeHook_user hu as2); intro as3
        exact rebalanceHook_user hu as3
      have hr := (hrest.run w2 w' () (by simpa only [bind_apply] using h) trivial).1
      show bankBalance w' u d = bankBalance w u d + owedNow u d w1
      omega

theorem owedNow_completeRedelegations (u : Acct) (d : Denom) (w : World) :
    owedNow u d (completeRedelegations w).2 = owedNow u d w := by
  have a := (FrameUndel.completeRedelegations).frame w
  have b := (FrameStaking.completeRedelegations).frame w
  simp only [FrameUndel.π, FrameStaking.π, Prod.mk.injEq] at a b
  unfold owedNow maturedBuckets
  rw [a.1, b.2.1]

/-- … stated on the pre-state of the block boundary -/
theorem endBlocker_pays_user' {u : Acct} {d : Denom} (hu : IsUser u) (w w' : World) (h : endBlocker w = (.ok (), w')) :
    bankBalance w' u d = bankBalance w u d + owedNow u d w := by
  rw [← owedNow_completeRedelegations u d w]; exact endBlocker_pays_user hu w w' h

end Alliance
