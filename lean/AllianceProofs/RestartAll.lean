/-
  RestartAll.lean — C18, the whole restart in one statement: in a state whose stores are sorted and keyed by their own
  fields and whose unbonding queue and index agree (all of them invariants of every history), export → wipe → import
  brings back assets, validator infos, delegations, snapshots, redelegation records, the unbonding queue and its index
  and the parameters EXACTLY — so a second export is identical to the first —, touches nothing outside the module's
  genesis, leaves the two derived redelegation stores in agreement with the records (not necessarily as they were: D12)
  and drops the rebalance flag (D11).  The hypotheses hold in every state of every history, restarts included.
-/
import AllianceProofs.ValsRoundTrip
import AllianceProofs.KeepStores
import AllianceProofs.RedelRoundTrip
import AllianceProofs.ReimportInv
import AllianceProofs.InvCheck
import AllianceProofs.LedgerHistory
set_option linter.unusedVariables false
namespace Alliance

/-- the hypotheses of the restart theorem: the record stores are sorted and keyed (`Stores`, `RK`: kept by every keeper
    function, KeepStores.lean / KeepRK.lean), unbonding queue and index agree and no bucket is empty (`IXN`, INV-I), the
    redelegation stores agree (`RX`, INV-R) -/
structure RestartOK (w : World) : Prop where
  stores : Stores w
  ixn : IXN w
  rk : RK w
  rx : RX w

/-- what a restart brings back exactly -/
def SameModuleState (w w' : World) : Prop :=
  w'.assets = w.assets ∧ w'.vals = w.vals ∧ w'.dels = w.dels ∧ w'.snaps = w.snaps ∧ w'.redels = w.redels ∧
  w'.undelQueue = w.undelQueue ∧ w'.undelIndex = w.undelIndex ∧ w'.params = w.params ∧
  w'.bank = w.bank ∧ w'.supply = w.supply ∧ w'.staking = w.staking ∧ w'.time = w.time ∧ w'.height = w.height

theorem restart_restores (w w' : World) (hok : RestartOK w) (h : reimport w = (.ok (), w')) :
    SameModuleState w w' ∧ RX w' ∧ w'.flag = false := by
  obtain ⟨o1, o2, o3, o4, o5, _, o7, o8⟩ := reimport_outside_and_params w w' h
  obtain ⟨u1, u2⟩ := reimport_restores_unbondings w w' h hok.ixn.1 hok.ixn.2
  exact ⟨⟨reimport_restores_assets w w' h hok.stores.asorted hok.stores.akeyed, reimport_restores_validators w w' h hok.stores.vsorted,
    reimport_restores_delegations w w' h hok.stores.dsorted hok.stores.dkeyed, reimport_restores_snapshots w w' h hok.stores.ssorted,
    reimport_restores_redelegation_records w w' h hok.rx.rsorted hok.rk,
    u1, u2, o7, o1, o2, o3, o4, o5⟩, reimport_gives_rx w w' h, o8⟩

/-- … and the hypotheses hold again afterwards, so the statement applies to every later restart as well -/
theorem restart_keeps_ok (w w' : World) (hok : RestartOK w) (h : reimport w = (.ok (), w')) : RestartOK w' := by
  obtain ⟨⟨a, v, d, s, r, uq, ui, _⟩, hrx, _⟩ := restart_restores w w' hok h
  refine ⟨hok.stores.other w' a v d s, ?_, hok.rk.other _ r, hrx⟩
  unfold IXN IX NE; rw [uq, ui]; exact hok.ixn

/-- histories with restarts: successful operations (each on its own response tape), failed transactions, environment
    steps that leave the module's record stores alone, and export → wipe → import -/
inductive ReachG : World → World → Prop
  | refl (w : World) : ReachG w w
  | env {w w1 w2 : World} : ReachG w w1 → w2.assets = w1.assets → w2.vals = w1.vals → w2.dels = w1.dels →
      w2.snaps = w1.snaps → w2.undelQueue = w1.undelQueue → w2.undelIndex = w1.undelIndex → w2.redels = w1.redels →
      w2.redelQueue = w1.redelQueue → w2.redelIndex = w1.redelIndex → ReachG w w2
  | ok {w w1 w2 : World} (op : Op) (tape : List (ValId × Coins)) : ReachG w w1 →
      step op { w1 with oracle := tape } = (.ok (), w2) → ReachG w w2
  | failTx {w w1 : World} (op : Op) (tape : List (ValId × Coins)) (e : Err) : ReachG w w1 → op.isTx = true →
      (step op { w1 with oracle := tape }).1 = .error e → ReachG w (step op { w1 with oracle := tape }).2
  | restart {w w1 w2 : World} : ReachG w w1 → reimport w1 = (.ok (), w2) → ReachG w w2

/-- the hypotheses of the restart theorem hold in every state of every history, restarts included -/
theorem reach_restart_ok (w w' : World) (hok : RestartOK w) (hr : ReachG w w') : RestartOK w' := by
  induction hr with
  | refl => exact hok
  | env _ e1 e2 e3 e4 e5 e6 e7 e8 e9 ih =>
    refine ⟨ih.stores.other _ e1 e2 e3 e4, ?_, ih.rk.other _ e7, ?_⟩
    · unfold IXN IX NE; rw [e5, e6]; exact ih.ixn
    · unfold RX; rw [e7, e8, e9]; exact ih.rx
  | @ok w1 w2 op tape _ hs ih =>
    refine ⟨?_, step_ixn op _ _ hs ih.ixn, ?_, step_rx op _ _ hs ih.rx⟩
    · have hpre : Stores { w1 with oracle := tape } := ih.stores.other _ rfl rfl rfl rfl
      have := (KeepStores.step op).keep _ hpre
      rw [hs] at this; exact this
    · have hpre : RK { w1 with oracle := tape } := ih.rk.other _ rfl
      have := (KeepRK.step op).keep _ hpre
      rw [hs] at this; exact this
  | failTx op tape e _ htx hf ih =>
    rw [step_tx_fail op _ e htx hf]
    exact ⟨ih.stores.other _ rfl rfl rfl rfl, ih.ixn, ih.rk.other _ rfl, ih.rx⟩
  | restart _ hre ih => exact restart_keeps_ok _ _ ih hre

/-- the empty module store (a chain's first genesis) meets the hypotheses -/
theorem restart_ok_empty (w : World) : RestartOK (clearModuleStore w) := by
  refine ⟨⟨?_, ?_, ?_, ?_, ?_, ?_⟩, ⟨⟨?_, ?_, ?_, ?_, ?_⟩, ?_⟩, ?_, rx_empty w⟩ <;>
    simp [clearModuleStore, AL.SortedBy, SortedK, NE, NEQ, RK]

/-- C18 over all histories: from the empty module store, after any history of operations, failed transactions,
    environment steps and earlier restarts, a restart brings the module state back exactly -/
theorem every_restart_restores (w0 w w' : World) (hr : ReachG (clearModuleStore w0) w) (h : reimport w = (.ok (), w')) :
    SameModuleState w w' ∧ RX w' ∧ w'.flag = false :=
  restart_restores w w' (reach_restart_ok _ _ (restart_ok_empty w0) hr) h

/-- C18, first clause: a second export is identical to the first -/
theorem second_export_identical (w w' : World) (hok : RestartOK w) (h : reimport w = (.ok (), w')) :
    exportGenesis w' = exportGenesis w := by
  obtain ⟨⟨a, v, d, s, r, uq, _, p, _⟩, _, _⟩ := restart_restores w w' hok h
  unfold exportGenesis allAssets
  rw [a, v, d, s, r, uq, p]

/-- … over all histories -/
theorem every_second_export_identical (w0 w w' : World) (hr : ReachG (clearModuleStore w0) w)
    (h : reimport w = (.ok (), w')) : exportGenesis w' = exportGenesis w :=
  second_export_identical w w' (reach_restart_ok _ _ (restart_ok_empty w0) hr) h

/-- with no redelegation exported, the import leaves the two derived redelegation stores as the wipe left them -/
theorem initGenesis_no_redels (g : Genesis) (hg : g.redelegations = []) :
    Keeps (fun w => (w.redelQueue, w.redelIndex)) (initGenesis g) := by
  rw [initGenesis_eq]
  apply Keeps.bind (initParams_keeps _ g (fun _ _ => rfl)); intro _
  apply Keeps.bind (Keeps.of_state _ () (forEachM_setAsset _) (fun w => rfl)); intro _
  apply Keeps.bind (Keeps.of_state _ () (forEachM_setValInfo _) (fun w => rfl)); intro _
  apply Keeps.bind (Keeps.of_state _ () (forEachM_setDelegation _) (fun w => rfl)); intro _
  unfold initAfterDelegations
  rw [hg]
  apply Keeps.bind (by unfold forEachM; exact Keeps.pure _); intro _
  apply Keeps.bind (importUndels_keeps _ g (fun _ _ _ => rfl)); intro _
  apply Keeps.forEachM; intro p
  apply Keeps.modifyW; intro w; rfl

/-- C18, second clause, where it holds outright: in a state with no redelegation pending and no rebalance queued, a restart
    is the IDENTITY on the whole state — so every continuation (results, errors, payouts, slashing effects, query answers)
    is the same on the original and on the re-imported state.  (With redelegations pending or the flag set it is not:
    D12, D11.) -/
theorem restart_is_identity (w w' : World) (hok : RestartOK w) (hf : w.flag = false) (h1 : w.redels = [])
    (h2 : w.redelQueue = []) (h3 : w.redelIndex = []) (h : reimport w = (.ok (), w')) : w' = w := by
  obtain ⟨⟨a, v, d, s, r, uq, ui, p, b, su, st, t, ht⟩, _, fl⟩ := restart_restores w w' hok h
  obtain ⟨_, _, _, _, _, o, _, _⟩ := reimport_outside_and_params w w' h
  have hq : w'.redelQueue = [] ∧ w'.redelIndex = [] := by
    unfold reimport at h
    simp only [bind_apply, getW_apply, setW_apply] at h
    have := (initGenesis_no_redels (exportGenesis w) (by unfold exportGenesis; simp only [h1]; rfl)).run _ _ _ h
    simp only [Prod.mk.injEq] at this
    exact this
  cases w; cases w'
  simp only [World.mk.injEq] at *
  simp only [*, and_self]

/-- … and so is any number of restarts anywhere in a continuation: the run of an operation sequence after the restart
    is the run after no restart -/
theorem restart_then_run_eq (w w' : World) (hok : RestartOK w) (hf : w.flag = false) (h1 : w.redels = [])
    (h2 : w.redelQueue = []) (h3 : w.redelIndex = []) (h : reimport w = (.ok (), w')) (ops : List Op) :
    run w' ops = run w ops := by
  rw [restart_is_identity w w' hok hf h1 h2 h3 h]

/-- C01 across a restart: the custody gap of every denom is exactly what it was -/
theorem restart_keeps_gap (w w' : World) (hok : RestartOK w) (h : reimport w = (.ok (), w')) (d : Denom) :
    gap w' d = gap w d := by
  obtain ⟨⟨a, _, _, _, _, uq, _, _, b, _⟩, _, _⟩ := restart_restores w w' hok h
  unfold gap custody bankBalance
  rw [staked_of_assets_eq a, pending_of_queue_eq uq, b]

/-- C03 across a restart: the delegator-share ledger holds afterwards if it held before -/
theorem restart_keeps_ledger (w w' : World) (hok : RestartOK w) (hl : L0 w) (h : reimport w = (.ok (), w')) : L0 w' := by
  obtain ⟨⟨_, v, d, _⟩, _, _⟩ := restart_restores w w' hok h
  unfold L0 L at *
  rw [d, v]; exact hl

instance : DecidableRel delKeyOrder.lt := by unfold delKeyOrder; exact inferInstance

instance (w : World) : Decidable (RestartOK w) :=
  decidable_of_iff
    (AL.SortedBy natKeyOrder w.assets ∧ (∀ p ∈ w.assets, p.2.denom = p.1) ∧ AL.SortedBy natKeyOrder w.vals ∧
      AL.SortedBy delKeyOrder w.dels ∧ (∀ p ∈ w.dels, p.1 = (p.2.del, p.2.val, p.2.denom)) ∧
      AL.SortedBy delKeyOrder w.snaps ∧ IX w ∧ NE w ∧ (∀ p ∈ w.redels, p.1.1 = p.2.del ∧ p.1.2.1 = p.2.denom ∧ p.1.2.2.1 = p.2.dst) ∧ RX w)
    ⟨fun ⟨a, b, c, d, e, f, g, h, i, j⟩ => ⟨⟨a, b, c, d, e, f⟩, ⟨g, h⟩, i, j⟩,
     fun h => ⟨h.stores.asorted, h.stores.akeyed, h.stores.vsorted, h.stores.dsorted, h.stores.dkeyed, h.stores.ssorted, h.ixn.1, h.ixn.2, h.rk, h.rx⟩⟩

/-- the restart theorem instantiated on an observed export → wipe → import of the real module -/
def theoremCheckRestart (pre post : World) : List (String × String) :=
  if decide (RestartOK pre) then
    (if post.assets = pre.assets then [] else [("theorem.C18", "restart_restores: assets differ after the restart")]) ++
    (if post.vals = pre.vals then [] else [("theorem.C18", "restart_restores: validator infos differ after the restart")]) ++
    (if post.dels = pre.dels then [] else [("theorem.C18", "restart_restores: delegations differ after the restart")]) ++
    (if post.snaps = pre.snaps then [] else [("theorem.C18", "restart_restores: snapshots differ after the restart")]) ++
    (if post.redels = pre.redels then [] else [("theorem.C18", "restart_restores: redelegation records differ after the restart")]) ++
    (if exportGenesis post = exportGenesis pre then [] else [("theorem.C18", "second_export_identical: the second export differs from the first")]) ++
    (if post.undelQueue = pre.undelQueue ∧ post.undelIndex = pre.undelIndex then []
     else [("theorem.C18", "restart_restores: unbonding queue or index differ after the restart")]) ++
    (if post.params = pre.params then [] else [("theorem.C18", "restart_restores: parameters differ after the restart")]) ++
    (if post.bank = pre.bank ∧ post.supply = pre.supply ∧ post.staking = pre.staking then []
     else [("theorem.C18", "restart_restores: bank, supply or native staking touched by the restart")]) ++
    (if pre.flag = false ∧ pre.redels = [] ∧ pre.redelQueue = [] ∧ pre.redelIndex = [] ∧
        ¬ (post.flag = pre.flag ∧ post.redels = pre.redels ∧ post.redelQueue = pre.redelQueue ∧ post.redelIndex = pre.redelIndex ∧
           post.time = pre.time ∧ post.height = pre.height) then
       [("theorem.C18", "restart_is_identity: no redelegation pending, no rebalance queued, and the state differs after the restart")]
     else []) ++
    (if decide (RX post) then [] else [("theorem.C18", "reimport_gives_rx: redelegation stores disagree after the restart")])
  else [("theorem.C18", "hypothesis RestartOK fails on the observed pre-state")]

end Alliance
