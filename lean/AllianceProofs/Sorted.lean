/-
  Sorted association lists: when the keys are strictly increasing, `set` and `erase` keep them so, keys are unique,
  and sums over the values distribute over `set` / `erase`. Needed wherever a property speaks about a TOTAL over a
  store (custody: sum of pending unbondings; share ledger: sum of delegation shares).
-/
import AllianceProofs.AListLemmas
namespace Alliance

/-- a strict total order on keys that agrees with `compare` (the order `AL.set` inserts by) -/
structure KeyOrder (κ : Type) [DecidableEq κ] [Ord κ] where
  lt : κ → κ → Prop
  irrefl : ∀ a, ¬ lt a a
  trans : ∀ a b c, lt a b → lt b c → lt a c
  cmp_lt : ∀ a b, compare a b = .lt ↔ lt a b
  total : ∀ a b, a ≠ b → ¬ lt a b → lt b a

namespace AL
variable {κ α : Type} [DecidableEq κ] [Ord κ]

/-- keys strictly increasing -/
def SortedBy (o : KeyOrder κ) (l : List (κ × α)) : Prop := l.Pairwise (fun p q => o.lt p.1 q.1)

theorem sorted_nil (o : KeyOrder κ) : SortedBy o ([] : List (κ × α)) := List.Pairwise.nil

theorem sorted_tail (o : KeyOrder κ) {p : κ × α} {t : List (κ × α)} (h : SortedBy o (p :: t)) : SortedBy o t :=
  (List.pairwise_cons.mp h).2

theorem sorted_head_lt (o : KeyOrder κ) {p : κ × α} {t : List (κ × α)} (h : SortedBy o (p :: t)) :
    ∀ q ∈ t, o.lt p.1 q.1 := (List.pairwise_cons.mp h).1

/-- in a sorted list a key smaller than the head does not occur -/
theorem get_none_of_lt_head (o : KeyOrder κ) (l : List (κ × α)) (k : κ) (hs : SortedBy o l)
    (h : ∀ q ∈ l, o.lt k q.1) : get l k = none := by
  induction l with
  | nil => rfl
  | cons hd t ih =>
    obtain ⟨k', v'⟩ := hd
    rw [get_cons]
    have hlt := h (k', v') List.mem_cons_self
    have hne : k ≠ k' := by intro heq; subst heq; exact o.irrefl _ hlt
    simp only [hne, if_false]
    exact ih (sorted_tail o hs) (fun q hq => h q (List.mem_cons_of_mem _ hq))

theorem mem_set_keys (l : List (κ × α)) (k : κ) (v : α) (q : κ × α) (hq : q ∈ set l k v) :
    q.1 = k ∨ q ∈ l := by
  rcases mem_set l k v q hq with h | h
  · left; rw [h]
  · right; exact h

theorem set_sorted (o : KeyOrder κ) (l : List (κ × α)) (k : κ) (v : α) (hs : SortedBy o l) :
    SortedBy o (set l k v) := by
  induction l with
  | nil => exact List.pairwise_singleton _ _
  | cons hd t ih =>
    obtain ⟨k', v'⟩ := hd
    unfold set
    by_cases h : k = k'
    · subst h
      simp only [if_true]
      exact List.pairwise_cons.mpr ⟨fun q hq => sorted_head_lt o hs q hq, sorted_tail o hs⟩
    · simp only [h, if_false]
      by_cases h2 : compare k k' = .lt
      · simp only [h2, if_true]
        have hlt : o.lt k k' := (o.cmp_lt k k').mp h2
        refine List.pairwise_cons.mpr ⟨?_, hs⟩
        intro q hq
        rcases List.mem_cons.mp hq with h3 | h3
        · rw [h3]; exact hlt
        · exact o.trans _ _ _ hlt (sorted_head_lt o hs q h3)
      · simp only [h2, if_false]
        have hgt : o.lt k' k := o.total k k' h (fun hl => h2 ((o.cmp_lt k k').mpr hl))
        refine List.pairwise_cons.mpr ⟨?_, ih (sorted_tail o hs)⟩
        intro q hq
        rcases mem_set_keys t k v q hq with h3 | h3
        · show o.lt k' q.1; rw [h3]; exact hgt
        · exact sorted_head_lt o hs q h3

theorem erase_sorted (o : KeyOrder κ) (l : List (κ × α)) (k : κ) (hs : SortedBy o l) : SortedBy o (erase l k) := by
  induction l with
  | nil => exact sorted_nil o
  | cons hd t ih =>
    obtain ⟨k', v'⟩ := hd
    unfold erase
    by_cases h : k = k'
    · simp only [h, if_true]; exact sorted_tail o hs
    · simp only [h, if_false]
      refine List.pairwise_cons.mpr ⟨?_, ih (sorted_tail o hs)⟩
      intro q hq
      exact sorted_head_lt o hs q (mem_erase t k q hq)

/-- in a sorted list the erased key is gone -/
theorem get_erase_self (o : KeyOrder κ) (l : List (κ × α)) (k : κ) (hs : SortedBy o l) : get (erase l k) k = none := by
  induction l with
  | nil => rfl
  | cons hd t ih =>
    obtain ⟨k', v'⟩ := hd
    unfold erase
    by_cases h : k = k'
    · subst h
      simp only [if_true]
      exact get_none_of_lt_head o t k (sorted_tail o hs) (sorted_head_lt o hs)
    · simp only [h, if_false, get_cons]
      exact ih (sorted_tail o hs)

/-- total of `f` over the stored values -/
def sumBy (f : α → Int) (l : List (κ × α)) : Int := (l.map fun p => f p.2).sum

@[simp] theorem sumBy_nil (f : α → Int) : sumBy f ([] : List (κ × α)) = 0 := rfl
@[simp] theorem sumBy_cons (f : α → Int) (p : κ × α) (t : List (κ × α)) : sumBy f (p :: t) = f p.2 + sumBy f t := by
  unfold sumBy; simp

/-- the value `f` sees at key k (0 when absent) -/
def at? (f : α → Int) (l : List (κ × α)) (k : κ) : Int := match get l k with | some v => f v | none => 0

theorem sum_set (o : KeyOrder κ) (f : α → Int) (l : List (κ × α)) (k : κ) (v : α) (hs : SortedBy o l) :
    sumBy f (set l k v) = sumBy f l - at? f l k + f v := by
  induction l with
  | nil => simp [set, at?, get]
  | cons hd t ih =>
    obtain ⟨k', v'⟩ := hd
    unfold set
    by_cases h : k = k'
    · subst h
      simp only [if_true, sumBy_cons, at?, get_cons]
      omega
    · simp only [h, if_false]
      by_cases h2 : compare k k' = .lt
      · simp only [h2, if_true, sumBy_cons]
        have hlt : o.lt k k' := (o.cmp_lt k k').mp h2
        have hnone : get ((k', v') :: t) k = none := by
          apply get_none_of_lt_head o _ _ hs
          intro q hq
          rcases List.mem_cons.mp hq with h3 | h3
          · rw [h3]; exact hlt
          · exact o.trans _ _ _ hlt (sorted_head_lt o hs q h3)
        simp only [at?, hnone]
        omega
      · simp only [h2, if_false, sumBy_cons]
        rw [ih (sorted_tail o hs)]
        simp only [at?, get_cons, h, if_false]
        omega

theorem sum_erase (o : KeyOrder κ) (f : α → Int) (l : List (κ × α)) (k : κ) (hs : SortedBy o l) :
    sumBy f (erase l k) = sumBy f l - at? f l k := by
  induction l with
  | nil => simp [erase, at?, get]
  | cons hd t ih =>
    obtain ⟨k', v'⟩ := hd
    unfold erase
    by_cases h : k = k'
    · subst h
      simp only [if_true, sumBy_cons, at?, get_cons]
      omega
    · simp only [h, if_false, sumBy_cons]
      rw [ih (sorted_tail o hs)]
      simp only [at?, get_cons, h, if_false]
      omega

/-- a sorted list has at most one entry per key: what `get` returns is the entry -/
theorem mem_get (o : KeyOrder κ) (l : List (κ × α)) (p : κ × α) (hs : SortedBy o l) (hp : p ∈ l) :
    get l p.1 = some p.2 := by
  induction l with
  | nil => cases hp
  | cons hd t ih =>
    obtain ⟨k', v'⟩ := hd
    rw [get_cons]
    rcases List.mem_cons.mp hp with h | h
    · rw [h]; simp
    · have hlt := sorted_head_lt o hs p h
      have hne : p.1 ≠ k' := by intro heq; rw [heq] at hlt; exact o.irrefl _ hlt
      simp only [hne, if_false]
      exact ih (sorted_tail o hs) h

end AL

/-! ### the key orders of the model -/

theorem compare_int_lt (a b : Int) : compare a b = .lt ↔ a < b := Int.compare_eq_lt
theorem compare_nat_lt (a b : Nat) : compare a b = .lt ↔ a < b := Nat.compare_eq_lt

theorem compare_int_eq (a b : Int) : compare a b = .eq ↔ a = b := Int.compare_eq_eq
theorem compare_nat_eq (a b : Nat) : compare a b = .eq ↔ a = b := Nat.compare_eq_eq

/-- natural-number keys (denoms, validators) -/
def natKeyOrder : KeyOrder Nat where
  lt a b := a < b
  irrefl a h := by omega
  trans a b c h1 h2 := by omega
  cmp_lt a b := compare_nat_lt a b
  total a b hne hn := by omega

/-- keys of the unbonding queue: (completion time, delegator), ordered as the store orders its byte keys -/
def undelKeyOrder : KeyOrder (Int × Nat) where
  lt p q := p.1 < q.1 ∨ (p.1 = q.1 ∧ p.2 < q.2)
  irrefl p h := by rcases h with h | ⟨_, h⟩ <;> omega
  trans p q r h1 h2 := by
    rcases h1 with h1 | ⟨e1, h1⟩ <;> rcases h2 with h2 | ⟨e2, h2⟩
    · left; omega
    · left; omega
    · left; omega
    · right; constructor <;> omega
  cmp_lt p q := by
    show (compare p.1 q.1).then (compare p.2 q.2) = .lt ↔ _
    constructor
    · intro h
      cases hc : compare p.1 q.1 with
      | lt => exact Or.inl ((compare_int_lt _ _).mp hc)
      | eq =>
        rw [hc] at h
        exact Or.inr ⟨(compare_int_eq _ _).mp hc, (compare_nat_lt _ _).mp h⟩
      | gt => rw [hc] at h; cases h
    · intro h
      rcases h with h | ⟨e, h⟩
      · rw [(compare_int_lt _ _).mpr h]; rfl
      · rw [(compare_int_eq _ _).mpr e]
        exact (compare_nat_lt _ _).mpr h
  total p q hne hn := by
    by_cases he : p.1 = q.1
    · have h2 : p.2 ≠ q.2 := fun h => hne (Prod.ext he h)
      have : ¬ p.2 < q.2 := fun h => hn (Or.inr ⟨he, h⟩)
      right; constructor <;> omega
    · have : ¬ p.1 < q.1 := fun h => hn (Or.inl h)
      left; omega

/-- keys of the delegation store: (delegator, validator, denom), lexicographic -/
def delKeyOrder : KeyOrder (Nat × Nat × Nat) where
  lt p q := p.1 < q.1 ∨ (p.1 = q.1 ∧ (p.2.1 < q.2.1 ∨ (p.2.1 = q.2.1 ∧ p.2.2 < q.2.2)))
  irrefl p h := by rcases h with h | ⟨_, h | ⟨_, h⟩⟩ <;> omega
  trans p q r h1 h2 := by
    rcases h1 with h1 | ⟨e1, h1 | ⟨f1, h1⟩⟩ <;> rcases h2 with h2 | ⟨e2, h2 | ⟨f2, h2⟩⟩
    · left; omega
    · left; omega
    · left; omega
    · left; omega
    · right; exact ⟨by omega, Or.inl (by omega)⟩
    · right; exact ⟨by omega, Or.inl (by omega)⟩
    · left; omega
    · right; exact ⟨by omega, Or.inl (by omega)⟩
    · right; exact ⟨by omega, Or.inr ⟨by omega, by omega⟩⟩
  cmp_lt p q := by
    show (compare p.1 q.1).then ((compare p.2.1 q.2.1).then (compare p.2.2 q.2.2)) = .lt ↔ _
    constructor
    · intro h
      cases hc : compare p.1 q.1 with
      | lt => exact Or.inl ((compare_nat_lt _ _).mp hc)
      | gt => rw [hc] at h; cases h
      | eq =>
        rw [hc] at h
        refine Or.inr ⟨(compare_nat_eq _ _).mp hc, ?_⟩
        simp only [Ordering.then] at h
        cases hd : compare p.2.1 q.2.1 with
        | lt => exact Or.inl ((compare_nat_lt _ _).mp hd)
        | gt => rw [hd] at h; cases h
        | eq => rw [hd] at h; exact Or.inr ⟨(compare_nat_eq _ _).mp hd, (compare_nat_lt _ _).mp h⟩
    · intro h
      rcases h with h | ⟨e, h | ⟨f, h⟩⟩
      · rw [(compare_nat_lt _ _).mpr h]; rfl
      · rw [(compare_nat_eq _ _).mpr e, (compare_nat_lt _ _).mpr h]; rfl
      · rw [(compare_nat_eq _ _).mpr e, (compare_nat_eq _ _).mpr f]
        exact (compare_nat_lt _ _).mpr h
  total p q hne hn := by
    by_cases he : p.1 = q.1
    · have h2 : p.2 ≠ q.2 := fun h => hne (Prod.ext he h)
      have hn2 : ¬ (p.2.1 < q.2.1 ∨ (p.2.1 = q.2.1 ∧ p.2.2 < q.2.2)) := fun h => hn (Or.inr ⟨he, h⟩)
      right
      refine ⟨he.symm, ?_⟩
      by_cases hf : p.2.1 = q.2.1
      · have h3 : p.2.2 ≠ q.2.2 := fun h => h2 (Prod.ext hf h)
        have : ¬ p.2.2 < q.2.2 := fun h => hn2 (Or.inr ⟨hf, h⟩)
        right; constructor <;> omega
      · have : ¬ p.2.1 < q.2.1 := fun h => hn2 (Or.inl h)
        left; omega
    · have : ¬ p.1 < q.1 := fun h => hn (Or.inl h)
      left; omega

end Alliance
