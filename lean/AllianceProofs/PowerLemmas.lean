/-
  `Power` (square-and-multiply with rounding at every multiplication) keeps the unit interval:
  0 ≤ x ≤ 1 → 0 ≤ power x n ≤ 1.  Needed by C09 (a take-rate multiplier never increases a total) and C14.
-/
import AllianceProofs.DecLemmas
namespace Alliance
namespace Dec

/-- the unit interval [0, 1] on raw values -/
def Unit01 (x : Int) : Prop := 0 ≤ x ∧ x ≤ one

theorem mul_unit01 (a b : Int) (ha : Unit01 a) (hb : Unit01 b) : Unit01 (mul a b) := by
  obtain ⟨ha0, ha1⟩ := ha
  obtain ⟨hb0, hb1⟩ := hb
  refine ⟨mul_nonneg a b ha0 hb0, ?_⟩
  have hprod : a * b ≤ 1000000000000000000 * 1000000000000000000 := by
    have := Int.mul_le_mul ha1 hb1 hb0 (by unfold one; decide : (0:Int) ≤ one)
    simpa [one, P] using this
  have hbd : mul a b * 1000000000000000000 ≤ a * b + 500000000000000000 := by
    simpa [P, H] using (mul_bounds a b).2
  show mul a b ≤ 1000000000000000000
  generalize mul a b = m at *
  generalize a * b = q at *
  unfold Dec at *
  omega

theorem one_unit01 : Unit01 one := ⟨by unfold one; decide, Int.le_refl _⟩

theorem powerLoop_unit01 (fuel : Nat) (d tmp : Int) (i : Nat) (hd : Unit01 d) (ht : Unit01 tmp) :
    Unit01 (powerLoop fuel d tmp i).1 ∧ Unit01 (powerLoop fuel d tmp i).2 := by
  induction fuel generalizing d tmp i with
  | zero => exact ⟨hd, ht⟩
  | succ k ih =>
    unfold powerLoop
    split
    · apply ih
      · exact mul_unit01 d d hd hd
      · split
        · exact mul_unit01 tmp d ht hd
        · exact ht
    · exact ⟨hd, ht⟩

/-- 0 ≤ x ≤ 1 → 0 ≤ power x n ≤ 1 -/
theorem power_unit01 (x : Int) (n : Nat) (hx : Unit01 x) : Unit01 (power x n) := by
  unfold power
  split
  · exact one_unit01
  · have h := powerLoop_unit01 64 x one n hx one_unit01
    exact mul_unit01 _ _ h.1 h.2

end Dec
end Alliance
