/-
  SettlesMsg.lean — the settlement theorems of Settles.lean at the level of the messages `MsgUndelegate` and `MsgRedelegate`
  (the statement the trace driver instantiates on observed steps, `theorem.C13`).
-/
import AllianceProofs.Settles
set_option linter.unusedVariables false
namespace Alliance
open Dec

theorem guardE_ok_inv {c : Prop} [Decidable c] {code : String} {w w' : World} {u : Unit}
    (h : guardE c code w = (.ok u, w')) : w' = w := by
  unfold guardE at h
  split at h
  · simp [throwE] at h
  · simp only [pure_apply] at h; injection h with _ e; exact e.symm

theorem asTx_ok_inv {m : M Unit} {w w' : World} (h : asTx m w = (.ok (), w')) : m w = (.ok (), w') := by
  rw [asTx_apply] at h
  rcases hm : m w with ⟨r, w1⟩
  rw [hm] at h
  cases r with
  | error e => simp at h
  | ok u => exact h

theorem msgUndelegate_settles (del : Acct) (v : ValId) (dn : Denom) (amt : Int) (w w' : World)
    (h : step (.undelegate del v dn amt) w = (.ok (), w')) (a : Asset) (hga : getAsset w dn = some a)
    (hst : rewardsStarted a w.time = true) (hd : ModDelegates w v) :
    ∃ cs, w.oracle = (v, cs) :: w'.oracle := by
  have h' := asTx_ok_inv (show asTx (msgUndelegate del v dn amt) w = (.ok (), w') from h)
  unfold msgUndelegate at h'
  obtain ⟨_, w0, hg0, h'⟩ := bind_ok_inv h'
  rw [guardE_ok_inv hg0] at h'
  have h2 : (getAllianceValidator v >>= fun val => undelegate del val dn amt) w = (.ok (), w') := h'
  obtain ⟨val, w1, hg, h3⟩ := bind_ok_inv h2
  obtain ⟨hid, ha, ht, hs, ho⟩ := getAllianceValidator_spec v w w1 val hg
  have hga1 : getAsset w1 dn = some a := by unfold getAsset at *; rw [ha]; exact hga
  have hst1 : rewardsStarted a w1.time = true := by rw [ht]; exact hst
  have hd1 : ModDelegates w1 val.id := by unfold ModDelegates; rw [hs, hid]; exact hd
  obtain ⟨cs, hcs⟩ := undelegate_settles del val dn amt w1 w' h3 a hga1 hst1 hd1
  rw [hid, ho] at hcs
  exact ⟨cs, hcs⟩

theorem msgRedelegate_settles (del : Acct) (s t : ValId) (dn : Denom) (amt : Int) (w w' : World)
    (h : step (.redelegate del s t dn amt) w = (.ok (), w')) (a : Asset) (hga : getAsset w dn = some a)
    (hst : rewardsStarted a w.time = true) (hds : ModDelegates w s) (hdd : ModDelegates w t) :
    ∃ cs1 cs2, w.oracle = (s, cs1) :: (t, cs2) :: w'.oracle := by
  have h' := asTx_ok_inv (show asTx (msgRedelegate del s t dn amt) w = (.ok (), w') from h)
  unfold msgRedelegate at h'
  obtain ⟨_, w0, hg0, h'⟩ := bind_ok_inv h'
  rw [guardE_ok_inv hg0] at h'
  have h2 : (getAllianceValidator s >>= fun sv => getAllianceValidator t >>= fun tv => redelegate del sv tv dn amt) w = (.ok (), w') := h'
  obtain ⟨sv, w1, hg1, h3⟩ := bind_ok_inv h2
  obtain ⟨hid1, ha1, ht1, hs1, ho1⟩ := getAllianceValidator_spec s w w1 sv hg1
  obtain ⟨tv, w2, hg2, h4⟩ := bind_ok_inv h3
  obtain ⟨hid2, ha2, ht2, hs2, ho2⟩ := getAllianceValidator_spec t w1 w2 tv hg2
  have hga2 : getAsset w2 dn = some a := by unfold getAsset at *; rw [ha2, ha1]; exact hga
  have hst2 : rewardsStarted a w2.time = true := by rw [ht2, ht1]; exact hst
  have hds2 : ModDelegates w2 sv.id := by unfold ModDelegates; rw [hs2, hs1, hid1]; exact hds
  have hdd2 : ModDelegates w2 tv.id := by unfold ModDelegates; rw [hs2, hs1, hid2]; exact hdd
  obtain ⟨cs1, cs2, hcs⟩ := redelegate_settles del sv tv dn amt w2 w' h4 a hga2 hst2 hds2 hdd2
  rw [hid1, hid2, ho2, ho1] at hcs
  exact ⟨cs1, cs2, hcs⟩

end Alliance
