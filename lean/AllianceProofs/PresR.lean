/-
  `PresR I m R`: the computation `m` keeps the state invariant `I` whether it succeeds or fails (partial writes
  included), and a returned value satisfies the pure predicate `R`. Values read from the state with `getW` satisfy `I`
  as values, which is how facts about locals ("this asset came from the store, so it is valid") reach later writes.
-/
import AllianceProofs.MonadLemmas
namespace Alliance

structure PresR {α} (I : World → Prop) (m : M α) (R : α → Prop) : Prop where
  run : ∀ w, I w → I (m w).2 ∧ ∀ a, (m w).1 = .ok a → R a

/-- no claim about the returned value -/
abbrev Any {α} : α → Prop := fun _ => True

namespace PresR
variable {α β : Type} {I : World → Prop}

theorem pure {R : α → Prop} (a : α) (h : R a) : PresR I (Pure.pure a : M α) R :=
  ⟨fun _ hw => ⟨hw, fun b hb => by cases hb; exact h⟩⟩

theorem pure_any (a : α) : PresR I (Pure.pure a : M α) Any := pure a trivial

theorem bind {m : M α} {f : α → M β} {R : α → Prop} {S : β → Prop}
    (hm : PresR I m R) (hf : ∀ a, R a → PresR I (f a) S) : PresR I (m >>= f) S := by
  constructor
  intro w hw
  obtain ⟨h1, h2⟩ := hm.run w hw
  simp only [bind_apply]
  rcases hmw : m w with ⟨r, w'⟩
  rw [hmw] at h1 h2
  cases r with
  | ok a => exact (hf a (h2 a rfl)).run w' h1
  | error e => exact ⟨h1, fun b hb => by cases hb⟩

theorem weaken {m : M α} {R R' : α → Prop} (hm : PresR I m R) (h : ∀ a, R a → R' a) : PresR I m R' :=
  ⟨fun w hw => ⟨(hm.run w hw).1, fun a ha => h a ((hm.run w hw).2 a ha)⟩⟩

theorem getW : PresR I getW I := ⟨fun w hw => ⟨hw, fun a ha => by cases ha; exact hw⟩⟩

theorem modifyW (f : World → World) (h : ∀ w, I w → I (f w)) : PresR I (modifyW f) Any :=
  ⟨fun w hw => ⟨h w hw, fun _ _ => trivial⟩⟩

theorem setW (w' : World) (h : I w') : PresR I (setW w') Any := ⟨fun _ _ => ⟨h, fun _ _ => trivial⟩⟩

theorem throwE {R : α → Prop} (c : String) : PresR I (throwE c : M α) R :=
  ⟨fun _ hw => ⟨hw, fun b hb => by cases hb⟩⟩

theorem panicE {R : α → Prop} (c : String) : PresR I (panicE c : M α) R :=
  ⟨fun _ hw => ⟨hw, fun b hb => by cases hb⟩⟩

theorem guardE (c : Prop) [Decidable c] (code : String) : PresR I (guardE c code) (fun _ => ¬ c) := by
  constructor; intro w hw; unfold Alliance.guardE
  by_cases hc : c
  · rw [if_pos hc]; exact ⟨hw, fun b hb => by cases hb⟩
  · rw [if_neg hc]; exact ⟨hw, fun _ _ => hc⟩

theorem guardP (c : Prop) [Decidable c] (code : String) : PresR I (guardP c code) (fun _ => ¬ c) := by
  constructor; intro w hw; unfold Alliance.guardP
  by_cases hc : c
  · rw [if_pos hc]; exact ⟨hw, fun b hb => by cases hb⟩
  · rw [if_neg hc]; exact ⟨hw, fun _ _ => hc⟩

theorem requireSome (x : Option α) (code : String) : PresR I (requireSome x code) (fun a => x = some a) := by
  constructor; intro w hw; unfold Alliance.requireSome
  cases x with
  | none => exact ⟨hw, fun b hb => by cases hb⟩
  | some a => exact ⟨hw, fun b hb => by cases hb; rfl⟩

theorem requireSomeP (x : Option α) : PresR I (requireSomeP x) (fun a => x = some a) := by
  constructor; intro w hw; unfold Alliance.requireSomeP
  cases x with
  | none => exact ⟨hw, fun b hb => by cases hb⟩
  | some a => exact ⟨hw, fun b hb => by cases hb; rfl⟩

theorem guardE_any (c : Prop) [Decidable c] (code : String) : PresR I (Alliance.guardE c code) Any :=
  weaken (guardE c code) (fun _ _ => trivial)
theorem guardP_any (c : Prop) [Decidable c] (code : String) : PresR I (Alliance.guardP c code) Any :=
  weaken (guardP c code) (fun _ _ => trivial)
theorem requireSome_any (x : Option α) (code : String) : PresR I (Alliance.requireSome x code) Any :=
  weaken (requireSome x code) (fun _ _ => trivial)
theorem requireSomeP_any (x : Option α) : PresR I (Alliance.requireSomeP x) Any :=
  weaken (requireSomeP x) (fun _ _ => trivial)
theorem getW_any : PresR I Alliance.getW Any := weaken getW (fun _ _ => trivial)

theorem liftE {R : α → Prop} (x : Except Err α) (h : ∀ a, x = .ok a → R a) : PresR I (liftE x) R := by
  constructor
  intro w hw
  cases x with
  | ok a => exact ⟨hw, fun b hb => by cases hb; exact h a rfl⟩
  | error e => exact ⟨hw, fun b hb => by cases hb⟩

theorem liftE_any (x : Except Err α) : PresR I (Alliance.liftE x) Any := liftE x (fun _ _ => trivial)

theorem ite {c : Prop} [Decidable c] {m1 m2 : M α} {R : α → Prop}
    (h1 : c → PresR I m1 R) (h2 : ¬ c → PresR I m2 R) : PresR I (if c then m1 else m2) R := by
  split
  · exact h1 ‹_›
  · exact h2 ‹_›

theorem forEachM {γ : Type} (f : γ → M Unit) (xs : List γ) (h : ∀ x ∈ xs, PresR I (f x) Any) :
    PresR I (forEachM f xs) Any := by
  induction xs with
  | nil => exact pure () trivial
  | cons x t ih =>
    unfold Alliance.forEachM
    exact bind (h x List.mem_cons_self) (fun _ _ => ih (fun y hy => h y (List.mem_cons_of_mem _ hy)))

theorem forEachM' {γ : Type} (f : γ → M Unit) (xs : List γ) (h : ∀ x, PresR I (f x) Any) :
    PresR I (Alliance.forEachM f xs) Any := forEachM f xs (fun x _ => h x)

/-- monadic left fold with a value invariant `R` on the accumulator -/
theorem foldlM {γ σ : Type} {R : σ → Prop} (f : σ → γ → M σ) (xs : List γ) (init : σ) (hinit : R init)
    (h : ∀ s, R s → ∀ x ∈ xs, PresR I (f s x) R) : PresR I (xs.foldlM f init) R := by
  induction xs generalizing init with
  | nil => exact pure init hinit
  | cons x t ih =>
    rw [List.foldlM_cons]
    exact bind (h init hinit x List.mem_cons_self)
      (fun s hs => ih s hs (fun s' hs' y hy => h s' hs' y (List.mem_cons_of_mem _ hy)))

/-- message-handler wrapper: on failure the pre-state comes back (with a moved response tape) -/
theorem asTx {m : M α} {R : α → Prop} (hm : PresR I m R) (ho : ∀ w o, I w → I { w with oracle := o }) :
    PresR I (asTx m) R := by
  constructor
  intro w hw
  obtain ⟨h1, h2⟩ := hm.run w hw
  rw [asTx_apply]
  rcases hmw : m w with ⟨r, w'⟩
  rw [hmw] at h1 h2
  cases r with
  | ok a => exact ⟨h1, h2⟩
  | error e => exact ⟨ho w _ hw, fun b hb => by cases hb⟩

end PresR
end Alliance
