/-
  CoinsSum.lean — `Coins.add` is additive on per-denom totals; single coins; all-zero coins.
-/
import AllianceProofs.Bank
namespace Alliance

theorem Coins.sumOf_removeZero (cs : Coins) (d : Denom) : Coins.sumOf (Coins.removeZero cs) d = Coins.sumOf cs d := by
  induction cs with
  | nil => rfl
  | cons c t ih =>
    obtain ⟨dc, x⟩ := c
    unfold Coins.removeZero
    split
    · next h => rw [ih, Coins.sumOf_cons]; simp only [h]; split <;> omega
    · rw [Coins.sumOf_cons, Coins.sumOf_cons, ih]

/-- `Coins.Add` adds per-denom totals -/
theorem Coins.sumOf_add (a b : Coins) (d : Denom) : Coins.sumOf (Coins.add a b) d = Coins.sumOf a d + Coins.sumOf b d := by
  fun_induction Coins.add a b
  all_goals simp only [Coins.sumOf_cons, Coins.sumOf_nil, Coins.sumOf_removeZero] at *
  all_goals first | omega | (split <;> omega)

/-- coins that `IsZero` accepts carry nothing of any denom -/
theorem Coins.sumOf_isZero (cs : Coins) (h : Coins.isZero cs = true) (d : Denom) : Coins.sumOf cs d = 0 := by
  induction cs with
  | nil => rfl
  | cons c t ih =>
    unfold Coins.isZero at h ih
    simp only [List.all_cons, Bool.and_eq_true, beq_iff_eq] at h
    rw [Coins.sumOf_cons, ih h.2, h.1]; split <;> rfl

def Coins.Nonneg (cs : Coins) : Prop := ∀ c ∈ cs, 0 ≤ c.2

theorem Coins.sumOf_nonneg (cs : Coins) (h : Coins.Nonneg cs) (d : Denom) : 0 ≤ Coins.sumOf cs d := by
  induction cs with
  | nil => exact Int.le_refl 0
  | cons c t ih =>
    rw [Coins.sumOf_cons]
    have h1 := h c (List.mem_cons_self ..)
    have h2 := ih (fun c' hc' => h c' (List.mem_cons_of_mem _ hc'))
    split <;> omega

end Alliance
