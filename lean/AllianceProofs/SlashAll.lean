/-
  SlashAll.lean — C07 end to end: when `slashUndelegations` succeeds in a state whose index and queue agree (INV-I),
  the queue afterwards is the queue before with EVERY pending, unmatured entry of the slashed validator reduced by
  ⌊f·balance⌋ exactly once, and nothing else changed.
-/
import AllianceProofs.IndexHistory
set_option linter.unusedVariables false
namespace Alliance
open Dec

namespace AL
variable {κ α : Type} [DecidableEq κ] [Ord κ]

/-- in a strictly sorted list, writing an existing key replaces that entry in place -/
theorem set_eq_map_of_mem (o : KeyOrder κ) (l : List (κ × α)) (k : κ) (v : α) (hs : SortedBy o l)
    (hex : ∃ old, get l k = some old) : set l k v = l.map (fun p => if p.1 = k then (k, v) else p) := by
  induction l with
  | nil => obtain ⟨old, h⟩ := hex; cases h
  | cons hd t ih =>
    obtain ⟨k', v'⟩ := hd
    have ht := sorted_tail o hs
    unfold set
    by_cases h : k = k'
    · subst h
      simp only [if_true, List.map_cons]
      congr 1
      -- no other entry carries the key
      have : ∀ p ∈ t, ¬ p.1 = k := fun p hp e => o.irrefl _ (e ▸ sorted_head_lt o hs p hp)
      clear ih hex hs ht
      induction t with
      | nil => rfl
      | cons q r ihr =>
        simp only [List.map_cons, this q (List.mem_cons_self ..), if_false]
        rw [← ihr (fun p hp => this p (List.mem_cons_of_mem _ hp))]
    · have hne : ¬ k' = k := fun e => h e.symm
      obtain ⟨old, hg⟩ := hex
      rw [get_cons] at hg
      simp only [h, if_false] at hg
      have hnlt : ¬ compare k k' = .lt := by
        intro hc
        have hlt := (o.cmp_lt k k').mp hc
        have hm := get_some_mem _ _ _ hg
        exact o.irrefl _ (o.trans _ _ _ hlt (sorted_head_lt o hs _ hm))
      simp only [h, if_false, hnlt, List.map_cons, hne]
      rw [ih ht ⟨old, hg⟩]

/-- lookup commutes with a key-preserving map of the values -/
theorem get_mapKV {β : Type} (l : List (κ × α)) (g : κ → α → β) (k : κ) :
    get (l.map fun p => (p.1, g p.1 p.2)) k = (get l k).map (g k) := by
  induction l with
  | nil => rfl
  | cons hd t ih =>
    obtain ⟨k', v'⟩ := hd
    simp only [List.map_cons, get_cons]
    by_cases h : k = k'
    · subst h; simp only [if_true, Option.map_some]
    · simp only [h, if_false]; exact ih

theorem mapKV_sorted {β : Type} (o : KeyOrder κ) (l : List (κ × α)) (g : κ → α → β) (hs : SortedBy o l) :
    SortedBy o (l.map fun p => (p.1, g p.1 p.2)) := by
  unfold SortedBy at *
  rw [List.pairwise_map]
  exact hs

end AL

/-- an entry after the cut -/
def cutE (f : Dec) (e : Undel) : Undel := { e with amount := e.amount - truncateInt (mulInt f e.amount) }

/-- the entry as it stands once the index keys in `P` have been processed -/
def cutIf (v : ValId) (f : Dec) (now : Time) (P : List UndelIdxKey) (k : UndelKey) (e : Undel) : Undel :=
  if e.val = v ∧ (v, k.1, e.denom, k.2) ∈ P ∧ ¬ k.1 < now then cutE f e else e

def cutKeys (v : ValId) (f : Dec) (now : Time) (P : List UndelIdxKey) (q : List (UndelKey × List Undel)) :
    List (UndelKey × List Undel) := q.map fun p => (p.1, p.2.map (cutIf v f now P p.1))

theorem cutIf_fields (v : ValId) (f : Dec) (now : Time) (P : List UndelIdxKey) (k : UndelKey) (e : Undel) :
    (cutIf v f now P k e).val = e.val ∧ (cutIf v f now P k e).denom = e.denom ∧ (cutIf v f now P k e).del = e.del := by
  unfold cutIf cutE; split <;> exact ⟨rfl, rfl, rfl⟩

theorem sub_zero_entry (e : Undel) : ({ e with amount := e.amount - 0 } : Undel) = e := by
  cases e; simp

/-- one index key applied to its bucket, entry by entry -/
theorem slashBucket_cutIf (v : ValId) (f : Dec) (now : Time) (P : List UndelIdxKey) (kt : Time) (kd : Denom) (kdel : Acct)
    (hnp : (v, kt, kd, kdel) ∉ P) (hnm : ¬ kt < now) (es : List Undel) :
    slashBucket v kd f (es.map (cutIf v f now P (kt, kdel))) = es.map (cutIf v f now (P ++ [(v, kt, kd, kdel)]) (kt, kdel)) := by
  unfold slashBucket
  rw [List.map_map]
  apply List.map_congr_left
  intro e _
  simp only [Function.comp]
  by_cases hm : e.val = v ∧ e.denom = kd
  · obtain ⟨h1, h2⟩ := hm
    have hP : cutIf v f now P (kt, kdel) e = e := by
      unfold cutIf
      rw [if_neg]
      intro hc; exact hnp (by rw [← h2]; exact hc.2.1)
    rw [hP]
    have hcut : slashEntryCut v kd f e = truncateInt (mulInt f e.amount) := by unfold slashEntryCut; simp [h1, h2]
    rw [hcut]
    unfold cutIf cutE
    rw [if_pos]
    exact ⟨h1, by rw [h2]; exact List.mem_append_right _ (List.mem_singleton.mpr rfl), hnm⟩
  · obtain ⟨f1, f2, _⟩ := cutIf_fields v f now P (kt, kdel) e
    have hcut : slashEntryCut v kd f (cutIf v f now P (kt, kdel) e) = 0 := by
      unfold slashEntryCut
      rw [f1, f2]
      by_cases h1 : e.val = v
      · have h2 : ¬ e.denom = kd := fun h2 => hm ⟨h1, h2⟩
        simp [h2]
      · simp [h1]
    rw [hcut, sub_zero_entry]
    unfold cutIf
    have : (e.val = v ∧ (v, kt, e.denom, kdel) ∈ P ++ [(v, kt, kd, kdel)] ∧ ¬ kt < now) ↔
        (e.val = v ∧ (v, kt, e.denom, kdel) ∈ P ∧ ¬ kt < now) := by
      constructor
      · rintro ⟨a, b, c⟩
        refine ⟨a, ?_, c⟩
        rcases List.mem_append.mp b with b | b
        · exact b
        · exfalso
          have := List.mem_singleton.mp b
          injection this with _ h2; injection h2 with _ h3; injection h3 with h3 _
          exact hm ⟨a, h3⟩
      · rintro ⟨a, b, c⟩; exact ⟨a, List.mem_append_left _ b, c⟩
    simp only [this]

/-- entries of OTHER buckets are not affected by adding a key of bucket (kt, kdel) -/
theorem cutIf_other_bucket (v : ValId) (f : Dec) (now : Time) (P : List UndelIdxKey) (kt : Time) (kd : Denom) (kdel : Acct)
    (k : UndelKey) (hk : k ≠ (kt, kdel)) (e : Undel) :
    cutIf v f now (P ++ [(v, kt, kd, kdel)]) k e = cutIf v f now P k e := by
  unfold cutIf
  have : (e.val = v ∧ (v, k.1, e.denom, k.2) ∈ P ++ [(v, kt, kd, kdel)] ∧ ¬ k.1 < now) ↔
      (e.val = v ∧ (v, k.1, e.denom, k.2) ∈ P ∧ ¬ k.1 < now) := by
    constructor
    · rintro ⟨a, b, c⟩
      refine ⟨a, ?_, c⟩
      rcases List.mem_append.mp b with b | b
      · exact b
      · exfalso
        have := List.mem_singleton.mp b
        injection this with _ h2; injection h2 with h2 h3; injection h3 with _ h4
        exact hk (Prod.ext h2 h4)
    · rintro ⟨a, b, c⟩; exact ⟨a, List.mem_append_left _ b, c⟩
  simp only [this]

/-- a matured key changes nothing -/
theorem cutIf_matured (v : ValId) (f : Dec) (now : Time) (P : List UndelIdxKey) (kt : Time) (kd : Denom) (kdel : Acct)
    (hm : kt < now) (k : UndelKey) (e : Undel) :
    cutIf v f now (P ++ [(v, kt, kd, kdel)]) k e = cutIf v f now P k e := by
  by_cases hk : k = (kt, kdel)
  · subst hk
    unfold cutIf
    simp only [hm, not_true_eq_false, and_false, if_false]
  · exact cutIf_other_bucket v f now P kt kd kdel k hk e

theorem cutKeys_sorted (v : ValId) (f : Dec) (now : Time) (P : List UndelIdxKey) (q : List (UndelKey × List Undel))
    (hs : AL.SortedBy undelKeyOrder q) : AL.SortedBy undelKeyOrder (cutKeys v f now P q) :=
  AL.mapKV_sorted undelKeyOrder q (fun k es => es.map (cutIf v f now P k)) hs

theorem cutKeys_get (v : ValId) (f : Dec) (now : Time) (P : List UndelIdxKey) (q : List (UndelKey × List Undel)) (k : UndelKey) :
    AL.get (cutKeys v f now P q) k = (AL.get q k).map (fun es => es.map (cutIf v f now P k)) :=
  AL.get_mapKV q (fun k es => es.map (cutIf v f now P k)) k

theorem cutKeys_nil (v : ValId) (f : Dec) (now : Time) (q : List (UndelKey × List Undel)) : cutKeys v f now [] q = q := by
  unfold cutKeys
  have : ∀ (k : UndelKey) (e : Undel), cutIf v f now [] k e = e := by
    intro k e; unfold cutIf; simp
  rw [show (fun p : UndelKey × List Undel => (p.1, p.2.map (cutIf v f now [] p.1))) = id from
    funext fun p => by
      cases p with
      | mk a b =>
        have : List.map (cutIf v f now [] a) b = b := by
          rw [show cutIf v f now [] a = id from funext (this a)]; simp
        simp [this]]
  simp

/-- the sends of one key leave queue, index and clock alone -/
theorem sends_frame (v : ValId) (kd : Denom) (f : Dec) (bucket : List Undel) (w w' : World) (r : Except Err Unit)
    (h : forEachM (fun (e : Undel) =>
          if e.val == v && e.denom == kd then sendCoins accModule accFee (Coins.single e.denom (slashEntryCut v kd f e))
          else pure ()) bucket w = (r, w')) :
    w'.undelQueue = w.undelQueue ∧ w'.undelIndex = w.undelIndex ∧ w'.time = w.time := by
  have h1 : FrameUndel.Fr (forEachM (fun (e : Undel) =>
          if e.val == v && e.denom == kd then sendCoins accModule accFee (Coins.single e.denom (slashEntryCut v kd f e))
          else pure ()) bucket) := by
    apply FrameUndel.forEachM; intro e; split
    · exact FrameUndel.sendCoins _ _ _
    · exact FrameUndel.pure _
  have h2 : FrameStaking.Fr (forEachM (fun (e : Undel) =>
          if e.val == v && e.denom == kd then sendCoins accModule accFee (Coins.single e.denom (slashEntryCut v kd f e))
          else pure ()) bucket) := by
    apply FrameStaking.forEachM; intro e; split
    · exact FrameStaking.sendCoins _ _ _
    · exact FrameStaking.pure _
  have a := h1.frame w; have b := h2.frame w
  rw [h] at a b
  simp only [FrameUndel.π, FrameStaking.π, Prod.mk.injEq] at a b
  exact ⟨a.1, a.2, b.2.1⟩

/-- the loop of `slashUndelegations`, key by key: once the keys `P` have been processed the queue is the original one
    with exactly the unmatured entries named by `P` cut — each once -/
theorem slashLoop_exact (v : ValId) (f : Dec) (now : Time) (q0 : List (UndelKey × List Undel))
    (hs : AL.SortedBy undelKeyOrder q0) (ks : List UndelIdxKey) :
    ∀ (P : List UndelIdxKey) (w w' : World),
    (∀ k ∈ ks, k.1 = v ∧ ∃ es, AL.get q0 (k.2.1, k.2.2.2) = some es) →
    (P ++ ks).Nodup →
    w.undelQueue = cutKeys v f now P q0 → w.time = now →
    forEachM (fun (k : UndelIdxKey) => do
      let w ← getW
      let (_, completion, d, del) := k
      if completion < w.time then pure () else do
      let bucket := (AL.get w.undelQueue (completion, del)).getD []
      forEachM (fun (e : Undel) =>
        if e.val == v && e.denom == d then sendCoins accModule accFee (Coins.single e.denom (slashEntryCut v d f e))
        else pure ()) bucket
      modifyW fun w => { w with undelQueue := AL.set w.undelQueue (completion, del) (slashBucket v d f bucket) }) ks w = (.ok (), w') →
    w'.undelQueue = cutKeys v f now (P ++ ks) q0 ∧ w'.time = now ∧ w'.undelIndex = w.undelIndex := by
  induction ks with
  | nil =>
    intro P w w' _ _ hq ht h
    unfold forEachM at h
    simp only [pure_apply, Prod.mk.injEq] at h
    rw [← h.2, List.append_nil]; exact ⟨hq, ht, rfl⟩
  | cons k t ih =>
    intro P w w' hk hnd hq ht h
    obtain ⟨kv, kt, kd, kdel⟩ := k
    have hkv : v = kv := (hk _ (List.mem_cons_self ..)).1.symm
    subst hkv
    obtain ⟨es0, hes0⟩ := (hk _ (List.mem_cons_self ..)).2
    simp only at hes0
    have hnp : (v, kt, kd, kdel) ∉ P := by
      intro hin
      have := List.nodup_append.mp hnd
      exact this.2.2 _ hin _ (List.mem_cons_self ..) rfl
    have hnd' : ((P ++ [(v, kt, kd, kdel)]) ++ t).Nodup := by rw [List.append_assoc]; exact hnd
    have hk' : ∀ k ∈ t, k.1 = v ∧ ∃ es, AL.get q0 (k.2.1, k.2.2.2) = some es := fun k hkt => hk k (List.mem_cons_of_mem _ hkt)
    have happ : P ++ (v, kt, kd, kdel) :: t = (P ++ [(v, kt, kd, kdel)]) ++ t := by rw [List.append_assoc]; rfl
    unfold forEachM at h
    simp only [bind_apply, getW_apply] at h
    by_cases hm : kt < w.time
    · simp only [hm, if_true, pure_apply] at h
      have hq' : w.undelQueue = cutKeys v f now (P ++ [(v, kt, kd, kdel)]) q0 := by
        rw [hq]; unfold cutKeys
        apply List.map_congr_left; intro p _
        congr 1
        apply List.map_congr_left; intro e _
        exact (cutIf_matured v f now P kt kd kdel (by rw [← ht]; exact hm) p.1 e).symm
      rw [happ]
      exact ih _ w w' hk' hnd' hq' ht h
    · simp only [hm, if_false, bind_apply] at h
      rcases hsend : forEachM (fun (e : Undel) =>
          if e.val == v && e.denom == kd then sendCoins accModule accFee (Coins.single e.denom (slashEntryCut v kd f e))
          else pure ()) ((AL.get w.undelQueue (kt, kdel)).getD []) w with ⟨r, w1⟩
      rw [hsend] at h
      obtain ⟨f1, f2, f3⟩ := sends_frame v kd f _ w w1 r hsend
      cases r with
      | error e => simp only at h; cases h
      | ok u =>
        simp only [modifyW_apply] at h
        have hnm : ¬ kt < now := by rw [← ht]; exact hm
        have hget : AL.get w.undelQueue (kt, kdel) = some (es0.map (cutIf v f now P (kt, kdel))) := by
          rw [hq, cutKeys_get, hes0]; rfl
        have hq' : AL.set w1.undelQueue (kt, kdel) (slashBucket v kd f ((AL.get w.undelQueue (kt, kdel)).getD [])) =
            cutKeys v f now (P ++ [(v, kt, kd, kdel)]) q0 := by
          rw [f1, hget, Option.getD_some, slashBucket_cutIf v f now P kt kd kdel hnp hnm, hq]
          rw [AL.set_eq_map_of_mem undelKeyOrder _ _ _ (cutKeys_sorted v f now P q0 hs)
            ⟨_, by rw [cutKeys_get, hes0]; rfl⟩]
          unfold cutKeys
          rw [List.map_map]
          apply List.map_congr_left; intro p hp
          simp only [Function.comp]
          by_cases hpk : p.1 = (kt, kdel)
          · simp only [hpk, if_true]
            have : AL.get q0 p.1 = some p.2 := AL.mem_get undelKeyOrder q0 p hs hp
            rw [hpk, hes0] at this
            injection this with this
            rw [this]
          · simp only [hpk, if_false]
            congr 1
            apply List.map_congr_left; intro e _
            exact (cutIf_other_bucket v f now P kt kd kdel p.1 hpk e).symm
        rw [happ]
        have := ih _ _ w' hk' hnd' hq' (by show w1.time = now; rw [f3]; exact ht) h
        exact ⟨this.1, this.2.1, by rw [this.2.2]; exact f2⟩

/-- what `slashUndelegations v f` does to one entry of the bucket completing at `t` -/
def slashedEntry (v : ValId) (f : Dec) (now : Time) (t : Time) (e : Undel) : Undel :=
  if e.val = v ∧ ¬ t < now then cutE f e else e

/-- C07, all entries at once: in a state where index and queue agree (every reachable one: `reach_ix`), a successful
    `slashUndelegations v f` leaves the queue with EVERY entry of validator `v` that has not matured cut by ⌊f·amount⌋ —
    exactly once, however many index keys lead to its bucket — and every other entry, the bucket structure and the index
    untouched -/
theorem slashUndelegations_exact (v : ValId) (f : Dec) (w w' : World) (hix : IX w)
    (h : slashUndelegations v f w = (.ok (), w')) :
    w'.undelQueue = w.undelQueue.map (fun p => (p.1, p.2.map (slashedEntry v f w.time p.1.1))) ∧
    w'.undelIndex = w.undelIndex := by
  unfold slashUndelegations at h
  simp only [bind_apply, getW_apply] at h
  have hks : ∀ k ∈ w.undelIndex.filter (fun (k : UndelIdxKey) => k.1 == v), k.1 = v ∧ ∃ es, AL.get w.undelQueue (k.2.1, k.2.2.2) = some es := by
    intro k hk
    simp only [List.mem_filter, beq_iff_eq] at hk
    obtain ⟨es, hes, _⟩ := hix.witness k hk.1
    exact ⟨hk.2, es, hes⟩
  have hnd : ([] ++ w.undelIndex.filter (fun (k : UndelIdxKey) => k.1 == v)).Nodup := by
    rw [List.nil_append]
    exact (sortedK_nodup undelIdxOrder _ hix.isorted).filter _
  obtain ⟨r1, _, r3⟩ := slashLoop_exact v f w.time w.undelQueue hix.qsorted _ [] w w' hks hnd
    (cutKeys_nil v f w.time w.undelQueue).symm rfl h
  refine ⟨?_, r3⟩
  rw [r1, List.nil_append]
  unfold cutKeys
  apply List.map_congr_left; intro p hp
  congr 1
  apply List.map_congr_left; intro e he
  unfold cutIf slashedEntry
  have hcov := hix.covered p hp e he
  by_cases hv : e.val = v
  · have : (v, p.1.1, e.denom, p.1.2) ∈ w.undelIndex.filter (fun (k : UndelIdxKey) => k.1 == v) := by
      simp only [List.mem_filter, beq_self_eq_true, and_true]
      rw [← hv]; exact hcov
    simp only [hv, this, true_and]
  · simp only [hv, false_and]

end Alliance
