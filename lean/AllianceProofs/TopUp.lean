import AllianceProofs.ValueError
import AllianceProofs.Bank
import AllianceProofs.RedelHistory
import AllianceModel.EndBlock
set_option linter.unusedVariables false
namespace Alliance
open Dec

theorem topup_ident (ds i T amt D : Int) :
    (ds + i) * (T + amt) * D - (ds * T + amt * D) * (D + i) = (amt * D - T * i) * (ds - D) := by
  simp only [Int.add_mul, Int.mul_add, Int.sub_mul, Int.mul_sub]
  have m1 : ds * T * D = ds * T * D := rfl
  have m2 : i * T * D = T * i * D := by ac_rfl
  have m3 : ds * amt * D = amt * D * ds := by ac_rfl
  have m4 : i * amt * D = amt * D * i := by ac_rfl
  have m5 : ds * T * i = T * i * ds := by ac_rfl
  rw [m2, m3, m4, m5]
  omega

/-- C10, the arithmetic of a top-up in x/staking's share model: the module holds `ds` of the validator's `D` delegator shares
    backed by `T` tokens; delegating `amt` more issues `i = ⌊D·amt/T⌋` shares. As exact rationals the module's stake value
    moves from ds·T/D to (ds+i)·(T+amt)/(D+i), which lies in (ds·T/D + amt − T/(D+i), ds·T/D + amt]: the top-up is worth what
    was paid, short by less than the value of one (10⁻¹⁸) share — the truncation of the issued shares goes to the other
    delegators. Stated cross-multiplied by D·(D+i). -/
theorem stake_value_after_top_up (ds T amt D : Int) (hT : 0 < T) (hD : 0 < D) (hds0 : 0 ≤ ds) (hds : ds ≤ D) (hamt : 0 ≤ amt) :
    let i := (D * amt) / T
    (ds + i) * (T + amt) * D ≤ (ds * T + amt * D) * (D + i) ∧
    (ds * T + amt * D) * (D + i) < (ds + i) * (T + amt) * D + T * D := by
  intro i
  have h0 : 0 ≤ D * amt := Int.mul_nonneg (by omega) hamt
  have f1 : i * T ≤ D * amt := Int.ediv_mul_le _ (by omega)
  have f2 : D * amt < i * T + T := by
    have := Int.lt_ediv_add_one_mul_self (D * amt) hT
    have e : ((D * amt) / T + 1) * T = i * T + T := by rw [Int.add_mul, Int.one_mul]
    rw [e] at this; exact this
  have id := topup_ident ds i T amt D
  -- r := amt*D - T*i ∈ [0, T)
  have e1 : amt * D = D * amt := Int.mul_comm ..
  have e2 : T * i = i * T := Int.mul_comm ..
  have hr0 : 0 ≤ amt * D - T * i := by rw [e1, e2]; omega
  have hr1 : amt * D - T * i < T := by rw [e1, e2]; omega
  -- (ds - D) ∈ [-D, 0]
  have p1 : (amt * D - T * i) * (ds - D) ≤ 0 := by
    have := Int.mul_nonneg hr0 (show 0 ≤ D - ds by omega)
    have e : (amt * D - T * i) * (D - ds) = -((amt * D - T * i) * (ds - D)) := by
      rw [show D - ds = -(ds - D) by omega, Int.mul_neg]
    rw [e] at this; omega
  have p2 : -(T * D) < (amt * D - T * i) * (ds - D) := by
    -- (amt*D - T*i) * (D - ds) ≤ (amt*D - T*i) * D < T * D
    have a1 : (amt * D - T * i) * (D - ds) ≤ (amt * D - T * i) * D :=
      Int.mul_le_mul_of_nonneg_left (by omega) hr0
    have a2 : (amt * D - T * i) * D < T * D := Int.mul_lt_mul_of_pos_right hr1 hD
    have e : (amt * D - T * i) * (D - ds) = -((amt * D - T * i) * (ds - D)) := by
      rw [show D - ds = -(ds - D) by omega, Int.mul_neg]
    rw [e] at a1; omega
  constructor <;> omega

/-- what a successful `stakingKeeper.Delegate` of the module account writes: tokens + amt, shares + issued for both the
    validator and the module's delegation, with issued = ⌊D·amt/T⌋ (1:1 for a validator without shares) -/
theorem stakingDelegate_record (v : ValId) (snap : SVal) (amt : Int) :
    Hoare (fun _ => True) (stakingDelegate v snap amt) (fun _ w' => ∃ live0 : Option Dec,
      getSVal w' v = some { snap with
        tokens := snap.tokens + amt
        delShares := snap.delShares + (if snap.delShares = 0 then ofInt amt else quoInt (mulInt snap.delShares amt) snap.tokens)
        modShares := some (live0.getD 0 + (if snap.delShares = 0 then ofInt amt else quoInt (mulInt snap.delShares amt) snap.tokens)) }) := by
  unfold stakingDelegate
  apply Hoare.bind (R := fun _ _ => True) Hoare.triv; intro _
  apply Hoare.getW_bind; intro w0 _
  try dsimp only []
  apply Hoare.bind (R := fun _ _ => True) Hoare.triv; intro _
  apply Hoare.bind (R := fun _ _ => True) Hoare.triv; intro _
  apply Hoare.getW_bind; intro w2 _
  try dsimp only []
  apply Hoare.ite
  · intro _
    apply Hoare.bind (R := fun _ _ => True) Hoare.triv; intro _
    exact Hoare.panicE _
  · intro _
    apply Hoare.bind (R := fun _ w' => getSVal w' v = some { snap with
        tokens := snap.tokens + amt
        delShares := snap.delShares + (if snap.delShares = 0 then ofInt amt else quoInt (mulInt snap.delShares amt) snap.tokens)
        modShares := some ((((getSVal w2 v).getD snap).modShares).getD 0 + (if snap.delShares = 0 then ofInt amt else quoInt (mulInt snap.delShares amt) snap.tokens)) })
    · unfold setSVal
      refine Hoare.modifyW _ (fun w _ => ?_)
      unfold getSVal
      simp only [AL.get_set_eq]
    · intro _
      unfold queueRebalance
      refine Hoare.modifyW _ (fun w hw => ⟨_, hw⟩)

/-- the same, with the issued shares written as the model (and x/staking) computes them -/
theorem top_up_value (snap : SVal) (ds : Dec) (amt : Int) (hT : 0 < snap.tokens) (hD : 0 < snap.delShares)
    (hds0 : 0 ≤ ds) (hds : ds ≤ snap.delShares) (hamt : 0 ≤ amt) :
    let i := quoInt (mulInt snap.delShares amt) snap.tokens
    (ds + i) * (snap.tokens + amt) * snap.delShares ≤ (ds * snap.tokens + amt * snap.delShares) * (snap.delShares + i) ∧
    (ds * snap.tokens + amt * snap.delShares) * (snap.delShares + i) <
      (ds + i) * (snap.tokens + amt) * snap.delShares + snap.tokens * snap.delShares := by
  intro i
  have hi : i = (snap.delShares * amt) / snap.tokens := by
    show quoInt (mulInt snap.delShares amt) snap.tokens = _
    unfold quoInt mulInt
    exact Int.tdiv_eq_ediv_of_nonneg (Int.mul_nonneg (by unfold Dec at *; omega) hamt)
  rw [hi]
  exact stake_value_after_top_up ds snap.tokens amt snap.delShares hT hD hds0 hds hamt

end Alliance
