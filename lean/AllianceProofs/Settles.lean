/-
  Settles.lean — C13: a successful claim SETTLES THE VALIDATOR first.  Where the module account has a native delegation to
  the validator, `ClaimValidatorRewards` withdraws what x/distribution holds for it — exactly one response is consumed from
  the tape, the one for this validator — whatever the validator's status; and a successful `ClaimDelegationRewards` of a
  started asset does that and consumes nothing else.  (The seeded change C13-g, an early return for validators outside
  the active set, is the negation of this statement.)
-/
import AllianceProofs.FrameOB
import AllianceProofs.Bank
import AllianceProofs.FrameStaking
import AllianceProofs.AssetsValid
set_option linter.unusedVariables false
namespace Alliance
open Dec

/-- the module account has a native delegation to validator `v` -/
def ModDelegates (w : World) (v : ValId) : Prop :=
  ∃ sv, AL.get w.staking.vals v = some sv ∧ sv.modShares.isSome = true

theorem claimValidatorRewards_withdraws (val : AVal) (w w' : World) (v' : AVal)
    (h : claimValidatorRewards val w = (.ok v', w')) (hd : ModDelegates w val.id) :
    ∃ cs, w.oracle = (val.id, cs) :: w'.oracle := by
  obtain ⟨sv, hsv, hms⟩ := hd
  unfold claimValidatorRewards at h
  simp only [bind_apply, getW_apply, hsv, hms, Bool.not_true, Bool.false_eq_true, if_false] at h
  unfold withdrawRewards at h
  simp only [bind_apply, getW_apply] at h
  rcases ho : w.oracle with _ | ⟨⟨vo, cs⟩, rest⟩
  · rw [ho] at h; simp [throwE] at h
  · rw [ho] at h
    simp only [bind_apply] at h
    by_cases hv : vo ≠ val.id
    · simp [guardE, hv, throwE] at h
    · have hv' : vo = val.id := by simpa using hv
      subst hv'
      simp only [guardE, ne_eq, not_true_eq_false, if_false, pure_apply, modifyW_apply] at h
      rcases hs : sendCoins accDistr accModule cs { w with oracle := rest } with ⟨r1, w1⟩
      have f1 := (FrameOB.sendCoins accDistr accModule cs).frame { w with oracle := rest }
      rw [hs] at f1 h
      cases r1 with
      | error e => simp at h
      | ok u =>
        simp only [FrameOB.π, Prod.mk.injEq] at f1
        by_cases hz : Coins.isZero cs = true
        · simp only [hz, if_true, pure_apply] at h
          injection h with _ h2; subst h2
          exact ⟨cs, by rw [f1.1]⟩
        · simp only [hz, Bool.false_eq_true, if_false] at h
          have f2 := (FrameOB.addAssetsToRewardPool val cs).frame w1
          rw [h] at f2
          simp only [FrameOB.π, Prod.mk.injEq] at f2
          exact ⟨cs, by rw [f2.1, f1.1]⟩

/-- a successful `ClaimDelegationRewards` of a started asset consumes exactly the response for its validator -/
theorem claimDelegationRewards_settles (del : Acct) (val : AVal) (dn : Denom) (w w' : World) (r : Coins × AVal)
    (h : claimDelegationRewards del val dn w = (.ok r, w')) (a : Asset) (hga : getAsset w dn = some a)
    (hst : rewardsStarted a w.time = true) (hd : ModDelegates w val.id) :
    ∃ cs, w.oracle = (val.id, cs) :: w'.oracle := by
  unfold claimDelegationRewards at h
  simp only [bind_apply, getW_apply, hga, hst, Bool.not_true, Bool.false_eq_true, if_false] at h
  rcases hgd : getDelegation w del val.id dn with _ | dl
  · rw [hgd] at h; simp [throwE] at h
  · rw [hgd] at h
    simp only [bind_apply] at h
    rcases h1 : claimValidatorRewards val w with ⟨r1, w1⟩
    rw [h1] at h
    cases r1 with
    | error e => simp at h
    | ok val1 =>
      obtain ⟨cs, hcs⟩ := claimValidatorRewards_withdraws val w w1 val1 h1 hd
      simp only [getW_apply] at h
      cases hc : calculateDelegationRewards w1 dl val1.info a with
      | error e => rw [hc] at h; simp [liftE_error] at h
      | ok cr =>
        rw [hc] at h
        simp only [liftE_ok, setDelegation, modifyW_apply] at h
        rcases hs : sendCoins accPool del cr.1 { w1 with dels := AL.set w1.dels (dl.del, dl.val, dl.denom) { dl with hist := cr.2, lastClaimHeight := w1.height } } with ⟨r2, w2⟩
        have f1 := (FrameOB.sendCoins accPool del cr.1).frame { w1 with dels := AL.set w1.dels (dl.del, dl.val, dl.denom) { dl with hist := cr.2, lastClaimHeight := w1.height } }
        rw [hs] at h f1
        cases r2 with
        | error e => simp at h
        | ok u =>
          simp only [pure_apply] at h
          injection h with _ h4; subst h4
          simp only [FrameOB.π, Prod.mk.injEq] at f1
          exact ⟨cs, by rw [f1.1]; exact hcs⟩

theorem getAllianceValidator_spec (v : ValId) (w w0 : World) (val : AVal) (h : getAllianceValidator v w = (.ok val, w0)) :
    val.id = v ∧ w0.assets = w.assets ∧ w0.time = w.time ∧ w0.staking = w.staking ∧ w0.oracle = w.oracle := by
  unfold getAllianceValidator at h
  simp only [bind_apply, getW_apply] at h
  rcases hs : AL.get w.staking.vals v with _ | sv
  · rw [hs] at h; simp [throwE] at h
  · rw [hs] at h
    simp only at h
    rcases hi : AL.get w.vals v with _ | info
    · rw [hi] at h
      simp only [bind_apply, setValInfo, modifyW_apply, pure_apply] at h
      injection h with h1 h2; injection h1 with h1; subst h1 h2
      exact ⟨rfl, rfl, rfl, rfl, rfl⟩
    · rw [hi] at h
      simp only [pure_apply] at h
      injection h with h1 h2; injection h1 with h1; subst h1 h2
      exact ⟨rfl, rfl, rfl, rfl, rfl⟩

/-- C13 at the level of the message: a successful `MsgClaimDelegationRewards` for a started asset on a validator the module
    account delegates to withdraws what x/distribution holds for that validator — one response, this validator's —
    whatever the validator's status -/
theorem msgClaim_settles (del : Acct) (v : ValId) (dn : Denom) (w w' : World)
    (h : step (.claim del v (some dn)) w = (.ok (), w')) (a : Asset) (hga : getAsset w dn = some a)
    (hst : rewardsStarted a w.time = true) (hd : ModDelegates w v) :
    ∃ cs, w.oracle = (v, cs) :: w'.oracle := by
  have h : asTx (msgClaim del v (some dn)) w = (.ok (), w') := h
  rw [asTx_apply] at h
  unfold msgClaim at h
  simp only [bind_apply] at h
  rcases hg : getAllianceValidator v w with ⟨r0, w0⟩
  rw [hg] at h
  cases r0 with
  | error e => simp at h
  | ok val =>
    obtain ⟨hid, ha, ht, hs, ho⟩ := getAllianceValidator_spec v w w0 val hg
    simp only at h
    rcases hc : claimDelegationRewards del val dn w0 with ⟨r1, w1⟩
    rw [hc] at h
    cases r1 with
    | error e => simp at h
    | ok r =>
      simp only [pure_apply] at h
      injection h with _ h2; subst h2
      have hga0 : getAsset w0 dn = some a := by unfold getAsset at *; rw [ha]; exact hga
      have hst0 : rewardsStarted a w0.time = true := by rw [ht]; exact hst
      have hd0 : ModDelegates w0 val.id := by unfold ModDelegates; rw [hs, hid]; exact hd
      obtain ⟨cs, hcs⟩ := claimDelegationRewards_settles del val dn w0 w1 r hc a hga0 hst0 hd0
      rw [hid, ho] at hcs
      exact ⟨cs, hcs⟩

theorem bind_ok_inv {α β} {m : M α} {f : α → M β} {w w' : World} {b : β} (h : (m >>= f) w = (.ok b, w')) :
    ∃ a w1, m w = (.ok a, w1) ∧ f a w1 = (.ok b, w') := by
  simp only [bind_apply] at h
  rcases hm : m w with ⟨r, w1⟩
  rw [hm] at h
  cases r with
  | error e => simp at h
  | ok a => exact ⟨a, w1, rfl, h⟩

/-- stake arriving on a validator: `Delegate` settles the validator first, in both branches (an existing position claims,
    a new one settles the validator directly) -/
theorem settleBeforeDeposit_settles (del : Acct) (val : AVal) (dn : Denom) (w w' : World) (v' : AVal)
    (h : settleBeforeDeposit del val dn w = (.ok v', w')) (a : Asset) (hga : getAsset w dn = some a)
    (hst : rewardsStarted a w.time = true) (hd : ModDelegates w val.id) :
    ∃ cs, w.oracle = (val.id, cs) :: w'.oracle := by
  unfold settleBeforeDeposit at h
  simp only [bind_apply, getW_apply] at h
  rcases hgd : getDelegation w del val.id dn with _ | dl
  · rw [hgd] at h
    exact claimValidatorRewards_withdraws val w w' v' h hd
  · rw [hgd] at h
    simp only [bind_apply] at h
    rcases hc : claimDelegationRewards del val dn w with ⟨r1, w1⟩
    rw [hc] at h
    cases r1 with
    | error e => simp at h
    | ok r =>
      simp only [pure_apply] at h
      injection h with _ h2; subst h2
      exact claimDelegationRewards_settles del val dn w w1 r hc a hga hst hd

/-- C13, not retroactive: a successful `Keeper.Delegate` into a started asset on a validator the module account delegates to
    consumes exactly the response for that validator — whatever x/distribution held for it was withdrawn and indexed BEFORE
    the new shares were issued (the withdrawal is the first thing after the deposit's transfer), whatever the validator's
    status -/
theorem delegate_settles (del : Acct) (val : AVal) (dn : Denom) (amt : Int) (w w' : World)
    (h : delegate del val dn amt w = (.ok (), w')) (a : Asset) (hga : getAsset w dn = some a)
    (hst : rewardsStarted a w.time = true) (hd : ModDelegates w val.id) :
    ∃ cs, w.oracle = (val.id, cs) :: w'.oracle := by
  unfold delegate at h
  obtain ⟨w0, w0', hg, h⟩ := bind_ok_inv h
  simp only [getW_apply] at hg
  injection hg with hg1 hg2; injection hg1 with hg1; subst hg1 hg2
  rw [hga] at h
  simp only at h
  obtain ⟨_, w1, hs, h⟩ := bind_ok_inv h
  have o1 := (FrameOB.sendCoins del accModule (Coins.single dn amt)).frame w
  have s1 := (FrameStaking.sendCoins del accModule (Coins.single dn amt)).frame w
  have a1 := (sendCoins_frame del accModule (Coins.single dn amt)).frame w
  rw [hs] at o1 s1 a1
  simp only [FrameOB.π, FrameStaking.π, Prod.mk.injEq] at o1 s1
  obtain ⟨val1, w2, h1, h⟩ := bind_ok_inv h
  have hga1 : getAsset w1 dn = some a := by unfold getAsset at *; rw [a1]; exact hga
  have hst1 : rewardsStarted a w1.time = true := by rw [s1.2.1]; exact hst
  have hd1 : ModDelegates w1 val.id := by unfold ModDelegates; rw [s1.1]; exact hd
  obtain ⟨cs, hcs⟩ := settleBeforeDeposit_settles del val dn w1 w2 val1 h1 a hga1 hst1 hd1
  have fr : FrameOB.Fr (do
      let newDelShares ← upsertDelegationWithNewTokens del val1 dn amt a
      let newValShares ← liftE (validatorShares a amt)
      setAsset { a with totalTokens := a.totalTokens + amt, totalValShares := a.totalValShares + newValShares }
      let dsc ← liftE (mkDecCoins dn newDelShares)
      let vsc ← liftE (mkDecCoins dn newValShares)
      let _ ← updateValidatorShares val1 dsc vsc true
      queueRebalance) := by
    apply FrameOB.bind (by simp only [obframe]); intro _
    apply FrameOB.bind (FrameOB.liftE _); intro _
    apply FrameOB.bind (by simp only [obframe]); intro _
    apply FrameOB.bind (FrameOB.liftE _); intro _
    apply FrameOB.bind (FrameOB.liftE _); intro _
    apply FrameOB.bind (by simp only [obframe]); intro _
    simp only [obframe]
  have o2 := fr.frame w2
  rw [h] at o2
  simp only [FrameOB.π, Prod.mk.injEq] at o2
  exact ⟨cs, by rw [o2.1, ← hcs, o1.1]⟩

/-- stake leaving a validator: a successful `Keeper.Undelegate` of a started asset settles the validator first -/
theorem undelegate_settles (del : Acct) (val : AVal) (dn : Denom) (amt : Int) (w w' : World)
    (h : undelegate del val dn amt w = (.ok (), w')) (a : Asset) (hga : getAsset w dn = some a)
    (hst : rewardsStarted a w.time = true) (hd : ModDelegates w val.id) :
    ∃ cs, w.oracle = (val.id, cs) :: w'.oracle := by
  unfold undelegate at h
  obtain ⟨w0, w0', hg, h⟩ := bind_ok_inv h
  simp only [getW_apply] at hg
  injection hg with hg1 hg2; injection hg1 with hg1
  rw [← hg2, ← hg1, hga] at h
  simp only at h
  obtain ⟨_, w1, hgu, h⟩ := bind_ok_inv h
  have e1 : w1 = w := by
    unfold guardE at hgu
    split at hgu
    · simp [throwE] at hgu
    · simp only [pure_apply] at hgu; injection hgu with _ e; exact e.symm
  rw [e1] at h
  obtain ⟨r, w2, hc, h⟩ := bind_ok_inv h
  obtain ⟨cs, hcs⟩ := claimDelegationRewards_settles del val dn w w2 r hc a hga hst hd
  have fr : ∀ (val1 : AVal), FrameOB.Fr (do
      let w ← getW
      let dl : Delegation := (getDelegation w del val1.id dn).getD default
      let sharesToUndelegate ← liftE (validateDelegatedAmount dl.shares amt val1.info a)
      let coinsToUndelegate ← liftE (delegationTokensWithShares sharesToUndelegate val1.info a)
      guardE (amt > coinsToUndelegate) "insufficient_tokens"
      let valSharesToRemove ← liftE (validatorShares a amt)
      let a' : Asset := { a with totalTokens := a.totalTokens - amt,
                                 totalValShares := a.totalValShares - valSharesToRemove }
      setAsset a'
      reduceDelegationShares del val1.id dn sharesToUndelegate dl
      let dsc ← liftE (mkDecCoins dn sharesToUndelegate)
      let vsc ← liftE (mkDecCoins dn valSharesToRemove)
      let val2 ← updateValidatorShares val1 dsc vsc false
      clearDustDelegation del val2 a'
      let _ ← queueUndelegation del val2.id dn amt
      queueRebalance) := by
    intro val1
    apply FrameOB.bind FrameOB.getW; intro _
    apply FrameOB.bind (FrameOB.liftE _); intro _
    apply FrameOB.bind (FrameOB.liftE _); intro _
    apply FrameOB.bind (FrameOB.guardE _ _); intro _
    apply FrameOB.bind (FrameOB.liftE _); intro _
    apply FrameOB.bind (by simp only [obframe]); intro _
    apply FrameOB.bind (by simp only [obframe]); intro _
    apply FrameOB.bind (FrameOB.liftE _); intro _
    apply FrameOB.bind (FrameOB.liftE _); intro _
    apply FrameOB.bind (by simp only [obframe]); intro _
    apply FrameOB.bind (by simp only [obframe]); intro _
    apply FrameOB.bind (by simp only [obframe]); intro _
    simp only [obframe]
  have o2 := (fr r.2).frame w2
  have h : (do
      let w ← getW
      let dl : Delegation := (getDelegation w del r.2.id dn).getD default
      let sharesToUndelegate ← liftE (validateDelegatedAmount dl.shares amt r.2.info a)
      let coinsToUndelegate ← liftE (delegationTokensWithShares sharesToUndelegate r.2.info a)
      guardE (amt > coinsToUndelegate) "insufficient_tokens"
      let valSharesToRemove ← liftE (validatorShares a amt)
      let a' : Asset := { a with totalTokens := a.totalTokens - amt,
                                 totalValShares := a.totalValShares - valSharesToRemove }
      setAsset a'
      reduceDelegationShares del r.2.id dn sharesToUndelegate dl
      let dsc ← liftE (mkDecCoins dn sharesToUndelegate)
      let vsc ← liftE (mkDecCoins dn valSharesToRemove)
      let val2 ← updateValidatorShares r.2 dsc vsc false
      clearDustDelegation del val2 a'
      let _ ← queueUndelegation del val2.id dn amt
      queueRebalance) w2 = (.ok (), w') := h
  rw [h] at o2
  simp only [FrameOB.π, Prod.mk.injEq] at o2
  exact ⟨cs, by rw [o2.1]; exact hcs⟩

/-- stake moving between validators: a successful `Keeper.Redelegate` of a started asset settles the SOURCE and then the
    DESTINATION validator before any share moves — two responses are consumed, in that order, and nothing else -/
theorem redelegate_settles (del : Acct) (src dst : AVal) (dn : Denom) (amt : Int) (w w' : World)
    (h : redelegate del src dst dn amt w = (.ok (), w')) (a : Asset) (hga : getAsset w dn = some a)
    (hst : rewardsStarted a w.time = true) (hds : ModDelegates w src.id) (hdd : ModDelegates w dst.id) :
    ∃ cs1 cs2, w.oracle = (src.id, cs1) :: (dst.id, cs2) :: w'.oracle := by
  unfold redelegate at h
  obtain ⟨_, w00, hgu0, h⟩ := bind_ok_inv h
  have e00 : w00 = w := by
    unfold guardE at hgu0
    split at hgu0
    · simp [throwE] at hgu0
    · simp only [pure_apply] at hgu0; injection hgu0 with _ e; exact e.symm
  rw [e00] at h
  obtain ⟨w0, w0', hg, h⟩ := bind_ok_inv h
  simp only [getW_apply] at hg
  injection hg with hg1 hg2; injection hg1 with hg1
  rw [← hg2, ← hg1, hga] at h
  simp only at h
  obtain ⟨_, w1, hgu, h⟩ := bind_ok_inv h
  have e1 : w1 = w := by
    unfold guardE at hgu
    split at hgu
    · simp [throwE] at hgu
    · simp only [pure_apply] at hgu; injection hgu with _ e; exact e.symm
  rw [e1] at h
  obtain ⟨r, w2, hc, h⟩ := bind_ok_inv h
  obtain ⟨cs1, hcs1⟩ := claimDelegationRewards_settles del src dn w w2 r hc a hga hst hds
  have s2 := (FrameStaking.claimDelegationRewards del src dn).frame w
  have a2 := (claimDelegationRewards_frame del src dn).frame w
  rw [hc] at s2 a2
  simp only [FrameStaking.π, Prod.mk.injEq] at s2
  obtain ⟨w3, w3', hg3, h⟩ := bind_ok_inv h
  simp only [getW_apply] at hg3
  injection hg3 with hg31 hg32; injection hg31 with hg31
  rw [← hg32] at h
  obtain ⟨dst1, w4, hsd, h⟩ := bind_ok_inv h
  have hga2 : getAsset w2 dn = some a := by unfold getAsset at *; rw [a2]; exact hga
  have hst2 : rewardsStarted a w2.time = true := by rw [s2.2.1]; exact hst
  have hd2 : ModDelegates w2 dst.id := by unfold ModDelegates; rw [s2.1]; exact hdd
  obtain ⟨cs2, hcs2⟩ := settleBeforeDeposit_settles del dst dn w2 w4 dst1 hsd a hga2 hst2 hd2
  have fr : ∀ (src1 dst1 : AVal) (srcDl : Delegation), FrameOB.Fr (do
      let sharesToRemove ← liftE (validateDelegatedAmount srcDl.shares amt src1.info a)
      let coinsToRedelegate ← liftE (delegationTokensWithShares sharesToRemove src1.info a)
      guardE (amt > coinsToRedelegate) "insufficient_tokens"
      let w ← getW
      guardE (hasRedelegation w del src1.id dn) "transitive"
      let completion := w.time + w.staking.unbondingTime
      let changedValShares ← liftE (validatorShares a amt)
      reduceDelegationShares del src1.id dn sharesToRemove srcDl
      let dsc ← liftE (mkDecCoins dn sharesToRemove)
      let vsc ← liftE (mkDecCoins dn changedValShares)
      let src2 ← updateValidatorShares src1 dsc vsc false
      clearDustDelegation del src2 a
      let newDelShares ← upsertDelegationWithNewTokens del dst1 dn amt a
      let dsc' ← liftE (mkDecCoins dn newDelShares)
      let _ ← updateValidatorShares dst1 dsc' vsc true
      addRedelegation del src2.id dst1.id dn amt completion
      queueRebalance) := by
    intro src1 dst1 srcDl
    apply FrameOB.bind (FrameOB.liftE _); intro _
    apply FrameOB.bind (FrameOB.liftE _); intro _
    apply FrameOB.bind (FrameOB.guardE _ _); intro _
    apply FrameOB.bind FrameOB.getW; intro _
    apply FrameOB.bind (FrameOB.guardE _ _); intro _
    apply FrameOB.bind (FrameOB.liftE _); intro _
    apply FrameOB.bind (by simp only [obframe]); intro _
    apply FrameOB.bind (FrameOB.liftE _); intro _
    apply FrameOB.bind (FrameOB.liftE _); intro _
    apply FrameOB.bind (by simp only [obframe]); intro _
    apply FrameOB.bind (by simp only [obframe]); intro _
    apply FrameOB.bind (by simp only [obframe]); intro _
    apply FrameOB.bind (FrameOB.liftE _); intro _
    apply FrameOB.bind (by simp only [obframe]); intro _
    apply FrameOB.bind (by simp only [obframe]); intro _
    simp only [obframe]
  have o := (fr r.2 dst1 ((getDelegation w3 del r.2.id dn).getD default)).frame w4
  have h : (do
      let sharesToRemove ← liftE (validateDelegatedAmount ((getDelegation w3 del r.2.id dn).getD default).shares amt r.2.info a)
      let coinsToRedelegate ← liftE (delegationTokensWithShares sharesToRemove r.2.info a)
      guardE (amt > coinsToRedelegate) "insufficient_tokens"
      let w ← getW
      guardE (hasRedelegation w del r.2.id dn) "transitive"
      let completion := w.time + w.staking.unbondingTime
      let changedValShares ← liftE (validatorShares a amt)
      reduceDelegationShares del r.2.id dn sharesToRemove ((getDelegation w3 del r.2.id dn).getD default)
      let dsc ← liftE (mkDecCoins dn sharesToRemove)
      let vsc ← liftE (mkDecCoins dn changedValShares)
      let src2 ← updateValidatorShares r.2 dsc vsc false
      clearDustDelegation del src2 a
      let newDelShares ← upsertDelegationWithNewTokens del dst1 dn amt a
      let dsc' ← liftE (mkDecCoins dn newDelShares)
      let _ ← updateValidatorShares dst1 dsc' vsc true
      addRedelegation del src2.id dst1.id dn amt completion
      queueRebalance) w4 = (.ok (), w') := h
  rw [h] at o
  simp only [FrameOB.π, Prod.mk.injEq] at o
  exact ⟨cs1, cs2, by rw [o.1, ← hcs2]; exact hcs1⟩

/-- … at the level of the message -/
theorem msgDelegate_settles (del : Acct) (v : ValId) (dn : Denom) (amt : Int) (w w' : World)
    (h : step (.delegate del v dn amt) w = (.ok (), w')) (a : Asset) (hga : getAsset w dn = some a)
    (hst : rewardsStarted a w.time = true) (hd : ModDelegates w v) :
    ∃ cs, w.oracle = (v, cs) :: w'.oracle := by
  have h : asTx (msgDelegate del v dn amt) w = (.ok (), w') := h
  rw [asTx_apply] at h
  have h' : msgDelegate del v dn amt w = (.ok (), w') := by
    rcases hm : msgDelegate del v dn amt w with ⟨r, w1⟩
    rw [hm] at h
    cases r with
    | error e => simp at h
    | ok u => exact h
  unfold msgDelegate at h'
  obtain ⟨_, w0, hg0, h'⟩ := bind_ok_inv h'
  have e0 : w0 = w := by
    unfold guardE at hg0
    split at hg0
    · simp [throwE] at hg0
    · simp only [pure_apply] at hg0; injection hg0 with _ e; exact e.symm
  rw [e0] at h'
  have h2 : (getAllianceValidator v >>= fun val => delegate del val dn amt) w = (.ok (), w') := h'
  obtain ⟨val, w1, hg, h'⟩ := bind_ok_inv h2
  obtain ⟨hid, ha, ht, hs, ho⟩ := getAllianceValidator_spec v w w1 val hg
  have hga1 : getAsset w1 dn = some a := by unfold getAsset at *; rw [ha]; exact hga
  have hst1 : rewardsStarted a w1.time = true := by rw [ht]; exact hst
  have hd1 : ModDelegates w1 val.id := by unfold ModDelegates; rw [hs, hid]; exact hd
  obtain ⟨cs, hcs⟩ := delegate_settles del val dn amt w1 w' h' a hga1 hst1 hd1
  rw [hid, ho] at hcs
  exact ⟨cs, hcs⟩

end Alliance
