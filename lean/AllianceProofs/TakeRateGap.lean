/-
  TakeRateGap.lean — the take-rate deduction keeps the custody gap exactly: for every denom, what is sent to the fee
  collector is what comes off the staked totals. Needs the in-memory asset list to be in step with the store
  (`InSync`), which `EndBlocker` provides (the list is read from the store and passed through `InitializeAllianceAssets`).
-/
import AllianceProofs.GapH
set_option linter.unusedVariables false
namespace Alliance
open Dec

/-- the in-memory list has one entry per denom and agrees with the store on every staked total -/
def InSync (assets : List Asset) (w : World) : Prop :=
  assets.Pairwise (fun a b => a.denom ≠ b.denom) ∧ ∀ a ∈ assets, staked w a.denom = a.totalTokens

theorem inSync_all (d : Denom) (w : World) (hg : Good d w) : InSync (allAssets w) w := by
  unfold allAssets
  constructor
  · rw [List.pairwise_map]
    refine List.Pairwise.imp_of_mem ?_ hg.asorted
    intro p q hp hq hlt
    rw [hg.keyed p hp, hg.keyed q hq]
    intro e
    rw [e] at hlt
    exact natKeyOrder.irrefl _ hlt
  · intro a ha
    obtain ⟨p, hp, rfl⟩ := List.mem_map.mp ha
    unfold staked getAsset
    rw [hg.keyed p hp, AL.mem_get natKeyOrder _ p hg.asorted hp]

theorem takeRateStep_denom (now : Time) (n : Nat) (a : Asset) : (takeRateStep now n a).denom = a.denom := by
  unfold takeRateStep
  split
  · split <;> rfl
  · rfl

/-- per-denom total the take-rate step removes from the staked totals of a list -/
def trSum (now : Time) (n : Nat) (d : Denom) (assets : List Asset) : Int :=
  (assets.map fun a => if a.denom = d then a.totalTokens - (takeRateStep now n a).totalTokens else 0).sum

theorem takeRateCoins_sum_aux (now : Time) (n : Nat) (d : Denom) (assets : List Asset) (acc : Coins) :
    Coins.sumOf (assets.foldl (fun (cs : Coins) (a : Asset) =>
      Coins.add cs (Coins.single a.denom (a.totalTokens - (takeRateStep now n a).totalTokens))) acc) d
      = Coins.sumOf acc d + trSum now n d assets := by
  induction assets generalizing acc with
  | nil => unfold trSum; simp
  | cons a r ih =>
    rw [List.foldl_cons, ih, Coins.sumOf_add, Coins.sumOf_single]
    unfold trSum
    simp only [List.map_cons, List.sum_cons]
    omega

/-- the coins sent to the fee collector carry, per denom, exactly what the steps remove -/
theorem takeRateCoins_sum (now : Time) (n : Nat) (d : Denom) (assets : List Asset) :
    Coins.sumOf (takeRateCoins now n assets) d = trSum now n d assets := by
  unfold takeRateCoins
  rw [takeRateCoins_sum_aux]
  simp

/-- writing an asset: exact effect on every tracked quantity -/
theorem setAsset_run (a : Asset) (d : Denom) (w w' : World) (h : setAsset a w = (.ok (), w')) (hg : Good d w) :
    gap w' d = gap w d + (if a.denom = d then staked w d - a.totalTokens else 0) ∧ Good d w' ∧
    (∀ x, staked w' x = if a.denom = x then a.totalTokens else staked w x) := by
  have hw : w' = { w with assets := AL.set w.assets a.denom a } := by
    unfold setAsset at h; simp only [modifyW_apply] at h; injection h with _ h2; exact h2.symm
  have hst : ∀ x, staked w' x = if a.denom = x then a.totalTokens else staked w x := by
    intro x
    rw [hw]
    unfold staked getAsset
    simp only
    by_cases h : a.denom = x
    · subst h; simp only [AL.get_set_eq, if_true]
    · rw [AL.get_set_ne _ _ _ _ (fun e => h e.symm)]; simp only [h, if_false]
  obtain ⟨g1, g2, _⟩ := (setAsset_gapT a d (staked w d)).run w w' () h hg rfl
  refine ⟨?_, g2, hst⟩
  have hc : custody w' d = custody w d := by rw [hw]; rfl
  have hp : pending w' d = pending w d := by rw [hw]; rfl
  unfold gap
  rw [hc, hp, hst d]
  split <;> omega

theorem takeRateStep_noop (now : Time) (n : Nat) (a : Asset)
    (h : ¬ (takeRateChargeable now a ∧ (takeRateNewTotal a n).isSome)) : takeRateStep now n a = a := by
  unfold takeRateStep
  split
  · next hc =>
    cases hn : takeRateNewTotal a n with
    | none => rfl
    | some t => exact absurd ⟨hc, by rw [hn]; rfl⟩ h
  · rfl

/-- the write loop of `DeductAssetsWithTakeRate`: the gap of `d` grows by exactly what comes off its staked total -/
theorem takeRateLoop_spec (now : Time) (n : Nat) (d : Denom) : ∀ (rest : List Asset) (w w' : World),
    forEachM (fun (a : Asset) =>
      if takeRateChargeable now a ∧ (takeRateNewTotal a n).isSome then setAsset (takeRateStep now n a)
      else pure ()) rest w = (.ok (), w') →
    Good d w → rest.Pairwise (fun a b => a.denom ≠ b.denom) → (∀ a ∈ rest, staked w a.denom = a.totalTokens) →
    gap w' d = gap w d + trSum now n d rest ∧ Good d w' := by
  intro rest
  induction rest with
  | nil =>
    intro w w' h hg _ _
    unfold forEachM at h
    simp only [pure_apply] at h
    injection h with _ h2; subst h2
    exact ⟨by unfold trSum; simp, hg⟩
  | cons a r ih =>
    intro w w' h hg hpw hsync
    unfold forEachM at h
    simp only [bind_apply] at h
    have hr := List.pairwise_cons.mp hpw
    have ha := hsync a (List.mem_cons_self ..)
    have hsum : trSum now n d (a :: r) =
        (if a.denom = d then a.totalTokens - (takeRateStep now n a).totalTokens else 0) + trSum now n d r := by
      unfold trSum; simp only [List.map_cons, List.sum_cons]
    by_cases hc : takeRateChargeable now a ∧ (takeRateNewTotal a n).isSome
    · simp only [hc, and_self, if_true] at h
      rcases hsa : setAsset (takeRateStep now n a) w with ⟨r1, w1⟩
      have hr1 : r1 = .ok () := by unfold setAsset at hsa; simp only [modifyW_apply] at hsa; injection hsa with h1 _; exact h1.symm
      subst hr1
      rw [hsa] at h
      simp only at h
      obtain ⟨g1, g2, g3⟩ := setAsset_run _ d w w1 hsa hg
      rw [takeRateStep_denom] at g1
      have hsync1 : ∀ x ∈ r, staked w1 x.denom = x.totalTokens := by
        intro x hx
        rw [g3 x.denom, takeRateStep_denom, if_neg (hr.1 x hx)]
        exact hsync x (List.mem_cons_of_mem _ hx)
      obtain ⟨k1, k2⟩ := ih w1 w' h g2 hr.2 hsync1
      refine ⟨?_, k2⟩
      rw [k1, g1, hsum]
      by_cases hd : a.denom = d
      · simp only [hd, if_true]; rw [← hd, ha]; omega
      · simp only [hd, if_false]; omega
    · have : (if takeRateChargeable now a ∧ (takeRateNewTotal a n).isSome then setAsset (takeRateStep now n a)
          else (pure () : M Unit)) = pure () := if_neg hc
      rw [this] at h
      simp only [pure_apply] at h
      obtain ⟨k1, k2⟩ := ih w w' h hg hr.2 (fun x hx => hsync x (List.mem_cons_of_mem _ hx))
      refine ⟨?_, k2⟩
      rw [k1, hsum, takeRateStep_noop now n a hc]
      split <;> omega

theorem trSum_zero_of_none_chargeable (now : Time) (n : Nat) (d : Denom) (assets : List Asset)
    (h : (assets.filter (takeRateChargeable now)).length = 0) : trSum now n d assets = 0 := by
  have hnil : assets.filter (takeRateChargeable now) = [] := List.eq_nil_of_length_eq_zero h
  unfold trSum
  have : ∀ a ∈ assets, (if a.denom = d then a.totalTokens - (takeRateStep now n a).totalTokens else 0) = 0 := by
    intro a ha
    have hc : takeRateChargeable now a = false := by
      cases hcc : takeRateChargeable now a with
      | false => rfl
      | true =>
        have : a ∈ assets.filter (takeRateChargeable now) := List.mem_filter.mpr ⟨ha, hcc⟩
        rw [hnil] at this; cases this
    rw [takeRateStep_noop now n a (by rw [hc]; simp)]
    split <;> omega
  clear hnil h
  induction assets with
  | nil => rfl
  | cons a r ih =>
    simp only [List.map_cons, List.sum_cons]
    rw [this a (List.mem_cons_self ..), ih (fun x hx => this x (List.mem_cons_of_mem _ hx))]
    rfl

theorem setLastRewardClaimTime_gapT (t0 : Time) (d : Denom) (t : Int) : GapT d t t 0 (setLastRewardClaimTime t0) :=
  GapT.ofFrame (FrameG.setLastRewardClaimTime t0)

/-- C01 (take-rate clause): `DeductAssetsWithTakeRate` never lowers the custody gap — what goes to the fee
    collector is, per denom, exactly what comes off the staked totals -/
theorem deductAssetsWithTakeRate_gapH (lastClaim : Time) (assets : List Asset) (d : Denom) :
    GapH d (InSync assets) (deductAssetsWithTakeRate lastClaim assets) (fun _ _ => True) := by
  unfold deductAssetsWithTakeRate
  apply GapH.getW_bind; intro w0 hg0 hsync
  apply GapH.ite
  · intro _
    exact GapH.ofM (GapH.ofT0 (fun t => GapT.bind0 (setLastRewardClaimTime_gapT _ d t) (fun _ => GapT.pure _)))
  · intro _
    constructor
    intro w w' res h hg hpre
    simp only [bind_apply] at h
    by_cases hi : w0.params.takeRateInterval = 0
    · simp [guardP, hi] at h
    · simp only [guardP, hi, if_false, pure_apply] at h
      rcases hl : forEachM (fun (a : Asset) =>
          if takeRateChargeable w0.time a ∧ (takeRateNewTotal a (intervalsSince w0.time lastClaim w0.params.takeRateInterval).toNat).isSome
          then setAsset (takeRateStep w0.time (intervalsSince w0.time lastClaim w0.params.takeRateInterval).toNat a)
          else pure ()) assets w with ⟨r, w1⟩
      rw [hl] at h
      cases r with
      | error e => simp at h
      | ok u =>
        simp only at h
        obtain ⟨k1, k2⟩ := takeRateLoop_spec _ _ d assets w w1 hl hg hpre.1 hpre.2
        have hcs := takeRateCoins_sum w0.time (intervalsSince w0.time lastClaim w0.params.takeRateInterval).toNat d assets
        split at h
        · next hnone =>
          have hz := trSum_zero_of_none_chargeable w0.time (intervalsSince w0.time lastClaim w0.params.takeRateInterval).toNat d assets hnone
          obtain ⟨g1, g2, _⟩ := (GapT.bind0 (setLastRewardClaimTime_gapT w0.time d (staked w1 d)) (fun _ => GapT.pure _)).run w1 w' res h k2 rfl
          exact ⟨by omega, g2, trivial⟩
        · split at h
          · obtain ⟨g1, g2, _⟩ := (GapT.bind (sendCoins_gapT accModule accFee _ d (staked w1 d))
                (fun _ => GapT.bind0 (setLastRewardClaimTime_gapT _ d (staked w1 d)) (fun _ => GapT.pure _))).run w1 w' res h k2 rfl
            have : accFee ≠ accModule := by decide
            simp only [this, if_false, if_true] at g1
            exact ⟨by omega, g2, trivial⟩
          · next hno =>
            simp only [pure_apply] at h
            injection h with _ h2; subst h2
            have hz : Coins.sumOf (takeRateCoins w0.time (intervalsSince w0.time lastClaim w0.params.takeRateInterval).toNat assets) d = 0 := by
              by_cases hlen : (takeRateCoins w0.time (intervalsSince w0.time lastClaim w0.params.takeRateInterval).toNat assets).length = 0
              · rw [List.eq_nil_of_length_eq_zero hlen]; rfl
              · have : Coins.isZero (takeRateCoins w0.time (intervalsSince w0.time lastClaim w0.params.takeRateInterval).toNat assets) = true := by
                  cases hiz : Coins.isZero (takeRateCoins w0.time (intervalsSince w0.time lastClaim w0.params.takeRateInterval).toNat assets) with
                  | true => rfl
                  | false => exact absurd ⟨hlen, by rw [hiz]; rfl⟩ hno
                exact Coins.sumOf_isZero _ this d
            exact ⟨by omega, k2, trivial⟩

theorem initStep_denom (now : Time) (a : Asset) : (initStep now a).denom = a.denom := by
  unfold initStep; split <;> rfl
theorem initStep_tokens (now : Time) (a : Asset) : (initStep now a).totalTokens = a.totalTokens := by
  unfold initStep; split <;> rfl

theorem initLoop_spec (now : Time) (d : Denom) : ∀ (rest : List Asset) (w w' : World),
    forEachM (fun (a : Asset) =>
      if a.isInit || !rewardsStarted a now then pure () else setAsset (initStep now a)) rest w = (.ok (), w') →
    Good d w → (∀ a ∈ rest, staked w a.denom = a.totalTokens) →
    gap w' d = gap w d ∧ Good d w' ∧ ∀ x, staked w' x = staked w x := by
  intro rest
  induction rest with
  | nil =>
    intro w w' h hg _
    unfold forEachM at h
    simp only [pure_apply] at h
    injection h with _ h2; subst h2
    exact ⟨rfl, hg, fun _ => rfl⟩
  | cons a r ih =>
    intro w w' h hg hsync
    unfold forEachM at h
    simp only [bind_apply] at h
    have ha := hsync a (List.mem_cons_self ..)
    by_cases hc : (a.isInit || !rewardsStarted a now) = true
    · simp only [hc, if_true, pure_apply] at h
      exact ih w w' h hg (fun x hx => hsync x (List.mem_cons_of_mem _ hx))
    · simp only [hc, Bool.false_eq_true, if_false] at h
      rcases hsa : setAsset (initStep now a) w with ⟨r1, w1⟩
      have hr1 : r1 = .ok () := by unfold setAsset at hsa; simp only [modifyW_apply] at hsa; injection hsa with h1 _; exact h1.symm
      subst hr1
      rw [hsa] at h
      simp only at h
      obtain ⟨g1, g2, g3⟩ := setAsset_run _ d w w1 hsa hg
      rw [initStep_denom, initStep_tokens] at g1
      have hsame : ∀ x, staked w1 x = staked w x := by
        intro x
        rw [g3 x, initStep_denom, initStep_tokens]
        split
        · next e => rw [← e, ha]
        · rfl
      obtain ⟨k1, k2, k3⟩ := ih w1 w' h g2 (fun x hx => by rw [hsame]; exact hsync x (List.mem_cons_of_mem _ hx))
      refine ⟨?_, k2, fun x => by rw [k3 x, hsame x]⟩
      rw [k1, g1]
      split
      · next e => rw [← e, ha]; omega
      · omega

/-- `InitializeAllianceAssets` keeps the in-memory list in step with the store and does not move the gap -/
theorem initializeAllianceAssets_gapH (assets : List Asset) (d : Denom) :
    GapH d (InSync assets) (initializeAllianceAssets assets) (fun as' w' => InSync as' w') := by
  unfold initializeAllianceAssets
  apply GapH.getW_bind; intro w0 hg0 _
  constructor
  intro w w' res h hg hpre
  simp only [bind_apply] at h
  rcases hl : forEachM (fun (a : Asset) =>
      if a.isInit || !rewardsStarted a w0.time then pure () else setAsset (initStep w0.time a)) assets w with ⟨r, w1⟩
  rw [hl] at h
  cases r with
  | error e => simp at h
  | ok u =>
    simp only [pure_apply] at h
    injection h with h1 h2
    injection h1 with h1
    subst h1 h2
    obtain ⟨k1, k2, k3⟩ := initLoop_spec w0.time d assets w w1 hl hg hpre.2
    refine ⟨by omega, k2, ?_, ?_⟩
    · rw [List.pairwise_map]
      refine hpre.1.imp ?_
      intro a b hne
      rw [initStep_denom, initStep_denom]; exact hne
    · intro a' ha'
      obtain ⟨a, ha, rfl⟩ := List.mem_map.mp ha'
      rw [initStep_denom, initStep_tokens, k3]
      exact hpre.2 a ha

end Alliance
