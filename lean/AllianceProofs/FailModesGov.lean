/-
  FailModesGov.lean — C16: the complete list of ways in which the four governance messages can fail, for every state and
  every field value.
-/
import AllianceProofs.FailModesEB
import AllianceModel.Msg
set_option linter.unusedVariables false
namespace Alliance
open Dec

def govModes : List Err :=
  endModesOK ++ [.err "invalid_authority", .err "unauthorized", .err "invalid_duration", .err "invalid_interval",
    .err "empty_denom", .err "invalid_denom", .err "invalid_weight", .err "invalid_range", .err "range_min_gt_max",
    .err "weight_out_of_range", .err "invalid_take_rate", .panic "nil", .err "invalid_change_rate",
    .err "invalid_change_interval", .err "already_exists", .err "active_delegations"]

theorem endOK_sub_gov : ∀ e ∈ endModesOK, e ∈ govModes := fun e h => List.mem_append_left _ h

namespace Errs
variable {α : Type} {S : List Err}
theorem requireSome (x : Option α) (code : String) (h : Err.err code ∈ S) : Errs S (Alliance.requireSome x code) := by
  unfold Alliance.requireSome
  cases x with
  | none => exact Errs.throwE _ h
  | some a => exact Errs.pure _
theorem requireSomeP (x : Option α) (h : Err.panic "nil" ∈ S) : Errs S (Alliance.requireSomeP x) := by
  unfold Alliance.requireSomeP
  cases x with
  | none => exact Errs.panicE _ h
  | some a => exact Errs.pure _
end Errs

macro "gov_walk" : tactic => `(tactic| repeat' (first
  | apply Errs.pure | apply Errs.getW | apply Errs.modifyW
  | (apply Errs.guardE; decide) | (apply Errs.requireSome; decide) | (apply Errs.requireSomeP; decide)
  | (apply Errs.throwE; decide)
  | apply Errs.bind
  | intro _))

theorem msgUpdateParams_errs (s : Signer) (p : Params) : Errs govModes (msgUpdateParams s p) := by
  unfold msgUpdateParams
  apply Errs.bind (Errs.guardE _ _ (by decide)); intro _
  apply Errs.bind (Errs.guardE _ _ (by decide)); intro _
  apply Errs.bind (Errs.guardE _ _ (by decide)); intro _
  apply Errs.bind (Errs.guardE _ _ (by decide)); intro _
  exact setParams_errs (by decide) p

theorem msgCreateAlliance_errs (s : Signer) (f : AllianceFields) : Errs govModes (msgCreateAlliance s f) := by
  unfold msgCreateAlliance setAsset; gov_walk

theorem msgDeleteAlliance_errs (s : Signer) (d : Option Denom) : Errs govModes (msgDeleteAlliance s d) := by
  unfold msgDeleteAlliance; gov_walk

theorem msgUpdateAlliance_errs (s : Signer) (f : AllianceFields) : Errs govModes (msgUpdateAlliance s f) := by
  unfold msgUpdateAlliance
  apply Errs.bind (Errs.guardE _ _ (by decide)); intro _
  apply Errs.bind (Errs.requireSome _ _ (by decide)); intro denom
  apply Errs.bind (Errs.requireSome _ _ (by decide)); intro weight
  apply Errs.bind (Errs.guardE _ _ (by decide)); intro _
  apply Errs.bind (Errs.requireSome _ _ (by decide)); intro tr
  apply Errs.bind (Errs.guardE _ _ (by decide)); intro _
  apply Errs.bind (Errs.requireSomeP _ (by decide)); intro cr
  apply Errs.bind (Errs.guardE _ _ (by decide)); intro _
  apply Errs.bind (Errs.guardE _ _ (by decide)); intro _
  apply Errs.bind (Errs.guardE _ _ (by decide)); intro _
  apply Errs.getW_bind; intro w
  apply Errs.bind (Errs.requireSome _ _ (by decide)); intro asset
  apply Errs.bind (Errs.requireSomeP _ (by decide)); intro wmin
  apply Errs.bind (Errs.guardE _ _ (by decide)); intro _
  apply Errs.bind (Errs.requireSomeP _ (by decide)); intro wmax
  apply Errs.bind (Errs.guardE _ _ (by decide)); intro _
  exact updateAllianceAsset_errs endOK_sub_gov _

/-- C16: a failing governance message fails with one of `govModes`, for every state and every field value -/
theorem gov_failure_modes (op : Op) (w : World) (e : Err)
    (hop : match op with | .createAlliance .. | .updateAlliance .. | .deleteAlliance .. | .updateParams .. => True | _ => False)
    (h : (step op w).1 = .error e) : e ∈ govModes := by
  have tx : ∀ (m : M Unit), Errs govModes m → (asTx m w).1 = .error e → e ∈ govModes := by
    intro m hm he
    rw [asTx_apply] at he
    rcases hmw : m w with ⟨r, w1⟩
    rw [hmw] at he
    cases r with
    | ok a => simp at he
    | error e0 =>
      simp only at he
      injection he with he
      subst he
      exact hm.run w e0 (by rw [hmw])
  cases op with
  | createAlliance s f => exact tx _ (msgCreateAlliance_errs s f) h
  | updateAlliance s f => exact tx _ (msgUpdateAlliance_errs s f) h
  | deleteAlliance s d => exact tx _ (msgDeleteAlliance_errs s d) h
  | updateParams s p => exact tx _ (msgUpdateParams_errs s p) h
  | _ => exact absurd hop (by simp)

end Alliance
