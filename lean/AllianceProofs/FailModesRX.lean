/-
  FailModesRX.lean — failure modes under an invariant: with the redelegation stores in agreement (INV-R, every reachable
  state) the slashing callback cannot fail with "redelegation record not found" — every index key it walks has its record.
-/
import AllianceProofs.FailModes
import AllianceProofs.RedelHistory
set_option linter.unusedVariables false
namespace Alliance
open Dec

/-- from a state satisfying P: a failure is one of S, a success ends in Q -/
structure ErrsP {α} (P : World → Prop) (S : List Err) (m : M α) (Q : α → World → Prop) : Prop where
  err : ∀ w e, P w → (m w).1 = .error e → e ∈ S
  ok : ∀ w a w', P w → m w = (.ok a, w') → Q a w'

namespace ErrsP
variable {α β : Type} {P : World → Prop} {S : List Err}

theorem of {m : M α} {Q : α → World → Prop} (h1 : Errs S m) (h2 : Hoare P m Q) : ErrsP P S m Q :=
  ⟨fun w e _ he => h1.run w e he, fun w a w' hp hm => h2.run w w' a hm hp⟩

theorem bind {m : M α} {f : α → M β} {R : α → World → Prop} {Q : β → World → Prop}
    (hm : ErrsP P S m R) (hf : ∀ a, ErrsP (R a) S (f a) Q) : ErrsP P S (m >>= f) Q := by
  constructor
  · intro w e hp he
    simp only [bind_apply] at he
    rcases hmw : m w with ⟨r, w1⟩
    rw [hmw] at he
    cases r with
    | ok a => exact (hf a).err w1 e (hm.ok w a w1 hp hmw) he
    | error e0 => exact hm.err w e hp (by rw [hmw]; simpa using he)
  · intro w b w' hp h
    simp only [bind_apply] at h
    rcases hmw : m w with ⟨r, w1⟩
    rw [hmw] at h
    cases r with
    | ok a => exact (hf a).ok w1 b w' (hm.ok w a w1 hp hmw) h
    | error e0 => simp at h

theorem getW_bind {f : World → M β} {Q : β → World → Prop} (h : ∀ w0, P w0 → ErrsP (fun w => w = w0) S (f w0) Q) :
    ErrsP P S (Alliance.getW >>= f) Q := by
  constructor
  · intro w e hp he
    simp only [bind_apply, getW_apply] at he
    exact (h w hp).err w e rfl he
  · intro w b w' hp hm
    simp only [bind_apply, getW_apply] at hm
    exact (h w hp).ok w b w' rfl hm

theorem forEachM {γ : Type} {I : World → Prop} (f : γ → M Unit) (xs : List γ)
    (h : ∀ x ∈ xs, ErrsP I S (f x) (fun _ w => I w)) : ErrsP I S (Alliance.forEachM f xs) (fun _ w => I w) := by
  induction xs with
  | nil =>
    unfold Alliance.forEachM
    exact of (Errs.pure _) (Hoare.pure _ (fun w hw => hw))
  | cons x t ih =>
    unfold Alliance.forEachM
    exact bind (h x (List.mem_cons_self ..)) (fun _ => ih (fun y hy => h y (List.mem_cons_of_mem _ hy)))

theorem conseq {m : M α} {P' : World → Prop} {Q Q' : α → World → Prop} (h : ErrsP P' S m Q') (hp : ∀ w, P w → P' w)
    (hq : ∀ a w, Q' a w → Q a w) : ErrsP P S m Q :=
  ⟨fun w e hw he => h.err w e (hp w hw) he, fun w a w' hw hm => hq a w' (h.ok w a w' (hp w hw) hm)⟩

end ErrsP

/-- INV-R: every per-source index key has its record -/
theorem RX.index_has_record (w : World) (h : RX w) (k : RedelIdxKey) (hk : k ∈ w.redelIndex) :
    ∃ r, AL.get w.redels (k.2.2.2.2, k.2.2.1, k.2.2.2.1, k.2.1) = some r := by
  obtain ⟨es, hes, r, hr, hkr⟩ := h.idx_q k hk
  obtain ⟨⟨x, hx⟩, _⟩ := h.q_rec (k.2.1, es) (AL.get_some_mem _ _ _ hes) r hr
  refine ⟨x, ?_⟩
  have : redelKeyOf k.2.1 r = (k.2.2.2.2, k.2.2.1, k.2.2.2.1, k.2.1) := by
    unfold redelKeyOf
    unfold redelIdxOf at hkr
    rw [← hkr]
  rw [← this]; exact hx

theorem RXI.frame {α} {i0 : List RedelIdxKey} {m : M α} (h : FrameRedel.Fr m) :
    Hoare (fun w => RX w ∧ w.redelIndex = i0) m (fun _ w => RX w ∧ w.redelIndex = i0) := by
  constructor
  intro w w' a hm hw
  have hf : FrameRedel.π w' = FrameRedel.π w := by have := h.frame w; rw [hm] at this; exact this
  simp only [FrameRedel.π, Prod.mk.injEq] at hf
  unfold RX; rw [hf.1, hf.2.1, hf.2.2]; exact hw

/-- with the stores in agreement, `slashRedelegations` never misses a record: its failure modes are those of the keeper
    functions it calls -/
theorem slashRedelegations_errs_rx (v : ValId) (f : Dec) :
    ErrsP RX coreModes (slashRedelegations v f) (fun _ w => RX w) := by
  unfold slashRedelegations
  apply ErrsP.getW_bind; intro w0 hrx0
  dsimp only []
  refine ErrsP.conseq (P' := fun w => RX w ∧ w.redelIndex = w0.redelIndex)
    (Q' := fun _ w => RX w ∧ w.redelIndex = w0.redelIndex) ?_ (fun w e => by subst e; exact ⟨hrx0, rfl⟩) (fun _ _ q => q.1)
  apply ErrsP.forEachM
  intro k hk
  have hk0 : k ∈ w0.redelIndex := (List.mem_filter.mp hk).1
  apply ErrsP.getW_bind; intro w hI
  obtain ⟨ks, kt, kd, kdst, kdel⟩ := k
  obtain ⟨r, hr⟩ := RX.index_has_record w hI.1 (ks, kt, kd, kdst, kdel) (by rw [hI.2]; exact hk0)
  simp only at hr
  dsimp only []
  refine ErrsP.conseq (P' := fun x => RX x ∧ x.redelIndex = w0.redelIndex) (Q' := fun _ x => RX x ∧ x.redelIndex = w0.redelIndex) ?_
    (fun x e => by subst e; exact hI) (fun _ _ q => q)
  by_cases hm : kt < w.time
  · simp only [hm, if_true]
    exact ErrsP.of (Errs.pure _) (Hoare.pure _ (fun _ h => h))
  · simp only [hm, if_false, hr]
    apply ErrsP.of
    · apply Errs.bind (getAllianceValidator_errs _); intro dstVal
      apply Errs.ite (Errs.pure _)
      apply Errs.bind (claimDelegationRewards_errs _ _ _); intro res
      apply Errs.getW_bind; intro w1
      rcases getDelegation w1 r.del r.dst r.denom with _ | dl
      · exact Errs.pure _
      · dsimp only []
        rcases getAsset w1 r.denom with _ | a
        · exact Errs.pure _
        · dsimp only []
          apply Errs.bind (Errs.liftE _ (cappedShares_errs (by decide) _ _ _ _)); intro sts
          apply Errs.bind (Errs.liftE _ (mkDecCoins_errs (by decide) _ _)); intro sc
          apply Errs.bind (Errs.liftE _ (decCoinsSub_errs (by decide) _ _)); intro tds
          apply Errs.bind
          · unfold setValidator setValInfo; exact Errs.modifyW _
          · intro _; unfold setDelegation; exact Errs.modifyW _
    · apply RXI.frame
      apply FrameRedel.bind (by r_frame); intro dstVal
      split
      · exact FrameRedel.pure _
      · apply FrameRedel.bind (by r_frame); intro res
        apply FrameRedel.bind FrameRedel.getW; intro w1
        split
        · exact FrameRedel.pure _
        · split
          · exact FrameRedel.pure _
          · apply FrameRedel.bind (by r_frame); intro sts
            apply FrameRedel.bind (by r_frame); intro sc
            apply FrameRedel.bind (by r_frame); intro tds
            apply FrameRedel.bind (by r_frame); intro _
            r_frame

theorem ErrsP.mono {α} {P : World → Prop} {S S' : List Err} {m : M α} {Q : α → World → Prop} (h : ErrsP P S m Q)
    (hs : ∀ e ∈ S, e ∈ S') : ErrsP P S' m Q := ⟨fun w e hw he => hs e (h.err w e hw he), h.ok⟩

/-- the failure modes of the callback in the states the module can be in -/
def hookModesReachable : List Err := .err "invalid_fraction" :: coreModes

theorem core_sub_reach : ∀ e ∈ coreModes, e ∈ hookModesReachable := fun e h => List.mem_cons_of_mem _ h

/-- C08: with the redelegation stores in agreement (every state of every history), the slashing callback can fail only
    with a bad fraction or through one of the keeper functions' own failure modes — never because a redelegation record is
    missing for an index key -/
theorem beforeValidatorSlashed_errs_rx (v : ValId) (f : Dec) :
    ErrsP RX hookModesReachable (beforeValidatorSlashed v f) (fun _ w => RX w) := by
  have lf : ∀ {α} {m : M α}, Errs coreModes m → FrameRedel.Fr m → ErrsP RX hookModesReachable m (fun _ w => RX w) :=
    fun h1 h2 => ErrsP.of (h1.mono core_sub_reach) (RX.frame h2)
  unfold beforeValidatorSlashed slashValidator
  apply ErrsP.bind (R := fun _ w => RX w)
  · apply ErrsP.bind (R := fun _ w => RX w)
    · exact ErrsP.of (Errs.guardE _ _ (by decide)) (RX.frame (by r_frame))
    · intro _
      apply ErrsP.bind (lf (getAllianceValidator_errs v) (by r_frame)); intro val
      apply ErrsP.bind (R := fun _ w => RX w)
      · apply lf
        · apply Errs.foldlM
          intro acc share
          dsimp only []
          apply Errs.bind (Errs.liftE _ (mkDecCoins_errs (by decide) _ _)); intro after
          apply Errs.getW_bind; intro w
          rcases getAsset w share.1 with _ | a
          · exact Errs.throwE _ (by decide)
          · dsimp only []
            apply Errs.bind
            · unfold setAsset; exact Errs.modifyW _
            · intro _; exact Errs.pure _
        · apply FrameRedel.foldlM
          intro acc share
          apply FrameRedel.bind (by r_frame); intro _
          apply FrameRedel.bind FrameRedel.getW; intro w1
          split
          · exact FrameRedel.throwE _
          · exact FrameRedel.bind (by r_frame) (fun _ => FrameRedel.pure _)
      · intro slashed
        apply ErrsP.bind (R := fun _ w => RX w)
        · apply lf
          · unfold setValidator setValInfo; exact Errs.modifyW _
          · r_frame
        · intro _
          apply ErrsP.bind ((slashRedelegations_errs_rx v f).mono core_sub_reach); intro _
          exact lf (slashUndelegations_errs v f) (by r_frame)
  · intro _
    apply lf
    · unfold queueRebalance; exact Errs.modifyW _
    · r_frame

/-- … stated on results -/
theorem slash_hook_failure_modes (v : ValId) (f : Dec) (w : World) (hrx : RX w) (e : Err)
    (h : (step (.slash v f) w).1 = .error e) : e ∈ hookModesReachable :=
  (beforeValidatorSlashed_errs_rx v f).err w e hrx h

end Alliance
