import Lean
/-- frame lemmas `AFrame (f args)` for keeper functions that never write the asset store -/
register_simp_attr aframe
/-- invariant lemmas `PresR AssetsValid (f args) R` -/
register_simp_attr avalid
