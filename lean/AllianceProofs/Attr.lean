import Lean
/-- frame lemmas `AFrame (f args)` for keeper functions that never write the asset store -/
register_simp_attr aframe
/-- invariant lemmas `PresR AssetsValid (f args) R` -/
register_simp_attr avalid
/-- frame lemmas for the params projection -/
register_simp_attr pframe
/-- frame lemmas for the unbonding queue and index -/
register_simp_attr uframe
/-- frame lemmas for the redelegation record, queue and index -/
register_simp_attr rframe
/-- frame lemmas for the bank ledger -/
register_simp_attr bframe
/-- frame lemmas for the unbonding queue alone -/
register_simp_attr qframe
/-- frame lemmas for the staking view and the clock -/
register_simp_attr sframe
/-- frame lemmas for everything the custody gap reads -/
register_simp_attr gframe
/-- custody-gap monotonicity lemmas -/
register_simp_attr gmono
/-- frame lemmas for what the custody scope predicate reads -/
register_simp_attr oframe
/-- frame lemmas for the response tape and the bond denom -/
register_simp_attr obframe
/-- frame lemmas for (bank, supply, bond denom) -/
register_simp_attr bsframe
/-- frame lemmas for (supply, bond denom) -/
register_simp_attr ssframe
/-- frame lemmas for the delegation records -/
register_simp_attr dframe
