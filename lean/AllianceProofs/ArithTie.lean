/-
  ArithTie.lean — the hand-written model's share/token conversions ARE what the Go source says now: each is proved equal
  to its regeneration from x/alliance/types (Generated/Arith.lean, rewritten by astfacts/translate.go on every run).
-/
import Generated.Arith
namespace Alliance
namespace ArithTie
open Dec

theorem convertNewTokenToShares_is_source (tt ts : Dec) (n : Int) :
    Generated.ConvertNewTokenToShares tt ts n = convertNewTokenToShares tt ts n := by
  unfold Generated.ConvertNewTokenToShares convertNewTokenToShares GoSem.isZero GoSem.quo GoSem.decFromInt GoSem.mulInt
  by_cases h1 : ts = 0
  · simp [h1]; try rfl
  · by_cases h2 : tt = 0
    · simp [h1, h2]; try rfl
    · simp [h1, h2]; try rfl

theorem convertNewShareToDecToken_is_source (tt ts s : Dec) :
    Generated.ConvertNewShareToDecToken tt ts s = .ok (convertNewShareToDecToken tt ts s) := by
  unfold Generated.ConvertNewShareToDecToken convertNewShareToDecToken GoSem.isZero GoSem.quo GoSem.mul
  by_cases h1 : ts = 0
  · simp [h1]; try rfl
  · simp [h1]; try rfl

theorem totalTokensWithAsset_is_source (v : ValInfo) (a : Asset) :
    Generated.TotalTokensWithAsset v a = .ok (totalTokensWithAsset v a) := by
  unfold Generated.TotalTokensWithAsset totalTokensWithAsset
  simp only [convertNewShareToDecToken_is_source, GoSem.validatorSharesWithDenom, GoSem.decFromInt]
  try rfl

theorem getDelegationTokensWithShares_is_source (s : Dec) (v : ValInfo) (a : Asset) :
    Generated.GetDelegationTokensWithShares s v a = delegationTokensWithShares s v a := by
  unfold Generated.GetDelegationTokensWithShares delegationTokensWithShares
  simp only [totalTokensWithAsset_is_source, convertNewShareToDecToken_is_source, GoSem.totalDelegationSharesWithDenom,
    GoSem.add, GoSem.rounder, GoSem.newCoin, GoSem.truncateInt]
  cases h : newCoinAmt (truncateInt (convertNewShareToDecToken (totalTokensWithAsset v a) (totalDelSharesWithDenom v a.denom) s + rounder)) <;>
    simp [bind, Except.bind, pure, Except.pure, h]

theorem getDelegationSharesFromTokens_is_source (v : ValInfo) (a : Asset) (n : Int) :
    Generated.GetDelegationSharesFromTokens v a n = delegationSharesFromTokens v a n := by
  unfold Generated.GetDelegationSharesFromTokens delegationSharesFromTokens
  simp only [totalTokensWithAsset_is_source, GoSem.totalDelegationSharesWithDenom, GoSem.intEq, GoSem.truncateInt,
    GoSem.decFromInt]
  by_cases h : truncateInt (totalDelSharesWithDenom v a.denom) = 0
  · simp [h, bind, Except.bind, pure, Except.pure]
  · simp only [h, bind, Except.bind, pure, Except.pure, decide_false, Bool.false_eq_true, if_false]
    rw [convertNewTokenToShares_is_source]
    try (cases convertNewTokenToShares (totalTokensWithAsset v a) (totalDelSharesWithDenom v a.denom) n <;> rfl)

theorem getValidatorShares_is_source (a : Asset) (n : Int) :
    Generated.GetValidatorShares a n = validatorShares a n := by
  unfold Generated.GetValidatorShares validatorShares
  simp only [GoSem.decFromInt]
  rw [convertNewTokenToShares_is_source]
  try (cases convertNewTokenToShares (ofInt a.totalTokens) a.totalValShares n <;> rfl)

theorem validateDelegatedAmount_is_source (dl : Delegation) (amt : Int) (v : ValInfo) (a : Asset) :
    Generated.ValidateDelegatedAmount dl amt v a = validateDelegatedAmount dl.shares amt v a := by
  unfold Generated.ValidateDelegatedAmount validateDelegatedAmount
  rw [getDelegationSharesFromTokens_is_source]
  cases delegationSharesFromTokens v a amt with
  | error e => rfl
  | ok s =>
    simp only [bind, Except.bind, GoSem.lt, GoSem.gt, GoSem.abs, GoSem.sub, GoSem.rounder, GoSem.truncateDec]
    by_cases h1 : Dec.abs (dl.shares - s) < rounder
    · simp [h1, pure, Except.pure]
    · by_cases h2 : dl.shares < truncateDec s
      · simp [h1, h2, throw, throwThe, MonadExceptOf.throw, pure, Except.pure]
      · by_cases h3 : s > dl.shares
        · simp [h1, h2, h3, pure, Except.pure]
        · simp [h1, h2, h3, pure, Except.pure]

theorem subtractDecCoinsWithRounding_is_source (d1s d2s : DecCoins) :
    Generated.SubtractDecCoinsWithRounding d1s d2s = subtractDecCoinsWithRounding d1s d2s := by
  unfold Generated.SubtractDecCoinsWithRounding subtractDecCoinsWithRounding
  simp only [Bool.and_eq_true, decide_eq_true_eq, GoSem.decCoinsSub]
  show ((forIn d2s (id d1s) _ : Except Err DecCoins) >>= fun s => Pure.pure s) = List.foldlM _ (id d1s) d2s
  generalize id d1s = init
  induction d2s generalizing init with
  | nil => rfl
  | cons c t ih =>
    rw [List.forIn_cons, List.foldlM_cons]
    by_cases h : c.2 > DecCoins.amountOf d1s c.1 ∧ c.2 - DecCoins.amountOf d1s c.1 < one
    · simp only [h, and_self, if_true]
      cases Alliance.decCoinsSub init (DecCoins.single c.1 (DecCoins.amountOf d1s c.1)) with
      | error e => rfl
      | ok x => exact ih x
    · simp only [h, if_false]
      cases Alliance.decCoinsSub init (DecCoins.single c.1 c.2) with
      | error e => rfl
      | ok x => exact ih x

theorem rewardsStarted_is_source (a : Asset) (t : Time) :
    Generated.RewardsStarted a t = .ok (rewardsStarted a t) := by
  unfold Generated.RewardsStarted rewardsStarted
  show Except.ok _ = Except.ok (decide (t ≥ a.startTime))
  congr 1
  -- whichever comparison the source uses (After || Equal, !Before, …): decide it in the three orders
  rcases Int.lt_trichotomy t a.startTime with h | h | h
  · have h1 : ¬ t > a.startTime := by unfold Time at *; omega
    have h2 : ¬ t = a.startTime := by unfold Time at *; omega
    have h3 : ¬ t ≥ a.startTime := by unfold Time at *; omega
    simp [h, h1, h2, h3]
  · subst h; simp
  · have h1 : ¬ t < a.startTime := by unfold Time at *; omega
    have h2 : ¬ t = a.startTime := by unfold Time at *; omega
    have h3 : t ≥ a.startTime := by unfold Time at *; omega
    simp [h, h1, h2, h3]

theorem getIndexByAlliance_is_source (r : List RewardHistory) (a : Denom) :
    Generated.GetIndexByAlliance r a = .ok (histFilterByAlliance r a) := by
  unfold Generated.GetIndexByAlliance histFilterByAlliance
  show ((forIn r (id ([] : List RewardHistory)) _ : Except Err (List RewardHistory)) >>= fun s => Pure.pure s) = _
  have key : ∀ (l init : List RewardHistory),
      ((forIn l init (fun rh ris =>
          if ((rh.alliance == some a) || (rh.alliance == none)) = true then
            (do Pure.pure PUnit.unit; Pure.pure (ForInStep.yield (ris ++ [rh])) : Except Err _)
          else (do Pure.pure PUnit.unit; Pure.pure (ForInStep.yield ris))) : Except Err (List RewardHistory)) >>= fun s => Pure.pure s) =
        .ok (init ++ l.filter fun rh => rh.alliance == some a || rh.alliance == none) := by
    intro l
    induction l with
    | nil => intro init; simp; rfl
    | cons c t ih =>
      intro init
      rw [List.forIn_cons]
      by_cases h : ((c.alliance == some a) || (c.alliance == none)) = true
      · simp only [h, if_true, List.filter_cons_of_pos]
        have := ih (init ++ [c])
        simp only [List.append_assoc, List.singleton_append] at this
        exact this
      · simp only [h, if_false, Bool.false_eq_true]
        rw [List.filter_cons_of_neg (by simpa using h)]
        exact ih init
  have := key r []
  simpa using this

end ArithTie
end Alliance
