/-
  PayoutLive.lean — C02/C17 liveness of the payout phase: when custody covers the pending unbondings (C01's invariant) and
  no pending balance is negative, `CompleteUnbondings` cannot fail — every matured entry IS paid at this end-of-block.
-/
import AllianceProofs.UsersOnly
import AllianceProofs.IndexHistory
import AllianceProofs.DecLemmas
set_option linter.unusedVariables false
namespace Alliance
open Dec

/-- sending one coin the sender can afford succeeds -/
theorem sendCoins_single_ok (src dst : Acct) (d : Denom) (x : Int) (w : World) (h : x ≤ bankBalance w src d) :
    ∃ w', sendCoins src dst (Coins.single d x) w = (.ok (), w') := by
  rw [sendCoins_eq]
  unfold Coins.single
  by_cases hx : x = 0
  · simp only [hx, if_true]
    exact ⟨w, rfl⟩
  · simp only [hx, if_false, bind_apply]
    have hd : debitLoop src [(d, x)] w = (.ok (), (setBalance src d (bankBalance w src d - x) w).2) := by
      unfold debitLoop forEachM forEachM
      have : ¬ bankBalance w src d < x := by omega
      simp only [bind_apply, getW_apply, guardE_apply, this, if_false, pure_apply]
      rfl
    rw [hd]
    simp only
    have hc := creditLoop_spec dst [(d, x)] (setBalance src d (bankBalance w src d - x) w).2
    rcases hcr : creditLoop dst [(d, x)] (setBalance src d (bankBalance w src d - x) w).2 with ⟨r, w2⟩
    rw [hcr] at hc
    simp only at hc
    rw [hc.1]
    exact ⟨w2, rfl⟩

/-- no pending balance is negative -/
def NonnegQ (w : World) : Prop := ∀ p ∈ w.undelQueue, ∀ e ∈ p.2, 0 ≤ e.amount

theorem entrySum_nonneg (d : Denom) (es : List Undel) (h : ∀ e ∈ es, 0 ≤ e.amount) : 0 ≤ entrySum d es := by
  induction es with
  | nil => simp
  | cons e t ih =>
    rw [entrySum_cons]
    have h1 := h e (List.mem_cons_self ..)
    have h2 := ih (fun x hx => h x (List.mem_cons_of_mem _ hx))
    split <;> omega

theorem sumBy_nonneg {κ α : Type} [DecidableEq κ] [Ord κ] (f : α → Int) (l : List (κ × α)) (h : ∀ p ∈ l, 0 ≤ f p.2) : 0 ≤ AL.sumBy f l := by
  induction l with
  | nil => simp
  | cons p t ih =>
    rw [AL.sumBy_cons]
    have h1 := h p (List.mem_cons_self ..)
    have h2 := ih (fun x hx => h x (List.mem_cons_of_mem _ hx))
    omega

/-- paying the entries of a bucket: succeeds as long as custody holds, per denom, what the rest of the bucket needs plus a
    non-negative reserve `o d`; afterwards custody still holds the reserve -/
theorem payEntries_ok (t : Time) (o : Denom → Int) (ho : ∀ d, 0 ≤ o d) (es : List Undel) :
    ∀ (w : World), (∀ e ∈ es, 0 ≤ e.amount ∧ e.del ≠ accModule) → (∀ d, entrySum d es + o d ≤ custody w d) →
      ∃ w', forEachM (payEntry t) es w = (.ok (), w') ∧ (∀ d, o d ≤ custody w' d) ∧
        w'.assets = w.assets ∧ w'.undelQueue = w.undelQueue ∧ w'.staking = w.staking := by
  induction es with
  | nil =>
    intro w _ hc
    exact ⟨w, rfl, fun d => by have := hc d; simp at this; exact this, rfl, rfl, rfl⟩
  | cons e r ih =>
    intro w he hc
    obtain ⟨hamt, hdel⟩ := he e (List.mem_cons_self ..)
    have hr : ∀ x ∈ r, 0 ≤ x.amount ∧ x.del ≠ accModule := fun x hx => he x (List.mem_cons_of_mem _ hx)
    have hrn : ∀ d, 0 ≤ entrySum d r := fun d => entrySum_nonneg d r (fun x hx => (hr x hx).1)
    have hafford : e.amount ≤ bankBalance w accModule e.denom := by
      have := hc e.denom
      rw [entrySum_cons] at this
      simp only [if_true] at this
      have h1 := hrn e.denom; have h2 := ho e.denom
      unfold custody at this; omega
    obtain ⟨w1, hs⟩ := sendCoins_single_ok accModule e.del e.denom e.amount w hafford
    have hpe : payEntry t e w = (.ok (), { w1 with undelIndex := w1.undelIndex.erase (e.val, t, e.denom, e.del) }) := by
      unfold payEntry
      simp only [bind_apply, hs, modifyW_apply]
    obtain ⟨c1, a1, q1⟩ := payEntry_spec t e w _ hpe hdel
    have hst : ({ w1 with undelIndex := w1.undelIndex.erase (e.val, t, e.denom, e.del) } : World).staking = w.staking := by
      have := (FrameStaking.payEntry t e).frame w
      rw [hpe] at this
      exact congrArg (·.1) this
    obtain ⟨w', h2, c2, a2, q2, s2⟩ := ih _ hr (by
      intro d
      rw [c1 d]
      have := hc d
      rw [entrySum_cons] at this
      omega)
    refine ⟨w', ?_, c2, a2.trans a1, q2.trans q1, s2.trans hst⟩
    unfold forEachM
    simp only [bind_apply, hpe]
    exact h2

/-- custody holds, per denom, at least what the queue owes -/
def Cover (w : World) : Prop := ∀ d, pending w d ≤ custody w d

theorem payBucket_ok (b : UndelKey × List Undel) (w : World) (hs : QSorted w)
    (hget : AL.get w.undelQueue b.1 = some b.2) (hn : NonnegQ w) (hu : UsersOnly w) (hc : Cover w) :
    ∃ w', payBucket b w = (.ok (), w') ∧ Cover w' ∧ w'.undelQueue = AL.erase w.undelQueue b.1 ∧ w'.staking = w.staking := by
  have hmem := AL.get_some_mem _ _ _ hget
  have herase : ∀ d, AL.sumBy (entrySum d) (AL.erase w.undelQueue b.1) = pending w d - entrySum d b.2 := by
    intro d
    rw [AL.sum_erase undelKeyOrder _ _ _ hs]
    unfold AL.at? pending
    rw [hget]
  have ho : ∀ d, 0 ≤ pending w d - entrySum d b.2 := by
    intro d
    rw [← herase d]
    apply sumBy_nonneg
    intro p hp
    exact entrySum_nonneg d p.2 (fun e he => hn p (AL.mem_erase _ _ _ hp) e he)
  obtain ⟨w1, h1, c1, a1, q1, s1⟩ := payEntries_ok b.1.1 (fun d => pending w d - entrySum d b.2) ho b.2 w
    (fun e he => ⟨hn _ hmem e he, hu _ hmem e he⟩) (fun d => by have := hc d; omega)
  refine ⟨{ w1 with undelQueue := AL.erase w1.undelQueue b.1 }, ?_, ?_, by rw [q1], s1⟩
  · unfold payBucket
    simp only [bind_apply, h1, modifyW_apply]
  · intro d
    unfold pending
    show AL.sumBy (entrySum d) (AL.erase w1.undelQueue b.1) ≤ custody w1 d
    rw [q1, herase d]
    exact c1 d

theorem payBuckets_ok (ms : List (UndelKey × List Undel)) :
    ∀ (w : World), QSorted w → (∀ b ∈ ms, AL.get w.undelQueue b.1 = some b.2) → ms.Pairwise (fun a b => a.1 ≠ b.1) →
      NonnegQ w → UsersOnly w → Cover w →
      ∃ w', forEachM payBucket ms w = (.ok (), w') ∧ Cover w' ∧ w'.staking = w.staking := by
  induction ms with
  | nil => intro w _ _ _ _ _ hc; exact ⟨w, rfl, hc, rfl⟩
  | cons b t ih =>
    intro w hs hget hdist hn hu hc
    obtain ⟨w1, h1, c1, q1, s1⟩ := payBucket_ok b w hs (hget b (List.mem_cons_self ..)) hn hu hc
    have hd := List.pairwise_cons.mp hdist
    have hs1 : QSorted w1 := by unfold QSorted; rw [q1]; exact AL.erase_sorted undelKeyOrder _ _ hs
    have hget1 : ∀ b' ∈ t, AL.get w1.undelQueue b'.1 = some b'.2 := by
      intro b' hb'
      rw [q1, AL.get_erase_ne _ _ _ (fun he => hd.1 b' hb' he.symm)]
      exact hget b' (List.mem_cons_of_mem _ hb')
    have hn1 : NonnegQ w1 := by
      intro p hp e he
      rw [q1] at hp
      exact hn p (AL.mem_erase _ _ _ hp) e he
    have hu1 : UsersOnly w1 := by
      intro p hp e he
      rw [q1] at hp
      exact hu p (AL.mem_erase _ _ _ hp) e he
    obtain ⟨w', h2, c2, s2⟩ := ih w1 hs1 hget1 hd.2 hn1 hu1 c1
    refine ⟨w', ?_, c2, s2.trans s1⟩
    unfold forEachM
    simp only [bind_apply, h1]
    exact h2

/-- C02 / C17: with custody covering the pending unbondings and no negative pending balance, `CompleteUnbondings` succeeds —
    every matured entry is paid at this end-of-block, none is postponed by a failure -/
theorem completeUnbondings_ok (w : World) (hs : QSorted w) (hn : NonnegQ w) (hu : UsersOnly w) (hc : Cover w) :
    ∃ w', completeUnbondings w = (.ok (), w') := by
  have hsub : ∀ b ∈ maturedBuckets w, b ∈ w.undelQueue := by
    intro b hb; unfold maturedBuckets at hb; exact (List.mem_filter.mp hb).1
  have hget : ∀ b ∈ maturedBuckets w, AL.get w.undelQueue b.1 = some b.2 :=
    fun b hb => AL.mem_get undelKeyOrder _ b hs (hsub b hb)
  have hdist : (maturedBuckets w).Pairwise (fun a b => a.1 ≠ b.1) := by
    have : (maturedBuckets w).Pairwise (fun p q => undelKeyOrder.lt p.1 q.1) := by
      unfold maturedBuckets; exact List.Pairwise.filter _ hs
    refine this.imp ?_
    intro a b hlt he
    rw [he] at hlt
    exact undelKeyOrder.irrefl _ hlt
  obtain ⟨w1, h1, _, _⟩ := payBuckets_ok (maturedBuckets w) w hs hget hdist hn hu hc
  unfold completeUnbondings
  simp only [bind_apply, getW_apply, h1]
  by_cases hb : bankBalance w1 accModule w1.staking.bondDenom ≠ 0
  · rw [if_pos hb]
    unfold burnCoin
    have : ¬ bankBalance w1 accModule w1.staking.bondDenom < bankBalance w1 accModule w1.staking.bondDenom := by omega
    simp only [bind_apply, getW_apply, guardE_apply, this, if_false, setBalance, modifyW_apply]
    exact ⟨_, rfl⟩
  · rw [if_neg hb]
    exact ⟨_, rfl⟩

/-- the cover follows from C01's invariant (custody gap ≥ 0) wherever staked totals are not negative -/
theorem cover_of_gap (w : World) (hg : ∀ d, 0 ≤ gap w d) (hst : ∀ d, 0 ≤ staked w d) : Cover w := by
  intro d
  have h1 := hg d; have h2 := hst d
  unfold gap at h1
  omega

/-! ### no pending balance is ever negative -/

theorem NQ.frame {α} {m : M α} (h : FrameUQ.Fr m) : Hoare NonnegQ m (fun _ w => NonnegQ w) := by
  constructor
  intro w w' a hm hw
  have hf : FrameUQ.π w' = FrameUQ.π w := by have := h.frame w; rw [hm] at this; exact this
  have hq : w'.undelQueue = w.undelQueue := hf
  unfold NonnegQ; rw [hq]; exact hw

macro "nq_frame" : tactic => `(tactic| (first | exact FrameUQ.liftE _ | exact FrameUQ.pure _ | exact FrameUQ.guardE _ _ | exact FrameUQ.guardP _ _ | (simp only [qframe]; done)))

theorem queueUndelegation_nq (del : Acct) (v : ValId) (d : Denom) (amt : Int) (ha : 0 ≤ amt) :
    Hoare NonnegQ (queueUndelegation del v d amt) (fun _ w => NonnegQ w) := by
  constructor
  intro w w' a hm hw
  have hst := queueUndelegation_state del v d amt w
  rw [hm] at hst
  simp only at hst
  subst hst
  intro p hp e he
  rcases AL.mem_set _ _ _ _ hp with h | h
  · rw [h] at he
    simp only at he
    rcases List.mem_append.mp he with he | he
    · cases hg : AL.get w.undelQueue (w.time + w.staking.unbondingTime, del) with
      | none => rw [hg] at he; simp [Option.getD] at he
      | some es => rw [hg] at he; exact hw _ (AL.get_some_mem _ _ _ hg) e he
    · have := List.mem_singleton.mp he
      subst this; exact ha
  · exact hw p h e he

theorem undelegate_nq (del : Acct) (val : AVal) (d : Denom) (amt : Int) (ha : 0 ≤ amt) :
    Hoare NonnegQ (undelegate del val d amt) (fun _ w => NonnegQ w) := by
  unfold undelegate
  apply Hoare.getW_bind; intro w0 hP
  apply Hoare.at_state hP
  rcases hga : getAsset w0 d with _ | a
  · exact Hoare.throwE _
  · dsimp only []
    apply Hoare.bind (NQ.frame (by nq_frame)); intro _
    apply Hoare.bind (NQ.frame (by nq_frame)); intro r
    apply Hoare.getW_bind; intro w1 hP1
    apply Hoare.at_state hP1
    try dsimp only []
    apply Hoare.bind (NQ.frame (by nq_frame)); intro _
    apply Hoare.bind (NQ.frame (by nq_frame)); intro _
    apply Hoare.bind (NQ.frame (by nq_frame)); intro _
    apply Hoare.bind (NQ.frame (by nq_frame)); intro _
    apply Hoare.bind (NQ.frame (by nq_frame)); intro _
    apply Hoare.bind (NQ.frame (by nq_frame)); intro _
    apply Hoare.bind (NQ.frame (by nq_frame)); intro _
    apply Hoare.bind (NQ.frame (by nq_frame)); intro _
    apply Hoare.bind (NQ.frame (by nq_frame)); intro val2
    apply Hoare.bind (NQ.frame (by nq_frame)); intro _
    apply Hoare.bind (queueUndelegation_nq del val2.id d amt ha); intro _
    exact NQ.frame (by nq_frame)

theorem msgUndelegate_nq (del : Acct) (v : ValId) (d : Denom) (amt : Int) :
    Hoare NonnegQ (msgUndelegate del v d amt) (fun _ w => NonnegQ w) := by
  unfold msgUndelegate
  apply Hoare.guardE_bind; intro hpos
  apply Hoare.bind (NQ.frame (by nq_frame)); intro val
  exact undelegate_nq del val d amt (by omega)

theorem slashUndelegations_nq (v : ValId) (f : Dec) (hf0 : 0 ≤ f) (hf1 : f ≤ one) :
    Hoare NonnegQ (slashUndelegations v f) (fun _ w => NonnegQ w) := by
  unfold slashUndelegations
  apply Hoare.getW_bind; intro w0 hP
  apply Hoare.at_state hP
  dsimp only []
  apply Hoare.forEachM
  intro k _
  apply Hoare.getW_bind; intro w1 hP1
  obtain ⟨kv, kt, kd, kdel⟩ := k
  dsimp only []
  apply Hoare.ite
  · intro _; exact Hoare.pure _ (fun w e => by subst e; exact hP1)
  · intro _
    refine Hoare.conseq (P' := fun w => NonnegQ w ∧ w.undelQueue = w1.undelQueue) (Q' := fun _ w => NonnegQ w) ?_
      (fun w e => by subst e; exact ⟨hP1, rfl⟩) (fun _ _ q => q)
    apply Hoare.bind (R := fun _ w => NonnegQ w ∧ w.undelQueue = w1.undelQueue)
    · constructor
      intro w w' a hm hw
      have hfr : FrameUQ.Fr (forEachM (fun (e : Undel) =>
          if e.val == v && e.denom == kd then sendCoins accModule accFee (Coins.single e.denom (slashEntryCut v kd f e))
          else pure ()) ((AL.get w1.undelQueue (kt, kdel)).getD [])) := by
        apply FrameUQ.forEachM
        intro e
        split
        · exact FrameUQ.sendCoins _ _ _
        · exact FrameUQ.pure _
      have hf : FrameUQ.π w' = FrameUQ.π w := by have := hfr.frame w; rw [hm] at this; exact this
      have hq : w'.undelQueue = w.undelQueue := hf
      exact ⟨by unfold NonnegQ; rw [hq]; exact hw.1, by rw [hq]; exact hw.2⟩
    · intro _
      refine Hoare.modifyW _ (fun w hw => ?_)
      obtain ⟨hn, hq⟩ := hw
      intro p hp e he
      rcases AL.mem_set _ _ _ _ hp with h | h
      · rw [h] at he
        simp only at he
        unfold slashBucket at he
        obtain ⟨e0, he0, rfl⟩ := List.mem_map.mp he
        have h0 : 0 ≤ e0.amount := by
          cases hg : AL.get w1.undelQueue (kt, kdel) with
          | none => rw [hg] at he0; simp [Option.getD] at he0
          | some es => rw [hg] at he0; rw [← hq] at hg; exact hn _ (AL.get_some_mem _ _ _ hg) e0 he0
        show 0 ≤ e0.amount - slashEntryCut v kd f e0
        unfold slashEntryCut
        split
        · have := Dec.truncate_mulInt_le f e0.amount hf0 hf1 h0
          omega
        · omega
      · exact hn p h e he

theorem beforeValidatorSlashed_nq (v : ValId) (f : Dec) : Hoare NonnegQ (beforeValidatorSlashed v f) (fun _ w => NonnegQ w) := by
  unfold beforeValidatorSlashed slashValidator
  apply Hoare.bind
  · apply Hoare.guardE_bind; intro hf
    apply Hoare.bind (NQ.frame (by nq_frame)); intro val
    apply Hoare.bind
    · apply NQ.frame
      apply FrameUQ.foldlM
      intro acc share
      apply FrameUQ.bind (by nq_frame); intro _
      apply FrameUQ.bind FrameUQ.getW; intro w1
      split
      · exact FrameUQ.throwE _
      · exact FrameUQ.bind (by nq_frame) (fun _ => FrameUQ.pure _)
    · intro slashed
      apply Hoare.bind (NQ.frame (by nq_frame)); intro _
      apply Hoare.bind (NQ.frame (by nq_frame)); intro _
      exact slashUndelegations_nq v f (by unfold Dec at *; omega) (by unfold Dec at *; omega)
  · intro _; exact NQ.frame (by nq_frame)

theorem completeUnbondings_nq : Hoare NonnegQ completeUnbondings (fun _ w => NonnegQ w) := by
  unfold completeUnbondings
  apply Hoare.getW_bind; intro w0 hP
  apply Hoare.at_state hP
  apply Hoare.bind
  · apply Hoare.forEachM
    intro b _
    unfold payBucket
    apply Hoare.bind (NQ.frame (FrameUQ.forEachM _ _ (fun e => FrameUQ.payEntry _ e))); intro _
    exact Hoare.modifyW _ (fun w hw p hp => hw p (AL.mem_erase _ _ _ hp))
  · intro _
    apply Hoare.getW_bind; intro w1 hP1
    apply Hoare.at_state hP1
    exact NQ.frame (by dsimp only []; split <;> nq_frame)

theorem endBlocker_nq : Hoare NonnegQ endBlocker (fun _ w => NonnegQ w) := by
  unfold endBlocker
  apply Hoare.bind (NQ.frame (by nq_frame)); intro _
  apply Hoare.bind completeUnbondings_nq; intro _
  apply Hoare.getW_bind; intro w0 hP
  apply Hoare.at_state hP
  dsimp only []
  apply Hoare.bind (NQ.frame (by nq_frame)); intro as1
  apply Hoare.bind (NQ.frame (by nq_frame)); intro as2
  apply Hoare.bind (NQ.frame (by nq_frame)); intro as3
  exact NQ.frame (by nq_frame)

theorem step_nq (op : Op) (w w' : World) (h : step op w = (.ok (), w')) (hn : NonnegQ w) : NonnegQ w' := by
  have tx : ∀ (m : M Unit), Hoare NonnegQ m (fun _ w => NonnegQ w) → asTx m w = (.ok (), w') → NonnegQ w' :=
    fun m hm hr => (Hoare.asTx hm).run w w' () hr hn
  cases op with
  | delegate del v d amt => exact tx _ (NQ.frame (FrameUQ.msgDelegate del v d amt)) h
  | undelegate del v d amt => exact tx _ (msgUndelegate_nq del v d amt) h
  | redelegate del s t d amt => exact tx _ (NQ.frame (FrameUQ.msgRedelegate del s t d amt)) h
  | claim del v d => exact tx _ (NQ.frame (FrameUQ.msgClaim del v d)) h
  | createAlliance s f => exact tx _ (NQ.frame (FrameUQ.msgCreateAlliance s f)) h
  | updateAlliance s f => exact tx _ (NQ.frame (FrameUQ.msgUpdateAlliance s f)) h
  | deleteAlliance s d => exact tx _ (NQ.frame (FrameUQ.msgDeleteAlliance s d)) h
  | updateParams s p => exact tx _ (NQ.frame (FrameUQ.msgUpdateParams s p)) h
  | slash v f => exact (beforeValidatorSlashed_nq v f).run w w' () h hn
  | endBlock => exact endBlocker_nq.run w w' () h hn
  | hookDelegationModified => exact (NQ.frame FrameUQ.queueRebalance).run w w' () h hn
  | hookValidatorBonded => exact (NQ.frame FrameUQ.queueRebalance).run w w' () h hn
  | hookValidatorBeginUnbonding => exact (NQ.frame FrameUQ.queueRebalance).run w w' () h hn
  | hookDelegationRemoved => exact (NQ.frame FrameUQ.queueRebalance).run w w' () h hn
  | hookValidatorRemoved v => exact (NQ.frame (FrameUQ.afterValidatorRemoved v)).run w w' () h hn
  | env => exact (NQ.frame (FrameUQ.pure ())).run w w' () h hn

/-- no pending balance is negative in any state of any history -/
theorem reach_nq (w w' : World) (hn : NonnegQ w) (hr : ReachU w w') : NonnegQ w' := by
  induction hr with
  | refl => exact hn
  | env _ hq _ ih => unfold NonnegQ; rw [hq]; exact ih
  | ok op tape _ hs ih => exact step_nq op _ _ hs ih
  | failTx op tape e _ htx hf ih =>
    rw [step_tx_fail op _ e htx hf]
    exact ih

end Alliance
