import AllianceProofs.Sorted
namespace Alliance
namespace AL
variable {κ α : Type} [DecidableEq κ] [Ord κ]

/-- writing a key larger than every key of a sorted list appends it -/
theorem set_append_of_gt (o : KeyOrder κ) (l : List (κ × α)) (k : κ) (v : α)
    (h : ∀ q ∈ l, o.lt q.1 k) : set l k v = l ++ [(k, v)] := by
  induction l with
  | nil => rfl
  | cons hd t ih =>
    obtain ⟨k', v'⟩ := hd
    have hlt : o.lt k' k := h (k', v') (List.mem_cons_self ..)
    have hne : k ≠ k' := by intro e; subst e; exact o.irrefl _ hlt
    have hnlt : ¬ compare k k' = .lt := by
      intro hc
      exact o.irrefl _ (o.trans _ _ _ ((o.cmp_lt k k').mp hc) hlt)
    unfold set
    simp only [hne, if_false, hnlt]
    rw [ih (fun q hq => h q (List.mem_cons_of_mem _ hq))]
    rfl

/-- re-inserting the entries of a strictly sorted list one by one, in order, rebuilds the list -/
theorem rebuild_sorted (o : KeyOrder κ) (l : List (κ × α)) (hs : SortedBy o l) :
    ∀ (pre : List (κ × α)), (∀ p ∈ pre, ∀ q ∈ l, o.lt p.1 q.1) →
      l.foldl (fun acc p => set acc p.1 p.2) pre = pre ++ l := by
  induction l with
  | nil => intro pre _; simp
  | cons hd t ih =>
    intro pre hpre
    rw [List.foldl_cons]
    rw [set_append_of_gt o pre hd.1 hd.2 (fun q hq => hpre q hq hd (List.mem_cons_self ..))]
    rw [ih (sorted_tail o hs)]
    · simp
    · intro p hp q hq
      rcases List.mem_append.mp hp with h | h
      · exact hpre p h q (List.mem_cons_of_mem _ hq)
      · rw [List.mem_singleton.mp h]; exact sorted_head_lt o hs q hq

end AL
end Alliance
