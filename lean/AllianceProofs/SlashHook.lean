/-
  SlashHook.lean — the whole slashing callback, seen from the unbonding queue: in a state where index and queue agree,
  a successful `BeforeValidatorSlashed(v, f)` leaves the queue with every unmatured entry of `v` cut by ⌊f·amount⌋ exactly
  once and everything else — other validators' entries, matured entries, the bucket structure, the index — untouched.
-/
import AllianceProofs.SlashAll
set_option linter.unusedVariables false
namespace Alliance
open Dec

macro "st_frame" : tactic => `(tactic| (first | exact FrameStaking.liftE _ | exact FrameStaking.pure _ | exact FrameStaking.guardE _ _ | exact FrameStaking.guardP _ _ | (simp only [sframe]; done)))

theorem beforeValidatorSlashed_queue_exact (v : ValId) (f : Dec) (w w' : World) (hix : IX w)
    (h : beforeValidatorSlashed v f w = (.ok (), w')) :
    w'.undelQueue = w.undelQueue.map (fun p => (p.1, p.2.map (slashedEntry v f w.time p.1.1))) ∧
    w'.undelIndex = w.undelIndex := by
  let K : World → Prop := fun x => x.undelQueue = w.undelQueue ∧ x.undelIndex = w.undelIndex ∧ x.time = w.time
  let K' : World → Prop := fun x =>
    x.undelQueue = w.undelQueue.map (fun p => (p.1, p.2.map (slashedEntry v f w.time p.1.1))) ∧ x.undelIndex = w.undelIndex
  have fr : ∀ {α} {m : M α}, FrameUndel.Fr m → FrameStaking.Fr m → Hoare K m (fun _ x => K x) := by
    intro α m h1 h2
    constructor
    intro x x' a hm hx
    have a1 := h1.frame x; have a2 := h2.frame x
    rw [hm] at a1 a2
    simp only [FrameUndel.π, FrameStaking.π, Prod.mk.injEq] at a1 a2
    exact ⟨a1.1.trans hx.1, a1.2.trans hx.2.1, a2.2.1.trans hx.2.2⟩
  have fr' : ∀ {α} {m : M α}, FrameUndel.Fr m → Hoare K' m (fun _ x => K' x) := by
    intro α m h1
    constructor
    intro x x' a hm hx
    have a1 := h1.frame x
    rw [hm] at a1
    simp only [FrameUndel.π, Prod.mk.injEq] at a1
    exact ⟨a1.1.trans hx.1, a1.2.trans hx.2⟩
  have key : Hoare K (beforeValidatorSlashed v f) (fun _ x => K' x) := by
    unfold beforeValidatorSlashed slashValidator
    apply Hoare.bind (R := fun _ x => K' x)
    · apply Hoare.bind (fr (by u_frame) (by st_frame)); intro _
      apply Hoare.bind (fr (by u_frame) (by st_frame)); intro val
      apply Hoare.bind (R := fun _ x => K x)
      · apply fr
        · apply FrameUndel.foldlM
          intro acc share
          apply FrameUndel.bind (by u_frame); intro _
          apply FrameUndel.bind FrameUndel.getW; intro w1
          split
          · exact FrameUndel.throwE _
          · exact FrameUndel.bind (by u_frame) (fun _ => FrameUndel.pure _)
        · apply FrameStaking.foldlM
          intro acc share
          apply FrameStaking.bind (FrameStaking.liftE _); intro _
          apply FrameStaking.bind FrameStaking.getW; intro w1
          split
          · exact FrameStaking.throwE _
          · exact FrameStaking.bind (by st_frame) (fun _ => FrameStaking.pure _)
      · intro slashed
        apply Hoare.bind (fr (by u_frame) (by st_frame)); intro _
        apply Hoare.bind (fr (by u_frame) (by st_frame)); intro _
        constructor
        intro x x' a hm hx
        have hixx : IX x := by unfold IX; rw [hx.1, hx.2.1]; exact hix
        obtain ⟨r1, r2⟩ := slashUndelegations_exact v f x x' hixx hm
        exact ⟨by rw [r1, hx.1, hx.2.2], by rw [r2, hx.2.1]⟩
    · intro _; exact fr' (by u_frame)
  exact key.run w w' () h ⟨rfl, rfl, rfl⟩

end Alliance
