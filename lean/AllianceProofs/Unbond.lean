import AllianceProofs.TopUp
set_option linter.unusedVariables false
namespace Alliance
open Dec

theorem unbond_ident (ds sh T x D : Int) :
    (ds - sh) * (T - x) * D - (ds * T - x * D) * (D - sh) = (T * sh - x * D) * (ds - D) := by
  simp only [Int.sub_mul, Int.mul_sub]
  have m1 : ds * x * D = x * D * ds := by ac_rfl
  have m2 : sh * T * D = T * sh * D := by ac_rfl
  have m3 : sh * x * D = x * D * sh := by ac_rfl
  have m4 : ds * T * sh = T * sh * ds := by ac_rfl
  rw [m1, m2, m3, m4]
  omega

/-- C10, the arithmetic of a rebalance-down in x/staking's share model: the module holds `ds` of the validator's `D` shares
    backed by `T` tokens and unbonds `sh` of them for x = ⌊sh·T/D⌋ tokens. As exact rationals its stake value moves from
    ds·T/D to (ds−sh)·(T−x)/(D−sh), which lies in (ds·T/D − x − D/(D−sh), ds·T/D − x]: what is burned is what the stake
    lost, up to the truncation of x. Cross-multiplied by D·(D−sh). -/
theorem stake_value_after_unbond (ds sh T D : Int) (hD : 0 < D) (hds0 : 0 ≤ ds) (hds : ds ≤ D) (hsh0 : 0 ≤ sh) (hT : 0 ≤ T) :
    let x := (T * sh) / D
    (ds - sh) * (T - x) * D ≤ (ds * T - x * D) * (D - sh) ∧
    (ds * T - x * D) * (D - sh) < (ds - sh) * (T - x) * D + D * D := by
  intro x
  have h0 : 0 ≤ T * sh := Int.mul_nonneg hT hsh0
  have f1 : x * D ≤ T * sh := Int.ediv_mul_le _ (by omega)
  have f2 : T * sh < x * D + D := by
    have := Int.lt_ediv_add_one_mul_self (T * sh) hD
    have e : ((T * sh) / D + 1) * D = x * D + D := by rw [Int.add_mul, Int.one_mul]
    rw [e] at this; exact this
  have id := unbond_ident ds sh T x D
  have hr0 : 0 ≤ T * sh - x * D := by omega
  have hr1 : T * sh - x * D < D := by omega
  have p1 : (T * sh - x * D) * (ds - D) ≤ 0 := by
    have := Int.mul_nonneg hr0 (show 0 ≤ D - ds by omega)
    have e : (T * sh - x * D) * (D - ds) = -((T * sh - x * D) * (ds - D)) := by
      rw [show D - ds = -(ds - D) by omega, Int.mul_neg]
    rw [e] at this; omega
  have p2 : -(D * D) < (T * sh - x * D) * (ds - D) := by
    have a1 : (T * sh - x * D) * (D - ds) ≤ (T * sh - x * D) * D := Int.mul_le_mul_of_nonneg_left (by omega) hr0
    have a2 : (T * sh - x * D) * D < D * D := Int.mul_lt_mul_of_pos_right hr1 hD
    have e : (T * sh - x * D) * (D - ds) = -((T * sh - x * D) * (ds - D)) := by
      rw [show D - ds = -(ds - D) by omega, Int.mul_neg]
    rw [e] at a1; omega
  constructor <;> omega

end Alliance
