/-
  FlagSet.lean — C10 triggers: every operation that changes alliance stake, and every staking event the module is told
  about, leaves the rebalance flag set when it succeeds — so the next end-of-block rebalances.
-/
import AllianceProofs.RedelHistory
import AllianceModel.Msg
set_option linter.unusedVariables false
namespace Alliance
open Dec

def FlagOn (w : World) : Prop := w.flag = true

theorem queueRebalance_flag {P : World → Prop} : Hoare P queueRebalance (fun _ w => FlagOn w) := by
  unfold queueRebalance
  exact Hoare.modifyW _ (fun w _ => rfl)

macro "skip_step" : tactic => `(tactic| (apply Hoare.bind (R := fun _ _ => True) Hoare.triv; intro _))

theorem delegate_flag (del : Acct) (val : AVal) (d : Denom) (amt : Int) :
    Hoare (fun _ => True) (delegate del val d amt) (fun _ w => FlagOn w) := by
  unfold delegate
  apply Hoare.getW_bind; intro w0 _
  rcases getAsset w0 d with _ | a
  · exact Hoare.throwE _
  · dsimp only []
    skip_step; skip_step; skip_step; skip_step; skip_step; skip_step; skip_step; skip_step
    exact queueRebalance_flag

theorem undelegate_flag (del : Acct) (val : AVal) (d : Denom) (amt : Int) :
    Hoare (fun _ => True) (undelegate del val d amt) (fun _ w => FlagOn w) := by
  unfold undelegate
  apply Hoare.getW_bind; intro w0 _
  rcases getAsset w0 d with _ | a
  · exact Hoare.throwE _
  · dsimp only []
    skip_step; skip_step
    apply Hoare.getW_bind; intro w1 _
    try dsimp only []
    skip_step; skip_step; skip_step; skip_step; skip_step; skip_step; skip_step; skip_step; skip_step; skip_step; skip_step
    exact queueRebalance_flag

theorem redelegate_flag (del : Acct) (src dst : AVal) (d : Denom) (amt : Int) :
    Hoare (fun _ => True) (redelegate del src dst d amt) (fun _ w => FlagOn w) := by
  unfold redelegate
  skip_step
  apply Hoare.getW_bind; intro w0 _
  rcases getAsset w0 d with _ | a
  · exact Hoare.throwE _
  · dsimp only []
    skip_step; skip_step
    apply Hoare.getW_bind; intro w1 _
    try dsimp only []
    skip_step; skip_step; skip_step; skip_step
    apply Hoare.getW_bind; intro w2 _
    skip_step
    try dsimp only []
    skip_step; skip_step; skip_step; skip_step; skip_step; skip_step; skip_step; skip_step; skip_step; skip_step
    exact queueRebalance_flag

/-- C10: a successful delegation, undelegation, redelegation, slash callback, or any of the staking events the module
    hooks into, leaves the rebalance flag set -/
theorem stake_change_sets_flag (op : Op) (w w' : World)
    (hop : match op with
      | .delegate .. | .undelegate .. | .redelegate .. | .slash .. | .hookDelegationModified | .hookValidatorBonded
      | .hookValidatorBeginUnbonding | .hookDelegationRemoved | .hookValidatorRemoved _ => True
      | _ => False)
    (h : step op w = (.ok (), w')) : w'.flag = true := by
  have tx : ∀ (m : M Unit), Hoare (fun _ => True) m (fun _ w => FlagOn w) → asTx m w = (.ok (), w') → w'.flag = true :=
    fun m hm hr => (Hoare.asTx hm).run w w' () hr trivial
  cases op with
  | delegate del v d amt =>
    refine tx _ ?_ h
    unfold msgDelegate
    skip_step; skip_step
    exact delegate_flag _ _ _ _
  | undelegate del v d amt =>
    refine tx _ ?_ h
    unfold msgUndelegate
    skip_step; skip_step
    exact undelegate_flag _ _ _ _
  | redelegate del s t d amt =>
    refine tx _ ?_ h
    unfold msgRedelegate
    skip_step; skip_step; skip_step
    exact redelegate_flag _ _ _ _ _
  | slash v f =>
    have : Hoare (fun _ => True) (beforeValidatorSlashed v f) (fun _ w => FlagOn w) := by
      unfold beforeValidatorSlashed
      skip_step
      exact queueRebalance_flag
    exact this.run w w' () h trivial
  | hookDelegationModified => exact (queueRebalance_flag (P := fun _ => True)).run w w' () h trivial
  | hookValidatorBonded => exact (queueRebalance_flag (P := fun _ => True)).run w w' () h trivial
  | hookValidatorBeginUnbonding => exact (queueRebalance_flag (P := fun _ => True)).run w w' () h trivial
  | hookDelegationRemoved => exact (queueRebalance_flag (P := fun _ => True)).run w w' () h trivial
  | hookValidatorRemoved v =>
    have : Hoare (fun _ => True) (afterValidatorRemoved v) (fun _ w => FlagOn w) := by
      unfold afterValidatorRemoved
      skip_step
      exact queueRebalance_flag
    exact this.run w w' () h trivial
  | _ => exact absurd hop (by simp)

end Alliance
