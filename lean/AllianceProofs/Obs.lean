/-
  Obs.lean — additive observables: `Obs I φ δ m` says that whenever `m` succeeds from a state satisfying the (kept) side
  condition I, the integer observable φ of the state has moved by exactly δ. Deltas add up along `bind`; loops of neutral steps are neutral.
-/
import AllianceProofs.MonadLemmas
import AllianceProofs.Bank
set_option linter.unusedVariables false
namespace Alliance

structure Obs {α} (I : World → Prop) (φ : World → Int) (δ : Int) (m : M α) : Prop where
  run : ∀ w w' a, m w = (.ok a, w') → I w → φ w' = φ w + δ ∧ I w'

namespace Obs
variable {α β : Type} {I : World → Prop} {φ : World → Int} {δ δ' : Int}

theorem throwE (c : String) : Obs I φ δ (Alliance.throwE c : M α) := ⟨fun w w' a h => by simp at h⟩
theorem panicE (c : String) : Obs I φ δ (Alliance.panicE c : M α) := ⟨fun w w' a h => by simp at h⟩

theorem pure (a : α) : Obs I φ 0 (Pure.pure a : M α) := by
  constructor
  intro w w' a' h hi
  simp only [pure_apply] at h
  injection h with _ h2; subst h2; exact ⟨by omega, hi⟩

theorem cast {m : M α} (h : Obs I φ δ m) (e : δ = δ') : Obs I φ δ' m := e ▸ h

theorem bind {m : M α} {f : α → M β} {δ1 δ2 : Int} (hm : Obs I φ δ1 m) (hf : ∀ a, Obs I φ δ2 (f a)) :
    Obs I φ (δ1 + δ2) (m >>= f) := by
  constructor
  intro w w' b h hi
  simp only [bind_apply] at h
  rcases hmw : m w with ⟨r, w1⟩
  rw [hmw] at h
  cases r with
  | error e => simp at h
  | ok a =>
    simp only at h
    obtain ⟨h1, i1⟩ := hm.run w w1 a hmw hi
    obtain ⟨h2, i2⟩ := (hf a).run w1 w' b h i1
    exact ⟨by omega, i2⟩

theorem bind0 {m : M α} {f : α → M β} (hm : Obs I φ 0 m) (hf : ∀ a, Obs I φ δ (f a)) : Obs I φ δ (m >>= f) :=
  (bind hm hf).cast (by omega)

theorem getW_bind {f : World → M β} (h : ∀ w0, I w0 → Obs I φ δ (f w0)) : Obs I φ δ (Alliance.getW >>= f) := by
  constructor
  intro w w' b hm hi
  simp only [bind_apply, getW_apply] at hm
  exact (h w hi).run w w' b hm hi

theorem ite {c : Prop} [Decidable c] {m1 m2 : M α} (h1 : c → Obs I φ δ m1) (h2 : ¬c → Obs I φ δ m2) :
    Obs I φ δ (if c then m1 else m2) := by
  split
  · next h => exact h1 h
  · next h => exact h2 h

theorem forEachM {γ : Type} (f : γ → M Unit) (xs : List γ) (h : ∀ x ∈ xs, Obs I φ 0 (f x)) :
    Obs I φ 0 (Alliance.forEachM f xs) := by
  induction xs with
  | nil => exact pure ()
  | cons x r ih =>
    unfold Alliance.forEachM
    exact bind0 (h x (List.mem_cons_self ..)) (fun _ => ih (fun y hy => h y (List.mem_cons_of_mem _ hy)))

theorem foldlM {γ σ : Type} (f : σ → γ → M σ) (xs : List γ) (init : σ) (h : ∀ s, ∀ x ∈ xs, Obs I φ 0 (f s x)) :
    Obs I φ 0 (xs.foldlM f init) := by
  induction xs generalizing init with
  | nil => exact pure init
  | cons x r ih =>
    rw [List.foldlM_cons]
    exact bind0 (h init x (List.mem_cons_self ..)) (fun s => ih s (fun s' y hy => h s' y (List.mem_cons_of_mem _ hy)))

theorem asTx {m : M α} (h : Obs I φ δ m) : Obs I φ δ (Alliance.asTx m) := by
  constructor
  intro w w' a hm hi
  rw [asTx_apply] at hm
  rcases hmw : m w with ⟨r, w1⟩
  rw [hmw] at hm
  cases r with
  | error e => simp at hm
  | ok a' =>
    injection hm with h1 h2
    injection h1 with h1
    subst h1 h2
    exact h.run w w1 a' hmw hi

end Obs
end Alliance
