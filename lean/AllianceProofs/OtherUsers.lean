/-
  OtherUsers.lean — C04 at the level of bank balances: a delegation, undelegation, redelegation or claim by delegator `del`
  moves no coin of any denom into or out of the account of any OTHER user — only `del` and the system accounts (module,
  rewards pool, distribution, fee collector, staking pools) are debited or credited.
-/
import AllianceProofs.UserBal
import AllianceModel.Msg
set_option linter.unusedVariables false
namespace Alliance
open Dec

variable {u : Acct} {d : Denom}

theorem claimDelegationRewards_other (hu : IsUser u) (del : Acct) (hne : u ≠ del) (val : AVal) (dn : Denom) :
    BalT u d 0 (claimDelegationRewards del val dn) := by
  unfold claimDelegationRewards
  apply Obs.getW_bind; intro w0 _
  rcases getAsset w0 dn with _ | a
  · exact Obs.throwE _
  · dsimp only []
    apply Obs.ite
    · intro _; exact Obs.pure _
    · intro _
      rcases getDelegation w0 del val.id dn with _ | dl
      · exact Obs.throwE _
      · dsimp only []
        apply Obs.bind0 (claimValidatorRewards_user hu val); intro val1
        apply Obs.getW_bind; intro w1 _
        apply Obs.bind0 (by ub_frame); intro r
        apply Obs.bind0 (by ub_frame); intro _
        apply Obs.bind0 (sendCoins_user accPool del _ u d hu.2.2.1 hne); intro _
        exact Obs.pure _

theorem settleBeforeDeposit_other (hu : IsUser u) (del : Acct) (hne : u ≠ del) (val : AVal) (dn : Denom) :
    BalT u d 0 (settleBeforeDeposit del val dn) := by
  unfold settleBeforeDeposit
  apply Obs.getW_bind; intro w0 _
  rcases getDelegation w0 del val.id dn with _ | dl
  · exact claimValidatorRewards_user hu val
  · dsimp only []
    apply Obs.bind0 (claimDelegationRewards_other hu del hne val dn); intro r
    exact Obs.pure _

theorem delegate_other (hu : IsUser u) (del : Acct) (hne : u ≠ del) (val : AVal) (dn : Denom) (amt : Int) :
    BalT u d 0 (delegate del val dn amt) := by
  unfold delegate
  apply Obs.getW_bind; intro w0 _
  rcases getAsset w0 dn with _ | a
  · exact Obs.throwE _
  · dsimp only []
    apply Obs.bind0 (sendCoins_user del accModule _ u d hne hu.1); intro _
    apply Obs.bind0 (settleBeforeDeposit_other hu del hne val dn); intro val1
    apply Obs.bind0 (by ub_frame); intro _
    apply Obs.bind0 (by ub_frame); intro _
    apply Obs.bind0 (by ub_frame); intro _
    apply Obs.bind0 (by ub_frame); intro _
    apply Obs.bind0 (by ub_frame); intro _
    apply Obs.bind0 (by ub_frame); intro _
    ub_frame

theorem undelegate_other (hu : IsUser u) (del : Acct) (hne : u ≠ del) (val : AVal) (dn : Denom) (amt : Int) :
    BalT u d 0 (undelegate del val dn amt) := by
  unfold undelegate
  apply Obs.getW_bind; intro w0 _
  rcases getAsset w0 dn with _ | a
  · exact Obs.throwE _
  · dsimp only []
    apply Obs.bind0 (by ub_frame); intro _
    apply Obs.bind0 (claimDelegationRewards_other hu del hne val dn); intro r
    apply Obs.getW_bind; intro w1 _
    try dsimp only []
    apply Obs.bind0 (by ub_frame); intro _
    apply Obs.bind0 (by ub_frame); intro _
    apply Obs.bind0 (by ub_frame); intro _
    apply Obs.bind0 (by ub_frame); intro _
    apply Obs.bind0 (by ub_frame); intro _
    apply Obs.bind0 (by ub_frame); intro _
    apply Obs.bind0 (by ub_frame); intro _
    apply Obs.bind0 (by ub_frame); intro _
    apply Obs.bind0 (by ub_frame); intro val2
    apply Obs.bind0 (by ub_frame); intro _
    apply Obs.bind0 (by ub_frame); intro _
    ub_frame

theorem redelegate_other (hu : IsUser u) (del : Acct) (hne : u ≠ del) (src dst : AVal) (dn : Denom) (amt : Int) :
    BalT u d 0 (redelegate del src dst dn amt) := by
  unfold redelegate
  apply Obs.bind0 (by ub_frame); intro _
  apply Obs.getW_bind; intro w0 _
  rcases getAsset w0 dn with _ | a
  · exact Obs.throwE _
  · dsimp only []
    apply Obs.bind0 (by ub_frame); intro _
    apply Obs.bind0 (claimDelegationRewards_other hu del hne src dn); intro r
    apply Obs.getW_bind; intro w1 _
    try dsimp only []
    apply Obs.bind0 (settleBeforeDeposit_other hu del hne dst dn); intro dst1
    apply Obs.bind0 (by ub_frame); intro _
    apply Obs.bind0 (by ub_frame); intro _
    apply Obs.bind0 (by ub_frame); intro _
    apply Obs.getW_bind; intro w2 _
    apply Obs.bind0 (by ub_frame); intro _
    try dsimp only []
    apply Obs.bind0 (by ub_frame); intro _
    apply Obs.bind0 (by ub_frame); intro _
    apply Obs.bind0 (by ub_frame); intro _
    apply Obs.bind0 (by ub_frame); intro _
    apply Obs.bind0 (by ub_frame); intro _
    apply Obs.bind0 (by ub_frame); intro _
    apply Obs.bind0 (by ub_frame); intro _
    apply Obs.bind0 (by ub_frame); intro _
    apply Obs.bind0 (by ub_frame); intro _
    apply Obs.bind0 (by ub_frame); intro _
    ub_frame

/-- C04, bank side: a successful user operation by `del` leaves the balance of every OTHER user account, in every denom,
    exactly where it was -/
theorem other_users_untouched (op : Op) (del : Acct) (hu : IsUser u) (hne : u ≠ del) (w w' : World)
    (hop : match op with
      | .delegate a .. | .undelegate a .. | .redelegate a .. | .claim a .. => a = del
      | _ => False)
    (h : step op w = (.ok (), w')) : bankBalance w' u d = bankBalance w u d := by
  have tx : ∀ (m : M Unit), BalT u d 0 m → asTx m w = (.ok (), w') → bankBalance w' u d = bankBalance w u d := by
    intro m hm hr
    have := ((Obs.asTx hm).run w w' () hr trivial).1
    omega
  cases op with
  | delegate a v dn amt =>
    simp only at hop; subst hop
    refine tx _ ?_ h
    unfold msgDelegate
    apply Obs.bind0 (by ub_frame); intro _
    apply Obs.bind0 (by ub_frame); intro val
    exact delegate_other hu a hne val dn amt
  | undelegate a v dn amt =>
    simp only at hop; subst hop
    refine tx _ ?_ h
    unfold msgUndelegate
    apply Obs.bind0 (by ub_frame); intro _
    apply Obs.bind0 (by ub_frame); intro val
    exact undelegate_other hu a hne val dn amt
  | redelegate a s t dn amt =>
    simp only at hop; subst hop
    refine tx _ ?_ h
    unfold msgRedelegate
    apply Obs.bind0 (by ub_frame); intro _
    apply Obs.bind0 (by ub_frame); intro sv
    apply Obs.bind0 (by ub_frame); intro tv
    exact redelegate_other hu a hne sv tv dn amt
  | claim a v dn =>
    simp only at hop; subst hop
    refine tx _ ?_ h
    unfold msgClaim
    cases dn with
    | none => exact Obs.throwE _
    | some dd =>
      dsimp only []
      apply Obs.bind0 (by ub_frame); intro val
      apply Obs.bind0 (claimDelegationRewards_other hu a hne val dd); intro _
      exact Obs.pure _
  | _ => exact absurd hop (by simp)

end Alliance
