/-
  RedelHistory.lean — INV-R over the state machine: the three redelegation stores agree in every state of every history.
-/
import AllianceProofs.RedelInv
import AllianceProofs.IndexHistory
import AllianceProofs.FrameRedel
set_option linter.unusedVariables false
namespace Alliance
open Dec

def RX (w : World) : Prop := RdOK w.redels w.redelQueue w.redelIndex

theorem RX.frame {α} {m : M α} (h : FrameRedel.Fr m) : Hoare RX m (fun _ w => RX w) := by
  constructor
  intro w w' a hm hw
  have hf : FrameRedel.π w' = FrameRedel.π w := by have := h.frame w; rw [hm] at this; exact this
  simp only [FrameRedel.π, Prod.mk.injEq] at hf
  unfold RX; rw [hf.1, hf.2.1, hf.2.2]; exact hw

macro "r_frame" : tactic => `(tactic| (first | exact FrameRedel.liftE _ | exact FrameRedel.pure _ | exact FrameRedel.guardE _ _ | exact FrameRedel.guardP _ _ | (simp only [rframe]; done)))

theorem addRedelegation_state (del : Acct) (src dst : ValId) (d : Denom) (amt : Int) (t : Time) (w : World) :
    addRedelegation del src dst d amt t w = (.ok (), { w with
      redels := AL.set w.redels (del, d, dst, t)
        (match AL.get w.redels (del, d, dst, t) with
          | none => { del := del, src := src, dst := dst, denom := d, amount := amt }
          | some r => { r with amount := r.amount + amt }),
      redelIndex := setInsert w.redelIndex (src, t, d, dst, del),
      redelQueue := AL.set w.redelQueue t ((AL.get w.redelQueue t).getD [] ++ [{ del := del, src := src, dst := dst, denom := d, amount := amt }]) }) := by
  unfold addRedelegation queueRedelegation
  simp only [bind_apply, getW_apply, modifyW_apply]
  cases h : AL.get w.redelQueue t <;> simp [Option.getD] <;> (cases AL.get w.redels (del, d, dst, t) <;> rfl)

theorem addRedelegation_rx (del : Acct) (src dst : ValId) (d : Denom) (amt : Int) (t : Time) :
    Hoare RX (addRedelegation del src dst d amt t) (fun _ w => RX w) := by
  constructor
  intro w w' a hm hw
  rw [addRedelegation_state] at hm
  injection hm with _ h2
  subst h2
  exact RdOK.add hw del src dst d amt t _

/-! ### the nested erase loops of `CompleteRedelegations` -/

theorem inner_erase (t : Time) (es : List Redel) (w : World) :
    es.foldl (fun (w : World) (r : Redel) =>
        { w with redels := AL.erase w.redels (r.del, r.denom, r.dst, t),
                 redelIndex := w.redelIndex.erase (r.src, t, r.denom, r.dst, r.del) }) w =
      { w with redels := (es.map (redelKeyOf t)).foldl AL.erase w.redels,
               redelIndex := (es.map (redelIdxOf t)).foldl List.erase w.redelIndex } := by
  induction es generalizing w with
  | nil => rfl
  | cons r rest ih =>
    simp only [List.foldl_cons, List.map_cons]
    rw [ih]
    rfl

theorem outer_erase (ms : List (Time × List Redel)) (w : World) :
    ms.foldl (fun (w : World) (q : Time × List Redel) =>
        q.2.foldl (fun (w : World) (r : Redel) =>
          { w with redels := AL.erase w.redels (r.del, r.denom, r.dst, q.1),
                   redelIndex := w.redelIndex.erase (r.src, q.1, r.denom, r.dst, r.del) }) w) w =
      { w with redels := (keysR ms).foldl AL.erase w.redels, redelIndex := (keysI ms).foldl List.erase w.redelIndex } := by
  induction ms generalizing w with
  | nil => rfl
  | cons p rest ih =>
    simp only [List.foldl_cons]
    rw [inner_erase, ih]
    unfold keysR keysI
    simp only [List.flatMap_cons, List.foldl_append]

theorem completeRedelegations_state (w : World) :
    completeRedelegations w = (.ok (), { w with
      redels := (keysR (maturedR w.time w.redelQueue)).foldl AL.erase w.redels,
      redelIndex := (keysI (maturedR w.time w.redelQueue)).foldl List.erase w.redelIndex,
      redelQueue := w.redelQueue.filter fun p => !decide (p.1 < w.time) }) := by
  unfold completeRedelegations
  simp only [modifyW_apply]
  have hm : (w.redelQueue.filter fun (x : Time × List Redel) => match x with | (t, _) => decide (t < w.time)) = maturedR w.time w.redelQueue := by
    unfold maturedR; congr 1
  rw [hm, outer_erase]
  congr 2
  simp only
  apply List.filter_congr
  intro p _
  obtain ⟨t, es⟩ := p
  show decide (¬ t < w.time) = !decide (t < w.time)
  by_cases h : t < w.time <;> simp only [h, not_true_eq_false, not_false_eq_true, decide_true, decide_false, Bool.not_true, Bool.not_false]

theorem completeRedelegations_rx : Hoare RX completeRedelegations (fun _ w => RX w) := by
  constructor
  intro w w' a hm hw
  rw [completeRedelegations_state] at hm
  injection hm with _ h2
  subst h2
  exact (RdOK.complete hw w.time).1

theorem redelegate_rx (del : Acct) (src dst : AVal) (d : Denom) (amt : Int) :
    Hoare RX (redelegate del src dst d amt) (fun _ w => RX w) := by
  unfold redelegate
  apply Hoare.bind (RX.frame (by r_frame)); intro _
  apply Hoare.getW_bind; intro w0 hP
  apply Hoare.at_state hP
  rcases ha : getAsset w0 d with _ | a
  · exact Hoare.throwE _
  · dsimp only []
    apply Hoare.bind (RX.frame (by r_frame)); intro _
    apply Hoare.bind (RX.frame (by r_frame)); intro r
    apply Hoare.getW_bind; intro w1 hP1
    apply Hoare.at_state hP1
    try dsimp only []
    apply Hoare.bind (RX.frame (by r_frame)); intro _
    apply Hoare.bind (RX.frame (by r_frame)); intro _
    apply Hoare.bind (RX.frame (by r_frame)); intro _
    apply Hoare.bind (RX.frame (by r_frame)); intro _
    apply Hoare.getW_bind; intro w2 hP2
    apply Hoare.at_state hP2
    apply Hoare.bind (RX.frame (by r_frame)); intro _
    try dsimp only []
    apply Hoare.bind (RX.frame (by r_frame)); intro _
    apply Hoare.bind (RX.frame (by r_frame)); intro _
    apply Hoare.bind (RX.frame (by r_frame)); intro _
    apply Hoare.bind (RX.frame (by r_frame)); intro _
    apply Hoare.bind (RX.frame (by r_frame)); intro _
    apply Hoare.bind (RX.frame (by r_frame)); intro _
    apply Hoare.bind (RX.frame (by r_frame)); intro _
    apply Hoare.bind (RX.frame (by r_frame)); intro _
    apply Hoare.bind (RX.frame (by r_frame)); intro _
    apply Hoare.bind (addRedelegation_rx _ _ _ _ _ _); intro _
    exact RX.frame (by r_frame)

theorem msgRedelegate_rx (del : Acct) (src dst : ValId) (d : Denom) (amt : Int) :
    Hoare RX (msgRedelegate del src dst d amt) (fun _ w => RX w) := by
  unfold msgRedelegate
  apply Hoare.bind (RX.frame (by r_frame)); intro _
  apply Hoare.bind (RX.frame (by r_frame)); intro s
  apply Hoare.bind (RX.frame (by r_frame)); intro t
  exact redelegate_rx del s t d amt

theorem endBlocker_rest_frame (w2 : World) : FrameRedel.Fr (do
    let assets ← initializeAllianceAssets (allAssets w2)
    let assets ← deductAssetsHook assets
    let assets ← rewardWeightChangeHook assets
    rebalanceHook assets) := by
  apply FrameRedel.bind (by r_frame); intro as1
  apply FrameRedel.bind (by r_frame); intro as2
  apply FrameRedel.bind (by r_frame); intro as3
  r_frame

theorem endBlocker_rx : Hoare RX endBlocker (fun _ w => RX w) := by
  unfold endBlocker
  apply Hoare.bind completeRedelegations_rx; intro _
  apply Hoare.bind (RX.frame (by r_frame)); intro _
  apply Hoare.getW_bind; intro w0 hP
  apply Hoare.at_state hP
  dsimp only []
  exact RX.frame (endBlocker_rest_frame w0)

/-- every operation of the state machine, when it succeeds, keeps the three redelegation stores in agreement -/
theorem step_rx (op : Op) (w w' : World) (h : step op w = (.ok (), w')) (hrx : RX w) : RX w' := by
  have tx : ∀ (m : M Unit), Hoare RX m (fun _ w => RX w) → asTx m w = (.ok (), w') → RX w' :=
    fun m hm hr => (Hoare.asTx hm).run w w' () hr hrx
  cases op with
  | delegate del v d amt => exact tx _ (RX.frame (FrameRedel.msgDelegate del v d amt)) h
  | undelegate del v d amt => exact tx _ (RX.frame (FrameRedel.msgUndelegate del v d amt)) h
  | redelegate del s t d amt => exact tx _ (msgRedelegate_rx del s t d amt) h
  | claim del v d => exact tx _ (RX.frame (FrameRedel.msgClaim del v d)) h
  | createAlliance s f => exact tx _ (RX.frame (FrameRedel.msgCreateAlliance s f)) h
  | updateAlliance s f => exact tx _ (RX.frame (FrameRedel.msgUpdateAlliance s f)) h
  | deleteAlliance s d => exact tx _ (RX.frame (FrameRedel.msgDeleteAlliance s d)) h
  | updateParams s p => exact tx _ (RX.frame (FrameRedel.msgUpdateParams s p)) h
  | slash v f => exact (RX.frame (FrameRedel.beforeValidatorSlashed v f)).run w w' () h hrx
  | endBlock => exact endBlocker_rx.run w w' () h hrx
  | hookDelegationModified => exact (RX.frame FrameRedel.queueRebalance).run w w' () h hrx
  | hookValidatorBonded => exact (RX.frame FrameRedel.queueRebalance).run w w' () h hrx
  | hookValidatorBeginUnbonding => exact (RX.frame FrameRedel.queueRebalance).run w w' () h hrx
  | hookDelegationRemoved => exact (RX.frame FrameRedel.queueRebalance).run w w' () h hrx
  | hookValidatorRemoved v => exact (RX.frame (FrameRedel.afterValidatorRemoved v)).run w w' () h hrx
  | env => exact (RX.frame (FrameRedel.pure ())).run w w' () h hrx

/-- histories: operations (each on its own response tape), failed transactions, and environment steps that leave the
    three redelegation stores alone -/
inductive ReachR : World → World → Prop
  | refl (w : World) : ReachR w w
  | env {w w1 w2 : World} : ReachR w w1 → w2.redels = w1.redels → w2.redelQueue = w1.redelQueue →
      w2.redelIndex = w1.redelIndex → ReachR w w2
  | ok {w w1 w2 : World} (op : Op) (tape : List (ValId × Coins)) : ReachR w w1 →
      step op { w1 with oracle := tape } = (.ok (), w2) → ReachR w w2
  | failTx {w w1 : World} (op : Op) (tape : List (ValId × Coins)) (e : Err) : ReachR w w1 → op.isTx = true →
      (step op { w1 with oracle := tape }).1 = .error e → ReachR w (step op { w1 with oracle := tape }).2

/-- INV-R: records, queue and index of redelegations agree in every state of every history (no scope conditions) -/
theorem reach_rx (w w' : World) (hrx : RX w) (hr : ReachR w w') : RX w' := by
  induction hr with
  | refl => exact hrx
  | env _ h1 h2 h3 ih => unfold RX; rw [h1, h2, h3]; exact ih
  | ok op tape _ hs ih => exact step_rx op _ _ hs ih
  | failTx op tape e _ htx hf ih =>
    rw [step_tx_fail op _ e htx hf]
    exact ih

/-! ### what the agreement is for -/

/-- while an entry INTO validator `r.dst` is queued, `HasRedelegation(delegator, r.dst, denom)` holds -/
theorem pending_blocks_hop (w : World) (hrx : RX w) (t : Time) (es : List Redel) (hq : (t, es) ∈ w.redelQueue)
    (r : Redel) (hr : r ∈ es) : hasRedelegation w r.del r.dst r.denom = true := by
  obtain ⟨⟨x, hx⟩, _⟩ := hrx.q_rec (t, es) hq r hr
  unfold hasRedelegation
  rw [List.any_eq_true]
  refine ⟨(redelKeyOf t r, x), AL.get_some_mem _ _ _ hx, ?_⟩
  simp [redelKeyOf]

theorem Hoare.triv {α} {P : World → Prop} {m : M α} : Hoare P m (fun _ _ => True) := ⟨fun _ _ _ _ _ => trivial⟩

theorem addAssetsToRewardPool_id (val : AVal) (coins : Coins) :
    Hoare (fun _ => True) (addAssetsToRewardPool val coins) (fun r _ => r.id = val.id) := by
  unfold addAssetsToRewardPool
  apply Hoare.ite
  · intro _; exact Hoare.pure _ (fun _ _ => rfl)
  · intro _
    apply Hoare.getW_bind; intro w0 _
    try dsimp only []
    apply Hoare.bind (R := fun _ _ => True) Hoare.triv; intro _
    apply Hoare.bind (R := fun _ _ => True) Hoare.triv; intro _
    apply Hoare.bind (R := fun _ _ => True) Hoare.triv; intro _
    exact Hoare.pure _ (fun _ _ => rfl)

theorem claimValidatorRewards_id (val : AVal) :
    Hoare (fun _ => True) (claimValidatorRewards val) (fun r _ => r.id = val.id) := by
  unfold claimValidatorRewards
  apply Hoare.getW_bind; intro w0 _
  try dsimp only []
  apply Hoare.ite
  · intro _; exact Hoare.pure _ (fun _ _ => rfl)
  · intro _
    apply Hoare.bind (R := fun _ _ => True) Hoare.triv; intro cs
    apply Hoare.ite
    · intro _; exact Hoare.pure _ (fun _ _ => rfl)
    · intro _; exact (addAssetsToRewardPool_id val cs).conseq (fun _ _ => trivial) (fun _ _ q => q)

theorem claimDelegationRewards_id (del : Acct) (val : AVal) (d : Denom) :
    Hoare (fun _ => True) (claimDelegationRewards del val d) (fun r _ => r.2.id = val.id) := by
  unfold claimDelegationRewards
  apply Hoare.getW_bind; intro w0 _
  rcases ha : getAsset w0 d with _ | a
  · exact Hoare.throwE _
  · dsimp only []
    apply Hoare.ite
    · intro _; exact Hoare.pure _ (fun _ _ => rfl)
    · intro _
      rcases hd : getDelegation w0 del val.id d with _ | dl
      · exact Hoare.throwE _
      · dsimp only []
        apply Hoare.bind (R := fun r _ => r.id = val.id)
        · exact (claimValidatorRewards_id val).conseq (fun _ _ => trivial) (fun _ _ q => q)
        · intro val1
          apply Hoare.getW_bind; intro w1 hid
          apply Hoare.liftE_bind; intro r _
          apply Hoare.bind (R := fun _ _ => True) Hoare.triv; intro _
          apply Hoare.bind (R := fun _ _ => True) Hoare.triv; intro _
          exact Hoare.pure _ (fun _ _ => hid)

/-- … so a redelegation of that asset out of `r.dst` by the same delegator cannot succeed -/
theorem redelegate_fails_while_blocked (del : Acct) (src dst : AVal) (d : Denom) (amt : Int) :
    Hoare (fun w => hasRedelegation w del src.id d = true) (redelegate del src dst d amt) (fun _ _ => False) := by
  have fr : ∀ {α} {m : M α}, FrameRedel.Fr m →
      Hoare (fun w => hasRedelegation w del src.id d = true) m (fun _ w => hasRedelegation w del src.id d = true) := by
    intro α m h
    constructor
    intro w w' a hm hw
    have hf : FrameRedel.π w' = FrameRedel.π w := by have := h.frame w; rw [hm] at this; exact this
    simp only [FrameRedel.π, Prod.mk.injEq] at hf
    unfold hasRedelegation at *; rw [hf.1]; exact hw
  unfold redelegate
  apply Hoare.bind (fr (by r_frame)); intro _
  apply Hoare.getW_bind; intro w0 hP
  refine Hoare.at_state (P := fun w => hasRedelegation w del src.id d = true) hP ?_
  rcases ha : getAsset w0 d with _ | a
  · exact Hoare.throwE _
  · dsimp only []
    apply Hoare.bind (fr (by r_frame)); intro _
    apply Hoare.bind (R := fun r w => hasRedelegation w del src.id d = true ∧ r.2.id = src.id)
    · exact (Hoare.and (fr (by r_frame)) (claimDelegationRewards_id del src d)).conseq (fun w h => ⟨h, trivial⟩) (fun _ _ q => q)
    · intro r
      obtain ⟨c, src1⟩ := r
      refine Hoare.conseq (P' := fun w => hasRedelegation w del src.id d = true ∧ src1.id = src.id) (Q' := fun _ _ => False) ?_
        (fun w h => h) (fun _ _ q => q)
      by_cases hid : src1.id = src.id
      · refine Hoare.conseq (P' := fun w => hasRedelegation w del src.id d = true) (Q' := fun _ _ => False) ?_
          (fun w h => h.1) (fun _ _ q => q)
        dsimp only []
        apply Hoare.getW_bind; intro w1 hP1
        refine Hoare.at_state (P := fun w => hasRedelegation w del src.id d = true) hP1 ?_
        try dsimp only []
        apply Hoare.bind (fr (by r_frame)); intro _
        apply Hoare.bind (fr (by r_frame)); intro _
        apply Hoare.bind (fr (by r_frame)); intro _
        apply Hoare.bind (fr (by r_frame)); intro _
        apply Hoare.getW_bind; intro w2 hP2
        rw [hid]
        exact ⟨fun w w' b hm _ => by simp [bind_apply, guardE_apply, hP2] at hm⟩
      · exact ⟨fun w w' b hm hw => absurd hw.2 hid⟩

theorem getAllianceValidator_id (v : ValId) : Hoare (fun _ => True) (getAllianceValidator v) (fun r _ => r.id = v) := by
  unfold getAllianceValidator
  apply Hoare.getW_bind; intro w0 _
  rcases h1 : AL.get w0.staking.vals v with _ | sv
  · exact Hoare.throwE _
  · dsimp only []
    rcases h2 : AL.get w0.vals v with _ | info
    · dsimp only []
      apply Hoare.bind (R := fun _ _ => True) Hoare.triv; intro _
      exact Hoare.pure _ (fun _ _ => rfl)
    · exact Hoare.pure _ (fun _ _ => rfl)

/-- C15, the onward hop: in a state where the stores agree, while an entry of delegator `del` and denom `d` INTO validator
    `src` is queued, `MsgRedelegate` of that denom out of `src` by `del` does not succeed, whatever the amount and target -/
theorem hop_blocked (w : World) (hrx : RX w) (t : Time) (es : List Redel) (hq : (t, es) ∈ w.redelQueue)
    (r : Redel) (hr : r ∈ es) (dst : ValId) (amt : Int) (w' : World) :
    step (.redelegate r.del r.dst dst r.denom amt) w ≠ (.ok (), w') := by
  intro h
  have hb := pending_blocks_hop w hrx t es hq r hr
  have key : Hoare (fun w => hasRedelegation w r.del r.dst r.denom = true) (msgRedelegate r.del r.dst dst r.denom amt) (fun _ _ => False) := by
    have fr : ∀ {α} {m : M α}, FrameRedel.Fr m →
        Hoare (fun w => hasRedelegation w r.del r.dst r.denom = true) m (fun _ w => hasRedelegation w r.del r.dst r.denom = true) := by
      intro α m h
      constructor
      intro w w' a hm hw
      have hf : FrameRedel.π w' = FrameRedel.π w := by have := h.frame w; rw [hm] at this; exact this
      simp only [FrameRedel.π, Prod.mk.injEq] at hf
      unfold hasRedelegation at *; rw [hf.1]; exact hw
    unfold msgRedelegate
    apply Hoare.bind (fr (by r_frame)); intro _
    apply Hoare.bind (R := fun s w => hasRedelegation w r.del r.dst r.denom = true ∧ s.id = r.dst)
    · exact (Hoare.and (fr (by r_frame)) (getAllianceValidator_id r.dst)).conseq (fun w h => ⟨h, trivial⟩) (fun _ _ q => q)
    · intro s
      apply Hoare.bind (R := fun _ w => hasRedelegation w r.del r.dst r.denom = true ∧ s.id = r.dst)
      · constructor
        intro w1 w2 a hm hw
        exact ⟨(fr (by r_frame : FrameRedel.Fr (getAllianceValidator dst))).run w1 w2 a hm hw.1, hw.2⟩
      · intro tv
        by_cases hid : s.id = r.dst
        · have := redelegate_fails_while_blocked r.del s tv r.denom amt
          rw [hid] at this
          exact this.conseq (fun w h => h.1) (fun _ _ q => q)
        · exact ⟨fun w w' b hm hw => absurd hw.2 hid⟩
  exact (Hoare.asTx key).run w w' () h hb

/-- the redelegation stores after a successful end-of-block -/
theorem endBlocker_redel_state (w w' : World) (h : endBlocker w = (.ok (), w')) :
    w'.redels = (keysR (maturedR w.time w.redelQueue)).foldl AL.erase w.redels ∧
    w'.redelQueue = (w.redelQueue.filter fun p => !decide (p.1 < w.time)) ∧
    w'.redelIndex = (keysI (maturedR w.time w.redelQueue)).foldl List.erase w.redelIndex := by
  unfold endBlocker at h
  simp only [bind_apply] at h
  rw [completeRedelegations_state] at h
  simp only at h
  rcases h2 : completeUnbondings { w with
      redels := (keysR (maturedR w.time w.redelQueue)).foldl AL.erase w.redels,
      redelIndex := (keysI (maturedR w.time w.redelQueue)).foldl List.erase w.redelIndex,
      redelQueue := w.redelQueue.filter fun p => !decide (p.1 < w.time) } with ⟨r2, w2⟩
  rw [h2] at h
  have f2 := (by r_frame : FrameRedel.Fr completeUnbondings).frame { w with
      redels := (keysR (maturedR w.time w.redelQueue)).foldl AL.erase w.redels,
      redelIndex := (keysI (maturedR w.time w.redelQueue)).foldl List.erase w.redelIndex,
      redelQueue := w.redelQueue.filter fun p => !decide (p.1 < w.time) }
  rw [h2] at f2
  cases r2 with
  | error e => simp at h
  | ok y =>
    simp only [getW_apply] at h
    have f3 := (endBlocker_rest_frame w2).frame w2
    simp only [bind_apply] at f3
    rw [h] at f3
    simp only [FrameRedel.π, Prod.mk.injEq] at f2 f3
    exact ⟨f3.1.trans f2.1, f3.2.1.trans f2.2.1, f3.2.2.trans f2.2.2⟩

/-- C15, cleanup: in a state where the stores agree, a successful end-of-block leaves no record, no queue bucket and no
    index key whose completion time lies before the block time; every record that has not matured is still there -/
theorem endBlocker_cleans (w w' : World) (hrx : RX w) (h : endBlocker w = (.ok (), w')) :
    (∀ p ∈ w'.redels, ¬ p.1.2.2.2 < w.time) ∧ (∀ p ∈ w'.redelQueue, ¬ p.1 < w.time) ∧
    (∀ k ∈ w'.redelIndex, ¬ k.2.1 < w.time) ∧
    (∀ p ∈ w.redels, ¬ p.1.2.2.2 < w.time → p ∈ w'.redels) := by
  obtain ⟨e1, e2, e3⟩ := endBlocker_redel_state w w' h
  obtain ⟨_, c1, c2⟩ := RdOK.complete hrx w.time
  rw [e1, e2, e3]
  refine ⟨c1, ?_, c2, ?_⟩
  · intro p hp
    simp only [List.mem_filter, Bool.not_eq_eq_eq_not, Bool.not_true, decide_eq_false_iff_not] at hp
    exact hp.2
  · intro p hp hnl
    apply AL.mem_foldl_erase_of _ _ _ hp
    intro hk
    exact hnl (keysR_time w.time w.redelQueue _ hk).1

end Alliance
