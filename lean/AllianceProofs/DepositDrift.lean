/-
  DepositDrift.lean — C04, the tolerance as a theorem: how far a deposit by SOMEBODY ELSE moves the exact value of a
  position.  A position of `s` shares on a validator with `tds` delegator shares worth `V` (raw, 10¹⁸-scaled) tokens has
  the exact value s·V/tds.  A deposit of x base units issues Quo(tds, V)·x shares; with the validator's value moving to V'
  the exact value becomes s·V'/(tds + Quo(tds,V)·x).  Cross-multiplied:
      s·(V'·tds − V·tds')·10¹⁸ = s·x·(tds·10³⁶ − Quo(tds,V)·10¹⁸·V) + s·(V' − V − x·10¹⁸)·tds·10¹⁸
  and the first bracket lies in [−H·V, (H+1)·V] (one rounding of `Quo`).  So with V' = V + x·10¹⁸ the exact value of every
  other position moves by at most (½·10⁻¹⁸ + 10⁻³⁶)·x·(s/tds')·(V/tds) tokens — up, never down by more than ½·10⁻¹⁸ of
  that — and any error δ of the new validator value enters linearly as s·δ/tds'.
-/
import AllianceProofs.SplitBound
set_option linter.unusedVariables false
namespace Alliance
open Dec

theorem drift_ident (s V V' tds q x p : Int) :
    s * (V' * tds - V * (tds + q * x)) * p = s * x * (tds * (p * p) - q * p * V) + s * ((V' - V - x * p) * (tds * p)) := by
  simp only [Int.mul_sub, Int.sub_mul, Int.mul_add, Int.add_mul]
  have e1 : s * (V' * tds) * p = s * (V' * (tds * p)) := by ac_rfl
  have e2 : s * (V * tds) * p = s * (V * (tds * p)) := by ac_rfl
  have e3 : s * (V * (q * x)) * p = s * x * (q * p * V) := by ac_rfl
  have e4 : s * x * (tds * (p * p)) = s * (x * p * (tds * p)) := by ac_rfl
  rw [e1, e2, e3, e4]
  omega

/-- the exact-rational drift of another position under a deposit, cross-multiplied by tds·tds'·10¹⁸ -/
theorem deposit_drift (s tds V V' : Dec) (x : Int) (hs : 0 ≤ s) (htds : 0 ≤ tds) (hV : 0 < V) (hx : 0 ≤ x) :
    let tds' := tds + mulInt (quo tds V) x
    s * (V' * tds - V * tds') * P ≤ s * x * ((H + 1) * V) + s * ((V' - V - x * P) * (tds * P)) ∧
    s * x * (-(H * V)) + s * ((V' - V - x * P) * (tds * P)) ≤ s * (V' * tds - V * tds') * P := by
  intro tds'
  obtain ⟨q1, q2⟩ := quo_bounds tds V htds hV
  have hP2 : (P2 : Int) = P * P := by decide
  have id := drift_ident s V V' tds (quo tds V) x P
  have hsx : (0 : Int) ≤ s * x := Int.mul_nonneg hs hx
  -- the bracket tds·P² − q·P·V ∈ [−H·V, (H+1)·V]
  have bu : tds * (P * P) - quo tds V * P * V ≤ (H + 1) * V := by rw [← hP2]; unfold Dec at *; omega
  have bl : -(H * V) ≤ tds * (P * P) - quo tds V * P * V := by rw [← hP2]; unfold Dec at *; omega
  have u := Int.mul_le_mul_of_nonneg_left bu hsx
  have l := Int.mul_le_mul_of_nonneg_left bl hsx
  show s * (V' * tds - V * (tds + mulInt (quo tds V) x)) * P ≤ _ ∧ _ ≤ s * (V' * tds - V * (tds + mulInt (quo tds V) x)) * P
  unfold mulInt
  rw [id]
  unfold Dec at *
  constructor <;> omega

/-- with the validator's value moving by exactly the deposit, V' = V + x·10¹⁸ -/
theorem deposit_drift_exact_value (s tds V : Dec) (x : Int) (hs : 0 ≤ s) (htds : 0 ≤ tds) (hV : 0 < V) (hx : 0 ≤ x) :
    let tds' := tds + mulInt (quo tds V) x
    let V' := V + x * P
    s * (V' * tds - V * tds') * P ≤ s * x * ((H + 1) * V) ∧ s * x * (-(H * V)) ≤ s * (V' * tds - V * tds') * P := by
  intro tds' V'
  obtain ⟨a, b⟩ := deposit_drift s tds V V' x hs htds hV hx
  have z : s * ((V' - V - x * P) * (tds * P)) = 0 := by
    have : V' - V - x * P = 0 := by
      have key : ∀ (a b : Int), a + b - a - b = 0 := by intros; omega
      exact key V (x * P)
    rw [this]; simp
  rw [z] at a b
  exact ⟨by simpa using a, by simpa using b⟩

/-- the mirror for a withdrawal of x base units by somebody else in the unclamped branch of `ValidateDelegatedAmount`
    (Quo(tds,V)·x shares are removed, the validator's value falls by x): the exact value of every other position moves by at
    most (½·10⁻¹⁸ + 10⁻³⁶)·x·(s/tds')·(V/tds) — down, never up by more than ½·10⁻¹⁸ of that -/
theorem withdraw_drift_exact_value (s tds V : Dec) (x : Int) (hs : 0 ≤ s) (htds : 0 ≤ tds) (hV : 0 < V) (hx : 0 ≤ x) :
    let tds' := tds - mulInt (quo tds V) x
    let V' := V - x * P
    s * x * (-((H + 1) * V)) ≤ s * (V' * tds - V * tds') * P ∧ s * (V' * tds - V * tds') * P ≤ s * x * (H * V) := by
  intro tds' V'
  obtain ⟨q1, q2⟩ := quo_bounds tds V htds hV
  have hP2 : (P2 : Int) = P * P := by decide
  have id := drift_ident s V V' tds (quo tds V) (-x) P
  have hsx : (0 : Int) ≤ s * x := Int.mul_nonneg hs hx
  have bu : tds * (P * P) - quo tds V * P * V ≤ (H + 1) * V := by rw [← hP2]; unfold Dec at *; omega
  have bl : -(H * V) ≤ tds * (P * P) - quo tds V * P * V := by rw [← hP2]; unfold Dec at *; omega
  have u := Int.mul_le_mul_of_nonneg_left bu hsx
  have l := Int.mul_le_mul_of_nonneg_left bl hsx
  have z : s * ((V' - V - -x * P) * (tds * P)) = 0 := by
    have : V' - V - -x * P = 0 := by
      have key : ∀ (a b : Int), a - b - a - -b = 0 := by intros; omega
      have e : -x * P = -(x * P) := Int.neg_mul _ _
      rw [e]; exact key V (x * P)
    rw [this]; simp
  have e1 : tds' = tds + quo tds V * -x := by
    show tds - mulInt (quo tds V) x = _
    unfold mulInt; rw [Int.mul_neg]; unfold Dec at *; omega
  have e2 : s * -x * (tds * (P * P) - quo tds V * P * V) = -(s * x * (tds * (P * P) - quo tds V * P * V)) := by
    rw [Int.mul_neg, Int.neg_mul]
  rw [e1, id, z, e2]
  have n1 : s * x * (-((H + 1) * V)) = -(s * x * ((H + 1) * V)) := Int.mul_neg _ _
  have n2 : s * x * (-(H * V)) = -(s * x * (H * V)) := Int.mul_neg _ _
  rw [n1]
  rw [n2] at l
  unfold Dec at *
  constructor <;> omega

/-- the shares `Delegate` issues are those of the theorem -/
theorem deposit_shares (V tds : Dec) (x : Int) (htds : tds ≠ 0) (hV : V ≠ 0) :
    convertNewTokenToShares V tds x = .ok (mulInt (quo tds V) x) := by
  unfold convertNewTokenToShares; simp only [htds, hV, if_false]

/-- non-vacuity: 3 shares worth 10 tokens, deposit of 5: tds' = 4.5, exact value of a 1-share position 10/3 → 15/4.5 = 10/3 -/
example : let tds' := 3 * one + mulInt (quo (3 * one) (10 * one)) 5
    tds' = 4500000000000000000 ∧ (10 * one + 5 * P) * (3 * one) - (10 * one) * tds' = 0 := by decide

end Alliance
