/-
  DelsOnly.lean — record-level isolation: `DelsOf u m` says that m, whether it succeeds or fails, leaves every
  delegation record of every OTHER delegator exactly as it was, and keeps the records keyed by their own fields.
-/
import AllianceProofs.FrameDels
import AllianceProofs.AListLemmas
set_option linter.unusedVariables false
namespace Alliance
open Dec

/-- every delegation record is stored under the key made of its own fields -/
def KeyedDels (w : World) : Prop := ∀ p ∈ w.dels, p.1 = (p.2.del, p.2.val, p.2.denom)

structure DelsOf {α} (u : Acct) (m : M α) : Prop where
  run : ∀ w, KeyedDels w → KeyedDels (m w).2 ∧ ∀ k : DelKey, k.1 ≠ u → AL.get (m w).2.dels k = AL.get w.dels k

namespace DelsOf
variable {α β : Type} {u : Acct}

theorem ofFrame {m : M α} (h : FrameDels.Fr m) : DelsOf u m := by
  constructor
  intro w hk
  have hf : (m w).2.dels = w.dels := h.frame w
  exact ⟨by unfold KeyedDels; rw [hf]; exact hk, fun k _ => by rw [hf]⟩

theorem bind {m : M α} {f : α → M β} (hm : DelsOf u m) (hf : ∀ a, DelsOf u (f a)) : DelsOf u (m >>= f) := by
  constructor
  intro w hk
  obtain ⟨a1, b1⟩ := hm.run w hk
  simp only [bind_apply]
  rcases hmw : m w with ⟨r, w1⟩
  rw [hmw] at a1 b1
  cases r with
  | error e => exact ⟨a1, b1⟩
  | ok a =>
    obtain ⟨a2, b2⟩ := (hf a).run w1 a1
    exact ⟨a2, fun k hn => (b2 k hn).trans (b1 k hn)⟩

theorem getW_bind {f : World → M β} (h : ∀ w0, KeyedDels w0 → DelsOf u (f w0)) : DelsOf u (Alliance.getW >>= f) := by
  constructor
  intro w hk
  simp only [bind_apply, getW_apply]
  exact (h w hk).run w hk

theorem cast {u' : Acct} {m : M α} (h : DelsOf u m) (e : u = u') : DelsOf u' m := by subst e; exact h

theorem pure (a : α) : DelsOf u (Pure.pure a : M α) := ofFrame (FrameDels.pure a)
theorem throwE (c : String) : DelsOf u (Alliance.throwE c : M α) := ofFrame (FrameDels.throwE c)

theorem ite {c : Prop} [Decidable c] {m1 m2 : M α} (h1 : DelsOf u m1) (h2 : DelsOf u m2) :
    DelsOf u (if c then m1 else m2) := by split <;> assumption

theorem asTx {m : M α} (h : DelsOf u m) : DelsOf u (Alliance.asTx m) := by
  constructor
  intro w hk
  obtain ⟨a, b⟩ := h.run w hk
  rw [asTx_apply]
  rcases hmw : m w with ⟨r, w1⟩
  rw [hmw] at a b
  cases r with
  | ok x => exact ⟨a, b⟩
  | error e => exact ⟨hk, fun _ _ => rfl⟩

end DelsOf

theorem setDelegation_delsOf (dl : Delegation) : DelsOf dl.del (setDelegation dl) := by
  constructor
  intro w hk
  unfold setDelegation
  simp only [modifyW_apply]
  constructor
  · intro p hp
    rcases AL.mem_set _ _ _ _ hp with h | h
    · rw [h]
    · exact hk p h
  · intro k hn
    exact AL.get_set_ne _ _ _ _ (fun e => hn (by rw [e]))

theorem deleteDelegation_delsOf (del : Acct) (v : ValId) (d : Denom) : DelsOf del (deleteDelegation del v d) := by
  constructor
  intro w hk
  unfold deleteDelegation
  simp only [modifyW_apply]
  constructor
  · intro p hp; exact hk p (AL.mem_erase _ _ _ hp)
  · intro k hn
    exact AL.get_erase_ne _ _ _ (fun e => hn (by rw [e]))

/-- a record read under a delegator's key belongs to that delegator -/
theorem keyed_get {w : World} (hk : KeyedDels w) {del : Acct} {v : ValId} {d : Denom} {dl : Delegation}
    (h : getDelegation w del v d = some dl) : dl.del = del := by
  have := hk ((del, v, d), dl) (AL.get_some_mem _ _ _ h)
  simp only [Prod.mk.injEq] at this
  exact this.1.symm

macro "do_frame" : tactic => `(tactic| (apply DelsOf.ofFrame; first | exact FrameDels.liftE _ | exact FrameDels.pure _ | exact FrameDels.guardE _ _ | (simp only [dframe]; done)))

theorem claimDelegationRewards_delsOf (del : Acct) (val : AVal) (d : Denom) :
    DelsOf del (claimDelegationRewards del val d) := by
  unfold claimDelegationRewards
  apply DelsOf.getW_bind; intro w0 hk0
  split
  · exact DelsOf.throwE _
  · apply DelsOf.ite
    · exact DelsOf.pure _
    · split
      · exact DelsOf.throwE _
      · next dl hdl =>
        have hkey := keyed_get hk0 hdl
        apply DelsOf.bind (by do_frame); intro val1
        apply DelsOf.getW_bind; intro w1 _
        apply DelsOf.bind (by do_frame); intro r
        apply DelsOf.bind
        · have hk : ({ dl with hist := r.2, lastClaimHeight := w1.height } : Delegation).del = del := hkey
          exact (setDelegation_delsOf { dl with hist := r.2, lastClaimHeight := w1.height }).cast hk
        · intro _
          apply DelsOf.bind (by do_frame); intro _
          exact DelsOf.pure _

theorem settleBeforeDeposit_delsOf (del : Acct) (val : AVal) (d : Denom) : DelsOf del (settleBeforeDeposit del val d) := by
  unfold settleBeforeDeposit
  apply DelsOf.getW_bind; intro w0 _
  split
  · exact DelsOf.bind (claimDelegationRewards_delsOf del val d) (fun _ => DelsOf.pure _)
  · do_frame

theorem upsert_delsOf (del : Acct) (val : AVal) (d : Denom) (amt : Int) (a : Asset) :
    DelsOf del (upsertDelegationWithNewTokens del val d amt a) := by
  unfold upsertDelegationWithNewTokens
  apply DelsOf.bind (by do_frame); intro s
  apply DelsOf.getW_bind; intro w0 hk0
  dsimp only []
  split
  · exact DelsOf.bind (setDelegation_delsOf { del := del, val := val.id, denom := d, shares := s, hist := val.info.hist,
                                               lastClaimHeight := w0.height }) (fun _ => DelsOf.pure _)
  · next dl hdl =>
    have hk0' : dl.del = del := keyed_get hk0 hdl
    have hk : ({ dl with shares := dl.shares + s } : Delegation).del = del := hk0'
    exact DelsOf.bind ((setDelegation_delsOf { dl with shares := dl.shares + s }).cast hk) (fun _ => DelsOf.pure _)

theorem reduceDelegationShares_delsOf (del : Acct) (v : ValId) (d : Denom) (s : Dec) (dl : Delegation) :
    DelsOf del (reduceDelegationShares del v d s dl) := by
  unfold reduceDelegationShares
  dsimp only []
  split
  · exact deleteDelegation_delsOf del v d
  · exact setDelegation_delsOf { dl with del := del, val := v, denom := d, shares := dl.shares - s }

theorem clearDustShares_delsOf (del : Acct) (val : AVal) (a : Asset) : DelsOf del (clearDustShares del val a) := by
  unfold clearDustShares
  apply DelsOf.getW_bind; intro w0 hk0
  split
  · exact DelsOf.pure _
  · next dl hdl =>
    apply DelsOf.bind (by do_frame); intro left
    apply DelsOf.ite
    · apply DelsOf.bind
      · exact (deleteDelegation_delsOf dl.del val.id a.denom).cast (keyed_get hk0 hdl)
      · intro _
        apply DelsOf.bind (by do_frame); intro _
        exact DelsOf.pure _
    · exact DelsOf.pure _

theorem clearDustDelegation_delsOf (del : Acct) (val : AVal) (a : Asset) : DelsOf del (clearDustDelegation del val a) := by
  unfold clearDustDelegation
  apply DelsOf.bind (clearDustShares_delsOf del val a); intro x
  dsimp only []
  apply DelsOf.bind (by do_frame); intro _
  apply DelsOf.bind (by do_frame); intro _
  apply DelsOf.bind (by do_frame); intro _
  apply DelsOf.bind (by do_frame); intro _
  apply DelsOf.bind (by do_frame); intro _
  do_frame

/-- `Delegate` by `del` touches no delegation record of any other delegator -/
theorem delegate_delsOf (del : Acct) (val : AVal) (d : Denom) (amt : Int) : DelsOf del (delegate del val d amt) := by
  unfold delegate
  apply DelsOf.getW_bind; intro w0 _
  split
  · exact DelsOf.throwE _
  · apply DelsOf.bind (by do_frame); intro _
    apply DelsOf.bind (settleBeforeDeposit_delsOf del val d); intro val1
    apply DelsOf.bind (upsert_delsOf del val1 d amt _); intro _
    apply DelsOf.bind (by do_frame); intro _
    apply DelsOf.bind (by do_frame); intro _
    apply DelsOf.bind (by do_frame); intro _
    apply DelsOf.bind (by do_frame); intro _
    apply DelsOf.bind (by do_frame); intro _
    do_frame

theorem undelegate_delsOf (del : Acct) (val : AVal) (d : Denom) (amt : Int) : DelsOf del (undelegate del val d amt) := by
  unfold undelegate
  apply DelsOf.getW_bind; intro w0 _
  split
  · exact DelsOf.throwE _
  · apply DelsOf.bind (by do_frame); intro _
    apply DelsOf.bind (claimDelegationRewards_delsOf del val d); intro r
    apply DelsOf.getW_bind; intro w1 _
    apply DelsOf.bind (by do_frame); intro _
    apply DelsOf.bind (by do_frame); intro _
    apply DelsOf.bind (by do_frame); intro _
    apply DelsOf.bind (by do_frame); intro _
    apply DelsOf.bind (by do_frame); intro _
    apply DelsOf.bind (reduceDelegationShares_delsOf del _ d _ _); intro _
    apply DelsOf.bind (by do_frame); intro _
    apply DelsOf.bind (by do_frame); intro _
    apply DelsOf.bind (by do_frame); intro val2
    apply DelsOf.bind (clearDustDelegation_delsOf del val2 _); intro _
    apply DelsOf.bind (by do_frame); intro _
    do_frame

theorem redelegate_delsOf (del : Acct) (src dst : AVal) (d : Denom) (amt : Int) :
    DelsOf del (redelegate del src dst d amt) := by
  unfold redelegate
  apply DelsOf.bind (by do_frame); intro _
  apply DelsOf.getW_bind; intro w0 _
  split
  · exact DelsOf.throwE _
  · apply DelsOf.bind (by do_frame); intro _
    apply DelsOf.bind (claimDelegationRewards_delsOf del src d); intro r
    apply DelsOf.getW_bind; intro w1 _
    apply DelsOf.bind (settleBeforeDeposit_delsOf del dst d); intro dst1
    apply DelsOf.bind (by do_frame); intro _
    apply DelsOf.bind (by do_frame); intro _
    apply DelsOf.bind (by do_frame); intro _
    apply DelsOf.getW_bind; intro w2 _
    apply DelsOf.bind (by do_frame); intro _
    apply DelsOf.bind (by do_frame); intro _
    apply DelsOf.bind (reduceDelegationShares_delsOf del _ d _ _); intro _
    apply DelsOf.bind (by do_frame); intro _
    apply DelsOf.bind (by do_frame); intro _
    apply DelsOf.bind (by do_frame); intro src1
    apply DelsOf.bind (clearDustDelegation_delsOf del src1 _); intro _
    apply DelsOf.bind (upsert_delsOf del dst1 d amt _); intro _
    apply DelsOf.bind (by do_frame); intro _
    apply DelsOf.bind (by do_frame); intro _
    apply DelsOf.bind (by do_frame); intro _
    do_frame

end Alliance
