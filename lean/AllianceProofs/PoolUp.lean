/-
  PoolUp.lean — C12, the debit side: the rewards pool is debited by reward claims only. The end blocker (take rate, weight
  decay with its settlement of every validator, rebalancing with its claims of validator rewards), governance and the
  staking-event hooks never lower the pool's balance of any denom, for non-negative distribution responses.
-/
import AllianceProofs.BalT
import AllianceProofs.GapMono
import AllianceProofs.UserBal
set_option linter.unusedVariables false
namespace Alliance
open Dec

/-- m never lowers the pool balance of `d` (when it succeeds, from a state whose response tape is non-negative), keeps
    the tape non-negative, and its result satisfies R -/
structure PoolUp {α} (d : Denom) (m : M α) (R : α → Prop) : Prop where
  run : ∀ w w' a, m w = (.ok a, w') → OracleNonneg w →
    bankBalance w accPool d ≤ bankBalance w' accPool d ∧ OracleNonneg w' ∧ R a

namespace PoolUp
variable {α β : Type} {d : Denom}

theorem pure (a : α) {R : α → Prop} (h : R a) : PoolUp d (Pure.pure a : M α) R := by
  constructor
  intro w w' a' hm ho
  simp only [pure_apply] at hm
  injection hm with h1 h2; injection h1 with h1; subst h1 h2
  exact ⟨Int.le_refl _, ho, h⟩

theorem throwE (c : String) {R : α → Prop} : PoolUp d (Alliance.throwE c : M α) R := ⟨fun w w' a h => by simp at h⟩
theorem panicE (c : String) {R : α → Prop} : PoolUp d (Alliance.panicE c : M α) R := ⟨fun w w' a h => by simp at h⟩

theorem bind {m : M α} {f : α → M β} {R : α → Prop} {Q : β → Prop}
    (hm : PoolUp d m R) (hf : ∀ a, R a → PoolUp d (f a) Q) : PoolUp d (m >>= f) Q := by
  constructor
  intro w w' b h ho
  simp only [bind_apply] at h
  rcases hmw : m w with ⟨r, w1⟩
  rw [hmw] at h
  cases r with
  | error e => simp at h
  | ok a =>
    simp only at h
    obtain ⟨h1, o1, r1⟩ := hm.run w w1 a hmw ho
    obtain ⟨h2, o2, r2⟩ := (hf a r1).run w1 w' b h o1
    exact ⟨Int.le_trans h1 h2, o2, r2⟩

theorem weaken {m : M α} {R R' : α → Prop} (h : PoolUp d m R) (hr : ∀ a, R a → R' a) : PoolUp d m R' :=
  ⟨fun w w' a hm ho => let ⟨a1, a2, a3⟩ := h.run w w' a hm ho; ⟨a1, a2, hr a a3⟩⟩

theorem getW_bind {f : World → M β} {Q : β → Prop} (h : ∀ w0, PoolUp d (f w0) Q) : PoolUp d (Alliance.getW >>= f) Q := by
  constructor
  intro w w' b hm ho
  simp only [bind_apply, getW_apply] at hm
  exact (h w).run w w' b hm ho

theorem ite {c : Prop} [Decidable c] {m1 m2 : M α} {R : α → Prop} (h1 : PoolUp d m1 R) (h2 : PoolUp d m2 R) :
    PoolUp d (if c then m1 else m2) R := by
  split
  · exact h1
  · exact h2

theorem forEachM {γ : Type} (f : γ → M Unit) (xs : List γ) (h : ∀ x, PoolUp d (f x) (fun _ => True)) :
    PoolUp d (Alliance.forEachM f xs) (fun _ => True) := by
  induction xs with
  | nil => exact pure () trivial
  | cons x r ih => unfold Alliance.forEachM; exact bind (h x) (fun _ _ => ih)

theorem forEachM' {γ : Type} (f : γ → M Unit) (xs : List γ) (h : ∀ x ∈ xs, PoolUp d (f x) (fun _ => True)) :
    PoolUp d (Alliance.forEachM f xs) (fun _ => True) := by
  induction xs with
  | nil => exact pure () trivial
  | cons x r ih =>
    unfold Alliance.forEachM
    exact bind (h x (List.mem_cons_self ..)) (fun _ _ => ih (fun y hy => h y (List.mem_cons_of_mem _ hy)))

theorem foldlM {γ σ : Type} (f : σ → γ → M σ) (xs : List γ) (init : σ) (h : ∀ s x, PoolUp d (f s x) (fun _ => True)) :
    PoolUp d (xs.foldlM f init) (fun _ => True) := by
  induction xs generalizing init with
  | nil => exact pure init trivial
  | cons x r ih => rw [List.foldlM_cons]; exact bind (h init x) (fun s _ => ih s)

/-- anything that leaves the bank and the response tape alone -/
theorem ofFrame {m : M α} (h1 : FrameBS.Fr m) (h2 : FrameOB.Fr m) : PoolUp d m (fun _ => True) := by
  constructor
  intro w w' a hm ho
  have f1 := h1.frame w; have f2 := h2.frame w
  rw [hm] at f1 f2
  simp only [FrameBS.π, FrameOB.π, Prod.mk.injEq] at f1 f2
  refine ⟨by unfold bankBalance; rw [f1.1]; exact Int.le_refl _, by unfold OracleNonneg; rw [f2.1]; exact ho, trivial⟩

/-- a transfer that does not come out of the pool -/
theorem sendCoins (src dst : Acct) (cs : Coins) (hsrc : src ≠ accPool) (hn : dst = accPool → Coins.Nonneg cs) :
    PoolUp d (Alliance.sendCoins src dst cs) (fun _ => True) := by
  constructor
  intro w w' a hm ho
  have hb := sendCoins_spec src dst cs w w' hm accPool d
  have f2 := (FrameOB.sendCoins src dst cs).frame w
  rw [hm] at f2
  simp only [FrameOB.π, Prod.mk.injEq] at f2
  refine ⟨?_, by unfold OracleNonneg; rw [f2.1]; exact ho, trivial⟩
  rw [hb]
  have : ¬ accPool = src := fun e => hsrc e.symm
  simp only [this, if_false]
  by_cases hd : accPool = dst
  · simp only [hd, if_true]
    have := Coins.sumOf_nonneg cs (hn hd.symm) d
    omega
  · simp only [hd, if_false]; omega

theorem setBalance_other (a : Acct) (dn : Denom) (x : Int) (ha : a ≠ accPool) : PoolUp d (Alliance.setBalance a dn x) (fun _ => True) := by
  constructor
  intro w w' u hm ho
  unfold Alliance.setBalance at hm
  simp only [modifyW_apply] at hm
  injection hm with _ hm; subst hm
  refine ⟨?_, ho, trivial⟩
  have hne : ¬ (accPool, d) = (a, dn) := fun e => ha (by injection e with e1 _; exact e1.symm)
  unfold bankBalance
  simp only
  rw [AL.get_set_ne _ _ _ _ hne]; exact Int.le_refl _

theorem modifyW (f : World → World) (h : ∀ w, (f w).bank = w.bank ∧ (f w).oracle = w.oracle) :
    PoolUp d (Alliance.modifyW f) (fun _ => True) := by
  constructor
  intro w w' u hm ho
  simp only [modifyW_apply] at hm
  injection hm with _ hm; subst hm
  refine ⟨by unfold bankBalance; rw [(h w).1]; exact Int.le_refl _, by unfold OracleNonneg; rw [(h w).2]; exact ho, trivial⟩

theorem guardE (c : Prop) [Decidable c] (code : String) : PoolUp d (Alliance.guardE c code) (fun _ => True) := by
  unfold Alliance.guardE; split
  · exact throwE _
  · exact pure () trivial

theorem guardP (c : Prop) [Decidable c] (code : String) : PoolUp d (Alliance.guardP c code) (fun _ => True) := by
  unfold Alliance.guardP; split
  · exact panicE _
  · exact pure () trivial

theorem mintCoin (a : Acct) (dn : Denom) (x : Int) (ha : a ≠ accPool) : PoolUp d (Alliance.mintCoin a dn x) (fun _ => True) := by
  unfold Alliance.mintCoin
  apply getW_bind; intro w0
  apply bind (setBalance_other a dn _ ha); intro _ _
  exact modifyW _ (fun w => ⟨rfl, rfl⟩)

theorem burnCoin (a : Acct) (dn : Denom) (x : Int) (ha : a ≠ accPool) : PoolUp d (Alliance.burnCoin a dn x) (fun _ => True) := by
  unfold Alliance.burnCoin
  apply getW_bind; intro w0
  try dsimp only []
  apply bind (guardE _ _); intro _ _
  apply bind (setBalance_other a dn _ ha); intro _ _
  exact modifyW _ (fun w => ⟨rfl, rfl⟩)

/-- `WithdrawDelegationRewards`: the response is taken off the tape, paid by distribution to the module; it is non-negative -/
theorem withdrawRewards (v : ValId) : PoolUp d (Alliance.withdrawRewards v) Coins.Nonneg := by
  constructor
  intro w w' cs hm ho
  unfold Alliance.withdrawRewards at hm
  simp only [bind_apply, getW_apply] at hm
  rcases hor : w.oracle with _ | ⟨⟨v', cs'⟩, rest⟩
  · simp [hor] at hm
  · simp only [hor, bind_apply, guardE_apply] at hm
    by_cases hv : v' ≠ v
    · simp [hv] at hm
    · simp only [hv, if_false, modifyW_apply] at hm
      have hcs : Coins.Nonneg cs' := ho (v', cs') (by rw [hor]; exact List.mem_cons_self ..)
      have hrest : OracleNonneg { w with oracle := rest } := by
        intro p hp; exact ho p (by rw [hor]; exact List.mem_cons_of_mem _ hp)
      rcases hs : Alliance.sendCoins accDistr accModule cs' { w with oracle := rest } with ⟨r, w1⟩
      rw [hs] at hm
      cases r with
      | error e => simp at hm
      | ok u =>
        simp only [pure_apply] at hm
        injection hm with h1 h2; injection h1 with h1; subst h1 h2
        obtain ⟨a1, a2, _⟩ := (sendCoins (d := d) accDistr accModule cs' (by decide) (fun e => absurd e (by decide))).run _ _ u hs hrest
        exact ⟨a1, a2, hcs⟩

macro "pu_frame" : tactic => `(tactic| (apply PoolUp.ofFrame <;> first
  | exact FrameBS.liftE _ | exact FrameOB.liftE _ | exact FrameBS.pure _ | exact FrameOB.pure _
  | exact FrameBS.guardE _ _ | exact FrameOB.guardE _ _ | exact FrameBS.guardP _ _ | exact FrameOB.guardP _ _
  | (simp only [bsframe]; done) | (simp only [obframe]; done)))

theorem addAssetsToRewardPool (val : AVal) (coins : Coins) (hc : Coins.Nonneg coins) :
    PoolUp d (Alliance.addAssetsToRewardPool val coins) (fun _ => True) := by
  unfold Alliance.addAssetsToRewardPool
  apply ite
  · exact pure _ trivial
  · apply getW_bind; intro w0
    try dsimp only []
    apply bind (by pu_frame); intro _ _
    apply bind (by pu_frame); intro _ _
    apply bind (sendCoins accModule accPool coins (by decide) (fun _ => hc)); intro _ _
    exact pure _ trivial

theorem claimValidatorRewards (val : AVal) : PoolUp d (Alliance.claimValidatorRewards val) (fun _ => True) := by
  unfold Alliance.claimValidatorRewards
  apply getW_bind; intro w0
  try dsimp only []
  apply ite
  · exact pure _ trivial
  · apply bind (withdrawRewards _); intro cs hcs
    apply ite
    · exact pure _ trivial
    · exact addAssetsToRewardPool val cs hcs

theorem distrHookWithdraw (v : ValId) : PoolUp d (Alliance.distrHookWithdraw v) (fun _ => True) := by
  unfold Alliance.distrHookWithdraw
  exact bind (withdrawRewards v) (fun _ _ => pure _ trivial)

theorem stakingDelegate (v : ValId) (snap : SVal) (amt : Int) : PoolUp d (Alliance.stakingDelegate v snap amt) (fun _ => True) := by
  unfold Alliance.stakingDelegate
  apply bind (guardE _ _); intro _ _
  apply getW_bind; intro w0
  try dsimp only []
  apply bind (R := fun _ => True)
  · split
    · exact distrHookWithdraw v
    · exact pure _ trivial
  · intro _ _
    apply bind (R := fun _ => True)
    · apply sendCoins _ _ _ (by decide)
      intro e
      exfalso
      split at e <;> exact absurd e (by decide)
    · intro _ _
      apply getW_bind; intro w1
      try dsimp only []
      apply ite
      · apply bind (by pu_frame); intro _ _
        exact panicE _
      · apply bind (by pu_frame); intro _ _
        pu_frame

theorem stakingUnbond (v : ValId) (shares : Dec) : PoolUp d (Alliance.stakingUnbond v shares) (fun _ => True) := by
  unfold Alliance.stakingUnbond
  apply getW_bind; intro w0
  rcases getSVal w0 v with _ | sv
  · exact throwE _
  · dsimp only []
    rcases sv.modShares with _ | ds
    · exact throwE _
    · dsimp only []
      apply bind (distrHookWithdraw v); intro _ _
      apply bind (guardE _ _); intro _ _
      try dsimp only []
      apply bind (by pu_frame); intro _ _
      apply bind (guardP _ _); intro _ _
      apply bind (by pu_frame); intro _ _
      exact pure _ trivial

theorem rebalanceBondTokenWeights (assets : List Asset) : PoolUp d (Alliance.rebalanceBondTokenWeights assets) (fun _ => True) := by
  unfold Alliance.rebalanceBondTokenWeights
  apply getW_bind; intro w0
  try dsimp only []
  apply bind (R := fun _ => True)
  · apply foldlM; intro acc v
    apply bind (by pu_frame); intro _ _
    exact pure _ trivial
  · intro snaps _
    apply forEachM; intro validator
    apply getW_bind; intro w1
    try dsimp only []
    apply bind (R := fun _ => True)
    · apply foldlM; intro acc a
      apply ite
      · apply bind (by pu_frame); intro _ _
        exact pure _ trivial
      · try dsimp only []
        exact ite (pure _ trivial) (pure _ trivial)
    · intro expected _
      apply ite
      · try dsimp only []
        apply ite (pure _ trivial)
        apply bind (mintCoin _ _ _ (by decide)); intro _ _
        apply bind (claimValidatorRewards _); intro _ _
        exact stakingDelegate _ _ _
      · apply ite
        · try dsimp only []
          apply ite (pure _ trivial)
          apply bind (by pu_frame); intro _ _
          apply bind (claimValidatorRewards _); intro _ _
          apply bind (stakingUnbond _ _); intro _ _
          exact burnCoin _ _ _ (by decide)
        · exact pure _ trivial

theorem settleAllValidators (a : Asset) (c : Bool) (vals : List (ValId × ValInfo)) :
    PoolUp d (Alliance.settleAllValidators a c vals) (fun _ => True) := by
  unfold Alliance.settleAllValidators
  split
  · apply bind (R := fun _ => True)
    · apply forEachM; intro kv
      apply bind (by pu_frame); intro _ _
      apply bind (claimValidatorRewards _); intro _ _
      pu_frame
    · intro _ _; pu_frame
  · exact pure _ trivial

theorem updateAllianceAsset (na : Asset) : PoolUp d (Alliance.updateAllianceAsset na) (fun _ => True) := by
  unfold Alliance.updateAllianceAsset
  apply getW_bind; intro w0
  rcases getAsset w0 na.denom with _ | a
  · exact throwE _
  · dsimp only []
    apply bind (guardE _ _); intro _ _
    apply bind (settleAllValidators _ _ _); intro _ _
    apply getW_bind; intro w1
    pu_frame

theorem rewardWeightChangeHook_go (rest acc : List Asset) : PoolUp d (Alliance.rewardWeightChangeHook.go rest acc) (fun _ => True) := by
  induction rest generalizing acc with
  | nil => unfold Alliance.rewardWeightChangeHook.go; exact pure _ trivial
  | cons a r ih =>
    unfold Alliance.rewardWeightChangeHook.go
    apply getW_bind; intro w0
    apply ite (ih _)
    try dsimp only []
    split
    · apply bind (by pu_frame); intro _ _
      apply bind (updateAllianceAsset _); intro _ _
      exact ih _
    · exact panicE _

theorem deductAssetsHook (as : List Asset) : PoolUp d (Alliance.deductAssetsHook as) (fun _ => True) := by
  unfold Alliance.deductAssetsHook
  apply getW_bind; intro w0
  try dsimp only []
  apply ite _ (pure _ trivial)
  unfold Alliance.deductAssetsWithTakeRate
  apply getW_bind; intro w1
  apply ite
  · apply bind (by pu_frame); intro _ _
    exact pure _ trivial
  · try dsimp only []
    apply bind (guardP _ _); intro _ _
    · apply bind (R := fun _ => True)
      · apply forEachM; intro a
        apply ite
        · pu_frame
        · exact pure _ trivial
      · intro _ _
        apply ite
        · apply bind (by pu_frame); intro _ _
          exact pure _ trivial
        · apply ite
          · apply bind (sendCoins accModule accFee _ (by decide) (fun e => absurd e (by decide))); intro _ _
            apply bind (by pu_frame); intro _ _
            exact pure _ trivial
          · exact pure _ trivial

theorem rebalanceHook (as : List Asset) : PoolUp d (Alliance.rebalanceHook as) (fun _ => True) := by
  unfold Alliance.rebalanceHook
  apply getW_bind; intro w0
  apply ite _ (pure _ trivial)
  refine bind (R := fun _ => True) ?_ (fun _ _ => rebalanceBondTokenWeights as)
  exact modifyW _ (fun w => ⟨rfl, rfl⟩)

/-- the payout phase: every transfer goes from custody to an entry's delegator, none of whom is the pool -/
theorem completeUnbondings (w0 : World) (hq : ∀ p ∈ w0.undelQueue, ∀ e ∈ p.2, e.del ≠ accPool) :
    ∀ w w' a, w = w0 → Alliance.completeUnbondings w = (.ok a, w') → OracleNonneg w →
      bankBalance w accPool d ≤ bankBalance w' accPool d ∧ OracleNonneg w' := by
  intro w w' a e hm ho
  subst e
  have key : PoolUp d (do
      Alliance.forEachM payBucket (maturedBuckets w)
      let w ← Alliance.getW
      let bal := bankBalance w accModule w.staking.bondDenom
      if bal ≠ 0 then Alliance.burnCoin accModule w.staking.bondDenom bal else Pure.pure ()) (fun _ => True) := by
    apply bind (R := fun _ => True)
    · apply forEachM'
      intro b hb
      have hbq : b ∈ w.undelQueue := (List.mem_filter.mp hb).1
      unfold payBucket
      refine bind (R := fun _ => True) ?_ (fun _ _ => modifyW _ (fun w => ⟨rfl, rfl⟩))
      apply forEachM'
      intro e he
      unfold payEntry
      refine bind (R := fun _ => True) (sendCoins accModule e.del _ (by decide) (fun ep => absurd ep (hq b hbq e he))) (fun _ _ => ?_)
      exact modifyW _ (fun w => ⟨rfl, rfl⟩)
    · intro _ _
      apply getW_bind; intro w1
      try dsimp only []
      exact ite (burnCoin _ _ _ (by decide)) (pure _ trivial)
  unfold Alliance.completeUnbondings at hm
  simp only [bind_apply, getW_apply] at hm
  have := key.run w w' a (by simp only [bind_apply, getW_apply]; exact hm) ho
  exact ⟨this.1, this.2.1⟩

end PoolUp

/-- C12, debit side: a successful end-of-block never lowers the rewards pool's balance of any denom, for non-negative
    distribution responses (and no pending unbonding entry naming the pool account as delegator) -/
theorem endBlocker_never_debits_pool (d : Denom) (w w' : World) (ho : OracleNonneg w)
    (hq : ∀ p ∈ w.undelQueue, ∀ e ∈ p.2, e.del ≠ accPool) (h : endBlocker w = (.ok (), w')) :
    bankBalance w accPool d ≤ bankBalance w' accPool d := by
  unfold endBlocker at h
  simp only [bind_apply] at h
  rcases h1 : completeRedelegations w with ⟨r1, w1⟩
  rw [h1] at h
  have hcr : PoolUp d completeRedelegations (fun _ => True) := by
    apply PoolUp.ofFrame <;> first | (simp only [bsframe]; done) | (simp only [obframe]; done)
  cases r1 with
  | error e => simp at h
  | ok x =>
    simp only at h
    obtain ⟨a1, o1, _⟩ := hcr.run w w1 x h1 ho
    have hq1 : w1.undelQueue = w.undelQueue := by
      have := (FrameUQ.completeRedelegations).frame w
      rw [h1] at this; exact this
    rcases h2 : completeUnbondings w1 with ⟨r2, w2⟩
    rw [h2] at h
    cases r2 with
    | error e => simp at h
    | ok y =>
      simp only [getW_apply] at h
      obtain ⟨a2, o2⟩ := PoolUp.completeUnbondings (d := d) w1 (by rw [hq1]; exact hq) w1 w2 y rfl h2 o1
      have hrest : PoolUp d (do
          let assets ← initializeAllianceAssets (allAssets w2)
          let assets ← deductAssetsHook assets
          let assets ← rewardWeightChangeHook assets
          rebalanceHook assets) (fun _ => True) := by
        apply PoolUp.bind (R := fun _ => True)
        · apply PoolUp.ofFrame <;> first | (simp only [bsframe]; done) | (simp only [obframe]; done)
        · intro as1 _
          apply PoolUp.bind (PoolUp.deductAssetsHook as1); intro as2 _
          apply PoolUp.bind (R := fun _ => True)
          · unfold rewardWeightChangeHook; exact PoolUp.rewardWeightChangeHook_go _ _
          · intro as3 _; exact PoolUp.rebalanceHook as3
      obtain ⟨a3, _, _⟩ := hrest.run w2 w' () (by simpa only [bind_apply] using h) o2
      omega

end Alliance
