/-
  ClaimBound.lean — C13: what one claimed history entry pays, against the exact product, and end to end against the
  position's pro-rata part of the reward.
    * `claim_entry_bound`: TruncateInt(Mul(Δ, t)) for an index difference Δ and token value t is within one base unit
      (and half a unit of the 18th digit of the product) of Δ·t:   paid·10³⁶ ≤ Δ·t + H   and   Δ·t − H < (paid+1)·10³⁶
    * `position_payout_bound`: a reward part m (raw) spread over token value tt and claimed at once by a position of
      token value t pays at most m·t/tt + ½·10⁻¹⁸·t + ½·10⁻¹⁸ (rounded down to a base unit), and at least that minus
      one base unit and the same roundings — cross-multiplied by 10⁵⁴·tt.
-/
import AllianceProofs.SplitBound
set_option linter.unusedVariables false
namespace Alliance
open Dec

theorem claim_entry_bound (Δ t : Dec) (hΔ : 0 ≤ Δ) (ht : 0 ≤ t) :
    let paid := truncateInt (mul Δ t)
    paid * P * P ≤ Δ * t + H ∧ Δ * t - H < (paid + 1) * P * P := by
  intro paid
  have hm : 0 ≤ mul Δ t := mul_nonneg _ _ hΔ ht
  obtain ⟨t1, t2⟩ := truncateInt_bounds (mul Δ t) hm
  obtain ⟨m1, m2⟩ := mul_bounds Δ t
  have hP : (0 : Int) ≤ P := by decide
  have hP' : (0 : Int) < P := by decide
  have a1 : paid * P * P ≤ mul Δ t * P := Int.mul_le_mul_of_nonneg_right t1 hP
  have a2 : mul Δ t * P < (paid + 1) * P * P := Int.mul_lt_mul_of_pos_right t2 hP'
  unfold Dec at *
  constructor <;> omega

theorem payout_ident (paid p tt bump t m h : Int) :
    (bump * t + h) * (p * tt) = bump * p * tt * t + h * (p * tt) := by
  rw [Int.add_mul]
  have e : bump * t * (p * tt) = bump * p * tt * t := by ac_rfl
  rw [e]

/-- end to end, upper side: what a position of token value `t` is paid from a reward part `m` spread by one index move
    over token value `tt`, claimed at once -/
theorem position_payout_upper (m tt t : Dec) (hm : 0 ≤ m) (htt : 0 < tt) (ht : 0 ≤ t) :
    let bump := quo m tt
    let paid := truncateInt (mul bump t)
    paid * P * P * (P * tt) ≤ m * P2 * t + H * tt * t + H * (P * tt) := by
  intro bump paid
  have hb : 0 ≤ bump := quo_nonneg m tt hm htt
  obtain ⟨c1, _⟩ := claim_entry_bound bump t hb ht
  obtain ⟨q1, _⟩ := quo_bounds m tt hm htt
  have hPtt : (0 : Int) ≤ P * tt := Int.mul_nonneg (by decide) (by unfold Dec at *; omega)
  have s1 : paid * P * P * (P * tt) ≤ (bump * t + H) * (P * tt) := Int.mul_le_mul_of_nonneg_right c1 hPtt
  rw [payout_ident paid P tt bump t m H] at s1
  have s2 : bump * P * tt * t ≤ (m * P2 + H * tt) * t := Int.mul_le_mul_of_nonneg_right q1 (by unfold Dec at *; omega)
  rw [Int.add_mul] at s2
  unfold Dec at *
  omega

/-- … and lower side: at least that, minus one base unit and the roundings -/
theorem position_payout_lower (m tt t : Dec) (hm : 0 ≤ m) (htt : 0 < tt) (ht : 0 ≤ t) :
    let bump := quo m tt
    let paid := truncateInt (mul bump t)
    m * P2 * t ≤ (paid + 1) * P * P * (P * tt) + (H + 1) * tt * t + H * (P * tt) := by
  intro bump paid
  have hb : 0 ≤ bump := quo_nonneg m tt hm htt
  obtain ⟨_, c2⟩ := claim_entry_bound bump t hb ht
  obtain ⟨_, q2⟩ := quo_bounds m tt hm htt
  have hPtt : (0 : Int) ≤ P * tt := Int.mul_nonneg (by decide) (by unfold Dec at *; omega)
  have c2 : bump * t - H < (paid + 1) * P * P := c2
  have c2' : bump * t ≤ (paid + 1) * P * P + H := by unfold Dec at *; omega
  have s1 : bump * t * (P * tt) ≤ ((paid + 1) * P * P + H) * (P * tt) := Int.mul_le_mul_of_nonneg_right c2' hPtt
  rw [Int.add_mul] at s1
  have e : bump * t * (P * tt) = bump * P * tt * t := by ac_rfl
  rw [e] at s1
  have s2 : m * P2 * t ≤ (bump * P * tt + (H + 1) * tt) * t := Int.mul_le_mul_of_nonneg_right q2 (by unfold Dec at *; omega)
  rw [Int.add_mul] at s2
  unfold Dec at *
  omega

/-- non-vacuity: a part of 10 tokens (raw 10·10¹⁸) over 4 staked tokens, position of 1 token: 2.5 → pays 2 -/
example : truncateInt (mul (quo (10 * one) 4) 1) = 2 := by decide

end Alliance
