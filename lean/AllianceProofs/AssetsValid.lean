/-
  INV-A — every stored asset satisfies 0 ≤ takeRate < 1, min ≤ weight ≤ max, changeRate > 0, changeInterval ≥ 0,
  in every state reachable by any sequence of operations (C16, and the range part of C14).
  Part 1: frame lemmas for everything that never writes the asset store.
-/
import AllianceProofs.PresR
import AllianceProofs.AListLemmas
import AllianceProofs.Attr
namespace Alliance
open Dec

def AssetValid (a : Asset) : Prop :=
  0 ≤ a.takeRate ∧ a.takeRate < one ∧ a.wmin ≤ a.weight ∧ a.weight ≤ a.wmax ∧ 0 < a.changeRate ∧ 0 ≤ a.changeIntv

def AssetsValid (w : World) : Prop := ∀ p ∈ w.assets, AssetValid p.2

/-- `m` never changes the asset store, on success or failure -/
structure AFrame {α} (m : M α) : Prop where
  frame : ∀ w, (m w).2.assets = w.assets

namespace AFrame
variable {α β : Type}
theorem pure (a : α) : AFrame (Pure.pure a : M α) := ⟨fun _ => rfl⟩
theorem getW : AFrame getW := ⟨fun _ => rfl⟩
theorem throwE (c : String) : AFrame (throwE c : M α) := ⟨fun _ => rfl⟩
theorem panicE (c : String) : AFrame (panicE c : M α) := ⟨fun _ => rfl⟩
theorem guardE (c : Prop) [Decidable c] (code : String) : AFrame (guardE c code) := by
  constructor; intro w; unfold Alliance.guardE; split <;> rfl
theorem guardP (c : Prop) [Decidable c] (code : String) : AFrame (guardP c code) := by
  constructor; intro w; unfold Alliance.guardP; split <;> rfl
theorem requireSome (x : Option α) (code : String) : AFrame (requireSome x code) := by
  constructor; intro w; unfold Alliance.requireSome; cases x <;> rfl
theorem requireSomeP (x : Option α) : AFrame (requireSomeP x) := by
  constructor; intro w; unfold Alliance.requireSomeP; cases x <;> rfl
theorem liftE (x : Except Err α) : AFrame (liftE x) := by constructor; intro w; cases x <;> rfl
theorem modifyW (f : World → World) (h : ∀ w, (f w).assets = w.assets) : AFrame (modifyW f) := ⟨fun w => h w⟩
theorem bind {m : M α} {f : α → M β} (hm : AFrame m) (hf : ∀ a, AFrame (f a)) : AFrame (m >>= f) := by
  constructor
  intro w
  simp only [bind_apply]
  have h1 := hm.frame w
  rcases hmw : m w with ⟨r, w'⟩
  rw [hmw] at h1
  cases r with
  | ok a => simp only; rw [(hf a).frame w', h1]
  | error e => exact h1
theorem forEachM {γ : Type} (f : γ → M Unit) (xs : List γ) (h : ∀ x, AFrame (f x)) : AFrame (forEachM f xs) := by
  induction xs with
  | nil => exact pure ()
  | cons x t ih => unfold Alliance.forEachM; exact bind (h x) (fun _ => ih)
theorem foldlM {γ σ : Type} (f : σ → γ → M σ) (xs : List γ) (init : σ) (h : ∀ s x, AFrame (f s x)) :
    AFrame (xs.foldlM f init) := by
  induction xs generalizing init with
  | nil => exact pure init
  | cons x t ih => rw [List.foldlM_cons]; exact bind (h init x) (fun s => ih s)
theorem asTx {m : M α} (hm : AFrame m) : AFrame (asTx m) := by
  constructor
  intro w
  rw [asTx_apply]
  have h1 := hm.frame w
  rcases hmw : m w with ⟨r, w'⟩
  rw [hmw] at h1
  cases r with
  | ok a => exact h1
  | error e => rfl
end AFrame

/-- the frame walker: structural rules, `split` on ifs and matches, registered frame lemmas at the leaves -/
macro "aframe" : tactic => `(tactic| repeat' (first
  | apply AFrame.pure | apply AFrame.getW | apply AFrame.throwE | apply AFrame.panicE | apply AFrame.liftE
  | apply AFrame.guardE | apply AFrame.guardP | apply AFrame.requireSome | apply AFrame.requireSomeP
  | (apply AFrame.modifyW; intro _; rfl)
  | (simp only [aframe]; done)
  | apply AFrame.forEachM | apply AFrame.foldlM
  | apply AFrame.bind
  | intro _
  | split
  | (dsimp only [])))

@[aframe] theorem setBalance_frame (a : Acct) (d : Denom) (x : Int) : AFrame (setBalance a d x) := by
  unfold setBalance; aframe
@[aframe] theorem sendCoin_frame (s t : Acct) (d : Denom) (x : Int) : AFrame (sendCoin s t d x) := by
  unfold sendCoin; aframe
@[aframe] theorem sendCoins_frame (s t : Acct) (cs : Coins) : AFrame (sendCoins s t cs) := by
  unfold sendCoins; aframe
@[aframe] theorem mintCoin_frame (a : Acct) (d : Denom) (x : Int) : AFrame (mintCoin a d x) := by
  unfold mintCoin; aframe
@[aframe] theorem burnCoin_frame (a : Acct) (d : Denom) (x : Int) : AFrame (burnCoin a d x) := by
  unfold burnCoin; aframe
@[aframe] theorem withdrawRewards_frame (v : ValId) : AFrame (withdrawRewards v) := by
  unfold withdrawRewards; aframe
@[aframe] theorem setDelegation_frame (dl : Delegation) : AFrame (setDelegation dl) := by
  unfold setDelegation; aframe
@[aframe] theorem deleteDelegation_frame (a : Acct) (v : ValId) (d : Denom) : AFrame (deleteDelegation a v d) := by
  unfold deleteDelegation; aframe
@[aframe] theorem setValInfo_frame (v : ValId) (i : ValInfo) : AFrame (setValInfo v i) := by
  unfold setValInfo; aframe
@[aframe] theorem setValidator_frame (v : AVal) : AFrame (setValidator v) := by
  unfold setValidator; aframe
@[aframe] theorem queueRebalance_frame : AFrame queueRebalance := by
  unfold queueRebalance; aframe
@[aframe] theorem getAllianceValidator_frame (v : ValId) : AFrame (getAllianceValidator v) := by
  unfold getAllianceValidator; aframe
@[aframe] theorem addAssetsToRewardPool_frame (v : AVal) (cs : Coins) : AFrame (addAssetsToRewardPool v cs) := by
  unfold addAssetsToRewardPool; aframe
@[aframe] theorem claimValidatorRewards_frame (v : AVal) : AFrame (claimValidatorRewards v) := by
  unfold claimValidatorRewards; aframe
@[aframe] theorem claimDelegationRewards_frame (a : Acct) (v : AVal) (d : Denom) : AFrame (claimDelegationRewards a v d) := by
  unfold claimDelegationRewards; aframe
@[aframe] theorem settleBeforeDeposit_frame (a : Acct) (v : AVal) (d : Denom) : AFrame (settleBeforeDeposit a v d) := by
  unfold settleBeforeDeposit; aframe
@[aframe] theorem updateValidatorShares_frame (v : AVal) (a b : DecCoins) (c : Bool) : AFrame (updateValidatorShares v a b c) := by
  unfold updateValidatorShares; aframe
@[aframe] theorem upsertDelegation_frame (a : Acct) (v : AVal) (d : Denom) (x : Int) (as : Asset) :
    AFrame (upsertDelegationWithNewTokens a v d x as) := by
  unfold upsertDelegationWithNewTokens; aframe
@[aframe] theorem reduceDelegationShares_frame (a : Acct) (v : ValId) (d : Denom) (s : Dec) (dl : Delegation) :
    AFrame (reduceDelegationShares a v d s dl) := by
  unfold reduceDelegationShares; aframe
@[aframe] theorem clearDustShares_frame (a : Acct) (v : AVal) (as : Asset) : AFrame (clearDustShares a v as) := by
  unfold clearDustShares; aframe
@[aframe] theorem queueUndelegation_frame (a : Acct) (v : ValId) (d : Denom) (x : Int) : AFrame (queueUndelegation a v d x) := by
  unfold queueUndelegation; aframe
@[aframe] theorem queueRedelegation_frame (r : Redel) (t : Time) : AFrame (queueRedelegation r t) := by
  unfold queueRedelegation; aframe
@[aframe] theorem addRedelegation_frame (a : Acct) (s t : ValId) (d : Denom) (x : Int) (c : Time) :
    AFrame (addRedelegation a s t d x c) := by
  unfold addRedelegation; aframe
@[aframe] theorem completeRedelegations_frame : AFrame completeRedelegations := by
  unfold completeRedelegations
  apply AFrame.modifyW
  intro w
  simp only
  have key : ∀ (qs : List (Time × List Redel)) (w0 : World),
      (qs.foldl (fun (w : World) (q : Time × List Redel) =>
        q.2.foldl (fun (w : World) (r : Redel) =>
          { w with redels := AL.erase w.redels (r.del, r.denom, r.dst, q.1),
                   redelIndex := w.redelIndex.erase (r.src, q.1, r.denom, r.dst, r.del) }) w) w0).assets = w0.assets := by
    intro qs
    induction qs with
    | nil => intro w0; rfl
    | cons q t ih =>
      intro w0
      rw [List.foldl_cons, ih]
      have inner : ∀ (rs : List Redel) (w1 : World),
          (rs.foldl (fun (w : World) (r : Redel) =>
            { w with redels := AL.erase w.redels (r.del, r.denom, r.dst, q.1),
                     redelIndex := w.redelIndex.erase (r.src, q.1, r.denom, r.dst, r.del) }) w1).assets = w1.assets := by
        intro rs
        induction rs with
        | nil => intro w1; rfl
        | cons r t2 ih2 => intro w1; rw [List.foldl_cons, ih2]
      exact inner q.2 w0
  exact key _ w
@[aframe] theorem payEntry_frame (t : Time) (e : Undel) : AFrame (payEntry t e) := by
  unfold payEntry; aframe
@[aframe] theorem payBucket_frame (b : UndelKey × List Undel) : AFrame (payBucket b) := by
  unfold payBucket; aframe
@[aframe] theorem completeUnbondings_frame : AFrame completeUnbondings := by
  unfold completeUnbondings; aframe
@[aframe] theorem slashRedelegations_frame (v : ValId) (f : Dec) : AFrame (slashRedelegations v f) := by
  unfold slashRedelegations; aframe
@[aframe] theorem slashUndelegations_frame (v : ValId) (f : Dec) : AFrame (slashUndelegations v f) := by
  unfold slashUndelegations; aframe
@[aframe] theorem afterValidatorRemoved_frame (v : ValId) : AFrame (afterValidatorRemoved v) := by
  unfold afterValidatorRemoved; aframe
@[aframe] theorem setParams_frame (p : Params) : AFrame (setParams p) := by
  unfold setParams; aframe
@[aframe] theorem setLastRewardClaimTime_frame (t : Time) : AFrame (setLastRewardClaimTime t) := by
  unfold setLastRewardClaimTime; aframe
@[aframe] theorem setSnapshot_frame (a : Asset) (v : AVal) : AFrame (setSnapshot a v) := by
  unfold setSnapshot; aframe
@[aframe] theorem settleAllValidators_frame (a : Asset) (b : Bool) (vs : List (ValId × ValInfo)) :
    AFrame (settleAllValidators a b vs) := by
  unfold settleAllValidators; aframe
@[aframe] theorem setSVal_frame (v : ValId) (s : SVal) : AFrame (setSVal v s) := by
  unfold setSVal; aframe
@[aframe] theorem distrHookWithdraw_frame (v : ValId) : AFrame (distrHookWithdraw v) := by
  unfold distrHookWithdraw; aframe
@[aframe] theorem stakingDelegate_frame (v : ValId) (s : SVal) (x : Int) : AFrame (stakingDelegate v s x) := by
  unfold stakingDelegate; aframe
@[aframe] theorem stakingValidateUnbondAmount_frame (v : ValId) (x : Int) : AFrame (stakingValidateUnbondAmount v x) := by
  unfold stakingValidateUnbondAmount; aframe
@[aframe] theorem stakingUnbond_frame (v : ValId) (s : Dec) : AFrame (stakingUnbond v s) := by
  unfold stakingUnbond; aframe
@[aframe] theorem rebalanceBondTokenWeights_frame (as : List Asset) : AFrame (rebalanceBondTokenWeights as) := by
  unfold rebalanceBondTokenWeights; aframe
@[aframe] theorem rebalanceHook_frame (as : List Asset) : AFrame (rebalanceHook as) := by
  unfold rebalanceHook; aframe

end Alliance

/-! ## Part 2: the functions that write the asset store -/

namespace Alliance
open Dec

theorem PresR.ofFrame {α} {m : M α} (h : AFrame m) : PresR AssetsValid m Any := by
  constructor
  intro w hw
  refine ⟨?_, fun _ _ => trivial⟩
  unfold AssetsValid
  rw [h.frame w]
  exact hw

theorem getAsset_valid {w : World} {d : Denom} {a : Asset} (hw : AssetsValid w) (h : getAsset w d = some a) :
    AssetValid a := hw (d, a) (AL.get_some_mem _ _ _ h)

theorem allAssets_valid {w : World} (hw : AssetsValid w) : ∀ a ∈ allAssets w, AssetValid a := by
  intro a ha
  unfold allAssets at ha
  rw [List.mem_map] at ha
  obtain ⟨p, hp, rfl⟩ := ha
  exact hw p hp

theorem setAsset_valid (a : Asset) (ha : AssetValid a) : PresR AssetsValid (setAsset a) Any := by
  unfold setAsset
  apply PresR.modifyW
  intro w hw p hp
  rcases AL.mem_set _ _ _ _ hp with h | h
  · rw [h]; exact ha
  · exact hw p h

/-- leaves: frame lemmas, registered invariant lemmas, primitives -/
macro "avalid_leaf" : tactic => `(tactic| first
  | apply PresR.pure_any | apply PresR.throwE | apply PresR.panicE | apply PresR.liftE_any
  | apply PresR.guardE_any | apply PresR.guardP_any | apply PresR.requireSome_any | apply PresR.requireSomeP_any
  | apply PresR.getW_any
  | (apply PresR.ofFrame; simp only [aframe]; done)
  | (simp only [avalid]; done))

theorem resetAssetAndValidators_valid (a : Asset) (ha : AssetValid a) :
    PresR AssetsValid (resetAssetAndValidators a) Any := by
  unfold resetAssetAndValidators
  split
  · avalid_leaf
  · apply PresR.bind (R := Any)
    · apply PresR.ofFrame; apply AFrame.modifyW; intro _; rfl
    · intro _ _; exact setAsset_valid _ ha

/-- walk a chain of binds whose intermediate results carry no information -/
macro "avalid_walk" : tactic => `(tactic| repeat (first
  | avalid_leaf
  | (apply PresR.bind (R := Any) (by avalid_leaf); intro _ _)
  | (dsimp only [])))

theorem clearDustDelegation_valid (del : Acct) (val : AVal) (a : Asset) (ha : AssetValid a) :
    PresR AssetsValid (clearDustDelegation del val a) Any := by
  unfold clearDustDelegation
  avalid_walk
  exact resetAssetAndValidators_valid a ha

theorem delegate_valid (del : Acct) (val : AVal) (d : Denom) (amt : Int) :
    PresR AssetsValid (delegate del val d amt) Any := by
  unfold delegate
  apply PresR.bind PresR.getW; intro w0 hw0
  split
  · avalid_leaf
  · rename_i a hget
    have ha := getAsset_valid hw0 hget
    avalid_walk
    apply PresR.bind (R := Any)
    · apply setAsset_valid
      obtain ⟨h1, h2, h3, h4, h5, h6⟩ := ha
      exact ⟨h1, h2, h3, h4, h5, h6⟩
    · intro _ _
      avalid_walk

theorem undelegate_valid (del : Acct) (val : AVal) (d : Denom) (amt : Int) :
    PresR AssetsValid (undelegate del val d amt) Any := by
  unfold undelegate
  apply PresR.bind PresR.getW; intro w0 hw0
  split
  · avalid_leaf
  · rename_i a hget
    have ha := getAsset_valid hw0 hget
    have ha' : ∀ t s, AssetValid { a with totalTokens := t, totalValShares := s } := by
      intro t s
      obtain ⟨h1, h2, h3, h4, h5, h6⟩ := ha
      exact ⟨h1, h2, h3, h4, h5, h6⟩
    avalid_walk
    apply PresR.bind (R := Any) (setAsset_valid _ (ha' _ _)); intro _ _
    avalid_walk
    apply PresR.bind (R := Any) (clearDustDelegation_valid _ _ _ (ha' _ _)); intro _ _
    avalid_walk

theorem redelegate_valid (del : Acct) (src dst : AVal) (d : Denom) (amt : Int) :
    PresR AssetsValid (redelegate del src dst d amt) Any := by
  unfold redelegate
  apply PresR.bind (R := Any) (by avalid_leaf); intro _ _
  apply PresR.bind PresR.getW; intro w0 hw0
  split
  · avalid_leaf
  · rename_i a hget
    have ha := getAsset_valid hw0 hget
    avalid_walk
    apply PresR.bind (R := Any) (clearDustDelegation_valid _ _ _ ha); intro _ _
    avalid_walk

theorem slashValidator_valid (v : ValId) (f : Dec) : PresR AssetsValid (slashValidator v f) Any := by
  unfold slashValidator
  apply PresR.bind (R := Any) (by avalid_leaf); intro _ _
  apply PresR.bind (R := Any) (by avalid_leaf); intro val _
  apply PresR.bind (R := Any)
  · apply PresR.foldlM (R := Any) _ _ _ trivial
    intro acc _ share _
    dsimp only []
    apply PresR.bind (R := Any) (by avalid_leaf); intro _ _
    apply PresR.bind PresR.getW; intro w0 hw0
    split
    · avalid_leaf
    · rename_i a hget
      have ha := getAsset_valid hw0 hget
      apply PresR.bind (R := Any)
      · apply setAsset_valid
        obtain ⟨h1, h2, h3, h4, h5, h6⟩ := ha
        exact ⟨h1, h2, h3, h4, h5, h6⟩
      · intro _ _; avalid_leaf
  · intro _ _
    avalid_walk

theorem beforeValidatorSlashed_valid (v : ValId) (f : Dec) : PresR AssetsValid (beforeValidatorSlashed v f) Any := by
  unfold beforeValidatorSlashed
  apply PresR.bind (R := Any) (slashValidator_valid v f); intro _ _
  avalid_leaf

/-- the in-memory asset list that `EndBlocker` threads through its hooks -/
def ListValid (as : List Asset) : Prop := ∀ a ∈ as, AssetValid a

theorem initStep_valid (now : Time) (a : Asset) (h : AssetValid a) : AssetValid (initStep now a) := by
  unfold initStep
  split
  · exact h
  · obtain ⟨h1, h2, h3, h4, h5, h6⟩ := h
    exact ⟨h1, h2, h3, h4, h5, h6⟩

theorem initializeAllianceAssets_valid (as : List Asset) (h : ListValid as) :
    PresR AssetsValid (initializeAllianceAssets as) ListValid := by
  unfold initializeAllianceAssets
  apply PresR.bind PresR.getW; intro w0 _
  apply PresR.bind (R := Any)
  · apply PresR.forEachM
    intro a ha
    split
    · avalid_leaf
    · exact setAsset_valid _ (initStep_valid _ a (h a ha))
  · intro _ _
    apply PresR.pure
    intro a ha
    rw [List.mem_map] at ha
    obtain ⟨b, hb, rfl⟩ := ha
    exact initStep_valid _ b (h b hb)

theorem takeRateStep_valid (now : Time) (n : Nat) (a : Asset) (h : AssetValid a) : AssetValid (takeRateStep now n a) := by
  unfold takeRateStep
  split
  · split
    · obtain ⟨h1, h2, h3, h4, h5, h6⟩ := h
      exact ⟨h1, h2, h3, h4, h5, h6⟩
    · exact h
  · exact h

theorem map_takeRateStep_valid (now : Time) (n : Nat) (as : List Asset) (h : ListValid as) :
    ListValid (as.map (takeRateStep now n)) := by
  intro a ha
  rw [List.mem_map] at ha
  obtain ⟨b, hb, rfl⟩ := ha
  exact takeRateStep_valid now n b (h b hb)

theorem deductAssetsWithTakeRate_valid (last : Time) (as : List Asset) (h : ListValid as) :
    PresR AssetsValid (deductAssetsWithTakeRate last as) ListValid := by
  unfold deductAssetsWithTakeRate
  apply PresR.bind PresR.getW; intro w0 _
  split
  · apply PresR.bind (R := Any) (by avalid_leaf); intro _ _
    exact PresR.pure _ h
  · dsimp only []
    apply PresR.bind (R := Any) (by avalid_leaf); intro _ _
    apply PresR.bind (R := Any)
    · apply PresR.forEachM
      intro a ha
      split
      · exact setAsset_valid _ (takeRateStep_valid _ _ a (h a ha))
      · avalid_leaf
    · intro _ _
      split
      · apply PresR.bind (R := Any) (by avalid_leaf); intro _ _
        exact PresR.pure _ (map_takeRateStep_valid _ _ as h)
      · split
        · apply PresR.bind (R := Any) (by avalid_leaf); intro _ _
          apply PresR.bind (R := Any) (by avalid_leaf); intro _ _
          exact PresR.pure _ (map_takeRateStep_valid _ _ as h)
        · exact PresR.pure _ (map_takeRateStep_valid _ _ as h)

theorem deductAssetsHook_valid (as : List Asset) (h : ListValid as) :
    PresR AssetsValid (deductAssetsHook as) ListValid := by
  unfold deductAssetsHook
  apply PresR.bind PresR.getW; intro w0 _
  dsimp only []
  split
  · exact deductAssetsWithTakeRate_valid _ as h
  · exact PresR.pure _ h

/-- what `UpdateAllianceAsset` needs from its argument besides the range it checks itself -/
def CfgOK (a : Asset) : Prop := 0 ≤ a.takeRate ∧ a.takeRate < one ∧ 0 < a.changeRate ∧ 0 ≤ a.changeIntv

theorem updateAllianceAsset_valid (na : Asset) (h : CfgOK na) : PresR AssetsValid (updateAllianceAsset na) Any := by
  unfold updateAllianceAsset
  apply PresR.bind PresR.getW; intro w0 hw0
  split
  · avalid_leaf
  · rename_i asset hget
    apply PresR.bind (PresR.guardE _ _); intro _ hrange
    apply PresR.bind (R := Any) (by avalid_leaf); intro _ _
    apply PresR.bind (R := Any) (by avalid_leaf); intro w1 _
    apply setAsset_valid
    unfold applyUpdate
    obtain ⟨h1, h2, h3, h4⟩ := h
    have hr : na.wmin ≤ na.weight ∧ na.weight ≤ na.wmax := by
      constructor
      · apply Classical.byContradiction; intro hc; apply hrange; left; unfold Dec at *; omega
      · apply Classical.byContradiction; intro hc; apply hrange; right; unfold Dec at *; omega
    exact ⟨h1, h2, hr.1, hr.2, h3, h4⟩

/-- the clamp keeps a decayed weight inside the asset's range -/
theorem decayedWeight_in_range (a : Asset) (n : Nat) (w2 : Dec) (hmm : a.wmin ≤ a.wmax)
    (h : decayedWeight a n = some w2) : a.wmin ≤ w2 ∧ w2 ≤ a.wmax := by
  unfold decayedWeight at h
  split at h
  · cases h
  · split at h
    · cases h
    · injection h with h
      subst h
      constructor
      · split <;> split <;> (unfold Dec at *; omega)
      · split <;> split <;> (unfold Dec at *; omega)

theorem rewardWeightChangeHook_go_valid (as acc : List Asset) (has : ListValid as) (hacc : ListValid acc) :
    PresR AssetsValid (rewardWeightChangeHook.go as acc) ListValid := by
  induction as generalizing acc with
  | nil =>
    unfold rewardWeightChangeHook.go
    apply PresR.pure
    intro a ha
    exact hacc a (List.mem_reverse.mp ha)
  | cons a rest ih =>
    unfold rewardWeightChangeHook.go
    have ha : AssetValid a := has a List.mem_cons_self
    have hrest : ListValid rest := fun b hb => has b (List.mem_cons_of_mem _ hb)
    have hacc' : ∀ b, AssetValid b → ListValid (b :: acc) := by
      intro b hb c hc
      rcases List.mem_cons.mp hc with h | h
      · rw [h]; exact hb
      · exact hacc c h
    apply PresR.bind PresR.getW; intro w0 _
    split
    · exact ih (a :: acc) hrest (hacc' a ha)
    · dsimp only []
      split
      · rename_i w2 hdec
        obtain ⟨h1, h2, h3, h4, h5, h6⟩ := ha
        have hr := decayedWeight_in_range a _ w2 (by unfold Dec at *; omega) hdec
        have hv : AssetValid { a with weight := w2, lastChange := a.lastChange + a.changeIntv * intervalsSince w0.time a.lastChange a.changeIntv } :=
          ⟨h1, h2, hr.1, hr.2, h5, h6⟩
        apply PresR.bind (R := Any) (by avalid_leaf); intro _ _
        refine PresR.bind (R := Any) (updateAllianceAsset_valid _ ?_) ?_
        · exact ⟨h1, h2, h5, h6⟩
        · intro _ _
          exact ih _ hrest (hacc' _ hv)
      · avalid_leaf

theorem rewardWeightChangeHook_valid (as : List Asset) (h : ListValid as) :
    PresR AssetsValid (rewardWeightChangeHook as) ListValid := by
  unfold rewardWeightChangeHook
  exact rewardWeightChangeHook_go_valid as [] h (fun _ hb => by cases hb)

theorem endBlocker_valid : PresR AssetsValid endBlocker Any := by
  unfold endBlocker
  apply PresR.bind (R := Any) (by avalid_leaf); intro _ _
  apply PresR.bind (R := Any) (by avalid_leaf); intro _ _
  apply PresR.bind PresR.getW; intro w0 hw0
  dsimp only []
  apply PresR.bind (initializeAllianceAssets_valid _ (allAssets_valid hw0)); intro as1 h1
  apply PresR.bind (deductAssetsHook_valid _ h1); intro as2 h2
  apply PresR.bind (rewardWeightChangeHook_valid _ h2); intro as3 _
  avalid_leaf

theorem msgCreateAlliance_valid (s : Signer) (f : AllianceFields) : PresR AssetsValid (msgCreateAlliance s f) Any := by
  unfold msgCreateAlliance
  apply PresR.bind (PresR.guardE _ _); intro _ _
  apply PresR.bind (PresR.requireSome _ _); intro denom _
  apply PresR.bind (PresR.guardE _ _); intro _ _
  apply PresR.bind (PresR.requireSome _ _); intro weight _
  apply PresR.bind (PresR.guardE _ _); intro _ _
  apply PresR.bind (PresR.requireSome _ _); intro wmin _
  apply PresR.bind (PresR.requireSome _ _); intro wmax _
  apply PresR.bind (PresR.guardE _ _); intro _ _
  apply PresR.bind (PresR.guardE _ _); intro _ _
  apply PresR.bind (PresR.guardE _ _); intro _ hrange
  apply PresR.bind (PresR.requireSome _ _); intro tr _
  apply PresR.bind (PresR.guardE _ _); intro _ htr
  apply PresR.bind (PresR.requireSomeP _); intro cr _
  apply PresR.bind (PresR.guardE _ _); intro _ hcr
  apply PresR.bind (PresR.guardE _ _); intro _ hci
  apply PresR.bind (PresR.guardE _ _); intro _ _
  apply PresR.bind PresR.getW; intro w0 _
  apply PresR.bind (PresR.guardE _ _); intro _ _
  dsimp only []
  apply setAsset_valid
  unfold AssetValid
  dsimp only []
  unfold Dec Dur at *
  refine ⟨?_, ?_, ?_, ?_, ?_, ?_⟩ <;> (apply Classical.byContradiction; intro hc) <;>
    first
    | (apply htr; left; omega) | (apply htr; right; omega)
    | (apply hrange; left; omega) | (apply hrange; right; omega)
    | (apply hcr; omega) | (apply hci; omega)

theorem msgUpdateAlliance_valid (s : Signer) (f : AllianceFields) : PresR AssetsValid (msgUpdateAlliance s f) Any := by
  unfold msgUpdateAlliance
  apply PresR.bind (PresR.guardE _ _); intro _ _
  apply PresR.bind (PresR.requireSome _ _); intro denom _
  apply PresR.bind (PresR.requireSome _ _); intro weight _
  apply PresR.bind (PresR.guardE _ _); intro _ _
  apply PresR.bind (PresR.requireSome _ _); intro tr _
  apply PresR.bind (PresR.guardE _ _); intro _ htr
  apply PresR.bind (PresR.requireSomeP _); intro cr _
  apply PresR.bind (PresR.guardE _ _); intro _ hcr
  apply PresR.bind (PresR.guardE _ _); intro _ hci
  apply PresR.bind (PresR.guardE _ _); intro _ _
  apply PresR.bind PresR.getW; intro w0 _
  apply PresR.bind (PresR.requireSome _ _); intro asset _
  apply PresR.bind (PresR.requireSomeP _); intro wmin _
  apply PresR.bind (PresR.guardE _ _); intro _ _
  apply PresR.bind (PresR.requireSomeP _); intro wmax _
  apply PresR.bind (PresR.guardE _ _); intro _ _
  apply updateAllianceAsset_valid
  unfold CfgOK
  dsimp only []
  unfold Dec Dur at *
  refine ⟨?_, ?_, ?_, ?_⟩ <;> (apply Classical.byContradiction; intro hc) <;>
    first
    | (apply htr; left; omega) | (apply htr; right; omega)
    | (apply hcr; omega) | (apply hci; omega)

theorem msgDeleteAlliance_valid (s : Signer) (d : Option Denom) : PresR AssetsValid (msgDeleteAlliance s d) Any := by
  unfold msgDeleteAlliance
  avalid_walk
  apply PresR.modifyW
  intro w hw p hp
  exact hw p (AL.mem_erase _ _ _ hp)

@[aframe] theorem msgUpdateParams_frame (s : Signer) (p : Params) : AFrame (msgUpdateParams s p) := by
  unfold msgUpdateParams; aframe

theorem msgDelegate_valid (del : Acct) (v : ValId) (d : Denom) (amt : Int) : PresR AssetsValid (msgDelegate del v d amt) Any := by
  unfold msgDelegate
  apply PresR.bind (R := Any) (by avalid_leaf); intro _ _
  apply PresR.bind (R := Any) (by avalid_leaf); intro _ _
  exact delegate_valid _ _ _ _

theorem msgUndelegate_valid (del : Acct) (v : ValId) (d : Denom) (amt : Int) : PresR AssetsValid (msgUndelegate del v d amt) Any := by
  unfold msgUndelegate
  apply PresR.bind (R := Any) (by avalid_leaf); intro _ _
  apply PresR.bind (R := Any) (by avalid_leaf); intro _ _
  exact undelegate_valid _ _ _ _

theorem msgRedelegate_valid (del : Acct) (s t : ValId) (d : Denom) (amt : Int) : PresR AssetsValid (msgRedelegate del s t d amt) Any := by
  unfold msgRedelegate
  apply PresR.bind (R := Any) (by avalid_leaf); intro _ _
  apply PresR.bind (R := Any) (by avalid_leaf); intro _ _
  apply PresR.bind (R := Any) (by avalid_leaf); intro _ _
  exact redelegate_valid _ _ _ _ _

@[aframe] theorem msgClaim_frame (del : Acct) (v : ValId) (d : Option Denom) : AFrame (msgClaim del v d) := by
  unfold msgClaim; aframe

theorem assetsValid_oracle (w : World) (o : List (ValId × Coins)) (h : AssetsValid w) : AssetsValid { w with oracle := o } := h

/-- every operation of the state machine keeps every stored asset valid, whether it succeeds or fails -/
theorem step_valid (op : Op) : PresR AssetsValid (step op) Any := by
  cases op <;> unfold step <;> dsimp only []
  · exact PresR.asTx (msgDelegate_valid _ _ _ _) assetsValid_oracle
  · exact PresR.asTx (msgUndelegate_valid _ _ _ _) assetsValid_oracle
  · exact PresR.asTx (msgRedelegate_valid _ _ _ _ _) assetsValid_oracle
  · exact PresR.asTx (PresR.ofFrame (msgClaim_frame _ _ _)) assetsValid_oracle
  · exact PresR.asTx (msgCreateAlliance_valid _ _) assetsValid_oracle
  · exact PresR.asTx (msgUpdateAlliance_valid _ _) assetsValid_oracle
  · exact PresR.asTx (msgDeleteAlliance_valid _ _) assetsValid_oracle
  · exact PresR.asTx (PresR.ofFrame (msgUpdateParams_frame _ _)) assetsValid_oracle
  · exact beforeValidatorSlashed_valid _ _
  · exact endBlocker_valid
  · avalid_leaf
  · avalid_leaf
  · avalid_leaf
  · avalid_leaf
  · avalid_leaf
  · avalid_leaf

/-- INV-A: asset validity is an invariant of every history -/
theorem run_valid (ops : List Op) (w : World) (h : AssetsValid w) : AssetsValid (run w ops) := by
  unfold run
  induction ops generalizing w with
  | nil => exact h
  | cons op t ih =>
    rw [List.foldl_cons]
    exact ih _ ((step_valid op).run w h).1

end Alliance
