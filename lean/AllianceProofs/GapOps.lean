/-
  GapOps.lean — the custody accounting judgment for the keeper operations: reward claims, deposits, withdrawals,
  redelegations.
-/
import AllianceProofs.GapMono
import AllianceProofs.RewardNonneg
import AllianceProofs.UsersOnly
set_option linter.unusedVariables false
namespace Alliance
open Dec

namespace GapT
variable {α β : Type} {d : Denom} {t t' t1 δ : Int}

/-- bind where the first step's delta depends on its result -/
theorem bindP {m : M α} {f : α → M β} {P : α → Prop} {δ1 : α → Int}
    (hm : ∀ w w' a, m w = (.ok a, w') → Good d w → staked w d = t →
        gap w d + δ1 a ≤ gap w' d ∧ Good d w' ∧ staked w' d = t1 ∧ P a)
    (hf : ∀ a, P a → GapT d t1 t' (δ - δ1 a) (f a)) : GapT d t t' δ (m >>= f) := by
  constructor
  intro w w' b h hg hs
  simp only [bind_apply] at h
  rcases hmw : m w with ⟨r, w1⟩
  rw [hmw] at h
  cases r with
  | error e => simp at h
  | ok a =>
    simp only at h
    obtain ⟨g1, g2, g3, g4⟩ := hm w w1 a hmw hg hs
    obtain ⟨k1, k2, k3⟩ := (hf a g4).run w1 w' b h g2 g3
    exact ⟨by omega, k2, k3⟩

/-- a pure (Except) computation: the continuation may use that it succeeded with this value -/
theorem liftE_bind {x : Except Err α} {f : α → M β} (h : ∀ a, x = .ok a → GapT d t t' δ (f a)) :
    GapT d t t' δ (Alliance.liftE x >>= f) := by
  cases x with
  | error e => exact ⟨fun w w' r h => by simp [bind_apply, liftE_error] at h⟩
  | ok a =>
    constructor
    intro w w' b hm hg hs
    simp only [bind_apply, liftE_ok] at hm
    exact (h a rfl).run w w' b hm hg hs
end GapT

/-- `WithdrawDelegationRewards`: custody grows by exactly the coins of the recorded response, which are non-negative -/
theorem withdrawRewards_spec (v : ValId) (d : Denom) (w w' : World) (cs : Coins)
    (h : withdrawRewards v w = (.ok cs, w')) (hg : Good d w) :
    gap w d + Coins.sumOf cs d ≤ gap w' d ∧ Good d w' ∧ staked w' d = staked w d ∧ Coins.Nonneg cs := by
  unfold withdrawRewards at h
  simp only [bind_apply, getW_apply] at h
  rcases hor : w.oracle with _ | ⟨⟨v', cs'⟩, rest⟩
  · simp [hor] at h
  · simp only [hor, bind_apply] at h
    by_cases hv : v' ≠ v
    · simp [guardE, hv] at h
    · simp only [guardE, hv, if_false, pure_apply, modifyW_apply] at h
      rcases hsd : sendCoins accDistr accModule cs' { w with oracle := rest } with ⟨r, w1⟩
      rw [hsd] at h
      cases r with
      | error e => simp at h
      | ok u =>
        simp only [pure_apply] at h
        injection h with h1 h2
        injection h1 with h1
        subst h1 h2
        have hg0 : Good d { w with oracle := rest } := by
          refine ⟨hg.sorted, ?_, hg.users, hg.notBond, hg.keyed, hg.asorted⟩
          intro p hp
          exact hg.oracle p (by rw [hor]; exact List.mem_cons_of_mem _ hp)
        have hnn : Coins.Nonneg cs' := hg.oracle (v', cs') (by rw [hor]; exact List.mem_cons_self ..)
        obtain ⟨k1, k2, k3⟩ := (sendCoins_gapT accDistr accModule cs' d (staked w d)).run _ w1 () hsd hg0 rfl
        have e1 : gap { w with oracle := rest } d = gap w d := rfl
        rw [e1] at k1
        simp only [if_true] at k1
        have : accDistr ≠ accModule := by decide
        simp only [this, if_false] at k1
        exact ⟨by omega, k2, k3, hnn⟩

theorem addAssetsToRewardPool_gapT (val : AVal) (coins : Coins) (d : Denom) (t : Int) (hnn : Coins.Nonneg coins) :
    GapT d t t (- Coins.sumOf coins d) (addAssetsToRewardPool val coins) := by
  have h0 := Coins.sumOf_nonneg coins hnn d
  unfold addAssetsToRewardPool
  apply GapT.ite
  · intro _; exact (GapT.pure val).cast rfl (by omega)
  · intro _
    apply GapT.getW_bind; intro w0 _ _
    dsimp only []
    apply GapT.bind0 (GapT.ofFrame (FrameG.liftE _)); intro hist
    apply GapT.bind0 (GapT.ofFrame (FrameG.setValidator _)); intro _
    refine (GapT.bind (sendCoins_gapT accModule accPool coins d t) (fun _ => GapT.pure _)).cast rfl ?_
    have : accPool ≠ accModule := by decide
    simp only [this, if_false, if_true]
    omega

/-- `ClaimValidatorRewards`: what the distribution module pays arrives in custody and is forwarded whole to the
    reward pool (or stays, when the validator has no alliance stake): the custody gap never falls -/
theorem claimValidatorRewards_gapT (val : AVal) (d : Denom) (t : Int) : GapT d t t 0 (claimValidatorRewards val) := by
  unfold claimValidatorRewards
  apply GapT.getW_bind; intro w0 _ _
  dsimp only []
  apply GapT.ite
  · intro _; exact GapT.pure val
  · intro _
    apply GapT.bindP (t1 := t) (P := Coins.Nonneg) (δ1 := fun cs => Coins.sumOf cs d)
    · intro w w' cs h hg hs
      obtain ⟨a1, a2, a3, a4⟩ := withdrawRewards_spec val.id d w w' cs h hg
      exact ⟨a1, a2, by omega, a4⟩
    · intro cs hnn
      have h0 := Coins.sumOf_nonneg cs hnn d
      apply GapT.ite
      · intro _; exact (GapT.pure val).cast rfl (by omega)
      · intro _; exact (addAssetsToRewardPool_gapT val cs d t hnn).cast rfl (by omega)

/-- `ClaimDelegationRewards`: rewards are paid from the reward pool, never from custody -/
theorem claimDelegationRewards_gapT (del : Acct) (val : AVal) (d' : Denom) (d : Denom) (t : Int) :
    GapT d t t 0 (claimDelegationRewards del val d') := by
  unfold claimDelegationRewards
  apply GapT.getW_bind; intro w0 _ _
  split
  · exact GapT.throwE _
  · next a _ =>
    apply GapT.ite
    · intro _; exact GapT.pure _
    · intro _
      split
      · exact GapT.throwE _
      · next dl _ =>
        apply GapT.bind0 (claimValidatorRewards_gapT val d t); intro val1
        apply GapT.getW_bind; intro w1 _ _
        apply GapT.liftE_bind; intro res hc
        obtain ⟨coins, newIdx⟩ := res
        have hnn := calculateDelegationRewards_nonneg w1 dl val1.info a coins newIdx hc d
        dsimp only []
        apply GapT.bind0 (GapT.ofFrame (FrameG.setDelegation _)); intro _
        refine (GapT.bind (sendCoins_gapT accPool del coins d t) (fun _ => GapT.pure _)).cast rfl ?_
        have : accPool ≠ accModule := by decide
        simp only [this, if_false]
        split <;> omega

macro "gt_frame" : tactic => `(tactic| (apply GapT.ofFrame; first | exact FrameG.liftE _ | exact FrameG.pure _ | exact FrameG.guardE _ _ | (simp only [gframe]; done)))

theorem settleBeforeDeposit_gapT (del : Acct) (val : AVal) (d' : Denom) (d : Denom) (t : Int) :
    GapT d t t 0 (settleBeforeDeposit del val d') := by
  unfold settleBeforeDeposit
  apply GapT.getW_bind; intro w0 _ _
  split
  · exact GapT.bind0 (claimDelegationRewards_gapT del val d' d t) (fun _ => GapT.pure _)
  · exact claimValidatorRewards_gapT val d t

/-- queueing an unbonding entry: pending grows by the amount -/
theorem queueUndelegation_gapT (del : Acct) (v : ValId) (d' : Denom) (amt : Int) (d : Denom) (t : Int)
    (hdel : del ≠ accModule) :
    GapT d t t (- (if d' = d then amt else 0)) (queueUndelegation del v d' amt) := by
  constructor
  intro w w' a hm hg hs
  obtain ⟨p1, c1, a1, q1⟩ := queueUndelegation_gap del v d' amt w hg.sorted d
  have hst := queueUndelegation_state del v d' amt w
  have hw : w' = (queueUndelegation del v d' amt w).2 := by rw [hm]
  rw [← hw] at p1 c1 a1 q1 hst
  refine ⟨?_, ?_, by rw [staked_of_assets_eq a1 d]; exact hs⟩
  · unfold gap; rw [p1, c1, staked_of_assets_eq a1 d]; omega
  · refine ⟨q1, ?_, ?_, ?_, ?_, ?_⟩
    · unfold OracleNonneg; rw [hst]; exact hg.oracle
    · unfold UsersOnly
      rw [hst]
      simp only
      intro p hp e he
      rcases AL.mem_set _ _ _ _ hp with h | h
      · rw [h] at he
        simp only [List.mem_append, List.mem_singleton] at he
        rcases he with he | he
        · cases hq : AL.get w.undelQueue (w.time + w.staking.unbondingTime, del) with
          | none => rw [hq] at he; simp [Option.getD] at he
          | some es =>
            rw [hq] at he
            simp only [Option.getD] at he
            exact hg.users _ (AL.get_some_mem _ _ _ hq) e he
        · rw [he]; exact hdel
      · exact hg.users p h e he
    · rw [hst]; exact hg.notBond
    · rw [hst]; exact hg.keyed
    · rw [hst]; exact hg.asorted

theorem asset_of_get {d d' : Denom} {w : World} {a : Asset} {t : Int} (hg : Good d w) (hs : staked w d = t)
    (ha : getAsset w d' = some a) : a.denom = d' ∧ (d' = d → a.totalTokens = t) := by
  refine ⟨hg.keyed (d', a) (AL.get_some_mem _ _ _ ha), ?_⟩
  intro e; subst e
  unfold staked at hs; rw [ha] at hs; exact hs

/-- `Delegate`: the deposit arrives in custody and is added to the staked total -/
theorem delegate_gapT (del : Acct) (val : AVal) (d' : Denom) (amt : Int) (d : Denom) (t : Int) (hdel : del ≠ accModule) :
    GapT d t (if d' = d then t + amt else t) 0 (delegate del val d' amt) := by
  unfold delegate
  apply GapT.getW_bind; intro w0 hg0 hs0
  rcases ha : getAsset w0 d' with _ | a
  · exact GapT.throwE _
  · dsimp only []
    obtain ⟨hden, hat⟩ := asset_of_get hg0 hs0 ha
    refine (GapT.bind (δ2 := -(if d' = d then amt else 0)) (sendCoins_gapT del accModule (Coins.single d' amt) d t) (fun _ => ?_)).cast rfl
      ?_
    · apply GapT.bind0 (settleBeforeDeposit_gapT del val d' d t); intro val1
      apply GapT.bind0 (by gt_frame); intro nds
      apply GapT.bind0 (by gt_frame); intro nvs
      refine (GapT.bind (δ2 := 0) (setAsset_gapT _ d t) (fun _ => ?_)).cast rfl ?_
      · apply GapT.bind0 (by gt_frame); intro dsc
        apply GapT.bind0 (by gt_frame); intro vsc
        apply GapT.bind0 (by gt_frame); intro _
        refine (GapT.ofFrame (by simp only [gframe])).cast ?_ (Int.le_refl 0)
        simp only [hden]
        split
        · next e => rw [hat e]
        · rfl
      · simp only [hden]
        split
        · next e => rw [hat e]; omega
        · omega
    · rw [Coins.sumOf_single]
      simp only [hdel, if_false, if_true]
      omega

theorem resetAssetAndValidators_gapT (a : Asset) (d : Denom) (t : Int) (hat : a.denom = d → a.totalTokens = t) :
    GapT d t t 0 (resetAssetAndValidators a) := by
  unfold resetAssetAndValidators
  apply GapT.ite
  · intro _; exact GapT.pure ()
  · intro _
    apply GapT.bind0
    · apply GapT.ofFrame; apply FrameG.modifyW; intro w; rfl
    · intro _
      refine (setAsset_gapT _ d t).cast ?_ ?_
      · dsimp only []; split
        · next e => exact hat e
        · rfl
      · dsimp only []; split
        · next e => rw [hat e]; omega
        · omega

theorem clearDustDelegation_gapT (del : Acct) (val : AVal) (a : Asset) (d : Denom) (t : Int)
    (hat : a.denom = d → a.totalTokens = t) : GapT d t t 0 (clearDustDelegation del val a) := by
  unfold clearDustDelegation
  apply GapT.bind0 (by gt_frame); intro x
  dsimp only []
  apply GapT.bind0 (by gt_frame); intro _
  apply GapT.bind0 (by gt_frame); intro _
  apply GapT.bind0 (by gt_frame); intro _
  apply GapT.bind0 (by gt_frame); intro _
  apply GapT.bind0 (by gt_frame); intro _
  exact resetAssetAndValidators_gapT a d t hat

/-- `Undelegate`: the staked total falls by the amount and the unbonding queue grows by it; custody is untouched -/
theorem undelegate_gapT (del : Acct) (val : AVal) (d' : Denom) (amt : Int) (d : Denom) (t : Int) (hdel : del ≠ accModule) :
    GapT d t (if d' = d then t - amt else t) 0 (undelegate del val d' amt) := by
  unfold undelegate
  apply GapT.getW_bind; intro w0 hg0 hs0
  rcases ha : getAsset w0 d' with _ | a
  · exact GapT.throwE _
  · dsimp only []
    obtain ⟨hden, hat⟩ := asset_of_get hg0 hs0 ha
    apply GapT.bind0 (by gt_frame); intro _
    apply GapT.bind0 (claimDelegationRewards_gapT del val d' d t); intro r
    apply GapT.getW_bind; intro w1 _ _
    apply GapT.bind0 (by gt_frame); intro stu
    apply GapT.bind0 (by gt_frame); intro ctu
    apply GapT.bind0 (by gt_frame); intro _
    apply GapT.bind0 (by gt_frame); intro vsr
    refine (GapT.bind (δ2 := -(if d' = d then amt else 0)) (setAsset_gapT _ d t) (fun _ => ?_)).cast rfl ?_
    · dsimp only []
      apply GapT.bind0 (by gt_frame); intro _
      apply GapT.bind0 (by gt_frame); intro _
      apply GapT.bind0 (by gt_frame); intro _
      apply GapT.bind0 (by gt_frame); intro val2
      apply GapT.bind0
      · apply clearDustDelegation_gapT
        dsimp only []
        intro e; rw [if_pos e]
      · intro _
        refine (GapT.bind (δ2 := 0) (t' := (if a.denom = d then a.totalTokens - amt else t)) (queueUndelegation_gapT del val2.id d' amt d _ hdel) (fun _ => ?_)).cast ?_ ?_
        · gt_frame
        · simp only [hden]
          split
          · next e => rw [hat e]
          · rfl
        · omega
    · dsimp only []
      simp only [hden]
      split
      · next e => rw [hat e]; omega
      · omega

theorem good_of_parts {d : Denom} {w w' : World} (hg : Good d w) (q : QSorted w') (u : UsersOnly w')
    (hob : FrameOB.π w' = FrameOB.π w) (ha : w'.assets = w.assets) : Good d w' := by
  simp only [FrameOB.π, Prod.mk.injEq] at hob
  refine ⟨q, ?_, u, ?_, ?_, ?_⟩
  · unfold OracleNonneg; rw [hob.1]; exact hg.oracle
  · rw [hob.2]; exact hg.notBond
  · rw [ha]; exact hg.keyed
  · rw [ha]; exact hg.asorted

theorem slashUndelegations_gapT (v : ValId) (f : Dec) (d : Denom) (t : Int) : GapT d t t 0 (slashUndelegations v f) := by
  constructor
  intro w w' a hm hg hs
  obtain ⟨g, q, as⟩ := slashUndelegations_gap v f w w' hm hg.sorted
  have hu := ((slashUndelegations_users v f).run w hg.users).1
  have hob := (FrameOB.slashUndelegations v f).frame w
  rw [hm] at hu hob
  exact ⟨by rw [g d]; omega, good_of_parts hg q hu hob as, by rw [staked_of_assets_eq as d]; exact hs⟩

theorem completeUnbondings_gapT (d : Denom) (t : Int) : GapT d t t 0 completeUnbondings := by
  constructor
  intro w w' a hm hg hs
  obtain ⟨g, q⟩ := completeUnbondings_gap w w' hm hg.sorted hg.users d hg.notBond
  have hu := (completeUnbondings_users.run w hg.users).1
  have hob := FrameOB.completeUnbondings.frame w
  have has := completeUnbondings_frame.frame w
  rw [hm] at hu hob has
  exact ⟨by rw [g]; omega, good_of_parts hg q hu hob has, by rw [staked_of_assets_eq has d]; exact hs⟩

/-- `Redelegate`: stake moves between validators; custody, the staked total and the queue are untouched -/
theorem redelegate_gapT (del : Acct) (src dst : AVal) (d' : Denom) (amt : Int) (d : Denom) (t : Int) :
    GapT d t t 0 (redelegate del src dst d' amt) := by
  unfold redelegate
  apply GapT.bind0 (by gt_frame); intro _
  apply GapT.getW_bind; intro w0 hg0 hs0
  rcases ha : getAsset w0 d' with _ | a
  · exact GapT.throwE _
  · dsimp only []
    obtain ⟨hden, hat⟩ := asset_of_get hg0 hs0 ha
    apply GapT.bind0 (by gt_frame); intro _
    apply GapT.bind0 (claimDelegationRewards_gapT del src d' d t); intro r
    apply GapT.getW_bind; intro w1 _ _
    apply GapT.bind0 (settleBeforeDeposit_gapT del dst d' d t); intro dst1
    apply GapT.bind0 (by gt_frame); intro _
    apply GapT.bind0 (by gt_frame); intro _
    apply GapT.bind0 (by gt_frame); intro _
    apply GapT.getW_bind; intro w2 _ _
    apply GapT.bind0 (by gt_frame); intro _
    apply GapT.bind0 (by gt_frame); intro _
    apply GapT.bind0 (by gt_frame); intro _
    apply GapT.bind0 (by gt_frame); intro _
    apply GapT.bind0 (by gt_frame); intro _
    apply GapT.bind0 (by gt_frame); intro src1
    apply GapT.bind0 (clearDustDelegation_gapT del src1 a d t (by intro e; exact hat (hden ▸ e))); intro _
    apply GapT.bind0 (by gt_frame); intro _
    apply GapT.bind0 (by gt_frame); intro _
    apply GapT.bind0 (by gt_frame); intro _
    apply GapT.bind0 (by gt_frame); intro _
    gt_frame

theorem slashRedelegations_gapT (v : ValId) (f : Dec) (d : Denom) (t : Int) : GapT d t t 0 (slashRedelegations v f) := by
  unfold slashRedelegations
  apply GapT.getW_bind; intro w0 _ _
  dsimp only []
  apply GapT.forEachM
  intro k _
  apply GapT.getW_bind; intro w1 _ _
  obtain ⟨kv, kt, kd, kdst, kdel⟩ := k
  dsimp only []
  apply GapT.ite
  · intro _; exact GapT.pure ()
  · intro _
    split
    · exact GapT.throwE _
    · next r _ =>
      apply GapT.bind0 (by gt_frame); intro dstVal
      apply GapT.ite
      · intro _; exact GapT.pure ()
      · intro _
        apply GapT.bind0 (claimDelegationRewards_gapT r.del dstVal r.denom d t); intro res
        apply GapT.getW_bind; intro w2 _ _
        split
        · exact GapT.pure ()
        · split
          · exact GapT.pure ()
          · apply GapT.bind0 (by gt_frame); intro _
            apply GapT.bind0 (by gt_frame); intro _
            apply GapT.bind0 (by gt_frame); intro _
            apply GapT.bind0 (by gt_frame); intro _
            gt_frame

/-- rewriting an asset read from the current state without touching its staked total -/
theorem setAsset_sameT (a a' : Asset) (d : Denom) (t : Int) (hden : a'.denom = a.denom) (hT : a'.totalTokens = a.totalTokens)
    (hat : a.denom = d → a.totalTokens = t) : GapT d t t 0 (setAsset a') := by
  refine (setAsset_gapT a' d t).cast ?_ ?_
  · rw [hden, hT]; split
    · next e => exact hat e
    · rfl
  · rw [hden, hT]; split
    · next e => rw [hat e]; omega
    · omega

theorem slashValidator_gapT (v : ValId) (f : Dec) (d : Denom) (t : Int) : GapT d t t 0 (slashValidator v f) := by
  unfold slashValidator
  apply GapT.bind0 (by gt_frame); intro _
  apply GapT.bind0 (by gt_frame); intro val
  apply GapT.bind0
  · apply GapT.foldlM
    intro acc share _
    dsimp only []
    apply GapT.bind0 (by gt_frame); intro after
    apply GapT.getW_bind; intro w1 hg1 hs1
    rcases ha : getAsset w1 share.1 with _ | a
    · exact GapT.throwE _
    · dsimp only []
      obtain ⟨hden, hat⟩ := asset_of_get hg1 hs1 ha
      apply GapT.bind0
      · exact setAsset_sameT a _ d t rfl rfl (by intro e; exact hat (hden ▸ e))
      · intro _; exact GapT.pure _
  · intro slashed
    apply GapT.bind0 (by gt_frame); intro _
    apply GapT.bind0 (slashRedelegations_gapT v f d t); intro _
    exact slashUndelegations_gapT v f d t

theorem beforeValidatorSlashed_gapT (v : ValId) (f : Dec) (d : Denom) (t : Int) :
    GapT d t t 0 (beforeValidatorSlashed v f) := by
  unfold beforeValidatorSlashed
  apply GapT.bind0 (slashValidator_gapT v f d t); intro _
  gt_frame

end Alliance
