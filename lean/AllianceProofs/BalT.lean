/-
  BalT.lean — one account's balance of one denom as an additive observable.
-/
import AllianceProofs.Obs
import AllianceProofs.FrameBS
import AllianceProofs.CoinsSum
import AllianceModel.Keeper
set_option linter.unusedVariables false
namespace Alliance
open Dec

abbrev BalT {α} (acct : Acct) (d : Denom) (δ : Int) (m : M α) : Prop :=
  Obs (fun _ => True) (fun w => bankBalance w acct d) δ m

theorem balT_frame {α} {acct : Acct} {d : Denom} {m : M α} (h : FrameBS.Fr m) : BalT acct d 0 m := by
  constructor
  intro w w' a hm _
  have hf : FrameBS.π w' = FrameBS.π w := by have := h.frame w; rw [hm] at this; exact this
  simp only [FrameBS.π, Prod.mk.injEq] at hf
  refine ⟨?_, trivial⟩
  show bankBalance w' acct d = bankBalance w acct d + 0
  unfold bankBalance; rw [hf.1]; omega

theorem sendCoins_balT (src dst : Acct) (cs : Coins) (acct : Acct) (d : Denom) :
    BalT acct d ((if acct = dst then Coins.sumOf cs d else 0) - (if acct = src then Coins.sumOf cs d else 0))
      (sendCoins src dst cs) := by
  constructor
  intro w w' a hm _
  refine ⟨?_, trivial⟩
  show bankBalance w' acct d = _
  rw [sendCoins_spec src dst cs w w' hm acct d]
  omega

/-- `AddAssetsToRewardPool` for a validator with delegator shares: the coins move from custody to the pool, whole -/
theorem addAssetsToRewardPool_balT (val : AVal) (coins : Coins) (acct : Acct) (d : Denom)
    (hs : val.info.totalDelShares.length ≠ 0) :
    BalT acct d ((if acct = accPool then Coins.sumOf coins d else 0) - (if acct = accModule then Coins.sumOf coins d else 0))
      (addAssetsToRewardPool val coins) := by
  unfold addAssetsToRewardPool
  simp only [hs, if_false]
  apply Obs.getW_bind; intro w0 _
  try dsimp only []
  apply Obs.bind0 (balT_frame (FrameBS.liftE _)); intro _
  apply Obs.bind0 (balT_frame (FrameBS.setValidator _)); intro _
  exact (Obs.bind (sendCoins_balT accModule accPool coins acct d) (fun _ => Obs.pure _)).cast (by omega)

end Alliance
