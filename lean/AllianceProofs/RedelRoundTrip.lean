/-
  RedelRoundTrip.lean — C18: the redelegation RECORD store survives export → wipe → import exactly when it is sorted
  and its records are keyed by their own fields (RK, kept by every keeper function: KeepRK.lean) — so a second export
  is identical to the first.  (The two DERIVED redelegation stores are not restored exactly: D12.)
-/
import AllianceProofs.ValsRoundTrip
import AllianceProofs.KeepRK
set_option linter.unusedVariables false
namespace Alliance

/-- what one exported record does to the record store on import -/
def importR (rs : List (RedelKey × Redel)) (p : Time × Redel) : List (RedelKey × Redel) :=
  AL.set rs (p.2.del, p.2.denom, p.2.dst, p.1)
    (match AL.get rs (p.2.del, p.2.denom, p.2.dst, p.1) with
      | none => { del := p.2.del, src := p.2.src, dst := p.2.dst, denom := p.2.denom, amount := p.2.amount }
      | some r => { r with amount := r.amount + p.2.amount })

theorem importRedels_run (l : List (Time × Redel)) (w w' : World)
    (h : forEachM (fun (p : Time × Redel) => do
        addRedelegation p.2.del p.2.src p.2.dst p.2.denom p.2.amount p.1
        queueRedelegation { del := p.2.del, src := p.2.src, dst := p.2.dst, denom := p.2.denom, amount := p.2.amount } p.1) l w = (.ok (), w')) :
    w'.redels = l.foldl importR w.redels := by
  induction l generalizing w with
  | nil =>
    unfold forEachM at h
    injection h with _ h2
    rw [← h2]; rfl
  | cons p t ih =>
    unfold forEachM at h
    simp only [bind_apply] at h
    rw [addRedelegation_state] at h
    simp only at h
    rw [queueRedelegation_state] at h
    simp only at h
    have := ih _ h
    rw [this]
    rfl

theorem get_none_of_all_lt {κ α : Type} [DecidableEq κ] [Ord κ] (o : KeyOrder κ) (l : List (κ × α)) (k : κ)
    (h : ∀ q ∈ l, o.lt q.1 k) : AL.get l k = none := by
  induction l with
  | nil => rfl
  | cons hd t ih =>
    obtain ⟨k', v'⟩ := hd
    have hlt : o.lt k' k := h (k', v') (List.mem_cons_self ..)
    have hne : k ≠ k' := by intro e; subst e; exact o.irrefl _ hlt
    unfold AL.get
    simp only [hne, if_false]
    exact ih (fun q hq => h q (List.mem_cons_of_mem _ hq))

/-- importing the exported records of a sorted, keyed record store, in order, rebuilds it -/
theorem importR_rebuilds (l : List (RedelKey × Redel)) (hs : AL.SortedBy redelKeyOrder l)
    (hk : ∀ p ∈ l, p.1.1 = p.2.del ∧ p.1.2.1 = p.2.denom ∧ p.1.2.2.1 = p.2.dst) :
    ∀ (pre : List (RedelKey × Redel)), (∀ p ∈ pre, ∀ q ∈ l, redelKeyOrder.lt p.1 q.1) →
      (l.map fun (p : RedelKey × Redel) => (p.1.2.2.2, p.2)).foldl importR pre = pre ++ l := by
  induction l with
  | nil => intro pre _; simp
  | cons hd t ih =>
    intro pre hpre
    obtain ⟨⟨kd, kn, kv, kt⟩, r⟩ := hd
    obtain ⟨e1, e2, e3⟩ := hk _ (List.mem_cons_self ..)
    simp only at e1 e2 e3
    subst e1 e2 e3
    rw [List.map_cons, List.foldl_cons]
    have hlt : ∀ q ∈ pre, redelKeyOrder.lt q.1 (r.del, r.denom, r.dst, kt) :=
      fun q hq => hpre q hq _ (List.mem_cons_self ..)
    have step1 : importR pre (kt, r) = pre ++ [((r.del, r.denom, r.dst, kt), r)] := by
      unfold importR
      simp only
      rw [get_none_of_all_lt redelKeyOrder pre _ hlt, AL.set_append_of_gt redelKeyOrder pre _ _ hlt]
    simp only at step1 ⊢
    rw [step1, ih (AL.sorted_tail _ hs) (fun p hp => hk p (List.mem_cons_of_mem _ hp))]
    · simp
    · intro p hp q hq
      rcases List.mem_append.mp hp with h | h
      · exact hpre p h q (List.mem_cons_of_mem _ hq)
      · rw [List.mem_singleton.mp h]; exact AL.sorted_head_lt _ hs q hq

/-- the redelegation record store after an import -/
theorem initGenesis_redels (g : Genesis) (w w' : World) (h : initGenesis g w = (.ok (), w')) :
    w'.redels = g.redelegations.foldl importR w.redels := by
  rw [initGenesis_eq] at h
  simp only [bind_apply] at h
  have k1 := initParams_keeps (fun w => w.redels) g (fun _ _ => rfl) w
  rcases hp : initParams g w with ⟨r1, w1⟩
  rw [hp] at h k1
  cases r1 with
  | error e => simp at h
  | ok u1 =>
    simp only [forEachM_setAsset, forEachM_setValInfo, forEachM_setDelegation] at h
    unfold initAfterDelegations at h
    simp only [bind_apply] at h
    revert h
    rcases ha : forEachM (fun (p : Time × Redel) => do
        addRedelegation p.2.del p.2.src p.2.dst p.2.denom p.2.amount p.1
        queueRedelegation { del := p.2.del, src := p.2.src, dst := p.2.dst, denom := p.2.denom, amount := p.2.amount } p.1) g.redelegations
        _ with ⟨r2, w2⟩
    intro h
    cases r2 with
    | error e => simp at h
    | ok u2 =>
      have e2 := importRedels_run _ _ _ ha
      simp only at h
      have kb := importUndels_keeps (fun w => w.redels) g (fun _ _ _ => rfl)
      revert h
      rcases hb : forEachM (fun (p : Time × List Undel) =>
        match p.2 with
        | [] => Pure.pure ()
        | e0 :: _ => do
          Alliance.modifyW fun w => { w with undelQueue := AL.set w.undelQueue (p.1, e0.del) p.2 }
          forEachM (fun (e : Undel) =>
            Alliance.modifyW fun w => { w with undelIndex := setInsert w.undelIndex (e.val, p.1, e.denom, e0.del) }) p.2) g.undelegations
        w2 with ⟨r3, w3⟩
      intro h
      have e3 := kb.run _ _ _ hb
      cases r3 with
      | error e => simp at h
      | ok u3 =>
        simp only [forEachM_setSnap] at h
        injection h with _ h2
        subst h2
        simp only at e2 e3 k1 ⊢
        rw [e3, e2, k1]

/-- C18: the redelegation record store survives export → wipe → import exactly, when it is sorted and keyed -/
theorem reimport_restores_redelegation_records (w w' : World) (h : reimport w = (.ok (), w'))
    (hs : AL.SortedBy redelKeyOrder w.redels) (hk : RK w) : w'.redels = w.redels := by
  unfold reimport at h
  simp only [bind_apply, getW_apply, setW_apply] at h
  have := initGenesis_redels _ _ _ h
  rw [this]
  show (w.redels.map fun (p : RedelKey × Redel) => (p.1.2.2.2, p.2)).foldl importR [] = _
  rw [importR_rebuilds w.redels hs hk [] (fun p hp => by cases hp)]
  rfl

end Alliance
