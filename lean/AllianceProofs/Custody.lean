/-
  Custody (C01): for an alliance denom d,  gap w d = custody − staked total − pending unbondings.
  Part 1: definitions and the unbonding side — paying out matured entries moves exactly what it removes from the queue.
-/
import AllianceProofs.Bank
import AllianceProofs.FrameStaking
namespace Alliance
open Dec

/-- what one bucket owes in denom d -/
def entrySum (d : Denom) (es : List Undel) : Int := (es.map fun e => if e.denom = d then e.amount else 0).sum

@[simp] theorem entrySum_nil (d : Denom) : entrySum d [] = 0 := rfl
@[simp] theorem entrySum_cons (d : Denom) (e : Undel) (t : List Undel) :
    entrySum d (e :: t) = (if e.denom = d then e.amount else 0) + entrySum d t := by
  unfold entrySum; simp
theorem entrySum_append (d : Denom) (a b : List Undel) : entrySum d (a ++ b) = entrySum d a + entrySum d b := by
  induction a with
  | nil => simp
  | cons e t ih => simp [ih]; omega

/-- all pending unbonding balances of denom d -/
def pending (w : World) (d : Denom) : Int := AL.sumBy (entrySum d) w.undelQueue
/-- the asset's recorded staked total (0 when the denom is not whitelisted) -/
def staked (w : World) (d : Denom) : Int := match getAsset w d with | some a => a.totalTokens | none => 0
/-- coins of denom d held by the module's custody account -/
def custody (w : World) (d : Denom) : Int := bankBalance w accModule d
/-- custody minus what is owed: must never be negative -/
def gap (w : World) (d : Denom) : Int := custody w d - staked w d - pending w d

theorem staked_of_assets_eq {w w' : World} (h : w'.assets = w.assets) (d : Denom) : staked w' d = staked w d := by
  unfold staked getAsset; rw [h]
theorem pending_of_queue_eq {w w' : World} (h : w'.undelQueue = w.undelQueue) (d : Denom) : pending w' d = pending w d := by
  unfold pending; rw [h]

/-- paying one entry: custody of the entry's denom drops by its balance; assets and queue are untouched -/
theorem payEntry_spec (t : Time) (e : Undel) (w w' : World) (h : payEntry t e w = (.ok (), w')) (hdel : e.del ≠ accModule) :
    (∀ d, custody w' d = custody w d - (if e.denom = d then e.amount else 0)) ∧
    w'.assets = w.assets ∧ w'.undelQueue = w.undelQueue := by
  have hA := (payEntry_frame t e).frame w
  have hQ := (FrameUQ.payEntry t e).frame w
  rw [h] at hA hQ
  refine ⟨?_, hA, hQ⟩
  unfold payEntry at h
  simp only [bind_apply] at h
  rcases hs : sendCoins accModule e.del (Coins.single e.denom e.amount) w with ⟨r, w1⟩
  rw [hs] at h
  cases r with
  | error er => simp at h
  | ok u =>
    simp only [modifyW_apply] at h
    injection h with _ h2
    have hb := sendCoins_spec _ _ _ w w1 hs
    intro d
    unfold custody
    rw [← h2]
    show bankBalance w1 accModule d = _
    rw [hb accModule d]
    have : ¬ (accModule = e.del) := fun he => hdel he.symm
    simp only [this, if_false, if_true, Coins.sumOf_single]
    by_cases hd : e.denom = d <;> simp [hd]

/-- paying all entries of a bucket -/
theorem payEntries_spec (t : Time) (es : List Undel) (w w' : World) (h : forEachM (payEntry t) es w = (.ok (), w'))
    (hdel : ∀ e ∈ es, e.del ≠ accModule) :
    (∀ d, custody w' d = custody w d - entrySum d es) ∧ w'.assets = w.assets ∧ w'.undelQueue = w.undelQueue := by
  induction es generalizing w with
  | nil =>
    unfold forEachM at h
    simp only [pure_apply] at h
    injection h with _ h2; subst h2
    exact ⟨fun d => by simp, rfl, rfl⟩
  | cons e t2 ih =>
    unfold forEachM at h
    simp only [bind_apply] at h
    rcases hp : payEntry t e w with ⟨r, w1⟩
    rw [hp] at h
    cases r with
    | error er => simp at h
    | ok u =>
      simp only at h
      obtain ⟨c1, a1, q1⟩ := payEntry_spec t e w w1 hp (hdel e List.mem_cons_self)
      obtain ⟨c2, a2, q2⟩ := ih w1 h (fun e' he' => hdel e' (List.mem_cons_of_mem _ he'))
      refine ⟨?_, a2.trans a1, q2.trans q1⟩
      intro d
      rw [c2 d, c1 d, entrySum_cons]
      omega

/-- paying a whole bucket that is in the (sorted) queue: custody and pending drop by the same amount -/
theorem payBucket_gap (b : UndelKey × List Undel) (w w' : World) (h : payBucket b w = (.ok (), w'))
    (hs : QSorted w) (hget : AL.get w.undelQueue b.1 = some b.2) (hdel : ∀ e ∈ b.2, e.del ≠ accModule) :
    (∀ d, gap w' d = gap w d) ∧ w'.undelQueue = AL.erase w.undelQueue b.1 ∧ w'.assets = w.assets := by
  unfold payBucket at h
  simp only [bind_apply] at h
  rcases hp : forEachM (payEntry b.1.1) b.2 w with ⟨r, w1⟩
  rw [hp] at h
  cases r with
  | error er => simp at h
  | ok u =>
    simp only [modifyW_apply] at h
    injection h with _ h2
    obtain ⟨c1, a1, q1⟩ := payEntries_spec b.1.1 b.2 w w1 hp hdel
    have hq : w'.undelQueue = AL.erase w.undelQueue b.1 := by rw [← h2]; show AL.erase w1.undelQueue b.1 = _; rw [q1]
    have ha : w'.assets = w.assets := by rw [← h2]; exact a1
    refine ⟨?_, hq, ha⟩
    intro d
    unfold gap
    have hc : custody w' d = custody w1 d := by rw [← h2]; rfl
    rw [hc, c1 d, staked_of_assets_eq ha d]
    unfold pending
    rw [hq, AL.sum_erase undelKeyOrder _ _ _ hs]
    unfold AL.at?
    rw [hget]
    simp only
    omega

end Alliance

namespace Alliance
open Dec

/-- no pending entry pays to the module account itself -/
def UsersOnly (w : World) : Prop := ∀ p ∈ w.undelQueue, ∀ e ∈ p.2, e.del ≠ accModule

theorem payBuckets_gap (ms : List (UndelKey × List Undel)) (w w' : World)
    (h : forEachM payBucket ms w = (.ok (), w')) (hs : QSorted w)
    (hget : ∀ b ∈ ms, AL.get w.undelQueue b.1 = some b.2)
    (hdist : ms.Pairwise (fun a b => a.1 ≠ b.1))
    (hdel : ∀ b ∈ ms, ∀ e ∈ b.2, e.del ≠ accModule) :
    (∀ d, gap w' d = gap w d) ∧ QSorted w' ∧ w'.assets = w.assets := by
  induction ms generalizing w with
  | nil =>
    unfold forEachM at h
    simp only [pure_apply] at h
    injection h with _ h2; subst h2
    exact ⟨fun _ => rfl, hs, rfl⟩
  | cons b t ih =>
    unfold forEachM at h
    simp only [bind_apply] at h
    rcases hp : payBucket b w with ⟨r, w1⟩
    rw [hp] at h
    cases r with
    | error er => simp at h
    | ok u =>
      simp only at h
      obtain ⟨g1, q1, a1⟩ := payBucket_gap b w w1 hp hs (hget b List.mem_cons_self) (hdel b List.mem_cons_self)
      have hs1 : QSorted w1 := by unfold QSorted; rw [q1]; exact AL.erase_sorted undelKeyOrder _ _ hs
      have hd := List.pairwise_cons.mp hdist
      have hget1 : ∀ b' ∈ t, AL.get w1.undelQueue b'.1 = some b'.2 := by
        intro b' hb'
        rw [q1, AL.get_erase_ne _ _ _ (fun he => hd.1 b' hb' he.symm)]
        exact hget b' (List.mem_cons_of_mem _ hb')
      obtain ⟨g2, q2, a2⟩ := ih w1 h hs1 hget1 hd.2 (fun b' hb' => hdel b' (List.mem_cons_of_mem _ hb'))
      exact ⟨fun d => (g2 d).trans (g1 d), q2, a2.trans a1⟩

theorem burnCoin_custody (a : Acct) (db : Denom) (x : Int) (w w' : World) (h : burnCoin a db x w = (.ok (), w'))
    (d : Denom) (hd : d ≠ db) : custody w' d = custody w d ∧ w'.assets = w.assets ∧ w'.undelQueue = w.undelQueue := by
  have hA := (burnCoin_frame a db x).frame w
  have hQ := (FrameUQ.burnCoin a db x).frame w
  rw [h] at hA hQ
  refine ⟨?_, hA, hQ⟩
  unfold burnCoin at h
  simp only [bind_apply, getW_apply, guardE_apply] at h
  by_cases hlt : bankBalance w a db < x
  · simp [hlt] at h
  · simp only [hlt, if_false] at h
    rcases hsb : setBalance a db (bankBalance w a db - x) w with ⟨r, w1⟩
    have hr : r = .ok () := by unfold setBalance at hsb; simp only [modifyW_apply] at hsb; injection hsb with h1 _; exact h1.symm
    subst hr
    rw [hsb] at h
    simp only [modifyW_apply] at h
    injection h with _ h2
    unfold custody
    rw [← h2]
    show bankBalance w1 accModule d = _
    have : w1 = (setBalance a db (bankBalance w a db - x) w).2 := by rw [hsb]
    rw [this, bal_setBalance]
    have : (accModule, d) ≠ (a, db) := by intro he; injection he with _ h3; exact hd h3
    simp [this]

/-- C01/C02: when `CompleteUnbondings` succeeds, for every alliance denom the custody gap is exactly what it was:
    what left custody is what left the queue (the staking denom aside, whose whole module balance is burned) -/
theorem completeUnbondings_gap (w w' : World) (h : completeUnbondings w = (.ok (), w')) (hs : QSorted w)
    (hu : UsersOnly w) (d : Denom) (hd : d ≠ w.staking.bondDenom) : gap w' d = gap w d ∧ QSorted w' := by
  unfold completeUnbondings at h
  simp only [bind_apply, getW_apply] at h
  rcases hl : forEachM payBucket (maturedBuckets w) w with ⟨r, w1⟩
  try rw [hl] at h
  cases r with
  | error er => simp at h
  | ok u =>
    simp only at h
    have hsub : ∀ b ∈ maturedBuckets w, b ∈ w.undelQueue := by
      intro b hb; unfold maturedBuckets at hb; exact (List.mem_filter.mp hb).1
    have hget : ∀ b ∈ maturedBuckets w, AL.get w.undelQueue b.1 = some b.2 :=
      fun b hb => AL.mem_get undelKeyOrder _ b hs (hsub b hb)
    have hdist : (maturedBuckets w).Pairwise (fun a b => a.1 ≠ b.1) := by
      have : (maturedBuckets w).Pairwise (fun p q => undelKeyOrder.lt p.1 q.1) := by
        unfold maturedBuckets; exact List.Pairwise.filter _ hs
      refine this.imp ?_
      intro a b hlt he
      rw [he] at hlt
      exact undelKeyOrder.irrefl _ hlt
    obtain ⟨g1, q1, a1⟩ := payBuckets_gap _ w w1 hl hs hget hdist (fun b hb => hu b (hsub b hb))
    have hst : w1.staking = w.staking := by
      have := (FrameStaking.forEachM payBucket (maturedBuckets w) (fun b => FrameStaking.payBucket b)).frame w
      rw [hl] at this
      exact congrArg (·.1) this
    split at h
    · obtain ⟨c, a2, q2⟩ := burnCoin_custody _ _ _ w1 w' h d (by rw [hst]; exact hd)
      constructor
      · unfold gap
        rw [c, staked_of_assets_eq a2 d, pending_of_queue_eq q2 d]
        exact g1 d
      · unfold QSorted; rw [q2]; exact q1
    · simp only [pure_apply] at h
      injection h with _ h2; subst h2
      exact ⟨g1 d, q1⟩

end Alliance

namespace Alliance
open Dec

/-- the state after `queueUndelegation` (it cannot fail) -/
theorem queueUndelegation_state (del : Acct) (v : ValId) (d' : Denom) (amt : Int) (w : World) :
    (queueUndelegation del v d' amt w).2 =
      { w with
        undelQueue := AL.set w.undelQueue (w.time + w.staking.unbondingTime, del)
          ((AL.get w.undelQueue (w.time + w.staking.unbondingTime, del)).getD [] ++ [{ del := del, val := v, denom := d', amount := amt }]),
        undelIndex := setInsert w.undelIndex (v, w.time + w.staking.unbondingTime, d', del) } := by
  unfold queueUndelegation
  simp only [bind_apply, getW_apply, modifyW_apply, pure_apply]
  cases h : AL.get w.undelQueue (w.time + w.staking.unbondingTime, del) <;> simp [Option.getD]

/-- queueing an undelegation: pending of that denom grows by exactly the amount; custody and assets are untouched -/
theorem queueUndelegation_gap (del : Acct) (v : ValId) (d' : Denom) (amt : Int) (w : World) (hs : QSorted w) (d : Denom) :
    pending (queueUndelegation del v d' amt w).2 d = pending w d + (if d' = d then amt else 0) ∧
    custody (queueUndelegation del v d' amt w).2 d = custody w d ∧
    (queueUndelegation del v d' amt w).2.assets = w.assets ∧ QSorted (queueUndelegation del v d' amt w).2 := by
  have hspec := queueUndelegation_state del v d' amt w
  rw [hspec]
  refine ⟨?_, rfl, rfl, AL.set_sorted undelKeyOrder _ _ _ hs⟩
  unfold pending
  simp only
  rw [AL.sum_set undelKeyOrder _ _ _ _ hs, entrySum_append]
  unfold AL.at?
  cases AL.get w.undelQueue (w.time + w.staking.unbondingTime, del) <;> simp [Option.getD] <;> omega

/-- the sends of one index key of `slashUndelegations` -/
theorem slashSends_spec (v : ValId) (dk : Denom) (f : Dec) (bucket : List Undel) (w w' : World)
    (h : forEachM (fun (e : Undel) =>
          if e.val == v && e.denom == dk then sendCoins accModule accFee (Coins.single e.denom (slashEntryCut v dk f e))
          else pure ()) bucket w = (.ok (), w')) :
    (∀ d, custody w' d = custody w d - (bucket.map fun e => if e.denom = d then slashEntryCut v dk f e else 0).sum) ∧
    w'.assets = w.assets ∧ w'.undelQueue = w.undelQueue := by
  induction bucket generalizing w with
  | nil =>
    unfold forEachM at h
    simp only [pure_apply] at h
    injection h with _ h2; subst h2
    exact ⟨fun d => by simp, rfl, rfl⟩
  | cons e t ih =>
    unfold forEachM at h
    simp only [bind_apply] at h
    by_cases hit : (e.val == v && e.denom == dk) = true
    · simp only [hit, if_true] at h
      rcases hsd : sendCoins accModule accFee (Coins.single e.denom (slashEntryCut v dk f e)) w with ⟨r, w1⟩
      rw [hsd] at h
      cases r with
      | error er => simp at h
      | ok u =>
        simp only at h
        have hb := sendCoins_spec _ _ _ w w1 hsd
        have hA := (sendCoins_frame accModule accFee (Coins.single e.denom (slashEntryCut v dk f e))).frame w
        have hQ := (FrameUQ.sendCoins accModule accFee (Coins.single e.denom (slashEntryCut v dk f e))).frame w
        rw [hsd] at hA hQ
        obtain ⟨c2, a2, q2⟩ := ih w1 h
        refine ⟨?_, a2.trans hA, q2.trans hQ⟩
        intro d
        rw [c2 d]
        unfold custody
        rw [hb accModule d]
        have hne : ¬ (accModule = accFee) := by decide
        simp only [hne, if_false, if_true, Coins.sumOf_single, List.map_cons, List.sum_cons]
        by_cases hd : e.denom = d <;> simp [hd] <;> omega
    · have hno : slashEntryCut v dk f e = 0 := by unfold slashEntryCut; simp [hit]
      simp only [hit, if_false, Bool.false_eq_true, pure_apply] at h
      obtain ⟨c2, a2, q2⟩ := ih w h
      refine ⟨?_, a2, q2⟩
      intro d
      rw [c2 d]
      simp [hno]

theorem entrySum_slashBucket (v : ValId) (dk : Denom) (f : Dec) (bucket : List Undel) (d : Denom) :
    entrySum d (slashBucket v dk f bucket) =
      entrySum d bucket - (bucket.map fun e => if e.denom = d then slashEntryCut v dk f e else 0).sum := by
  unfold slashBucket
  induction bucket with
  | nil => simp
  | cons e t ih =>
    simp only [List.map_cons, entrySum_cons, List.sum_cons]
    rw [ih]
    by_cases hd : e.denom = d <;> simp [hd] <;> omega

/-- C01/C07: the unbonding part of a slash moves to the fee collector exactly what it takes off the entries:
    the custody gap of every denom is unchanged when it succeeds -/
theorem slashUndelegations_gap (v : ValId) (f : Dec) (w w' : World) (h : slashUndelegations v f w = (.ok (), w'))
    (hs : QSorted w) : (∀ d, gap w' d = gap w d) ∧ QSorted w' ∧ w'.assets = w.assets := by
  unfold slashUndelegations at h
  simp only [bind_apply, getW_apply] at h
  generalize (List.filter (fun (k : UndelIdxKey) => k.1 == v) w.undelIndex) = idx at h
  induction idx generalizing w with
  | nil =>
    unfold forEachM at h
    simp only [pure_apply] at h
    injection h with _ h2; subst h2
    exact ⟨fun _ => rfl, hs, rfl⟩
  | cons k t ih =>
    unfold forEachM at h
    simp only [bind_apply, getW_apply] at h
    obtain ⟨kv, kt, kd, kdel⟩ := k
    simp only at h
    by_cases hm : kt < w.time
    · simp only [hm, if_true, pure_apply] at h
      exact ih w hs h
    · simp only [hm, if_false, bind_apply] at h
      rcases hsd : forEachM (fun (e : Undel) =>
          if e.val == v && e.denom == kd then sendCoins accModule accFee (Coins.single e.denom (slashEntryCut v kd f e))
          else pure ()) ((AL.get w.undelQueue (kt, kdel)).getD []) w with ⟨r, w1⟩
      rw [hsd] at h
      cases r with
      | error er => simp at h
      | ok u =>
        simp only [modifyW_apply] at h
        obtain ⟨c1, a1, q1⟩ := slashSends_spec v kd f _ w w1 hsd
        -- the state after the bucket is rewritten
        have hs1 : QSorted { w1 with undelQueue := AL.set w1.undelQueue (kt, kdel) (slashBucket v kd f ((AL.get w.undelQueue (kt, kdel)).getD [])) } := by
          unfold QSorted; simp only; rw [q1]; exact AL.set_sorted undelKeyOrder _ _ _ hs
        obtain ⟨g2, qs2, a2⟩ := ih _ hs1 h
        refine ⟨?_, qs2, a2.trans a1⟩
        intro d
        rw [g2 d]
        unfold gap
        have hc : custody { w1 with undelQueue := AL.set w1.undelQueue (kt, kdel) (slashBucket v kd f ((AL.get w.undelQueue (kt, kdel)).getD [])) } d = custody w1 d := rfl
        have hst : staked { w1 with undelQueue := AL.set w1.undelQueue (kt, kdel) (slashBucket v kd f ((AL.get w.undelQueue (kt, kdel)).getD [])) } d = staked w d :=
          staked_of_assets_eq (w := w) (w' := { w1 with undelQueue := _ }) a1 d
        rw [hc, hst, c1 d]
        unfold pending
        simp only
        rw [q1, AL.sum_set undelKeyOrder _ _ _ _ hs, entrySum_slashBucket]
        unfold AL.at?
        cases AL.get w.undelQueue (kt, kdel) <;> simp [Option.getD] <;> omega

end Alliance
