/-
  FailModesUser.lean — C05: the complete lists of ways in which the user operations can fail, for every state.
-/
import AllianceProofs.FailModes
import AllianceModel.Msg
set_option linter.unusedVariables false
namespace Alliance
open Dec

/-- every way in which `MsgDelegate`, `MsgUndelegate`, `MsgRedelegate`, `MsgClaimDelegationRewards` can fail -/
def userModes : List Err :=
  coreModes ++ [.err "invalid_amount", .err "notfound_asset", .err "empty_denom", .err "insufficient_shares",
    .err "insufficient_tokens", .err "same_validator", .err "transitive"]

theorem core_sub_user : ∀ e ∈ coreModes, e ∈ userModes := fun e h => List.mem_append_left _ h

section user
local notation "U" => userModes

theorem subtractDecCoinsWithRounding_errs {S : List Err} (hn : Err.panic "neg_coin" ∈ S) (a b : DecCoins) :
    ErrsE S (subtractDecCoinsWithRounding a b) := by
  unfold subtractDecCoinsWithRounding
  apply ErrsE.foldlM
  intro acc c
  try dsimp only []
  exact ErrsE.ite (decCoinsSub_errs hn _ _) (decCoinsSub_errs hn _ _)

theorem updateValidatorShares_errs (val : AVal) (ds vs : DecCoins) (b : Bool) : Errs U (updateValidatorShares val ds vs b) := by
  unfold updateValidatorShares
  apply Errs.bind
  · apply Errs.liftE
    apply ErrsE.ite
    · exact ErrsE.pure _
    · apply ErrsE.bind (subtractDecCoinsWithRounding_errs (by decide) _ _); intro _
      apply ErrsE.bind (subtractDecCoinsWithRounding_errs (by decide) _ _); intro _
      exact ErrsE.pure _
  · intro info'
    apply Errs.bind
    · unfold setValidator setValInfo; exact Errs.modifyW _
    · intro _; exact Errs.pure _

theorem upsert_errs (del : Acct) (val : AVal) (d : Denom) (amt : Int) (a : Asset) :
    Errs U (upsertDelegationWithNewTokens del val d amt a) := by
  unfold upsertDelegationWithNewTokens
  apply Errs.bind (Errs.liftE _ (delegationSharesFromTokens_errs (by decide) _ _ _)); intro s
  apply Errs.getW_bind; intro w
  try dsimp only []
  split
  · apply Errs.bind
    · unfold setDelegation; exact Errs.modifyW _
    · intro _; exact Errs.pure _
  · apply Errs.bind
    · unfold setDelegation; exact Errs.modifyW _
    · intro _; exact Errs.pure _

theorem settleBeforeDeposit_errs (del : Acct) (val : AVal) (d : Denom) : Errs U (settleBeforeDeposit del val d) := by
  unfold settleBeforeDeposit
  apply Errs.getW_bind; intro w
  split
  · apply Errs.bind ((claimDelegationRewards_errs _ _ _).mono core_sub_user); intro _
    exact Errs.pure _
  · exact (claimValidatorRewards_errs _).mono core_sub_user

theorem delegate_errs (del : Acct) (val : AVal) (d : Denom) (amt : Int) : Errs U (delegate del val d amt) := by
  unfold delegate
  apply Errs.getW_bind; intro w
  rcases getAsset w d with _ | a
  · exact Errs.throwE _ (by decide)
  · dsimp only []
    apply Errs.bind (sendCoins_errs (by decide) _ _ _); intro _
    apply Errs.bind (settleBeforeDeposit_errs _ _ _); intro val1
    apply Errs.bind (upsert_errs _ _ _ _ _); intro s
    apply Errs.bind (Errs.liftE _ (validatorShares_errs (by decide) _ _)); intro vs
    apply Errs.bind
    · unfold setAsset; exact Errs.modifyW _
    · intro _
      apply Errs.bind (Errs.liftE _ (mkDecCoins_errs (by decide) _ _)); intro _
      apply Errs.bind (Errs.liftE _ (mkDecCoins_errs (by decide) _ _)); intro _
      apply Errs.bind (updateValidatorShares_errs _ _ _ _); intro _
      unfold queueRebalance; exact Errs.modifyW _

theorem resetAssetAndValidators_errs (a : Asset) : Errs U (resetAssetAndValidators a) := by
  unfold resetAssetAndValidators
  apply Errs.ite (Errs.pure _)
  apply Errs.bind (Errs.modifyW _); intro _
  unfold setAsset; exact Errs.modifyW _

theorem clearDustDelegation_errs (del : Acct) (val : AVal) (a : Asset) : Errs U (clearDustDelegation del val a) := by
  unfold clearDustDelegation
  apply Errs.bind
  · unfold clearDustShares
    apply Errs.getW_bind; intro w
    split
    · exact Errs.pure _
    · apply Errs.bind (Errs.liftE _ (delegationTokensWithShares_errs (by decide) _ _ _)); intro left
      apply Errs.ite
      · apply Errs.bind
        · unfold deleteDelegation; exact Errs.modifyW _
        · intro _
          apply Errs.bind (Errs.liftE _ (mkDecCoins_errs (by decide) _ _)); intro _
          exact Errs.pure _
      · exact Errs.pure _
  · intro ds
    try dsimp only []
    apply Errs.bind (Errs.liftE _ (mkDecCoins_errs (by decide) _ _)); intro _
    apply Errs.bind (Errs.liftE _ (mkDecCoins_errs (by decide) _ _)); intro _
    apply Errs.bind (Errs.liftE _ (subtractDecCoinsWithRounding_errs (by decide) _ _)); intro _
    apply Errs.bind (Errs.liftE _ (subtractDecCoinsWithRounding_errs (by decide) _ _)); intro _
    apply Errs.bind
    · unfold setValidator setValInfo; exact Errs.modifyW _
    · intro _; exact resetAssetAndValidators_errs a

theorem reduceDelegationShares_errs (del : Acct) (v : ValId) (d : Denom) (s : Dec) (dl : Delegation) :
    Errs U (reduceDelegationShares del v d s dl) := by
  unfold reduceDelegationShares
  try dsimp only []
  split
  · unfold deleteDelegation; exact Errs.modifyW _
  · unfold setDelegation; exact Errs.modifyW _

theorem queueUndelegation_errs (del : Acct) (v : ValId) (d : Denom) (amt : Int) : Errs U (queueUndelegation del v d amt) := by
  unfold queueUndelegation
  apply Errs.getW_bind; intro w
  try dsimp only []
  apply Errs.bind (Errs.modifyW _); intro _
  exact Errs.pure _

theorem undelegate_errs (del : Acct) (val : AVal) (d : Denom) (amt : Int) : Errs U (undelegate del val d amt) := by
  unfold undelegate
  apply Errs.getW_bind; intro w
  rcases getAsset w d with _ | a
  · exact Errs.throwE _ (by decide)
  · dsimp only []
    apply Errs.bind (Errs.guardE _ _ (by decide)); intro _
    apply Errs.bind ((claimDelegationRewards_errs _ _ _).mono core_sub_user); intro r
    apply Errs.getW_bind; intro w1
    try dsimp only []
    apply Errs.bind (Errs.liftE _ (validateDelegatedAmount_errs (by decide) (by decide) _ _ _ _)); intro s
    apply Errs.bind (Errs.liftE _ (delegationTokensWithShares_errs (by decide) _ _ _)); intro c
    apply Errs.bind (Errs.guardE _ _ (by decide)); intro _
    apply Errs.bind (Errs.liftE _ (validatorShares_errs (by decide) _ _)); intro vs
    apply Errs.bind
    · unfold setAsset; exact Errs.modifyW _
    · intro _
      apply Errs.bind (reduceDelegationShares_errs _ _ _ _ _); intro _
      apply Errs.bind (Errs.liftE _ (mkDecCoins_errs (by decide) _ _)); intro _
      apply Errs.bind (Errs.liftE _ (mkDecCoins_errs (by decide) _ _)); intro _
      apply Errs.bind (updateValidatorShares_errs _ _ _ _); intro val2
      apply Errs.bind (clearDustDelegation_errs _ _ _); intro _
      apply Errs.bind (queueUndelegation_errs _ _ _ _); intro _
      unfold queueRebalance; exact Errs.modifyW _

theorem addRedelegation_errs (del : Acct) (s t : ValId) (d : Denom) (amt : Int) (c : Time) : Errs U (addRedelegation del s t d amt c) := by
  unfold addRedelegation queueRedelegation
  apply Errs.getW_bind; intro w
  try dsimp only []
  apply Errs.bind (Errs.modifyW _); intro _
  exact Errs.modifyW _

theorem redelegate_errs (del : Acct) (src dst : AVal) (d : Denom) (amt : Int) : Errs U (redelegate del src dst d amt) := by
  unfold redelegate
  apply Errs.bind (Errs.guardE _ _ (by decide)); intro _
  apply Errs.getW_bind; intro w
  rcases getAsset w d with _ | a
  · exact Errs.throwE _ (by decide)
  · try dsimp only []
    apply Errs.bind (Errs.guardE _ _ (by decide)); intro _
    apply Errs.bind ((claimDelegationRewards_errs _ _ _).mono core_sub_user); intro r
    apply Errs.getW_bind; intro w1
    try dsimp only []
    apply Errs.bind (settleBeforeDeposit_errs _ _ _); intro dst1
    apply Errs.bind (Errs.liftE _ (validateDelegatedAmount_errs (by decide) (by decide) _ _ _ _)); intro s
    apply Errs.bind (Errs.liftE _ (delegationTokensWithShares_errs (by decide) _ _ _)); intro c
    apply Errs.bind (Errs.guardE _ _ (by decide)); intro _
    apply Errs.getW_bind; intro w2
    apply Errs.bind (Errs.guardE _ _ (by decide)); intro _
    try dsimp only []
    apply Errs.bind (Errs.liftE _ (validatorShares_errs (by decide) _ _)); intro vs
    apply Errs.bind (reduceDelegationShares_errs _ _ _ _ _); intro _
    apply Errs.bind (Errs.liftE _ (mkDecCoins_errs (by decide) _ _)); intro _
    apply Errs.bind (Errs.liftE _ (mkDecCoins_errs (by decide) _ _)); intro _
    apply Errs.bind (updateValidatorShares_errs _ _ _ _); intro src2
    apply Errs.bind (clearDustDelegation_errs _ _ _); intro _
    apply Errs.bind (upsert_errs _ _ _ _ _); intro ns
    apply Errs.bind (Errs.liftE _ (mkDecCoins_errs (by decide) _ _)); intro _
    apply Errs.bind (updateValidatorShares_errs _ _ _ _); intro _
    apply Errs.bind (addRedelegation_errs _ _ _ _ _ _); intro _
    unfold queueRebalance; exact Errs.modifyW _

/-- C05: the complete list of ways in which each user operation can fail, for every state and every argument: besides
    the caller's own mistakes (amount, unknown asset or validator, no position, too many tokens, onward hop) only a bank
    shortfall (own balance or the shared rewards pool), the distribution module's responses, and three arithmetic panics
    (negative share / coin amount, zero divisor) — the classes the known findings of C05 are made of -/
theorem user_op_failure_modes (op : Op) (w : World) (e : Err)
    (hop : match op with | .delegate .. | .undelegate .. | .redelegate .. | .claim .. => True | _ => False)
    (h : (step op w).1 = .error e) : e ∈ userModes := by
  have tx : ∀ (m : M Unit), Errs U m → (asTx m w).1 = .error e → e ∈ userModes := by
    intro m hm he
    rw [asTx_apply] at he
    rcases hmw : m w with ⟨r, w1⟩
    rw [hmw] at he
    cases r with
    | ok a => simp at he
    | error e0 =>
      simp only at he
      injection he with he
      subst he
      exact hm.run w e0 (by rw [hmw])
  cases op with
  | delegate del v d amt =>
    refine tx _ ?_ h
    unfold msgDelegate
    apply Errs.bind (Errs.guardE _ _ (by decide)); intro _
    apply Errs.bind ((getAllianceValidator_errs _).mono core_sub_user); intro val
    exact delegate_errs _ _ _ _
  | undelegate del v d amt =>
    refine tx _ ?_ h
    unfold msgUndelegate
    apply Errs.bind (Errs.guardE _ _ (by decide)); intro _
    apply Errs.bind ((getAllianceValidator_errs _).mono core_sub_user); intro val
    exact undelegate_errs _ _ _ _
  | redelegate del s t d amt =>
    refine tx _ ?_ h
    unfold msgRedelegate
    apply Errs.bind (Errs.guardE _ _ (by decide)); intro _
    apply Errs.bind ((getAllianceValidator_errs _).mono core_sub_user); intro sv
    apply Errs.bind ((getAllianceValidator_errs _).mono core_sub_user); intro tv
    exact redelegate_errs _ _ _ _ _
  | claim del v d =>
    refine tx _ ?_ h
    unfold msgClaim
    cases d with
    | none => exact Errs.throwE _ (by decide)
    | some dd =>
      try dsimp only []
      apply Errs.bind ((getAllianceValidator_errs _).mono core_sub_user); intro val
      apply Errs.bind ((claimDelegationRewards_errs _ _ _).mono core_sub_user); intro _
      exact Errs.pure _
  | _ => exact absurd hop (by simp)

end user
end Alliance
