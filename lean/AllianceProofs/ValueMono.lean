/-
  ValueMono.lean — monotonicity of the fixed-point operations, and with it the direction in which a slash moves the token
  value of positions: positions on OTHER validators never lose value (the asset's share total shrinks while their
  validator's shares stay), positions on the slashed validator never gain.
-/
import AllianceProofs.DecLemmas
import AllianceModel.Keeper
set_option linter.unusedVariables false
namespace Alliance
namespace Dec

theorem chopRoundNonneg_mono (a b : Int) (ha : 0 ≤ a) (h : a ≤ b) : chopRoundNonneg a ≤ chopRoundNonneg b := by
  unfold chopRoundNonneg
  simp only [P, H]
  repeat' split
  all_goals omega

/-- banker's rounding is monotone -/
theorem chopRound_mono (x y : Int) (h : x ≤ y) : chopRound x ≤ chopRound y := by
  unfold chopRound
  by_cases hx : x < 0
  · by_cases hy : y < 0
    · simp only [hx, hy, if_true]
      have := chopRoundNonneg_mono (-y) (-x) (by omega) (by omega)
      omega
    · simp only [hx, hy, if_true, if_false]
      have h1 := chopRoundNonneg_nonneg (-x) (by omega)
      have h2 := chopRoundNonneg_nonneg y (by omega)
      omega
  · have hy : ¬ y < 0 := by omega
    simp only [hx, hy, if_false]
    exact chopRoundNonneg_mono x y (by omega) h

theorem mul_mono_left (a b c : Int) (hc : 0 ≤ c) (h : a ≤ b) : mul a c ≤ mul b c :=
  chopRound_mono _ _ (Int.mul_le_mul_of_nonneg_right h hc)

theorem mul_mono_right (a b c : Int) (hc : 0 ≤ c) (h : a ≤ b) : mul c a ≤ mul c b :=
  chopRound_mono _ _ (Int.mul_le_mul_of_nonneg_left h hc)

/-- comparing two floors through cross-multiplication -/
theorem ediv_le_ediv_of_cross (a b c d : Int) (hb : 0 < b) (hd : 0 < d) (h : a * d ≤ c * b) : a / b ≤ c / d := by
  apply Int.le_ediv_of_mul_le hd
  -- (a / b) * d ≤ c  ⇐  (a / b) * d * b ≤ c * b
  have h1 : a / b * b ≤ a := Int.ediv_mul_le a (by omega)
  have h2 : a / b * b * d ≤ a * d := Int.mul_le_mul_of_nonneg_right h1 (by omega)
  have h3 : a / b * d * b ≤ c * b := by
    have : a / b * d * b = a / b * b * d := by rw [Int.mul_assoc, Int.mul_comm d b, ← Int.mul_assoc]
    rw [this]; exact Int.le_trans h2 h
  exact Int.le_of_mul_le_mul_right h3 hb

theorem tdiv_le_tdiv_of_cross (a b c d : Int) (ha : 0 ≤ a) (hc : 0 ≤ c) (hb : 0 < b) (hd : 0 < d) (h : a * d ≤ c * b) :
    a.tdiv b ≤ c.tdiv d := by
  rw [Int.tdiv_eq_ediv_of_nonneg ha, Int.tdiv_eq_ediv_of_nonneg hc]
  exact ediv_le_ediv_of_cross a b c d hb hd h

/-- `Quo` compares as the fractions do -/
theorem quo_le_quo_of_cross (a b c d : Int) (ha : 0 ≤ a) (hc : 0 ≤ c) (hb : 0 < b) (hd : 0 < d) (h : a * d ≤ c * b) :
    quo a b ≤ quo c d := by
  unfold quo
  apply chopRound_mono
  apply tdiv_le_tdiv_of_cross _ _ _ _ (Int.mul_nonneg ha (by decide)) (Int.mul_nonneg hc (by decide)) hb hd
  have : a * P2 * d = a * d * P2 := by rw [Int.mul_assoc, Int.mul_comm P2 d, ← Int.mul_assoc]
  rw [this]
  have : c * P2 * b = c * b * P2 := by rw [Int.mul_assoc, Int.mul_comm P2 b, ← Int.mul_assoc]
  rw [this]
  exact Int.mul_le_mul_of_nonneg_right h (by decide)

theorem quo_nonneg (a b : Int) (ha : 0 ≤ a) (hb : 0 < b) : 0 ≤ quo a b := by
  unfold quo
  apply chopRound_nonneg
  rw [Int.tdiv_eq_ediv_of_nonneg (Int.mul_nonneg ha (by decide))]
  exact Int.ediv_nonneg (Int.mul_nonneg ha (by decide)) (by omega)

theorem truncateInt_mono (a b : Int) (ha : 0 ≤ a) (h : a ≤ b) : truncateInt a ≤ truncateInt b := by
  unfold truncateInt
  rw [Int.tdiv_eq_ediv_of_nonneg ha, Int.tdiv_eq_ediv_of_nonneg (by omega)]
  simp only [P]; omega

end Dec
open Dec

/-- a validator's token value of an asset: monotone in its share of the asset's share total, compared as fractions -/
theorem valTokens_le_of_cross (T : Int) (hT : 0 ≤ T) (vs TVS vs' TVS' : Dec) (hvs : 0 ≤ vs) (hvs' : 0 ≤ vs')
    (hTVS : 0 < TVS) (hTVS' : 0 < TVS') (h : vs * TVS' ≤ vs' * TVS) :
    convertNewShareToDecToken (ofInt T) TVS vs ≤ convertNewShareToDecToken (ofInt T) TVS' vs' := by
  unfold convertNewShareToDecToken
  have n1 : ¬ TVS = 0 := by unfold Dec at *; omega
  have n2 : ¬ TVS' = 0 := by unfold Dec at *; omega
  simp only [n1, n2, if_false]
  apply mul_mono_left _ _ _ (by unfold ofInt; exact Int.mul_nonneg hT (by decide))
  exact quo_le_quo_of_cross vs TVS vs' TVS' hvs hvs' hTVS hTVS' h

/-- C06, other validators: when the asset's share total shrinks (a slash elsewhere) while this validator's shares stay,
    the validator's token value of the asset does not fall -/
theorem valTokens_other_not_less (T : Int) (hT : 0 ≤ T) (vs TVS TVS' : Dec) (hvs : 0 ≤ vs) (hTVS' : 0 < TVS') (hle : TVS' ≤ TVS) :
    convertNewShareToDecToken (ofInt T) TVS vs ≤ convertNewShareToDecToken (ofInt T) TVS' vs :=
  valTokens_le_of_cross T hT vs TVS vs TVS' hvs hvs (by unfold Dec at *; omega) hTVS'
    (Int.mul_le_mul_of_nonneg_left hle hvs)

/-- C06, the slashed validator: the same amount x comes off its shares and off the asset's share total
    (`C06.slash_step_same_amount`); its token value of the asset does not rise -/
theorem valTokens_slashed_not_more (T : Int) (hT : 0 ≤ T) (vs TVS x : Dec) (hx : 0 ≤ x) (hxv : x ≤ vs) (hv : vs ≤ TVS)
    (hpos : 0 < TVS - x) :
    convertNewShareToDecToken (ofInt T) (TVS - x) (vs - x) ≤ convertNewShareToDecToken (ofInt T) TVS vs := by
  apply valTokens_le_of_cross T hT (vs - x) (TVS - x) vs TVS (by unfold Dec at *; omega) (by unfold Dec at *; omega) hpos
    (by unfold Dec at *; omega)
  -- (vs − x)·TVS ≤ vs·(TVS − x)  ⇔  x·vs ≤ x·TVS
  have h1 : x * vs ≤ x * TVS := Int.mul_le_mul_of_nonneg_left hv hx
  have e1 : (vs - x) * TVS = vs * TVS - x * TVS := Int.sub_mul ..
  have e2 : vs * (TVS - x) = vs * TVS - x * vs := by rw [Int.mul_sub, Int.mul_comm vs x]
  rw [e1, e2]
  unfold Dec at *
  omega

/-- a position's token value is monotone in its validator's token value -/
theorem positionTokens_mono (shares tds v1 v2 : Dec) (hs : 0 ≤ shares) (htds : 0 ≤ tds) (hv1 : 0 ≤ v1) (h : v1 ≤ v2) :
    truncateInt (convertNewShareToDecToken v1 tds shares + rounder) ≤ truncateInt (convertNewShareToDecToken v2 tds shares + rounder) := by
  have hr : (0 : Int) ≤ rounder := by decide
  unfold convertNewShareToDecToken
  by_cases h0 : tds = 0
  · simp only [h0, if_true]
    exact truncateInt_mono _ _ (by unfold Dec at *; omega) (by unfold Dec at *; omega)
  · simp only [h0, if_false]
    have hq : 0 ≤ quo shares tds := quo_nonneg shares tds hs (by unfold Dec at *; omega)
    have hm := mul_mono_right v1 v2 (quo shares tds) hq h
    have hn := mul_nonneg (quo shares tds) v1 hq hv1
    exact truncateInt_mono _ _ (by unfold Dec at *; omega) (by unfold Dec at *; omega)

/-- C06: "no other position loses value". For a validator whose own records are untouched, shrinking the asset's share
    total (what a slash of ANOTHER validator does, staked total unchanged) never lowers what `GetDelegationTokens` reports
    for any of its positions -/
theorem other_position_value_not_less (shares : Dec) (info : ValInfo) (a : Asset) (TVS' : Dec) (x : Int)
    (hs : 0 ≤ shares) (htds : 0 ≤ totalDelSharesWithDenom info a.denom) (hvs : 0 ≤ valSharesWithDenom info a.denom)
    (hT : 0 ≤ a.totalTokens) (hpos : 0 < TVS') (hle : TVS' ≤ a.totalValShares)
    (h : delegationTokensWithShares shares info a = .ok x) :
    ∃ x', delegationTokensWithShares shares info { a with totalValShares := TVS' } = .ok x' ∧ x ≤ x' := by
  unfold delegationTokensWithShares totalTokensWithAsset newCoinAmt at *
  simp only at h ⊢
  have hv := valTokens_other_not_less a.totalTokens hT (valSharesWithDenom info a.denom) a.totalValShares TVS' hvs hpos hle
  have hv0 : 0 ≤ convertNewShareToDecToken (ofInt a.totalTokens) a.totalValShares (valSharesWithDenom info a.denom) := by
    unfold convertNewShareToDecToken
    split
    · unfold ofInt; exact Int.mul_nonneg hT (by decide)
    · exact mul_nonneg _ _ (quo_nonneg _ _ hvs (by unfold Dec at *; omega)) (by unfold ofInt; exact Int.mul_nonneg hT (by decide))
  have hm := positionTokens_mono shares (totalDelSharesWithDenom info a.denom) _ _ hs htds hv0 hv
  split at h
  · cases h
  · injection h with h
    subst h
    refine ⟨_, ?_, hm⟩
    rw [if_neg]
    unfold Dec at *; omega

/-- a validator's token value of an asset is monotone in the asset's staked total -/
theorem valTokens_mono_in_total (T T' : Int) (hT' : 0 ≤ T') (h : T' ≤ T) (vs TVS : Dec) (hvs : 0 ≤ vs) (hTVS : 0 ≤ TVS) :
    convertNewShareToDecToken (ofInt T') TVS vs ≤ convertNewShareToDecToken (ofInt T) TVS vs := by
  have hle : ofInt T' ≤ ofInt T := by unfold ofInt; exact Int.mul_le_mul_of_nonneg_right h (by decide)
  unfold convertNewShareToDecToken
  split
  · exact hle
  · next hz =>
    exact mul_mono_right _ _ _ (quo_nonneg vs TVS hvs (by unfold Dec at *; omega)) hle

/-- C09: lowering an asset's staked total (what a take-rate deduction does — shares are not touched) never raises what
    `GetDelegationTokens` reports for any position in that asset, on any validator -/
theorem position_value_mono_in_total (shares : Dec) (info : ValInfo) (a : Asset) (T' : Int) (x : Int)
    (hs : 0 ≤ shares) (htds : 0 ≤ totalDelSharesWithDenom info a.denom) (hvs : 0 ≤ valSharesWithDenom info a.denom)
    (hTVS : 0 ≤ a.totalValShares) (hT' : 0 ≤ T') (hle : T' ≤ a.totalTokens)
    (h : delegationTokensWithShares shares info a = .ok x) :
    ∃ x', delegationTokensWithShares shares info { a with totalTokens := T' } = .ok x' ∧ x' ≤ x ∧ 0 ≤ x' := by
  unfold delegationTokensWithShares totalTokensWithAsset newCoinAmt at *
  simp only at h ⊢
  have hv := valTokens_mono_in_total a.totalTokens T' hT' hle (valSharesWithDenom info a.denom) a.totalValShares hvs hTVS
  have hv0 : 0 ≤ convertNewShareToDecToken (ofInt T') a.totalValShares (valSharesWithDenom info a.denom) := by
    unfold convertNewShareToDecToken
    split
    · unfold ofInt; exact Int.mul_nonneg hT' (by decide)
    · next hz =>
      exact mul_nonneg _ _ (quo_nonneg _ _ hvs (by unfold Dec at *; omega)) (by unfold ofInt; exact Int.mul_nonneg hT' (by decide))
  have hm := positionTokens_mono shares (totalDelSharesWithDenom info a.denom) _ _ hs htds hv0 hv
  have hr : (0 : Int) ≤ rounder := by decide
  have hpos : 0 ≤ truncateInt (convertNewShareToDecToken
      (convertNewShareToDecToken (ofInt T') a.totalValShares (valSharesWithDenom info a.denom))
      (totalDelSharesWithDenom info a.denom) shares + rounder) := by
    apply truncateInt_nonneg
    have : 0 ≤ convertNewShareToDecToken
        (convertNewShareToDecToken (ofInt T') a.totalValShares (valSharesWithDenom info a.denom))
        (totalDelSharesWithDenom info a.denom) shares := by
      unfold convertNewShareToDecToken
      split
      · split
        · unfold ofInt; exact Int.mul_nonneg hT' (by decide)
        · next hz => exact mul_nonneg _ _ (quo_nonneg _ _ hvs (by unfold Dec at *; omega)) (by unfold ofInt; exact Int.mul_nonneg hT' (by decide))
      · next hz0 =>
        apply mul_nonneg _ _ (quo_nonneg _ _ hs (by unfold Dec at *; omega))
        exact hv0
    unfold Dec at *; omega
  split at h
  · cases h
  · injection h with h
    subst h
    refine ⟨_, ?_, hm, hpos⟩
    rw [if_neg]
    omega


end Alliance
