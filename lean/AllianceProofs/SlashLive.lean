/-
  SlashLive.lean — C08 liveness of the unbonding part of the slash callback: where custody covers the pending unbondings and
  no pending balance is negative, `slashUndelegations` cannot fail — every cut is affordable, and cover, non-negativity and
  the queue's keying are kept for the next key.
-/
import AllianceProofs.PayoutLive
import AllianceProofs.SlashAll
set_option linter.unusedVariables false
namespace Alliance
open Dec

theorem slashEntryCut_bounds (v : ValId) (dk : Denom) (f : Dec) (e : Undel) (hf0 : 0 ≤ f) (hf1 : f ≤ one) (ha : 0 ≤ e.amount) :
    0 ≤ slashEntryCut v dk f e ∧ slashEntryCut v dk f e ≤ e.amount := by
  unfold slashEntryCut
  split
  · exact Dec.truncate_mulInt_le f e.amount hf0 hf1 ha
  · exact ⟨Int.le_refl 0, ha⟩

/-- the transfers of one index key succeed while custody holds what the bucket owes plus a non-negative reserve -/
theorem slashSends_ok (v : ValId) (dk : Denom) (f : Dec) (hf0 : 0 ≤ f) (hf1 : f ≤ one) (o : Denom → Int) (ho : ∀ d, 0 ≤ o d)
    (bucket : List Undel) :
    ∀ (w : World), (∀ e ∈ bucket, 0 ≤ e.amount) → (∀ d, entrySum d bucket + o d ≤ custody w d) →
      ∃ w', forEachM (fun (e : Undel) =>
          if e.val == v && e.denom == dk then sendCoins accModule accFee (Coins.single e.denom (slashEntryCut v dk f e))
          else pure ()) bucket w = (.ok (), w') := by
  induction bucket with
  | nil => intro w _ _; exact ⟨w, rfl⟩
  | cons e r ih =>
    intro w hn hc
    have hamt := hn e (List.mem_cons_self ..)
    have hr : ∀ x ∈ r, 0 ≤ x.amount := fun x hx => hn x (List.mem_cons_of_mem _ hx)
    obtain ⟨c0, c1⟩ := slashEntryCut_bounds v dk f e hf0 hf1 hamt
    unfold forEachM
    simp only [bind_apply]
    by_cases hit : (e.val == v && e.denom == dk) = true
    · simp only [hit, if_true]
      have hafford : slashEntryCut v dk f e ≤ bankBalance w accModule e.denom := by
        have := hc e.denom
        rw [entrySum_cons] at this
        simp only [if_true] at this
        have h1 := entrySum_nonneg e.denom r hr; have h2 := ho e.denom
        unfold custody at this; omega
      obtain ⟨w1, hs⟩ := sendCoins_single_ok accModule accFee e.denom (slashEntryCut v dk f e) w hafford
      rw [hs]
      simp only
      apply ih w1 hr
      intro d
      have hb := sendCoins_spec _ _ _ w w1 hs accModule d
      have hne : ¬ (accModule = accFee) := by decide
      simp only [hne, if_false, if_true, Coins.sumOf_single] at hb
      have := hc d
      rw [entrySum_cons] at this
      unfold custody at *
      rw [hb]
      by_cases hd : e.denom = d
      · simp only [hd, if_true] at this ⊢; omega
      · simp only [hd, if_false] at this ⊢; omega
    · simp only [hit, Bool.false_eq_true, if_false, pure_apply]
      apply ih w hr
      intro d
      have := hc d
      rw [entrySum_cons] at this
      by_cases hd : e.denom = d
      · simp only [hd, if_true] at this; omega
      · simp only [hd, if_false] at this; omega

/-- one index key: the transfers succeed, the bucket is written back, and cover / non-negativity / keying hold afterwards -/
theorem slashKey_ok (v : ValId) (f : Dec) (hf0 : 0 ≤ f) (hf1 : f ≤ one) (kt : Time) (kd : Denom) (kdel : Acct) (w : World)
    (hs : QSorted w) (hn : NonnegQ w) (hc : Cover w) :
    ∃ w1 w2, forEachM (fun (e : Undel) =>
          if e.val == v && e.denom == kd then sendCoins accModule accFee (Coins.single e.denom (slashEntryCut v kd f e))
          else pure ()) ((AL.get w.undelQueue (kt, kdel)).getD []) w = (.ok (), w1) ∧
      w2 = { w1 with undelQueue := AL.set w1.undelQueue (kt, kdel) (slashBucket v kd f ((AL.get w.undelQueue (kt, kdel)).getD [])) } ∧
      QSorted w2 ∧ NonnegQ w2 ∧ Cover w2 ∧ w2.time = w.time ∧ w2.undelIndex = w.undelIndex := by
  -- the bucket, and what the rest of the queue owes
  have hbn : ∀ e ∈ (AL.get w.undelQueue (kt, kdel)).getD [], 0 ≤ e.amount := by
    intro e he
    cases hg : AL.get w.undelQueue (kt, kdel) with
    | none => rw [hg] at he; simp [Option.getD] at he
    | some es => rw [hg] at he; exact hn _ (AL.get_some_mem _ _ _ hg) e he
  have hrest : ∀ d, AL.sumBy (entrySum d) (AL.erase w.undelQueue (kt, kdel)) =
      pending w d - entrySum d ((AL.get w.undelQueue (kt, kdel)).getD []) := by
    intro d
    rw [AL.sum_erase undelKeyOrder _ _ _ hs]
    unfold AL.at? pending
    cases hg : AL.get w.undelQueue (kt, kdel) <;> simp [Option.getD]
  have ho : ∀ d, 0 ≤ pending w d - entrySum d ((AL.get w.undelQueue (kt, kdel)).getD []) := by
    intro d
    rw [← hrest d]
    apply sumBy_nonneg
    intro p hp
    exact entrySum_nonneg d p.2 (fun e he => hn p (AL.mem_erase _ _ _ hp) e he)
  obtain ⟨w1, h1⟩ := slashSends_ok v kd f hf0 hf1 (fun d => pending w d - entrySum d ((AL.get w.undelQueue (kt, kdel)).getD [])) ho
    _ w hbn (fun d => by have := hc d; omega)
  obtain ⟨c1, a1, q1⟩ := slashSends_spec v kd f _ w w1 h1
  have ht : w1.time = w.time ∧ w1.undelIndex = w.undelIndex := by
    obtain ⟨_, f2, f3⟩ := sends_frame v kd f _ w w1 _ h1
    exact ⟨f3, f2⟩
  refine ⟨w1, _, h1, rfl, ?_, ?_, ?_, ht.1, ht.2⟩
  · show AL.SortedBy undelKeyOrder (AL.set w1.undelQueue (kt, kdel) _)
    rw [q1]; exact AL.set_sorted undelKeyOrder _ _ _ hs
  · intro p hp e he
    simp only at hp
    rw [q1] at hp
    rcases AL.mem_set _ _ _ _ hp with h | h
    · rw [h] at he
      simp only at he
      unfold slashBucket at he
      obtain ⟨e0, he0, rfl⟩ := List.mem_map.mp he
      have := slashEntryCut_bounds v kd f e0 hf0 hf1 (hbn e0 he0)
      show 0 ≤ e0.amount - slashEntryCut v kd f e0
      omega
    · exact hn p h e he
  · intro d
    show AL.sumBy (entrySum d) (AL.set w1.undelQueue (kt, kdel) _) ≤ custody w1 d
    rw [q1, AL.sum_set undelKeyOrder _ _ _ _ hs, entrySum_slashBucket, c1 d]
    have hat : AL.at? (entrySum d) w.undelQueue (kt, kdel) = entrySum d ((AL.get w.undelQueue (kt, kdel)).getD []) ∨
        (AL.get w.undelQueue (kt, kdel) = none) := by
      cases hg : AL.get w.undelQueue (kt, kdel) with
      | none => exact Or.inr rfl
      | some es => left; unfold AL.at?; rw [hg]; rfl
    have hcd := hc d
    unfold pending at hcd
    rcases hat with h | h
    · rw [h]; omega
    · unfold AL.at?; rw [h]; simp only [Option.getD_none, List.map_nil, List.sum_nil, entrySum_nil]; omega

/-- C08: the unbonding part of the slash callback cannot fail where custody covers the pending unbondings (C01's invariant)
    and no pending balance is negative (`reach_nq`) -/
theorem slashUndelegations_ok (v : ValId) (f : Dec) (hf0 : 0 ≤ f) (hf1 : f ≤ one) (w : World)
    (hs : QSorted w) (hn : NonnegQ w) (hc : Cover w) : ∃ w', slashUndelegations v f w = (.ok (), w') := by
  unfold slashUndelegations
  simp only [bind_apply, getW_apply]
  generalize (List.filter (fun (k : UndelIdxKey) => k.1 == v) w.undelIndex) = idx
  induction idx generalizing w with
  | nil => exact ⟨w, rfl⟩
  | cons k t ih =>
    obtain ⟨kv, kt, kd, kdel⟩ := k
    unfold forEachM
    simp only [bind_apply, getW_apply]
    by_cases hm : kt < w.time
    · simp only [hm, if_true, pure_apply]
      exact ih w hs hn hc
    · simp only [hm, if_false, bind_apply]
      obtain ⟨w1, w2, h1, e2, s2, n2, c2, _, _⟩ := slashKey_ok v f hf0 hf1 kt kd kdel w hs hn hc
      rw [h1]
      simp only [modifyW_apply]
      rw [← e2]
      exact ih w2 s2 n2 c2

end Alliance
