/-
  ValueError.lean — how far the 18-digit share→token conversion is from the exact quotient: for non-negative operands and a
  positive share total, `ConvertNewShareToDecToken tt ts s` (= Mul(Quo(s, ts), tt), two roundings) differs from s·tt/ts by
  at most (½·10⁻¹⁸ + 10⁻³⁶)·tt + ½·10⁻¹⁸ — stated without division, on the raw 10¹⁸-scaled integers.
-/
import AllianceProofs.ValueMono
set_option linter.unusedVariables false
namespace Alliance
open Dec

theorem conv_ident (r p ts q tt n s : Int) : r * (p * p * ts) - s * tt * (p * p) =
    (r * p - q * tt) * (p * ts) + (q * p - n) * (ts * tt) - (s * (p * p) - n * ts) * tt := by
  simp only [Int.sub_mul]
  have e1 : r * p * (p * ts) = r * (p * p * ts) := by ac_rfl
  have e2 : q * tt * (p * ts) = q * p * (ts * tt) := by ac_rfl
  have e3 : n * (ts * tt) = n * ts * tt := by ac_rfl
  have e4 : s * (p * p) * tt = s * tt * (p * p) := by ac_rfl
  rw [e1, e2, e3, e4]
  omega

theorem bound_ident (h p ts tt : Int) : (h + 1) * ts * tt + h * p * ts = h * (p * ts) + h * (ts * tt) + ts * tt := by
  have e1 : (h + 1) * ts * tt = h * (ts * tt) + ts * tt := by
    rw [Int.mul_assoc, Int.add_mul, Int.one_mul]
  have e2 : h * p * ts = h * (p * ts) := by ac_rfl
  omega

theorem lin_bound (A B C X Y Z : Int) (h1 : A ≤ X) (h2 : 0 ≤ A + X) (h3 : B ≤ Y) (h4 : 0 ≤ B + Y) (h5 : C ≤ Z) (h6 : 0 ≤ C) :
    A + B - C ≤ X + Y + Z ∧ -(A + B - C) ≤ X + Y + Z := by omega

/-- the error bound of one conversion, cross-multiplied: with r = convertNewShareToDecToken tt ts s,
    |r·10³⁶·ts − s·tt·10³⁶| ≤ (H+1)·ts·tt + H·P·ts -/
theorem convert_error_bound (tt ts s : Dec) (htt : 0 ≤ tt) (hts : 0 < ts) (hs : 0 ≤ s) :
    let r := convertNewShareToDecToken tt ts s
    r * (P * P * ts) - s * tt * (P * P) ≤ (H + 1) * ts * tt + H * P * ts ∧
    -(r * (P * P * ts) - s * tt * (P * P)) ≤ (H + 1) * ts * tt + H * P * ts := by
  intro r
  have hne : ¬ ts = 0 := by unfold Dec at *; omega
  have hr : r = mul (quo s ts) tt := by
    show convertNewShareToDecToken tt ts s = _
    unfold convertNewShareToDecToken; simp only [hne, if_false]
  -- the three roundings
  let n : Int := (s * P2) / ts
  have hn0 : 0 ≤ s * P2 := Int.mul_nonneg hs (by decide)
  have hq : quo s ts = chopRound n := by
    unfold quo; rw [Int.tdiv_eq_ediv_of_nonneg hn0]
  have h1a : n * ts ≤ s * P2 := Int.ediv_mul_le _ (by unfold Dec at *; omega)
  have h1b : s * P2 < n * ts + ts := by
    have := Int.lt_ediv_add_one_mul_self (s * P2) hts
    have e : ((s * P2) / ts + 1) * ts = n * ts + ts := by rw [Int.add_mul, Int.one_mul]
    rw [e] at this; exact this
  have h2 := chopRound_bounds n
  have h3 := mul_bounds (quo s ts) tt
  rw [← hr] at h3
  rw [hq] at h3
  -- name the quantities
  generalize hqv : chopRound n = q at h2 h3
  -- e2 := q*P - n ∈ [-H, H];  e3 := r*P - q*tt ∈ [-H, H];  e1 := s*P2 - n*ts ∈ [0, ts)
  have hP2 : (P2 : Int) = P * P := by decide
  -- products with non-negative factors
  have hTT : 0 ≤ ts * tt := Int.mul_nonneg (by unfold Dec at *; omega) htt
  have hPT : 0 ≤ P * ts := Int.mul_nonneg (by decide) (by unfold Dec at *; omega)
  -- (q*P - n) * (ts*tt) within ± H*(ts*tt)
  have b2u : (q * P - n) * (ts * tt) ≤ H * (ts * tt) := Int.mul_le_mul_of_nonneg_right (by unfold Dec at *; omega) hTT
  have b2l : 0 ≤ (q * P - n) * (ts * tt) + H * (ts * tt) := by
    have := Int.mul_nonneg (show 0 ≤ q * P - n + H by unfold Dec at *; omega) hTT
    rw [Int.add_mul] at this; exact this
  have b3u : (r * P - q * tt) * (P * ts) ≤ H * (P * ts) := Int.mul_le_mul_of_nonneg_right (by unfold Dec at *; omega) hPT
  have b3l : 0 ≤ (r * P - q * tt) * (P * ts) + H * (P * ts) := by
    have := Int.mul_nonneg (show 0 ≤ r * P - q * tt + H by unfold Dec at *; omega) hPT
    rw [Int.add_mul] at this; exact this
  have b1u : (s * P2 - n * ts) * tt ≤ ts * tt := Int.mul_le_mul_of_nonneg_right (by unfold Dec at *; omega) htt
  have b1l : 0 ≤ (s * P2 - n * ts) * tt := Int.mul_nonneg (by unfold Dec at *; omega) htt
  -- the algebraic identity: r*P*P*ts - s*P2*tt = (r*P - q*tt)*(P*ts) + (q*P - n)*(ts*tt) - (s*P2 - n*ts)*tt
  have ident : r * (P * P * ts) - s * tt * (P * P) =
      (r * P - q * tt) * (P * ts) + (q * P - n) * (ts * tt) - (s * P2 - n * ts) * tt := by
    rw [hP2]; exact conv_ident r P ts q tt n s
  have e7 := bound_ident H P ts tt
  rw [ident, e7]
  exact lin_bound _ _ _ _ _ _ b3u b3l b2u b2l b1u b1l

/-- a validator's token value of an asset (`TotalTokensWithAsset`) against the exact vs·T/TVS: with V the reported value
    (raw, 10¹⁸-scaled) and T the asset's staked total, |V·10³⁶·TVS − vs·(T·10¹⁸)·10³⁶| ≤ (H+1)·TVS·(T·10¹⁸) + H·P·TVS,
    i.e. |V − vs·T/TVS| ≤ (½ + 10⁻¹⁸)·T·10⁻¹⁸ + ½·10⁻¹⁸ in token units -/
theorem validator_value_error (info : ValInfo) (a : Asset) (hT : 0 ≤ a.totalTokens) (hTVS : 0 < a.totalValShares)
    (hvs : 0 ≤ valSharesWithDenom info a.denom) :
    let V := totalTokensWithAsset info a
    let vs := valSharesWithDenom info a.denom
    V * (P * P * a.totalValShares) - vs * ofInt a.totalTokens * (P * P) ≤
        (H + 1) * a.totalValShares * ofInt a.totalTokens + H * P * a.totalValShares ∧
    -(V * (P * P * a.totalValShares) - vs * ofInt a.totalTokens * (P * P)) ≤
        (H + 1) * a.totalValShares * ofInt a.totalTokens + H * P * a.totalValShares := by
  intro V vs
  exact convert_error_bound (ofInt a.totalTokens) a.totalValShares vs
    (by unfold ofInt; exact Int.mul_nonneg hT (by decide)) hTVS hvs

/-- a position's token value before the final `+ 0.01` and truncation, against shares·V/tds for the validator value V it
    is computed from -/
theorem position_value_error (shares tds V : Dec) (hV : 0 ≤ V) (htds : 0 < tds) (hs : 0 ≤ shares) :
    let D := convertNewShareToDecToken V tds shares
    D * (P * P * tds) - shares * V * (P * P) ≤ (H + 1) * tds * V + H * P * tds ∧
    -(D * (P * P * tds) - shares * V * (P * P)) ≤ (H + 1) * tds * V + H * P * tds :=
  convert_error_bound V tds shares hV htds hs

/-- the reported integer is the floor of that value plus 0.01: within (−1, +0.01] token of it -/
theorem reported_value_floor (D : Dec) (hD : 0 ≤ D) :
    truncateInt (D + rounder) * P ≤ D + rounder ∧ D + rounder < (truncateInt (D + rounder) + 1) * P :=
  truncateInt_bounds (D + rounder) (by
    have hr : (0 : Int) ≤ rounder := by decide
    exact Int.add_nonneg hD hr)

theorem lin_bound2 (A C X Z : Int) (h1 : A ≤ X) (h2 : 0 ≤ A + X) (h5 : C ≤ Z) (h6 : 0 ≤ C) :
    A - C ≤ X + Z ∧ -(A - C) ≤ X + Z := by omega

theorem quo_ident (q p tt n s N : Int) : q * n * (p * tt) - s * n * (p * p) =
    (q * p - N) * (tt * n) - (s * (p * p) - N * tt) * n := by
  simp only [Int.sub_mul]
  have e1 : q * n * (p * tt) = q * p * (tt * n) := by ac_rfl
  have e2 : N * (tt * n) = N * tt * n := by ac_rfl
  have e3 : s * (p * p) * n = s * n * (p * p) := by ac_rfl
  rw [e1, e2, e3]
  omega

/-- tokens → shares (`ConvertNewTokenToShares`, the rate Quo(ts, tt) times the integer amount): with S the result,
    |S·10¹⁸·tt − ts·n·10³⁶| ≤ (H+1)·tt·n, i.e. |S − n·ts/tt| ≤ (½ + 10⁻¹⁸)·n·10⁻¹⁸·… one rounding, scaled by the amount -/
theorem shares_from_tokens_error (tt ts : Dec) (n : Int) (S : Dec) (htt : 0 < tt) (hts : 0 < ts) (hn : 0 ≤ n)
    (h : convertNewTokenToShares tt ts n = .ok S) :
    S * (P * tt) - ts * n * (P * P) ≤ (H + 1) * (tt * n) ∧ -(S * (P * tt) - ts * n * (P * P)) ≤ (H + 1) * (tt * n) := by
  unfold convertNewTokenToShares at h
  have h1 : ¬ ts = 0 := by unfold Dec at *; omega
  have h2 : ¬ tt = 0 := by unfold Dec at *; omega
  simp only [h1, h2, if_false] at h
  injection h with h
  subst h
  let N : Int := (ts * P2) / tt
  have hn0 : 0 ≤ ts * P2 := Int.mul_nonneg (by unfold Dec at *; omega) (by decide)
  have hq : quo ts tt = chopRound N := by unfold quo; rw [Int.tdiv_eq_ediv_of_nonneg hn0]
  have a1 : N * tt ≤ ts * P2 := Int.ediv_mul_le _ (by unfold Dec at *; omega)
  have a2 : ts * P2 < N * tt + tt := by
    have := Int.lt_ediv_add_one_mul_self (ts * P2) htt
    have e : ((ts * P2) / tt + 1) * tt = N * tt + tt := by rw [Int.add_mul, Int.one_mul]
    rw [e] at this; exact this
  have b := chopRound_bounds N
  rw [hq]
  generalize chopRound N = q at b
  have hP2 : (P2 : Int) = P * P := by decide
  have hTN : 0 ≤ tt * n := Int.mul_nonneg (by unfold Dec at *; omega) hn
  have c1 : (q * P - N) * (tt * n) ≤ H * (tt * n) := Int.mul_le_mul_of_nonneg_right (by unfold Dec at *; omega) hTN
  have c2 : 0 ≤ (q * P - N) * (tt * n) + H * (tt * n) := by
    have := Int.mul_nonneg (show 0 ≤ q * P - N + H by unfold Dec at *; omega) hTN
    rw [Int.add_mul] at this; exact this
  have c3 : (ts * P2 - N * tt) * n ≤ tt * n := Int.mul_le_mul_of_nonneg_right (by unfold Dec at *; omega) hn
  have c4 : 0 ≤ (ts * P2 - N * tt) * n := Int.mul_nonneg (by unfold Dec at *; omega) hn
  have ident : mulInt q n * (P * tt) - ts * n * (P * P) = (q * P - N) * (tt * n) - (ts * P2 - N * tt) * n := by
    rw [hP2]; exact quo_ident q P tt n ts N
  have e7 : (H + 1) * (tt * n) = H * (tt * n) + tt * n := by rw [Int.add_mul, Int.one_mul]
  rw [ident, e7]
  exact lin_bound2 _ _ _ _ c1 c2 c3 c4

end Alliance
