/-
  ScopeCheck.lean — the hypotheses of the custody theorems are decidable: the trace driver evaluates `Core d w` (the
  very predicate the theorems assume, not a re-implementation) on every observed state, and the conclusion of
  `step_gap` on every observed successful step.
-/
import AllianceProofs.CustodyHistory
namespace Alliance

instance : DecidableRel undelKeyOrder.lt := fun p q =>
  inferInstanceAs (Decidable (p.1 < q.1 ∨ (p.1 = q.1 ∧ p.2 < q.2)))
instance : DecidableRel natKeyOrder.lt := fun a b => inferInstanceAs (Decidable (a < b))

instance (w : World) : Decidable (QSorted w) := by unfold QSorted AL.SortedBy; exact inferInstance
instance (w : World) : Decidable (UsersOnly w) := by unfold UsersOnly; exact inferInstance

instance (w : World) : Decidable (AL.SortedBy natKeyOrder w.assets) := by unfold AL.SortedBy; exact inferInstance

instance (d : Denom) (w : World) : Decidable (Core d w) :=
  decidable_of_iff (QSorted w ∧ UsersOnly w ∧ d ≠ w.staking.bondDenom ∧ (∀ p ∈ w.assets, p.2.denom = p.1) ∧
      AL.SortedBy natKeyOrder w.assets)
    ⟨fun ⟨a, b, c, e, f⟩ => ⟨a, b, c, e, f⟩, fun h => ⟨h.sorted, h.users, h.notBond, h.keyed, h.asorted⟩⟩

instance (d : Denom) (op : Op) (w : World) : Decidable (OpScope d op w) := by
  unfold OpScope; split <;> exact inferInstance

/-- the denoms the custody theorem speaks about in a state: the whitelisted asset denoms other than the bond denom -/
def custodyDenoms (w : World) : List Denom := (w.assets.map (·.1)).filter (· ≠ w.staking.bondDenom)

/-- what the theorems predict for an observed successful step `pre → post` of `op`: hypotheses hold on `pre`,
    the gap did not fall, the scope is kept, custody covers what is owed. Returns the list of failed predictions. -/
def theoremCheckC01 (op : Op) (pre post : World) : List String :=
  (custodyDenoms pre).flatMap fun d =>
    (if decide (Core d pre) then [] else [s!"hypothesis Core fails on the pre-state for denom {d}"]) ++
    (if decide (OpScope d op pre) then
      (if gap pre d ≤ gap post d then [] else [s!"step_gap: gap of denom {d} fell {gap pre d} -> {gap post d}"]) ++
      (if decide (Core d post) then [] else [s!"step_gap: Core lost on the post-state for denom {d}"]) ++
      -- `custody_covers` for the one-step history pre → post (its premise: custody covered what was owed before)
      (if 0 ≤ gap pre d ∧ ¬ 0 ≤ gap post d then [s!"custody_covers: gap of denom {d} is {gap post d}"] else [])
     else [])

end Alliance
