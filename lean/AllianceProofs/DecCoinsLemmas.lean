/-
  DecCoinsLemmas.lean — per-denom totals of `sdk.DecCoins` values: `add` is additive, `negate` negates, a strictly
  sorted list has one entry per denom so `amountOf` is the per-denom total, `add` keeps lists strictly sorted.
-/
import AllianceModel.Keeper
namespace Alliance
open Dec

namespace DecCoins

def sumOf (cs : DecCoins) (d : Denom) : Int := (cs.map fun c => if c.1 = d then c.2 else 0).sum

@[simp] theorem sumOf_nil (d : Denom) : sumOf [] d = 0 := rfl
@[simp] theorem sumOf_cons (c : Denom × Dec) (t : DecCoins) (d : Denom) :
    sumOf (c :: t) d = (if c.1 = d then c.2 else 0) + sumOf t d := by
  unfold sumOf; simp

theorem sumOf_removeZero (cs : DecCoins) (d : Denom) : sumOf (removeZero cs) d = sumOf cs d := by
  induction cs with
  | nil => rfl
  | cons c t ih =>
    obtain ⟨dc, x⟩ := c
    unfold removeZero
    split
    · next h => rw [ih, sumOf_cons]; simp only [h]; split <;> (unfold Dec at *; omega)
    · rw [sumOf_cons, sumOf_cons, ih]

theorem sumOf_add (a b : DecCoins) (d : Denom) : sumOf (add a b) d = sumOf a d + sumOf b d := by
  fun_induction add a b
  all_goals simp only [sumOf_cons, sumOf_nil, sumOf_removeZero] at *
  all_goals try unfold Dec at *
  all_goals first | omega | (split <;> omega)

theorem sumOf_negate (a : DecCoins) (d : Denom) : sumOf (negate a) d = - sumOf a d := by
  induction a with
  | nil => rfl
  | cons c t ih =>
    obtain ⟨dc, x⟩ := c
    unfold negate at *
    simp only [List.map_cons, sumOf_cons, ih]
    split <;> (unfold Dec at *; omega)

theorem sumOf_single (d' : Denom) (x : Dec) (d : Denom) : sumOf (single d' x) d = if d' = d then x else 0 := by
  unfold single
  split
  · next h => subst h; simp
  · simp

/-- strictly increasing denoms -/
def Sorted (cs : DecCoins) : Prop := cs.Pairwise (fun p q => p.1 < q.1)

theorem sorted_nil : Sorted [] := List.Pairwise.nil
theorem sorted_single (d : Denom) (x : Dec) : Sorted (single d x) := by
  unfold single; split
  · exact List.Pairwise.nil
  · exact List.pairwise_singleton _ _

/-- in a strictly sorted list `AmountOf` is the per-denom total -/
theorem amountOf_eq_sumOf (cs : DecCoins) (hs : Sorted cs) (d : Denom) : amountOf cs d = sumOf cs d := by
  induction cs with
  | nil => rfl
  | cons c t ih =>
    obtain ⟨dc, x⟩ := c
    have ht := (List.pairwise_cons.mp hs)
    unfold amountOf
    rw [sumOf_cons]
    by_cases h : d = dc
    · subst h
      simp only [if_true]
      -- nothing of denom d further on
      have : sumOf t d = 0 := by
        have hlt := ht.1
        clear ih hs ht
        induction t with
        | nil => rfl
        | cons q r ihr =>
          rw [sumOf_cons]
          have h1 : d < q.1 := hlt q (List.mem_cons_self ..)
          have hne : ¬ q.1 = d := by intro e; rw [e] at h1; exact Nat.lt_irrefl _ h1
          simp only [hne, if_false]
          rw [ihr (fun y hy => hlt y (List.mem_cons_of_mem _ hy))]
          rfl
      rw [this]; unfold Dec at *; omega
    · have h' : ¬ dc = d := fun e => h e.symm
      simp only [h, h', if_false]
      rw [ih ht.2]
      unfold Dec at *; omega

theorem mem_removeZero (cs : DecCoins) (p : Denom × Dec) (h : p ∈ removeZero cs) : p ∈ cs := by
  induction cs with
  | nil => cases h
  | cons c t ih =>
    obtain ⟨dc, x⟩ := c
    unfold removeZero at h
    split at h
    · exact List.mem_cons_of_mem _ (ih h)
    · rcases List.mem_cons.mp h with h | h
      · rw [h]; exact List.mem_cons_self ..
      · exact List.mem_cons_of_mem _ (ih h)

theorem removeZero_sorted (cs : DecCoins) (hs : Sorted cs) : Sorted (removeZero cs) := by
  induction cs with
  | nil => exact sorted_nil
  | cons c t ih =>
    obtain ⟨dc, x⟩ := c
    have ht := List.pairwise_cons.mp hs
    unfold removeZero
    split
    · exact ih ht.2
    · exact List.pairwise_cons.mpr ⟨fun q hq => ht.1 q (mem_removeZero t q hq), ih ht.2⟩

/-- every denom of a merge comes from one of the two lists -/
theorem mem_add_key (a b : DecCoins) (p : Denom × Dec) (h : p ∈ add a b) : (∃ q ∈ a, q.1 = p.1) ∨ (∃ q ∈ b, q.1 = p.1) := by
  fun_induction add a b
  · exact Or.inr ⟨p, mem_removeZero _ p h, rfl⟩
  · exact Or.inl ⟨p, mem_removeZero _ p h, rfl⟩
  all_goals rename_i ih
  · rcases ih h with ⟨q, hq, e⟩ | r
    · exact Or.inl ⟨q, List.mem_cons_of_mem _ hq, e⟩
    · exact Or.inr r
  · rcases List.mem_cons.mp h with h | h
    · exact Or.inl ⟨_, List.mem_cons_self .., by rw [h]⟩
    · rcases ih h with ⟨q, hq, e⟩ | r
      · exact Or.inl ⟨q, List.mem_cons_of_mem _ hq, e⟩
      · exact Or.inr r
  · rcases ih h with ⟨q, hq, e⟩ | ⟨q, hq, e⟩
    · exact Or.inl ⟨q, List.mem_cons_of_mem _ hq, e⟩
    · exact Or.inr ⟨q, List.mem_cons_of_mem _ hq, e⟩
  · rcases List.mem_cons.mp h with h | h
    · exact Or.inl ⟨_, List.mem_cons_self .., by rw [h]⟩
    · rcases ih h with ⟨q, hq, e⟩ | ⟨q, hq, e⟩
      · exact Or.inl ⟨q, List.mem_cons_of_mem _ hq, e⟩
      · exact Or.inr ⟨q, List.mem_cons_of_mem _ hq, e⟩
  · rcases ih h with l | ⟨q, hq, e⟩
    · exact Or.inl l
    · exact Or.inr ⟨q, List.mem_cons_of_mem _ hq, e⟩
  · rcases List.mem_cons.mp h with h | h
    · exact Or.inr ⟨_, List.mem_cons_self .., by rw [h]⟩
    · rcases ih h with l | ⟨q, hq, e⟩
      · exact Or.inl l
      · exact Or.inr ⟨q, List.mem_cons_of_mem _ hq, e⟩

theorem sorted_tail {p : Denom × Dec} {t : DecCoins} (h : Sorted (p :: t)) : Sorted t := (List.pairwise_cons.mp h).2
theorem sorted_head {p : Denom × Dec} {t : DecCoins} (h : Sorted (p :: t)) : ∀ q ∈ t, p.1 < q.1 := (List.pairwise_cons.mp h).1

/-- the merge of two strictly sorted lists is strictly sorted -/
theorem add_sorted (a b : DecCoins) (ha : Sorted a) (hb : Sorted b) : Sorted (add a b) := by
  fun_induction add a b
  · exact removeZero_sorted _ hb
  · exact removeZero_sorted _ ha
  · rename_i ih; exact ih (sorted_tail ha) hb
  · rename_i da xa ta db xb tb hlt hz ih
    refine List.pairwise_cons.mpr ⟨?_, ih (sorted_tail ha) hb⟩
    intro q hq
    rcases mem_add_key _ _ q hq with ⟨r, hr, e⟩ | ⟨r, hr, e⟩
    · rw [← e]; exact sorted_head ha r hr
    · rw [← e]
      rcases List.mem_cons.mp hr with h | h
      · rw [h]; exact hlt
      · exact Nat.lt_trans hlt (sorted_head hb r h)
  · rename_i ih; exact ih (sorted_tail ha) (sorted_tail hb)
  · rename_i xa ta db xb tb hz hnlt ih
    refine List.pairwise_cons.mpr ⟨?_, ih (sorted_tail ha) (sorted_tail hb)⟩
    intro q hq
    rcases mem_add_key _ _ q hq with ⟨r, hr, e⟩ | ⟨r, hr, e⟩
    · rw [← e]; exact sorted_head ha r hr
    · rw [← e]; exact sorted_head hb r hr
  · rename_i ih; exact ih ha (sorted_tail hb)
  · rename_i da xa ta db xb tb hnlt hne hz ih
    have hgt : db < da := by
      rcases Nat.lt_trichotomy da db with h | h | h
      · exact absurd h hnlt
      · exact absurd h hne
      · exact h
    refine List.pairwise_cons.mpr ⟨?_, ih ha (sorted_tail hb)⟩
    intro q hq
    rcases mem_add_key _ _ q hq with ⟨r, hr, e⟩ | ⟨r, hr, e⟩
    · rw [← e]
      rcases List.mem_cons.mp hr with h | h
      · rw [h]; exact hgt
      · exact Nat.lt_trans hgt (sorted_head ha r h)
    · rw [← e]; exact sorted_head hb r hr

theorem negate_sorted (a : DecCoins) (ha : Sorted a) : Sorted (negate a) := by
  unfold negate Sorted
  rw [List.pairwise_map]
  exact ha

end DecCoins

/-- `DecCoins.Sub` when it succeeds: the merge with the negation -/
theorem decCoinsSub_ok (a b r : DecCoins) (h : decCoinsSub a b = .ok r) : r = DecCoins.add a (DecCoins.negate b) := by
  unfold decCoinsSub DecCoins.safeSub at h
  simp only at h
  split at h
  · cases h
  · injection h with h; exact h.symm

theorem decCoinsSub_sum (a b r : DecCoins) (h : decCoinsSub a b = .ok r) (d : Denom) :
    DecCoins.sumOf r d = DecCoins.sumOf a d - DecCoins.sumOf b d := by
  rw [decCoinsSub_ok a b r h, DecCoins.sumOf_add, DecCoins.sumOf_negate]; omega

theorem decCoinsSub_sorted (a b r : DecCoins) (h : decCoinsSub a b = .ok r) (ha : DecCoins.Sorted a) (hb : DecCoins.Sorted b) :
    DecCoins.Sorted r := by
  rw [decCoinsSub_ok a b r h]; exact DecCoins.add_sorted _ _ ha (DecCoins.negate_sorted _ hb)

/-- the clamped subtraction of ONE coin that does not overdraw: exact subtraction -/
theorem subtract_single_exact (d1s : DecCoins) (d : Denom) (x : Dec) (r : DecCoins)
    (h : subtractDecCoinsWithRounding d1s (DecCoins.single d x) = .ok r) (hx : x ≠ 0 → x ≤ DecCoins.amountOf d1s d) :
    (∀ d', DecCoins.sumOf r d' = DecCoins.sumOf d1s d' - (if d = d' then x else 0)) ∧
    (DecCoins.Sorted d1s → DecCoins.Sorted r) := by
  unfold subtractDecCoinsWithRounding DecCoins.single at h
  by_cases h0 : x = 0
  · simp only [h0, if_true, List.foldlM_nil, pure, Except.pure] at h
    injection h with h; subst h
    exact ⟨fun d' => by subst h0; split <;> omega, fun hs => hs⟩
  · simp only [h0, if_false, List.foldlM_cons, List.foldlM_nil] at h
    have hx := hx h0
    have hng : ¬ (x > DecCoins.amountOf d1s d ∧ x - DecCoins.amountOf d1s d < one) := by
      intro hc; unfold Dec at *; omega
    simp only [hng, if_false, bind, Except.bind] at h
    have hsingle : DecCoins.single d x = [(d, x)] := by unfold DecCoins.single; simp only [h0, if_false]
    rw [← hsingle] at h
    cases hsub : decCoinsSub d1s (DecCoins.single d x) with
    | error e => rw [hsub] at h; cases h
    | ok r0 =>
      rw [hsub] at h
      simp only [pure, Except.pure] at h
      injection h with h; subst h
      constructor
      · intro d'
        rw [decCoinsSub_sum _ _ _ hsub, DecCoins.sumOf_single]
      · intro hs
        exact decCoinsSub_sorted _ _ _ hsub hs (DecCoins.sorted_single d x)

end Alliance
