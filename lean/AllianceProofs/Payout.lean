/-
  Payout.lean — what `CompleteUnbondings` pays, per account and denom, exactly: a user account's balance of denom d
  grows by the sum of the balances of the matured entries that name it as delegator and d as denom, and by nothing else.
-/
import AllianceProofs.BalT
import AllianceProofs.IndexHistory
set_option linter.unusedVariables false
namespace Alliance
open Dec

/-- additive observables along a loop whose steps have their own deltas -/
theorem Obs.forEachM_sum {γ : Type} {I : World → Prop} {φ : World → Int} (f : γ → M Unit) (δ : γ → Int) (xs : List γ)
    (h : ∀ x ∈ xs, Obs I φ (δ x) (f x)) : Obs I φ (xs.map δ).sum (Alliance.forEachM f xs) := by
  induction xs with
  | nil => exact Obs.pure ()
  | cons x r ih =>
    unfold Alliance.forEachM
    simp only [List.map_cons, List.sum_cons]
    exact Obs.bind (h x (List.mem_cons_self ..)) (fun _ => ih (fun y hy => h y (List.mem_cons_of_mem _ hy)))

/-- what one entry owes account `u` in denom `d` -/
def owedE (u : Acct) (d : Denom) (e : Undel) : Int := if e.del = u ∧ e.denom = d then e.amount else 0
def owedB (u : Acct) (d : Denom) (b : UndelKey × List Undel) : Int := (b.2.map (owedE u d)).sum
/-- the sum over the buckets that have matured at the state's block time -/
def owedNow (u : Acct) (d : Denom) (w : World) : Int := ((maturedBuckets w).map (owedB u d)).sum

theorem modifyW_balT (g : World → World) (hg : ∀ w, (g w).bank = w.bank) (acct : Acct) (d : Denom) :
    BalT acct d 0 (modifyW g) := by
  constructor
  intro w w' a hm _
  simp only [modifyW_apply] at hm
  injection hm with _ h2; subst h2
  refine ⟨?_, trivial⟩
  show bankBalance (g w) acct d = bankBalance w acct d + 0
  unfold bankBalance; rw [hg]; omega

theorem payEntry_balT (t : Time) (e : Undel) (u : Acct) (d : Denom) (hu : u ≠ accModule) :
    BalT u d (owedE u d e) (payEntry t e) := by
  unfold payEntry
  have hd : owedE u d e = ((if u = e.del then Coins.sumOf (Coins.single e.denom e.amount) d else 0) -
      (if u = accModule then Coins.sumOf (Coins.single e.denom e.amount) d else 0)) + 0 := by
    rw [Coins.sumOf_single]
    unfold owedE
    by_cases h1 : u = e.del
    · by_cases h2 : e.denom = d
      · simp [h2, hu, ← h1]
      · simp [h2, hu, ← h1]
    · have : ¬ e.del = u := fun h => h1 h.symm
      simp [h1, this, hu]
  rw [hd]
  apply Obs.bind (sendCoins_balT accModule e.del (Coins.single e.denom e.amount) u d)
  intro _
  apply modifyW_balT
  intro w; rfl

theorem payBucket_balT (b : UndelKey × List Undel) (u : Acct) (d : Denom) (hu : u ≠ accModule) :
    BalT u d (owedB u d b) (payBucket b) := by
  unfold payBucket
  have hd : owedB u d b = (b.2.map (owedE u d)).sum + 0 := by unfold owedB; omega
  rw [hd]
  apply Obs.bind (Obs.forEachM_sum _ (owedE u d) b.2 (fun e _ => payEntry_balT b.1.1 e u d hu))
  intro _
  apply modifyW_balT
  intro w; rfl

theorem burnCoin_balT (acct : Acct) (dn : Denom) (x : Int) (u : Acct) (d : Denom) (hu : u ≠ acct) :
    BalT u d 0 (burnCoin acct dn x) := by
  constructor
  intro w w' a hm _
  refine ⟨?_, trivial⟩
  unfold burnCoin at hm
  simp only [bind_apply, getW_apply, guardE_apply] at hm
  by_cases hg : bankBalance w acct dn < x
  · simp [hg] at hm
  · simp only [hg, if_false, setBalance, modifyW_apply] at hm
    injection hm with _ h2; subst h2
    have hne : ¬ (u, d) = (acct, dn) := fun h => hu (by injection h)
    show bankBalance _ u d = bankBalance w u d + 0
    unfold bankBalance
    simp only
    rw [AL.get_set_ne _ _ _ _ hne]; omega

/-- `CompleteUnbondings` pays a user account exactly what the matured entries naming it hold, in each denom -/
theorem completeUnbondings_pays (u : Acct) (d : Denom) (hu : u ≠ accModule) (w w' : World)
    (h : completeUnbondings w = (.ok (), w')) : bankBalance w' u d = bankBalance w u d + owedNow u d w := by
  unfold completeUnbondings at h
  simp only [bind_apply, getW_apply] at h
  rcases hl : forEachM payBucket (maturedBuckets w) w with ⟨r, w1⟩
  rw [hl] at h
  cases r with
  | error e => simp at h
  | ok x =>
    simp only at h
    have h1 := (Obs.forEachM_sum payBucket (owedB u d) (maturedBuckets w)
      (fun b _ => payBucket_balT b u d hu)).run w w1 x hl trivial
    have h2 : bankBalance w' u d = bankBalance w1 u d + 0 := by
      split at h
      · exact ((burnCoin_balT accModule _ _ u d hu).run w1 w' () h trivial).1
      · simp only [pure_apply] at h
        injection h with _ h2; subst h2; omega
    unfold owedNow
    omega

end Alliance
