/-
  IndexHistory.lean — the unbonding index and the unbonding queue describe the same pending entries in every state of
  every history (`IdxOK`): used for C07 (a slash reaches every pending entry of the validator), C02 and C20 (the queries
  see every entry exactly once).
-/
import AllianceProofs.IndexInv
import AllianceProofs.ShareLedger
import AllianceProofs.FrameUndel
import AllianceProofs.Custody
import AllianceProofs.CustodyHistory
set_option linter.unusedVariables false
namespace Alliance
open Dec

def IX (w : World) : Prop := IdxOK w.undelQueue w.undelIndex

theorem IX.frame {α} {m : M α} (h : FrameUndel.Fr m) : Hoare IX m (fun _ w => IX w) := by
  constructor
  intro w w' a hm hw
  have hf : FrameUndel.π w' = FrameUndel.π w := by have := h.frame w; rw [hm] at this; exact this
  simp only [FrameUndel.π, Prod.mk.injEq] at hf
  unfold IX; rw [hf.1, hf.2]; exact hw

macro "u_frame" : tactic => `(tactic| (first | exact FrameUndel.liftE _ | exact FrameUndel.pure _ | exact FrameUndel.guardE _ _ | exact FrameUndel.guardP _ _ | (simp only [uframe]; done)))

theorem queueUndelegation_ix (del : Acct) (v : ValId) (d : Denom) (amt : Int) :
    Hoare IX (queueUndelegation del v d amt) (fun _ w => IX w) := by
  constructor
  intro w w' a hm hw
  have hst := queueUndelegation_state del v d amt w
  have : w' = (queueUndelegation del v d amt w).2 := by rw [hm]
  rw [this, hst]
  exact IdxOK.queue hw _ del v d amt

/-- the index after paying the entries of one bucket: their keys are erased one by one; the queue is untouched -/
theorem payEntries_state (t : Time) (es : List Undel) (w w' : World) (h : forEachM (payEntry t) es w = (.ok (), w')) :
    w'.undelQueue = w.undelQueue ∧
    w'.undelIndex = (es.map fun e => (e.val, t, e.denom, e.del)).foldl List.erase w.undelIndex := by
  induction es generalizing w with
  | nil =>
    unfold forEachM at h
    simp only [pure_apply] at h
    injection h with _ h2; subst h2
    exact ⟨rfl, rfl⟩
  | cons e r ih =>
    unfold forEachM at h
    simp only [bind_apply] at h
    rcases hp : payEntry t e w with ⟨r1, w1⟩
    rw [hp] at h
    cases r1 with
    | error er => simp at h
    | ok u =>
      simp only at h
      obtain ⟨q2, i2⟩ := ih w1 h
      -- one entry
      unfold payEntry at hp
      simp only [bind_apply] at hp
      rcases hs : sendCoins accModule e.del (Coins.single e.denom e.amount) w with ⟨r0, w0⟩
      have hf := (FrameUndel.sendCoins accModule e.del (Coins.single e.denom e.amount)).frame w
      rw [hs] at hf hp
      simp only [FrameUndel.π, Prod.mk.injEq] at hf
      cases r0 with
      | error er => simp at hp
      | ok u0 =>
        simp only [modifyW_apply] at hp
        injection hp with _ hp2
        subst hp2
        refine ⟨by rw [q2]; exact hf.1, ?_⟩
        rw [i2]
        simp only [List.map_cons, List.foldl_cons]
        rw [hf.2]

theorem payBucket_ix (b : UndelKey × List Undel) :
    Hoare (fun w => IX w ∧ AL.get w.undelQueue b.1 = some b.2) (payBucket b) (fun _ w => IX w) := by
  constructor
  intro w w' a hm hw
  obtain ⟨hix, hg⟩ := hw
  unfold payBucket at hm
  simp only [bind_apply] at hm
  rcases hp : forEachM (payEntry b.1.1) b.2 w with ⟨r, w1⟩
  rw [hp] at hm
  cases r with
  | error er => simp at hm
  | ok u =>
    simp only [modifyW_apply] at hm
    injection hm with _ h2
    subst h2
    obtain ⟨q1, i1⟩ := payEntries_state _ _ _ _ hp
    unfold IX
    simp only
    rw [q1, i1]
    obtain ⟨⟨t, del⟩, es⟩ := b
    exact IdxOK.pay hix t del es hg

/-- paying a list of distinct buckets of the queue, one after the other -/
theorem payBuckets_ix (ms : List (UndelKey × List Undel)) (w w' : World)
    (h : forEachM payBucket ms w = (.ok (), w')) (hix : IX w)
    (hget : ∀ b ∈ ms, AL.get w.undelQueue b.1 = some b.2) (hdist : ms.Pairwise (fun a b => a.1 ≠ b.1)) : IX w' := by
  induction ms generalizing w with
  | nil =>
    unfold forEachM at h
    simp only [pure_apply] at h
    injection h with _ h2; subst h2; exact hix
  | cons b t ih =>
    unfold forEachM at h
    simp only [bind_apply] at h
    rcases hp : payBucket b w with ⟨r, w1⟩
    rw [hp] at h
    cases r with
    | error er => simp at h
    | ok u =>
      simp only at h
      have hd := List.pairwise_cons.mp hdist
      have hix1 := (payBucket_ix b).run w w1 () hp ⟨hix, hget b (List.mem_cons_self ..)⟩
      -- the queue after paying b is the queue without b's key
      have hq1 : w1.undelQueue = AL.erase w.undelQueue b.1 := by
        unfold payBucket at hp
        simp only [bind_apply] at hp
        rcases hpe : forEachM (payEntry b.1.1) b.2 w with ⟨r0, w0⟩
        rw [hpe] at hp
        cases r0 with
        | error er => simp at hp
        | ok u0 =>
          simp only [modifyW_apply] at hp
          injection hp with _ hp2
          rw [← hp2]
          simp only
          rw [(payEntries_state _ _ _ _ hpe).1]
      refine ih w1 h hix1 ?_ hd.2
      intro b' hb'
      rw [hq1, AL.get_erase_ne _ _ _ (fun e => hd.1 b' hb' e.symm)]
      exact hget b' (List.mem_cons_of_mem _ hb')

theorem completeUnbondings_ix : Hoare IX completeUnbondings (fun _ w => IX w) := by
  constructor
  intro w w' a hm hix
  unfold completeUnbondings at hm
  simp only [bind_apply, getW_apply] at hm
  rcases hl : forEachM payBucket (maturedBuckets w) w with ⟨r, w1⟩
  rw [hl] at hm
  cases r with
  | error er => simp at hm
  | ok u =>
    simp only at hm
    have hsub : ∀ b ∈ maturedBuckets w, b ∈ w.undelQueue := by
      intro b hb; unfold maturedBuckets at hb; exact (List.mem_filter.mp hb).1
    have hget : ∀ b ∈ maturedBuckets w, AL.get w.undelQueue b.1 = some b.2 :=
      fun b hb => AL.mem_get undelKeyOrder _ b hix.qsorted (hsub b hb)
    have hdist : (maturedBuckets w).Pairwise (fun a b => a.1 ≠ b.1) := by
      have : (maturedBuckets w).Pairwise (fun p q => undelKeyOrder.lt p.1 q.1) := by
        unfold maturedBuckets; exact List.Pairwise.filter _ hix.qsorted
      refine this.imp ?_
      intro a b hlt he
      rw [he] at hlt
      exact undelKeyOrder.irrefl _ hlt
    have hix1 := payBuckets_ix _ w w1 hl hix hget hdist
    split at hm
    · exact (IX.frame (FrameUndel.burnCoin _ _ _)).run w1 w' a hm hix1
    · simp only [pure_apply] at hm
      injection hm with _ h2; subst h2; exact hix1

theorem slashBucket_eq_map (v : ValId) (d : Denom) (f : Dec) (bucket : List Undel) :
    slashBucket v d f bucket = bucket.map (fun e => { e with amount := e.amount - slashEntryCut v d f e }) := rfl

theorem slashUndelegations_ix (v : ValId) (f : Dec) : Hoare IX (slashUndelegations v f) (fun _ w => IX w) := by
  unfold slashUndelegations
  apply Hoare.getW_bind; intro w0 hP
  apply Hoare.at_state hP
  dsimp only []
  apply Hoare.forEachM
  intro k _
  apply Hoare.getW_bind; intro w1 hP1
  obtain ⟨kv, kt, kd, kdel⟩ := k
  dsimp only []
  apply Hoare.ite
  · intro _; exact Hoare.pure _ (fun w e => by subst e; exact hP1)
  · intro _
    -- the sends do not touch the two stores; the bucket written back is the one read, entry-wise rewritten
    refine Hoare.conseq (P' := fun w => IX w ∧ w.undelQueue = w1.undelQueue) (Q' := fun _ w => IX w) ?_
      (fun w e => by subst e; exact ⟨hP1, rfl⟩) (fun _ _ q => q)
    apply Hoare.bind (R := fun _ w => IX w ∧ w.undelQueue = w1.undelQueue)
    · constructor
      intro w w' a hm hw
      have hfr : FrameUndel.Fr (forEachM (fun (e : Undel) =>
          if e.val == v && e.denom == kd then sendCoins accModule accFee (Coins.single e.denom (slashEntryCut v kd f e))
          else pure ()) ((AL.get w1.undelQueue (kt, kdel)).getD [])) := by
        apply FrameUndel.forEachM
        intro e
        split
        · exact FrameUndel.sendCoins _ _ _
        · exact FrameUndel.pure _
      have hf : FrameUndel.π w' = FrameUndel.π w := by have := hfr.frame w; rw [hm] at this; exact this
      simp only [FrameUndel.π, Prod.mk.injEq] at hf
      exact ⟨by unfold IX; rw [hf.1, hf.2]; exact hw.1, by rw [hf.1]; exact hw.2⟩
    · intro _
      refine Hoare.modifyW _ (fun w hw => ?_)
      obtain ⟨hix, hq⟩ := hw
      unfold IX
      simp only
      rw [slashBucket_eq_map, ← hq]
      exact IdxOK.mapBucket hix (kt, kdel) _ (fun e => ⟨rfl, rfl, rfl⟩)

theorem undelegate_ix (del : Acct) (val : AVal) (d : Denom) (amt : Int) : Hoare IX (undelegate del val d amt) (fun _ w => IX w) := by
  unfold undelegate
  apply Hoare.getW_bind; intro w0 hP
  apply Hoare.at_state hP
  split
  · exact Hoare.throwE _
  · apply Hoare.bind (IX.frame (by u_frame)); intro _
    apply Hoare.bind (IX.frame (by u_frame)); intro r
    apply Hoare.getW_bind; intro w1 hP1
    apply Hoare.at_state hP1
    apply Hoare.bind (IX.frame (by u_frame)); intro _
    apply Hoare.bind (IX.frame (by u_frame)); intro _
    apply Hoare.bind (IX.frame (by u_frame)); intro _
    apply Hoare.bind (IX.frame (by u_frame)); intro _
    apply Hoare.bind (IX.frame (by u_frame)); intro _
    apply Hoare.bind (IX.frame (by u_frame)); intro _
    apply Hoare.bind (IX.frame (by u_frame)); intro _
    apply Hoare.bind (IX.frame (by u_frame)); intro _
    apply Hoare.bind (IX.frame (by u_frame)); intro val2
    apply Hoare.bind (IX.frame (by u_frame)); intro _
    apply Hoare.bind (queueUndelegation_ix del val2.id d amt); intro _
    exact IX.frame (by u_frame)

theorem msgUndelegate_ix (del : Acct) (v : ValId) (d : Denom) (amt : Int) : Hoare IX (msgUndelegate del v d amt) (fun _ w => IX w) := by
  unfold msgUndelegate
  apply Hoare.bind (IX.frame (by u_frame)); intro _
  apply Hoare.bind (IX.frame (by u_frame)); intro val
  exact undelegate_ix del val d amt

theorem beforeValidatorSlashed_ix (v : ValId) (f : Dec) : Hoare IX (beforeValidatorSlashed v f) (fun _ w => IX w) := by
  unfold beforeValidatorSlashed slashValidator
  apply Hoare.bind
  · apply Hoare.bind (IX.frame (by u_frame)); intro _
    apply Hoare.bind (IX.frame (by u_frame)); intro val
    apply Hoare.bind
    · apply IX.frame
      apply FrameUndel.foldlM
      intro acc share
      apply FrameUndel.bind (by u_frame); intro _
      apply FrameUndel.bind FrameUndel.getW; intro w1
      split
      · exact FrameUndel.throwE _
      · exact FrameUndel.bind (by u_frame) (fun _ => FrameUndel.pure _)
    · intro slashed
      apply Hoare.bind (IX.frame (by u_frame)); intro _
      apply Hoare.bind (IX.frame (by u_frame)); intro _
      exact slashUndelegations_ix v f
  · intro _; exact IX.frame (by u_frame)

theorem endBlocker_ix : Hoare IX endBlocker (fun _ w => IX w) := by
  unfold endBlocker
  apply Hoare.bind (IX.frame (by u_frame)); intro _
  apply Hoare.bind completeUnbondings_ix; intro _
  apply Hoare.getW_bind; intro w0 hP
  apply Hoare.at_state hP
  dsimp only []
  apply Hoare.bind (IX.frame (by u_frame)); intro as1
  apply Hoare.bind (IX.frame (by u_frame)); intro as2
  apply Hoare.bind (IX.frame (by u_frame)); intro as3
  exact IX.frame (by u_frame)

/-- every operation of the state machine, when it succeeds, keeps the unbonding index and queue in agreement -/
theorem step_ix (op : Op) (w w' : World) (h : step op w = (.ok (), w')) (hix : IX w) : IX w' := by
  have tx : ∀ (m : M Unit), Hoare IX m (fun _ w => IX w) → asTx m w = (.ok (), w') → IX w' :=
    fun m hm hr => (Hoare.asTx hm).run w w' () hr hix
  cases op with
  | delegate del v d amt => exact tx _ (IX.frame (FrameUndel.msgDelegate del v d amt)) h
  | undelegate del v d amt => exact tx _ (msgUndelegate_ix del v d amt) h
  | redelegate del s t d amt => exact tx _ (IX.frame (FrameUndel.msgRedelegate del s t d amt)) h
  | claim del v d => exact tx _ (IX.frame (FrameUndel.msgClaim del v d)) h
  | createAlliance s f => exact tx _ (IX.frame (FrameUndel.msgCreateAlliance s f)) h
  | updateAlliance s f => exact tx _ (IX.frame (FrameUndel.msgUpdateAlliance s f)) h
  | deleteAlliance s d => exact tx _ (IX.frame (FrameUndel.msgDeleteAlliance s d)) h
  | updateParams s p => exact tx _ (IX.frame (FrameUndel.msgUpdateParams s p)) h
  | slash v f => exact (beforeValidatorSlashed_ix v f).run w w' () h hix
  | endBlock => exact endBlocker_ix.run w w' () h hix
  | hookDelegationModified => exact (IX.frame FrameUndel.queueRebalance).run w w' () h hix
  | hookValidatorBonded => exact (IX.frame FrameUndel.queueRebalance).run w w' () h hix
  | hookValidatorBeginUnbonding => exact (IX.frame FrameUndel.queueRebalance).run w w' () h hix
  | hookDelegationRemoved => exact (IX.frame FrameUndel.queueRebalance).run w w' () h hix
  | hookValidatorRemoved v => exact (IX.frame (FrameUndel.afterValidatorRemoved v)).run w w' () h hix
  | env => exact (IX.frame (FrameUndel.pure ())).run w w' () h hix

/-- histories: operations (each on its own response tape), failed transactions, and environment steps that leave the
    two unbonding stores alone -/
inductive ReachU : World → World → Prop
  | refl (w : World) : ReachU w w
  | env {w w1 w2 : World} : ReachU w w1 → w2.undelQueue = w1.undelQueue → w2.undelIndex = w1.undelIndex → ReachU w w2
  | ok {w w1 w2 : World} (op : Op) (tape : List (ValId × Coins)) : ReachU w w1 →
      step op { w1 with oracle := tape } = (.ok (), w2) → ReachU w w2
  | failTx {w w1 : World} (op : Op) (tape : List (ValId × Coins)) (e : Err) : ReachU w w1 → op.isTx = true →
      (step op { w1 with oracle := tape }).1 = .error e → ReachU w (step op { w1 with oracle := tape }).2

/-- INV-I: index and queue agree in every state of every history (no scope conditions) -/
theorem reach_ix (w w' : World) (hix : IX w) (hr : ReachU w w') : IX w' := by
  induction hr with
  | refl => exact hix
  | env _ hq hi ih => unfold IX; rw [hq, hi]; exact ih
  | ok op tape _ hs ih => exact step_ix op _ _ hs ih
  | failTx op tape e _ htx hf ih =>
    rw [step_tx_fail op _ e htx hf]
    exact ih

end Alliance
