/-
  Rounding lemmas for the fixed-point model (`AllianceModel/Dec.lean`), stated over ℤ on the raw 10^18-scaled values.
  `x` below is a raw product (scale 10^36), `chopRound x` the 18-digit result.
-/
import AllianceModel
namespace Alliance
namespace Dec

theorem chopRoundNonneg_bounds (a : Int) (_h : 0 ≤ a) :
    a - H ≤ chopRoundNonneg a * P ∧ chopRoundNonneg a * P ≤ a + H := by
  unfold chopRoundNonneg
  simp only [P, H]
  split <;> (try split) <;> (try split) <;> omega

theorem chopRoundNonneg_nonneg (a : Int) (h : 0 ≤ a) : 0 ≤ chopRoundNonneg a := by
  unfold chopRoundNonneg
  simp only [P, H]
  split <;> (try split) <;> (try split) <;> omega

/-- banker's rounding is within half a unit of the last place -/
theorem chopRound_bounds (x : Int) : x - H ≤ chopRound x * P ∧ chopRound x * P ≤ x + H := by
  unfold chopRound
  split
  · have h := chopRoundNonneg_bounds (-x) (by omega)
    simp only [P, H] at *
    omega
  · exact chopRoundNonneg_bounds x (by omega)

theorem chopRound_nonneg (x : Int) (h : 0 ≤ x) : 0 ≤ chopRound x := by
  unfold chopRound
  split
  · omega
  · exact chopRoundNonneg_nonneg x h

theorem chopRound_nonpos (x : Int) (h : x ≤ 0) : chopRound x ≤ 0 := by
  unfold chopRound
  split
  · have := chopRoundNonneg_nonneg (-x) (by omega); omega
  · have hx : x = 0 := by omega
    subst hx; decide

/-- `Mul` is the exact product rounded to 18 digits: |mul a b · 10^18 − a·b| ≤ ½·10^18 -/
theorem mul_bounds (a b : Int) : a * b - H ≤ mul a b * P ∧ mul a b * P ≤ a * b + H :=
  chopRound_bounds (a * b)

theorem mul_nonneg (a b : Int) (ha : 0 ≤ a) (hb : 0 ≤ b) : 0 ≤ mul a b :=
  chopRound_nonneg _ (Int.mul_nonneg ha hb)

/-- an exact multiple of 10^18 is not rounded -/
theorem chopRound_mul_P (k : Int) : chopRound (k * P) = k := by
  have h := chopRound_bounds (k * P)
  simp only [P, H] at *
  omega

@[simp] theorem mul_one_right (a : Int) : mul a one = a := by
  unfold mul one; exact chopRound_mul_P a

@[simp] theorem mul_one_left (a : Int) : mul one a = a := by
  unfold mul one; rw [Int.mul_comm]; exact chopRound_mul_P a

@[simp] theorem mul_zero_right (a : Int) : mul a 0 = 0 := by
  unfold mul; simp; decide

/-- `TruncateInt` of a non-negative value is its floor -/
theorem truncateInt_bounds (a : Int) (h : 0 ≤ a) : truncateInt a * P ≤ a ∧ a < (truncateInt a + 1) * P := by
  unfold truncateInt
  rw [Int.tdiv_eq_ediv_of_nonneg h]
  simp only [P]
  omega

theorem truncateInt_nonneg (a : Int) (h : 0 ≤ a) : 0 ≤ truncateInt a := by
  unfold truncateInt
  rw [Int.tdiv_eq_ediv_of_nonneg h]
  simp only [P]
  omega

/-- `TruncateInt (MulInt f n)` for f ∈ [0,1], n ≥ 0 is ⌊f·n⌋ ∈ [0,n] -/
theorem truncate_mulInt_le (f n : Int) (hf0 : 0 ≤ f) (hf1 : f ≤ one) (hn : 0 ≤ n) :
    0 ≤ truncateInt (mulInt f n) ∧ truncateInt (mulInt f n) ≤ n := by
  have hprod : 0 ≤ f * n := Int.mul_nonneg hf0 hn
  have hb := truncateInt_bounds (mulInt f n) hprod
  have hle : f * n ≤ one * n := Int.mul_le_mul_of_nonneg_right hf1 hn
  refine ⟨truncateInt_nonneg _ hprod, ?_⟩
  unfold mulInt at *
  unfold one at hle
  generalize truncateInt (f * n) = t at *
  generalize f * n = q at *
  simp only [P] at *
  omega

end Dec
end Alliance
