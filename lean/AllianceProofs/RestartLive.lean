/-
  RestartLive.lean — C18: export → wipe → import cannot fail in a state whose parameters are valid (ParamsOK, INV-P): the
  only fallible step of `InitGenesis` is the parameter validation, everything else is a store write.  So the hypothesis
  "the restart succeeded" of the restart theorem is met by every state of every history.
-/
import AllianceProofs.RestartAll
import AllianceProofs.ParamsOK
set_option linter.unusedVariables false
namespace Alliance

/-- `m` always succeeds -/
def Ok (m : M Unit) : Prop := ∀ w, ∃ w', m w = (.ok (), w')

theorem Ok.bind {m : M Unit} {f : Unit → M Unit} (hm : Ok m) (hf : ∀ a, Ok (f a)) : Ok (m >>= f) := by
  intro w
  simp only [bind_apply]
  obtain ⟨w1, h1⟩ := hm w
  rw [h1]
  exact hf () w1

theorem Ok.modifyW (g : World → World) : Ok (modifyW g) := fun w => ⟨g w, rfl⟩
theorem Ok.pure : Ok (Pure.pure ()) := fun w => ⟨w, rfl⟩
theorem Ok.of_state {m : M Unit} (g : World → World) (h : ∀ w, m w = (.ok (), g w)) : Ok m := fun w => ⟨g w, h w⟩

theorem Ok.forEachM {γ : Type} (f : γ → M Unit) (xs : List γ) (h : ∀ x, Ok (f x)) : Ok (forEachM f xs) := by
  induction xs with
  | nil => unfold Alliance.forEachM; exact Ok.pure
  | cons x t ih => unfold Alliance.forEachM; exact Ok.bind (h x) (fun _ => ih)

theorem initGenesis_ok (g : Genesis) (hp1 : 0 ≤ g.params.rewardDelay) (hp2 : 0 ≤ g.params.takeRateInterval) :
    Ok (initGenesis g) := by
  rw [initGenesis_eq]
  have hpar : Ok (initParams g) := by
    intro w
    unfold initParams setParams guardE
    simp only [bind_apply]
    have c1 : ¬ g.params.rewardDelay < 0 := Int.not_lt.mpr hp1
    have c2 : ¬ g.params.takeRateInterval < 0 := Int.not_lt.mpr hp2
    simp only [c1, c2, if_false, pure_apply, modifyW_apply]
    exact ⟨_, rfl⟩
  apply Ok.bind hpar; intro _
  apply Ok.bind (Ok.of_state _ (forEachM_setAsset _)); intro _
  apply Ok.bind (Ok.of_state _ (forEachM_setValInfo _)); intro _
  apply Ok.bind (Ok.of_state _ (forEachM_setDelegation _)); intro _
  unfold initAfterDelegations
  apply Ok.bind
  · apply Ok.forEachM; intro p
    apply Ok.bind (Ok.of_state _ (addRedelegation_state _ _ _ _ _ _)); intro _
    exact Ok.of_state _ (queueRedelegation_state _ _)
  · intro _
    apply Ok.bind
    · apply Ok.forEachM; intro p
      rcases p with ⟨t, _ | ⟨e0, es⟩⟩
      · exact Ok.pure
      · show Ok (_ >>= _)
        refine Ok.bind (Ok.modifyW _) ?_
        intro _
        apply Ok.forEachM; intro e
        exact Ok.modifyW _
    · intro _
      apply Ok.forEachM; intro p
      exact Ok.modifyW _

/-- C18: a restart cannot fail where the parameters are valid -/
theorem reimport_never_fails (w : World) (hp : ParamsOK w) : ∃ w', reimport w = (.ok (), w') := by
  unfold reimport
  simp only [bind_apply, getW_apply, setW_apply]
  refine initGenesis_ok (exportGenesis w) ?_ ?_ _
  · show 0 ≤ w.params.rewardDelay
    exact hp.2
  · show 0 ≤ w.params.takeRateInterval
    exact Int.le_of_lt hp.1

/-- … so the restart theorem needs no "the restart succeeded" -/
theorem restart_always_restores (w : World) (hok : RestartOK w) (hp : ParamsOK w) :
    ∃ w', reimport w = (.ok (), w') ∧ SameModuleState w w' ∧ RX w' ∧ w'.flag = false := by
  obtain ⟨w', h⟩ := reimport_never_fails w hp
  exact ⟨w', h, restart_restores w w' hok h⟩

end Alliance
