/-
  C01 — Custody: the module's custody account holds the staked total plus all pending unbonding balances.
  gap w d := custody − staked − pending (AllianceProofs/Custody.lean). Proved so far, for every state with a sorted
  (= uniquely keyed) unbonding queue — an invariant of every history (`queue_sorted_inv`):
  the three places where coins of an alliance denom leave custody or a pending balance changes keep the gap EXACTLY.

  Assembled (AllianceProofs/GapMono … CustodyHistory): the accounting judgment `GapT` gives every keeper function an
  exact delta (+amount on a deposit, −amount on queueing, 0 for claims: what distribution pays arrives in custody and
  is forwarded whole), `step_keeps_gap` covers every operation of the state machine, `take_rate_keeps_gap` the
  take-rate deduction (fee collector receives per denom exactly what comes off the staked totals), and
  `custody_never_short` is the statement over ALL histories (`Reach`): operations with arbitrary non-negative
  distribution responses, failed transactions, and arbitrary environment steps that do not take coins out of custody.
  Scope (`OpScope`, stated, not proved away): the delegator of a deposit/withdrawal is not the module account itself;
  an asset is deleted only while its recorded total is ≥ 0; a FAILING slash hook or end-of-block ends the history
  (on chain it halts the block) — partial writes of those are outside the theorem.
-/
import AllianceProofs
namespace Alliance
namespace C01
open Dec

/-- the unbonding queue has unique, ordered keys in every state of every history -/
theorem queue_sorted_inv (ops : List Op) (w : World) (h : QSorted w) : QSorted (run w ops) := run_qsorted ops w h

/-- undelegation: the pending total of the denom grows by exactly the undelegated amount, custody is untouched
    (the same amount is subtracted from the staked total by `Undelegate`, so the gap is kept) -/
theorem undelegation_queues_exact_amount (del : Acct) (v : ValId) (d' : Denom) (amt : Int) (w : World) (hs : QSorted w)
    (d : Denom) :
    pending (queueUndelegation del v d' amt w).2 d = pending w d + (if d' = d then amt else 0) ∧
    custody (queueUndelegation del v d' amt w).2 d = custody w d :=
  ⟨(queueUndelegation_gap del v d' amt w hs d).1, (queueUndelegation_gap del v d' amt w hs d).2.1⟩

/-- end-of-block payout: when `CompleteUnbondings` succeeds, what left custody is exactly what left the queue -/
theorem payout_keeps_gap (w w' : World) (h : completeUnbondings w = (.ok (), w')) (hs : QSorted w) (hu : UsersOnly w)
    (d : Denom) (hd : d ≠ w.staking.bondDenom) : gap w' d = gap w d :=
  (completeUnbondings_gap w w' h hs hu d hd).1

/-- slash of pending unbondings: exactly the amount removed from the entries is forwarded to the fee collector -/
theorem unbonding_slash_keeps_gap (v : ValId) (f : Dec) (w w' : World) (h : slashUndelegations v f w = (.ok (), w'))
    (hs : QSorted w) (d : Denom) : gap w' d = gap w d :=
  (slashUndelegations_gap v f w w' h hs).1 d

/-- every operation that succeeds from a state in scope leaves the custody gap of every alliance denom at least
    where it was -/
theorem step_keeps_gap (d : Denom) (op : Op) (w w' : World) (h : step op w = (.ok (), w')) (hg : Good d w)
    (hop : OpScope d op w) : gap w d ≤ gap w' d ∧ Good d w' := step_gap d op w w' h hg hop

/-- the take-rate deduction, run on an asset list in step with the store, never lowers the gap -/
theorem take_rate_keeps_gap (lastClaim : Time) (assets : List Asset) (d : Denom) (w w' : World) (r : List Asset)
    (h : deductAssetsWithTakeRate lastClaim assets w = (.ok r, w')) (hg : Good d w) (hs : InSync assets w) :
    gap w d ≤ gap w' d :=
  ((deductAssetsWithTakeRate_gapH lastClaim assets d).run w w' r h hg hs).1

/-- the end-of-block as a whole (its asset list is read from the store, so it is in step) -/
theorem end_block_keeps_gap (d : Denom) (w w' : World) (h : endBlocker w = (.ok (), w')) (hg : Good d w) :
    gap w d ≤ gap w' d := ((endBlocker_gapM d).run w w' () h hg trivial).1

/-- a deposit: custody and the staked total both grow by exactly the amount -/
theorem delegate_exact (del : Acct) (val : AVal) (d' : Denom) (amt : Int) (d : Denom) (w w' : World)
    (h : delegate del val d' amt w = (.ok (), w')) (hg : Good d w) (hdel : del ≠ accModule) :
    gap w d ≤ gap w' d ∧ staked w' d = (if d' = d then staked w d + amt else staked w d) := by
  obtain ⟨g1, _, g3⟩ := (delegate_gapT del val d' amt d (staked w d) hdel).run w w' () h hg rfl
  exact ⟨by omega, g3⟩

/-- a withdrawal: the staked total falls by exactly the amount, which is queued; custody is untouched -/
theorem undelegate_exact (del : Acct) (val : AVal) (d' : Denom) (amt : Int) (d : Denom) (w w' : World)
    (h : undelegate del val d' amt w = (.ok (), w')) (hg : Good d w) (hdel : del ≠ accModule) :
    gap w d ≤ gap w' d ∧ staked w' d = (if d' = d then staked w d - amt else staked w d) := by
  obtain ⟨g1, _, g3⟩ := (undelegate_gapT del val d' amt d (staked w d) hdel).run w w' () h hg rfl
  exact ⟨by omega, g3⟩

/-- C01 over all histories: along every history from a state in scope the custody gap never falls -/
theorem gap_never_falls (d : Denom) (w w' : World) (hc : Core d w) (hr : Reach d w w') :
    gap w d ≤ gap w' d ∧ Core d w' := reach_gap d w w' hc hr

/-- C01 as stated: custody ≥ staked total + pending unbondings in every reachable state, when it held at the start -/
theorem custody_never_short (d : Denom) (w w' : World) (hc : Core d w) (h0 : 0 ≤ gap w d) (hr : Reach d w w') :
    staked w' d + pending w' d ≤ custody w' d := custody_covers d w w' hc h0 hr

/-! non-vacuity: a concrete state in scope, and a concrete history with a deposit that succeeds -/
def exAsset : Asset := { denom := 0, weight := one, wmin := 0, wmax := one, takeRate := 0, totalTokens := 0
                         totalValShares := 0, startTime := 0, changeRate := one, changeIntv := 0, lastChange := 0, isInit := true }
def exStaking : Staking := { bondDenom := 4, unbondingTime := 100
                             vals := [(0, { status := 3, jailed := false, tokens := 1000, delShares := 1000 * one, modShares := none })] }
def exWorld : World := { (default : World) with
  assets := [(0, exAsset)]
  bank := [((10, 0), 100)]
  staking := exStaking }
def isOk : Except Err Unit → Bool | .ok _ => true | _ => false

theorem exWorld_core : Core 0 exWorld := by
  refine ⟨List.Pairwise.nil, ?_, by decide, ?_, List.pairwise_singleton _ _⟩
  · intro p hp; cases hp
  · intro p hp
    simp only [exWorld, List.mem_cons, List.not_mem_nil, or_false] at hp
    subst hp; rfl

theorem exWorld_tape : { exWorld with oracle := [] } = exWorld := rfl

example : Reach 0 exWorld (step (.delegate 10 0 0 5) { exWorld with oracle := [] }).2 ∧ gap exWorld 0 = 0 := by
  refine ⟨Reach.ok (.delegate 10 0 0 5) [] (Reach.refl _) (fun p hp => by cases hp)
    (by show (10 : Nat) ≠ accModule; decide) ?_, by decide⟩
  rw [exWorld_tape]
  have h : isOk (step (.delegate 10 0 0 5) exWorld).1 = true := by decide
  rcases hs : step (.delegate 10 0 0 5) exWorld with ⟨r, w2⟩
  rw [hs] at h
  cases r with
  | ok u => rfl
  | error e => cases h

/-- non-vacuity: a state with one pending entry satisfies the hypotheses -/
example : QSorted { (default : World) with undelQueue := [((100, 10), [{ del := 10, val := 0, denom := 0, amount := 5 }])] } ∧
    UsersOnly { (default : World) with undelQueue := [((100, 10), [{ del := 10, val := 0, denom := 0, amount := 5 }])] } := by
  constructor
  · exact List.pairwise_singleton _ _
  · intro p hp e he
    simp only [List.mem_cons, List.mem_nil_iff, or_false] at hp
    subst hp
    simp only [List.mem_cons, List.mem_nil_iff, or_false] at he
    subst he
    decide


/-- a chain restart (export → wipe → import) leaves the custody gap of every denom exactly where it was, in every state that
    meets the restart theorem's hypotheses — which every state of every history from the empty store does (`reach_restart_ok`) -/
theorem restart_keeps_the_custody_gap (w w' : World) (hok : RestartOK w) (h : reimport w = (.ok (), w')) (d : Denom) :
    gap w' d = gap w d := restart_keeps_gap w w' hok h d

end C01
end Alliance
