/-
  C01 — Custody: the module's custody account holds the staked total plus all pending unbonding balances.
  gap w d := custody − staked − pending (AllianceProofs/Custody.lean). Proved so far, for every state with a sorted
  (= uniquely keyed) unbonding queue — an invariant of every history (`queue_sorted_inv`):
  the three places where coins of an alliance denom leave custody or a pending balance changes keep the gap EXACTLY.
-/
import AllianceProofs
namespace Alliance
namespace C01
open Dec

/-- the unbonding queue has unique, ordered keys in every state of every history -/
theorem queue_sorted_inv (ops : List Op) (w : World) (h : QSorted w) : QSorted (run w ops) := run_qsorted ops w h

/-- undelegation: the pending total of the denom grows by exactly the undelegated amount, custody is untouched
    (the same amount is subtracted from the staked total by `Undelegate`, so the gap is kept) -/
theorem undelegation_queues_exact_amount (del : Acct) (v : ValId) (d' : Denom) (amt : Int) (w : World) (hs : QSorted w)
    (d : Denom) :
    pending (queueUndelegation del v d' amt w).2 d = pending w d + (if d' = d then amt else 0) ∧
    custody (queueUndelegation del v d' amt w).2 d = custody w d :=
  ⟨(queueUndelegation_gap del v d' amt w hs d).1, (queueUndelegation_gap del v d' amt w hs d).2.1⟩

/-- end-of-block payout: when `CompleteUnbondings` succeeds, what left custody is exactly what left the queue -/
theorem payout_keeps_gap (w w' : World) (h : completeUnbondings w = (.ok (), w')) (hs : QSorted w) (hu : UsersOnly w)
    (d : Denom) (hd : d ≠ w.staking.bondDenom) : gap w' d = gap w d :=
  (completeUnbondings_gap w w' h hs hu d hd).1

/-- slash of pending unbondings: exactly the amount removed from the entries is forwarded to the fee collector -/
theorem unbonding_slash_keeps_gap (v : ValId) (f : Dec) (w w' : World) (h : slashUndelegations v f w = (.ok (), w'))
    (hs : QSorted w) (d : Denom) : gap w' d = gap w d :=
  (slashUndelegations_gap v f w w' h hs).1 d

/-- non-vacuity: a state with one pending entry satisfies the hypotheses -/
example : QSorted { (default : World) with undelQueue := [((100, 10), [{ del := 10, val := 0, denom := 0, amount := 5 }])] } ∧
    UsersOnly { (default : World) with undelQueue := [((100, 10), [{ del := 10, val := 0, denom := 0, amount := 5 }])] } := by
  constructor
  · exact List.pairwise_singleton _ _
  · intro p hp e he
    simp only [List.mem_cons, List.mem_nil_iff, or_false] at hp
    subst hp
    simp only [List.mem_cons, List.mem_nil_iff, or_false] at he
    subst he
    decide

end C01
end Alliance
