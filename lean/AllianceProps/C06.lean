/-
  C06 — Slashing bonded stake is proportional, targeted and value-conserving.
  What is proved, for every state / share amount / fraction:
  * `slash_share_proportional`: the share amount left after a slash is s·(1−f) up to half a unit in the 18th digit,
    never negative, never more than before;
  * `slash_step_same_amount`: one iteration of `SlashValidator`'s loop takes THE SAME amount `mul s f` off the
    validator's shares of the asset and off the asset's share total, and does not touch the asset's staked total:
    the difference (Σ validators' shares − asset total) is kept and the value removed from the slashed validator's
    positions is thereby redistributed over every holder of the asset (the factor g of the property), not destroyed;
  * `slash_keeps_staked_and_custody`: a whole successful `SlashValidator` (bonded shares, pending redelegations,
    pending unbondings) leaves every asset's staked total unchanged and never lowers the custody gap.
  * the DIRECTION of every value change, through all the roundings of the 18-digit arithmetic (AllianceProofs/ValueMono:
    banker's rounding, `Quo`, `Mul`, `TruncateInt` are monotone): `other_positions_never_lose_value` (what
    `GetDelegationTokens` reports for any position on a validator whose records are untouched does not fall when the
    asset's share total shrinks), `other_validator_value_never_falls`, `slashed_validator_value_never_rises` (the same x
    off the validator's shares and off the share total never raises the validator's token value).
  Not proved: the exact-rational statement about each position's redeemable value ((1−f)·g with an explicit
  tolerance) — decided by the monitors `slash_bonded` / `slash_collateral` on concrete histories; the f = 1 corner where
  nothing of the asset is left bonded (`unhealthy_orphaned_total`, scope).
-/
import AllianceProofs
import AllianceProofs.ArithTie
namespace Alliance
namespace C06
open Dec

/-- the amount `SlashValidator` removes from a share quantity -/
def cut (s f : Dec) : Dec := mul s f

/-- the remaining shares are s·(1−f) within half a unit of the last digit, between 0 and s -/
theorem slash_share_proportional (s f : Dec) (hs : 0 ≤ s) (hf0 : 0 < f) (hf1 : f ≤ one) :
    0 ≤ s - cut s f ∧ s - cut s f ≤ s ∧
    s * (one - f) - 500000000000000000 ≤ (s - cut s f) * one ∧ (s - cut s f) * one ≤ s * (one - f) + 500000000000000000 := by
  unfold cut
  have hb := mul_bounds s f
  have hn := mul_nonneg s f hs (by unfold Dec at *; omega)
  unfold Dec at *
  simp only [P, H, one] at *
  have h1 : s * f ≤ s * 1000000000000000000 := Int.mul_le_mul_of_nonneg_left hf1 hs
  have e1 : s * (1000000000000000000 - f) = s * 1000000000000000000 - s * f := by rw [Int.mul_sub]
  rw [e1]
  refine ⟨?_, ?_, ?_, ?_⟩ <;> omega

/-- a full slash (f = 1) removes everything: nothing rounds back in -/
theorem slash_full_removes_all (s : Dec) : s - cut s one = 0 := by
  unfold cut; rw [mul_one_right]; unfold Dec at *; omega

/-- one iteration of `SlashValidator`'s loop over the validator's asset shares: the same `mul s f` comes off the
    validator's shares and off the asset's share total; the staked total, the denom and every other field stay -/
theorem slash_step_same_amount (f : Dec) (acc : DecCoins) (share : Denom × Dec) (w : World) (a : Asset)
    (ha : getAsset w share.1 = some a) (hpos : ¬ share.2 - mul share.2 f < 0) :
    (do
      let toSlash := mul share.2 f
      let after ← liftE (mkDecCoins share.1 (share.2 - toSlash))
      let w ← getW
      match getAsset w share.1 with
      | none => throwE "unknown_asset"
      | some a =>
        setAsset { a with totalValShares := a.totalValShares - toSlash }
        pure (DecCoins.add acc after) : M DecCoins) w
    = (.ok (DecCoins.add acc (DecCoins.single share.1 (share.2 - cut share.2 f))),
       { w with assets := AL.set w.assets a.denom { a with totalValShares := a.totalValShares - cut share.2 f } }) := by
  unfold cut
  simp only [bind_apply, mkDecCoins, hpos, if_false, liftE_ok, getW_apply, ha, setAsset, modifyW_apply, pure_apply]

/-- a successful slash leaves every alliance asset's staked total where it was and never lowers the custody gap:
    the slashed value is redistributed through the share totals, not taken out of custody or the staked total -/
theorem slash_keeps_staked_and_custody (v : ValId) (f : Dec) (d : Denom) (w w' : World)
    (h : slashValidator v f w = (.ok (), w')) (hg : Good d w) :
    staked w' d = staked w d ∧ gap w d ≤ gap w' d := by
  obtain ⟨g1, _, g3⟩ := (slashValidator_gapT v f d (staked w d)).run w w' () h hg rfl
  exact ⟨g3, by omega⟩

/-- the fraction is validated before anything is written -/
theorem slash_rejects_bad_fraction (v : ValId) (f : Dec) (w : World) (hf : f ≤ 0 ∨ f > one) :
    slashValidator v f w = (.error (.err "invalid_fraction"), w) := by
  unfold slashValidator
  simp only [bind_apply, guardE_apply, hf, if_true]

/-! ## the direction of the value changes, through every rounding -/

/-- "no other position loses value": for a validator whose own records are untouched, shrinking the asset's share total —
    what a slash of ANOTHER validator does, the staked total staying (`slash_keeps_staked_and_custody`) — never lowers
    what `GetDelegationTokens` reports for any of its positions (and the report does not start to fail) -/
theorem other_positions_never_lose_value (shares : Dec) (info : ValInfo) (a : Asset) (TVS' : Dec) (x : Int)
    (hs : 0 ≤ shares) (htds : 0 ≤ totalDelSharesWithDenom info a.denom) (hvs : 0 ≤ valSharesWithDenom info a.denom)
    (hT : 0 ≤ a.totalTokens) (hpos : 0 < TVS') (hle : TVS' ≤ a.totalValShares)
    (h : delegationTokensWithShares shares info a = .ok x) :
    ∃ x', delegationTokensWithShares shares info { a with totalValShares := TVS' } = .ok x' ∧ x ≤ x' :=
  other_position_value_not_less shares info a TVS' x hs htds hvs hT hpos hle h

/-- the other validators' token value of the asset does not fall -/
theorem other_validator_value_never_falls (T : Int) (hT : 0 ≤ T) (vs TVS TVS' : Dec) (hvs : 0 ≤ vs) (hTVS' : 0 < TVS')
    (hle : TVS' ≤ TVS) :
    convertNewShareToDecToken (ofInt T) TVS vs ≤ convertNewShareToDecToken (ofInt T) TVS' vs :=
  valTokens_other_not_less T hT vs TVS TVS' hvs hTVS' hle

/-- the slashed validator's token value of the asset does not rise: the same amount x leaves its shares and the asset's
    share total (`slash_step_same_amount`), and vs ≤ TVS -/
theorem slashed_validator_value_never_rises (T : Int) (hT : 0 ≤ T) (vs TVS x : Dec) (hx : 0 ≤ x) (hxv : x ≤ vs)
    (hv : vs ≤ TVS) (hpos : 0 < TVS - x) :
    convertNewShareToDecToken (ofInt T) (TVS - x) (vs - x) ≤ convertNewShareToDecToken (ofInt T) TVS vs :=
  valTokens_slashed_not_more T hT vs TVS x hx hxv hv hpos

/-- non-vacuity: validator holds 400 of 1000 shares of an asset with 1000 tokens staked; another validator is slashed by
    100 shares: its value goes from 400 to 444.44… tokens -/
example : convertNewShareToDecToken (ofInt 1000) (1000 * one) (400 * one) = 400 * one ∧
    convertNewShareToDecToken (ofInt 1000) (900 * one) (400 * one) = 444444444444444444000 := by decide

/-- non-vacuity: 5 % of 1 000 000 shares -/
example : (1000000 * one : Dec) - cut (1000000 * one) (50000000000000000) = 950000 * one := by decide

/-- the value function the statements above are about is what the source says now (regenerated on every run) -/
theorem position_value_is_the_source (s : Dec) (v : ValInfo) (a : Asset) :
    Generated.GetDelegationTokensWithShares s v a = delegationTokensWithShares s v a :=
  ArithTie.getDelegationTokensWithShares_is_source s v a

end C06
end Alliance
