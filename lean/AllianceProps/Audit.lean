import AllianceProofs
-- `#print axioms` for every property theorem; parsed by bin/check on every run.
