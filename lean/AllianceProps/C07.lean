/-
  C07 — Slashing of pending unbondings is exact, single and scoped (after the `fix:` for D1).
  Theorems about `slashEntryCut` / `slashBucket` (the per-index-key step of `slashUndelegations`) and about the
  maturity skip; and the WHOLE loop (`every_pending_entry_cut_exactly_once`, proof in AllianceProofs/SlashAll over the
  index/queue invariant INV-I, which `reach_ix` establishes for every history): every unmatured entry of the slashed
  validator is cut by ⌊f·amount⌋ exactly once, whatever the number of index keys that lead to its bucket, and nothing
  else in the queue or the index changes. The redelegation part (`slashRedelegations`) is covered by the correspondence and the monitors;
  merged-source records (D2) remain a known finding.
-/
import AllianceProofs
namespace Alliance
namespace C07
open Dec

/-- exact: an entry of the slashed validator and of the index key's denom loses exactly ⌊f × balance⌋ -/
theorem entry_cut_exact (v : ValId) (d : Denom) (f : Dec) (e : Undel) (hv : e.val = v) (hd : e.denom = d) :
    slashEntryCut v d f e = truncateInt (mulInt f e.amount) := by
  unfold slashEntryCut; simp [hv, hd]

/-- scoped: entries that originated from another validator are never touched … -/
theorem other_validator_untouched (v : ValId) (d : Denom) (f : Dec) (e : Undel) (hv : e.val ≠ v) :
    slashEntryCut v d f e = 0 := by
  unfold slashEntryCut; simp [hv]

/-- … nor entries in another denomination -/
theorem other_denom_untouched (v : ValId) (d : Denom) (f : Dec) (e : Undel) (hd : e.denom ≠ d) :
    slashEntryCut v d f e = 0 := by
  unfold slashEntryCut; simp [hd]

/-- the cut is between zero and the balance, for every fraction in (0,1] and every non-negative balance -/
theorem cut_bounds (v : ValId) (d : Denom) (f : Dec) (e : Undel) (hf0 : 0 ≤ f) (hf1 : f ≤ one) (ha : 0 ≤ e.amount) :
    0 ≤ slashEntryCut v d f e ∧ slashEntryCut v d f e ≤ e.amount := by
  unfold slashEntryCut
  split
  · exact truncate_mulInt_le f e.amount hf0 hf1 ha
  · exact ⟨Int.le_refl 0, ha⟩

/-- the bucket after the step: same entries in the same order, each reduced by its own cut, nothing else changed -/
theorem bucket_step (v : ValId) (d : Denom) (f : Dec) (bucket : List Undel) :
    (slashBucket v d f bucket).length = bucket.length ∧
    ∀ i (hi : i < bucket.length),
      ((slashBucket v d f bucket)[i]'(by simpa [slashBucket] using hi)) =
        { bucket[i] with amount := bucket[i].amount - slashEntryCut v d f bucket[i] } := by
  unfold slashBucket
  refine ⟨by simp, ?_⟩
  intro i hi
  simp

/-- single: one index key stands for one (validator, denom); an entry matches exactly the key of its own validator
    and denom, so across all index keys of the slashed validator it is cut exactly once -/
theorem cut_once (v : ValId) (f : Dec) (e : Undel) (ds : List Denom) (hnd : ds.Nodup) (hv : e.val = v)
    (hmem : e.denom ∈ ds) :
    (ds.map fun d => slashEntryCut v d f e).sum = truncateInt (mulInt f e.amount) := by
  induction ds with
  | nil => cases hmem
  | cons d t ih =>
    rw [List.map_cons, List.sum_cons]
    rw [List.nodup_cons] at hnd
    rcases List.mem_cons.mp hmem with h | h
    · subst h
      have hz : (t.map fun d' => slashEntryCut v d' f e).sum = 0 := by
        have : ∀ d' ∈ t, slashEntryCut v d' f e = 0 := by
          intro d' hd'
          apply other_denom_untouched
          intro heq; rw [heq] at hnd; exact hnd.1 hd'
        clear ih hmem
        induction t with
        | nil => rfl
        | cons x xs ih2 =>
          rw [List.map_cons, List.sum_cons, this x List.mem_cons_self, ih2]
          · rfl
          · exact ⟨fun hx => hnd.1 (List.mem_cons_of_mem _ hx), (List.nodup_cons.mp hnd.2).2⟩
          · intro d' hd'; exact this d' (List.mem_cons_of_mem _ hd')
      rw [entry_cut_exact v e.denom f e hv rfl, hz, Int.add_zero]
    · have hne : e.denom ≠ d := by intro heq; rw [← heq] at hnd; exact hnd.1 h
      rw [other_denom_untouched v d f e hne, Int.zero_add]
      exact ih hnd.2 h

/-- matured entries are never touched: when every index key of the validator has completion < block time the whole
    unbonding part of the slash is a no-op (state and result) -/
theorem matured_untouched (v : ValId) (f : Dec) (w : World)
    (h : ∀ k ∈ w.undelIndex, k.1 = v → k.2.1 < w.time) : slashUndelegations v f w = (.ok (), w) := by
  unfold slashUndelegations
  simp only [bind_apply, getW_apply]
  have key : ∀ (ks : List UndelIdxKey), (∀ k ∈ ks, k.2.1 < w.time) →
      forEachM (fun (k : UndelIdxKey) => do
        let w ← getW
        let (_, completion, d, del) := k
        if completion < w.time then pure () else do
        let bucket := (AL.get w.undelQueue (completion, del)).getD []
        forEachM (fun (e : Undel) =>
          if e.val == v && e.denom == d then sendCoins accModule accFee (Coins.single e.denom (slashEntryCut v d f e))
          else pure ()) bucket
        modifyW fun w => { w with undelQueue := AL.set w.undelQueue (completion, del) (slashBucket v d f bucket) }) ks w
      = (.ok (), w) := by
    intro ks
    induction ks with
    | nil => intro _; rfl
    | cons k t ih =>
      intro hk
      unfold forEachM
      simp only [bind_apply, getW_apply]
      obtain ⟨kv, kt, kd, kdel⟩ := k
      have hlt : kt < w.time := hk (kv, kt, kd, kdel) List.mem_cons_self
      simp only [hlt, if_true, pure_apply]
      exact ih (fun k' hk' => hk k' (List.mem_cons_of_mem _ hk'))
  apply key
  intro k hk
  rw [List.mem_filter] at hk
  exact h k hk.1 (by simpa using hk.2)

/-- the whole of `slashUndelegations`, in any state where index and queue agree: the queue afterwards is the queue before
    with each entry `e` of a bucket completing at `t` replaced by `slashedEntry v f now t e` — cut by ⌊f·amount⌋ iff it
    came from validator `v` and `t` has not passed — and the index is unchanged -/
theorem every_pending_entry_cut_exactly_once (v : ValId) (f : Dec) (w w' : World) (hix : IX w)
    (h : slashUndelegations v f w = (.ok (), w')) :
    w'.undelQueue = w.undelQueue.map (fun p => (p.1, p.2.map (slashedEntry v f w.time p.1.1))) ∧
    w'.undelIndex = w.undelIndex := slashUndelegations_exact v f w w' hix h

/-- … and that agreement holds in every state of every history from a state that has it (the empty stores do) -/
theorem every_pending_entry_cut_exactly_once_in_every_history (v : ValId) (f : Dec) (w0 w w' : World) (h0 : IX w0)
    (hr : ReachU w0 w) (h : slashUndelegations v f w = (.ok (), w')) :
    w'.undelQueue = w.undelQueue.map (fun p => (p.1, p.2.map (slashedEntry v f w.time p.1.1))) ∧
    w'.undelIndex = w.undelIndex := slashUndelegations_exact v f w w' (reach_ix w0 w h0 hr) h

/-- what `slashedEntry` says, spelled out: the three cases of the property -/
theorem slashedEntry_cases (v : ValId) (f : Dec) (now t : Time) (e : Undel) :
    (e.val = v → ¬ t < now → (slashedEntry v f now t e).amount = e.amount - truncateInt (mulInt f e.amount)) ∧
    (e.val ≠ v → slashedEntry v f now t e = e) ∧ (t < now → slashedEntry v f now t e = e) := by
  unfold slashedEntry cutE
  refine ⟨fun h1 h2 => by simp [h1, h2], fun h1 => by simp [h1], fun h2 => by simp [h2]⟩

/-- non-vacuity of the whole-loop theorem: time 5; one matured bucket (completion 3) and one pending bucket (completion 9)
    reached through three index keys — two of validator 0 (denoms 0 and 1), one of validator 1; a 10% slash of validator
    0 succeeds, cuts the two pending entries of validator 0 once each, and leaves the matured and the foreign entry -/
def exW : World := { (default : World) with
  time := 5
  undelQueue := [((3, 10), [{ del := 10, val := 0, denom := 0, amount := 500 }]),
                 ((9, 10), [{ del := 10, val := 0, denom := 0, amount := 1000 }, { del := 10, val := 0, denom := 1, amount := 2000 },
                            { del := 10, val := 1, denom := 0, amount := 3000 }])]
  undelIndex := [(0, 3, 0, 10), (0, 9, 0, 10), (0, 9, 1, 10), (1, 9, 0, 10)]
  bank := [((0, 0), 10000), ((0, 1), 10000)] }

example : (match (slashUndelegations 0 100000000000000000 exW).1 with | .ok _ => true | _ => false) = true ∧
    (slashUndelegations 0 100000000000000000 exW).2.undelQueue =
    [((3, 10), [{ del := 10, val := 0, denom := 0, amount := 500 }]),
     ((9, 10), [{ del := 10, val := 0, denom := 0, amount := 900 }, { del := 10, val := 0, denom := 1, amount := 1800 },
                { del := 10, val := 1, denom := 0, amount := 3000 }])] ∧
    (slashUndelegations 0 100000000000000000 exW).2.undelQueue =
      exW.undelQueue.map (fun p => (p.1, p.2.map (slashedEntry 0 100000000000000000 exW.time p.1.1))) := by decide

/-- non-vacuity: a 10% slash of (validator 0, denom 0) on a mixed bucket cuts only the matching entry -/
example : slashBucket 0 0 100000000000000000
    [{ del := 10, val := 0, denom := 0, amount := 1000 }, { del := 10, val := 0, denom := 1, amount := 1000 },
     { del := 10, val := 1, denom := 0, amount := 1000 }]
  = [{ del := 10, val := 0, denom := 0, amount := 900 }, { del := 10, val := 0, denom := 1, amount := 1000 },
     { del := 10, val := 1, denom := 0, amount := 1000 }] := by decide

/-- the whole callback: in a state where index and queue agree, a successful `BeforeValidatorSlashed(v, f)` — bonded
    shares, pending redelegations, pending unbondings, rebalance flag — leaves the unbonding queue with every unmatured
    entry of `v` cut by ⌊f·amount⌋ exactly once and everything else, the index included, untouched -/
theorem slash_callback_cuts_every_pending_entry_once (v : ValId) (f : Dec) (w w' : World) (hix : IX w)
    (h : step (.slash v f) w = (.ok (), w')) :
    w'.undelQueue = w.undelQueue.map (fun p => (p.1, p.2.map (slashedEntry v f w.time p.1.1))) ∧
    w'.undelIndex = w.undelIndex := beforeValidatorSlashed_queue_exact v f w w' hix h

/-- scope on positions: the whole callback changes the SHARES of no position other than the destinations of the
    still-pending redelegations out of `v` (`redelTargets`): positions reached from other sources, destinations of
    matured entries and every unrelated position keep their shares exactly (proof: AllianceProofs/RedelSlashScope;
    `KD`: records stored under their own key) -/
theorem slash_callback_touches_only_pending_redelegation_destinations (v : ValId) (f : Dec) (w w' : World) (hk : KD w)
    (h : step (.slash v f) w = (.ok (), w')) :
    ∀ k, k ∉ redelTargets w v → delShares w' k = delShares w k := beforeValidatorSlashed_scoped v f w w' hk h


/-- … in every state of every history, with no hypothesis on the state -/
theorem slash_callback_scope_everywhere (w0 w w' : World) (hr : ReachG (clearModuleStore w0) w) (v : ValId) (f : Dec)
    (h : step (.slash v f) w = (.ok (), w')) : ∀ k, k ∉ redelTargets w v → delShares w' k = delShares w k :=
  slash_scope_in_every_history w0 w w' hr v f h

end C07
end Alliance
