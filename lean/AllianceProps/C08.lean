/-
  C08 — Slash callback is total: never fails, always completes and reschedules.
  Proved:
  * `callback_reschedules`: a callback that returns without error has queued the end-of-block rebalance;
  * `cap_never_reports_insufficient_shares`: the per-redelegation share computation (after the repair `fix:` 87751cb)
    cannot fail with "insufficient shares" — a destination position that shrank is slashed for what it still holds;
  * `cap_is_bounded`: in that case exactly the position's remaining shares are taken;
  * `unbonding_part_keeps_custody`: the unbonding part, when it runs to the end, forwards exactly what it removes
    (from C01), so it cannot be the cause of a later shortfall;
  * `bad_fraction_rejected_before_any_write`.
  NOT proved, and false in general (known findings, mirrored by the model): the callback settles the rewards of every
  redelegation destination first and aborts when the reward pool is short (`pool_short`) or panics on a destination
  validator slashed to zero tokens (`zero_token_destination`). Totality therefore holds only outside those states; the
  monitors `hook_error` / `no_rebalance` decide concrete histories.
-/
import AllianceProofs
import Generated.Tables
namespace Alliance
namespace C08
open Dec

theorem callback_reschedules (v : ValId) (f : Dec) (w w' : World)
    (h : beforeValidatorSlashed v f w = (.ok (), w')) : w'.flag = true := by
  unfold beforeValidatorSlashed at h
  simp only [bind_apply] at h
  rcases hs : slashValidator v f w with ⟨r, w1⟩
  rw [hs] at h
  cases r with
  | error e => simp at h
  | ok u =>
    simp only [queueRebalance, modifyW_apply] at h
    injection h with _ h2
    rw [← h2]

theorem cap_never_reports_insufficient_shares (dlShares : Dec) (tokens : Int) (info : ValInfo) (a : Asset) :
    cappedShares dlShares tokens info a ≠ .error (.err "insufficient_shares") := by
  unfold cappedShares
  cases hv : validateDelegatedAmount dlShares tokens info a with
  | ok s => intro h; cases h
  | error e =>
    cases e with
    | panic c => intro h; cases h
    | err c =>
      by_cases hc : c = "insufficient_shares"
      · subst hc; intro h; cases h
      · intro h
        split at h
        · cases h
        · cases h
        · next hne _ => injection h with h; exact hne h

theorem cap_is_bounded (dlShares : Dec) (tokens : Int) (info : ValInfo) (a : Asset)
    (h : validateDelegatedAmount dlShares tokens info a = .error (.err "insufficient_shares")) :
    cappedShares dlShares tokens info a = .ok dlShares := by
  unfold cappedShares; rw [h]; rfl

/-- what `ValidateDelegatedAmount` returns never exceeds the position's shares by the rounding tolerance: it is the
    position's shares or the computed share amount, and in the latter case that amount is not larger -/
theorem validated_shares_at_most_position (dlShares : Dec) (tokens : Int) (info : ValInfo) (a : Asset) (s : Dec)
    (h : validateDelegatedAmount dlShares tokens info a = .ok s) : s ≤ dlShares := by
  unfold validateDelegatedAmount at h
  cases hd : delegationSharesFromTokens info a tokens with
  | error e => rw [hd] at h; simp only [bind, Except.bind] at h; cases h
  | ok s0 =>
    rw [hd] at h
    simp only [bind, Except.bind] at h
    split at h
    · injection h with h; subst h; exact Int.le_refl _
    · split at h
      · cases h
      · split at h
        · injection h with h; subst h; exact Int.le_refl _
        · next hgt =>
          simp only [pure, Except.pure] at h
          injection h with h; subst h
          unfold Dec at *; omega

theorem unbonding_part_keeps_custody (v : ValId) (f : Dec) (w w' : World) (h : slashUndelegations v f w = (.ok (), w'))
    (hs : QSorted w) (d : Denom) : gap w' d = gap w d := (slashUndelegations_gap v f w w' h hs).1 d

theorem bad_fraction_rejected_before_any_write (v : ValId) (f : Dec) (w : World) (hf : f ≤ 0 ∨ f > one) :
    beforeValidatorSlashed v f w = (.error (.err "invalid_fraction"), w) := by
  unfold beforeValidatorSlashed slashValidator
  simp only [bind_apply, guardE_apply, hf, if_true]

/-! ## the complete list of failure modes -/

/-- for EVERY state and argument: when the callback fails, its error is one of these eleven — a bad fraction, a missing
    redelegation record, or a failure mode of the keeper functions it is built from (no validator, unknown asset, no
    delegation, bank shortfall, distribution response missing/mismatched, a negative share or coin amount, a zero
    divisor); nothing else can go wrong (proof: AllianceProofs/FailModes, the judgment `Errs S m`) -/
theorem callback_failure_modes (v : ValId) (f : Dec) (w : World) (e : Err) (h : (step (.slash v f) w).1 = .error e) :
    e ∈ hookModes := (beforeValidatorSlashed_errs v f).run w e h

/-- in every state where the redelegation stores agree (INV-R: every state of every history) the "record not found" mode
    is excluded too: every index key the callback walks has its record -/
theorem callback_failure_modes_in_reachable_states (v : ValId) (f : Dec) (w0 w : World) (h0 : RX w0) (hr : ReachR w0 w)
    (e : Err) (h : (step (.slash v f) w).1 = .error e) : e ∈ hookModesReachable :=
  slash_hook_failure_modes v f w (reach_rx w0 w h0 hr) e h

/-- the lists, spelled out -/
example : hookModes = [.err "invalid_fraction", .err "other", .err "no_validator", .err "unknown_asset", .err "no_delegation",
    .err "insufficient_funds", .err "oracle_exhausted", .err "oracle_mismatch", .panic "neg_dec_coin", .panic "neg_coin",
    .panic "div_zero"] := rfl
example : hookModesReachable = [.err "invalid_fraction", .err "no_validator", .err "unknown_asset", .err "no_delegation",
    .err "insufficient_funds", .err "oracle_exhausted", .err "oracle_mismatch", .panic "neg_dec_coin", .panic "neg_coin",
    .panic "div_zero"] := rfl

/-- fact (regenerated from keeper/hooks.go on every run): the bodies of the staking hooks, statement by statement (first source
    line of each) — the callback is `SlashValidator` then `QueueAssetRebalanceEvent` with nothing in front of it, the five
    stake-changing events queue a rebalance, the others do nothing. An added early return (e.g. "skip validators that are
    not bonded"), a dropped or reordered call breaks this `rfl` -/
theorem hook_bodies_as_modelled : Generated.hookStatements = [
  ("AfterValidatorCreated", ["return nil"]),
  ("BeforeValidatorModified", ["return nil"]),
  ("AfterValidatorRemoved", ["err = h.k.DeleteValidatorInfo(ctx, valAddr)", "if err != nil {", "return h.k.QueueAssetRebalanceEvent(ctx)"]),
  ("AfterValidatorBonded", ["return h.k.QueueAssetRebalanceEvent(ctx)"]),
  ("AfterValidatorBeginUnbonding", ["return h.k.QueueAssetRebalanceEvent(ctx)"]),
  ("BeforeDelegationCreated", ["return nil"]),
  ("BeforeDelegationSharesModified", ["return nil"]),
  ("BeforeDelegationRemoved", ["return h.k.QueueAssetRebalanceEvent(ctx)"]),
  ("AfterDelegationModified", ["return h.k.QueueAssetRebalanceEvent(ctx)"]),
  ("BeforeValidatorSlashed", ["err := h.k.SlashValidator(ctx, valAddr, fraction)", "if err != nil {", "return h.k.QueueAssetRebalanceEvent(ctx)"]),
  ("AfterValidatorSlashed", []),
  ("AfterUnbondingInitiated", ["return nil"])
] := rfl


/-- the unbonding part of the slash callback cannot fail: for a fraction in [0, 1], wherever the module's custody covers the
    pending unbondings (C01's invariant, `cover_of_gap`) and no pending balance is negative (`reach_nq`), every cut is
    between 0 and the entry's balance and every transfer of a cut to the fee collector is covered -/
theorem unbonding_part_never_fails (v : ValId) (f : Dec) (hf0 : 0 ≤ f) (hf1 : f ≤ one) (w : World)
    (hs : QSorted w) (hn : NonnegQ w) (hc : Cover w) : ∃ w', slashUndelegations v f w = (.ok (), w') :=
  slashUndelegations_ok v f hf0 hf1 w hs hn hc


/-- a state whose asset share total (25) is below the validators' sum (26 + 4), with a pending redelegation out of validator 0 -/
def wNeg : World :=
  { (default : World) with
    time := 100,
    assets := [(1, { (default : Asset) with denom := 1, weight := one, wmin := 0, wmax := 2 * one, totalTokens := 30, totalValShares := 25 * one, startTime := 1000, changeRate := one, isInit := true })],
    vals := [(0, { hist := [], totalDelShares := [(1, 10 * one)], valShares := [(1, 26 * one)] }),
             (1, { hist := [], totalDelShares := [(1, 10 * one)], valShares := [(1, 4 * one)] })],
    dels := [((10, 0, 1), { del := 10, val := 0, denom := 1, shares := 10 * one, hist := [], lastClaimHeight := 0 }),
             ((10, 1, 1), { del := 10, val := 1, denom := 1, shares := 10 * one, hist := [], lastClaimHeight := 0 })],
    redels := [((10, 1, 1, 500), { del := 10, src := 0, dst := 1, denom := 1, amount := 3 })],
    redelQueue := [(500, [{ del := 10, src := 0, dst := 1, denom := 1, amount := 3 }])],
    redelIndex := [(0, 500, 1, 1, 10)],
    bank := [((accModule, 1), 30)],
    staking := { bondDenom := 9, unbondingTime := 50, vals := [(0, { status := 3, jailed := false, tokens := 100, delShares := 100 * one, modShares := none }), (1, { status := 3, jailed := false, tokens := 100, delShares := 100 * one, modShares := none })] },
    params := { rewardDelay := 0, takeRateInterval := 1, lastTakeRateClaim := 0 } }

/-- the slash callback panics when the asset's share total (25), already below the validators' sum (26 + 4) by D13's drift,
    goes NEGATIVE as a total slash takes the validator's own 26 shares off it: the conversion for the redelegation destination
    that follows builds a negative coin (known finding D22 `negative_share_total`); the partial state keeps the negative total -/
theorem callback_panics_when_the_share_total_goes_negative :
    (step (.slash 0 one) wNeg).1.toBool = false ∧
    (getAsset (step (.slash 0 one) wNeg).2 1).map (·.totalValShares) = some (-one) ∧
    (step (.slash 0 one) wNeg).2.flag = false := by
  refine ⟨by decide +kernel, by decide +kernel, by decide +kernel⟩

end C08
end Alliance
