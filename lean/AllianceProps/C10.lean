/-
  C10 — Voting power: triggers and pairing (what is proved so far).
  The rebalancer's arithmetic is mirrored by the model (EndBlock.lean) and compared with the real staking keeper on
  every end-of-block step; the per-validator target is checked by the monitor on every observed rebalance.
-/
import AllianceProofs
import Generated.Facts
namespace Alliance
namespace C10
open Dec

/-- fact (regenerated from the source on every run): every staking hook through which stake or bond status changes
    queues a rebalance — including `BeforeDelegationRemoved` (the only hook x/staking calls when a delegation is
    removed entirely; repaired by a `fix:` commit, D5) -/
theorem stake_changing_hooks_queue_rebalance :
    ∀ h ∈ ["AfterDelegationModified", "BeforeDelegationRemoved", "AfterValidatorBonded", "AfterValidatorBeginUnbonding",
           "AfterValidatorRemoved", "BeforeValidatorSlashed"], (h, true) ∈ Generated.hookQueuesRebalance := by decide

/-- fact: the alliance hooks are registered with the staking keeper and the alliance end blocker runs after staking's -/
theorem wiring : Generated.allianceHooksRegistered = true ∧ Generated.endBlockerAfterStaking = true := by decide

/-- in the model every hook operation that stands for such an event sets the flag -/
theorem hook_ops_queue (w : World) :
    (step .hookDelegationModified w).2.flag = true ∧ (step .hookDelegationRemoved w).2.flag = true ∧
    (step .hookValidatorBonded w).2.flag = true ∧ (step .hookValidatorBeginUnbonding w).2.flag = true :=
  ⟨rfl, rfl, rfl, rfl⟩

/-- the user operations queue a rebalance when they succeed -/
theorem delegate_queues (del : Acct) (val : AVal) (d : Denom) (amt : Int) (w : World)
    (h : (delegate del val d amt w).1 = .ok ()) : (delegate del val d amt w).2.flag = true := by
  have key : Triple (fun _ => True) (delegate del val d amt) (fun _ w' => w'.flag = true) (fun _ => True) := by
    unfold delegate
    apply Triple.bind (R := fun _ _ => True) (fun w hw => by simp)
    intro w0
    split
    · exact Triple.throwE _ (fun _ _ => trivial)
    · have skip : ∀ {α} (m : M α), Triple (fun _ => True) m (fun _ _ => True) (fun _ => True) := by
        intro α m w _
        rcases m w with ⟨r, w'⟩
        cases r <;> trivial
      apply Triple.bind (skip _); intro _
      apply Triple.bind (skip _); intro _
      apply Triple.bind (skip _); intro _
      apply Triple.bind (skip _); intro _
      apply Triple.bind (skip _); intro _
      apply Triple.bind (skip _); intro _
      apply Triple.bind (skip _); intro _
      apply Triple.bind (skip _); intro _
      exact Triple.modifyW _ (fun _ _ => rfl)
  have := key w trivial
  rcases hd : delegate del val d amt w with ⟨r, w'⟩
  rw [hd] at this h
  cases r with
  | ok u => exact this
  | error e => cases h

/-- "unbonded or jailed validators are neither counted nor adjusted": a validator that x/staking does not report as bonded
    when the rebalancing starts keeps its whole x/staking record (tokens, shares, the module's delegation) through a
    successful `RebalanceBondTokenWeights`, whatever the assets, weights and stakes: the loop delegates to / unbonds from
    the validators whose snapshot says bonded only (proof: AllianceProofs/RebalanceFrame) -/
theorem rebalance_never_adjusts_a_validator_that_is_not_bonded (assets : List Asset) (u : ValId) (w w' : World)
    (hu : ∀ sv, getSVal w u = some sv → sv.isBonded = false)
    (h : rebalanceBondTokenWeights assets w = (.ok (), w')) : getSVal w' u = getSVal w u :=
  rebalance_leaves_unbonded_alone assets u w w' hu h

/-- triggers: a successful delegation, undelegation, redelegation or slash callback, and each staking event the module
    hooks into, leaves the rebalance flag set — the next end-of-block rebalances (proof: AllianceProofs/FlagSet) -/
theorem stake_changes_queue_a_rebalance (op : Op) (w w' : World)
    (hop : match op with
      | .delegate .. | .undelegate .. | .redelegate .. | .slash .. | .hookDelegationModified | .hookValidatorBonded
      | .hookValidatorBeginUnbonding | .hookDelegationRemoved | .hookValidatorRemoved _ => True
      | _ => False)
    (h : step op w = (.ok (), w')) : w'.flag = true := stake_change_sets_flag op w w' hop h

end C10
end Alliance
