/-
  C10 — Voting power: triggers and pairing (what is proved so far).
  The rebalancer's arithmetic is mirrored by the model (EndBlock.lean) and compared with the real staking keeper on
  every end-of-block step; the per-validator target is checked by the monitor on every observed rebalance.
-/
import AllianceProofs
import Generated.Tables
import Generated.Facts
namespace Alliance
namespace C10
open Dec

/-- fact (regenerated from the source on every run): every staking hook through which stake or bond status changes
    queues a rebalance — including `BeforeDelegationRemoved` (the only hook x/staking calls when a delegation is
    removed entirely; repaired by a `fix:` commit, D5) -/
theorem stake_changing_hooks_queue_rebalance :
    ∀ h ∈ ["AfterDelegationModified", "BeforeDelegationRemoved", "AfterValidatorBonded", "AfterValidatorBeginUnbonding",
           "AfterValidatorRemoved", "BeforeValidatorSlashed"], (h, true) ∈ Generated.hookQueuesRebalance := by decide

/-- fact: the alliance hooks are registered with the staking keeper and the alliance end blocker runs after staking's -/
theorem wiring : Generated.allianceHooksRegistered = true ∧ Generated.endBlockerAfterStaking = true := by decide

/-- in the model every hook operation that stands for such an event sets the flag -/
theorem hook_ops_queue (w : World) :
    (step .hookDelegationModified w).2.flag = true ∧ (step .hookDelegationRemoved w).2.flag = true ∧
    (step .hookValidatorBonded w).2.flag = true ∧ (step .hookValidatorBeginUnbonding w).2.flag = true :=
  ⟨rfl, rfl, rfl, rfl⟩

/-- the user operations queue a rebalance when they succeed -/
theorem delegate_queues (del : Acct) (val : AVal) (d : Denom) (amt : Int) (w : World)
    (h : (delegate del val d amt w).1 = .ok ()) : (delegate del val d amt w).2.flag = true := by
  have key : Triple (fun _ => True) (delegate del val d amt) (fun _ w' => w'.flag = true) (fun _ => True) := by
    unfold delegate
    apply Triple.bind (R := fun _ _ => True) (fun w hw => by simp)
    intro w0
    split
    · exact Triple.throwE _ (fun _ _ => trivial)
    · have skip : ∀ {α} (m : M α), Triple (fun _ => True) m (fun _ _ => True) (fun _ => True) := by
        intro α m w _
        rcases m w with ⟨r, w'⟩
        cases r <;> trivial
      apply Triple.bind (skip _); intro _
      apply Triple.bind (skip _); intro _
      apply Triple.bind (skip _); intro _
      apply Triple.bind (skip _); intro _
      apply Triple.bind (skip _); intro _
      apply Triple.bind (skip _); intro _
      apply Triple.bind (skip _); intro _
      apply Triple.bind (skip _); intro _
      exact Triple.modifyW _ (fun _ _ => rfl)
  have := key w trivial
  rcases hd : delegate del val d amt w with ⟨r, w'⟩
  rw [hd] at this h
  cases r with
  | ok u => exact this
  | error e => cases h

/-- "unbonded or jailed validators are neither counted nor adjusted": a validator that x/staking does not report as bonded
    when the rebalancing starts keeps its whole x/staking record (tokens, shares, the module's delegation) through a
    successful `RebalanceBondTokenWeights`, whatever the assets, weights and stakes: the loop delegates to / unbonds from
    the validators whose snapshot says bonded only (proof: AllianceProofs/RebalanceFrame) -/
theorem rebalance_never_adjusts_a_validator_that_is_not_bonded (assets : List Asset) (u : ValId) (w w' : World)
    (hu : ∀ sv, getSVal w u = some sv → sv.isBonded = false)
    (h : rebalanceBondTokenWeights assets w = (.ok (), w')) : getSVal w' u = getSVal w u :=
  rebalance_leaves_unbonded_alone assets u w w' hu h

/-- triggers: a successful delegation, undelegation, redelegation or slash callback, and each staking event the module
    hooks into, leaves the rebalance flag set — the next end-of-block rebalances (proof: AllianceProofs/FlagSet) -/
theorem stake_changes_queue_a_rebalance (op : Op) (w w' : World)
    (hop : match op with
      | .delegate .. | .undelegate .. | .redelegate .. | .slash .. | .hookDelegationModified | .hookValidatorBonded
      | .hookValidatorBeginUnbonding | .hookDelegationRemoved | .hookValidatorRemoved _ => True
      | _ => False)
    (h : step op w = (.ok (), w')) : w'.flag = true := stake_change_sets_flag op w w' hop h

/-! ## the target, and what a top-up is worth -/

/-- the target of a bonded validator is, literally, Σ over the started assets of
    Mul(Quo(validator's shares of the asset, the asset's BONDED share total), weight × native bonded stake): the loop of
    `RebalanceBondTokenWeights` that computes `expectedBondAmount` (the fold below is that loop, as it stands in the model)
    returns `acc + targetOf …`; assets in their warm-up contribute 0 (`targetTerm`) -/
theorem expected_stake_is_the_weighted_sum (now : Time) (native : Int) (unbonded : DecCoins) (info : ValInfo)
    (assets : List Asset) (acc : Dec) :
    Hoare (fun _ => True)
      (assets.foldlM (fun (acc : Dec) (a : Asset) => do
        if !rewardsStarted a now then
          queueRebalance
          pure acc
        else
          let vs := valSharesWithDenom info a.denom
          let expForAsset := mulInt a.weight native
          let bondedVS := a.totalValShares - DecCoins.amountOf unbonded a.denom
          if vs > 0 ∧ bondedVS > 0 then pure (acc + mul (quo vs bondedVS) expForAsset) else pure acc) acc)
      (fun r _ => r = acc + targetOf now native unbonded info assets) := expected_loop now native unbonded info assets acc

/-- what `stakingKeeper.Delegate` writes for the module account: tokens + amt, shares + ⌊D·amt/T⌋ on both the validator and
    the module's delegation -/
theorem top_up_record (v : ValId) (snap : SVal) (amt : Int) :
    Hoare (fun _ => True) (stakingDelegate v snap amt) (fun _ w' => ∃ live0 : Option Dec,
      getSVal w' v = some { snap with
        tokens := snap.tokens + amt
        delShares := snap.delShares + (if snap.delShares = 0 then ofInt amt else quoInt (mulInt snap.delShares amt) snap.tokens)
        modShares := some (live0.getD 0 + (if snap.delShares = 0 then ofInt amt else quoInt (mulInt snap.delShares amt) snap.tokens)) }) :=
  stakingDelegate_record v snap amt

/-- a top-up is worth what was minted: with `ds` of the validator's `D` shares backed by `T` tokens, delegating `amt` moves the
    module's stake value (as an exact rational) from ds·T/D to a value in (ds·T/D + amt − T/(D+i), ds·T/D + amt] — short by
    less than the value of one 10⁻¹⁸ share, which goes to the other delegators; cross-multiplied by D·(D+i) -/
theorem top_up_is_worth_what_was_minted (snap : SVal) (ds : Dec) (amt : Int) (hT : 0 < snap.tokens) (hD : 0 < snap.delShares)
    (hds0 : 0 ≤ ds) (hds : ds ≤ snap.delShares) (hamt : 0 ≤ amt) :
    let i := quoInt (mulInt snap.delShares amt) snap.tokens
    (ds + i) * (snap.tokens + amt) * snap.delShares ≤ (ds * snap.tokens + amt * snap.delShares) * (snap.delShares + i) ∧
    (ds * snap.tokens + amt * snap.delShares) * (snap.delShares + i) <
      (ds + i) * (snap.tokens + amt) * snap.delShares + snap.tokens * snap.delShares :=
  top_up_value snap ds amt hT hD hds0 hds hamt

/-- non-vacuity: 3 of 10 shares backed by 10 tokens, top-up of 5: value 3 → 3 + 5 exactly (i = 5) -/
example : let i := (10 * 5 : Int) / 10
    (3 + i) * (10 + 5) * 10 ≤ (3 * 10 + 5 * 10) * (10 + i) ∧ (3 * 10 + 5 * 10) * (10 + i) < (3 + i) * (10 + 5) * 10 + 10 * 10 := by decide


/-- the arithmetic of a rebalance-DOWN in x/staking's share model: the module holds `ds` of a validator's `D` shares backed
    by `T` tokens and unbonds `sh` of them for x = ⌊sh·T/D⌋ tokens, which are burned. As exact rationals its stake value moves
    from ds·T/D to (ds−sh)·(T−x)/(D−sh) ∈ (ds·T/D − x − D/(D−sh), ds·T/D − x]: what is burned is what the stake lost, up to
    the truncation of x — cross-multiplied by D·(D−sh) -/
theorem rebalance_down_is_worth_what_was_burned (ds sh T D : Int) (hD : 0 < D) (hds0 : 0 ≤ ds) (hds : ds ≤ D)
    (hsh0 : 0 ≤ sh) (hT : 0 ≤ T) :
    let x := (T * sh) / D
    (ds - sh) * (T - x) * D ≤ (ds * T - x * D) * (D - sh) ∧
    (ds * T - x * D) * (D - sh) < (ds - sh) * (T - x) * D + D * D :=
  stake_value_after_unbond ds sh T D hD hds0 hds hsh0 hT

/-- non-vacuity: 8 of 10 shares backed by 15 tokens, 3 shares unbonded for ⌊4.5⌋ = 4 tokens: value 12 → 5·11/7 ≈ 7.86 ∈ (6.57, 8] -/
example : let x := (15 * 3 : Int) / 10
    (8 - 3) * (15 - x) * 10 ≤ (8 * 15 - x * 10) * (10 - 3) ∧ (8 * 15 - x * 10) * (10 - 3) < (8 - 3) * (15 - x) * 10 + 10 * 10 := by decide


/-- the chain from "expected" to "carried", link 1: the stake value the rebalancer reads, `current` = Quo(ds·T, D) for the module's
    `ds` of the validator's `D` shares backed by `T` tokens, is the share value ds·T/D to within (½ + 10⁻¹⁸) units of the 18th
    digit -/
theorem current_stake_is_the_share_value (ds D : Dec) (T : Int) (hds : 0 ≤ ds) (hT : 0 ≤ T) (hD : 0 < D) :
    quo (mulInt ds T) D * P * D ≤ mulInt ds T * P2 + H * D ∧ mulInt ds T * P2 ≤ quo (mulInt ds T) D * P * D + (H + 1) * D :=
  quo_bounds (mulInt ds T) D (by unfold mulInt; exact Int.mul_nonneg hds hT) hD

/-- link 2: the amount minted and delegated (or unbonded and burned) is the floor of the gap between expected and current:
    amt·10¹⁸ ≤ gap < (amt+1)·10¹⁸ — so after link 3 (`top_up_is_worth_what_was_paid` / `rebalance_down_is_worth_what_was_burned`: the
    stake moves by the amount to within the value of one 10⁻¹⁸ share, resp. the truncation of the burned tokens) the validator
    carries its target to within one base unit below and a rounding above: inside the property's two base units -/
theorem rebalance_amount_is_the_floor_of_the_gap (gap : Dec) (hg : 0 ≤ gap) :
    truncateInt gap * P ≤ gap ∧ gap < (truncateInt gap + 1) * P := truncateInt_bounds gap hg


/-- fact (regenerated from x/alliance/abci.go on every run): the end blocker's body, statement by statement — no early return
    before the rebalance (seeded changes C10-c / C10-j return early when no alliance is registered; the rebalance with an empty
    asset list is what takes the minted stake off the validators) -/
theorem end_blocker_body_as_modelled : Generated.endBlockStatements = ["defer telemetry.ModuleMeasureSince(types.ModuleName, ctx.BlockTime(), telemetry.MetricKeyEndBlocker)", "k.CompleteRedelegations(ctx)", "if err := k.CompleteUnbondings(ctx); err != nil {", "assets := k.GetAllAssets(ctx)", "if err := k.InitializeAllianceAssets(ctx, assets); err != nil {", "if _, err := k.DeductAssetsHook(ctx, assets); err != nil {", "if err := k.RewardWeightChangeHook(ctx, assets); err != nil {", "if err := k.RebalanceHook(ctx, assets); err != nil {", "return nil"] := rfl

end C10
end Alliance
