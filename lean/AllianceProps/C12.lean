/-
  C12 — Reward pool solvency. The full statement is FALSE for this code (known findings: after a slash or take-rate
  deduction the entitlements already accrued are re-priced — D6 `pool_short_after_value_change`; with ≥ 10¹⁵ base
  units staked the rounded per-token index over-entitles — `pool_short_large_stake`). Proved are the accounting
  facts the solvency argument rests on, each for every state and argument:
  * `forwarded_rewards_enter_pool_whole`: what is withdrawn for a validator with alliance stake goes to the reward
    pool in full — the pool's balance of every denom grows by exactly the coins, the custody account's falls by them,
    nobody else's balance moves;
  * `rewards_without_stake_stay_in_custody`: for a validator without delegator shares nothing is indexed or moved;
  * `payouts_are_never_negative`: a claim can only take from the pool what `NewCoin` accepts, i.e. ≥ 0 per denom;
  * `index_bump_adds`: the per-token index of (reward denom, alliance) grows by exactly the quotient it is given —
    amount · normalisedWeight / validatorTokens in `AddAssetsToRewardPool`, the quantity the C13 split monitor
    recomputes in exact rationals;
  * `settled_position_is_owed_nothing` (C13): a position whose indices equal the validator's is owed nothing.
  Concrete histories are decided by the claim-all probe (`pool_short`) on a discarded branch after every step.
-/
import AllianceProofs
import AllianceProps.C13
namespace Alliance
namespace C12
open Dec

theorem forwarded_rewards_enter_pool_whole (val : AVal) (coins : Coins) (w w' : World) (v' : AVal)
    (h : addAssetsToRewardPool val coins w = (.ok v', w')) (hs : val.info.totalDelShares.length ≠ 0) (acct : Acct) (d : Denom) :
    bankBalance w' acct d = bankBalance w acct d
      + (if acct = accPool then Coins.sumOf coins d else 0) - (if acct = accModule then Coins.sumOf coins d else 0) := by
  have := ((addAssetsToRewardPool_balT val coins acct d hs).run w w' v' h trivial).1
  omega

theorem rewards_without_stake_stay_in_custody (val : AVal) (coins : Coins) (w : World)
    (hs : val.info.totalDelShares.length = 0) : addAssetsToRewardPool val coins w = (.ok val, w) := by
  unfold addAssetsToRewardPool
  simp only [hs, if_true, pure_apply]

theorem payouts_are_never_negative (w : World) (dl : Delegation) (info : ValInfo) (a : Asset) (r : Coins)
    (h' : List RewardHistory) (h : calculateDelegationRewards w dl info a = .ok (r, h')) (d : Denom) :
    0 ≤ Coins.sumOf r d := calculateDelegationRewards_nonneg w dl info a r h' h d

/-- the index of an existing (denom, alliance) entry grows by exactly the amount given; other entries are untouched -/
theorem index_bump_adds (hist : List RewardHistory) (d : Denom) (al : Option Denom) (diff : Dec) :
    (histFind (histBump hist d al diff) d al).map (·.index) =
      some (((histFind hist d al).map (·.index)).getD 0 + diff) := by
  unfold histFind
  induction hist with
  | nil => simp [histBump]
  | cons r t ih =>
    unfold histBump
    by_cases hm : (r.denom == d && r.alliance == al) = true
    · simp only [hm, if_true, List.find?_cons, Option.map_some, Option.getD_some]
    · simp only [hm, Bool.false_eq_true, if_false, List.find?_cons]
      exact ih

theorem settled_position_is_owed_nothing (w : World) (dl : Delegation) (info : ValInfo) (a : Asset) (t : Int)
    (ht : delegationTokensWithShares dl.shares info a = .ok t)
    (hsettled : histFilterByAlliance dl.hist a.denom = histFilterByAlliance info.hist a.denom)
    (hu : C13.Unique (histFilterByAlliance info.hist a.denom))
    (hsnap : snapshotsFrom w a.denom dl.val dl.lastClaimHeight = []) :
    calculateDelegationRewards w dl info a = .ok ([], histFilterByAlliance info.hist a.denom) :=
  C13.second_claim_pays_nothing w dl info a t ht hsettled hu hsnap

/-- debit side: a successful end-of-block — take rate, weight decay with its settlement of every validator, rebalancing with
    its claims of validator rewards, payouts — never lowers the rewards pool's balance of any denom, for non-negative
    distribution responses and no pending entry naming the pool as delegator: the pool is debited by reward claims only
    (proof: AllianceProofs/PoolUp, a monotone-observable judgment that also carries the non-negativity of the response tape
    and of each response taken off it) -/
theorem end_block_never_debits_the_pool (d : Denom) (w w' : World) (ho : OracleNonneg w)
    (hq : ∀ p ∈ w.undelQueue, ∀ e ∈ p.2, e.del ≠ accPool) (h : endBlocker w = (.ok (), w')) :
    bankBalance w accPool d ≤ bankBalance w' accPool d := endBlocker_never_debits_pool d w w' ho hq h

/-- a claim pays the claimant, in every denom, exactly the coins `CalculateDelegationRewards` computed -/
theorem claim_pays_exactly_what_was_calculated (del : Acct) (hu : IsUser del) (val : AVal) (dn d : Denom)
    (w w' : World) (r : Coins × AVal) (h : claimDelegationRewards del val dn w = (.ok r, w')) :
    bankBalance w' del d = bankBalance w del d + Coins.sumOf r.1 d := claimDelegationRewards_pays del hu val dn d w w' r h


/-- what one index move promises: with m = Mul(c, nw) the asset's part of a reward of c base units and bump = Quo(m, tt) the
    index move for token value tt on the validator, bump·tt is m to within (H+1)·tt/10³⁶ and m is c·nw to within ½·10⁻¹⁸ — the
    promise exceeds the part by at most half a unit of the 18th digit per token staked (the resolution limit behind the
    known finding `pool_short_large_stake`) -/
theorem index_move_promises_the_part (c : Int) (nw tt : Dec) (hc : 0 ≤ c) (hnw : 0 ≤ nw) (htt : 0 < tt) :
    let m := mul (ofInt c) nw
    let bump := quo m tt
    bump * P * tt ≤ m * P2 + H * tt ∧ m * P2 ≤ bump * P * tt + (H + 1) * tt ∧
    ofInt c * nw - H ≤ m * P ∧ m * P ≤ ofInt c * nw + H := bump_promise_bound c nw tt hc hnw htt

end C12
end Alliance
